#!/usr/bin/env python3
"""Regenerates MANIFEST.json from the table below (run after claiming a property)."""
import json, os, sys

ROOT = os.path.dirname(os.path.dirname(os.path.abspath(__file__)))

# property -> (claimed?, level text, level note, technique, design ref)
T = {
 "C01": ("Lean theorems for every n: NOT/AND/OR/XOR kernels are pointwise on every assignment, preserve well-formedness, all 8 binary and 4 unary "
         "syntactic forms of both types reduce to the same kernel and a size mismatch panics; the hand-written model is tied to /repo on every run by a "
         "differential run of all forms on Lut and LutN (n = 0..14) and a bitwise oracle on the real code searches for a failing input.",
         "Trust: Lean kernel, model-to-code tie is sampled differential testing (not exhaustive), harness/driver.",
         "Lean 4 proof of the model + model/implementation differential run + oracle on the real code", "5 (C01)"),
 "C02": ("Lean theorems: well-formedness is an invariant of every modelled public constructor/mutator (induction over API histories), and for well-formed "
         "tables structural equality, cmp = eq and equal block views coincide with extensional equality; tie: random API histories (1..12 calls over 4 registers) run "
         "on model and code with all blocks compared after every step; oracle checks block count, no bit >= 2^n, ==/cmp vs value-wise comparison.",
         "Trust: as C01; the list of Reachable constructors is hand-maintained against lut.rs/static_lut.rs.",
         "Lean 4 invariant proof by induction over operations + history differential run", "5 (C02)"),
 "C03": ("Lean theorems for every n, i, j and all three storage regimes: flip/swap/cofactor/from_cofactors are bit-exact (in-word regimes from kernel-decided facts about "
         "VAR_MASK/SWAP_INPUT_MASKS regenerated from the source, cross-word regimes from a generic in-place pair-loop lemma), Shannon recomposition is the identity; "
         "tie: differential run over all (i, j) for n <= 8 and sampled to 14; oracle evaluates the definitions assignment by assignment.",
         "Trust: as C01; mask tables are translated from the source on every run (T1).",
         "Lean 4 proof (bit-level, unbounded n) + regenerated constant tables + differential run", "5 (C03)"),
 "C04": ("Lean theorems for every n (P: every n; N, NPN: n <= 64; the property asks for n <= 8): P/N/NPN canonization never panics; the representative is the image of f under the "
         "returned certificate and is numerically <= the image of f under EVERY permutation / EVERY complementation mask of n+1 bits / every pair (full orbit minimum); "
         "hence two functions have the same representative exactly when one is the image of the other under the group, and a representative is its own representative. "
         "Proof: walk invariant (minimum over the visited group elements) + coverage: the permutations / masks before each step are pairwise distinct and there are n! / 2^n of them - "
         "kernel-evaluated on the FLIPS/SWAPS tables regenerated from the source (n <= 6), proved for the run-time generators for every n (reflected Gray code; Steinhaus-Johnson-Trotter order, by induction along the generator's recursion) - and a duplicate-free list of n! permutations "
         "contains them all (one Mathlib module, List.permutations); tie: hooks exposing the sequences reported and actually walked + differential run on results (in the quick tier the NPN walk of 8 variables is run on the code and judged by the oracle only - one orbit, one representative, no sampled orbit member smaller, certificate replays; the model follows it in the thorough tier); oracle: independent orbit enumeration.",
         "Trust: as C01; Lemmas/Count.lean imports Mathlib.Data.List.Permutation (axioms still propext, Classical.choice, Quot.sound).",
         "Lean 4 proof (walk invariant + kernel-evaluated Hamiltonicity of the sequences in use + counting) + differential run + orbit oracle", "5 (C04)"),
 "C05": ("Lean theorems: the (perm, mask) rebuilt from best_ind is the group element reached at that index of the walk, so applying it to the input gives the returned table; "
         "perm is a permutation, mask < 2^(n+1), P uses no mask, N the identity; for every n (N, NPN: n <= 64); tie: raw witnesses compared between model and code; oracle: independent certificate evaluator.",
         "Trust: as C04.", "Lean 4 proof (joint invariant of walk and replay) + differential run on raw witnesses + certificate oracle", "5 (C05)"),
 "C06": ("Lean theorems for every n, v: each of the eight helper predicates is equivalent to its cofactor definition over all assignments (both in-word and cross-word paths), "
         "and the priority chain equals the case list of the property; tie: differential run for all v, n <= 12; oracle: cofactors computed assignment by assignment.",
         "Trust: as C01.", "Lean 4 proof + differential run + definitional oracle", "5 (C06)"),
 "C07": ("Lean theorems: bdd_complexity of a list of functions equals the number of non-literal nodes of their shared reduced ordered BDD with complemented edges (variable n-1 at the root), "
         "the BDD being an explicit datatype built by Shannon expansion with the reduction and complement-edge normal-form rules (Lemmas/Robdd.lean: canonicity mk_inj, node characterisation mem_nodes_mk, level-by-level count); "
         "per-level extraction, normalisation, filters and sort+dedup count the distinct normalised sub-functions that depend on the level variable and are not a literal; hence invariance under order, duplicates and complement; "
         "static = dynamic, panic exactly on mixed sizes; tie: differential run on lists of 0..4 functions, n <= 11; oracle: an independent unique-table ROBDD node count on the real code.",
         "Trust: as C01; the ROBDD of the theorem is the definition `Robdd.mk` (textbook construction, stated in the file).",
         "Lean 4 proof (explicit ROBDD datatype, canonicity, counting) + differential run + ROBDD oracle", "5 (C07)"),
 "C08": ("Lean theorems: cmp is numeric comparison of the little-endian table value (total order, agrees with equality), the successor step is +1 modulo 2^(2^n) with the returned flag = no wrap, "
         "including carries across words, the iterator yields the k-th function at step k and then stops, the provided Iterator methods (nth, skip, step_by, count, last) select exactly the items of that enumeration, and for equal n the order is the byte order of the fixed-width hex strings (Props/C08Hex.lean); tie: hook verif_next + differential run incl. all-ones low words; oracle: own big-integer arithmetic.",
         "Trust: as C01.", "Lean 4 proof + hook-driven differential run + big-integer oracle", "5 (C08)"),
 "C09": ("Lean theorems: printing has exact width and the digits are the bits MSB first; the parser accepts exactly the strings of the right length made of hex digits whose value fits, and parse(print t) = t; "
         "it never panics and never yields a malformed table; tie: differential run on printed, mutated and arbitrary byte strings (incl. '+', '-', non-ASCII); oracle: reference parser/printer.",
         "Trust: as C01; Rust's format!/from_str_radix are modelled by hand.", "Lean 4 proof + byte-string differential run + reference parser", "5 (C09)"),
 "C10": ("Lean theorems: every StaticLut wrapper equals the dynamic wrapper on the same table (the two API layers unfold to the same kernels), conversions are lossless and fail exactly on a size mismatch, "
         "integer conversions are bit-exact bijections; tie: three-way comparison LutN / Lut / model on the same operations for N = 0..12.",
         "Trust: as C01.", "Lean 4 proof + three-way differential run", "5 (C10)"),
 "C11": ("Lean theorems for every n and every k (no bound): zero/one/nth_var/symmetric/equals/threshold/parity/majority have exactly the stated value on every assignment and are well formed "
         "(from the kernel-decided characterisation of COUNT_MASKS regenerated from the source and a popcount split lemma); tie: differential run with k in 0..n+2 and {63,64,65,usize::MAX}; oracle: popcount definition.",
         "Trust: as C01.", "Lean 4 proof + regenerated COUNT_MASKS + differential run + popcount oracle", "5 (C11)"),
 "C12": ("Lean theorems on 32-bit literal masks: value, &, implies, intersects, implies_lut, minterm, from_mask and the enumeration are semantic; equality of normalised cubes is semantic equality; "
         "tie: differential run exhaustive for n <= 3 (pairs, assignments), sampled to 32 variables; oracle: truth-table semantics.",
         "Trust: as C01.", "Lean 4 proof (BitVec 32) + differential run + truth-table oracle", "5 (C12)"),
 "C13": ("Lean theorems: exclusive-cube value is parity xor flag, ^ and ! are XOR and complement, equality is semantic, enumeration complete; Soes value is OR, | concatenates, conversion tabulates, "
         "is_zero/is_one sound; tie and oracle as C12.", "Trust: as C01.", "Lean 4 proof + differential run + truth-table oracle", "5 (C13)"),
 "C14": ("Lean theorems: simplify preserves the denoted function and returns a cover with no zero cube, no duplicate and no cube implying another; &, |, ! denote AND, OR, NOT for arbitrary operand cube lists, and so do expressions nesting any number of them (induction over the expression); "
         "is_zero exact, is_one sound; Lut<->Sop round trip; tie: differential run on redundant cube lists comparing cube lists exactly; oracle: Lut semantics + structural checker.",
         "Trust: as C01.", "Lean 4 proof + differential run + semantic/structural oracle", "5 (C14)"),
 "C15": ("Lean theorems: the sweep emits positive cubes in increasing order, each at most once, converting back gives the function (loop invariant of the in-place Moebius sweep), the emitted cubes are exactly the monomials whose ANF coefficient is 1 (uniqueness of duplicate-free positive ESOPs + Moebius inversion over GF(2)), equal functions give equal Esops; ^, ! and is_zero/is_one; "
         "tie: differential run over all functions n <= 3 (quick) / 4 (thorough), random to 10; oracle: ANF coefficients by definition.",
         "Trust: as C01.", "Lean 4 proof (loop invariant, uniqueness, Moebius inversion) + differential run + ANF oracle", "5 (C15)"),
 "C16": ("Lean theorems: the printed text of cubes, exclusive cubes, Sop, Esop, Soes evaluates under the grammar's evaluator to the object's value; tie: strings printed by the real code are compared byte for byte with the model "
         "and read back by an independent parser in the oracle.", "Trust: as C01; the grammar evaluator is a hand-written definition (Spec/EvalText.lean).",
         "Lean 4 proof + byte-exact differential run + independent formula reader", "5 (C16)"),
 "C17": ("Lean theorems: for every index-/table-/slice-taking method of both types the API model returns none (panic) exactly on invalid arguments, and the modelled arithmetic cannot overflow under the guards; "
         "the statement about two compiled binaries is correspondence, not proof: the harness is built twice (debug-assertions+overflow-checks on/off), both run the same valid and invalid calls and both must equal the model's single prediction.",
         "Trust: as C01; two-profile agreement is an exhaustive run over the generated workload, not a theorem.",
         "Lean 4 proof of guard exactness + two-build-profile differential run", "5 (C17)"),
 "C18": ("PARTIAL (only the external solver's optimality is assumed). Lean theorems: the integer programmes SopModeler / EsopModeler build are modelled constraint by constraint (Model/Mip.lean) and proved sound and complete for the cover problem - "
         "every feasible point decodes, by the rule solve() applies, to an OR form by implicants / XOR form of every output whose documented cost is at most the objective value; every such form over the candidates is a feasible point "
         "whose objective value is exactly its cost (the redundant ESOP constraints exclude nothing) - hence an optimal solution denotes the functions exactly and has minimum documented cost among ALL two-level forms over the variables (sop_mip_spec, sop_mip_value, esop_mip_spec, sop_mip_minimal, esop_mip_minimal; continuous variables range over the rationals); "
         "the solver is asked to minimise with the default solver and no option but the thread count (C18Solver.solver_configuration, on Gen/Solver.lean regenerated from mip.rs on every run); candidate sets and the executable exact optimum as before. Tie: hook verif_last_ilp dumps the programme good_lp holds when solve() is called; it is compared constraint by constraint with the model's programme; "
         "the real optimizers (feature optim-mip, HiGHS, built offline) are run on all function lists the property names and compared on exactness and on cost against independent exact optima (one output n <= 3, pairs n <= 2, up to three outputs n = 3).",
         "Trust: as C01 plus HiGHS returning an optimal solution of the programme it is given, good_lp passing it on unchanged, floating-point thresholds, the Debug rendering of good_lp parsed by the harness.",
         "Lean 4 proof (ILP model sound+complete for the cover problem, candidates, cost) + ILP dump vs model + exact optima vs real solver", "5 (C18), 9"),
 "C19": ("PARTIAL. Lean theorems: fill_random is a masked projection of the word stream for every generator, always well formed, every table position is a distinct stream bit, calls use disjoint words; "
         "tie: hook verif_rng injects a word stream that fill_random reads in place of thread_rng - random() of both types, n = 0..12, is compared with the model on exact, longer, shorter, all-ones and all-equal streams (table, words consumed, panic when the stream is too short); "
         "fairness and thread-locality of rand::thread_rng are runtime facts of another crate - covered by the statistical run the property specifies (256 draws x n = 0..12 x both types x 1 and 16 threads: well-formedness, both values at every position, every variable essential in some draw, distinct draws).",
         "Trust: as C01 plus the rand crate; under injection the hook bypasses the expression `thread_rng().next_u64()` (that expression is exercised by the statistical run only).", "Lean 4 proof for every word stream + injected-stream differential run + statistical run on the real generator", "5 (C19), 9"),
}

def main():
    claimed = [l.strip() for l in open(os.path.join(ROOT, "CLAIMED")).read().split() if l.strip()]
    checks = []
    for pid in sorted(T):
        if pid not in claimed:
            continue
        text, note, tech, ref = T[pid]
        checks.append(dict(
            property_id=pid,
            quick_cmd="bin/check %s --tier quick" % pid,
            thorough_cmd="bin/check %s --tier thorough" % pid,
            evidence_file="evidence/%s.json" % pid,
            replay_cmd_template="bin/check %s --replay {path}" % pid,
            engine="lean-model",
            level_claimed=dict(category="proof", text=text, design_ref="DESIGN.md section " + ref),
            level_note=note,
            technique=tech,
        ))
    na = [dict(property_id=p, reason="not claimed in this commit: its theorem file is still under construction (staging in DESIGN.md section 8); no check is registered until the Lean side has closed theorems")
          for p in sorted(T) if p not in claimed]
    m = dict(
        version=1,
        setup_cmd="bin/check --setup",
        hooks=dict(
            guard="--cfg volute_verif",
            enable="harness/.cargo/config.toml sets build.rustflags = [\"--cfg\", \"volute_verif\"]; the harness depends on /repo by path",
            baseline_off_cmd="cd /repo && cargo test --workspace --no-fail-fast --offline",
            source_commits=["d7fd620", "8b90f63", "8cb2ff1", "72470a9"],
            add_only=True,
        ),
        engines=[dict(name="lean-model", path="lean/", serves_properties=sorted(claimed),
                      kind_free_text="Lean 4 model + theorems (lake), compiled driver vmodel; Rust harness harness/ (generators, in-process runner, oracles); python driver bin/check")],
        checks=checks,
        notes="Every check regenerates the constant tables from /repo/src, rebuilds the theorem module (incremental), audits axioms, rebuilds the harness against /repo's working tree with hooks on, "
              "and runs model, implementation and oracle on the same seeded cases. Fixed defects are recorded in known_findings.json.",
        not_applicable=na,
    )
    json.dump(m, open(os.path.join(ROOT, "MANIFEST.json"), "w"), indent=1)
    print("MANIFEST.json: %d checks, %d not claimed" % (len(checks), len(na)))

if __name__ == "__main__":
    main()

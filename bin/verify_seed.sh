#!/bin/bash
# verify_seed.sh <worktree> <outdir>: confirm that a seeded change (patch.diff + demo.rs)
#  (1) applies to a clean tree and compiles, (2) the existing suite stays green with it,
#  (3) the demonstration fails with it and (4) passes without it.
wt=$1; out=$2
cd "$wt" || exit 2
git checkout -q -- . && rm -rf tests
git apply "$out/patch.diff" || { echo "RESULT patch-does-not-apply"; exit 1; }
export CARGO_NET_OFFLINE=true
suite=$(cargo test --offline 2>&1 | grep -E "^test result" | tr '\n' ' ')
mkdir -p tests && cp "$out/demo.rs" tests/demo.rs
with=$(cargo test --offline --test demo 2>&1 | grep -E "^test result" | tr '\n' ' ')
git checkout -q -- src
without=$(cargo test --offline --test demo 2>&1 | grep -E "^test result" | tr '\n' ' ')
rm -rf tests
echo "SUITE-WITH-CHANGE: $suite"
echo "DEMO-WITH-CHANGE: $with"
echo "DEMO-WITHOUT-CHANGE: $without"

//! Direct checks of the property statements on the real code, with evaluators that share
//! nothing with volute (bit-by-bit definitions on `Tab`, own big-integer compare, own ROBDD
//! node counting, own parser/printer, own orbit enumeration).
//!
//! `check(prop, line)` runs the line on the implementation and returns
//!   Ok(true)  - checked, the case is non-trivial
//!   Ok(false) - checked but trivial, or not in the scope of this property (e.g. malformed input)
//!   Err(why)  - the property fails on this case

use crate::implrun::run_line;
use crate::proto::*;
use std::collections::HashSet;

type R = Result<bool, String>;

fn us(s: &str) -> usize {
    s.parse().unwrap()
}

fn hexu(s: &str) -> usize {
    usize::from_str_radix(s, 16).unwrap()
}

fn expect_tab(out: &str, want: &Tab, what: &str) -> Result<(), String> {
    let t: Vec<&str> = out.split_whitespace().collect();
    if t.len() < 2 || t[0] != "ok" {
        return Err(format!("{}: expected a table, implementation says `{}`", what, out));
    }
    let got = parse_tab(t[1]).ok_or_else(|| format!("unparseable `{}`", out))?;
    if &got != want {
        // first differing assignment
        let mut m0 = None;
        if got.w.len() == want.w.len() && got.n == want.n {
            for m in 0..(1usize << want.n) {
                if got.bit(m) != want.bit(m) {
                    m0 = Some(m);
                    break;
                }
            }
        }
        let cut = |s: String| if s.len() > 160 { format!("{}...", &s[..160]) } else { s };
        return Err(format!(
            "{}: expected {} got {} (first differing assignment: {:?})",
            what,
            cut(want.show()),
            cut(got.show()),
            m0
        ));
    }
    Ok(())
}

fn nontrivial(t: &Tab) -> bool {
    !t.is_const()
}

fn popcnt(m: usize) -> usize {
    m.count_ones() as usize
}

// ------------------------------------------------------------------ C01

fn c01(t: &[&str], out: &str) -> R {
    match t[0] {
        "not" => {
            let a = parse_tab(t[3]).unwrap();
            if !a.wf() {
                return Ok(false);
            }
            let want = Tab::from_fn(a.n, |m| !a.bit(m));
            expect_tab(out, &want, "NOT")?;
            Ok(nontrivial(&a))
        }
        "bin" => {
            let a = parse_tab(t[4]).unwrap();
            let b = parse_tab(t[5]).unwrap();
            if !a.wf() || !b.wf() || a.n != b.n {
                return Ok(false);
            }
            let want = Tab::from_fn(a.n, |m| match t[2] {
                "and" => a.bit(m) && b.bit(m),
                "or" => a.bit(m) || b.bit(m),
                _ => a.bit(m) != b.bit(m),
            });
            expect_tab(out, &want, t[2])?;
            Ok(nontrivial(&a) && nontrivial(&b))
        }
        _ => Ok(false),
    }
}

/// the small constructors of the two-level types: the result must denote zero / one / x_v / !x_v
fn fctor(t: &[&str], out: &str) -> R {
    let (ty, name, n, v) = (t[1], t[2], us(t[3]), us(t[4]));
    let o: Vec<&str> = out.split_whitespace().collect();
    if o.len() != 2 || o[0] != "ok" {
        return Err(format!("{} {}: `{}`", ty, name, out));
    }
    let want = |m: usize| match name {
        "zero" => false,
        "one" => true,
        "nthvar" => (m >> v) & 1 != 0,
        _ => (m >> v) & 1 == 0,
    };
    let val: Box<dyn Fn(usize) -> bool> = match ty {
        "ecube" => {
            let (w, x) = parse_raw_ecube(o[1]);
            Box::new(move |m| ecube_val(w, x, m as u32))
        }
        "soes" => {
            let l = parse_raw_ecubes(o[1]);
            Box::new(move |m| l.iter().any(|(w, x)| ecube_val(*w, *x, m as u32)))
        }
        "sop" => {
            let l = parse_raw_cubes(o[1]);
            Box::new(move |m| sop_val(&l, m))
        }
        _ => {
            let l = parse_raw_cubes(o[1]);
            Box::new(move |m| esop_val(&l, m))
        }
    };
    let bits = if ty == "ecube" { 32 } else { n.min(32) };
    let mut assigns: Vec<usize> = vec![0, (1usize << bits) - 1, 0x5555_5555 & ((1usize << bits) - 1), 0xaaaa_aaaa & ((1usize << bits) - 1)];
    for i in 0..bits {
        assigns.push(1usize << i);
        assigns.push(((1usize << bits) - 1) ^ (1usize << i));
    }
    for m in assigns {
        if val(m) != want(m) {
            return Err(format!("{}::{}({}, {}) = {} is {} at assignment {:#x}", ty, name, n, v, o[1], val(m), m));
        }
    }
    Ok(true)
}

// ------------------------------------------------------------------ C03

fn exch(m: usize, i: usize, j: usize) -> usize {
    let bi = (m >> i) & 1;
    let bj = (m >> j) & 1;
    (m & !(1 << i) & !(1 << j)) | (bi << j) | (bj << i)
}

fn c03(t: &[&str], out: &str) -> R {
    match t[0] {
        "flip" => {
            let a = parse_tab(t[3]).unwrap();
            let i = us(t[4]);
            if !a.wf() || i >= a.n {
                return Ok(false);
            }
            let want = Tab::from_fn(a.n, |m| a.bit(m ^ (1 << i)));
            expect_tab(out, &want, "flip")?;
            Ok(nontrivial(&a))
        }
        "swap" | "swapadj" => {
            let a = parse_tab(t[3]).unwrap();
            let i = us(t[4]);
            let j = if t[0] == "swap" { us(t[5]) } else { i.wrapping_add(1) };
            if !a.wf() || i >= a.n || j >= a.n {
                return Ok(false);
            }
            let want = Tab::from_fn(a.n, |m| a.bit(exch(m, i, j)));
            expect_tab(out, &want, t[0])?;
            Ok(nontrivial(&a) && i != j)
        }
        "cof" => {
            let a = parse_tab(t[2]).unwrap();
            let i = us(t[3]);
            if !a.wf() || i >= a.n {
                return Ok(false);
            }
            let w0 = Tab::from_fn(a.n, |m| a.bit(m & !(1 << i)));
            let w1 = Tab::from_fn(a.n, |m| a.bit(m | (1 << i)));
            let o: Vec<&str> = out.split_whitespace().collect();
            if o.len() != 3 || o[0] != "ok" {
                return Err(format!("cofactors: implementation says `{}`", out));
            }
            expect_tab(&format!("ok {}", o[1]), &w0, "cofactor0")?;
            expect_tab(&format!("ok {}", o[2]), &w1, "cofactor1")?;
            // Shannon recomposition gives the function back
            let back = run_line(&format!("fromcof {} {} {} {}", t[1], o[1], o[2], i));
            expect_tab(&back, &a, "from_cofactors(cofactors(f))")?;
            Ok(nontrivial(&a))
        }
        "fromcof" => {
            let c0 = parse_tab(t[2]).unwrap();
            let c1 = parse_tab(t[3]).unwrap();
            let i = us(t[4]);
            if !c0.wf() || !c1.wf() || c0.n != c1.n || i >= c0.n {
                return Ok(false);
            }
            let want = Tab::from_fn(c0.n, |m| if (m >> i) & 1 != 0 { c1.bit(m) } else { c0.bit(m) });
            expect_tab(out, &want, "from_cofactors")?;
            Ok(nontrivial(&c0) || nontrivial(&c1))
        }
        _ => Ok(false),
    }
}

// ------------------------------------------------------------------ C11

fn c11(t: &[&str], out: &str) -> R {
    if t[0] != "ctor" {
        return Ok(false);
    }
    let n = us(t[3]);
    let want = match t[2] {
        "zero" => Tab::zero(n),
        "one" => Tab::from_fn(n, |_| true),
        "parity" => Tab::from_fn(n, |m| popcnt(m) % 2 == 1),
        "majority" => Tab::from_fn(n, |m| popcnt(m) >= (n + 1) / 2),
        "default" => {
            if t[1] == "D" {
                Tab::zero(0)
            } else {
                Tab::zero(n)
            }
        }
        "nth_var" => {
            let i = us(t[4]);
            if i >= n {
                return Ok(false);
            }
            Tab::from_fn(n, |m| (m >> i) & 1 != 0)
        }
        "threshold" => {
            let k = us(t[4]);
            Tab::from_fn(n, |m| popcnt(m) >= k)
        }
        "equals" => {
            let k = us(t[4]);
            Tab::from_fn(n, |m| popcnt(m) == k)
        }
        "symmetric" => {
            let c = hexu(t[4]);
            Tab::from_fn(n, |m| (c >> popcnt(m)) & 1 != 0)
        }
        _ => return Ok(false),
    };
    expect_tab(out, &want, t[2])?;
    Ok(true)
}

// ------------------------------------------------------------------ C06

fn c06(t: &[&str], out: &str) -> R {
    if t[0] == "dflags" {
        // the type itself is judged on the `decomp` line of the same table; here the four
        // classification helpers must say what their names say
        let o: Vec<&str> = out.split_whitespace().collect();
        if o.len() == 1 && o[0] == "panic" {
            return Ok(false);
        }
        if o.len() != 6 || o[0] != "ok" {
            return Err(format!("dflags: `{}`", out));
        }
        let d = o[1];
        let want = (
            ["Independent", "Identity", "Negation"].contains(&d),
            ["And", "Or", "Le", "Lt"].contains(&d),
            d == "Xor",
            ["And", "Or", "Le", "Lt", "Xor"].contains(&d),
        );
        let got = (o[2] == "1", o[3] == "1", o[4] == "1", o[5] == "1");
        if want != got {
            return Err(format!("{}: is_trivial/is_and_type/is_xor_type/is_simple_gate = {:?}, expected {:?}", d, got, want));
        }
        let same = run_line(&format!("decomp {} {} {}", t[1], t[2], t[3]));
        if same != format!("ok {}", d) {
            return Err(format!("top_decomposition gives `{}` on one call and `ok {}` on the next", same, d));
        }
        return Ok(true);
    }
    let a = parse_tab(t[2]).unwrap();
    let v = us(t[3]);
    if !a.wf() || v >= a.n {
        return Ok(false);
    }
    let nb = 1usize << a.n;
    let c0 = |m: usize| a.bit(m & !(1 << v));
    let c1 = |m: usize| a.bit(m | (1 << v));
    let all = |p: &dyn Fn(usize) -> bool| (0..nb).all(|m| p(m));
    let want = match t[0] {
        "decomp" => {
            let indep = all(&|m| c0(m) == c1(m));
            let c0z = all(&|m| !c0(m));
            let c0o = all(&|m| c0(m));
            let c1z = all(&|m| !c1(m));
            let c1o = all(&|m| c1(m));
            let x = all(&|m| c0(m) != c1(m));
            let s = if indep {
                "Independent"
            } else if c0z && c1o {
                "Identity"
            } else if c0o && c1z {
                "Negation"
            } else if c0z {
                "And"
            } else if c1o {
                "Or"
            } else if c0o {
                "Le"
            } else if c1z {
                "Lt"
            } else if x {
                "Xor"
            } else {
                "None"
            };
            s.to_string()
        }
        "posunate" => show_bool(all(&|m| !c0(m) || c1(m))).to_string(),
        "negunate" => show_bool(all(&|m| !c1(m) || c0(m))).to_string(),
        _ => return Ok(false),
    };
    if out != format!("ok {}", want) {
        return Err(format!("{}: expected `ok {}`, implementation says `{}`", t[0], want, out));
    }
    Ok(nontrivial(&a))
}

// ------------------------------------------------------------------ C07: ROBDD node count

/// truth table of a function of `k` variables as a bit vector
fn sub_count(funcs: &[Vec<bool>], n: usize) -> usize {
    // textbook: nodes of the shared ROBDD with complement edges = distinct normalised
    // sub-functions, found by recursive Shannon expansion from the top variable with a
    // unique table; single-literal nodes are not counted.
    let mut unique: HashSet<(usize, Vec<bool>)> = HashSet::new();
    let mut count = 0usize;
    fn rec(f: &[bool], k: usize, unique: &mut HashSet<(usize, Vec<bool>)>, count: &mut usize) {
        // f has 2^k entries (variables 0..k)
        if k == 0 {
            return;
        }
        let half = 1usize << (k - 1);
        let (lo, hi) = f.split_at(half);
        if lo == hi {
            // does not depend on variable k-1
            rec(lo, k - 1, unique, count);
            return;
        }
        // normalise on the value at the all-zero assignment
        let norm: Vec<bool> = if f[0] { f.iter().map(|b| !b).collect() } else { f.to_vec() };
        if !unique.insert((k, norm.clone())) {
            return;
        }
        let (nlo, nhi) = norm.split_at(half);
        let literal = nlo.iter().all(|b| !b) && nhi.iter().all(|b| *b);
        if !literal {
            *count += 1;
        }
        rec(nlo, k - 1, unique, count);
        rec(nhi, k - 1, unique, count);
    }
    for f in funcs {
        rec(f, n, &mut unique, &mut count);
    }
    count
}

fn c07(t: &[&str], out: &str) -> R {
    if t[0] != "bdd" {
        return Ok(false);
    }
    let n = us(t[2]);
    let tabs: Vec<Tab> = t[3..].iter().map(|s| parse_tab(s).unwrap()).collect();
    if tabs.iter().any(|x| !x.wf() || x.n != n) {
        return Ok(false);
    }
    let funcs: Vec<Vec<bool>> = tabs.iter().map(|x| (0..(1usize << n)).map(|m| x.bit(m)).collect()).collect();
    let want = sub_count(&funcs, n);
    if out != format!("ok {}", want) {
        return Err(format!("bdd_complexity: ROBDD has {} nodes, implementation says `{}`", want, out));
    }
    // invariance: order, duplicates, complement (run on the implementation)
    if !tabs.is_empty() {
        let mut rev: Vec<String> = tabs.iter().rev().map(|x| x.show()).collect();
        let r1 = run_line(&format!("bdd {} {} {}", t[1], n, rev.join(" ")));
        rev.push(tabs[0].show());
        let r2 = run_line(&format!("bdd {} {} {}", t[1], n, rev.join(" ")));
        let mut compl: Vec<String> = tabs.iter().map(|x| x.show()).collect();
        compl[0] = Tab::from_fn(n, |m| !tabs[0].bit(m)).show();
        let r3 = run_line(&format!("bdd {} {} {}", t[1], n, compl.join(" ")));
        if r1 != out || r2 != out || r3 != out {
            return Err(format!(
                "bdd_complexity not invariant: base `{}` reversed `{}` +duplicate `{}` complemented `{}`",
                out, r1, r2, r3
            ));
        }
    }
    Ok(want > 0)
}

// ------------------------------------------------------------------ C08

fn big_cmp(a: &Tab, b: &Tab) -> std::cmp::Ordering {
    // numeric comparison of equal-length little-endian word vectors
    for i in (0..a.w.len()).rev() {
        if a.w[i] != b.w[i] {
            return a.w[i].cmp(&b.w[i]);
        }
    }
    std::cmp::Ordering::Equal
}

fn ord_str(o: std::cmp::Ordering) -> &'static str {
    match o {
        std::cmp::Ordering::Less => "lt",
        std::cmp::Ordering::Equal => "eq",
        std::cmp::Ordering::Greater => "gt",
    }
}

fn successor(a: &Tab) -> (Tab, bool) {
    // +1 on the 2^n-bit number, by definition (ripple over bits)
    let mut r = a.clone();
    let nb = 1usize << a.n;
    for m in 0..nb {
        if r.bit(m) {
            r.set(m, false);
        } else {
            r.set(m, true);
            return (r, true);
        }
    }
    (r, false)
}

fn c08(t: &[&str], out: &str) -> R {
    match t[0] {
        "cmp" => {
            let a = parse_tab(t[2]).unwrap();
            let b = parse_tab(t[3]).unwrap();
            if !a.wf() || !b.wf() {
                return Ok(false);
            }
            let want = if a.n != b.n {
                if t[1] == "S" {
                    return Ok(false);
                }
                a.n.cmp(&b.n)
            } else {
                big_cmp(&a, &b)
            };
            if out != format!("ok {}", ord_str(want)) {
                return Err(format!("cmp: expected {}, implementation says `{}`", ord_str(want), out));
            }
            // antisymmetry on the implementation
            let back = run_line(&format!("cmp {} {} {}", t[1], t[3], t[2]));
            if back != format!("ok {}", ord_str(want.reverse())) {
                return Err(format!("cmp not antisymmetric: forward `{}` backward `{}`", out, back));
            }
            // hex strings order the same way (same size)
            if a.n == b.n {
                let ha = run_line(&format!("tohex {} {}", t[1], t[2]));
                let hb = run_line(&format!("tohex {} {}", t[1], t[3]));
                if ha.cmp(&hb) != want {
                    return Err(format!("hex string order differs from cmp: `{}` vs `{}`", ha, hb));
                }
            }
            Ok(a != b)
        }
        "eq" => {
            let a = parse_tab(t[2]).unwrap();
            let b = parse_tab(t[3]).unwrap();
            if !a.wf() || !b.wf() {
                return Ok(false);
            }
            let want = a.n == b.n && (0..(1usize << a.n)).all(|m| a.bit(m) == b.bit(m));
            if out != format!("ok {}", show_bool(want)) {
                return Err(format!("==: expected {}, implementation says `{}`", want, out));
            }
            Ok(true)
        }
        "next" => {
            let a = parse_tab(t[2]).unwrap();
            if !a.wf() {
                return Ok(false);
            }
            let (s, ok) = successor(&a);
            let want = format!("ok {} {}", s.show(), show_bool(ok));
            if out != want {
                return Err(format!("successor: expected `{}`, implementation says `{}`", want, out));
            }
            Ok(true)
        }
        "itera" => itera_oracle(t, out),
        "iter" => {
            let n = us(t[2]);
            let k = us(t[3]);
            let mut cur = Tab::zero(n);
            let mut h = FNV_INIT;
            let mut cnt = 0usize;
            let mut alive = true;
            for _ in 0..k {
                if !alive {
                    break;
                }
                for w in &cur.w {
                    h = digest_step(h, *w);
                }
                cnt += 1;
                let (s, ok) = successor(&cur);
                cur = s;
                alive = ok;
            }
            let want = format!("ok {} {:x} {}", cnt, h, show_bool(alive));
            if out != want {
                return Err(format!("all_functions: expected `{}`, implementation says `{}`", want, out));
            }
            Ok(true)
        }
        _ => Ok(false),
    }
}

// ------------------------------------------------------------------ C09

fn ref_width(n: usize) -> usize {
    std::cmp::max(1, (1usize << n) / 4)
}

fn ref_hex(a: &Tab) -> String {
    let nb = 1usize << a.n;
    let digits = ref_width(a.n);
    let mut s = String::new();
    for d in (0..digits).rev() {
        let mut v = 0;
        for b in 0..4 {
            let m = d * 4 + b;
            if m < nb && a.bit(m) {
                v |= 1 << b;
            }
        }
        s.push(std::char::from_digit(v, 16).unwrap());
    }
    s
}

fn ref_bin(a: &Tab) -> String {
    let nb = 1usize << a.n;
    (0..nb).rev().map(|m| if a.bit(m) { '1' } else { '0' }).collect()
}

fn ref_parse(n: usize, s: &[u8]) -> Option<Tab> {
    if s.len() != ref_width(n) {
        return None;
    }
    let nb = 1usize << n;
    let mut t = Tab::zero(n);
    for (k, c) in s.iter().enumerate() {
        let v = (*c as char).to_digit(16)?;
        if !c.is_ascii_hexdigit() {
            return None;
        }
        let d = s.len() - 1 - k;
        for b in 0..4 {
            if (v >> b) & 1 != 0 {
                let m = d * 4 + b;
                if m >= nb {
                    return None; // digit too large for n < 2
                }
                t.set(m, true);
            }
        }
    }
    Some(t)
}

fn c09(t: &[&str], out: &str) -> R {
    match t[0] {
        "tohex" | "tobin" | "display" | "fmtx" | "fmtb" => {
            let a = parse_tab(t[2]).unwrap();
            if !a.wf() {
                return Ok(false);
            }
            let want = match t[0] {
                "tohex" => ref_hex(&a),
                "tobin" => ref_bin(&a),
                "display" | "fmtx" => format!("Lut{}({})", a.n, ref_hex(&a)),
                _ => format!("Lut{}({})", a.n, ref_bin(&a)),
            };
            let w = format!("ok {}", show_bytes(want.as_bytes()));
            if out != w {
                return Err(format!("{}: expected `{}`, implementation says `{}`", t[0], want, out));
            }
            if t[0] == "tohex" {
                // parsing the printed table gives it back
                let back = run_line(&format!("fromhex {} {} {}", t[1], a.n, show_bytes(want.as_bytes())));
                expect_tab(&back, &a, "from_hex_string(to_hex_string(f))")?;
            }
            Ok(nontrivial(&a))
        }
        "fromhex" => {
            let n = us(t[2]);
            let s = parse_bytes(t[3]).unwrap();
            match ref_parse(n, &s) {
                Some(want) => {
                    expect_tab(out, &want, "from_hex_string")?;
                    Ok(true)
                }
                None => {
                    if out != "err" {
                        return Err(format!(
                            "from_hex_string must reject {:?} for n={}, implementation says `{}`",
                            String::from_utf8_lossy(&s),
                            n,
                            out
                        ));
                    }
                    Ok(true)
                }
            }
        }
        _ => Ok(false),
    }
}

// ------------------------------------------------------------------ C04 / C05

fn permutations(n: usize) -> Vec<Vec<usize>> {
    // Heap's algorithm
    let mut res = Vec::new();
    let mut a: Vec<usize> = (0..n).collect();
    let mut c = vec![0usize; n];
    res.push(a.clone());
    let mut i = 0;
    while i < n {
        if c[i] < i {
            if i % 2 == 0 {
                a.swap(0, i);
            } else {
                a.swap(c[i], i);
            }
            res.push(a.clone());
            c[i] += 1;
            i = 0;
        } else {
            c[i] = 0;
            i += 1;
        }
    }
    res
}

/// the function g of the certificate: g(y) = f(x) xor mask[n], x[perm[i]] = y[i] xor mask[i]
fn apply_cert(f: &Tab, perm: &[usize], mask: usize) -> Tab {
    let n = f.n;
    Tab::from_fn(n, |y| {
        let mut x = 0usize;
        for i in 0..n {
            let b = ((y >> i) & 1) ^ ((mask >> i) & 1);
            x |= b << perm[i];
        }
        f.bit(x) != ((mask >> n) & 1 != 0)
    })
}

pub fn orbit_min(f: &Tab, perms: bool, flips: bool) -> Tab {
    let n = f.n;
    let ps = if perms { permutations(n) } else { vec![(0..n).collect()] };
    let nm = if flips { 1usize << (n + 1) } else { 1 };
    let mut best = f.clone();
    for p in &ps {
        for mask in 0..nm {
            let g = apply_cert(f, p, mask);
            if big_cmp(&g, &best) == std::cmp::Ordering::Less {
                best = g;
            }
        }
    }
    best
}

fn parse_canon(out: &str) -> Result<(Tab, Vec<usize>, usize), String> {
    let o: Vec<&str> = out.split_whitespace().collect();
    if o.len() != 4 || o[0] != "ok" {
        return Err(format!("canonization did not return normally: `{}`", out));
    }
    Ok((
        parse_tab(o[1]).ok_or("bad table")?,
        parse_nats(o[2]).ok_or("bad perm")?,
        o[3].parse().map_err(|_| "bad mask")?,
    ))
}

pub const ORBIT_LIMIT_NPN: usize = 6;
pub const ORBIT_LIMIT_P: usize = 8;

/// `npnorbit`: images of one function under the group get one representative, which is no larger
/// than any member of the orbit that the oracle samples, and the certificate replays
fn npnorbit(t: &[&str], out: &str) -> R {
    let f = parse_tab(t[2]).ok_or("bad table")?;
    let n = f.n;
    let o: Vec<&str> = out.split_whitespace().collect();
    if o.len() != 10 || o[0] != "ok" {
        return Err(format!("npn canonization did not return normally: `{}`", out));
    }
    let c = parse_tab(o[1]).ok_or("bad table")?;
    let perm = parse_nats(o[2]).ok_or("bad perm")?;
    let mask: usize = o[3].parse().map_err(|_| "bad mask")?;
    let mut sorted = perm.clone();
    sorted.sort();
    if sorted != (0..n).collect::<Vec<_>>() || mask >> (n + 1) != 0 {
        return Err(format!("npn_canonization of {}: malformed certificate {:?} {:#x}", f.show(), perm, mask));
    }
    if apply_cert(&f, &perm, mask) != c {
        return Err(format!("npn_canonization of {}: the certificate (perm {:?}, mask {:#x}) does not map the input to the result {}", f.show(), perm, mask, c.show()));
    }
    for k in 0..3 {
        let g = parse_tab(o[4 + 2 * k]).ok_or("bad table")?;
        let cg = parse_tab(o[5 + 2 * k]).ok_or("bad table")?;
        if cg != c {
            return Err(format!("npn_canonization gives {} for {} and {} for {}, which is an image of it under a permutation and complementations: one orbit, two representatives", c.show(), f.show(), cg.show(), g.show()));
        }
        if big_cmp(&g, &c) == std::cmp::Ordering::Less {
            return Err(format!("npn_canonization of {}: the orbit member {} is smaller than the result {}", f.show(), g.show(), c.show()));
        }
    }
    // members of the orbit sampled by the oracle itself
    let mut st = u64::from_str_radix(t[3], 16).map_err(|_| "bad seed")? ^ 0x9e3779b97f4a7c15;
    let mut next = || {
        st = st.wrapping_mul(6364136223846793005).wrapping_add(1442695040888963407);
        (st >> 33) as usize
    };
    for _ in 0..3000 {
        let mut p: Vec<usize> = (0..n).collect();
        for i in (1..n).rev() {
            let j = next() % (i + 1);
            p.swap(i, j);
        }
        let m = next() % (1usize << (n + 1));
        let g = apply_cert(&f, &p, m);
        if big_cmp(&g, &c) == std::cmp::Ordering::Less {
            return Err(format!("npn_canonization of {}: the orbit member {} (perm {:?}, mask {:#x}) is smaller than the result {}", f.show(), g.show(), p, m, c.show()));
        }
    }
    Ok(true)
}

fn c04(t: &[&str], out: &str) -> R {
    if t[0] == "npnorbit" {
        return npnorbit(t, out);
    }
    if t[0] == "canonused" {
        // what an entry point walks must be the closed sequences for its size
        let n = us(t[2]);
        let o: Vec<&str> = out.split_whitespace().collect();
        if o.len() != 3 || o[0] != "ok" {
            return Err(format!("canonization of the zero function failed: `{}`", out));
        }
        let swaps = parse_nats(o[1]).unwrap();
        let flips = parse_nats(o[2]).unwrap();
        let want_swaps = n >= 2 && t[1] != "n";
        let want_flips = n >= 1 && t[1] != "p";
        if want_swaps {
            let fact: usize = (1..=n).product();
            let mut p: Vec<usize> = (0..n).collect();
            let mut seen: HashSet<Vec<usize>> = HashSet::new();
            for s in &swaps {
                if s + 1 >= n {
                    return Err(format!("{} walks a swap position {} out of range for n={}", t[1], s, n));
                }
                p.swap(*s, s + 1);
                seen.insert(p.clone());
            }
            if seen.len() != fact || p != (0..n).collect::<Vec<_>>() {
                return Err(format!(
                    "{}_canonization(n={}) walks {} swaps reaching {} of {} permutations, closed={}",
                    t[1], n, swaps.len(), seen.len(), fact, p == (0..n).collect::<Vec<_>>()
                ));
            }
        }
        if want_flips {
            let mut m = 0usize;
            let mut seen: HashSet<usize> = HashSet::new();
            for f in &flips {
                if *f >= n {
                    return Err(format!("{} walks a flip position {} out of range for n={}", t[1], f, n));
                }
                m ^= 1 << f;
                seen.insert(m);
            }
            if seen.len() != 1 << n || m != 0 {
                return Err(format!("{}_canonization(n={}) walks a flip sequence that is not a closed Gray cycle", t[1], n));
            }
        }
        return Ok(n >= 2);
    }
    if t[0] == "canonseq" {
        // closed walk visiting every group element exactly once
        let n = us(t[1]);
        if n < 2 {
            return Ok(false);
        }
        let o: Vec<&str> = out.split_whitespace().collect();
        if o.len() != 3 || o[0] != "ok" {
            return Err(format!("sequence generators failed: `{}`", out));
        }
        let swaps = parse_nats(o[1]).unwrap();
        let flips = parse_nats(o[2]).unwrap();
        let mut seen: HashSet<Vec<usize>> = HashSet::new();
        let mut p: Vec<usize> = (0..n).collect();
        for s in &swaps {
            if s + 1 >= n {
                return Err(format!("swap position {} out of range for n={}", s, n));
            }
            p.swap(*s, s + 1);
            if !seen.insert(p.clone()) {
                return Err(format!("swap walk for n={} visits a permutation twice", n));
            }
        }
        let fact: usize = (1..=n).product();
        if seen.len() != fact || p != (0..n).collect::<Vec<_>>() {
            return Err(format!("swap walk for n={} is not a closed walk over all {} permutations", n, fact));
        }
        let mut seenf: HashSet<usize> = HashSet::new();
        let mut m = 0usize;
        for f in &flips {
            if *f >= n {
                return Err(format!("flip position {} out of range for n={}", f, n));
            }
            m ^= 1 << f;
            if !seenf.insert(m) {
                return Err(format!("flip walk for n={} visits a polarity twice", n));
            }
        }
        if seenf.len() != 1 << n || m != 0 {
            return Err(format!("flip walk for n={} is not a closed Gray cycle", n));
        }
        return Ok(true);
    }
    let (perms, flips) = match t[0] {
        "pcanon" => (true, false),
        "ncanon" => (false, true),
        "npncanon" => (true, true),
        _ => return Ok(false),
    };
    let f = parse_tab(t[2]).unwrap();
    if !f.wf() {
        return Ok(false);
    }
    let (c, _, _) = parse_canon(out)?;
    let deep = std::env::var("VERIF_DEEP").is_ok();
    let lim = if perms && flips { ORBIT_LIMIT_NPN + if deep { 1 } else { 0 } } else { ORBIT_LIMIT_P };
    if f.n > lim {
        return Ok(false);
    }
    let want = orbit_min(&f, perms, flips);
    if c != want {
        return Err(format!("{}: orbit minimum is {} but implementation returned {}", t[0], want.show(), c.show()));
    }
    // canonizing the representative returns it unchanged
    let again = run_line(&format!("{} {} {}", t[0], t[1], c.show()));
    let (c2, _, _) = parse_canon(&again)?;
    if c2 != c {
        return Err(format!("{} not idempotent: {} -> {}", t[0], c.show(), c2.show()));
    }
    Ok(nontrivial(&f))
}

fn c05(t: &[&str], out: &str) -> R {
    if t[0] == "npnorbit" {
        return npnorbit(t, out);
    }
    let (perms, flips) = match t[0] {
        "pcanon" => (true, false),
        "ncanon" => (false, true),
        "npncanon" => (true, true),
        _ => return Ok(false),
    };
    let f = parse_tab(t[2]).unwrap();
    if !f.wf() {
        return Ok(false);
    }
    let (c, perm, mask) = parse_canon(out)?;
    let n = f.n;
    let mut sorted = perm.clone();
    sorted.sort();
    if sorted != (0..n).collect::<Vec<_>>() {
        return Err(format!("{}: perm {:?} is not a permutation of 0..{}", t[0], perm, n));
    }
    if mask >> (n + 1) != 0 {
        return Err(format!("{}: mask {:#x} has a bit above {}", t[0], mask, n));
    }
    if !flips && mask != 0 {
        return Err(format!("p_canonization returned a complementation mask {:#x}", mask));
    }
    if !perms && perm != (0..n).collect::<Vec<_>>() {
        return Err(format!("n_canonization returned a non-identity permutation {:?}", perm));
    }
    let g = apply_cert(&f, &perm, mask);
    if g != c {
        return Err(format!(
            "{}: certificate (perm {:?}, mask {:#x}) maps {} to {} but the result is {}",
            t[0],
            perm,
            mask,
            f.show(),
            g.show(),
            c.show()
        ));
    }
    // the property singles out inputs that are already their own representative: canonize the
    // representative itself and check that certificate too
    if c != f {
        let again = run_line(&format!("{} {} {}", t[0], t[1], c.show()));
        let (c2, perm2, mask2) = parse_canon(&again)?;
        let mut sorted2 = perm2.clone();
        sorted2.sort();
        if sorted2 != (0..n).collect::<Vec<_>>() || mask2 >> (n + 1) != 0 {
            return Err(format!("{} on the representative {}: malformed certificate {:?} {:#x}", t[0], c.show(), perm2, mask2));
        }
        let g2 = apply_cert(&c, &perm2, mask2);
        if g2 != c2 {
            return Err(format!(
                "{} on the already-canonical input {}: certificate (perm {:?}, mask {:#x}) maps it to {} but the result is {}",
                t[0],
                c.show(),
                perm2,
                mask2,
                g2.show(),
                c2.show()
            ));
        }
    }
    Ok(nontrivial(&f))
}

// ------------------------------------------------------------------ C10

fn c10(t: &[&str], out: &str) -> R {
    match t[0] {
        "linfo" => {
            let a = parse_tab(t[2]).unwrap();
            let want = format!("ok {} {} {}", a.n, 1usize << a.n, table_size(a.n));
            if out != want {
                return Err(format!("num_vars / num_bits / num_blocks: expected `{}`, implementation says `{}`", want, out));
            }
            Ok(true)
        }
        "get" => {
            let a = parse_tab(t[2]).unwrap();
            let m = us(t[3]);
            if !a.wf() || m >= (1usize << a.n) {
                return Ok(false);
            }
            if out != format!("ok {}", show_bool(a.bit(m))) {
                return Err(format!("value({}) of {}: implementation says `{}`", m, a.show(), out));
            }
            Ok(true)
        }
        "s2d" => {
            let a = parse_tab(t[1]).unwrap();
            if !a.wf() {
                return Ok(false);
            }
            expect_tab(out, &a, "Lut::from(LutN)")?;
            let back = run_line(&format!("d2s {} {}", a.n, a.show()));
            expect_tab(&back, &a, "LutN::try_from(Lut::from(x))")?;
            Ok(nontrivial(&a))
        }
        "d2s" => {
            let n = us(t[1]);
            let a = parse_tab(t[2]).unwrap();
            if !a.wf() {
                return Ok(false);
            }
            if a.n == n {
                expect_tab(out, &a, "LutN::try_from(Lut)")?;
            } else if out != "err" {
                return Err(format!("try_from must fail for {} -> Lut{}, implementation says `{}`", a.show(), n, out));
            }
            Ok(true)
        }
        "toint" => {
            let a = parse_tab(t[1]).unwrap();
            // bit m of the integer is f(m) (for well-formed tables)
            if !a.wf() {
                return Ok(false);
            }
            let mut v = 0u64;
            for m in 0..(1usize << a.n) {
                if a.bit(m) {
                    v |= 1 << m;
                }
            }
            if out != format!("ok {:x}", v) {
                return Err(format!("integer conversion: expected {:x}, implementation says `{}`", v, out));
            }
            let back = run_line(&format!("fromint {} {:x}", a.n, v));
            expect_tab(&back, &a, "from(int(x))")?;
            Ok(nontrivial(&a))
        }
        "fromint" => {
            let n = us(t[1]);
            let v = u64::from_str_radix(t[2], 16).unwrap();
            let want = Tab::from_fn(n, |m| (v >> m) & 1 != 0);
            expect_tab(out, &want, "from(int)")?;
            let back = run_line(&format!("toint {}", want.show()));
            if back != format!("ok {:x}", v) {
                return Err(format!("int(from({:x})) gives `{}`", v, back));
            }
            Ok(true)
        }
        _ => {
            // paired: the same operation on the dynamic type must give the corresponding result
            if t.len() > 1 && t[1] == "S" {
                let mut d: Vec<String> = t.iter().map(|s| s.to_string()).collect();
                d[1] = "D".to_string();
                let dl = d.join(" ");
                let od = run_line(&dl);
                let mut want = od.clone();
                if t[0] == "ctor" && t[2] == "default" {
                    // Default of Lut is the 0-variable zero, of LutN the N-variable zero
                    want = format!("ok {}", Tab::zero(us(t[3])).show());
                }
                if want != out {
                    return Err(format!("LutN says `{}` but Lut says `{}`", out, od));
                }
                return Ok(true);
            }
            Ok(false)
        }
    }
}


/// item number `p` of `all_functions(n)` by definition (the number `p` written in the table), `None`
/// once `p` reaches 2^(2^n)
fn iter_item(n: usize, p: u128) -> Option<Tab> {
    if n <= 6 && p >= (1u128 << (1u32 << n)) {
        return None;
    }
    if p > u64::MAX as u128 {
        return None; // not reachable by the workload for n >= 7
    }
    let mut t = Tab::zero(n);
    t.w[0] = p as u64;
    Some(t)
}

fn itera_expected(t: &[&str]) -> Option<String> {
    let n = us(t[2]);
    let a = us(t[3]) as u128;
    let b = us(t[5]) as u128;
    let show = |o: Option<Tab>| o.map_or("none".to_string(), |x| x.show());
    let total: u128 = if n <= 6 { 1u128 << (1u32 << n) } else { u128::MAX };
    let left = total.saturating_sub(a);
    Some(match t[4] {
        "nth" | "skip" => {
            let r = iter_item(n, a + b);
            let r2 = if r.is_some() { iter_item(n, a + b + 1) } else { None };
            format!("ok {} {}", show(r), show(r2))
        }
        "stepby" => {
            let mut v = Vec::new();
            let mut dead = false;
            for k in 0..5u128 {
                let r = if dead { None } else { iter_item(n, a + k * b) };
                dead = r.is_none();
                v.push(show(r));
            }
            format!("ok {}", v.join(" "))
        }
        "count" => format!("ok {} none", left),
        "last" | "max" => format!("ok {} none", show(if left > 0 { iter_item(n, total - 1) } else { None })),
        "min" => format!("ok {} none", show(if left > 0 { iter_item(n, a) } else { None })),
        "fold" => {
            let mut h = FNV_INIT;
            let mut p = a;
            while p < total {
                for w in &iter_item(n, p).unwrap().w {
                    h = digest_step(h, *w);
                }
                p += 1;
            }
            format!("ok {:x} none", h)
        }
        "hint" | "hint0" => "ok 1".to_string(),
        "takecollect" => {
            let k = (b as u128).min(left);
            format!("ok {} {}", k, show(if k > 0 { iter_item(n, a + k - 1) } else { None }))
        }
        "vcount" => format!("ok {}", left),
        "vlast" | "vmax" => format!("ok {}", show(if left > 0 { iter_item(n, total - 1) } else { None })),
        "vmin" => format!("ok {}", show(if left > 0 { iter_item(n, a) } else { None })),
        "skipcount" => format!("ok {}", left.saturating_sub(b)),
        "vfold" => {
            let mut sum = 0u64;
            let mut p = a;
            while p < total {
                let key = iter_item(n, p).unwrap().w.iter().fold(0u64, |x, w| x.wrapping_mul(31).wrapping_add(*w));
                sum = sum.wrapping_add(key);
                p += 1;
            }
            format!("ok {} {:x} {} {}", left, sum, show(if left > 0 { iter_item(n, a) } else { None }), show(if left > 0 { iter_item(n, total - 1) } else { None }))
        }
        _ => return None,
    })
}

fn itera_oracle(t: &[&str], out: &str) -> R {
    let want = itera_expected(t).ok_or("unknown itera kind")?;
    if out != want {
        return Err(format!("all_functions().{}: expected `{}`, implementation says `{}`", t[4], want, out));
    }
    Ok(true)
}

// ------------------------------------------------------------------ C02

fn c02(t: &[&str], out: &str) -> R {
    if t[0] == "cmp" || t[0] == "eq" {
        // ==, cmp = Equal  <=>  same number of variables and same value everywhere
        let a = parse_tab(t[2]).unwrap();
        let b = parse_tab(t[3]).unwrap();
        if !a.wf() || !b.wf() {
            return Ok(false);
        }
        let same = a.n == b.n && (0..(1usize << a.n)).all(|m| a.bit(m) == b.bit(m));
        let says = if t[0] == "eq" { out == "ok 1" } else { out == "ok eq" };
        if says != same {
            return Err(format!(
                "{} and {} are {} but {} says `{}`",
                a.show(),
                b.show(),
                if same { "the same function" } else { "different (size or value)" },
                t[0],
                out
            ));
        }
        return Ok(true);
    }
    if t[0] == "clonefrom" {
        let src = parse_tab(t[3]).unwrap();
        if !src.wf() {
            return Ok(false);
        }
        let want = format!("ok {} 1", src.show());
        if out != want {
            return Err(format!("clone_from: the destination must become the source: expected `{}`, implementation says `{}`", want, out));
        }
        return Ok(true);
    }
    if matches!(t[0], "sop" | "esop" | "soes") && t[1] == "tolut" {
        let n = us(t[2]);
        let o: Vec<&str> = out.split_whitespace().collect();
        if o.len() != 2 || o[0] != "ok" {
            return Err(format!("conversion to Lut: `{}`", out));
        }
        let r = parse_tab(o[1]).ok_or("conversion to Lut: unreadable table")?;
        if r.n != n || !r.wf() {
            return Err(format!("Lut::from({}) is malformed: {} (bits beyond 2^n or wrong block count)", t[0], o[1]));
        }
        return match t[0] {
            "sop" => c14(t, out),
            "esop" => c15(t, out),
            _ => c13(t, out),
        };
    }
    if t[0] == "itera" {
        let n = us(t[2]);
        for tok in out.split_whitespace() {
            if let Some(r) = parse_tab(tok) {
                if r.n != n || !r.wf() {
                    return Err(format!("all_functions().{} returned a malformed table {}", t[4], tok));
                }
            }
        }
        return itera_oracle(t, out);
    }
    if t[0] != "hist" {
        return Ok(false);
    }
    let n = us(t[2]);
    let o: Vec<&str> = out.split_whitespace().collect();
    if o.is_empty() || o[0] != "ok" {
        return Err(format!("history did not run: `{}`", out));
    }
    for (k, step) in o[1..].iter().enumerate() {
        if *step == "panic" {
            return Err(format!("step {} (`{}`) panicked on in-range arguments", k, t.get(3 + k).unwrap_or(&"?")));
        }
        let regs: Vec<Tab> = step.split(';').map(|s| parse_tab(s).unwrap()).collect();
        for r in &regs {
            if r.n != n || r.w.len() != std::cmp::max(1, (1usize << n) / 64) {
                return Err(format!("after step {} (`{}`): block view has {} blocks for n={}", k, t[3 + k], r.w.len(), n));
            }
            if !r.wf() {
                return Err(format!("after step {} (`{}`): bit set at a position >= 2^n in {}", k, t[3 + k], r.show()));
            }
        }
        // ==, hash and cmp against value-wise comparison
        for i in 0..regs.len() {
            for j in (i + 1)..regs.len() {
                let same = (0..(1usize << n)).all(|m| regs[i].bit(m) == regs[j].bit(m));
                let e = run_line(&format!("eq {} {} {}", t[1], regs[i].show(), regs[j].show()));
                let c = run_line(&format!("cmp {} {} {}", t[1], regs[i].show(), regs[j].show()));
                if (e == "ok 1") != same || (c == "ok eq") != same {
                    return Err(format!(
                        "after step {}: registers {} and {} are {} as functions but == says `{}` and cmp says `{}`",
                        k,
                        regs[i].show(),
                        regs[j].show(),
                        if same { "equal" } else { "different" },
                        e,
                        c
                    ));
                }
            }
        }
    }
    Ok(o.len() > 2)
}

// ------------------------------------------------------------------ C12 .. C16

fn cube_val(p: u32, q: u32, m: u32) -> bool {
    (0..32).all(|v| {
        let b = (m >> v) & 1 != 0;
        let pv = (p >> v) & 1 != 0;
        let qv = (q >> v) & 1 != 0;
        (!pv || b) && (!qv || !b)
    })
}

fn cube_is_zero(p: u32, q: u32) -> bool {
    p & q != 0
}

fn c12(t: &[&str], out: &str) -> R {
    if t[0] != "cube" {
        return Ok(false);
    }
    match t[1] {
        "alla" => {
            // the adaptor against the items that plain `next()` yields
            let mut all: Vec<volute::sop::Cube> = Vec::new();
            let mut it = volute::sop::Cube::all(us(t[2]));
            while let Some(x) = it.next() {
                all.push(x);
            }
            let want = crate::implrun::alla_expected(&all, us(t[3]), t[4], us(t[5]), &|c| show_cube(c)).ok_or("unknown adaptor")?;
            if out != want {
                return Err(format!("Cube::all({}).{}: expected `{}`, implementation says `{}`", t[2], t[4], want, out));
            }
            Ok(true)
        }
        "cmp" => {
            let (a, b) = (parse_raw_cube(t[2]).unwrap(), parse_raw_cube(t[3]).unwrap());
            if a.0 & a.1 != 0 || b.0 & b.1 != 0 {
                // contradictory masks are normalised by the constructor: not judged here
                return Ok(false);
            }
            let o = a.cmp(&b);
            let want = format!("ok {} {}", show_bool(a == b), match o { std::cmp::Ordering::Less => "lt", std::cmp::Ordering::Equal => "eq", _ => "gt" });
            if out != want {
                return Err(format!("cube eq/cmp: expected `{}`, implementation says `{}`", want, out));
            }
            Ok(true)
        }
        "isconstant" => {
            let (p, q) = parse_raw_cube(t[2]).unwrap();
            let want = (p == 0 && q == 0) || (p & q != 0);
            if out != format!("ok {}", show_bool(want)) {
                return Err(format!("is_constant of {:x}/{:x}: expected {}, implementation says `{}`", p, q, want, out));
            }
            Ok(true)
        }
        "value" => {
            let (p, q) = parse_raw_cube(t[2]).unwrap();
            let m = hexu(t[3]) as u32;
            let want = cube_val(p, q, m);
            if out != format!("ok {}", show_bool(want)) {
                return Err(format!("value: expected {}, implementation says `{}`", want, out));
            }
            Ok(true)
        }
        "and" => {
            let (p1, q1) = parse_raw_cube(t[2]).unwrap();
            let (p2, q2) = parse_raw_cube(t[3]).unwrap();
            let (p, q) = (p1 | p2, q1 | q2);
            let want = if cube_is_zero(p, q) { (!0u32, !0u32) } else { (p, q) };
            if out != format!("ok {:x}/{:x}", want.0, want.1) {
                return Err(format!("a & b: expected {:x}/{:x}, implementation says `{}`", want.0, want.1, out));
            }
            Ok(true)
        }
        "implies" | "intersects" => {
            let (p1, q1) = parse_raw_cube(t[2]).unwrap();
            let (p2, q2) = parse_raw_cube(t[3]).unwrap();
            // semantic definition over the variables that occur (others are irrelevant)
            let z1 = cube_is_zero(p1, q1);
            let z2 = cube_is_zero(p2, q2);
            let want = if t[1] == "implies" {
                // every assignment satisfying a satisfies b
                z1 || (!z2 && (p2 & !p1 == 0) && (q2 & !q1 == 0))
            } else {
                !z1 && !z2 && (p1 & q2 == 0) && (p2 & q1 == 0)
            };
            // cross-check the closed form against enumeration when few variables occur
            let occ = p1 | q1 | p2 | q2;
            if !z1 && !z2 && occ.count_ones() <= 10 {
                let vars: Vec<u32> = (0..32).filter(|v| (occ >> v) & 1 != 0).collect();
                let mut all_imp = true;
                let mut some_both = false;
                for k in 0..(1u32 << vars.len()) {
                    let mut m = 0u32;
                    for (i, v) in vars.iter().enumerate() {
                        if (k >> i) & 1 != 0 {
                            m |= 1 << v;
                        }
                    }
                    let a = cube_val(p1, q1, m);
                    let b = cube_val(p2, q2, m);
                    if a && !b {
                        all_imp = false;
                    }
                    if a && b {
                        some_both = true;
                    }
                }
                let sem = if t[1] == "implies" { all_imp } else { some_both };
                if sem != want {
                    return Err(format!("oracle self-check failed on {} {}", t[2], t[3]));
                }
            }
            if out != format!("ok {}", show_bool(want)) {
                return Err(format!("{}: expected {}, implementation says `{}`", t[1], want, out));
            }
            Ok(true)
        }
        "implieslut" => {
            let (p, q) = parse_raw_cube(t[2]).unwrap();
            let f = parse_tab(t[3]).unwrap();
            if !f.wf() {
                return Ok(false);
            }
            let want = (0..(1usize << f.n)).all(|m| !cube_val(p, q, m as u32) || f.bit(m));
            if out != format!("ok {}", show_bool(want)) {
                return Err(format!("implies_lut: expected {}, implementation says `{}`", want, out));
            }
            Ok(true)
        }
        "minterm" => {
            let n = us(t[2]);
            let m = hexu(t[3]) as u32;
            let tot: u32 = if n >= 32 { !0 } else { (1u32 << n) - 1 };
            let want = (m & tot, !m & tot);
            if out != format!("ok {:x}/{:x}", want.0, want.1) {
                return Err(format!("minterm({}, {:x}): expected {:x}/{:x}, implementation says `{}`", n, m, want.0, want.1, out));
            }
            Ok(true)
        }
        "frommask" => {
            let p = u32::from_str_radix(t[2], 16).unwrap();
            let q = u32::from_str_radix(t[3], 16).unwrap();
            let want = if p & q != 0 { (!0u32, !0u32) } else { (p, q) };
            if out != format!("ok {:x}/{:x}", want.0, want.1) {
                return Err(format!("from_mask: expected {:x}/{:x}, implementation says `{}`", want.0, want.1, out));
            }
            Ok(true)
        }
        "fromvars" => {
            let pv = parse_nats(t[2]).unwrap();
            let qv = parse_nats(t[3]).unwrap();
            let p = pv.iter().fold(0u32, |a, v| a | (1 << v));
            let q = qv.iter().fold(0u32, |a, v| a | (1 << v));
            let want = if p & q != 0 { (!0u32, !0u32) } else { (p, q) };
            if out != format!("ok {:x}/{:x}", want.0, want.1) {
                return Err(format!("from_vars: expected {:x}/{:x}, implementation says `{}`", want.0, want.1, out));
            }
            Ok(true)
        }
        "info" => {
            let (p, q) = parse_raw_cube(t[2]).unwrap();
            let z = cube_is_zero(p, q);
            let lits = if z { 0 } else { (p.count_ones() + q.count_ones()) as usize };
            let gates = if lits <= 1 { 0 } else { lits - 1 };
            let pv: Vec<usize> = (0..32).filter(|v| (p >> v) & 1 != 0).collect();
            let qv: Vec<usize> = (0..32).filter(|v| (q >> v) & 1 != 0).collect();
            let want = format!(
                "ok {} {} {} {} {} {}",
                lits,
                gates,
                show_bool(z),
                show_bool(p == 0 && q == 0),
                show_nats(&pv),
                show_nats(&qv)
            );
            if out != want {
                return Err(format!("cube counts: expected `{}`, implementation says `{}`", want, out));
            }
            Ok(true)
        }
        "all" => {
            let n = us(t[2]);
            // 3^n non-zero cubes, each once; digest of the order-independent set is not defined,
            // so check the count and membership through the model diff (T3) and the count here
            let want: usize = 3usize.pow(n as u32);
            let o: Vec<&str> = out.split_whitespace().collect();
            if o.len() != 3 || o[1].parse::<usize>().ok() != Some(want) {
                return Err(format!("Cube::all({}): expected {} cubes, implementation says `{}`", n, want, out));
            }
            // each of the 3^n non-contradictory cubes exactly once: enumerate the real iterator
            let mut seen: HashSet<(u32, u32)> = HashSet::new();
            for cb in volute::sop::Cube::all(n) {
                let r = cube_raw(&cb);
                if r.0 & r.1 != 0 || ((r.0 | r.1) as u64) >> n != 0 {
                    return Err(format!("Cube::all({}) yields {:x}/{:x}, not a cube over {} variables", n, r.0, r.1, n));
                }
                if !seen.insert(r) {
                    return Err(format!("Cube::all({}) yields the cube {:x}/{:x} twice", n, r.0, r.1));
                }
            }
            if seen.len() != want {
                return Err(format!("Cube::all({}) yields {} distinct cubes instead of {}", n, seen.len(), want));
            }
            Ok(true)
        }
        "nthvar" => {
            let v = us(t[2]);
            let want = if t[3] == "1" { (0u32, 1u32 << v) } else { (1u32 << v, 0u32) };
            if out != format!("ok {:x}/{:x}", want.0, want.1) {
                return Err(format!("nth_var: implementation says `{}`", out));
            }
            Ok(true)
        }
        _ => Ok(false),
    }
}

fn ecube_val(v: u32, x: bool, m: u32) -> bool {
    let mut par = false;
    for i in 0..32 {
        if (v >> i) & 1 != 0 && (m >> i) & 1 != 0 {
            par = !par;
        }
    }
    par != x
}

fn parse_raw_ecube(s: &str) -> (u32, bool) {
    let (a, b) = s.split_once('/').unwrap();
    (u32::from_str_radix(a, 16).unwrap(), b == "1")
}

fn parse_raw_ecubes(s: &str) -> Vec<(u32, bool)> {
    if s == "-" {
        vec![]
    } else {
        s.split(',').map(parse_raw_ecube).collect()
    }
}

fn parse_raw_cubes(s: &str) -> Vec<(u32, u32)> {
    if s == "-" {
        vec![]
    } else {
        s.split(',').map(|x| parse_raw_cube(x).unwrap()).collect()
    }
}

fn c13(t: &[&str], out: &str) -> R {
    if t[0] == "fctor" {
        return fctor(t, out);
    }
    match (t[0], t[1]) {
        ("ecube", "alla") => {
            let mut all: Vec<volute::sop::Ecube> = Vec::new();
            let mut it = volute::sop::Ecube::all(us(t[2]));
            while let Some(x) = it.next() {
                all.push(x);
            }
            let want = crate::implrun::alla_expected(&all, us(t[3]), t[4], us(t[5]), &|c| show_ecube(c)).ok_or("unknown adaptor")?;
            if out != want {
                return Err(format!("Ecube::all({}).{}: expected `{}`, implementation says `{}`", t[2], t[4], want, out));
            }
            Ok(true)
        }
        ("ecube", "value") => {
            let (v, x) = parse_raw_ecube(t[2]);
            let want = ecube_val(v, x, hexu(t[3]) as u32);
            if out != format!("ok {}", show_bool(want)) {
                return Err(format!("ecube value: expected {}, implementation says `{}`", want, out));
            }
            Ok(true)
        }
        ("ecube", "xor") => {
            let (v1, x1) = parse_raw_ecube(t[2]);
            let (v2, x2) = parse_raw_ecube(t[3]);
            let want = format!("ok {:x}/{}", v1 ^ v2, show_bool(x1 != x2));
            if out != want {
                return Err(format!("ecube xor: expected `{}`, implementation says `{}`", want, out));
            }
            Ok(true)
        }
        ("ecube", "cmp") => {
            // equal exactly when the two terms are the same (vars, xnor) pair, i.e. the same function;
            // the order is the lexicographic order of (vars, xnor)
            let (a, b) = (parse_raw_ecube(t[2]), parse_raw_ecube(t[3]));
            let o = a.cmp(&b);
            let want = format!("ok {} {}", show_bool(a == b), match o { std::cmp::Ordering::Less => "lt", std::cmp::Ordering::Equal => "eq", _ => "gt" });
            if out != want {
                return Err(format!("ecube eq/cmp: expected `{}`, implementation says `{}`", want, out));
            }
            Ok(true)
        }
        ("ecube", "not") => {
            let (v, x) = parse_raw_ecube(t[2]);
            let want = format!("ok {:x}/{}", v, show_bool(!x));
            if out != want {
                return Err(format!("ecube not: expected `{}`, implementation says `{}`", want, out));
            }
            Ok(true)
        }
        ("ecube", "fromvars") => {
            let pv = parse_nats(t[2]).unwrap();
            // from_vars ORs the variables together (a repeated variable stays)
            let v = pv.iter().fold(0u32, |a, i| a | (1 << i));
            let want = format!("ok {:x}/{}", v, t[3]);
            if out != want {
                return Err(format!("ecube from_vars: expected `{}`, implementation says `{}`", want, out));
            }
            Ok(true)
        }
        ("ecube", "info") => {
            let (v, x) = parse_raw_ecube(t[2]);
            let lits = v.count_ones() as usize;
            let vars: Vec<usize> = (0..32).filter(|i| (v >> i) & 1 != 0).collect();
            let want = format!(
                "ok {} {} {} {} {}",
                lits,
                if lits <= 1 { 0 } else { lits - 1 },
                show_bool(v == 0 && !x),
                show_bool(v == 0 && x),
                show_nats(&vars)
            );
            if out != want {
                return Err(format!("ecube counts: expected `{}`, implementation says `{}`", want, out));
            }
            Ok(true)
        }
        ("ecube", "implieslut") => {
            let (v, x) = parse_raw_ecube(t[2]);
            let f = parse_tab(t[3]).unwrap();
            if !f.wf() {
                return Ok(false);
            }
            let want = (0..(1usize << f.n)).all(|m| !ecube_val(v, x, m as u32) || f.bit(m));
            if out != format!("ok {}", show_bool(want)) {
                return Err(format!("ecube implies_lut: expected {}, implementation says `{}`", want, out));
            }
            Ok(true)
        }
        ("ecube", "all") => {
            let n = us(t[2]);
            let o: Vec<&str> = out.split_whitespace().collect();
            if o.len() != 3 || o[1].parse::<usize>().ok() != Some(1usize << (n + 1)) {
                return Err(format!("Ecube::all({}): expected {} terms, implementation says `{}`", n, 1usize << (n + 1), out));
            }
            // each of the 2^(n+1) exclusive cubes exactly once: enumerate the real iterator
            let mut seen: HashSet<(u32, bool)> = HashSet::new();
            for e in volute::sop::Ecube::all(n) {
                let r = ecube_raw(&e);
                if (r.0 as u64) >> n != 0 {
                    return Err(format!("Ecube::all({}) yields a term over a variable >= {}: {:x}/{}", n, n, r.0, r.1));
                }
                if !seen.insert(r) {
                    return Err(format!("Ecube::all({}) yields the term {:x}/{} twice", n, r.0, show_bool(r.1)));
                }
            }
            if seen.len() != 1usize << (n + 1) {
                return Err(format!("Ecube::all({}) yields {} distinct terms instead of {}", n, seen.len(), 1usize << (n + 1)));
            }
            Ok(true)
        }
        ("soes", "value") | ("soes", "tolut") | ("soes", "info") | ("soes", "or") => {
            let n = us(t[2]);
            let a = parse_raw_ecubes(t[3]);
            let val = |l: &[(u32, bool)], m: usize| l.iter().any(|(v, x)| ecube_val(*v, *x, m as u32));
            match t[1] {
                "value" => {
                    let want = val(&a, hexu(t[4]));
                    if out != format!("ok {}", show_bool(want)) {
                        return Err(format!("soes value: expected {}, implementation says `{}`", want, out));
                    }
                }
                "tolut" => {
                    let want = Tab::from_fn(n, |m| val(&a, m));
                    expect_tab(out, &want, "Lut::from(Soes)")?;
                }
                "info" => {
                    let o: Vec<&str> = out.split_whitespace().collect();
                    let f = Tab::from_fn(n, |m| val(&a, m));
                    let all0 = (0..(1usize << n)).all(|m| !f.bit(m));
                    let all1 = (0..(1usize << n)).all(|m| f.bit(m));
                    if o.len() != 5 {
                        return Err(format!("soes info: `{}`", out));
                    }
                    if o[1] == "1" && !all0 {
                        return Err("is_zero holds for a function that is not constant zero".to_string());
                    }
                    if o[2] == "1" && !all1 {
                        return Err("is_one holds for a function that is not constant one".to_string());
                    }
                }
                _ => {
                    let b = parse_raw_ecubes(t[4]);
                    let o: Vec<&str> = out.split_whitespace().collect();
                    if o.len() != 2 || o[0] != "ok" {
                        return Err(format!("soes or: `{}`", out));
                    }
                    let r = parse_raw_ecubes(o[1]);
                    for m in 0..(1usize << n) {
                        if val(&r, m) != (val(&a, m) || val(&b, m)) {
                            return Err(format!("a | b differs from OR at assignment {}", m));
                        }
                    }
                }
            }
            Ok(true)
        }
        _ => Ok(false),
    }
}

fn sop_val(l: &[(u32, u32)], m: usize) -> bool {
    l.iter().any(|(p, q)| cube_val(*p, *q, m as u32))
}

fn esop_val(l: &[(u32, u32)], m: usize) -> bool {
    l.iter().fold(false, |a, (p, q)| a != cube_val(*p, *q, m as u32))
}

fn irredundant(r: &[(u32, u32)]) -> Result<(), String> {
    for (i, a) in r.iter().enumerate() {
        if cube_is_zero(a.0, a.1) {
            return Err(format!("result contains the contradictory cube {:x}/{:x}", a.0, a.1));
        }
        for (j, b) in r.iter().enumerate() {
            if i != j {
                if a == b {
                    return Err(format!("result contains the duplicate cube {:x}/{:x}", a.0, a.1));
                }
                // a implies b
                if b.0 & !a.0 == 0 && b.1 & !a.1 == 0 {
                    return Err(format!("result cube {:x}/{:x} implies result cube {:x}/{:x}", a.0, a.1, b.0, b.1));
                }
            }
        }
    }
    Ok(())
}

/// truth table (as a vector of bools over the assignments) of an RPN expression over cube lists;
/// `xor_forms`: operands are XOR lists (`^`, `!`), otherwise OR lists (`&`, `|`, `!`)
fn expr_table(n: usize, toks: &[&str], xor_forms: bool) -> Option<Vec<bool>> {
    let mut st: Vec<Vec<bool>> = Vec::new();
    for tok in toks {
        match *tok {
            "&" | "|" | "^" => {
                let b = st.pop()?;
                let a = st.pop()?;
                st.push(a.iter().zip(b.iter()).map(|(x, y)| match *tok {
                    "&" => *x && *y,
                    "|" => *x || *y,
                    _ => *x != *y,
                }).collect());
            }
            "!" => {
                let a = st.pop()?;
                st.push(a.iter().map(|x| !*x).collect());
            }
            _ => {
                let cs = parse_raw_cubes(tok);
                st.push((0..(1usize << n)).map(|m| if xor_forms { esop_val(&cs, m) } else { sop_val(&cs, m) }).collect());
            }
        }
    }
    if st.len() == 1 { st.pop() } else { None }
}

fn c14(t: &[&str], out: &str) -> R {
    if t[0] == "fctor" {
        return fctor(t, out);
    }
    if t[0] != "sop" {
        return Ok(false);
    }
    let o: Vec<&str> = out.split_whitespace().collect();
    match t[1] {
        "expr" => {
            let n = us(t[2]);
            let want = expr_table(n, &t[3..], false).ok_or("malformed expression")?;
            if o.len() != 2 || o[0] != "ok" {
                return Err(format!("sop expression: `{}`", out));
            }
            let r = parse_raw_cubes(o[1]);
            for m in 0..(1usize << n) {
                if sop_val(&r, m) != want[m] {
                    return Err(format!("sop expression: the result differs from the Boolean expression at assignment {}", m));
                }
            }
            irredundant(&r)?;
            Ok(true)
        }
        "and" | "or" | "not" => {
            let n = us(t[2]);
            let a = parse_raw_cubes(t[3]);
            let b = if t[1] == "not" { vec![] } else { parse_raw_cubes(t[4]) };
            if o.len() != 2 || o[0] != "ok" {
                return Err(format!("sop {}: `{}`", t[1], out));
            }
            let r = parse_raw_cubes(o[1]);
            for m in 0..(1usize << n) {
                let want = match t[1] {
                    "and" => sop_val(&a, m) && sop_val(&b, m),
                    "or" => sop_val(&a, m) || sop_val(&b, m),
                    _ => !sop_val(&a, m),
                };
                if sop_val(&r, m) != want {
                    return Err(format!("sop {}: result differs from the Boolean operation at assignment {}", t[1], m));
                }
            }
            irredundant(&r)?;
            // is_zero exactly for constant zero, is_one only for constant one
            let info = run_line(&format!("sop info {} {}", n, o[1]));
            let io: Vec<&str> = info.split_whitespace().collect();
            let all0 = (0..(1usize << n)).all(|m| !sop_val(&r, m));
            let all1 = (0..(1usize << n)).all(|m| sop_val(&r, m));
            if io.len() != 5 || (io[1] == "1") != all0 {
                return Err(format!("is_zero is {} on a result that is {}constant zero", io.get(1).unwrap_or(&"?"), if all0 { "" } else { "not " }));
            }
            if io[2] == "1" && !all1 {
                return Err("is_one holds on a result that is not constant one".to_string());
            }
            Ok(!a.is_empty())
        }
        "value" => {
            let a = parse_raw_cubes(t[3]);
            let want = sop_val(&a, hexu(t[4]));
            if out != format!("ok {}", show_bool(want)) {
                return Err(format!("sop value: expected {}, implementation says `{}`", want, out));
            }
            Ok(true)
        }
        "tolut" => {
            let n = us(t[2]);
            let a = parse_raw_cubes(t[3]);
            let want = Tab::from_fn(n, |m| sop_val(&a, m));
            expect_tab(out, &want, "Lut::from(Sop)")?;
            Ok(true)
        }
        "fromlut" => {
            let f = parse_tab(t[2]).unwrap();
            if !f.wf() {
                return Ok(false);
            }
            let tot: u32 = if f.n >= 32 { !0 } else { (1u32 << f.n) - 1 };
            let want: Vec<(u32, u32)> =
                (0..(1usize << f.n)).filter(|m| f.bit(*m)).map(|m| (m as u32 & tot, !(m as u32) & tot)).collect();
            if o.len() != 2 || parse_raw_cubes(o[1]) != want {
                return Err(format!("Sop::from(Lut) is not the minterm cover: `{}`", out));
            }
            let back = run_line(&format!("sop tolut {} {}", f.n, o[1]));
            expect_tab(&back, &f, "Lut::from(Sop::from(f))")?;
            Ok(nontrivial(&f))
        }
        _ => Ok(false),
    }
}

fn c15(t: &[&str], out: &str) -> R {
    if t[0] == "fctor" {
        return fctor(t, out);
    }
    if t[0] != "esop" {
        return Ok(false);
    }
    let o: Vec<&str> = out.split_whitespace().collect();
    match t[1] {
        "expr" => {
            let n = us(t[2]);
            let want = expr_table(n, &t[3..], true).ok_or("malformed expression")?;
            if o.len() != 2 || o[0] != "ok" {
                return Err(format!("esop expression: `{}`", out));
            }
            let r = parse_raw_cubes(o[1]);
            for m in 0..(1usize << n) {
                if esop_val(&r, m) != want[m] {
                    return Err(format!("esop expression: the result differs from the Boolean expression at assignment {}", m));
                }
            }
            Ok(true)
        }
        "fromlut" => {
            let f = parse_tab(t[2]).unwrap();
            if !f.wf() {
                return Ok(false);
            }
            let nb = 1usize << f.n;
            // ANF coefficient of S: xor of f over all assignments contained in S
            let mut want: Vec<(u32, u32)> = Vec::new();
            if f.n <= 10 {
                // Moebius transform by the definition (subset enumeration)
                for s in 0..nb {
                    let mut c = false;
                    let mut sub = s;
                    loop {
                        if f.bit(sub) {
                            c = !c;
                        }
                        if sub == 0 {
                            break;
                        }
                        sub = (sub - 1) & s;
                    }
                    if c {
                        want.push((s as u32, 0));
                    }
                }
            }
            if o.len() != 2 || o[0] != "ok" {
                return Err(format!("Esop::from(Lut): `{}`", out));
            }
            let got = parse_raw_cubes(o[1]);
            if got != want {
                return Err(format!(
                    "Esop::from({}) is not the positive-polarity Reed-Muller form: got {:?} expected {:?}",
                    f.show(),
                    got,
                    want
                ));
            }
            let back = run_line(&format!("esop tolut {} {}", f.n, o[1]));
            expect_tab(&back, &f, "Lut::from(Esop::from(f))")?;
            Ok(nontrivial(&f))
        }
        "xor" | "not" => {
            let n = us(t[2]);
            let a = parse_raw_cubes(t[3]);
            let b = if t[1] == "not" { vec![] } else { parse_raw_cubes(t[4]) };
            if o.len() != 2 || o[0] != "ok" {
                return Err(format!("esop {}: `{}`", t[1], out));
            }
            let r = parse_raw_cubes(o[1]);
            for m in 0..(1usize << n) {
                let want = if t[1] == "xor" { esop_val(&a, m) != esop_val(&b, m) } else { !esop_val(&a, m) };
                if esop_val(&r, m) != want {
                    return Err(format!("esop {}: result differs at assignment {}", t[1], m));
                }
            }
            Ok(true)
        }
        "value" => {
            let a = parse_raw_cubes(t[3]);
            let want = esop_val(&a, hexu(t[4]));
            if out != format!("ok {}", show_bool(want)) {
                return Err(format!("esop value: expected {}, implementation says `{}`", want, out));
            }
            Ok(true)
        }
        "tolut" => {
            let n = us(t[2]);
            let a = parse_raw_cubes(t[3]);
            let want = Tab::from_fn(n, |m| esop_val(&a, m));
            expect_tab(out, &want, "Lut::from(Esop)")?;
            Ok(true)
        }
        "info" => {
            let n = us(t[2]);
            let a = parse_raw_cubes(t[3]);
            let all0 = (0..(1usize << n)).all(|m| !esop_val(&a, m));
            let all1 = (0..(1usize << n)).all(|m| esop_val(&a, m));
            if o.len() != 5 {
                return Err(format!("esop info: `{}`", out));
            }
            if o[1] == "1" && !all0 {
                return Err("is_zero holds for an Esop that is not constant zero".to_string());
            }
            if o[2] == "1" && !all1 {
                return Err("is_one holds for an Esop that is not constant one".to_string());
            }
            Ok(true)
        }
        _ => Ok(false),
    }
}

// independent reader of the printed formulas (C16)
fn eval_formula(s: &str, a: usize) -> Option<bool> {
    // formula := term ('|' term)* ; term := product ('^' product)* ; product := atom+
    let mut any = false;
    for term in s.split('|') {
        let mut x = false;
        for prod in term.split('^') {
            let p = prod.trim();
            if p.is_empty() {
                return None;
            }
            let b = p.as_bytes();
            let mut i = 0;
            let mut val = true;
            let mut natoms = 0;
            while i < b.len() {
                let mut neg = false;
                while i < b.len() && b[i] == b'!' {
                    neg = !neg;
                    i += 1;
                }
                if i >= b.len() {
                    return None;
                }
                let v = match b[i] {
                    b'0' => {
                        i += 1;
                        false
                    }
                    b'1' => {
                        i += 1;
                        true
                    }
                    b'x' => {
                        i += 1;
                        let st = i;
                        while i < b.len() && b[i].is_ascii_digit() {
                            i += 1;
                        }
                        if st == i {
                            return None;
                        }
                        let idx: usize = p[st..i].parse().ok()?;
                        (a >> idx) & 1 != 0
                    }
                    _ => return None,
                };
                val = val && (v != neg);
                natoms += 1;
            }
            if natoms == 0 {
                return None;
            }
            x = x != val;
        }
        any = any || x;
    }
    Some(any)
}

fn var_indices(s: &str) -> Vec<usize> {
    let b = s.as_bytes();
    let mut v = vec![];
    let mut i = 0;
    while i < b.len() {
        if b[i] == b'x' {
            let st = i + 1;
            i += 1;
            while i < b.len() && b[i].is_ascii_digit() {
                i += 1;
            }
            v.push(s[st..i].parse().unwrap());
        } else {
            i += 1;
        }
    }
    v
}

fn c16(t: &[&str], out: &str) -> R {
    if t.len() < 3 || t[1] != "display" {
        return Ok(false);
    }
    let o: Vec<&str> = out.split_whitespace().collect();
    if o.len() != 2 || o[0] != "ok" {
        return Err(format!("display: `{}`", out));
    }
    let text = String::from_utf8(parse_bytes(o[1]).unwrap()).map_err(|_| "not UTF-8")?;
    let (nvars, val): (usize, Box<dyn Fn(usize) -> bool>) = match t[0] {
        "cube" => {
            let (p, q) = parse_raw_cube(t[2]).unwrap();
            (32, Box::new(move |m| cube_val(p, q, m as u32)))
        }
        "ecube" => {
            let (v, x) = parse_raw_ecube(t[2]);
            (32, Box::new(move |m| ecube_val(v, x, m as u32)))
        }
        "sop" => {
            let l = parse_raw_cubes(t[3]);
            (us(t[2]), Box::new(move |m| sop_val(&l, m)))
        }
        "esop" => {
            let l = parse_raw_cubes(t[3]);
            (us(t[2]), Box::new(move |m| esop_val(&l, m)))
        }
        "soes" => {
            let l = parse_raw_ecubes(t[3]);
            (us(t[2]), Box::new(move |m| l.iter().any(|(v, x)| ecube_val(*v, *x, m as u32))))
        }
        _ => return Ok(false),
    };
    // assignments: all when few variables, otherwise a deterministic sample
    let assigns: Vec<usize> = if nvars <= 10 {
        (0..(1usize << nvars)).collect()
    } else {
        let mut v = vec![0usize, 0xffff_ffff, 0x5555_5555, 0xaaaa_aaaa];
        let mut h = 0x1234_5678_9abc_def0u64;
        for b in text.bytes() {
            h = (h ^ b as u64).wrapping_mul(0x100_0000_01b3);
        }
        for _ in 0..60 {
            h = h.wrapping_mul(6364136223846793005).wrapping_add(1442695040888963407);
            v.push((h >> 16) as usize & 0xffff_ffff);
        }
        for i in 0..32 {
            v.push(1usize << i);
            v.push(0xffff_ffff ^ (1usize << i));
        }
        v
    };
    // the value the object itself returns (the real `value` method), next to the definition
    let own = |a: usize| -> Option<bool> {
        let line = match t[0] {
            "cube" | "ecube" => format!("{} value {} {:x}", t[0], t[2], a),
            _ => format!("{} value {} {} {:x}", t[0], t[2], t[3], a),
        };
        let r = run_line(&line);
        match r.as_str() {
            "ok 1" => Some(true),
            "ok 0" => Some(false),
            _ => None,
        }
    };
    for (k, a) in assigns.into_iter().enumerate() {
        match eval_formula(&text, a) {
            None => return Err(format!("printed text {:?} is not a formula of the grammar", text)),
            Some(b) => {
                if b != val(a) {
                    return Err(format!("printed text {:?} evaluates to {} at assignment {:#x} but the object denotes {}", text, b, a, val(a)));
                }
                // every assignment for few variables, the first 24 sampled ones otherwise
                if nvars <= 6 || k < 24 {
                    match own(a) {
                        Some(o) if o != b => {
                            return Err(format!("printed text {:?} evaluates to {} at assignment {:#x} but the object's own value() returns {}", text, b, a, o));
                        }
                        _ => {}
                    }
                }
            }
        }
    }
    if t[0] == "cube" || t[0] == "ecube" {
        let idx = var_indices(&text);
        if idx.windows(2).any(|w| w[0] > w[1]) {
            return Err(format!("variables are not in increasing order in {:?}", text));
        }
    }
    Ok(true)
}

// ------------------------------------------------------------------ C17

/// is this call valid (in-range arguments)? None = not an index-taking call this oracle judges
fn validity(t: &[&str]) -> Option<bool> {
    let tabn = |s: &str| parse_tab(s).map(|x| (x.n, x.w.len() == table_size(x.n)));
    Some(match t[0] {
        "ctor" if t[2] == "nth_var" => us(t[4]) < us(t[3]),
        "ctor" => true,
        "flip" | "swapadj" => {
            let (n, ok) = tabn(t[3])?;
            let i = us(t[4]);
            ok && i < n && (t[0] == "flip" || i.checked_add(1).map_or(false, |j| j < n))
        }
        "swap" => {
            let (n, ok) = tabn(t[3])?;
            ok && us(t[4]) < n && us(t[5]) < n
        }
        "cof" | "decomp" | "posunate" | "negunate" => {
            let (n, ok) = tabn(t[2])?;
            ok && us(t[3]) < n
        }
        "fromcof" => {
            let (n0, ok0) = tabn(t[2])?;
            let (n1, ok1) = tabn(t[3])?;
            ok0 && ok1 && n0 == n1 && us(t[4]) < n0
        }
        "get" | "set" | "setbit" | "unsetbit" => {
            let (n, ok) = tabn(t[2])?;
            ok && us(t[3]) < (1usize << n)
        }
        "bin" => {
            let (n0, ok0) = tabn(t[4])?;
            let (n1, ok1) = tabn(t[5])?;
            ok0 && ok1 && n0 == n1
        }
        "fromblocks" => parse_words(t[3])?.len() == table_size(us(t[2])),
        "bdd" => {
            let n = us(t[2]);
            t[3..].iter().all(|s| tabn(s).map_or(false, |(m, ok)| ok && m == n))
        }
        "not" | "next" | "tohex" | "pcanon" | "ncanon" | "npncanon" => true,
        "cube" if t[1] == "minterm" => us(t[2]) <= 32,
        _ => return None,
    })
}

fn c17(t: &[&str], out: &str) -> R {
    match validity(t) {
        None => Ok(false),
        Some(true) => {
            if out == "panic" {
                return Err("panics on valid arguments".to_string());
            }
            Ok(true)
        }
        Some(false) => {
            if out != "panic" {
                return Err(format!("returns `{}` on invalid arguments instead of panicking", out));
            }
            Ok(true)
        }
    }
}

/// C19, structural part: with the word stream w injected, random() of n variables must be the
/// table whose position m is bit (m mod 64) of word (m div 64) - every position its own stream
/// bit -, it must read exactly as many words as the table has, and ask for more when given fewer
fn c19(t: &[&str], out: &str) -> R {
    if t[0] != "rnd" {
        return Ok(false);
    }
    let n = us(t[2]);
    let words = if t[3] == "-" { vec![] } else { parse_words(t[3]).ok_or("bad words")? };
    let ts = table_size(n);
    if words.len() < ts {
        if out != "panic" {
            return Err(format!("random() of {} variables was given {} words, needs {}, and still returned `{}`", n, words.len(), ts, out));
        }
        return Ok(true);
    }
    let f: Vec<&str> = out.split_whitespace().collect();
    if f.len() != 3 || f[0] != "ok" {
        return Err(format!("random() under an injected stream: `{}`", out));
    }
    let tab = parse_tab(f[1]).ok_or("bad table")?;
    if tab.n != n || !tab.wf() {
        return Err(format!("random() returned a malformed table {}", tab.show()));
    }
    for m in 0..(1usize << n) {
        let want = (words[m / 64] >> (m % 64)) & 1 != 0;
        if tab.bit(m) != want {
            return Err(format!("random(): assignment {} does not read bit {} of stream word {} (table {})", m, m % 64, m / 64, tab.show()));
        }
    }
    let left = words.len() - ts;
    if f[2] != format!("left={}", left) {
        return Err(format!("random() of {} variables read {} words of the stream instead of {}", n, f[2], ts));
    }
    Ok(true)
}

pub fn check(prop: &str, line: &str) -> R {
    // `seq A ;; B ;; ...`: the calls one after the other on one fresh thread; every result is
    // held against the property on its own (the property knows no state kept between calls)
    if let Some(rest) = line.strip_prefix("seq ") {
        let parts: Vec<String> = rest.split(" ;; ").map(|s| s.trim().to_string()).collect();
        let l = line.to_string();
        let out = std::thread::spawn(move || run_line(&l)).join().unwrap_or_else(|_| "panic".to_string());
        let outs: Vec<&str> = out.split(" ;; ").collect();
        if outs.len() != parts.len() {
            return Err(format!("sequence did not run: `{}`", out));
        }
        let mut any = false;
        for (p, o) in parts.iter().zip(outs) {
            let o = o.strip_prefix('[').unwrap_or(o);
            let o = o.strip_suffix(']').unwrap_or(o);
            match check_out(prop, p, o) {
                Err(e) => return Err(format!("in this sequence of calls, `{}`: {}", p, e)),
                Ok(b) => any |= b,
            }
        }
        return Ok(any);
    }
    let out = run_line(line);
    check_out(prop, line, &out)
}

fn check_out(prop: &str, line: &str, out: &str) -> R {
    let out = out.to_string();
    let t: Vec<&str> = line.split_whitespace().collect();
    if t.is_empty() {
        return Ok(false);
    }
    if out == "bad-op" {
        return Err("harness could not run this line (bad-op)".to_string());
    }
    if out == "ok receiver-modified" {
        return Err("a copying method (`swap_adjacent(&mut self) -> Self`) modified its receiver".to_string());
    }
    if out == "ok wrong-num-vars" {
        return Err("the result of an operator on two-level forms has another number of variables than its operands".to_string());
    }
    if out == "ok eq-unstable" {
        return Err("`==` between two tables changes its answer (or disagrees with `cmp` / `hash`) after one operand was hashed, printed, cloned or compared - all of them `&self` operations".to_string());
    }
    if out == "ok views-disagree" {
        return Err("the views of one two-level form (its cubes, value() on every assignment, its conversion to a Lut by reference and by value) do not describe the same function".to_string());
    }
    if out == "ok forms-disagree" {
        // the runner evaluates every syntactic form of an operator (owned / borrowed operands,
        // named method, assigning form) and reports when they are not all equal
        return Err("the syntactic forms of this operator (owned / borrowed operands) do not all return the same value".to_string());
    }
    match prop {
        "C01" => c01(&t, &out),
        "C02" => c02(&t, &out),
        "C03" => c03(&t, &out),
        "C04" => c04(&t, &out),
        "C05" => c05(&t, &out),
        "C06" => c06(&t, &out),
        "C07" => c07(&t, &out),
        "C08" => c08(&t, &out),
        "C09" => c09(&t, &out),
        "C10" => c10(&t, &out),
        "C11" => c11(&t, &out),
        "C12" => c12(&t, &out),
        "C13" => c13(&t, &out),
        "C14" => c14(&t, &out),
        "C15" => c15(&t, &out),
        "C16" => c16(&t, &out),
        "C17" => c17(&t, &out),
        "C19" => c19(&t, &out),
        _ => Ok(false),
    }
}

//! One trait over the dynamic `Lut` and the thirteen `LutN` aliases, so that every protocol
//! operation is run by the same generic code on both types.

use std::fmt::{Binary, Display, LowerHex};
use std::hash::Hash;
use volute::{
    DecompositionType, Lut, Lut0, Lut1, Lut10, Lut11, Lut12, Lut2, Lut3, Lut4, Lut5, Lut6, Lut7,
    Lut8, Lut9,
};

pub trait L: Sized + Clone + Eq + Ord + Hash + Display + LowerHex + Binary {
    const STATIC: bool;
    fn nv(&self) -> usize;
    fn from_blocks_n(n: usize, b: &[u64]) -> Self;
    fn blocks_v(&self) -> Vec<u64>;
    fn num_bits_(&self) -> usize;
    fn num_blocks_(&self) -> usize;
    fn zero_n(n: usize) -> Self;
    fn one_n(n: usize) -> Self;
    fn nth_var_n(n: usize, v: usize) -> Self;
    fn parity_n(n: usize) -> Self;
    fn majority_n(n: usize) -> Self;
    fn threshold_n(n: usize, k: usize) -> Self;
    fn equals_n(n: usize, k: usize) -> Self;
    fn symmetric_n(n: usize, c: usize) -> Self;
    fn default_n() -> Self;
    fn random_n(n: usize) -> Self;
    fn value_(&self, m: usize) -> bool;
    fn get_bit_(&self, m: usize) -> bool;
    fn set_value_(&mut self, m: usize, v: bool);
    fn set_bit_(&mut self, m: usize);
    fn unset_bit_(&mut self, m: usize);
    /// forms of NOT: 0 `not()`, 1 `not_inplace`, 2 `!a`, 3 `!&a`
    fn not_form(&self, form: usize) -> Self;
    /// op: 0 and, 1 or, 2 xor; forms: 0 named, 1 named in-place, 2 `a op b`, 3 `&a op b`,
    /// 4 `&a op &b`, 5 `a op &b`, 6 `a op= b`, 7 `a op= &b`
    fn bin_form(&self, op: usize, form: usize, rhs: &Self) -> Self;
    fn flip_ip(&mut self, i: usize);
    fn flip_cp(&self, i: usize) -> Self;
    fn swap_ip(&mut self, i: usize, j: usize);
    fn swap_cp(&self, i: usize, j: usize) -> Self;
    fn swapadj_ip(&mut self, i: usize);
    fn swapadj_cp(&mut self, i: usize) -> Self;
    fn cofactors_(&self, i: usize) -> (Self, Self);
    fn from_cofactors_(c0: &Self, c1: &Self, i: usize) -> Self;
    fn pcanon(&self) -> (Self, Vec<u8>);
    fn ncanon(&self) -> (Self, u32);
    fn npncanon(&self) -> (Self, Vec<u8>, u32);
    fn decomp(&self, i: usize) -> DecompositionType;
    fn pos_unate(&self, i: usize) -> bool;
    fn neg_unate(&self, i: usize) -> bool;
    fn bdd(luts: &[Self]) -> usize;
    fn to_hex_(&self) -> String;
    fn to_bin_(&self) -> String;
    fn from_hex_(n: usize, s: &str) -> Result<Self, ()>;
    fn verif_next_(&mut self) -> bool;
    fn all_functions_(n: usize) -> Box<dyn Iterator<Item = Self>>;
    /// the provided methods of `Iterator` (`nth`, `skip`, `step_by`, `count`, `last`, ...) called on the
    /// concrete iterator type, so that an override in the crate is what runs
    fn itera_(n: usize, a: usize, kind: &str, b: usize) -> Option<String>;
    /// conversion from a dynamic `Lut` into this type (`TryFrom<Lut>` for the static types, the
    /// identity for `Lut` itself when the size is `n`); `None` = `Err`
    fn conv_from_dyn(n: usize, src: Lut) -> Option<Self>;
}

/// two values of one type laid out inline, 8 bytes apart modulo 16 (the struct itself is
/// 16-aligned): `a` on a 16-byte boundary and `b` off it, and the other way round
#[repr(C, align(16))]
pub struct Mis0<T> {
    pub a: T,
    pub pad: u64,
    pub b: T,
}
#[repr(C, align(16))]
pub struct Mis1<T> {
    pub pad: u64,
    pub a: T,
    pub pad2: u64,
    pub b: T,
}

macro_rules! common_methods {
    () => {
        fn blocks_v(&self) -> Vec<u64> {
            self.blocks().to_vec()
        }
        fn num_bits_(&self) -> usize {
            self.num_bits()
        }
        fn num_blocks_(&self) -> usize {
            self.num_blocks()
        }
        fn value_(&self, m: usize) -> bool {
            self.value(m)
        }
        fn get_bit_(&self, m: usize) -> bool {
            self.get_bit(m)
        }
        fn set_value_(&mut self, m: usize, v: bool) {
            self.set_value(m, v)
        }
        fn set_bit_(&mut self, m: usize) {
            self.set_bit(m)
        }
        fn unset_bit_(&mut self, m: usize) {
            self.unset_bit(m)
        }
        fn not_form(&self, form: usize) -> Self {
            match form {
                0 => self.not(),
                1 => {
                    let mut a = self.clone();
                    a.not_inplace();
                    a
                }
                2 => !self.clone(),
                _ => !self,
            }
        }
        fn bin_form(&self, op: usize, form: usize, rhs: &Self) -> Self {
            let a = self.clone();
            let b = rhs.clone();
            match (op, form) {
                (0, 0) => a.and(&b),
                (1, 0) => a.or(&b),
                (_, 0) => a.xor(&b),
                (0, 1) => {
                    let mut a = a;
                    a.and_inplace(&b);
                    a
                }
                (1, 1) => {
                    let mut a = a;
                    a.or_inplace(&b);
                    a
                }
                (_, 1) => {
                    let mut a = a;
                    a.xor_inplace(&b);
                    a
                }
                (0, 2) => a & b,
                (1, 2) => a | b,
                (_, 2) => a ^ b,
                (0, 3) => &a & b,
                (1, 3) => &a | b,
                (_, 3) => &a ^ b,
                (0, 4) => &a & &b,
                (1, 4) => &a | &b,
                (_, 4) => &a ^ &b,
                (0, 5) => a & &b,
                (1, 5) => a | &b,
                (_, 5) => a ^ &b,
                (0, 6) => {
                    let mut a = a;
                    a &= b;
                    a
                }
                (1, 6) => {
                    let mut a = a;
                    a |= b;
                    a
                }
                (_, 6) => {
                    let mut a = a;
                    a ^= b;
                    a
                }
                (0, 7) => {
                    let mut a = a;
                    a &= &b;
                    a
                }
                (1, 7) => {
                    let mut a = a;
                    a |= &b;
                    a
                }
                (_, 7) => {
                    let mut a = a;
                    a ^= &b;
                    a
                }
                // forms 8, 9: both operands are the SAME object when the two values are equal
                // (borrowed op borrowed, and the named method on itself); otherwise as forms 4, 0
                (0, 8) => if a == b { &a & &a } else { &a & &b },
                (1, 8) => if a == b { &a | &a } else { &a | &b },
                (_, 8) => if a == b { &a ^ &a } else { &a ^ &b },
                (0, 9) => if a == b { a.and(&a) } else { a.and(&b) },
                (1, 9) => if a == b { a.or(&a) } else { a.or(&b) },
                (_, 9) => if a == b { a.xor(&a) } else { a.xor(&b) },
                // forms 10..13: the two operands live inline at addresses that differ by 8 modulo
                // 16 (seed C01-j: kernels that split each operand with `align_to::<u128>()` and
                // pair the pieces).  10, 11: named in-place method; 12, 13: `&a op &b`
                (o, f) => {
                    let lay = f % 2;
                    let named = f < 12;
                    let mut m0 = Box::new(crate::lutapi::Mis0 { a: a.clone(), pad: 0, b: b.clone() });
                    let mut m1 = Box::new(crate::lutapi::Mis1 { pad: 0, a, pad2: 0, b });
                    let (x, y): (&mut Self, &Self) = if lay == 0 {
                        let m = std::hint::black_box(&mut *m0);
                        (&mut m.a, &m.b)
                    } else {
                        let m = std::hint::black_box(&mut *m1);
                        (&mut m.a, &m.b)
                    };
                    if named {
                        match o {
                            0 => x.and_inplace(y),
                            1 => x.or_inplace(y),
                            _ => x.xor_inplace(y),
                        }
                        x.clone()
                    } else {
                        match o {
                            0 => &*x & y,
                            1 => &*x | y,
                            _ => &*x ^ y,
                        }
                    }
                }
            }
        }
        fn flip_ip(&mut self, i: usize) {
            self.flip_inplace(i)
        }
        fn flip_cp(&self, i: usize) -> Self {
            self.flip(i)
        }
        fn swap_ip(&mut self, i: usize, j: usize) {
            self.swap_inplace(i, j)
        }
        fn swap_cp(&self, i: usize, j: usize) -> Self {
            self.swap(i, j)
        }
        fn swapadj_ip(&mut self, i: usize) {
            self.swap_adjacent_inplace(i)
        }
        fn swapadj_cp(&mut self, i: usize) -> Self {
            self.swap_adjacent(i)
        }
        fn cofactors_(&self, i: usize) -> (Self, Self) {
            self.cofactors(i)
        }
        fn from_cofactors_(c0: &Self, c1: &Self, i: usize) -> Self {
            Self::from_cofactors(c0, c1, i)
        }
        fn ncanon(&self) -> (Self, u32) {
            self.n_canonization()
        }
        fn decomp(&self, i: usize) -> DecompositionType {
            self.top_decomposition(i)
        }
        fn pos_unate(&self, i: usize) -> bool {
            self.is_pos_unate(i)
        }
        fn neg_unate(&self, i: usize) -> bool {
            self.is_neg_unate(i)
        }
        fn bdd(luts: &[Self]) -> usize {
            Self::bdd_complexity(luts)
        }
        fn to_hex_(&self) -> String {
            self.to_hex_string()
        }
        fn to_bin_(&self) -> String {
            self.to_bin_string()
        }
        fn verif_next_(&mut self) -> bool {
            self.verif_next()
        }
    };
}

impl L for Lut {
    const STATIC: bool = false;
    fn nv(&self) -> usize {
        self.num_vars()
    }
    fn from_blocks_n(n: usize, b: &[u64]) -> Self {
        Lut::from_blocks(n, b)
    }
    fn conv_from_dyn(n: usize, src: Lut) -> Option<Self> {
        if src.num_vars() == n {
            Some(src)
        } else {
            None
        }
    }
    fn zero_n(n: usize) -> Self {
        Lut::zero(n)
    }
    fn one_n(n: usize) -> Self {
        Lut::one(n)
    }
    fn nth_var_n(n: usize, v: usize) -> Self {
        Lut::nth_var(n, v)
    }
    fn parity_n(n: usize) -> Self {
        Lut::parity(n)
    }
    fn majority_n(n: usize) -> Self {
        Lut::majority(n)
    }
    fn threshold_n(n: usize, k: usize) -> Self {
        Lut::threshold(n, k)
    }
    fn equals_n(n: usize, k: usize) -> Self {
        Lut::equals(n, k)
    }
    fn symmetric_n(n: usize, c: usize) -> Self {
        Lut::symmetric(n, c)
    }
    fn default_n() -> Self {
        Lut::default()
    }
    fn random_n(n: usize) -> Self {
        Lut::random(n)
    }
    fn pcanon(&self) -> (Self, Vec<u8>) {
        self.p_canonization()
    }
    fn npncanon(&self) -> (Self, Vec<u8>, u32) {
        self.npn_canonization()
    }
    fn from_hex_(n: usize, s: &str) -> Result<Self, ()> {
        Lut::from_hex_string(n, s)
    }
    fn all_functions_(n: usize) -> Box<dyn Iterator<Item = Self>> {
        Box::new(Lut::all_functions(n))
    }
    fn itera_(n: usize, a: usize, kind: &str, b: usize) -> Option<String> {
        crate::implrun::run_itera(Lut::all_functions(n), a, kind, b)
    }
    common_methods!();
}

macro_rules! impl_static {
    ($t:ty, $n:expr) => {
        impl L for $t {
            const STATIC: bool = true;
            fn nv(&self) -> usize {
                self.num_vars()
            }
            fn from_blocks_n(_n: usize, b: &[u64]) -> Self {
                <$t>::from_blocks(b)
            }
            fn conv_from_dyn(_n: usize, src: Lut) -> Option<Self> {
                <$t>::try_from(src).ok()
            }
            fn zero_n(_n: usize) -> Self {
                <$t>::zero()
            }
            fn one_n(_n: usize) -> Self {
                <$t>::one()
            }
            fn nth_var_n(_n: usize, v: usize) -> Self {
                <$t>::nth_var(v)
            }
            fn parity_n(_n: usize) -> Self {
                <$t>::parity()
            }
            fn majority_n(_n: usize) -> Self {
                <$t>::majority()
            }
            fn threshold_n(_n: usize, k: usize) -> Self {
                <$t>::threshold(k)
            }
            fn equals_n(_n: usize, k: usize) -> Self {
                <$t>::equals(k)
            }
            fn symmetric_n(_n: usize, c: usize) -> Self {
                <$t>::symmetric(c)
            }
            fn default_n() -> Self {
                <$t>::default()
            }
            fn random_n(_n: usize) -> Self {
                <$t>::random()
            }
            fn pcanon(&self) -> (Self, Vec<u8>) {
                let (a, p) = self.p_canonization();
                (a, p.to_vec())
            }
            fn npncanon(&self) -> (Self, Vec<u8>, u32) {
                let (a, p, m) = self.npn_canonization();
                (a, p.to_vec(), m)
            }
            fn from_hex_(_n: usize, s: &str) -> Result<Self, ()> {
                <$t>::from_hex_string(s)
            }
            fn all_functions_(_n: usize) -> Box<dyn Iterator<Item = Self>> {
                Box::new(<$t>::all_functions())
            }
            fn itera_(_n: usize, a: usize, kind: &str, b: usize) -> Option<String> {
                crate::implrun::run_itera(<$t>::all_functions(), a, kind, b)
            }
            common_methods!();
        }
    };
}

impl_static!(Lut0, 0);
impl_static!(Lut1, 1);
impl_static!(Lut2, 2);
impl_static!(Lut3, 3);
impl_static!(Lut4, 4);
impl_static!(Lut5, 5);
impl_static!(Lut6, 6);
impl_static!(Lut7, 7);
impl_static!(Lut8, 8);
impl_static!(Lut9, 9);
impl_static!(Lut10, 10);
impl_static!(Lut11, 11);
impl_static!(Lut12, 12);

/// dispatch a generic function on the static alias for `n`
#[macro_export]
macro_rules! with_static {
    ($n:expr, $f:ident, $($args:expr),*) => {
        match $n {
            0 => $f::<volute::Lut0>($($args),*),
            1 => $f::<volute::Lut1>($($args),*),
            2 => $f::<volute::Lut2>($($args),*),
            3 => $f::<volute::Lut3>($($args),*),
            4 => $f::<volute::Lut4>($($args),*),
            5 => $f::<volute::Lut5>($($args),*),
            6 => $f::<volute::Lut6>($($args),*),
            7 => $f::<volute::Lut7>($($args),*),
            8 => $f::<volute::Lut8>($($args),*),
            9 => $f::<volute::Lut9>($($args),*),
            10 => $f::<volute::Lut10>($($args),*),
            11 => $f::<volute::Lut11>($($args),*),
            12 => $f::<volute::Lut12>($($args),*),
            _ => panic!("no static alias for this size"),
        }
    };
}

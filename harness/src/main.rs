//! vharness: the Rust side of the correspondence check and the failing-input search.
//!
//!   vharness gen <prop> <quick|thorough> <seed>     case lines on stdout (corpus lines are prepended by bin/check)
//!   vharness impl                                   stdin: case lines, stdout: one result line each (real crate, in-process)
//!   vharness oracle <prop>                          stdin: case lines; stdout: FAIL lines and a summary line
//!   vharness random <seed>                          C19: statistical run on the real `random()`
//!   vharness mip ...                                C18 (feature `mip`)

mod gen;
mod implrun;
mod lutapi;
mod oracle;
mod proto;
mod rng;
mod stat19;
#[cfg(feature = "mip")]
mod mip18;

use std::io::{BufRead, Write};

fn par_map<F>(lines: &[String], f: F) -> Vec<String>
where
    F: Fn(&str) -> String + Sync,
{
    let nthreads = std::thread::available_parallelism().map(|x| x.get()).unwrap_or(4).min(16);
    let chunk = (lines.len() + nthreads - 1) / nthreads.max(1);
    if lines.is_empty() {
        return vec![];
    }
    let mut out: Vec<Vec<String>> = Vec::new();
    std::thread::scope(|s| {
        let handles: Vec<_> = lines
            .chunks(chunk.max(1))
            .map(|ch| {
                let f = &f;
                s.spawn(move || ch.iter().map(|l| f(l)).collect::<Vec<String>>())
            })
            .collect();
        for h in handles {
            out.push(h.join().unwrap());
        }
    });
    out.into_iter().flatten().collect()
}

/// every chunk again, last line first; `Some((result, culprit line, last index of the chunk))`
/// where it differs from `fwd`.  The culprit is looked for among the calls made before it in this
/// pass, each tried in a fresh thread (fresh thread-local state) followed by the line itself.
fn order_pass(lines: &[String], fwd: &[String]) -> Vec<Option<(String, String, usize)>> {
    let nthreads = std::thread::available_parallelism().map(|x| x.get()).unwrap_or(4).min(16);
    let chunk = ((lines.len() + nthreads - 1) / nthreads.max(1)).max(1);
    let mut out: Vec<Vec<Option<(String, String, usize)>>> = Vec::new();
    std::thread::scope(|s| {
        let handles: Vec<_> = lines
            .chunks(chunk)
            .zip(fwd.chunks(chunk))
            .enumerate()
            .map(|(ci, (ch, fw))| {
                s.spawn(move || {
                    let last = ci * chunk + ch.len() - 1;
                    let mut res: Vec<Option<(String, String, usize)>> = vec![None; ch.len()];
                    let t0 = std::time::Instant::now();
                    for k in (0..ch.len()).rev() {
                        let r = implrun::run_line(&ch[k]);
                        if r != fw[k] && k + 1 < ch.len() {
                            let mut culprit = ch[k + 1].clone();
                            if t0.elapsed().as_secs() < 20 {
                                for j in k + 1..ch.len() {
                                    let (p, b) = (ch[j].clone(), ch[k].clone());
                                    let got = std::thread::spawn(move || {
                                        implrun::run_line(&p);
                                        implrun::run_line(&b)
                                    })
                                    .join()
                                    .unwrap_or_default();
                                    if std::env::var("VERIF_DEBUG_ORDER").is_ok() {
                                        eprintln!("trial j={} got=`{}` fwd=`{}`", j, got, fw[k]);
                                    }
                                    if got != fw[k] {
                                        culprit = ch[j].clone();
                                        break;
                                    }
                                }
                            }
                            res[k] = Some((r, culprit, last));
                        }
                    }
                    res
                })
            })
            .collect();
        for h in handles {
            out.push(h.join().unwrap());
        }
    });
    out.into_iter().flatten().collect()
}

fn read_lines() -> Vec<String> {
    let stdin = std::io::stdin();
    stdin.lock().lines().map(|l| l.unwrap()).filter(|l| !l.trim().is_empty()).collect()
}

fn main() {
    // panics are results here, not noise
    std::panic::set_hook(Box::new(|_| {}));
    let args: Vec<String> = std::env::args().collect();
    let mode = args.get(1).map(|s| s.as_str()).unwrap_or("");
    let stdout = std::io::stdout();
    let mut w = std::io::BufWriter::new(stdout.lock());
    match mode {
        "gen" => {
            let prop = &args[2];
            let thorough = args[3] == "thorough";
            let seed: u64 = args[4].parse().unwrap();
            for l in gen::generate(prop, thorough, seed) {
                writeln!(w, "{}", l).unwrap();
            }
        }
        "impl" => {
            let lines = read_lines();
            let fwd = par_map(&lines, |l| implrun::run_line(l));
            // second pass, every chunk backwards on its thread: a result that depends on the calls
            // made before it on the same thread (state kept between calls) differs from the first
            // pass; such a line is printed with both results and the call that preceded it
            let marks = if std::env::var("VERIF_ORDER_PASS").map(|v| v == "0").unwrap_or(false) { vec![None; lines.len()] } else { order_pass(&lines, &fwd) };
            for (r, m) in fwd.iter().zip(marks.iter()) {
                match m {
                    None => writeln!(w, "{}", r).unwrap(),
                    Some((rev, prev, last)) => writeln!(w, "{} ##order-dependent## {} ##after## {} ##chunkend## {}", r, rev, prev, last).unwrap(),
                }
            }
        }
        "oracle" => {
            let prop = args[2].clone();
            let lines = read_lines();
            let res = par_map(&lines, |l| match oracle::check(&prop, l) {
                Ok(true) => "N".to_string(),
                Ok(false) => "T".to_string(),
                Err(e) => format!("F {}", e.replace('\n', " ")),
            });
            let mut checked = 0usize;
            let mut nontrivial = 0usize;
            let mut fails = 0usize;
            for (l, r) in lines.iter().zip(res.iter()) {
                checked += 1;
                if r == "N" {
                    nontrivial += 1;
                } else if let Some(e) = r.strip_prefix("F ") {
                    fails += 1;
                    writeln!(w, "FAIL {} :: {}", l, e).unwrap();
                }
            }
            writeln!(w, "ORACLE prop={} checked={} nontrivial={} fails={}", prop, checked, nontrivial, fails).unwrap();
        }
        "random" => {
            let seed: u64 = args.get(2).and_then(|s| s.parse().ok()).unwrap_or(0);
            let thorough = args.get(3).map(|s| s == "thorough").unwrap_or(false);
            stat19::run(seed, thorough, &mut w);
        }
        #[cfg(feature = "mip")]
        "mip" => {
            mip18::run(&args[2..], &mut w);
        }
        _ => {
            eprintln!("usage: vharness gen|impl|oracle|random|mip ...");
            std::process::exit(2);
        }
    }
}

//! Execute one protocol line on the real crate, in-process, under `catch_unwind`.

use crate::lutapi::L;
use crate::proto::*;
use crate::with_static;
use std::panic::{catch_unwind, AssertUnwindSafe};
use volute::sop::{Cube, Ecube, Esop, Soes, Sop};
use volute::{DecompositionType, Lut};

pub fn show_decomp(d: &DecompositionType) -> &'static str {
    match d {
        DecompositionType::None => "None",
        DecompositionType::Independent => "Independent",
        DecompositionType::Identity => "Identity",
        DecompositionType::Negation => "Negation",
        DecompositionType::And => "And",
        DecompositionType::Or => "Or",
        DecompositionType::Le => "Le",
        DecompositionType::Lt => "Lt",
        DecompositionType::Xor => "Xor",
    }
}

fn mk<T: L>(t: &Tab) -> T {
    T::from_blocks_n(t.n, &t.w)
}

fn sh<T: L>(l: &T) -> String {
    Tab::new(l.nv(), l.blocks_v()).show()
}

/// `itera <ty> <n> <a> <kind> <b>`: `a` plain calls of `next`, then one of the provided methods of
/// `Iterator` on the concrete iterator type, then one more `next` (seeds C08-j, C02-j: an `nth`
/// override that is wrong at the end of the run)
pub fn run_itera<T: L, I: Iterator<Item = T>>(mut it: I, a: usize, kind: &str, b: usize) -> Option<String> {
    for _ in 0..a {
        it.next();
    }
    let show = |o: Option<T>| match o {
        Some(l) => sh(&l),
        None => "none".to_string(),
    };
    Some(match kind {
        "nth" => {
            let r = it.nth(b);
            let r2 = it.next();
            format!("ok {} {}", show(r), show(r2))
        }
        "skip" => {
            let mut s = it.skip(b);
            let r = s.next();
            let r2 = s.next();
            format!("ok {} {}", show(r), show(r2))
        }
        "stepby" => {
            if b == 0 {
                return None;
            }
            let mut s = it.step_by(b);
            let v: Vec<String> = (0..5).map(|_| show(s.next())).collect();
            format!("ok {}", v.join(" "))
        }
        "count" => {
            let c = it.by_ref().count();
            format!("ok {} {}", c, show(it.next()))
        }
        "last" => {
            let r = it.by_ref().last();
            format!("ok {} {}", show(r), show(it.next()))
        }
        "max" => {
            let r = it.by_ref().max();
            format!("ok {} {}", show(r), show(it.next()))
        }
        "min" => {
            let r = it.by_ref().min();
            format!("ok {} {}", show(r), show(it.next()))
        }
        "fold" => {
            let h = it.by_ref().fold(FNV_INIT, |mut h, l| {
                for w in l.blocks_v() {
                    h = digest_step(h, w);
                }
                h
            });
            format!("ok {:x} {}", h, show(it.next()))
        }
        "hint" => {
            // size_hint must bracket the number of items that are left
            let (lo, hi) = it.size_hint();
            let c = it.count();
            format!("ok {}", show_bool(lo <= c && hi.map_or(true, |h| c <= h)))
        }
        // the hint alone, on an iterator that may have far too many items to count (seed C08-m)
        "hint0" => {
            let (lo, hi) = it.size_hint();
            format!("ok {}", show_bool(hi.map_or(true, |h| lo <= h)))
        }
        // consumers that ask for the hint before they pull items
        "takecollect" => {
            let v: Vec<T> = it.take(b).collect();
            let mut w: Vec<T> = Vec::new();
            w.extend(v.iter().cloned());
            format!("ok {} {}", w.len(), match w.last() { Some(l) => sh(l), None => "none".to_string() })
        }
        // the iterator consumed BY VALUE: `count`, `last`, `fold`, `max`, `min` then go through an
        // overridden `fold` (seed C12-m; through `by_ref()` they do not)
        "vcount" => format!("ok {}", it.count()),
        "vlast" => format!("ok {}", show(it.last())),
        "vmax" => format!("ok {}", show(it.max())),
        "vmin" => format!("ok {}", show(it.min())),
        "skipcount" => format!("ok {}", it.skip(b).count()),
        "vfold" => {
            let (c, sum, first, last) = it.fold((0usize, 0u64, None, None), |(c, sum, first, _): (usize, u64, Option<T>, Option<T>), l| {
                let key = l.blocks_v().iter().fold(0u64, |a, w| a.wrapping_mul(31).wrapping_add(*w));
                let l2 = l.clone();
                (c + 1, sum.wrapping_add(key), first.or(Some(l)), Some(l2))
            });
            format!("ok {} {:x} {} {}", c, sum, show(first), show(last))
        }
        _ => return None,
    })
}

/// the provided methods of `Iterator` on any iterator of the crate (`Cube::all`, `Ecube::all`): `a`
/// plain calls of `next`, one adaptor, one more `next` (seed C13-k: a hand-written iterator whose
/// `nth` is wrong after an odd number of items)
pub fn run_alla<T: Ord, I: Iterator<Item = T>>(mut it: I, a: usize, kind: &str, b: usize, show1: &dyn Fn(&T) -> String) -> Option<String> {
    for _ in 0..a {
        it.next();
    }
    let show = |o: Option<T>| match o {
        Some(l) => show1(&l),
        None => "none".to_string(),
    };
    Some(match kind {
        "nth" => {
            let r = it.nth(b);
            let r2 = it.next();
            format!("ok {} {}", show(r), show(r2))
        }
        "skip" => {
            let mut s = it.skip(b);
            let r = s.next();
            let r2 = s.next();
            format!("ok {} {}", show(r), show(r2))
        }
        "stepby" => {
            if b == 0 {
                return None;
            }
            let mut s = it.step_by(b);
            let v: Vec<String> = (0..5).map(|_| show(s.next())).collect();
            format!("ok {}", v.join(" "))
        }
        "count" => {
            let c = it.by_ref().count();
            format!("ok {} {}", c, show(it.next()))
        }
        "last" => {
            let r = it.by_ref().last();
            format!("ok {} {}", show(r), show(it.next()))
        }
        "max" => {
            let r = it.by_ref().max();
            format!("ok {} {}", show(r), show(it.next()))
        }
        "min" => {
            let r = it.by_ref().min();
            format!("ok {} {}", show(r), show(it.next()))
        }
        "hint" => {
            let (lo, hi) = it.size_hint();
            let c = it.count();
            format!("ok {}", show_bool(lo <= c && hi.map_or(true, |h| c <= h)))
        }
        "vcount" => format!("ok {}", it.count()),
        "vlast" => format!("ok {}", show(it.last())),
        "vmax" => format!("ok {}", show(it.max())),
        "vmin" => format!("ok {}", show(it.min())),
        "skipcount" => format!("ok {}", it.skip(b).count()),
        "vfold" => {
            // every item the fold closure is handed, in order
            let v: Vec<String> = it.fold(Vec::new(), |mut v, x| {
                v.push(show1(&x));
                v
            });
            format!("ok {} {}", v.len(), if v.is_empty() { "-".to_string() } else { v.join(",") })
        }
        _ => return None,
    })
}

/// what the adaptor must return, from the items that plain `next()` yields (`all`)
pub fn alla_expected<T: Ord + Clone>(all: &[T], a: usize, kind: &str, b: usize, show1: &dyn Fn(&T) -> String) -> Option<String> {
    let show = |o: Option<&T>| o.map_or("none".to_string(), |x| show1(x));
    let at = |p: usize| all.get(p);
    let left = all.len().saturating_sub(a);
    Some(match kind {
        "nth" | "skip" => {
            let r = at(a + b);
            let r2 = if r.is_some() { at(a + b + 1) } else { None };
            format!("ok {} {}", show(r), show(r2))
        }
        "stepby" => {
            let mut v = Vec::new();
            let mut dead = false;
            for k in 0..5usize {
                let r = if dead { None } else { at(a + k * b) };
                dead = r.is_none();
                v.push(show(r));
            }
            format!("ok {}", v.join(" "))
        }
        "count" => format!("ok {} none", left),
        "last" => format!("ok {} none", show(if left > 0 { all.last() } else { None })),
        // `max` returns the last of the greatest elements, `min` the first of the least
        "max" => format!("ok {} none", show(all.iter().skip(a).max())),
        "min" => format!("ok {} none", show(all.iter().skip(a).min())),
        "hint" => "ok 1".to_string(),
        "vcount" => format!("ok {}", left),
        "vlast" => format!("ok {}", show(if left > 0 { all.last() } else { None })),
        "vmax" => format!("ok {}", show(all.iter().skip(a).max())),
        "vmin" => format!("ok {}", show(all.iter().skip(a).min())),
        "skipcount" => format!("ok {}", left.saturating_sub(b)),
        "vfold" => {
            let v: Vec<String> = all.iter().skip(a).map(|x| show1(x)).collect();
            format!("ok {} {}", v.len(), if v.is_empty() { "-".to_string() } else { v.join(",") })
        }
        _ => return None,
    })
}

fn us(s: &str) -> Option<usize> {
    s.parse().ok()
}

const NFORMS: usize = 14;

fn volute_table_size(n: usize) -> usize {
    if n <= 6 {
        1
    } else {
        1 << (n - 6)
    }
}

/// history step (C02); `None` = malformed token
fn hist_step<T: L>(n: usize, regs: &mut Vec<T>, tok: &str) -> Option<()> {
    let ps: Vec<&str> = tok.split(',').collect();
    let r = |s: &str, regs: &Vec<T>| -> Option<T> { regs.get(us(s)?).cloned() };
    let d = us(ps.get(1)?)?;
    if d >= regs.len() {
        return None;
    }
    let v: T = match (ps[0], ps.len()) {
        ("zero", 2) => T::zero_n(n),
        ("one", 2) => T::one_n(n),
        ("nth", 3) => T::nth_var_n(n, us(ps[2])?),
        ("parity", 2) => T::parity_n(n),
        ("maj", 2) => T::majority_n(n),
        ("thr", 3) => T::threshold_n(n, us(ps[2])?),
        ("equ", 3) => T::equals_n(n, us(ps[2])?),
        ("sym", 3) => T::symmetric_n(n, usize::from_str_radix(ps[2], 16).ok()?),
        ("blk", 3) => T::from_blocks_n(n, &parse_words(&ps[2].replace(';', ","))?),
        ("hex", 3) => {
            let b = parse_bytes(ps[2])?;
            let s = String::from_utf8(b).ok()?;
            match T::from_hex_(n, &s) {
                Ok(l) => l,
                Err(()) => return Some(()),
            }
        }
        ("conv", 4) => {
            // a dynamic table of n2 variables converted into the register type
            let n2 = us(ps[2])?;
            let w = parse_words(&ps[3].replace(';', ","))?;
            if w.len() != volute_table_size(n2) {
                return None;
            }
            match T::conv_from_dyn(n, volute::Lut::from_blocks(n2, &w)) {
                Some(l) => l,
                None => return Some(()),
            }
        }
        ("mov", 3) => r(ps[2], regs)?,
        // every syntactic form of the operators is a public way to build a value: the form is
        // chosen by the register numbers of the step
        ("not", 3) => r(ps[2], regs)?.not_form((d + us(ps[2])?) % 4),
        ("and", 4) => r(ps[2], regs)?.bin_form(0, (d + 2 * us(ps[2])? + 3 * us(ps[3])?) % NFORMS, &r(ps[3], regs)?),
        ("or", 4) => r(ps[2], regs)?.bin_form(1, (d + 2 * us(ps[2])? + 3 * us(ps[3])?) % NFORMS, &r(ps[3], regs)?),
        ("xor", 4) => r(ps[2], regs)?.bin_form(2, (d + 2 * us(ps[2])? + 3 * us(ps[3])?) % NFORMS, &r(ps[3], regs)?),
        ("flip", 4) => r(ps[2], regs)?.flip_cp(us(ps[3])?),
        ("swap", 5) => r(ps[2], regs)?.swap_cp(us(ps[3])?, us(ps[4])?),
        ("swadj", 4) => {
            // on the register itself (not on a copy): a copying form that modifies its receiver
            // shows in the register file
            let a = us(ps[2])?;
            let i = us(ps[3])?;
            regs.get_mut(a)?.swapadj_cp(i)
        }
        ("cof0", 4) => r(ps[2], regs)?.cofactors_(us(ps[3])?).0,
        ("cof1", 4) => r(ps[2], regs)?.cofactors_(us(ps[3])?).1,
        ("fromcof", 5) => T::from_cofactors_(&r(ps[2], regs)?, &r(ps[3], regs)?, us(ps[4])?),
        ("setbit", 4) => {
            let mut a = r(ps[2], regs)?;
            a.set_bit_(us(ps[3])?);
            a
        }
        ("unsetbit", 4) => {
            let mut a = r(ps[2], regs)?;
            a.unset_bit_(us(ps[3])?);
            a
        }
        ("pcanon", 3) => r(ps[2], regs)?.pcanon().0,
        ("ncanon", 3) => r(ps[2], regs)?.ncanon().0,
        ("npncanon", 3) => r(ps[2], regs)?.npncanon().0,
        ("next", 3) => {
            let mut a = r(ps[2], regs)?;
            a.verif_next_();
            a
        }
        ("fromsop", 3) => {
            let a = r(ps[2], regs)?;
            let dl = Lut::from_blocks(a.nv(), &a.blocks_v());
            let back = Lut::from(Sop::from(&dl));
            T::from_blocks_n(n, back.blocks())
        }
        ("fromesop", 3) => {
            let a = r(ps[2], regs)?;
            let dl = Lut::from_blocks(a.nv(), &a.blocks_v());
            let back = Lut::from(Esop::from(&dl));
            T::from_blocks_n(n, back.blocks())
        }
        _ => return None,
    };
    regs[d] = v;
    Some(())
}

fn run_hist<T: L>(n: usize, prog: &[&str]) -> String {
    let mut regs: Vec<T> = (0..4).map(|_| T::zero_n(n)).collect();
    let mut acc: Vec<String> = Vec::new();
    for tok in prog {
        let res = catch_unwind(AssertUnwindSafe(|| {
            let mut r2 = regs.clone();
            let ok = hist_step::<T>(n, &mut r2, tok);
            (ok, r2)
        }));
        match res {
            Ok((Some(()), r2)) => {
                regs = r2;
                acc.push(regs.iter().map(|l| sh(l)).collect::<Vec<_>>().join(";"));
            }
            Ok((None, _)) | Err(_) => {
                acc.push("panic".to_string());
                break;
            }
        }
    }
    format!("ok {}", acc.join(" "))
}

/// generic part: every op that works on `T: L`; `toks[1]` is the type letter
fn run_lut<T: L>(toks: &[&str]) -> Option<String> {
    let t = toks;
    Some(match (t[0], t.len()) {
        ("ctor", 4) => {
            let n = us(t[3])?;
            let l: T = match t[2] {
                "zero" => T::zero_n(n),
                "one" => T::one_n(n),
                "parity" => T::parity_n(n),
                "majority" => T::majority_n(n),
                "default" => T::default_n(),
                _ => return None,
            };
            format!("ok {}", sh(&l))
        }
        ("ctor", 5) => {
            let n = us(t[3])?;
            let l: T = match t[2] {
                "nth_var" => T::nth_var_n(n, us(t[4])?),
                "threshold" => T::threshold_n(n, us(t[4])?),
                "equals" => T::equals_n(n, us(t[4])?),
                "symmetric" => T::symmetric_n(n, usize::from_str_radix(t[4], 16).ok()?),
                _ => return None,
            };
            format!("ok {}", sh(&l))
        }
        ("get", 4) => {
            let l: T = mk(&parse_tab(t[2])?);
            // `value` and `get_bit` are two names of the same accessor
            let m = us(t[3])?;
            let a = l.get_bit_(m);
            if l.value_(m) != a {
                return Some("ok forms-disagree".into());
            }
            format!("ok {}", show_bool(a))
        }
        ("linfo", 3) => {
            let l: T = mk(&parse_tab(t[2])?);
            format!("ok {} {} {}", l.nv(), l.num_bits_(), l.num_blocks_())
        }
        ("dflags", 4) => {
            let l: T = mk(&parse_tab(t[2])?);
            let d = l.decomp(us(t[3])?);
            format!(
                "ok {} {} {} {} {}",
                show_decomp(&d),
                show_bool(d.is_trivial()),
                show_bool(d.is_and_type()),
                show_bool(d.is_xor_type()),
                show_bool(d.is_simple_gate())
            )
        }
        ("set", 5) => {
            let mut l: T = mk(&parse_tab(t[2])?);
            l.set_value_(us(t[3])?, t[4] == "1");
            format!("ok {}", sh(&l))
        }
        ("setbit", 4) => {
            let mut l: T = mk(&parse_tab(t[2])?);
            l.set_bit_(us(t[3])?);
            format!("ok {}", sh(&l))
        }
        ("unsetbit", 4) => {
            let mut l: T = mk(&parse_tab(t[2])?);
            l.unset_bit_(us(t[3])?);
            format!("ok {}", sh(&l))
        }
        ("not", 4) => {
            let l: T = mk(&parse_tab(t[3])?);
            format!("ok {}", sh(&l.not_form(us(t[2])?)))
        }
        ("bin", 6) => {
            let op = match t[2] {
                "and" => 0,
                "or" => 1,
                _ => 2,
            };
            let a: T = mk(&parse_tab(t[4])?);
            let b: T = mk(&parse_tab(t[5])?);
            format!("ok {}", sh(&a.bin_form(op, us(t[3])?, &b)))
        }
        ("flip", 5) => {
            let mut l: T = mk(&parse_tab(t[3])?);
            let i = us(t[4])?;
            if t[2] == "ip" {
                l.flip_ip(i);
                format!("ok {}", sh(&l))
            } else {
                format!("ok {}", sh(&l.flip_cp(i)))
            }
        }
        ("swap", 6) => {
            let mut l: T = mk(&parse_tab(t[3])?);
            let (i, j) = (us(t[4])?, us(t[5])?);
            if t[2] == "ip" {
                l.swap_ip(i, j);
                format!("ok {}", sh(&l))
            } else {
                format!("ok {}", sh(&l.swap_cp(i, j)))
            }
        }
        ("swapadj", 5) => {
            let mut l: T = mk(&parse_tab(t[3])?);
            let i = us(t[4])?;
            if t[2] == "ip" {
                l.swapadj_ip(i);
                format!("ok {}", sh(&l))
            } else {
                // `swap_adjacent` takes `&mut self` but is the copying form: the receiver must be
                // what it was
                let before = l.clone();
                let r = l.swapadj_cp(i);
                if l != before {
                    return Some("ok receiver-modified".into());
                }
                format!("ok {}", sh(&r))
            }
        }
        ("cof", 4) => {
            let l: T = mk(&parse_tab(t[2])?);
            let (c0, c1) = l.cofactors_(us(t[3])?);
            format!("ok {} {}", sh(&c0), sh(&c1))
        }
        ("fromcof", 5) => {
            let ta = parse_tab(t[2])?;
            let tb = parse_tab(t[3])?;
            if T::STATIC && ta.n != tb.n {
                // two different static types: not expressible, the type checker rejects it
                return Some("panic".to_string());
            }
            let a: T = mk(&ta);
            // for the dynamic type the two operands may have different sizes
            let b: T = mk(&tb);
            format!("ok {}", sh(&T::from_cofactors_(&a, &b, us(t[4])?)))
        }
        ("fromblocks", 4) => {
            let l: T = T::from_blocks_n(us(t[2])?, &parse_words(t[3])?);
            format!("ok {}", sh(&l))
        }
        ("pcanon", 3) => {
            let l: T = mk(&parse_tab(t[2])?);
            let (c, p) = l.pcanon();
            format!("ok {} {} 0", sh(&c), show_nats(&p))
        }
        ("ncanon", 3) => {
            let l: T = mk(&parse_tab(t[2])?);
            let (c, m) = l.ncanon();
            let id: Vec<usize> = (0..l.nv()).collect();
            format!("ok {} {} {}", sh(&c), show_nats(&id), m)
        }
        ("npncanon", 3) => {
            let l: T = mk(&parse_tab(t[2])?);
            let (c, p, m) = l.npncanon();
            format!("ok {} {} {}", sh(&c), show_nats(&p), m)
        }
        ("npnorbit", 4) => {
            // NPN canonization of f and of three images of f under random permutations and
            // complementations (built with the crate's own swap / flip / not): one orbit, one
            // representative.  For sizes whose walk the model cannot follow in the quick tier
            // (n = 8: 20 million steps) - judged by the oracle only
            let l: T = mk(&parse_tab(t[2])?);
            let n = l.nv();
            let mut st = u64::from_str_radix(t[3], 16).ok()?;
            let mut next = || {
                st = st.wrapping_mul(6364136223846793005).wrapping_add(1442695040888963407);
                (st >> 33) as usize
            };
            let (c, p, m) = l.npncanon();
            let mut out = format!("ok {} {} {}", sh(&c), show_nats(&p), m);
            for _ in 0..3 {
                let mut g = l.clone();
                for i in (1..n).rev() {
                    let j = next() % (i + 1);
                    if i != j {
                        g = g.swap_cp(i, j);
                    }
                }
                for i in 0..n {
                    if next() % 2 == 1 {
                        g = g.flip_cp(i);
                    }
                }
                if next() % 2 == 1 {
                    g = g.not_form(0);
                }
                let (cg, _, _) = g.npncanon();
                out.push_str(&format!(" {} {}", sh(&g), sh(&cg)));
            }
            out
        }
        ("decomp", 4) => {
            let l: T = mk(&parse_tab(t[2])?);
            format!("ok {}", show_decomp(&l.decomp(us(t[3])?)))
        }
        ("posunate", 4) => {
            let l: T = mk(&parse_tab(t[2])?);
            format!("ok {}", show_bool(l.pos_unate(us(t[3])?)))
        }
        ("negunate", 4) => {
            let l: T = mk(&parse_tab(t[2])?);
            format!("ok {}", show_bool(l.neg_unate(us(t[3])?)))
        }
        ("bdd", _) => {
            let mut ls: Vec<T> = Vec::new();
            for s in &t[3..] {
                ls.push(mk(&parse_tab(s)?));
            }
            format!("ok {}", T::bdd(&ls))
        }
        ("cmp", 4) => {
            let a: T = mk(&parse_tab(t[2])?);
            let b: T = mk(&parse_tab(t[3])?);
            let o = a.cmp(&b);
            // the derived operators must agree with cmp
            let po = a.partial_cmp(&b);
            if po != Some(o) {
                return Some("ok inconsistent-partial-cmp".to_string());
            }
            // every provided method of PartialOrd / Ord / PartialEq tells the same story
            {
                use std::cmp::Ordering::*;
                let (lt, le, gt, ge) = (a < b, a <= b, a > b, a >= b);
                if lt != (o == Less) || le != (o != Greater) || gt != (o == Greater) || ge != (o != Less) || (a != b) != (o != Equal) || (a == b) != (o == Equal) {
                    return Some("ok inconsistent-partial-cmp".to_string());
                }
                let mx = a.clone().max(b.clone());
                let mn = a.clone().min(b.clone());
                let want_mx = if o == Greater { &a } else { &b };
                let want_mn = if o == Greater { &b } else { &a };
                if mx.blocks_v() != want_mx.blocks_v() || mx.nv() != want_mx.nv() || mn.blocks_v() != want_mn.blocks_v() || mn.nv() != want_mn.nv() {
                    return Some("ok inconsistent-partial-cmp".to_string());
                }
                if b.cmp(&a) != o.reverse() {
                    return Some("ok inconsistent-partial-cmp".to_string());
                }
            }
            format!(
                "ok {}",
                match o {
                    std::cmp::Ordering::Less => "lt",
                    std::cmp::Ordering::Equal => "eq",
                    std::cmp::Ordering::Greater => "gt",
                }
            )
        }
        ("eq", 4) => {
            let a: T = mk(&parse_tab(t[2])?);
            let b: T = mk(&parse_tab(t[3])?);
            let fresh = a == b;
            // the answer must not depend on what was done to the operands through `&self` before:
            // one operand hashed, printed, cloned, compared (seed C02-l: a digest cached inside the
            // table by `hash` and seen by the derived `==`)
            let observe = |x: &T| {
                use std::hash::Hasher;
                let mut h = std::collections::hash_map::DefaultHasher::new();
                x.hash(&mut h);
                let _ = (h.finish(), x.to_string(), x.blocks_v(), x.nv(), x.cmp(x));
            };
            let mut answers = vec![fresh, b == a];
            observe(&a);
            answers.push(a == b);
            answers.push(b == a);
            let a2 = a.clone();
            answers.push(a2 == b);
            answers.push(b == a2);
            observe(&b);
            answers.push(a == b);
            let b2 = b.clone();
            answers.push(a == b2);
            answers.push((a.cmp(&b) == std::cmp::Ordering::Equal) == fresh || !fresh);
            // `cmp` = Equal exactly when `==`
            if (a.cmp(&b) == std::cmp::Ordering::Equal) != fresh {
                return Some("ok eq-unstable".to_string());
            }
            if answers[..8].iter().any(|x| *x != fresh) {
                return Some("ok eq-unstable".to_string());
            }
            // equal values hash equal
            if fresh {
                use std::hash::Hasher;
                let (mut h1, mut h2) = (std::collections::hash_map::DefaultHasher::new(), std::collections::hash_map::DefaultHasher::new());
                a.hash(&mut h1);
                b2.hash(&mut h2);
                if h1.finish() != h2.finish() {
                    return Some("ok eq-unstable".to_string());
                }
            }
            format!("ok {}", show_bool(fresh))
        }
        ("clonefrom", 4) => {
            // `Clone::clone_from` (a provided method a type may override) and the containers that
            // go through it: the destination becomes the source, whatever it was (seed C02-m)
            let dst: T = mk(&parse_tab(t[2])?);
            let src: T = mk(&parse_tab(t[3])?);
            let mut d1 = dst.clone();
            d1.clone_from(&src);
            let mut v = vec![dst.clone(), dst.clone()];
            v.clone_from(&vec![src.clone(), src.clone()]);
            let mut sl = [dst.clone()];
            sl.clone_from_slice(std::slice::from_ref(&src));
            let c = src.clone();
            for x in [&v[0], &v[1], &sl[0], &c] {
                if x.nv() != d1.nv() || x.blocks_v() != d1.blocks_v() {
                    return Some("ok forms-disagree".to_string());
                }
            }
            format!("ok {} {}", sh(&d1), show_bool(d1 == src))
        }
        ("next", 3) => {
            let mut l: T = mk(&parse_tab(t[2])?);
            let ok = l.verif_next_();
            format!("ok {} {}", sh(&l), show_bool(ok))
        }
        ("iter", 4) => {
            let n = us(t[2])?;
            let k = us(t[3])?;
            let mut it = T::all_functions_(n);
            let mut cnt = 0usize;
            let mut h = FNV_INIT;
            let mut exhausted = false;
            for _ in 0..k {
                match it.next() {
                    Some(l) => {
                        cnt += 1;
                        for w in l.blocks_v() {
                            h = digest_step(h, w);
                        }
                    }
                    None => {
                        exhausted = true;
                        break;
                    }
                }
            }
            // does one further call still yield an item?
            // does one further call still yield an item?  After the end every further call must
            // say None again (seed C08-i: an exhausted iterator that restarts when polled)
            let ok_flag = if exhausted { it.next().is_some() || it.next().is_some() || it.next().is_some() } else { it.next().is_some() };
            format!("ok {} {:x} {}", cnt, h, show_bool(ok_flag))
        }
        ("itera", 6) => T::itera_(us(t[2])?, us(t[3])?, t[4], us(t[5])?)?,
        ("tohex", 3) => {
            let l: T = mk(&parse_tab(t[2])?);
            format!("ok {}", show_bytes(l.to_hex_().as_bytes()))
        }
        ("tobin", 3) => {
            let l: T = mk(&parse_tab(t[2])?);
            format!("ok {}", show_bytes(l.to_bin_().as_bytes()))
        }
        ("display", 3) => {
            let l: T = mk(&parse_tab(t[2])?);
            format!("ok {}", show_bytes(format!("{}", l).as_bytes()))
        }
        ("fmtx", 3) => {
            let l: T = mk(&parse_tab(t[2])?);
            format!("ok {}", show_bytes(format!("{:x}", l).as_bytes()))
        }
        ("fmtb", 3) => {
            let l: T = mk(&parse_tab(t[2])?);
            format!("ok {}", show_bytes(format!("{:b}", l).as_bytes()))
        }
        ("fromhex", 4) => {
            let n = us(t[2])?;
            let b = parse_bytes(t[3])?;
            let s = String::from_utf8(b).ok()?;
            match T::from_hex_(n, &s) {
                Ok(l) => format!("ok {}", sh(&l)),
                Err(()) => "err".to_string(),
            }
        }
        ("hist", _) => {
            let n = us(t[2])?;
            run_hist::<T>(n, &t[3..])
        }
        _ => return None,
    })
}

fn s2d<T: L>(tab: &Tab) -> String
where
    Lut: From<T>,
{
    let s: T = mk(tab);
    let d: Lut = Lut::from(s);
    format!("ok {}", sh(&d))
}

fn d2s<T: L + TryFrom<Lut, Error = ()>>(tab: &Tab) -> String {
    let d = Lut::from_blocks(tab.n, &tab.w);
    match T::try_from(d) {
        Ok(s) => format!("ok {}", sh(&s)),
        Err(()) => "err".to_string(),
    }
}

fn line_n(t: &[&str]) -> Option<usize> {
    match t[0] {
        "ctor" => us(t.get(3)?),
        "fromblocks" | "fromhex" | "iter" | "itera" | "bdd" | "hist" => us(t.get(2)?),
        _ => {
            for s in t {
                if let Some((a, _)) = s.split_once(':') {
                    return us(a);
                }
            }
            None
        }
    }
}

/// every view of a two-level form in one string - cubes, conversion to a Lut by reference and by
/// value, `is_zero` / `is_one`, text - and whether the views describe one function (`value()` on
/// every assignment for n <= 10 against the table).  Seed C13-j: a table cached inside the object
/// and left stale by one operator form.
macro_rules! views {
    ($x:expr, $show:ident) => {{
        let x = &$x;
        let n = x.num_vars();
        let l = Lut::from(x);
        let l2 = Lut::from(x.clone());
        let sig = format!("{}|{}|{}|{}|{}", $show(x.cubes()), sh(&l), x.is_zero(), x.is_one(), x);
        let mut consistent = l.num_vars() == n && l == l2;
        if n <= 10 && consistent {
            for m in 0..(1usize << n) {
                if x.value(m) != l.value(m) {
                    consistent = false;
                    break;
                }
            }
        }
        (sig, consistent)
    }};
}

/// all results of the forms of one operator must have the same views, each consistent
fn same_views(v: &[(String, bool)]) -> Option<&'static str> {
    if v.iter().any(|x| !x.1) {
        return Some("ok views-disagree");
    }
    if v.iter().any(|x| x.0 != v[0].0) {
        return Some("ok forms-disagree");
    }
    None
}

fn run_sop_ops(t: &[&str]) -> Option<String> {
    let hexu = |s: &str| usize::from_str_radix(s, 16).ok();
    Some(match (t[0], *t.get(1)?, t.len()) {
        ("cube", "value", 4) => format!("ok {}", show_bool(parse_cube(t[2])?.value(hexu(t[3])?))),
        ("cube", "and", 4) => {
            let (a, b) = (parse_cube(t[2])?, parse_cube(t[3])?);
            let r1 = a & b;
            let r2 = &a & b;
            let r3 = &a & &b;
            let r4 = a & &b;
            if r1 != r2 || r1 != r3 || r1 != r4 {
                return Some("ok forms-disagree".into());
            }
            format!("ok {}", show_cube(&r1))
        }
        ("cube", "implies", 4) => format!("ok {}", show_bool(parse_cube(t[2])?.implies(parse_cube(t[3])?))),
        ("cube", "intersects", 4) => {
            format!("ok {}", show_bool(parse_cube(t[2])?.intersects(parse_cube(t[3])?)))
        }
        ("cube", "implieslut", 4) => {
            let tab = parse_tab(t[3])?;
            let l = Lut::from_blocks(tab.n, &tab.w);
            format!("ok {}", show_bool(parse_cube(t[2])?.implies_lut(&l)))
        }
        ("cube", "minterm", 4) => format!("ok {}", show_cube(&Cube::minterm(us(t[2])?, hexu(t[3])?))),
        ("cube", "frommask", 4) => format!(
            "ok {}",
            show_cube(&Cube::from_mask(
                u32::from_str_radix(t[2], 16).ok()?,
                u32::from_str_radix(t[3], 16).ok()?
            ))
        ),
        ("cube", "fromvars", 4) => {
            format!("ok {}", show_cube(&Cube::from_vars(&parse_nats(t[2])?, &parse_nats(t[3])?)))
        }
        ("cube", "isconstant", 3) => format!("ok {}", show_bool(parse_cube(t[2])?.is_constant())),
        // the small constructors of the two-level types: `fctor <type> <name> <n> <v>`
        ("fctor", ty, 5) => {
            let n = us(t[3])?;
            let v = us(t[4])?;
            match (ty, t[2]) {
                ("ecube", "one") => format!("ok {}", show_ecube(&Ecube::one())),
                ("ecube", "zero") => format!("ok {}", show_ecube(&Ecube::zero())),
                ("ecube", "nthvar") => format!("ok {}", show_ecube(&Ecube::nth_var(v))),
                ("ecube", "nthvarinv") => format!("ok {}", show_ecube(&Ecube::nth_var_inv(v))),
                ("sop", "zero") => format!("ok {}", show_cubes(Sop::zero(n).cubes())),
                ("sop", "one") => format!("ok {}", show_cubes(Sop::one(n).cubes())),
                ("sop", "nthvar") => format!("ok {}", show_cubes(Sop::nth_var(n, v).cubes())),
                ("sop", "nthvarinv") => format!("ok {}", show_cubes(Sop::nth_var_inv(n, v).cubes())),
                ("esop", "zero") => format!("ok {}", show_cubes(Esop::zero(n).cubes())),
                ("esop", "one") => format!("ok {}", show_cubes(Esop::one(n).cubes())),
                ("esop", "nthvar") => format!("ok {}", show_cubes(Esop::nth_var(n, v).cubes())),
                ("esop", "nthvarinv") => format!("ok {}", show_cubes(Esop::nth_var_inv(n, v).cubes())),
                ("soes", "zero") => format!("ok {}", show_ecubes(Soes::zero(n).cubes())),
                ("soes", "one") => format!("ok {}", show_ecubes(Soes::one(n).cubes())),
                ("soes", "nthvar") => format!("ok {}", show_ecubes(Soes::nth_var(n, v).cubes())),
                ("soes", "nthvarinv") => format!("ok {}", show_ecubes(Soes::nth_var_inv(n, v).cubes())),
                _ => return None,
            }
        }
        ("cube", "info", 3) => {
            let c = parse_cube(t[2])?;
            format!(
                "ok {} {} {} {} {} {}",
                c.num_lits(),
                c.num_gates(),
                show_bool(c.is_zero()),
                show_bool(c.is_one()),
                show_nats(&c.pos_vars().collect::<Vec<_>>()),
                show_nats(&c.neg_vars().collect::<Vec<_>>())
            )
        }
        ("cube", "all", 3) => {
            let mut h = FNV_INIT;
            let mut cnt = 0usize;
            for c in Cube::all(us(t[2])?) {
                let (p, n) = cube_raw(&c);
                h = digest_step(digest_step(h, p as u64), n as u64);
                cnt += 1;
            }
            format!("ok {} {:x}", cnt, h)
        }
        ("cube", "alla", 6) => run_alla(Cube::all(us(t[2])?), us(t[3])?, t[4], us(t[5])?, &|c: &Cube| show_cube(c))?,
        ("ecube", "alla", 6) => run_alla(Ecube::all(us(t[2])?), us(t[3])?, t[4], us(t[5])?, &|c: &Ecube| show_ecube(c))?,
        ("cube", "display", 3) => format!("ok {}", show_bytes(parse_cube(t[2])?.to_string().as_bytes())),
        ("cube", "nthvar", 4) => {
            let v = us(t[2])?;
            format!("ok {}", show_cube(&if t[3] == "1" { Cube::nth_var_inv(v) } else { Cube::nth_var(v) }))
        }
        ("ecube", "value", 4) => format!("ok {}", show_bool(parse_ecube(t[2])?.value(hexu(t[3])?))),
        ("ecube", "xor", 4) => {
            let (a, b) = (parse_ecube(t[2])?, parse_ecube(t[3])?);
            let r1 = a ^ b;
            let r2 = &a ^ b;
            let r3 = &a ^ &b;
            let r4 = a ^ &b;
            if r1 != r2 || r1 != r3 || r1 != r4 {
                return Some("ok forms-disagree".into());
            }
            format!("ok {}", show_ecube(&r1))
        }
        ("ecube", "cmp", 4) | ("cube", "cmp", 4) => {
            // ==, !=, cmp, partial_cmp and < must tell one story
            let (eq, ne, o, po, lt) = if t[0] == "ecube" {
                let (a, b) = (parse_ecube(t[2])?, parse_ecube(t[3])?);
                (a == b, a != b, a.cmp(&b), a.partial_cmp(&b), a < b)
            } else {
                let (a, b) = (parse_cube(t[2])?, parse_cube(t[3])?);
                (a == b, a != b, a.cmp(&b), a.partial_cmp(&b), a < b)
            };
            if eq == ne || po != Some(o) || lt != (o == std::cmp::Ordering::Less) || eq != (o == std::cmp::Ordering::Equal) {
                return Some("ok forms-disagree".into());
            }
            format!("ok {} {}", show_bool(eq), match o { std::cmp::Ordering::Less => "lt", std::cmp::Ordering::Equal => "eq", _ => "gt" })
        }
        ("ecube", "not", 3) => {
            let a = parse_ecube(t[2])?;
            let r1 = !a;
            let r2 = !&a;
            if r1 != r2 {
                return Some("ok forms-disagree".into());
            }
            format!("ok {}", show_ecube(&r1))
        }
        ("ecube", "fromvars", 4) => {
            format!("ok {}", show_ecube(&Ecube::from_vars(&parse_nats(t[2])?, t[3] == "1")))
        }
        ("ecube", "info", 3) => {
            let e = parse_ecube(t[2])?;
            format!(
                "ok {} {} {} {} {}",
                e.num_lits(),
                e.num_gates(),
                show_bool(e.is_zero()),
                show_bool(e.is_one()),
                show_nats(&e.vars().collect::<Vec<_>>())
            )
        }
        ("ecube", "implieslut", 4) => {
            let tab = parse_tab(t[3])?;
            let l = Lut::from_blocks(tab.n, &tab.w);
            format!("ok {}", show_bool(parse_ecube(t[2])?.implies_lut(&l)))
        }
        ("ecube", "all", 3) => {
            let mut h = FNV_INIT;
            let mut cnt = 0usize;
            for e in Ecube::all(us(t[2])?) {
                let (v, x) = ecube_raw(&e);
                h = digest_step(digest_step(h, v as u64), x as u64);
                cnt += 1;
            }
            format!("ok {} {:x}", cnt, h)
        }
        ("ecube", "display", 3) => format!("ok {}", show_bytes(parse_ecube(t[2])?.to_string().as_bytes())),
        ("sop", "fromcubes", 4) => {
            let s = Sop::from_cubes(us(t[2])?, parse_cubes(t[3])?);
            format!("ok {}", show_cubes(s.cubes()))
        }
        ("sop", "expr", _) if t.len() >= 4 => {
            // RPN expression over cube lists: `&`, `|`, `!` (nesting, seed C14-k: a step whose
            // product list is long takes another path)
            let n = us(t[2])?;
            let mut st: Vec<Sop> = Vec::new();
            for tok in &t[3..] {
                match *tok {
                    "&" | "|" => {
                        let b = st.pop()?;
                        let a = st.pop()?;
                        // forms alternate with the depth of the stack
                        let r = match (*tok, st.len() % 4) {
                            ("&", 0) => &a & &b,
                            ("&", 1) => a & &b,
                            ("&", 2) => &a & b,
                            ("&", _) => a & b,
                            (_, 0) => &a | &b,
                            (_, 1) => a | &b,
                            (_, 2) => &a | b,
                            (_, _) => a | b,
                        };
                        st.push(r);
                    }
                    "!" => {
                        let a = st.pop()?;
                        st.push(if st.len() % 2 == 0 { !&a } else { !a });
                    }
                    _ => st.push(Sop::from_cubes(n, parse_cubes(tok)?)),
                }
            }
            if st.len() != 1 {
                return None;
            }
            let r = st.pop()?;
            if r.num_vars() != n {
                return Some("ok wrong-num-vars".into());
            }
            if n <= 10 && !views!(r, show_cubes).1 {
                return Some("ok views-disagree".into());
            }
            format!("ok {}", show_cubes(r.cubes()))
        }
        ("esop", "expr", _) if t.len() >= 4 => {
            let n = us(t[2])?;
            let mut st: Vec<Esop> = Vec::new();
            for tok in &t[3..] {
                match *tok {
                    "^" => {
                        let b = st.pop()?;
                        let a = st.pop()?;
                        let r = match st.len() % 4 {
                            0 => &a ^ &b,
                            1 => a ^ &b,
                            2 => &a ^ b,
                            _ => a ^ b,
                        };
                        st.push(r);
                    }
                    "!" => {
                        let a = st.pop()?;
                        st.push(if st.len() % 2 == 0 { !&a } else { !a });
                    }
                    _ => st.push(Esop::from_cubes(n, parse_cubes(tok)?)),
                }
            }
            if st.len() != 1 {
                return None;
            }
            let r = st.pop()?;
            if r.num_vars() != n {
                return Some("ok wrong-num-vars".into());
            }
            if n <= 10 && !views!(r, show_cubes).1 {
                return Some("ok views-disagree".into());
            }
            format!("ok {}", show_cubes(r.cubes()))
        }
        ("sop", "and", 5) | ("sop", "or", 5) => {
            let n = us(t[2])?;
            let a = Sop::from_cubes(n, parse_cubes(t[3])?);
            let b = Sop::from_cubes(n, parse_cubes(t[4])?);
            let (r1, r2, r3, r4) = if t[1] == "and" {
                (&a & &b, a.clone() & &b, &a & b.clone(), a.clone() & b.clone())
            } else {
                (&a | &b, a.clone() | &b, &a | b.clone(), a.clone() | b.clone())
            };
            if r1 != r2 || r1 != r3 || r1 != r4 {
                return Some("ok forms-disagree".into());
            }
            if t[3] == t[4] && (if t[1] == "and" { &a & &a } else { &a | &a }) != r1 {
                return Some("ok forms-disagree".into());
            }
            if r1.num_vars() != n {
                return Some("ok wrong-num-vars".into());
            }
            if n <= 10 {
                // operands that were looked at before (and clones of them), owned and borrowed
                let (at, bt) = (a.clone(), b.clone());
                let _ = (views!(at, show_cubes), views!(bt, show_cubes));
                let (ac, bc) = (at.clone(), bt.clone());
                let (r5, r6, r7) = if t[1] == "and" { (&at & &bt, ac & &bt, at & bc) } else { (&at | &bt, ac | &bt, at | bc) };
                let v = [views!(r1, show_cubes), views!(r2, show_cubes), views!(r3, show_cubes), views!(r4, show_cubes), views!(r5, show_cubes), views!(r6, show_cubes), views!(r7, show_cubes)];
                if let Some(e) = same_views(&v) {
                    return Some(e.into());
                }
            }
            format!("ok {}", show_cubes(r1.cubes()))
        }
        ("sop", "not", 4) => {
            let a = Sop::from_cubes(us(t[2])?, parse_cubes(t[3])?);
            let r1 = !&a;
            let r2 = !a.clone();
            if r1 != r2 {
                return Some("ok forms-disagree".into());
            }
            if r1.num_vars() != a.num_vars() {
                return Some("ok wrong-num-vars".into());
            }
            if a.num_vars() <= 10 {
                let at = a.clone();
                let _ = views!(at, show_cubes);
                let ac = at.clone();
                let (r3, r4) = (!&at, !ac);
                let v = [views!(r1, show_cubes), views!(r2, show_cubes), views!(r3, show_cubes), views!(r4, show_cubes)];
                if let Some(e) = same_views(&v) {
                    return Some(e.into());
                }
            }
            format!("ok {}", show_cubes(r1.cubes()))
        }
        ("sop", "value", 5) => {
            let a = Sop::from_cubes(us(t[2])?, parse_cubes(t[3])?);
            format!("ok {}", show_bool(a.value(hexu(t[4])?)))
        }
        ("sop", "fromlut", 3) => {
            let tab = parse_tab(t[2])?;
            let l = Lut::from_blocks(tab.n, &tab.w);
            let s1 = Sop::from(&l);
            let s2 = Sop::from(l.clone());
            if s1 != s2 {
                return Some("ok forms-disagree".into());
            }
            format!("ok {}", show_cubes(s1.cubes()))
        }
        ("sop", "tolut", 4) => {
            let a = Sop::from_cubes(us(t[2])?, parse_cubes(t[3])?);
            let l1 = Lut::from(&a);
            let l2 = Lut::from(a.clone());
            if l1 != l2 {
                return Some("ok forms-disagree".into());
            }
            format!("ok {}", sh(&l1))
        }
        ("sop", "info", 4) => {
            let a = Sop::from_cubes(us(t[2])?, parse_cubes(t[3])?);
            format!("ok {} {} {} {}", show_bool(a.is_zero()), show_bool(a.is_one()), a.num_cubes(), a.num_lits())
        }
        ("sop", "display", 4) => {
            let a = Sop::from_cubes(us(t[2])?, parse_cubes(t[3])?);
            format!("ok {}", show_bytes(a.to_string().as_bytes()))
        }
        ("esop", "fromlut", 3) => {
            let tab = parse_tab(t[2])?;
            let l = Lut::from_blocks(tab.n, &tab.w);
            let s1 = Esop::from(&l);
            let s2 = Esop::from(l.clone());
            if s1 != s2 {
                return Some("ok forms-disagree".into());
            }
            format!("ok {}", show_cubes(s1.cubes()))
        }
        ("esop", "xor", 5) => {
            let n = us(t[2])?;
            let a = Esop::from_cubes(n, parse_cubes(t[3])?);
            let b = Esop::from_cubes(n, parse_cubes(t[4])?);
            let (r1, r2, r3, r4) = (&a ^ &b, a.clone() ^ &b, &a ^ b.clone(), a.clone() ^ b.clone());
            if r1 != r2 || r1 != r3 || r1 != r4 {
                return Some("ok forms-disagree".into());
            }
            // equal operands: also with ONE object on both sides
            if t[3] == t[4] && (&a ^ &a) != r1 {
                return Some("ok forms-disagree".into());
            }
            if r1.num_vars() != n {
                return Some("ok wrong-num-vars".into());
            }
            if n <= 10 {
                let (at, bt) = (a.clone(), b.clone());
                let _ = (views!(at, show_cubes), views!(bt, show_cubes));
                let (ac, bc) = (at.clone(), bt.clone());
                let (r5, r6, r7) = (&at ^ &bt, ac ^ &bt, at ^ bc);
                let v = [views!(r1, show_cubes), views!(r2, show_cubes), views!(r3, show_cubes), views!(r4, show_cubes), views!(r5, show_cubes), views!(r6, show_cubes), views!(r7, show_cubes)];
                if let Some(e) = same_views(&v) {
                    return Some(e.into());
                }
            }
            format!("ok {}", show_cubes(r1.cubes()))
        }
        ("esop", "not", 4) => {
            let a = Esop::from_cubes(us(t[2])?, parse_cubes(t[3])?);
            let r1 = !&a;
            let r2 = !a.clone();
            if r1 != r2 {
                return Some("ok forms-disagree".into());
            }
            if r1.num_vars() != a.num_vars() {
                return Some("ok wrong-num-vars".into());
            }
            if a.num_vars() <= 10 {
                let at = a.clone();
                let _ = views!(at, show_cubes);
                let ac = at.clone();
                let (r3, r4) = (!&at, !ac);
                let v = [views!(r1, show_cubes), views!(r2, show_cubes), views!(r3, show_cubes), views!(r4, show_cubes)];
                if let Some(e) = same_views(&v) {
                    return Some(e.into());
                }
            }
            format!("ok {}", show_cubes(r1.cubes()))
        }
        ("esop", "value", 5) => {
            let a = Esop::from_cubes(us(t[2])?, parse_cubes(t[3])?);
            format!("ok {}", show_bool(a.value(hexu(t[4])?)))
        }
        ("esop", "tolut", 4) => {
            let a = Esop::from_cubes(us(t[2])?, parse_cubes(t[3])?);
            let l1 = Lut::from(&a);
            let l2 = Lut::from(a.clone());
            if l1 != l2 {
                return Some("ok forms-disagree".into());
            }
            format!("ok {}", sh(&l1))
        }
        ("esop", "info", 4) => {
            let a = Esop::from_cubes(us(t[2])?, parse_cubes(t[3])?);
            format!("ok {} {} {} {}", show_bool(a.is_zero()), show_bool(a.is_one()), a.num_cubes(), a.num_lits())
        }
        ("esop", "display", 4) => {
            let a = Esop::from_cubes(us(t[2])?, parse_cubes(t[3])?);
            format!("ok {}", show_bytes(a.to_string().as_bytes()))
        }
        ("soes", "value", 5) => {
            let a = Soes::from_cubes(us(t[2])?, parse_ecubes(t[3])?);
            format!("ok {}", show_bool(a.value(hexu(t[4])?)))
        }
        ("soes", "or", 5) => {
            let n = us(t[2])?;
            let a = Soes::from_cubes(n, parse_ecubes(t[3])?);
            let b = Soes::from_cubes(n, parse_ecubes(t[4])?);
            let (r1, r2, r3, r4) = (&a | &b, a.clone() | &b, &a | b.clone(), a.clone() | b.clone());
            if r1 != r2 || r1 != r3 || r1 != r4 {
                return Some("ok forms-disagree".into());
            }
            if t[3] == t[4] && (&a | &a) != r1 {
                return Some("ok forms-disagree".into());
            }
            if r1.num_vars() != n {
                return Some("ok wrong-num-vars".into());
            }
            if n <= 10 {
                let (at, bt) = (a.clone(), b.clone());
                let _ = (views!(at, show_ecubes), views!(bt, show_ecubes));
                let (ac, bc) = (at.clone(), bt.clone());
                let (r5, r6, r7) = (&at | &bt, ac | &bt, at | bc);
                let v = [views!(r1, show_ecubes), views!(r2, show_ecubes), views!(r3, show_ecubes), views!(r4, show_ecubes), views!(r5, show_ecubes), views!(r6, show_ecubes), views!(r7, show_ecubes)];
                if let Some(e) = same_views(&v) {
                    return Some(e.into());
                }
            }
            format!("ok {}", show_ecubes(r1.cubes()))
        }
        ("soes", "tolut", 4) => {
            let a = Soes::from_cubes(us(t[2])?, parse_ecubes(t[3])?);
            let l1 = Lut::from(&a);
            let l2 = Lut::from(a.clone());
            if l1 != l2 {
                return Some("ok forms-disagree".into());
            }
            format!("ok {}", sh(&l1))
        }
        ("soes", "info", 4) => {
            let a = Soes::from_cubes(us(t[2])?, parse_ecubes(t[3])?);
            format!("ok {} {} {} {}", show_bool(a.is_zero()), show_bool(a.is_one()), a.num_cubes(), a.num_lits())
        }
        ("soes", "display", 4) => {
            let a = Soes::from_cubes(us(t[2])?, parse_ecubes(t[3])?);
            format!("ok {}", show_bytes(a.to_string().as_bytes()))
        }
        _ => return None,
    })
}

fn rnd_show<T: L>(n: usize) -> String {
    sh(&T::random_n(n))
}

fn run_inner(t: &[&str]) -> Option<String> {
    match t[0] {
        "canonseq" => {
            let n = us(t.get(1)?)?;
            let (s, f) = volute::verif_canon_sequences(n);
            return Some(format!("ok {} {}", show_nats(&s), show_nats(&f)));
        }
        "canonused" => {
            // the sequences actually walked by a canonization call (recording hook)
            let kind = *t.get(1)?;
            let n = us(t.get(2)?)?;
            let l = Lut::zero(n);
            let _ = volute::verif_last_sequences();
            match kind {
                "p" => {
                    l.p_canonization();
                }
                "n" => {
                    l.n_canonization();
                }
                _ => {
                    l.npn_canonization();
                }
            }
            let (s, f) = volute::verif_last_sequences();
            return Some(format!("ok {} {}", show_nats(&s), show_nats(&f)));
        }
        "s2d" => {
            let tab = parse_tab(t.get(1)?)?;
            return Some(with_static!(tab.n, s2d, &tab));
        }
        "d2s" => {
            let n = us(t.get(1)?)?;
            let tab = parse_tab(t.get(2)?)?;
            return Some(with_static!(n, d2s, &tab));
        }
        "toint" => {
            let tab = parse_tab(t.get(1)?)?;
            return Some(match tab.n {
                3 => format!("ok {:x}", u8::from(volute::Lut3::from_blocks(&tab.w))),
                4 => format!("ok {:x}", u16::from(volute::Lut4::from_blocks(&tab.w))),
                5 => format!("ok {:x}", u32::from(volute::Lut5::from_blocks(&tab.w))),
                6 => format!("ok {:x}", u64::from(volute::Lut6::from_blocks(&tab.w))),
                _ => return None,
            });
        }
        "fromint" => {
            let n = us(t.get(1)?)?;
            let v = u64::from_str_radix(t.get(2)?, 16).ok()?;
            return Some(match n {
                3 => format!("ok {}", sh(&volute::Lut3::from(v as u8))),
                4 => format!("ok {}", sh(&volute::Lut4::from(v as u16))),
                5 => format!("ok {}", sh(&volute::Lut5::from(v as u32))),
                6 => format!("ok {}", sh(&volute::Lut6::from(v))),
                _ => return None,
            });
        }
        "rnd" => {
            // rnd <D|S> <n> <w0,w1,..|->: random() while a word stream is injected (hook verif_rng);
            // prints the table and how many injected words were left unread
            let ty = *t.get(1)?;
            let n = us(t.get(2)?)?;
            let words = if *t.get(3)? == "-" { vec![] } else { parse_words(t.get(3)?)? };
            if ty == "S" && n > 12 {
                return None;
            }
            volute::verif_rng::inject(&words);
            let r = catch_unwind(AssertUnwindSafe(|| if ty == "S" { with_static!(n, rnd_show, n) } else { rnd_show::<Lut>(n) }));
            let left = volute::verif_rng::take();
            return Some(match r {
                Ok(s) => format!("ok {} left={}", s, left.len()),
                Err(_) => "panic".to_string(),
            });
        }
        "cube" | "ecube" | "sop" | "esop" | "soes" | "fctor" => return run_sop_ops(t),
        _ => {}
    }
    let ty = *t.get(1)?;
    if ty == "S" {
        let n = line_n(t)?;
        if n > 12 {
            return None;
        }
        with_static!(n, run_lut, t)
    } else {
        run_lut::<Lut>(t)
    }
}

pub fn run_line(line: &str) -> String {
    // seq A ;; B ;; ...: the calls one after the other on this thread, all results
    if let Some(rest) = line.strip_prefix("seq ") {
        return rest.split(" ;; ").map(|l| format!("[{}]", run_line(l.trim()))).collect::<Vec<_>>().join(" ;; ");
    }
    let toks: Vec<&str> = line.split_whitespace().collect();
    if toks.is_empty() {
        return "bad-op".to_string();
    }
    match catch_unwind(AssertUnwindSafe(|| run_inner(&toks))) {
        Ok(Some(s)) => s,
        Ok(None) => "bad-op".to_string(),
        Err(_) => "panic".to_string(),
    }
}

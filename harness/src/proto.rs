//! Text encoding of the line protocol (DESIGN.md, Appendix B)

use volute::sop::{Cube, Ecube};

#[derive(Clone, Debug, PartialEq, Eq, Hash)]
pub struct Tab {
    pub n: usize,
    pub w: Vec<u64>,
}

pub fn table_size(n: usize) -> usize {
    if n > 6 {
        1usize << (n - 6)
    } else {
        1
    }
}

pub fn mask_of(n: usize) -> u64 {
    if n >= 6 {
        !0u64
    } else {
        (1u64 << (1u64 << n)) - 1
    }
}

impl Tab {
    pub fn new(n: usize, w: Vec<u64>) -> Tab {
        Tab { n, w }
    }
    pub fn zero(n: usize) -> Tab {
        Tab { n, w: vec![0; table_size(n)] }
    }
    /// well-formed for n
    pub fn wf(&self) -> bool {
        self.w.len() == table_size(self.n) && self.w.iter().all(|x| x & !mask_of(self.n) == 0)
    }
    /// bit m by definition
    pub fn bit(&self, m: usize) -> bool {
        (self.w[m >> 6] >> (m & 63)) & 1 != 0
    }
    pub fn set(&mut self, m: usize, v: bool) {
        if v {
            self.w[m >> 6] |= 1u64 << (m & 63);
        } else {
            self.w[m >> 6] &= !(1u64 << (m & 63));
        }
    }
    /// tabulate a function
    pub fn from_fn(n: usize, f: impl Fn(usize) -> bool) -> Tab {
        let mut t = Tab::zero(n);
        for m in 0..(1usize << n) {
            if f(m) {
                t.set(m, true);
            }
        }
        t
    }
    pub fn is_const(&self) -> bool {
        let m = mask_of(self.n);
        self.w.iter().all(|x| *x == 0) || self.w.iter().all(|x| *x == m)
    }
    pub fn show(&self) -> String {
        format!("{}:{}", self.n, show_words(&self.w))
    }
}

pub fn show_words(w: &[u64]) -> String {
    if w.is_empty() {
        return "-".to_string();
    }
    w.iter().map(|x| format!("{:x}", x)).collect::<Vec<_>>().join(",")
}

pub fn parse_words(s: &str) -> Option<Vec<u64>> {
    if s == "-" {
        return Some(vec![]);
    }
    s.split(',').map(|p| u64::from_str_radix(p, 16).ok()).collect()
}

pub fn parse_tab(s: &str) -> Option<Tab> {
    let (a, b) = s.split_once(':')?;
    Some(Tab { n: a.parse().ok()?, w: parse_words(b)? })
}

pub fn show_bytes(b: &[u8]) -> String {
    if b.is_empty() {
        return "-".to_string();
    }
    b.iter().map(|x| format!("{:02x}", x)).collect()
}

pub fn parse_bytes(s: &str) -> Option<Vec<u8>> {
    if s == "-" {
        return Some(vec![]);
    }
    if s.len() % 2 != 0 {
        return None;
    }
    (0..s.len() / 2).map(|i| u8::from_str_radix(&s[2 * i..2 * i + 2], 16).ok()).collect()
}

pub fn show_nats<T: std::fmt::Display>(l: &[T]) -> String {
    if l.is_empty() {
        return "-".to_string();
    }
    l.iter().map(|x| x.to_string()).collect::<Vec<_>>().join(",")
}

pub fn parse_nats(s: &str) -> Option<Vec<usize>> {
    if s == "-" {
        return Some(vec![]);
    }
    s.split(',').map(|p| p.parse().ok()).collect()
}

pub fn show_bool(b: bool) -> &'static str {
    if b {
        "1"
    } else {
        "0"
    }
}

/// raw (pos, neg) of a cube through its public accessors
pub fn cube_raw(c: &Cube) -> (u32, u32) {
    let mut p = 0u32;
    for v in c.pos_vars() {
        p |= 1 << v;
    }
    let mut n = 0u32;
    for v in c.neg_vars() {
        n |= 1 << v;
    }
    (p, n)
}

pub fn show_cube(c: &Cube) -> String {
    let (p, n) = cube_raw(c);
    format!("{:x}/{:x}", p, n)
}

pub fn show_cubes(l: &[Cube]) -> String {
    if l.is_empty() {
        return "-".to_string();
    }
    l.iter().map(show_cube).collect::<Vec<_>>().join(",")
}

pub fn parse_raw_cube(s: &str) -> Option<(u32, u32)> {
    let (a, b) = s.split_once('/')?;
    Some((u32::from_str_radix(a, 16).ok()?, u32::from_str_radix(b, 16).ok()?))
}

/// Build a cube with exactly these masks.  The public constructors normalise contradictory
/// masks, so a raw cube with `pos & neg != 0` other than the canonical zero cannot be built;
/// those are mapped to `None` and never generated.
pub fn mk_cube(p: u32, n: u32) -> Option<Cube> {
    if p & n != 0 {
        if p == !0 && n == !0 {
            return Some(Cube::zero());
        }
        return None;
    }
    Some(Cube::from_mask(p, n))
}

pub fn parse_cube(s: &str) -> Option<Cube> {
    let (p, n) = parse_raw_cube(s)?;
    mk_cube(p, n)
}

pub fn parse_cubes(s: &str) -> Option<Vec<Cube>> {
    if s == "-" {
        return Some(vec![]);
    }
    s.split(',').map(parse_cube).collect()
}

pub fn ecube_raw(e: &Ecube) -> (u32, bool) {
    let mut v = 0u32;
    for x in e.vars() {
        v |= 1 << x;
    }
    // xnor flag: value on the all-zero assignment
    (v, e.value(0))
}

pub fn show_ecube(e: &Ecube) -> String {
    let (v, x) = ecube_raw(e);
    format!("{:x}/{}", v, show_bool(x))
}

pub fn show_ecubes(l: &[Ecube]) -> String {
    if l.is_empty() {
        return "-".to_string();
    }
    l.iter().map(show_ecube).collect::<Vec<_>>().join(",")
}

pub fn parse_ecube(s: &str) -> Option<Ecube> {
    let (a, b) = s.split_once('/')?;
    let v = u32::from_str_radix(a, 16).ok()?;
    let vars: Vec<usize> = (0..32).filter(|i| (v >> i) & 1 != 0).collect();
    Some(Ecube::from_vars(&vars, b == "1"))
}

pub fn parse_ecubes(s: &str) -> Option<Vec<Ecube>> {
    if s == "-" {
        return Some(vec![]);
    }
    s.split(',').map(parse_ecube).collect()
}

pub const FNV_INIT: u64 = 14695981039346656037;
pub fn digest_step(h: u64, w: u64) -> u64 {
    (h ^ w).wrapping_mul(1099511628211)
}

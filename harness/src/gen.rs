//! Case generators: one list of protocol lines per property, every choice from one SplitMix64.
//! Structured, not uniform: constants, projections, dense, sparse, carry patterns, symmetric,
//! small SOPs (shared sub-functions), plus a malformed stream where the property asks for it.

use crate::proto::*;
use crate::rng::Rng;

pub struct Ctx {
    pub rng: Rng,
    pub seed: u64,
    pub thorough: bool,
    pub out: Vec<String>,
}

impl Ctx {
    fn push(&mut self, s: String) {
        self.out.push(s);
    }
    /// a block of cases with its own random stream (derived from the seed and the block's name):
    /// adding, removing or changing such a block leaves every other case of the workload as it was
    fn enter(&mut self, block: &str) -> Rng {
        std::mem::replace(&mut self.rng, Rng::new(self.seed, block))
    }
    fn leave(&mut self, saved: Rng) {
        self.rng = saved;
    }
}

macro_rules! p {
    ($c:expr, $($arg:tt)*) => {{
        let s = format!($($arg)*);
        $c.out.push(s);
    }};
}

pub fn rand_word(r: &mut Rng) -> u64 {
    r.next()
}

/// a well-formed table of n variables, drawn from several families
pub fn gen_tab(r: &mut Rng, n: usize) -> Tab {
    let sz = table_size(n);
    let mask = mask_of(n);
    let kind = r.below(12);
    let mut t = Tab::zero(n);
    match kind {
        0 | 1 | 2 | 3 => {
            for w in t.w.iter_mut() {
                *w = r.next() & mask;
            }
        }
        4 => {
            // sparse: 1..3 minterms
            for _ in 0..(1 + r.below(3)) {
                let m = r.below(1 << n);
                t.set(m, true);
            }
        }
        5 => {
            // co-sparse
            for w in t.w.iter_mut() {
                *w = mask;
            }
            for _ in 0..(1 + r.below(3)) {
                let m = r.below(1 << n);
                t.set(m, false);
            }
        }
        6 => {
            // projection (or its complement)
            if n > 0 {
                let v = r.below(n);
                let neg = r.coin();
                t = Tab::from_fn(n, |m| ((m >> v) & 1 != 0) != neg);
            }
        }
        7 => {
            // symmetric
            let c = r.next();
            t = Tab::from_fn(n, |m| (c >> (m.count_ones() as u64)) & 1 != 0);
        }
        8 => {
            // low words all ones (carry chains), the rest random
            let k = r.below(sz + 1);
            for (i, w) in t.w.iter_mut().enumerate() {
                *w = if i < k { mask } else { r.next() & mask };
            }
        }
        9 => {
            // all words equal but one
            let w0 = r.next() & mask;
            for w in t.w.iter_mut() {
                *w = w0;
            }
            let i = r.below(sz);
            t.w[i] = r.next() & mask;
        }
        10 => {
            // small random SOP over few variables: shared sub-functions
            let ncubes = 1 + r.below(4);
            let mut cubes = Vec::new();
            for _ in 0..ncubes {
                let mut p = 0usize;
                let mut q = 0usize;
                for v in 0..n {
                    match r.below(4) {
                        0 => p |= 1 << v,
                        1 => q |= 1 << v,
                        _ => {}
                    }
                }
                cubes.push((p, q));
            }
            t = Tab::from_fn(n, |m| cubes.iter().any(|(p, q)| m & p == *p && !m & q == *q));
        }
        _ => {
            // constant
            if r.coin() {
                for w in t.w.iter_mut() {
                    *w = mask;
                }
            }
        }
    }
    t
}

/// dense random only
pub fn gen_dense(r: &mut Rng, n: usize) -> Tab {
    let mask = mask_of(n);
    let mut t = Tab::zero(n);
    for w in t.w.iter_mut() {
        *w = r.next() & mask;
    }
    t
}

fn types_for(n: usize) -> &'static [&'static str] {
    if n <= 12 {
        &["D", "S"]
    } else {
        &["D"]
    }
}

pub fn gen_c01(c: &mut Ctx) {
    let reps = if c.thorough { 6 } else { 2 };
    for n in 0..=14usize {
        for ty in types_for(n) {
            for _ in 0..reps {
                let a = gen_tab(&mut c.rng, n);
                let b = gen_tab(&mut c.rng, n);
                for f in 0..4 {
                    p!(c, "not {} {} {}", ty, f, a.show());
                }
                for op in ["and", "or", "xor"] {
                    for f in 0..8 {
                        p!(c, "bin {} {} {} {} {}", ty, op, f, a.show(), b.show());
                    }
                    // an operand combined with itself: the same object on both sides (forms 8, 9),
                    // and an equal copy (one of the ordinary forms)
                    let f = c.rng.below(8);
                    p!(c, "bin {} {} 8 {} {}", ty, op, a.show(), a.show());
                    p!(c, "bin {} {} 9 {} {}", ty, op, a.show(), a.show());
                    p!(c, "bin {} {} {} {} {}", ty, op, f, a.show(), a.show());
                    // operands stored inline at addresses 8 bytes apart modulo 16 (forms 10..13)
                    for f in 10..14 {
                        p!(c, "bin {} {} {} {} {}", ty, op, f, a.show(), b.show());
                    }
                }
            }
        }
    }
    // size mismatches (dynamic type only): must panic in every form
    for _ in 0..(if c.thorough { 40 } else { 10 }) {
        let n1 = c.rng.below(10);
        let mut n2 = c.rng.below(10);
        if n2 == n1 {
            n2 = (n1 + 1) % 10;
        }
        let a = gen_tab(&mut c.rng, n1);
        let b = gen_tab(&mut c.rng, n2);
        let op = *c.rng.pick(&["and", "or", "xor"]);
        let f = c.rng.below(8);
        p!(c, "bin D {} {} {} {}", op, f, a.show(), b.show());
    }
}

pub fn gen_c03(c: &mut Ctx) {
    let full_upto = if c.thorough { 10 } else { 8 };
    for n in 1..=14usize {
        for ty in types_for(n) {
            let pairs: Vec<(usize, usize)> = if n <= full_upto {
                (0..n).flat_map(|i| (0..n).map(move |j| (i, j))).collect()
            } else {
                // every pair over the indices next to a regime or size boundary (in-word 0..5, first
                // word indices 6.., 12 = 2 * 6, the last two), plus random pairs
                let mut b: Vec<usize> = vec![0, 1, 4, 5, 6, 7, 11, 12, 13, n - 2, n - 1];
                b.retain(|&v| v < n);
                b.sort();
                b.dedup();
                let mut ps: Vec<(usize, usize)> = b.iter().flat_map(|&i| b.iter().map(move |&j| (i, j))).collect();
                let k = if c.thorough { 24 } else { 8 };
                ps.extend((0..k).map(|_| (c.rng.below(n), c.rng.below(n))));
                ps
            };
            for (i, j) in pairs {
                let a = if c.rng.below(3) == 0 { gen_tab(&mut c.rng, n) } else { gen_dense(&mut c.rng, n) };
                let mode = if c.rng.coin() { "ip" } else { "cp" };
                p!(c, "swap {} {} {} {} {}", ty, mode, a.show(), i, j);
            }
            let vars: Vec<usize> = (0..n).collect();
            for i in vars {
                let a = gen_dense(&mut c.rng, n);
                let b = gen_tab(&mut c.rng, n);
                let c0 = gen_dense(&mut c.rng, n);
                p!(c, "flip {} ip {} {}", ty, a.show(), i);
                p!(c, "flip {} cp {} {}", ty, b.show(), i);
                p!(c, "cof {} {} {}", ty, a.show(), i);
                p!(c, "cof {} {} {}", ty, b.show(), i);
                p!(c, "fromcof {} {} {} {}", ty, c0.show(), a.show(), i);
                if i + 1 < n {
                    p!(c, "swapadj {} ip {} {}", ty, a.show(), i);
                    p!(c, "swapadj {} cp {} {}", ty, b.show(), i);
                }
            }
            // tables whose words are related to their neighbours: word k+1 is word k with an
            // in-word variable complemented / two in-word variables exchanged, or its complement,
            // or equal to it - XORs and multiplexers over a word-selecting variable, parity
            // (seed C03-n: a per-word memo in flip_inplace keyed by the word it has just written)
            if (7..=10).contains(&n) {
                let saved = c.enter(&format!("C03-related-{}-{}", n, ty));
                for i in 0..6usize {
                    let g = gen_tab(&mut c.rng, 6);
                    let hi = 6 + c.rng.below(n - 6);
                    let j = (i + 1 + c.rng.below(5)) % 6;
                    let tabs = [
                        // x_hi selects between g and g with x_i complemented
                        Tab::from_fn(n, |m| g.bit((m & 63) ^ (((m >> hi) & 1) << i))),
                        // ... between g and g with x_i, x_j exchanged
                        Tab::from_fn(n, |m| {
                            let x = m & 63;
                            let y = if (m >> hi) & 1 != 0 {
                                let (bi, bj) = ((x >> i) & 1, (x >> j) & 1);
                                (x & !(1 << i) & !(1 << j)) | (bj << i) | (bi << j)
                            } else {
                                x
                            };
                            g.bit(y)
                        }),
                        // x_i xor x_hi, parity of all
                        Tab::from_fn(n, |m| ((m >> i) ^ (m >> hi)) & 1 != 0),
                        Tab::from_fn(n, |m| m.count_ones() % 2 == 1),
                    ];
                    for t in &tabs {
                        for v in [i, j, hi] {
                            p!(c, "flip {} ip {} {}", ty, t.show(), v);
                            p!(c, "cof {} {} {}", ty, t.show(), v);
                        }
                        p!(c, "flip {} cp {} {}", ty, t.show(), i);
                        p!(c, "swap {} ip {} {} {}", ty, t.show(), i, j);
                        p!(c, "swap {} cp {} {} {}", ty, t.show(), i, hi);
                        p!(c, "fromcof {} {} {} {}", ty, t.show(), tabs[0].show(), i);
                    }
                }
                c.leave(saved);
            }
        }
    }
}

pub fn gen_c11(c: &mut Ctx) {
    for n in 0..=14usize {
        for ty in types_for(n) {
            for kind in ["zero", "one", "parity", "majority"] {
                p!(c, "ctor {} {} {}", ty, kind, n);
            }
            for i in 0..n {
                p!(c, "ctor {} nth_var {} {}", ty, n, i);
            }
            let mut ks: Vec<usize> = (0..=n + 2).collect();
            ks.extend([63usize, 64, 65, usize::MAX]);
            // values whose low 8 / 16 / 32 bits are a small k again (seed C11-g: `k as u32`), and
            // powers of two around the word sizes
            for base in [1usize << 8, 1 << 16, 1 << 32, 1 << 33, (1 << 32) + (1 << 8), 1 << 63] {
                for low in [0usize, 1, n / 2, n, n + 1] {
                    ks.push(base + low);
                }
            }
            ks.extend([usize::MAX - 1, usize::MAX - n, (1usize << 32) - 1, (1usize << 31), 127, 128, 255, 256]);
            ks.sort();
            ks.dedup();
            for k in ks {
                p!(c, "ctor {} threshold {} {}", ty, n, k);
                p!(c, "ctor {} equals {} {}", ty, n, k);
            }
            let nsym = if c.thorough { 12 } else { 4 };
            for q in 0..nsym {
                let cv = match q {
                    0 => 0u64,
                    1 => !0u64,
                    2 => 0xaaaa_aaaa_aaaa_aaaa,
                    _ => c.rng.next(),
                };
                p!(c, "ctor {} symmetric {} {:x}", ty, n, cv);
            }
        }
    }
    c.push("ctor D default 0".to_string());
    c.push("ctor S default 0".to_string());
    c.push("ctor S default 5".to_string());
    c.push("ctor S default 9".to_string());
}

pub fn gen_c06(c: &mut Ctx) {
    let reps = if c.thorough { 6 } else { 2 };
    for n in 1..=12usize {
        for ty in types_for(n) {
            for v in 0..n {
                for _ in 0..reps {
                    // build functions with a known structure in variable v, plus generic ones
                    let g0 = gen_tab(&mut c.rng, n);
                    let g1 = gen_tab(&mut c.rng, n);
                    let kind = c.rng.below(12);
                    let t = Tab::from_fn(n, |m| {
                        let x = (m >> v) & 1 != 0;
                        let m0 = m & !(1 << v);
                        let a = g0.bit(m0);
                        let b = g1.bit(m0);
                        match kind {
                            0 => a,                    // independent
                            1 => x,                    // identity
                            2 => !x,                   // negation
                            3 => x && a,               // and
                            4 => x || a,               // or
                            5 => !x || a,              // le
                            6 => !x && a,              // lt
                            7 => x != a,               // xor
                            8 => if x { a || b } else { a }, // pos unate
                            9 => if x { a } else { a || b }, // neg unate
                            _ => if x { b } else { a }, // generic
                        }
                    });
                    p!(c, "decomp {} {} {}", ty, t.show(), v);
                    p!(c, "posunate {} {} {}", ty, t.show(), v);
                    p!(c, "negunate {} {} {}", ty, t.show(), v);
                    p!(c, "dflags {} {} {}", ty, t.show(), v);
                }
            }
            // a known structure in variable v everywhere but at ONE assignment - the last one, the
            // first one, or the last of the first word: the class must go (seed C06-i: a one-pass
            // classification that stops early and keeps a class the later words refute)
            if n >= 2 {
                let saved = c.enter(&format!("C06-near-{}-{}", n, ty));
                let mut vs: Vec<usize> = vec![0, n - 1];
                for v in [5usize, 6, 7] {
                    if v < n && !vs.contains(&v) {
                        vs.push(v);
                    }
                }
                for v in vs {
                    for kind in 0..8 {
                        let g0 = gen_dense(&mut c.rng, n);
                        let base = Tab::from_fn(n, |m| {
                            let x = (m >> v) & 1 != 0;
                            let a = g0.bit(m & !(1 << v));
                            match kind {
                                0 => a,
                                1 => x,
                                2 => !x,
                                3 => x && a,
                                4 => x || a,
                                5 => !x || a,
                                6 => !x && a,
                                _ => x != a,
                            }
                        });
                        let nb = 1usize << n;
                        for at in [nb - 1, 0, (nb - 1).min(63)] {
                            let mut t = base.clone();
                            let b = t.bit(at);
                            t.set(at, !b);
                            p!(c, "decomp {} {} {}", ty, t.show(), v);
                            p!(c, "dflags {} {} {}", ty, t.show(), v);
                        }
                    }
                }
                c.leave(saved);
            }
        }
    }
}

pub fn gen_c08(c: &mut Ctx) {
    let reps = if c.thorough { 40 } else { 12 };
    for n in 0..=12usize {
        for ty in types_for(n) {
            for _ in 0..reps {
                let a = gen_tab(&mut c.rng, n);
                let mut b = gen_tab(&mut c.rng, n);
                match c.rng.below(4) {
                    0 => b = a.clone(),
                    1 => {
                        // differ in exactly one bit
                        b = a.clone();
                        let m = c.rng.below(1 << n);
                        let v = b.bit(m);
                        b.set(m, !v);
                    }
                    _ => {}
                }
                p!(c, "cmp {} {} {}", ty, a.show(), b.show());
                p!(c, "eq {} {} {}", ty, a.show(), b.show());
                p!(c, "next {} {}", ty, a.show());
            }
            // multi-word tables that differ in exactly two words, ordered oppositely there: the
            // most significant differing word decides, whatever a word-0-first comparison says
            let sz = table_size(n);
            if sz >= 2 {
                for _ in 0..(if c.thorough { 12 } else { 4 }) {
                    let a = gen_dense(&mut c.rng, n);
                    let mut b = a.clone();
                    let i = c.rng.below(sz - 1);
                    let j = i + 1 + c.rng.below(sz - 1 - i);
                    // word i: a > b ; word j: a < b  (or the other way round)
                    let (x, y) = (c.rng.next() | 1, c.rng.next() | 1);
                    let flip = c.rng.coin();
                    let mut a2 = a.clone();
                    a2.w[i] = x.max(y);
                    b.w[i] = x.max(y) - 1;
                    a2.w[j] = x.min(y) - 1;
                    b.w[j] = x.min(y);
                    let (l, r) = if flip { (b, a2) } else { (a2, b) };
                    p!(c, "cmp {} {} {}", ty, l.show(), r.show());
                    p!(c, "eq {} {} {}", ty, l.show(), r.show());
                }
            }
            // carries: low k words all ones
            for k in 0..=sz.min(if c.thorough { 64 } else { 6 }) {
                let mut a = gen_dense(&mut c.rng, n);
                for i in 0..k.min(sz) {
                    a.w[i] = mask_of(n);
                }
                p!(c, "next {} {}", ty, a.show());
            }
            let mut ones = Tab::zero(n);
            for w in ones.w.iter_mut() {
                *w = mask_of(n);
            }
            p!(c, "next {} {}", ty, ones.show());
        }
    }
    // tables of different sizes (dynamic only): the size decides, whatever the words are
    for n1 in 0..=8usize {
        for n2 in 0..=8usize {
            if n1 == n2 {
                continue;
            }
            let lo = n1.min(n2);
            // same low word in both, constants, and a numerically small table of the larger size
            let w = c.rng.next() & mask_of(lo);
            let mut a = Tab::zero(n1);
            let mut b = Tab::zero(n2);
            a.w[0] = w;
            b.w[0] = w;
            p!(c, "cmp D {} {}", a.show(), b.show());
            p!(c, "eq D {} {}", a.show(), b.show());
            let ones = Tab::from_fn(n1, |_| true);
            let zero = Tab::zero(n2);
            p!(c, "cmp D {} {}", ones.show(), zero.show());
            p!(c, "eq D {} {}", zero.show(), Tab::zero(n1).show());
            let mut small = Tab::zero(n2);
            small.w[0] = 1;
            p!(c, "cmp D {} {}", gen_dense(&mut c.rng, n1).show(), small.show());
        }
    }
    for _ in 0..reps {
        let n1 = c.rng.below(9);
        let n2 = c.rng.below(9);
        let a = gen_tab(&mut c.rng, n1);
        let b = gen_tab(&mut c.rng, n2);
        p!(c, "cmp D {} {}", a.show(), b.show());
        p!(c, "eq D {} {}", a.show(), b.show());
    }
    // iterator runs: complete for n <= 4 (thorough) / n <= 3 (quick), prefixes above
    for n in 0..=9usize {
        for ty in types_for(n) {
            let full = 1usize.checked_shl(1u32 << n).unwrap_or(usize::MAX);
            let cap = if c.thorough { 70000 } else { 1000 };
            if n <= 4 && full + 2 <= cap {
                p!(c, "iter {} {} {}", ty, n, full + 2);
                p!(c, "iter {} {} {}", ty, n, full);
                p!(c, "iter {} {} {}", ty, n, full - 1);
            } else {
                p!(c, "iter {} {} {}", ty, n, if c.thorough { 5000 } else { 300 });
            }
        }
    }
    gen_itera(c);
}

/// the provided methods of `Iterator` on `all_functions()` (seeds C08-j, C02-j: `nth` overridden
/// with a jump that is wrong at the end of the run): every kind at the start, in the middle, at
/// and beyond the end
pub fn gen_itera(c: &mut Ctx) {
    let saved = c.enter("itera");
    for n in 0..=8usize {
        for ty in types_for(n) {
            let total: Option<usize> = if n <= 4 { Some(1usize << (1usize << n)) } else { None };
            let mut ab: Vec<(usize, usize)> = vec![(0, 0), (0, 1), (1, 0), (2, 3), (0, 7), (5, 60)];
            ab.push((c.rng.below(50), c.rng.below(1000)));
            if let Some(tot) = total {
                for d in [tot - 2, tot - 1, tot, tot + 1, tot + 5, 2 * tot, 2 * tot + 3] {
                    ab.push((0, d));
                    ab.push((1, d.saturating_sub(1)));
                    if d >= tot - 1 {
                        ab.push((tot - 1, d - (tot - 1)));
                    }
                }
                ab.push((tot, 0));
                ab.push((tot + 2, 1));
            } else if n == 5 {
                ab.push((0, 70000));
            }
            for (a, b) in &ab {
                p!(c, "itera {} {} {} nth {}", ty, n, a, b);
                p!(c, "itera {} {} {} skip {}", ty, n, a, b);
            }
            for a in [0usize, 1, 5] {
                p!(c, "itera {} {} {} hint0 0", ty, n, a);
                for b in [0usize, 1, 3, 40] {
                    p!(c, "itera {} {} {} takecollect {}", ty, n, a, b);
                }
            }
            let mut steps: Vec<usize> = vec![1, 2, 3, 5, 64];
            if let Some(tot) = total {
                steps.extend([tot - 1, tot, tot + 1, (tot + 1) / 2, tot / 4 + 1]);
            }
            for st in steps {
                if st >= 1 {
                    p!(c, "itera {} {} 0 stepby {}", ty, n, st);
                    p!(c, "itera {} {} 1 stepby {}", ty, n, st);
                }
            }
            if let Some(tot) = total {
                if n <= 3 || c.thorough {
                    for a in [0usize, 1, tot / 2, tot - 1, tot, tot + 1] {
                        for kind in ["count", "last", "max", "min", "fold", "hint", "vcount", "vlast", "vmax", "vmin", "vfold"] {
                            p!(c, "itera {} {} {} {} 0", ty, n, a, kind);
                        }
                        for b in [0usize, 1, 3, tot] {
                            p!(c, "itera {} {} {} skipcount {}", ty, n, a, b);
                        }
                    }
                } else {
                    for kind in ["count", "last"] {
                        p!(c, "itera {} {} 0 {} 0", ty, n, kind);
                        p!(c, "itera {} {} {} {} 0", ty, n, tot.saturating_sub(3), kind);
                    }
                }
            }
        }
    }
    c.leave(saved);
}

/// the provided methods of `Iterator` on `Cube::all` / `Ecube::all` (seed C13-k)
fn gen_alla(c: &mut Ctx, what: &str, nmax: usize, total: &dyn Fn(usize) -> usize) {
    let saved = c.enter(&format!("alla-{}", what));
    for n in 0..=nmax {
        let tot = total(n);
        let mut ab: Vec<(usize, usize)> = vec![(0, 0), (0, 1), (1, 0), (1, 1), (1, 2), (2, 1), (3, 1), (3, 3), (0, 7), (5, 4)];
        for d in [tot.saturating_sub(2), tot - 1, tot, tot + 1, tot + 5] {
            ab.push((0, d));
            ab.push((1, d.saturating_sub(1)));
            ab.push((2, d.saturating_sub(2)));
        }
        ab.push((tot, 0));
        ab.push((c.rng.below(tot + 1), c.rng.below(tot + 1)));
        for (a, b) in &ab {
            p!(c, "{} alla {} {} nth {}", what, n, a, b);
            p!(c, "{} alla {} {} skip {}", what, n, a, b);
        }
        for st in [1usize, 2, 3, 4, 5, tot - 1, tot, tot + 1] {
            if st >= 1 {
                for a in 0..3 {
                    p!(c, "{} alla {} {} stepby {}", what, n, a, st);
                }
            }
        }
        for a in [0usize, 1, 2, tot / 2, tot - 1, tot, tot + 1] {
            for kind in ["count", "last", "max", "min", "hint", "vcount", "vlast", "vmax", "vmin", "vfold"] {
                p!(c, "{} alla {} {} {} 0", what, n, a, kind);
            }
            for b in [0usize, 1, 2, 5, tot] {
                p!(c, "{} alla {} {} skipcount {}", what, n, a, b);
            }
        }
    }
    c.leave(saved);
}

fn hexstr_of(t: &Tab) -> String {
    let width = if t.n >= 6 { 16 } else if t.n <= 2 { 1 } else { 1 << (t.n - 2) };
    t.w.iter().rev().map(|w| format!("{:0width$x}", w, width = width)).collect()
}

pub fn gen_c09(c: &mut Ctx) {
    // non-ASCII characters whose code point has an ASCII hex digit as its LOW BYTE (U+0131 -> '1',
    // U+0141 -> 'A', U+0431 -> '1', U+3042 -> 'B'), in strings of exactly the expected byte length
    // (seed C09-l: digits decoded from `c as u8`)
    {
        let saved = c.enter("C09-lowbyte");
        let two: [char; 8] = ['\u{0131}', '\u{0139}', '\u{0141}', '\u{0146}', '\u{0161}', '\u{0166}', '\u{0430}', '\u{0435}'];
        let three: [char; 3] = ['\u{3042}', '\u{3061}', '\u{4e30}'];
        for n in 3..=8usize {
            let width = if n >= 6 { 16 << (n - 6) } else { 1usize << (n - 2) };
            for ty in ["D", "S"] {
                for k in 0..6 {
                    let mut st = String::new();
                    let mut bytes = 0usize;
                    let special = if k % 3 == 2 && width >= 3 { *c.rng.pick(&three) } else { *c.rng.pick(&two) };
                    let at = c.rng.below(width);
                    let mut placed = false;
                    while bytes < width {
                        let room = width - bytes;
                        if !placed && bytes >= at.min(width - special.len_utf8()) && room >= special.len_utf8() {
                            st.push(special);
                            bytes += special.len_utf8();
                            placed = true;
                        } else {
                            st.push(*c.rng.pick(&['0', '1', '7', 'a', 'f', 'e']));
                            bytes += 1;
                        }
                    }
                    if placed {
                        let hex: String = st.as_bytes().iter().map(|b| format!("{:02x}", b)).collect();
                        p!(c, "fromhex {} {} {}", ty, n, hex);
                    }
                }
            }
        }
        c.leave(saved);
    }
    // the same one-digit string at the three sizes that take one digit, descending and ascending
    // (seed C09-k: a memo of the last parsed string that forgets the size)
    for ty in ["D", "S"] {
        for d in b"0123456789abcdefABCDEF" {
            p!(c, "seq fromhex {} 2 {:02x} ;; fromhex {} 1 {:02x} ;; fromhex {} 0 {:02x}", ty, d, ty, d, ty, d);
            p!(c, "seq fromhex {} 0 {:02x} ;; fromhex {} 1 {:02x} ;; fromhex {} 2 {:02x}", ty, d, ty, d, ty, d);
        }
    }
    let reps = if c.thorough { 12 } else { 4 };
    let alphabet: Vec<&str> = vec![
        "0", "1", "2", "7", "9", "a", "c", "f", "A", "F", "+", "-", " ", "g", "x", "G", "é", "€", "0", "f",
    ];
    for n in 0..=12usize {
        for ty in types_for(n) {
            for _ in 0..reps {
                let a = gen_tab(&mut c.rng, n);
                for op in ["tohex", "tobin", "display", "fmtx", "fmtb"] {
                    p!(c, "{} {} {}", op, ty, a.show());
                }
                let s = hexstr_of(&a);
                p!(c, "fromhex {} {} {}", ty, n, show_bytes(s.as_bytes()));
                // upper case
                p!(c, "fromhex {} {} {}", ty, n, show_bytes(s.to_uppercase().as_bytes()));
                // mutated prints
                let mut b: Vec<char> = s.chars().collect();
                for _ in 0..3 {
                    let mut m = b.clone();
                    let pos = c.rng.below(m.len());
                    let rep: Vec<char> = c.rng.pick(&alphabet).chars().collect();
                    match c.rng.below(3) {
                        0 => {
                            m.splice(pos..pos + 1, rep);
                        }
                        1 => {
                            m.splice(pos..pos, rep);
                        }
                        _ => {
                            m.remove(pos);
                        }
                    }
                    let ms: String = m.into_iter().collect();
                    p!(c, "fromhex {} {} {}", ty, n, show_bytes(ms.as_bytes()));
                }
                b.clear();
            }
            // a sign, blank or non-digit written over the first / second / last digit of every
            // 16-digit block (the parser works block by block), keeping the length right
            {
                let a = gen_dense(&mut c.rng, n);
                let s: Vec<char> = hexstr_of(&a).chars().collect();
                let per = if n >= 6 { 16 } else { s.len() };
                let mut k = 0;
                while k < s.len() {
                    for off in [0usize, 1, per - 1] {
                        if k + off < s.len() {
                            for rep in ['+', '-', ' ', 'g'] {
                                let mut m = s.clone();
                                m[k + off] = rep;
                                let ms: String = m.into_iter().collect();
                                p!(c, "fromhex {} {} {}", ty, n, show_bytes(ms.as_bytes()));
                            }
                        }
                    }
                    k += per;
                    if k >= 4 * per && k + per < s.len() {
                        // long strings: first four blocks and the last one
                        k = s.len() - per;
                    }
                }
            }
            // a multi-byte character laid across / next to every 16-byte block boundary, once with
            // the byte length right and once with the character count right (seed C09-f: a parser
            // that slices the string per block before looking at the characters)
            {
                let saved = c.enter(&format!("C09-boundary-{}-{}", n, ty));
                let a = gen_dense(&mut c.rng, n);
                let s: Vec<u8> = hexstr_of(&a).into_bytes();
                let w = s.len();
                let mut bounds: Vec<usize> = (0..=w / 16).map(|k| k * 16).collect();
                if bounds.len() > 6 {
                    let last = bounds[bounds.len() - 2];
                    bounds.truncate(4);
                    bounds.push(last);
                }
                for bd in bounds {
                    for ch in ["é", "€"] {
                        let cb = ch.as_bytes();
                        for back in 0..=cb.len() {
                            // the character starts `back` bytes before the boundary
                            if bd < back {
                                continue;
                            }
                            let st = bd - back;
                            if st + cb.len() <= w {
                                // byte length kept
                                let mut m = s.clone();
                                m.splice(st..st + cb.len(), cb.iter().cloned());
                                p!(c, "fromhex {} {} {}", ty, n, show_bytes(&m));
                            }
                            if st < w {
                                // character count kept
                                let mut m = s.clone();
                                m.splice(st..st + 1, cb.iter().cloned());
                                p!(c, "fromhex {} {} {}", ty, n, show_bytes(&m));
                            }
                        }
                    }
                }
                c.leave(saved);
            }
            // arbitrary strings over the alphabet, lengths 0..=W+2
            let width = hexstr_of(&Tab::zero(n)).len();
            let cnt = if c.thorough { 60 } else { 16 };
            for _ in 0..cnt {
                let len = if width <= 6 || c.rng.coin() { c.rng.below(width + 3) } else { width - 1 + c.rng.below(3) };
                let mut s = String::new();
                let hexbias = c.rng.below(3);
                for _ in 0..len {
                    if hexbias > 0 && c.rng.below(8) != 0 {
                        s.push_str(*c.rng.pick(&["0", "1", "3", "8", "a", "e", "f"][..]));
                    } else {
                        s.push_str(*c.rng.pick(&alphabet[..]));
                    }
                }
                p!(c, "fromhex {} {} {}", ty, n, show_bytes(s.as_bytes()));
            }
            // small sizes: every single character and every pair over a short alphabet
            if n <= 2 {
                let small = ["0", "1", "2", "3", "4", "7", "8", "f", "F", "+", "-", "g", " ", "é"];
                for a in small {
                    p!(c, "fromhex {} {} {}", ty, n, show_bytes(a.as_bytes()));
                    for b2 in small {
                        let s = format!("{}{}", a, b2);
                        p!(c, "fromhex {} {} {}", ty, n, show_bytes(s.as_bytes()));
                    }
                }
                p!(c, "fromhex {} {} -", ty, n);
            }
            if n == 3 {
                for s in ["+f", "+0", "f+", "-1", "0x", "ff", "FF", "fF", "+ff", " f", "f "] {
                    p!(c, "fromhex {} {} {}", ty, n, show_bytes(s.as_bytes()));
                }
            }
        }
    }
}

pub fn gen_c07(c: &mut Ctx) {
    let reps = if c.thorough { 30 } else { 8 };
    for n in 0..=11usize {
        for ty in types_for(n) {
            p!(c, "bdd {} {}", ty, n);
            for _ in 0..reps {
                let k = 1 + c.rng.below(4);
                let mut tabs: Vec<Tab> = Vec::new();
                for _ in 0..k {
                    let t = match c.rng.below(5) {
                        0 if !tabs.is_empty() => {
                            // duplicate or complement of an earlier one
                            let mut t = c.rng.pick(&tabs).clone();
                            if c.rng.coin() {
                                let m = mask_of(n);
                                for w in t.w.iter_mut() {
                                    *w = !*w & m;
                                }
                            }
                            t
                        }
                        1 if !tabs.is_empty() && n > 0 => {
                            // cofactor-like variation of an earlier one: shares sub-functions
                            let base = c.rng.pick(&tabs).clone();
                            let v = c.rng.below(n);
                            Tab::from_fn(n, |m| base.bit(m | (1 << v)))
                        }
                        _ => gen_tab(&mut c.rng, n),
                    };
                    tabs.push(t);
                }
                let s: Vec<String> = tabs.iter().map(|t| t.show()).collect();
                p!(c, "bdd {} {} {}", ty, n, s.join(" "));
            }
            // several-word tables spliced from their neighbours in the list: c = tail of a ++ head
            // of b, at every word offset (seed C07-g: a duplicate filter sliding over the
            // concatenated words), in several list orders
            if n >= 7 {
                let saved = c.enter(&format!("C07-splice-{}-{}", n, ty));
                let a = gen_tab(&mut c.rng, n);
                let b = gen_tab(&mut c.rng, n);
                let nw = a.w.len();
                let offs: Vec<usize> = if nw <= 4 { (1..nw).collect() } else { vec![1, nw / 2, nw - 1] };
                for off in offs {
                    let mut cw: Vec<u64> = a.w[off..].to_vec();
                    cw.extend_from_slice(&b.w[..off]);
                    let cc = Tab::new(n, cw);
                    p!(c, "bdd {} {} {} {} {}", ty, n, a.show(), b.show(), cc.show());
                    p!(c, "bdd {} {} {} {} {}", ty, n, cc.show(), a.show(), b.show());
                    p!(c, "bdd {} {} {} {} {} {}", ty, n, b.show(), a.show(), b.show(), cc.show());
                }
                c.leave(saved);
            }
            // words built from halves that are zero, all ones, or a SMALLER table zero-extended:
            // sub-functions of different levels whose tables are the same number (seed C07-j:
            // levels 1..5 deduplicated in one vector, told apart by a marker bit that level 5
            // cannot carry: `x5 ? NOR(x4..x0) : x4 & x3` loses a node)
            if n >= 3 {
                let saved = c.enter(&format!("C07-nested-{}-{}", n, ty));
                let cnt = if c.thorough { 60 } else { 16 };
                for k in 0..cnt {
                    let nt = 1 + (k % 3);
                    let mut pool: Vec<u64> = Vec::new();
                    let mut tabs: Vec<String> = Vec::new();
                    for _ in 0..nt {
                        let mut t = Tab::zero(n);
                        for w in t.w.iter_mut() {
                            *w = if !pool.is_empty() && c.rng.below(3) == 0 {
                                *c.rng.pick(&pool)
                            } else {
                                nested_word(&mut c.rng, 64.min(1usize << n))
                            };
                            pool.push(*w);
                        }
                        tabs.push(t.show());
                    }
                    p!(c, "bdd {} {} {}", ty, n, tabs.join(" "));
                }
                c.leave(saved);
            }
            // small expression trees (mux / and / or / xor) over the word-selecting variables and two
            // in-word ones: cofactors that are single literals x_L at high levels, nodes that pass
            // unchanged through a level and meet others further up (seed C07-m: references that
            // collide after a level where the literal x_L appears; n >= 9)
            if n >= 8 {
                let saved = c.enter(&format!("C07-trees-{}-{}", n, ty));
                let mut vars: Vec<usize> = (6..n).collect();
                vars.extend([0usize, 1]);
                for _ in 0..(if c.thorough { 60 } else { 16 }) {
                    // a random tree of depth <= 3, evaluated assignment by assignment
                    fn tree(r: &mut Rng, vars: &[usize], depth: usize) -> Vec<usize> {
                        // prefix code: 0 v = literal, 1 = and, 2 = or, 3 = xor, 4 = mux (three operands)
                        if depth == 0 || r.below(4) == 0 {
                            return vec![0, *r.pick(vars)];
                        }
                        let op = 1 + r.below(4);
                        let mut v = vec![op];
                        for _ in 0..(if op == 4 { 3 } else { 2 }) {
                            v.extend(tree(r, vars, depth - 1));
                        }
                        v
                    }
                    fn eval(code: &[usize], pos: &mut usize, m: usize) -> bool {
                        let op = code[*pos];
                        *pos += 1;
                        match op {
                            0 => {
                                let v = code[*pos];
                                *pos += 1;
                                (m >> v) & 1 != 0
                            }
                            4 => {
                                let s = eval(code, pos, m);
                                let a = eval(code, pos, m);
                                let b = eval(code, pos, m);
                                if s { a } else { b }
                            }
                            _ => {
                                let a = eval(code, pos, m);
                                let b = eval(code, pos, m);
                                match op { 1 => a && b, 2 => a || b, _ => a != b }
                            }
                        }
                    }
                    let k = 1 + c.rng.below(2);
                    let mut tabs: Vec<String> = Vec::new();
                    for _ in 0..k {
                        let code = tree(&mut c.rng, &vars, 3);
                        tabs.push(Tab::from_fn(n, |m| { let mut p = 0; eval(&code, &mut p, m) }).show());
                    }
                    p!(c, "bdd {} {} {}", ty, n, tabs.join(" "));
                }
                c.leave(saved);
            }
            // functions of few top/bottom variables: level boundaries 5/6
            for _ in 0..reps / 2 {
                if n >= 2 {
                    let v1 = c.rng.below(n);
                    let v2 = c.rng.below(n);
                    let v3 = c.rng.below(n);
                    let k = c.rng.below(6);
                    let t = Tab::from_fn(n, |m| {
                        let a = (m >> v1) & 1 != 0;
                        let b = (m >> v2) & 1 != 0;
                        let d = (m >> v3) & 1 != 0;
                        match k {
                            0 => a && b,
                            1 => a != b,
                            2 => (a && b) || d,
                            3 => if a { b } else { d },
                            4 => (a != b) != d,
                            _ => (a && b) || (b && d) || (a && d),
                        }
                    });
                    p!(c, "bdd {} {} {}", ty, n, t.show());
                }
            }
        }
    }
}

/// a table of `bits` bits built from halves: zero, all ones, a smaller table zero-extended, or two
/// nested halves - so that sub-tables of different widths coincide as numbers
fn nested_word(r: &mut Rng, bits: usize) -> u64 {
    if bits == 1 {
        return r.next() & 1;
    }
    let h = bits / 2;
    let ones = |b: usize| if b >= 64 { u64::MAX } else { (1u64 << b) - 1 };
    match r.below(10) {
        0 | 1 => 0,
        2 => ones(bits),
        3 | 4 => nested_word(r, h),                // smaller table, zero-extended
        5 => nested_word(r, h) << h,               // ... in the upper half
        6 => (ones(h) << h) | nested_word(r, h),   // upper half constant one
        _ => (nested_word(r, h) << h) | nested_word(r, h),
    }
}

fn all_tabs(n: usize) -> Vec<Tab> {
    let bits = 1usize << n;
    (0..(1u64 << bits)).map(|v| Tab::new(n, vec![v])).collect()
}

pub fn gen_c04(c: &mut Ctx) {
    for n in 0..=9usize {
        p!(c, "canonseq {}", n);
    }
    // the sequences each entry point really walks (recording hook)
    for n in 0..=8usize {
        p!(c, "canonused p {}", n);
        p!(c, "canonused n {}", n);
        if n <= 7 || c.thorough {
            p!(c, "canonused npn {}", n);
        }
    }
    let ops = ["pcanon", "ncanon", "npncanon"];
    // exhaustive for n <= 3 (quick) / n <= 4 sampled heavily
    for n in 0..=3usize {
        for t in all_tabs(n) {
            for ty in ["D", "S"] {
                for op in ops {
                    p!(c, "{} {} {}", op, ty, t.show());
                }
            }
        }
    }
    let n4 = if c.thorough { 65536 } else { 600 };
    if n4 == 65536 {
        for t in all_tabs(4) {
            for op in ops {
                p!(c, "{} D {}", op, t.show());
            }
        }
    }
    let plan: Vec<(usize, usize)> = if c.thorough {
        vec![(4, 300), (5, 300), (6, 40), (7, 6), (8, 1)]
    } else {
        vec![(4, n4), (5, 60), (6, 6), (7, 1)]
    };
    // several-word tables with structure: a few literals ANDed / XORed, and tables with whole
    // words zero - on random tables a comparison that looks at one word only is right with
    // probability 1 - 2^-64 (seed C04-c: early exit when the low word of the best is zero)
    let cnt = if c.thorough { 60 } else { 14 };
    let saved_structured = c.enter("C04-structured");
    for n in 7..=9usize {
        for k in 0..cnt {
            let t = match k % 4 {
                0 | 1 => {
                    // AND (k%4==0) or XOR of 2..4 literals, the highest variable always among them
                    let nl = 2 + c.rng.below(3);
                    let mut vars = vec![n - 1 - c.rng.below(n - 6)];
                    while vars.len() < nl {
                        let v = c.rng.below(n);
                        if !vars.contains(&v) {
                            vars.push(v);
                        }
                    }
                    let pol: Vec<bool> = vars.iter().map(|_| c.rng.coin()).collect();
                    let is_and = k % 4 == 0;
                    Tab::from_fn(n, |m| {
                        let mut acc = is_and;
                        for (v, p) in vars.iter().zip(pol.iter()) {
                            let b = ((m >> v) & 1 != 0) != *p;
                            if is_and {
                                acc &= b;
                            } else {
                                acc ^= b;
                            }
                        }
                        acc
                    })
                }
                2 => {
                    // most words zero, the others sparse
                    let mut t = gen_tab(&mut c.rng, n);
                    for w in t.w.iter_mut() {
                        if c.rng.below(3) != 0 {
                            *w = 0;
                        } else {
                            *w &= c.rng.next() & c.rng.next();
                        }
                    }
                    t
                }
                _ => {
                    // one word carries a small function, all others zero
                    let mut t = Tab::zero(n);
                    let nw = t.w.len();
                    let q = c.rng.below(nw);
                    t.w[q] = [0x5555555555555555u64, 0x3333333333333333, 0x0f0f0f0f0f0f0f0f, 0x8000000000000000, 1, 0x6996966996696996][c.rng.below(6)];
                    t
                }
            };
            let ty = if c.rng.coin() { "S" } else { "D" };
            p!(c, "ncanon {} {}", ty, t.show());
            if n == 7 || (c.thorough && n == 8 && k % 6 == 0) {
                p!(c, "pcanon {} {}", ty, t.show());
            }
        }
    }
    c.leave(saved_structured);
    // NPN on two-word tables one of whose words is a symmetric function of six variables: the
    // candidates then tie on one word again and again, and the comparison has to go on to the
    // other word (seed C05-f: best updated, best index not, when the leading word ties; one
    // random table in a thousand shows it, one structured table in four)
    {
        let saved = c.enter("C04-sym6");
        let sym6: [u64; 5] = [0x6996966996696996, 0xfee8e880e8808000, 0x8000000000000000, 0xfffffffefffefee8, 0x0000000100010116];
        for j in 0..(if c.thorough { 16 } else { 6 }) {
            let w = c.rng.next();
            let s = sym6[j % 5];
            let t = if j % 2 == 0 { Tab::new(7, vec![w, s]) } else { Tab::new(7, vec![s, w & c.rng.next()]) };
            let ty = if j % 3 == 0 { "S" } else { "D" };
            p!(c, "npncanon {} {}", ty, t.show());
        }
        c.leave(saved);
    }
    // the ends of the walk: an input that IS its orbit's representative (best at the first step),
    // and the complement / the flipped image of one (best at the last steps); representatives by
    // the oracle's own enumeration of the orbit (seed C05-g: a fast path on the last walk step)
    {
        let saved = c.enter("C04-ends");
        let plan2: Vec<(usize, usize)> = if c.thorough { vec![(4, 60), (5, 12), (6, 2)] } else { vec![(4, 24), (5, 4), (6, 1)] };
        for (n, cnt) in plan2 {
            for _ in 0..cnt {
                let f = gen_tab(&mut c.rng, n);
                let ty = if c.rng.coin() { "D" } else { "S" };
                let inv = |t: &Tab| Tab::from_fn(n, |m| !t.bit(m));
                let allflip = |t: &Tab| Tab::from_fn(n, |m| t.bit(m ^ ((1usize << n) - 1)));
                let npn = crate::oracle::orbit_min(&f, true, true);
                for t in [npn.clone(), inv(&npn), allflip(&npn), inv(&allflip(&npn))] {
                    p!(c, "npncanon {} {}", ty, t.show());
                }
                let nrep = crate::oracle::orbit_min(&f, false, true);
                for t in [nrep.clone(), inv(&nrep), allflip(&nrep)] {
                    p!(c, "ncanon {} {}", ty, t.show());
                }
                let prep = crate::oracle::orbit_min(&f, true, false);
                p!(c, "pcanon {} {}", ty, prep.show());
                let rev = Tab::from_fn(n, |m| {
                    // variables in reverse order
                    let mut x = 0usize;
                    for i in 0..n {
                        x |= ((m >> i) & 1) << (n - 1 - i);
                    }
                    prep.bit(x)
                });
                p!(c, "pcanon {} {}", ty, rev.show());
            }
        }
        c.leave(saved);
    }
    {
        // named functions at every size: constants, projections, parity, AND / OR of all
        // inputs, one minterm (seed C04-j: P canonization of the constant one panics for n >= 6)
        let saved = c.enter("C04-named");
        for n in 4..=8usize {
            let tabs: Vec<Tab> = vec![
                Tab::zero(n),
                Tab::from_fn(n, |_| true),
                Tab::from_fn(n, |m| m & 1 != 0),
                Tab::from_fn(n, |m| (m >> (n - 1)) & 1 != 0),
                Tab::from_fn(n, |m| m.count_ones() % 2 == 1),
                Tab::from_fn(n, |m| m == (1 << n) - 1),
                Tab::from_fn(n, |m| m != 0),
                Tab::from_fn(n, |m| m == 0),
                Tab::from_fn(n, |m| m != (1 << n) - 2),
            ];
            for (ti, t) in tabs.iter().enumerate() {
                for (yi, ty) in ["D", "S"].iter().enumerate() {
                    for op in ops {
                        if n >= 8 && op == "npncanon" && !c.thorough {
                            continue;
                        }
                        // the model needs seconds for an NPN walk of 7 variables: types alternate
                        if n == 7 && op == "npncanon" && !c.thorough && (ti + yi) % 2 == 1 {
                            continue;
                        }
                        p!(c, "{} {} {}", op, ty, t.show());
                    }
                }
            }
        }
        c.leave(saved);
    }
    {
        // functions of few variables embedded in 7 or 8: unused variables, no symmetry (seed C05-j:
        // a fast path that canonizes on the support and composes the certificate the wrong way round)
        let saved = c.enter("C04-embedded");
        for n in 7..=8usize {
            for k in 0..(if c.thorough { 16 } else { 6 }) {
                let sup = 3 + k % 3;
                let mut vars: Vec<usize> = Vec::new();
                while vars.len() < sup {
                    let v = c.rng.below(n);
                    if !vars.contains(&v) {
                        vars.push(v);
                    }
                }
                let g = c.rng.next();
                let t = Tab::from_fn(n, |m| {
                    let mut idx = 0usize;
                    for (j, v) in vars.iter().enumerate() {
                        idx |= ((m >> v) & 1) << j;
                    }
                    (g >> idx) & 1 != 0
                });
                let ty = if k % 2 == 0 { "D" } else { "S" };
                for op in ops {
                    if n >= 8 && op == "npncanon" && !c.thorough {
                        continue;
                    }
                    p!(c, "{} {} {}", op, ty, t.show());
                }
            }
        }
        c.leave(saved);
    }
    {
        // functions invariant under a subgroup of the permutations - rotation of the variables by
        // one or two places, reversal, one transposition - but not totally symmetric: XOR / OR of
        // the images of a random sparse function (seed C04-l: an early exit of the P walk that
        // takes rotation invariance for symmetry; 16 of the 65536 functions of 4 variables)
        let saved = c.enter("C04-invariant");
        for n in 4..=8usize {
            for k in 0..(if c.thorough { 16 } else { 8 }) {
                let g = Tab::from_fn(n, |_| false);
                let mut g = g;
                for _ in 0..(1 + c.rng.below(3)) {
                    let m = c.rng.below(1 << n);
                    g.w[m >> 6] |= 1 << (m & 63);
                }
                let sigma: Vec<usize> = match k % 4 {
                    0 => (0..n).map(|i| (i + 1) % n).collect(),
                    1 => (0..n).map(|i| (i + 2) % n).collect(),
                    2 => (0..n).map(|i| n - 1 - i).collect(),
                    _ => (0..n).map(|i| if i == 0 { 1 } else if i == 1 { 0 } else { i }).collect(),
                };
                let use_or = k % 8 < 4;
                // images of g under the powers of sigma
                let mut acc = g.clone();
                let mut cur = g.clone();
                for _ in 0..n {
                    let prev = cur.clone();
                    cur = Tab::from_fn(n, |m| {
                        let mut x = 0usize;
                        for i in 0..n {
                            x |= ((m >> i) & 1) << sigma[i];
                        }
                        prev.bit(x)
                    });
                    for (a, b) in acc.w.iter_mut().zip(cur.w.iter()) {
                        if use_or { *a |= *b } else { *a ^= *b }
                    }
                }
                let ty = if k % 2 == 0 { "D" } else { "S" };
                for op in ops {
                    if n >= 8 && op == "npncanon" && !c.thorough {
                        continue;
                    }
                    if n == 7 && op == "npncanon" && !c.thorough && k % 4 != 0 {
                        continue;
                    }
                    p!(c, "{} {} {}", op, ty, acc.show());
                }
            }
        }
        c.leave(saved);
    }
    {
        // NPN canonization of 8 variables (20 million steps): the model cannot follow it in the
        // quick tier, so these lines are judged by the oracle only there - one orbit, one
        // representative, no sampled orbit member smaller, certificate replays (seed C04-k: only
        // n = 8, only NPN, functions like NOR2 and !xa & g)
        let saved = c.enter("C04-npn8");
        let cnt = if c.thorough { 32 } else { 10 };
        for k in 0..cnt {
            let n = 8usize;
            let t = match k % 5 {
                0 => {
                    let a = c.rng.below(n);
                    let mut b = c.rng.below(n);
                    if a == b { b = (a + 1) % n; }
                    Tab::from_fn(n, |m| (m >> a) & 1 == 0 && (m >> b) & 1 == 0)
                }
                1 | 2 => {
                    let a = c.rng.below(n);
                    let g = gen_tab(&mut c.rng, n);
                    let inv = k % 5 == 1;
                    Tab::from_fn(n, |m| (((m >> a) & 1 != 0) != inv) && g.bit(m & !(1 << a)))
                }
                3 => {
                    let vars: Vec<usize> = (0..4).map(|_| c.rng.below(n)).collect();
                    let g = c.rng.next();
                    Tab::from_fn(n, |m| {
                        let mut idx = 0usize;
                        for (j, v) in vars.iter().enumerate() { idx |= ((m >> v) & 1) << j; }
                        (g >> idx) & 1 != 0
                    })
                }
                _ => gen_tab(&mut c.rng, n),
            };
            p!(c, "npnorbit {} {} {:x}", if k % 2 == 0 { "D" } else { "S" }, t.show(), c.rng.next());
        }
        c.leave(saved);
    }
    {
        // P canonization of 8 variables is cheap (40320 swaps): both types, in every tier
        let saved = c.enter("C04-p8");
        for k in 0..4 {
            let t = if k % 2 == 0 { gen_tab(&mut c.rng, 8) } else { Tab::from_fn(8, |m| (m >> 7) & 1 != 0 && (m & 5) == 4) };
            let t = if k == 3 { Tab::from_fn(8, |m| (m.count_ones() + (m >> 7) as u32) % 3 == 0) } else { t };
            p!(c, "pcanon D {}", t.show());
            p!(c, "pcanon S {}", t.show());
        }
        c.leave(saved);
    }
    for (n, cnt) in plan {
        for k in 0..cnt {
            let mut t = gen_tab(&mut c.rng, n);
            let ty = if c.rng.coin() { "D" } else { "S" };
            if k % 3 == 0 {
                // make sure canonical inputs occur: low-valued tables are often their own minimum
                for w in t.w.iter_mut().rev().take(1) {
                    *w &= c.rng.next() & c.rng.next() & c.rng.next();
                }
            }
            for op in ops {
                if n >= 8 && op == "npncanon" && !c.thorough {
                    continue;
                }
                p!(c, "{} {} {}", op, ty, t.show());
            }
        }
    }
}

pub fn gen_c10(c: &mut Ctx) {
    let reps = if c.thorough { 10 } else { 3 };
    for n in 0..=12usize {
        for _ in 0..reps {
            let a = gen_tab(&mut c.rng, n);
            p!(c, "s2d {}", a.show());
            p!(c, "d2s {} {}", n, a.show());
            let m = (n + 1 + c.rng.below(12)) % 13;
            if m != n {
                p!(c, "d2s {} {}", m, a.show());
            }
            if (3..=6).contains(&n) {
                p!(c, "toint {}", a.show());
                p!(c, "fromint {} {:x}", n, a.w[0]);
            }
        }
    }
    for n in 3..=6usize {
        for _ in 0..(if c.thorough { 200 } else { 40 }) {
            let v = c.rng.next() & mask_of(n);
            p!(c, "fromint {} {:x}", n, v);
            // tables with garbage above 2^n: conversion out must mask
            let g = c.rng.next();
            p!(c, "toint {}:{:x}", n, g);
        }
    }
    // paired lines: the oracle runs each on both types
    let mut sub = Ctx { rng: c.rng.clone(), seed: c.seed, thorough: false, out: Vec::new() };
    gen_c01(&mut sub);
    gen_c03(&mut sub);
    gen_c06(&mut sub);
    gen_c07(&mut sub);
    gen_c08(&mut sub);
    gen_c09(&mut sub);
    gen_c11(&mut sub);
    // canonization: representatives and certificates of both types (seed C10-j: a walk cache shared
    // by all LutN sizes)
    gen_c04(&mut sub);
    // every line: sampling the paired lines made the detection of type-specific changes depend on
    // which lines happened to be kept (seeded changes C10-a, C10-c were caught or missed by luck)
    let keep_every = 1;
    let mut k = 0usize;
    for l in sub.out {
        let t: Vec<&str> = l.split_whitespace().collect();
        if t.len() > 1 && t[1] == "S" {
            k += 1;
            // comparisons are cheap and order bugs need particular pairs: keep them all
            if k % keep_every == 0 || t[0] == "cmp" {
                c.push(l);
            }
        }
    }
    for n in 0..=14usize {
        for ty in types_for(n) {
            let a = gen_tab(&mut c.rng, n);
            p!(c, "linfo {} {}", ty, a.show());
            let m = c.rng.below(1 << n);
            p!(c, "get {} {} {}", ty, a.show(), m);
        }
    }
    for n in 0..=5usize {
        for _ in 0..(if c.thorough { 30 } else { 6 }) {
            let a = gen_tab(&mut c.rng, n);
            for op in ["pcanon", "ncanon", "npncanon"] {
                p!(c, "{} S {}", op, a.show());
            }
        }
    }
    c.rng = sub.rng;
}

fn hist_token(r: &mut Rng, n: usize, allow_canon: bool) -> String {
    let d = r.below(4);
    let a = r.below(4);
    let b = r.below(4);
    let nbits = 1usize << n;
    loop {
        let k = r.below(32);
        let tok = match k {
            30 | 31 => {
                // conversion from a dynamic table: same size (accepted) or another size
                // (must be refused and leave the register alone), dense words
                let n2 = if r.coin() { n } else { r.below(9) };
                let t = gen_dense(r, n2);
                format!("conv,{},{},{}", d, n2, show_words(&t.w).replace(',', ";"))
            }
            0 => format!("zero,{}", d),
            1 => format!("one,{}", d),
            2 if n > 0 => format!("nth,{},{}", d, r.below(n)),
            3 => format!("parity,{}", d),
            4 => format!("maj,{}", d),
            5 => format!("thr,{},{}", d, r.below(n + 3)),
            6 => format!("equ,{},{}", d, r.below(n + 3)),
            7 => format!("sym,{},{:x}", d, r.next()),
            8 => {
                let t = gen_tab(r, n);
                format!("blk,{},{}", d, show_words(&t.w).replace(',', ";"))
            }
            9 => {
                let t = gen_tab(r, n);
                let mut s = hexstr_of(&t);
                if r.below(4) == 0 {
                    // sometimes not parseable: register must stay as it is
                    s = match r.below(3) {
                        0 => format!("+{}", &s[1..]),
                        1 => "f".repeat(s.len()),
                        _ => s[1..].to_string(),
                    };
                }
                format!("hex,{},{}", d, show_bytes(s.as_bytes()))
            }
            10 => format!("mov,{},{}", d, a),
            11 | 12 => format!("not,{},{}", d, a),
            13 => format!("and,{},{},{}", d, a, b),
            14 => format!("or,{},{},{}", d, a, b),
            15 | 16 => format!("xor,{},{},{}", d, a, b),
            17 | 18 if n > 0 => format!("flip,{},{},{}", d, a, r.below(n)),
            19 | 20 if n > 0 => format!("swap,{},{},{},{}", d, a, r.below(n), r.below(n)),
            21 if n > 1 => format!("swadj,{},{},{}", d, a, r.below(n - 1)),
            22 if n > 0 => format!("cof0,{},{},{}", d, a, r.below(n)),
            23 if n > 0 => format!("cof1,{},{},{}", d, a, r.below(n)),
            24 if n > 0 => format!("fromcof,{},{},{},{}", d, a, b, r.below(n)),
            25 => format!("setbit,{},{},{}", d, a, r.below(nbits)),
            26 => format!("unsetbit,{},{},{}", d, a, r.below(nbits)),
            27 if allow_canon => format!("{},{},{}", r.pick(&["pcanon", "ncanon", "npncanon"]), d, a),
            28 => format!("next,{},{}", d, a),
            29 if n <= 8 => format!("{},{},{}", r.pick(&["fromsop", "fromesop"]), d, a),
            _ => continue,
        };
        return tok;
    }
}

pub fn gen_c02(c: &mut Ctx) {
    gen_itera(c);
    // clone_from: destination and source of the same and of different sizes
    {
        let saved = c.enter("C02-clonefrom");
        for n1 in 0..=8usize {
            for n2 in 0..=8usize {
                let a = gen_tab(&mut c.rng, n1);
                let b = gen_dense(&mut c.rng, n2);
                p!(c, "clonefrom D {} {}", a.show(), b.show());
                if n1 == n2 {
                    p!(c, "clonefrom S {} {}", a.show(), b.show());
                }
            }
        }
        c.leave(saved);
    }
    // equal pairs of every size, both types (the runner observes the operands between comparisons)
    {
        let saved = c.enter("C02-equal-pairs");
        for n in 0..=10usize {
            for ty in types_for(n) {
                for _ in 0..2 {
                    let a = gen_tab(&mut c.rng, n);
                    p!(c, "eq {} {} {}", ty, a.show(), a.show());
                    p!(c, "cmp {} {} {}", ty, a.show(), a.show());
                    let mut b = a.clone();
                    let k = c.rng.below(b.w.len());
                    b.w[k] ^= 1;
                    p!(c, "eq {} {} {}", ty, a.show(), b.show());
                    if b.w.len() >= 2 {
                        // two blocks changed by the same word: the differences cancel under XOR
                        // (seed C02-n: an equality that accumulates diff ^= t1 ^ t2)
                        let mut d = a.clone();
                        let w = c.rng.next() | 1;
                        let k2 = (k + 1) % d.w.len();
                        d.w[k] ^= w;
                        d.w[k2] ^= w;
                        p!(c, "eq {} {} {}", ty, a.show(), d.show());
                        p!(c, "cmp {} {} {}", ty, a.show(), d.show());
                        let nota = Tab::new(n, a.w.iter().map(|x| !x).collect());
                        p!(c, "eq {} {} {}", ty, a.show(), nota.show());
                    }
                }
            }
        }
        c.leave(saved);
    }
    // tables that come out of the two-level forms (seed C02-k: a word-level tabulation of Soes that
    // writes a full word for the constant-one term at n <= 5)
    {
        let saved = c.enter("C02-forms");
        for n in 0..=8usize {
            for what in ["sop", "esop"] {
                p!(c, "{} tolut {} -", what, n);
                p!(c, "{} tolut {} 0/0", what, n);
                p!(c, "{} tolut {} 0/0,0/0", what, n);
                for _ in 0..3 {
                    let a = rand_cube_list(&mut c.rng, n, 4);
                    p!(c, "{} tolut {} {}", what, n, scl(&a));
                    let mut b = a.clone();
                    b.push((0, 0));
                    p!(c, "{} tolut {} {}", what, n, scl(&b));
                }
            }
            p!(c, "soes tolut {} -", n);
            p!(c, "soes tolut {} 0/1", n);
            p!(c, "soes tolut {} 0/0", n);
            p!(c, "soes tolut {} 0/0,0/1", n);
            for _ in 0..4 {
                let k = 1 + c.rng.below(3);
                let mut l: Vec<String> = Vec::new();
                for _ in 0..k {
                    let v = if n == 0 { 0 } else { c.rng.next() as u32 & ((1u32 << n) - 1) };
                    l.push(format!("{:x}/{}", v, c.rng.below(2)));
                }
                p!(c, "soes tolut {} {}", n, l.join(","));
                l.push("0/1".to_string());
                p!(c, "soes tolut {} {}", n, l.join(","));
            }
        }
        c.leave(saved);
    }
    // values of different sizes never compare equal, whatever their blocks are
    for n1 in 0..=7usize {
        for n2 in 0..=7usize {
            if n1 != n2 {
                let lo = n1.min(n2);
                let w = c.rng.next() & mask_of(lo);
                let mut a = Tab::zero(n1);
                let mut b = Tab::zero(n2);
                a.w[0] = w;
                b.w[0] = w;
                p!(c, "cmp D {} {}", a.show(), b.show());
                p!(c, "eq D {} {}", a.show(), b.show());
                p!(c, "cmp D {} {}", Tab::zero(n1).show(), Tab::zero(n2).show());
                p!(c, "eq D {} {}", Tab::zero(n1).show(), Tab::zero(n2).show());
            }
        }
    }
    // the successor of the all-ones table and of its neighbours, every size and type (seed C02-i:
    // a roll-back mask wrong at exactly n = 5)
    for n in 0..=12usize {
        for ty in types_for(n) {
            p!(c, "hist {} {} one,0 next,1,0 next,2,1 not,3,0 next,3,3", ty, n);
        }
    }
    let per_n = if c.thorough { 120 } else { 24 };
    for n in 0..=12usize {
        for ty in types_for(n) {
            let cnt = if n <= 8 { per_n } else { per_n / 3 };
            for _ in 0..cnt {
                let len = 1 + c.rng.below(12);
                let toks: Vec<String> = (0..len).map(|_| hist_token(&mut c.rng, n, n <= 5)).collect();
                p!(c, "hist {} {} {}", ty, n, toks.join(" "));
            }
        }
    }
}

// ---------------------------------------------------------------- two-level forms

fn rand_cube(r: &mut Rng, n: usize) -> (u32, u32) {
    let mut p = 0u32;
    let mut q = 0u32;
    for v in 0..n {
        match r.below(3) {
            0 => p |= 1 << v,
            1 => q |= 1 << v,
            _ => {}
        }
    }
    (p, q)
}

fn rand_cube_sparse(r: &mut Rng, n: usize) -> (u32, u32) {
    let mut p = 0u32;
    let mut q = 0u32;
    let k = r.below(4);
    for _ in 0..k {
        let v = r.below(n.max(1));
        if v < n {
            if r.coin() {
                p |= 1 << v;
                q &= !(1 << v);
            } else {
                q |= 1 << v;
                p &= !(1 << v);
            }
        }
    }
    (p, q)
}

fn all_cubes(n: usize) -> Vec<(u32, u32)> {
    let mx = 1u32 << n;
    let mut v = vec![];
    for p in 0..mx {
        for q in 0..mx {
            if p & q == 0 {
                v.push((p, q));
            }
        }
    }
    v.push((!0, !0));
    v
}

fn sc(c: (u32, u32)) -> String {
    format!("{:x}/{:x}", c.0, c.1)
}

pub fn gen_c12(c: &mut Ctx) {
    let nmax = if c.thorough { 4 } else { 3 };
    for n in 0..=nmax {
        let cubes = all_cubes(n);
        for a in &cubes {
            p!(c, "cube info {}", sc(*a));
            p!(c, "cube isconstant {}", sc(*a));
            p!(c, "cube display {}", sc(*a));
            for m in 0..(1usize << n) {
                p!(c, "cube value {} {:x}", sc(*a), m);
            }
            for b in &cubes {
                p!(c, "cube and {} {}", sc(*a), sc(*b));
                p!(c, "cube implies {} {}", sc(*a), sc(*b));
                p!(c, "cube intersects {} {}", sc(*a), sc(*b));
            }
        }
    }
    // n = 5 (and 4 in quick): sampled pairs
    for n in (nmax + 1)..=5 {
        let cubes = all_cubes(n);
        let cnt = if c.thorough { 20000 } else { 1500 };
        for _ in 0..cnt {
            let a = *c.rng.pick(&cubes);
            let b = *c.rng.pick(&cubes);
            p!(c, "cube and {} {}", sc(a), sc(b));
            p!(c, "cube implies {} {}", sc(a), sc(b));
            p!(c, "cube intersects {} {}", sc(a), sc(b));
            p!(c, "cube value {} {:x}", sc(a), c.rng.below(1 << n));
        }
    }
    for n in 0..=(if c.thorough { 6 } else { 5 }) {
        p!(c, "cube all {}", n);
        if n == 0 {
            gen_alla(c, "cube", 4, &|n| 3usize.pow(n as u32));
        }
    }
    // implies_lut: all cubes x functions for n <= 2 (quick), sampled for 3, 4
    for n in 0..=4usize {
        let cubes = all_cubes(n);
        let cnt = if n <= 2 { usize::MAX } else if c.thorough { 4000 } else { 300 };
        if cnt == usize::MAX {
            for t in all_tabs(n) {
                for a in &cubes {
                    p!(c, "cube implieslut {} {}", sc(*a), t.show());
                }
            }
        } else {
            for _ in 0..cnt {
                let a = *c.rng.pick(&cubes);
                let t = gen_tab(&mut c.rng, n);
                p!(c, "cube implieslut {} {}", sc(a), t.show());
            }
        }
    }
    // the same table words at two sizes, one call after the other: an implicant of g over a
    // variables, then that cube with the literal x_a added against g embedded in b > a variables
    // (which is false wherever x_a is true) - seed C12-n: a memo of the last function's off-set
    // keyed by its blocks without the size; also sizes 5 .. 8 for implies_lut itself
    {
        let saved = c.enter("C12-implieslut-sizes");
        for a in 1..=6usize {
            for b in (a + 1)..=7usize {
                for _ in 0..2 {
                    let g = gen_tab(&mut c.rng, a);
                    let ones: Vec<usize> = (0..(1usize << a)).filter(|m| g.bit(*m)).collect();
                    if ones.is_empty() {
                        continue;
                    }
                    let m = *c.rng.pick(&ones) as u32;
                    let tot = (1u32 << a) - 1;
                    let c1 = (m & tot, !m & tot);
                    let c2 = (c1.0 | (1 << a), c1.1);
                    let mut gb = Tab::zero(b);
                    gb.w[0] = g.w[0];
                    p!(c, "seq cube implieslut {} {} ;; cube implieslut {} {}", sc(c1), g.show(), sc(c2), gb.show());
                    p!(c, "seq cube implieslut {} {} ;; cube implieslut {} {}", sc(c2), gb.show(), sc(c1), g.show());
                    p!(c, "seq cube implieslut {} {} ;; cube implieslut {} {}", sc(c1), g.show(), sc(c1), gb.show());
                }
            }
        }
        for n in 5..=8usize {
            for _ in 0..20 {
                let t = gen_tab(&mut c.rng, n);
                let a = if c.rng.coin() { rand_cube(&mut c.rng, n) } else { rand_cube_sparse(&mut c.rng, n) };
                p!(c, "cube implieslut {} {}", sc(a), t.show());
            }
        }
        c.leave(saved);
    }
    // up to 32 variables, 32-bit assignments
    let cnt = if c.thorough { 20000 } else { 2000 };
    for _ in 0..cnt {
        let n = 1 + c.rng.below(32);
        let a = if c.rng.coin() { rand_cube(&mut c.rng, n) } else { rand_cube_sparse(&mut c.rng, n) };
        let b = if c.rng.coin() { rand_cube(&mut c.rng, n) } else { rand_cube_sparse(&mut c.rng, n) };
        let m = c.rng.next() as u32;
        // an assignment that satisfies a, and near misses
        let sat = (a.0 | (m & !a.1)) as usize;
        p!(c, "cube value {} {:x}", sc(a), m);
        p!(c, "cube value {} {:x}", sc(a), sat);
        p!(c, "cube value {} {:x}", sc(a), sat ^ (1usize << c.rng.below(32)));
        p!(c, "cube and {} {}", sc(a), sc(b));
        p!(c, "cube implies {} {}", sc(a), sc(b));
        p!(c, "cube implies {} {}", sc((a.0 | b.0, (a.1 | b.1) & !(a.0 | b.0))), sc(b));
        p!(c, "cube intersects {} {}", sc(a), sc(b));
        p!(c, "cube info {}", sc(a));
        p!(c, "cube frommask {:x} {:x}", c.rng.next() as u32 & c.rng.next() as u32, c.rng.next() as u32 & c.rng.next() as u32);
        p!(c, "cube frommask {:x} {:x}", a.0, a.1);
    }
    for n in 0..=32usize {
        for _ in 0..(if c.thorough { 30 } else { 6 }) {
            let m = c.rng.next() as u32;
            p!(c, "cube minterm {} {:x}", n, m);
        }
        p!(c, "cube minterm {} 0", n);
        p!(c, "cube minterm {} ffffffff", n);
    }
    for v in 0..32usize {
        p!(c, "cube nthvar {} 0", v);
        p!(c, "cube nthvar {} 1", v);
    }
    for _ in 0..(if c.thorough { 2000 } else { 300 }) {
        let np = c.rng.below(4);
        let nn = c.rng.below(4);
        let p: Vec<usize> = (0..np).map(|_| c.rng.below(32)).collect();
        let q: Vec<usize> = (0..nn).map(|_| c.rng.below(32)).collect();
        p!(c, "cube fromvars {} {}", show_nats(&p), show_nats(&q));
    }
    // equality and order of cubes (derived: lexicographic on (pos, neg)) over the 32-variable range
    {
        let saved = c.enter("C12-cmp");
        for k in 0..(if c.thorough { 200 } else { 40 }) {
            let p0 = (c.rng.next() & c.rng.next()) as u32;
            let q0 = (c.rng.next() & c.rng.next()) as u32 & !p0;
            let (p0, q0) = if k % 5 == 0 { (0u32, 0u32) } else { (p0, q0) };
            for bit in [0usize, 15, 30, 31] {
                let m = 1u32 << bit;
                if (p0 | q0) & m == 0 {
                    p!(c, "cube cmp {} {}", sc((p0, q0)), sc((p0 | m, q0)));
                    p!(c, "cube cmp {} {}", sc((p0, q0 | m)), sc((p0, q0)));
                    p!(c, "cube cmp {} {}", sc((p0 | m, q0)), sc((p0, q0 | m)));
                }
            }
            p!(c, "cube cmp {} {}", sc((p0, q0)), sc((p0, q0)));
        }
        c.leave(saved);
    }
    // literal and gate counts at the top of the range: cubes with 30, 31 and 32 literals (seed
    // C12-j: a count threshold that takes a 32-literal cube for the contradictory one)
    {
        let saved = c.enter("C12-fullcubes");
        for k in 0..(if c.thorough { 40 } else { 10 }) {
            let p0 = c.rng.next() as u32;
            let q0 = !p0;
            p!(c, "cube info {}", sc((p0, q0)));
            p!(c, "cube display {}", sc((p0, q0)));
            let drop = 1u32 << c.rng.below(32);
            p!(c, "cube info {}", sc((p0 & !drop, q0 & !drop)));
            let drop2 = drop | (1u32 << c.rng.below(32));
            p!(c, "cube info {}", sc((p0 & !drop2, q0 & !drop2)));
            p!(c, "cube minterm 32 {:x}", p0);
            if k == 0 {
                p!(c, "cube info {}", sc((!0u32, 0)));
                p!(c, "cube info {}", sc((0, !0u32)));
            }
        }
        c.leave(saved);
    }
}

fn se(e: (u32, bool)) -> String {
    format!("{:x}/{}", e.0, show_bool(e.1))
}

fn rand_ecubes(r: &mut Rng, n: usize, k: usize) -> Vec<(u32, bool)> {
    (0..k).map(|_| ((r.next() as u32) & (mask_of_vars(n)), r.coin())).collect()
}

fn mask_of_vars(n: usize) -> u32 {
    if n >= 32 {
        !0
    } else {
        (1u32 << n) - 1
    }
}

/// lists of more than 64 terms (with repetitions) for the conversions and evaluations of the
/// two-level forms (seed C13-l: tabulation in chunks of 64 terms with scratch that is not reset)
fn gen_long_lists(c: &mut Ctx, what: &str) {
    let saved = c.enter(&format!("long-{}", what));
    for n in 1..=6usize {
        for len in [64usize, 65, 70, 128, 129, 200] {
            let pool_size = 1 + c.rng.below(6);
            let mask = (1u32 << n) - 1;
            let pool: Vec<String> = (0..pool_size)
                .map(|_| {
                    if what == "soes" {
                        format!("{:x}/{}", c.rng.next() as u32 & mask, c.rng.below(2))
                    } else {
                        let p = c.rng.next() as u32 & c.rng.next() as u32 & mask;
                        let q = c.rng.next() as u32 & c.rng.next() as u32 & mask & !p;
                        format!("{:x}/{:x}", p, q)
                    }
                })
                .collect();
            let l: Vec<String> = (0..len).map(|_| c.rng.pick(&pool).clone()).collect();
            let j = l.join(",");
            p!(c, "{} tolut {} {}", what, n, j);
            p!(c, "{} info {} {}", what, n, j);
            p!(c, "{} value {} {} {:x}", what, n, j, c.rng.below(1 << n));
            // the operators on long lists (seed C15-l: a clean-up that only runs above 64 cubes)
            let half: Vec<String> = (0..len / 2 + 1).map(|_| c.rng.pick(&pool).clone()).collect();
            let h = half.join(",");
            let op = match what { "esop" => "xor", _ => "or" };
            p!(c, "{} {} {} {} {}", what, op, n, j, h);
            p!(c, "{} {} {} {} {}", what, op, n, h, h);
            p!(c, "{} {} {} {} {}", what, op, n, j, j);
            if what == "esop" {
                p!(c, "esop not {} {}", n, j);
            }
        }
    }
    c.leave(saved);
}

pub fn gen_c13(c: &mut Ctx) {
    gen_long_lists(c, "soes");
    // the small constructors
    for ty in ["ecube", "soes"] {
        for n in [0usize, 1, 3, 12, 32] {
            for name in ["zero", "one"] {
                p!(c, "fctor {} {} {} 0", ty, name, n);
            }
            for v in 0..n.min(32) {
                if v < 4 || v + 2 >= n {
                    p!(c, "fctor {} nthvar {} {}", ty, n, v);
                    p!(c, "fctor {} nthvarinv {} {}", ty, n, v);
                }
            }
        }
    }
    let nmax = if c.thorough { 5 } else { 4 };
    for n in 0..=nmax {
        let mx = 1u32 << n;
        let all: Vec<(u32, bool)> = (0..mx).flat_map(|v| [(v, false), (v, true)]).collect();
        for a in &all {
            p!(c, "ecube info {}", se(*a));
            p!(c, "ecube display {}", se(*a));
            p!(c, "ecube not {}", se(*a));
            for m in 0..(1usize << n) {
                p!(c, "ecube value {} {:x}", se(*a), m);
            }
            for b in &all {
                p!(c, "ecube xor {} {}", se(*a), se(*b));
            }
        }
        p!(c, "ecube all {}", n);
        if n == 0 {
            gen_alla(c, "ecube", 5, &|n| 2usize << n);
        }
    }
    let cnt = if c.thorough { 20000 } else { 2000 };
    for _ in 0..cnt {
        let a = (c.rng.next() as u32, c.rng.coin());
        let b = (c.rng.next() as u32 & c.rng.next() as u32, c.rng.coin());
        let m = c.rng.next() as u32;
        p!(c, "ecube value {} {:x}", se(a), m);
        p!(c, "ecube value {} {:x}", se(b), m);
        p!(c, "ecube xor {} {}", se(a), se(b));
        p!(c, "ecube not {}", se(a));
        p!(c, "ecube info {}", se(b));
    }
    for _ in 0..(if c.thorough { 1000 } else { 200 }) {
        let k = c.rng.below(5);
        let p: Vec<usize> = (0..k).map(|_| c.rng.below(32)).collect();
        p!(c, "ecube fromvars {} {}", show_nats(&p), show_bool(c.rng.coin()));
    }
    for n in 0..=3usize {
        let mx = 1u32 << n;
        for t in if n <= 2 { all_tabs(n) } else { (0..60).map(|_| gen_tab(&mut c.rng, n)).collect() } {
            for v in 0..mx {
                for x in [false, true] {
                    p!(c, "ecube implieslut {} {}", se((v, x)), t.show());
                }
            }
        }
    }
    // Soes: up to 4 terms over n <= 4 (sampled exhaustively in thorough), random up to n = 8
    for n in 0..=8usize {
        let cnt = if n <= 4 { if c.thorough { 600 } else { 80 } } else if c.thorough { 100 } else { 20 };
        for _ in 0..cnt {
            let ka = c.rng.below(5);
            let kb = c.rng.below(4);
            let a = rand_ecubes(&mut c.rng, n, ka);
            let b = rand_ecubes(&mut c.rng, n, kb);
            let sa: Vec<String> = a.iter().map(|e| se(*e)).collect();
            let sb: Vec<String> = b.iter().map(|e| se(*e)).collect();
            let ja = if sa.is_empty() { "-".to_string() } else { sa.join(",") };
            let jb = if sb.is_empty() { "-".to_string() } else { sb.join(",") };
            p!(c, "soes tolut {} {}", n, ja);
            p!(c, "soes info {} {}", n, ja);
            p!(c, "soes display {} {}", n, ja);
            p!(c, "soes or {} {} {}", n, ja, jb);
            // the same object on both sides (the runner then also evaluates `&a | &a`)
            p!(c, "soes or {} {} {}", n, ja, ja);
            let m = c.rng.below(1 << n);
            p!(c, "soes value {} {} {:x}", n, ja, m);
        }
    }
    // equality and order of exclusive cubes over the whole 32-variable range: equal pairs, pairs
    // differing in one variable (0, 15, 30, 31), in the polarity only, in both (seed C13-i: a packed
    // comparison key that shifts variable 31 out)
    {
        let saved = c.enter("C13-cmp");
        for k in 0..(if c.thorough { 200 } else { 40 }) {
            let v = match k % 4 {
                0 => c.rng.next() as u32,
                1 => (c.rng.next() & c.rng.next() & c.rng.next()) as u32,
                2 => 1u32 << c.rng.below(32),
                _ => 0,
            };
            let x = c.rng.coin();
            for bit in [0usize, 15, 30, 31] {
                p!(c, "ecube cmp {} {}", se((v, x)), se((v ^ (1u32 << bit), x)));
                p!(c, "ecube cmp {} {}", se((v ^ (1u32 << bit), !x)), se((v, x)));
            }
            p!(c, "ecube cmp {} {}", se((v, x)), se((v, x)));
            p!(c, "ecube cmp {} {}", se((v, x)), se((v, !x)));
            let w = c.rng.next() as u32;
            p!(c, "ecube cmp {} {}", se((v, x)), se((w, c.rng.coin())));
        }
        c.leave(saved);
    }
}

fn rand_cube_list(r: &mut Rng, n: usize, kmax: usize) -> Vec<(u32, u32)> {
    let k = r.below(kmax + 1);
    let mut l: Vec<(u32, u32)> = Vec::new();
    for _ in 0..k {
        let cu = match r.below(6) {
            0 if !l.is_empty() => *r.pick(&l), // duplicate
            1 if !l.is_empty() => {
                // a cube implied by / implying an earlier one
                let b = *r.pick(&l);
                let e = rand_cube_sparse(r, n);
                let p = b.0 | e.0;
                let q = (b.1 | e.1) & !p;
                (p, q)
            }
            2 => rand_cube_sparse(r, n),
            _ => rand_cube(r, n),
        };
        l.push(cu);
    }
    l
}

fn scl(l: &[(u32, u32)]) -> String {
    if l.is_empty() {
        "-".to_string()
    } else {
        l.iter().map(|x| sc(*x)).collect::<Vec<_>>().join(",")
    }
}

pub fn gen_c14(c: &mut Ctx) {
    gen_long_lists(c, "sop");
    // the small constructors
    for ty in ["sop"] {
        for n in [0usize, 1, 3, 12, 32] {
            for name in ["zero", "one"] {
                p!(c, "fctor {} {} {} 0", ty, name, n);
            }
            for v in 0..n.min(32) {
                if v < 4 || v + 2 >= n {
                    p!(c, "fctor {} nthvar {} {}", ty, n, v);
                    p!(c, "fctor {} nthvarinv {} {}", ty, n, v);
                }
            }
        }
    }
    // exhaustive pairs of short cube lists for n <= 2 (quick), random and redundant up to n = 10
    for n in 0..=(if c.thorough { 3 } else { 2 }) {
        let cubes: Vec<(u32, u32)> = all_cubes(n).into_iter().filter(|x| x.0 & x.1 == 0).collect();
        let mut lists: Vec<Vec<(u32, u32)>> = vec![vec![]];
        for a in &cubes {
            lists.push(vec![*a]);
        }
        if n <= 2 {
            for a in &cubes {
                for b in &cubes {
                    lists.push(vec![*a, *b]);
                }
            }
        }
        for a in &lists {
            p!(c, "sop not {} {}", n, scl(a));
            p!(c, "sop tolut {} {}", n, scl(a));
            p!(c, "sop info {} {}", n, scl(a));
        }
        let step = if n <= 1 || c.thorough { 1 } else { 7 };
        let mut k = 0usize;
        for a in &lists {
            for b in &lists {
                k += 1;
                if k % step == 0 {
                    p!(c, "sop and {} {} {}", n, scl(a), scl(b));
                    p!(c, "sop or {} {} {}", n, scl(a), scl(b));
                    p!(c, "sop and {} {} {}", n, scl(a), scl(a));
                    p!(c, "sop or {} {} {}", n, scl(a), scl(a));
                }
            }
        }
    }
    for n in 0..=10usize {
        let cnt = if c.thorough { 300 } else { 40 };
        for _ in 0..cnt {
            let kmax = if n <= 6 { 12 } else { 6 };
            let a = rand_cube_list(&mut c.rng, n, kmax);
            let b = rand_cube_list(&mut c.rng, n, kmax);
            p!(c, "sop and {} {} {}", n, scl(&a), scl(&b));
            p!(c, "sop or {} {} {}", n, scl(&a), scl(&b));
            p!(c, "sop and {} {} {}", n, scl(&b), scl(&b));
            p!(c, "sop or {} {} {}", n, scl(&b), scl(&b));
            let a5: Vec<(u32, u32)> = a.iter().take(5).cloned().collect();
            p!(c, "sop not {} {}", n, scl(&a5));
            p!(c, "sop tolut {} {}", n, scl(&a));
            p!(c, "sop info {} {}", n, scl(&a));
            p!(c, "sop fromcubes {} {}", n, scl(&a));
            let m = c.rng.below(1 << n);
            p!(c, "sop value {} {} {:x}", n, scl(&a), m);
        }
    }
    for n in 0..=(if c.thorough { 3 } else { 2 }) {
        for t in all_tabs(n) {
            p!(c, "sop fromlut {}", t.show());
        }
    }
    for n in 3..=8usize {
        for _ in 0..(if c.thorough { 40 } else { 8 }) {
            let t = gen_tab(&mut c.rng, n);
            p!(c, "sop fromlut {}", t.show());
        }
    }
    // expressions nesting up to four operations (the property's quantifier), every operand form
    {
        let saved = c.enter("C14-expr");
        for n in 0..=10usize {
            for _ in 0..(if c.thorough { 40 } else { 8 }) {
                let ops = 2 + c.rng.below(3);
                let kmax = if n <= 4 { 6 } else { 4 };
                let toks = rand_expr(&mut c.rng, n, ops, kmax, &["&", "|", "!"]);
                p!(c, "sop expr {} {}", n, toks.join(" "));
            }
        }
        // long product lists: (a & b) & (c & d) over 10 variables with twelve two-literal cubes
        // each - thousands of distinct products in the last step (seed C14-k: a batched
        // pre-pass for lists of more than 4096 cubes loses the last partial batch)
        for round in 0..(if c.thorough { 8 } else { 3 }) {
            // operands over disjoint groups of variables, every polarity: no product is
            // contradictory and few are absorbed.  Round 0: variables in their natural order and
            // no cube left out (the products that sort last all hold the highest variable)
            let mut perm: Vec<usize> = (0..10).collect();
            if round > 0 {
                for i in (1..10).rev() {
                    let j = c.rng.below(i + 1);
                    perm.swap(i, j);
                }
            }
            let mut drop: Vec<bool> = (0..64).map(|_| round > 0 && c.rng.below(8) == 0).collect();
            let mut two_lit = |pairs: &[(usize, usize)]| -> Vec<(u32, u32)> {
                let mut l = Vec::new();
                for (x, y) in pairs {
                    for pol in 0..4u32 {
                        // a few cubes left out: with all four polarities of every pair the operand
                        // is a tautology and a lost product changes nothing
                        if drop.pop().unwrap_or(false) {
                            continue;
                        }
                        let mut cu = (0u32, 0u32);
                        if pol & 1 != 0 { cu.0 |= 1 << x } else { cu.1 |= 1 << x }
                        if pol & 2 != 0 { cu.0 |= 1 << y } else { cu.1 |= 1 << y }
                        l.push(cu);
                    }
                }
                l
            };
            let g = |k: usize| [(perm[3 * k], perm[3 * k + 1]), (perm[3 * k], perm[3 * k + 2]), (perm[3 * k + 1], perm[3 * k + 2])];
            let ops: Vec<String> = vec![
                scl(&two_lit(&g(0))),
                scl(&two_lit(&g(1))),
                scl(&two_lit(&g(2))),
                scl(&two_lit(&[(perm[9], perm[0]), (perm[9], perm[1]), (perm[9], perm[2])])),
            ];
            p!(c, "sop expr 10 {} {} & {} {} & &", ops[0], ops[1], ops[2], ops[3]);
        }
        c.leave(saved);
    }
}

/// random expression in reverse Polish notation with `ops` operators over cube lists of at most
/// `kmax` cubes (`!` is unary)
fn rand_expr(r: &mut Rng, n: usize, ops: usize, kmax: usize, syms: &[&str]) -> Vec<String> {
    if ops == 0 {
        return vec![scl(&rand_cube_list(r, n, kmax))];
    }
    let op = *r.pick(syms);
    if op == "!" {
        let mut v = rand_expr(r, n, ops - 1, kmax, syms);
        v.push("!".to_string());
        v
    } else {
        let left = r.below(ops);
        let mut v = rand_expr(r, n, left, kmax, syms);
        v.extend(rand_expr(r, n, ops - 1 - left, kmax, syms));
        v.push(op.to_string());
        v
    }
}

pub fn gen_c15(c: &mut Ctx) {
    gen_long_lists(c, "esop");
    // the small constructors
    for ty in ["esop"] {
        for n in [0usize, 1, 3, 12, 32] {
            for name in ["zero", "one"] {
                p!(c, "fctor {} {} {} 0", ty, name, n);
            }
            for v in 0..n.min(32) {
                if v < 4 || v + 2 >= n {
                    p!(c, "fctor {} nthvar {} {}", ty, n, v);
                    p!(c, "fctor {} nthvarinv {} {}", ty, n, v);
                }
            }
        }
    }
    for n in 0..=(if c.thorough { 4 } else { 3 }) {
        for t in all_tabs(n) {
            p!(c, "esop fromlut {}", t.show());
        }
    }
    for n in 4..=10usize {
        for _ in 0..(if c.thorough { 60 } else { if n <= 8 { 12 } else { 3 } }) {
            let t = gen_tab(&mut c.rng, n);
            p!(c, "esop fromlut {}", t.show());
        }
    }
    for n in 0..=10usize {
        let cnt = if c.thorough { 200 } else { 30 };
        for _ in 0..cnt {
            let a = rand_cube_list(&mut c.rng, n, 8);
            let b = rand_cube_list(&mut c.rng, n, 8);
            p!(c, "esop xor {} {} {}", n, scl(&a), scl(&b));
            // the same object on both sides (the runner then also evaluates `&a ^ &a`; seed C15-g)
            p!(c, "esop xor {} {} {}", n, scl(&a), scl(&a));
            p!(c, "esop not {} {}", n, scl(&a));
            p!(c, "esop tolut {} {}", n, scl(&a));
            p!(c, "esop info {} {}", n, scl(&a));
            let m = c.rng.below(1 << n);
            p!(c, "esop value {} {} {:x}", n, scl(&a), m);
        }
    }
    for n in 0..=3usize {
        p!(c, "esop info {} -", n);
        p!(c, "esop info {} 0/0", n);
        p!(c, "esop info {} 0/0,0/0", n);
        p!(c, "esop tolut {} 0/0,0/0", n);
    }
    // nested expressions of ^ and !
    let saved = c.enter("C15-expr");
    for n in 0..=10usize {
        for _ in 0..(if c.thorough { 30 } else { 6 }) {
            let ops = 2 + c.rng.below(3);
            let toks = rand_expr(&mut c.rng, n, ops, 5, &["^", "^", "!"]);
            p!(c, "esop expr {} {}", n, toks.join(" "));
        }
    }
    c.leave(saved);
}

pub fn gen_c16(c: &mut Ctx) {
    // cubes and exclusive cubes over n <= 4, forms with up to 3 terms over n <= 3, random to 12 vars
    for n in 0..=4usize {
        for a in all_cubes(n) {
            p!(c, "cube display {}", sc(a));
        }
        let mx = 1u32 << n;
        for v in 0..mx {
            for x in [false, true] {
                p!(c, "ecube display {}", se((v, x)));
            }
        }
    }
    for n in 0..=3usize {
        let cubes: Vec<(u32, u32)> = all_cubes(n).into_iter().filter(|x| x.0 & x.1 == 0).collect();
        let cnt = if c.thorough { 1500 } else { 200 };
        for _ in 0..cnt {
            let k = c.rng.below(4);
            let l: Vec<(u32, u32)> = (0..k).map(|_| *c.rng.pick(&cubes)).collect();
            p!(c, "sop display {} {}", n, scl(&l));
            p!(c, "esop display {} {}", n, scl(&l));
            let e = rand_ecubes(&mut c.rng, n, k);
            let s: Vec<String> = e.iter().map(|x| se(*x)).collect();
            p!(c, "soes display {} {}", n, if s.is_empty() { "-".into() } else { s.join(",") });
        }
    }
    let cnt = if c.thorough { 1500 } else { 200 };
    for _ in 0..cnt {
        let n = 4 + c.rng.below(9);
        let l = rand_cube_list(&mut c.rng, n, 4);
        p!(c, "sop display {} {}", n, scl(&l));
        p!(c, "esop display {} {}", n, scl(&l));
        for a in &l {
            p!(c, "cube display {}", sc(*a));
        }
        let e = rand_ecubes(&mut c.rng, n, 3);
        let s: Vec<String> = e.iter().map(|x| se(*x)).collect();
        p!(c, "soes display {} {}", n, if s.is_empty() { "-".into() } else { s.join(",") });
        for x in &e {
            p!(c, "ecube display {}", se(*x));
        }
    }
    // the canonical zero cube (it prints as 0) and the constant exclusive cubes
    p!(c, "cube display {}", sc((u32::MAX, u32::MAX)));
    p!(c, "ecube display {}", se((0, false)));
    p!(c, "ecube display {}", se((0, true)));
    // terms whose TEXT is a prefix of their neighbour's text although the terms are unrelated:
    // x1 next to x10, x11, x12; !x1 next to !x10; x0x1 next to x0x12; x2 next to x21 (seed C16-m:
    // a clean-up of the printed terms by `starts_with`)
    for (n, lo, his) in [(11usize, 1u32, vec![10u32]), (12, 1, vec![10, 11]), (13, 1, vec![10, 11, 12]), (24, 2, vec![20, 21, 23])] {
        for hi in his {
            for pre in [0u32, 1] {
                for neg in [false, true] {
                    let mk = |v: u32| -> (u32, u32) {
                        let lit = 1u32 << v;
                        let base = if pre == 1 && lo != 0 { 1u32 } else { 0 };
                        if neg { (0, lit | base) } else { (lit | base, 0) }
                    };
                    let (a, b) = (mk(lo), mk(hi));
                    for l in [vec![a, b], vec![b, a], vec![a, b, a], vec![a, (1 << 5, 0), b]] {
                        p!(c, "sop display {} {}", n, scl(&l));
                        p!(c, "esop display {} {}", n, scl(&l));
                    }
                    let (ea, eb) = ((1u32 << lo, neg), (1u32 << hi, neg));
                    p!(c, "soes display {} {},{}", n, se(ea), se(eb));
                    p!(c, "soes display {} {},{}", n, se(eb), se(ea));
                    p!(c, "ecube display {}", se(((1u32 << lo) | (1u32 << hi), neg)));
                    p!(c, "cube display {}", sc((a.0 | b.0, a.1 | b.1)));
                }
            }
        }
    }
    // 32-variable cubes (indices up to 31)
    for _ in 0..(if c.thorough { 500 } else { 60 }) {
        let a = rand_cube_sparse(&mut c.rng, 32);
        p!(c, "cube display {}", sc(a));
        p!(c, "ecube display {}", se((c.rng.next() as u32 & c.rng.next() as u32, c.rng.coin())));
    }
}

pub fn gen_c17(c: &mut Ctx) {
    // invalid arguments: indices n..=n+70 and usize::MAX, assignments >= 2^n, mismatched sizes,
    // wrong slice lengths; plus a valid workload (both build profiles must agree on everything)
    for n in 0..=8usize {
        for ty in ["D", "S"] {
            let mut bad: Vec<usize> = (n..=n + 70).collect();
            bad.push(usize::MAX);
            bad.push(usize::MAX - 1);
            bad.push(1usize << 32);
            let step = if c.thorough { 1 } else { 5 };
            for (q, i) in bad.iter().enumerate() {
                // always: the first bad index, the ones that wrap a 64-bit shift back into range
                // (64 .. 64+n, and 64+6 .. 64+6+n for the cross-word stride `1 << (ind - 6)`: seed C17-h)
                if q % step != 0 && *i != n && *i != usize::MAX && *i != n + 6 && !(64..=64 + n + 7).contains(i) {
                    continue;
                }
                let saved = c.enter(&format!("C17-index-{}-{}-{}", n, ty, i));
                let a = gen_dense(&mut c.rng, n);
                let b = gen_dense(&mut c.rng, n);
                let ok = if n > 0 { c.rng.below(n) } else { 0 };
                c.leave(saved);
                p!(c, "ctor {} nth_var {} {}", ty, n, i);
                p!(c, "flip {} ip {} {}", ty, a.show(), i);
                p!(c, "flip {} cp {} {}", ty, a.show(), i);
                p!(c, "swap {} ip {} {} {}", ty, a.show(), i, ok);
                p!(c, "swap {} cp {} {} {}", ty, a.show(), ok, i);
                p!(c, "swap {} cp {} {} {}", ty, a.show(), i, i);
                p!(c, "swapadj {} ip {} {}", ty, a.show(), i);
                p!(c, "swapadj {} cp {} {}", ty, a.show(), i);
                if *i > 0 {
                    p!(c, "swapadj {} cp {} {}", ty, a.show(), i - 1);
                }
                p!(c, "cof {} {} {}", ty, a.show(), i);
                p!(c, "fromcof {} {} {} {}", ty, a.show(), b.show(), i);
                p!(c, "decomp {} {} {}", ty, a.show(), i);
                p!(c, "posunate {} {} {}", ty, a.show(), i);
                p!(c, "negunate {} {} {}", ty, a.show(), i);
            }
            let nb = 1usize << n;
            let mut badm: Vec<usize> = vec![nb, nb + 1, nb + 63, nb + 64, 2 * nb, nb | 64, usize::MAX, 1usize << 40];
            for _ in 0..4 {
                badm.push(nb + c.rng.below(200));
            }
            for m in badm {
                let a = gen_dense(&mut c.rng, n);
                p!(c, "get {} {} {}", ty, a.show(), m);
                p!(c, "set {} {} {} 1", ty, a.show(), m);
                p!(c, "set {} {} {} 0", ty, a.show(), m);
                p!(c, "setbit {} {} {}", ty, a.show(), m);
                p!(c, "unsetbit {} {} {}", ty, a.show(), m);
            }
            // wrong slice lengths
            for len in [0usize, 1, 2, 3, 4, 5, 8] {
                let ws: Vec<u64> = (0..len).map(|_| c.rng.next() & mask_of(n)).collect();
                p!(c, "fromblocks {} {} {}", ty, n, show_words(&ws));
            }
            // valid workload
            for _ in 0..(if c.thorough { 12 } else { 4 }) {
                let a = gen_tab(&mut c.rng, n);
                let b = gen_tab(&mut c.rng, n);
                let m = c.rng.below(nb);
                p!(c, "get {} {} {}", ty, a.show(), m);
                p!(c, "set {} {} {} {}", ty, a.show(), m, show_bool(c.rng.coin()));
                p!(c, "next {} {}", ty, a.show());
                p!(c, "bin {} xor 4 {} {}", ty, a.show(), b.show());
                p!(c, "not {} 3 {}", ty, a.show());
                p!(c, "bdd {} {} {} {}", ty, n, a.show(), b.show());
                p!(c, "tohex {} {}", ty, a.show());
                for k in [0usize, 1, n, n + 1, 63, 64, 65, usize::MAX] {
                    p!(c, "ctor {} equals {} {}", ty, n, k);
                    p!(c, "ctor {} threshold {} {}", ty, n, k);
                }
                if n > 0 {
                    let i = c.rng.below(n);
                    let j = c.rng.below(n);
                    p!(c, "flip {} ip {} {}", ty, a.show(), i);
                    p!(c, "swap {} cp {} {} {}", ty, a.show(), i, j);
                    p!(c, "cof {} {} {}", ty, a.show(), i);
                    p!(c, "fromcof {} {} {} {}", ty, a.show(), b.show(), i);
                    p!(c, "decomp {} {} {}", ty, a.show(), i);
                    p!(c, "posunate {} {} {}", ty, a.show(), j);
                }
                if n <= 5 {
                    p!(c, "npncanon {} {}", ty, a.show());
                    p!(c, "pcanon {} {}", ty, a.show());
                    p!(c, "ncanon {} {}", ty, a.show());
                }
            }
            // all-ones words: the successor must not depend on overflow checks
            let mut ones = Tab::zero(n);
            for w in ones.w.iter_mut() {
                *w = mask_of(n);
            }
            p!(c, "next {} {}", ty, ones.show());
            if n >= 7 {
                let mut t = gen_dense(&mut c.rng, n);
                t.w[0] = !0;
                p!(c, "next {} {}", ty, t.show());
            }
        }
        // size mismatches (dynamic type)
        for n2 in 0..=8usize {
            if n2 != n {
                let saved = c.enter(&format!("C17-sizes-{}-{}", n, n2));
                let a = gen_dense(&mut c.rng, n);
                let b = gen_dense(&mut c.rng, n2);
                c.leave(saved);
                // every operator in every syntactic form (owned / borrowed operands, named and
                // assigning forms): each has its own size guard (seed C17-f: one trait impl lost it)
                for op in ["and", "or", "xor"] {
                    for f in 0..14 {
                        p!(c, "bin D {} {} {} {}", op, f, a.show(), b.show());
                    }
                }
                if n > 0 && n2 > 0 {
                    p!(c, "fromcof D {} {} 0", a.show(), b.show());
                }
                p!(c, "bdd D {} {} {}", n, a.show(), b.show());
                // the same block content at both sizes (a function and its embedding in more
                // variables, the two constant zeros): guards that look at the blocks, or run after
                // a deduplication keyed on them, let these through (seed C17-l)
                if n <= 6 && n2 <= 6 {
                    let lo = n.min(n2);
                    let w = a.w[0] & mask_of(lo);
                    let (a2, b2) = (Tab::new(n, vec![w]), Tab::new(n2, vec![w]));
                    for (x, y) in [(&a2, &b2), (&Tab::zero(n), &Tab::zero(n2))] {
                        p!(c, "bdd D {} {} {}", n, x.show(), y.show());
                        p!(c, "bdd D {} {} {} {}", n, x.show(), y.show(), x.show());
                        p!(c, "bdd D {} {} {} {}", n, x.show(), x.show(), y.show());
                        p!(c, "bdd D {} {} {} {} {}", n, y.show(), x.show(), y.show(), x.show());
                        for op in ["and", "or", "xor"] {
                            p!(c, "bin D {} {} {} {}", op, c.rng.below(14), x.show(), y.show());
                        }
                        if n > 0 && n2 > 0 {
                            p!(c, "fromcof D {} {} 0", x.show(), y.show());
                        }
                        p!(c, "cmp D {} {}", x.show(), y.show());
                        p!(c, "eq D {} {}", x.show(), y.show());
                    }
                }
            }
        }
    }
    // cube-level constructors at the edge of the 32-variable range
    c.push("cube minterm 32 ffffffff".to_string());
    c.push("cube minterm 32 0".to_string());
    c.push("cube minterm 31 7fffffff".to_string());
}

pub fn gen_c19(c: &mut Ctx) {
    // random() fed from an injected word stream: exactly as many words as the table has, more
    // (the rest must stay unread), fewer (the hook panics: the call wanted more words), all-ones
    // and all-equal words, both types
    let reps = if c.thorough { 12 } else { 3 };
    for n in 0..=12usize {
        let ts = table_size(n);
        for ty in ["D", "S"] {
            for r in 0..reps {
                let extra = [0usize, 0, 2, 1][r % 4];
                let ws: Vec<u64> = (0..ts + extra).map(|_| c.rng.next()).collect();
                p!(c, "rnd {} {} {}", ty, n, show_words(&ws));
            }
            let ones: Vec<u64> = vec![!0u64; ts];
            p!(c, "rnd {} {} {}", ty, n, show_words(&ones));
            let w = c.rng.next();
            let same: Vec<u64> = vec![w; ts + 1];
            p!(c, "rnd {} {} {}", ty, n, show_words(&same));
            // one word short
            let short: Vec<u64> = (0..ts - 1).map(|_| c.rng.next()).collect();
            if short.is_empty() {
                p!(c, "rnd {} {} -", ty, n);
            } else {
                p!(c, "rnd {} {} {}", ty, n, show_words(&short));
            }
        }
    }
}

pub fn generate(prop: &str, thorough: bool, seed: u64) -> Vec<String> {
    let mut c = Ctx { rng: Rng::new(seed, prop), seed, thorough, out: Vec::new() };
    match prop {
        "C01" => gen_c01(&mut c),
        "C02" => gen_c02(&mut c),
        "C03" => gen_c03(&mut c),
        "C04" | "C05" => gen_c04(&mut c),
        "C06" => gen_c06(&mut c),
        "C07" => gen_c07(&mut c),
        "C08" => gen_c08(&mut c),
        "C09" => gen_c09(&mut c),
        "C10" => gen_c10(&mut c),
        "C11" => gen_c11(&mut c),
        "C12" => gen_c12(&mut c),
        "C13" => gen_c13(&mut c),
        "C14" => gen_c14(&mut c),
        "C15" => gen_c15(&mut c),
        "C16" => gen_c16(&mut c),
        "C17" => gen_c17(&mut c),
        "C19" => gen_c19(&mut c),
        _ => {}
    }
    add_cross_sequences(&mut c);
    // the runner deals contiguous chunks of the workload to its threads: spread the expensive lines
    // (NPN canonizations of 8 variables) over the whole workload so that they run in parallel
    let (heavy, mut rest): (Vec<String>, Vec<String>) = c.out.into_iter().partition(|l| l.starts_with("npnorbit"));
    if !heavy.is_empty() {
        let stride = (rest.len() / (heavy.len() + 1)).max(1);
        for (k, h) in heavy.into_iter().enumerate() {
            let at = ((k + 1) * stride + k).min(rest.len());
            rest.insert(at, h);
        }
    }
    rest
}

/// size of the object a protocol line works on (number of variables), where the line has one
fn line_size(t: &[&str]) -> Option<usize> {
    for s in t.iter().skip(1) {
        if let Some((a, _)) = s.split_once(':') {
            if let Ok(n) = a.parse::<usize>() {
                return Some(n);
            }
        }
    }
    size_pos(t).and_then(|i| t.get(i)).and_then(|s| s.parse::<usize>().ok())
}

/// where a line without tables carries its number of variables as a plain integer
fn size_pos(t: &[&str]) -> Option<usize> {
    match t[0] {
        "fromhex" | "itera" | "iter" => Some(2),
        "ctor" | "fctor" => Some(3),
        "sop" | "esop" | "soes" if matches!(t.get(1).copied(), Some("and" | "or" | "not" | "xor" | "value" | "tolut" | "info" | "display" | "fromcubes" | "expr")) => Some(2),
        "cube" | "ecube" if matches!(t.get(1).copied(), Some("all" | "alla" | "minterm")) => Some(2),
        _ => None,
    }
}

/// the line with its size `a` replaced by `b`, other arguments kept (tables: only between sizes that
/// fit one word; the word is masked to the new size)
fn resize_line(l: &str, a: usize, b: usize) -> Option<String> {
    let t: Vec<&str> = l.split_whitespace().collect();
    let mut out: Vec<String> = Vec::new();
    let mut changed = false;
    let has_tab = t.iter().skip(1).any(|s| s.split_once(':').map_or(false, |(x, _)| x.parse::<usize>().is_ok()));
    for (i, s) in t.iter().enumerate() {
        if has_tab && t[0] == "bdd" && i == 2 && s.parse::<usize>().ok() == Some(a) {
            // `bdd <ty> <n> <tables>`: the size is written twice
            out.push(b.to_string());
            continue;
        }
        if has_tab {
            if let Some((x, w)) = s.split_once(':') {
                if x.parse::<usize>().ok() == Some(a) {
                    if a > 6 || b > 6 || w.contains(',') {
                        return None;
                    }
                    let v = u64::from_str_radix(w, 16).ok()? & mask_of(b);
                    out.push(format!("{}:{:x}", b, v));
                    changed = true;
                    continue;
                }
            }
        } else if Some(i) == size_pos(&t) && !changed && s.parse::<usize>().ok() == Some(a) {
            // other arguments (variable indices, cube masks) stay valid only when the size grows
            if b < a && t[0] != "fromhex" {
                return None;
            }
            out.push(b.to_string());
            changed = true;
            continue;
        }
        out.push(s.to_string());
    }
    if changed {
        Some(out.join(" "))
    } else {
        None
    }
}

/// State kept between calls (caches, memos, statics shared by all sizes of a generic type) shows
/// only in sequences of calls.  The order pass replays the workload backwards; in addition, for
/// every family of lines (same operation, same type) two-call sequences over DIFFERENT sizes are
/// appended, in both orders, each on a fresh thread (seeds C10-j, C05-i: walks / results cached per
/// thread and keyed without the size; C12-k: `Cube::all` answered from a larger cached enumeration).
fn add_cross_sequences(c: &mut Ctx) {
    use std::collections::BTreeMap;
    let saved = c.enter("cross-sequences");
    let mut fam: BTreeMap<(String, String), BTreeMap<usize, Vec<usize>>> = BTreeMap::new();
    for (i, l) in c.out.iter().enumerate() {
        let t: Vec<&str> = l.split_whitespace().collect();
        if t.len() < 3 || matches!(t[0], "seq" | "hist" | "rnd" | "mip" | "mipilp" | "mipcand" | "canonseq" | "canonused" | "random" | "npnorbit") {
            continue;
        }
        if let Some(n) = line_size(&t) {
            // keep the sequences cheap
            if (t[0] == "npncanon" && n >= 8) || (t[0] == "itera" && n >= 4) || (t[0] == "iter" && n >= 4) || l.len() > 3000 {
                continue;
            }
            fam.entry((t[0].to_string(), t[1].to_string())).or_default().entry(n).or_default().push(i);
        }
    }
    let mut seqs: Vec<String> = Vec::new();
    for (_, sizes) in fam.iter() {
        let ns: Vec<usize> = sizes.keys().cloned().collect();
        if ns.len() < 2 {
            continue;
        }
        let rep = |c: &mut Ctx, n: usize| -> String {
            let v = &sizes[&n];
            let i = v[c.rng.below(v.len())];
            c.out[i].clone()
        };
        let mut pairs: Vec<(usize, usize)> = Vec::new();
        if ns.len() <= 4 {
            for &a in &ns {
                for &b in &ns {
                    if a != b {
                        pairs.push((a, b));
                    }
                }
            }
        } else {
            // neighbours in both orders, plus random pairs
            for w in ns.windows(2) {
                // twice, with representatives drawn anew: one unlucky table must not hide a defect
                for _ in 0..2 {
                    pairs.push((w[0], w[1]));
                    pairs.push((w[1], w[0]));
                }
            }
            for _ in 0..ns.len() {
                let a = ns[c.rng.below(ns.len())];
                let b = ns[c.rng.below(ns.len())];
                if a != b {
                    pairs.push((a, b));
                }
            }
        }
        for (a, b) in pairs {
            let la = rep(c, a);
            let lb = rep(c, b);
            seqs.push(format!("seq {} ;; {}", la, lb));
        }
        // the SAME arguments at another size (seeds C05-i, C09-k: results remembered under a key
        // that leaves the size out): the size token replaced, single-word tables masked
        let small: Vec<usize> = ns.iter().cloned().filter(|x| *x <= 6).collect();
        for k in 0..6 {
            // half of the draws among the sizes that fit one word (tables can be carried over)
            let pool: &Vec<usize> = if k % 2 == 0 && small.len() >= 2 { &small } else { &ns };
            let a = pool[c.rng.below(pool.len())];
            let b = pool[c.rng.below(pool.len())];
            if a == b {
                continue;
            }
            let la = rep(c, a);
            if let Some(lb) = resize_line(&la, a, b) {
                seqs.push(format!("seq {} ;; {}", la, lb));
                seqs.push(format!("seq {} ;; {}", lb, la));
            }
        }
    }
    // a bounded number per property, spread over the families
    let cap = if c.thorough { 2400 } else { 600 };
    if seqs.len() > cap {
        let step = seqs.len() as f64 / cap as f64;
        let mut kept = Vec::new();
        let mut x = 0.0f64;
        while (x as usize) < seqs.len() && kept.len() < cap {
            kept.push(seqs[x as usize].clone());
            x += step;
        }
        seqs = kept;
    }
    c.out.extend(seqs);
    c.leave(saved);
}

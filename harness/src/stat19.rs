//! C19: the statistical run the property specifies, on the real `random()`.
//! 256 draws x n = 0..=12 x Lut and LutN x 1 and 16 threads; exact well-formedness,
//! every position sees both values, every variable is essential in some draw, draws pairwise
//! distinct for n >= 3.

use crate::lutapi::L;
use crate::proto::*;
use crate::with_static;
use std::io::Write;
use volute::Lut;

fn draws<T: L>(n: usize, k: usize) -> Vec<Tab> {
    (0..k).map(|_| { let l = T::random_n(n); Tab::new(l.nv(), l.blocks_v()) }).collect()
}

/// every multi-word draw of the whole run, by size: draws must differ across passes, types and
/// threads too, not only inside one pass (seed C19-l: a per-thread stream that wraps after 65536
/// words, so the LutN pass of a thread replays its Lut pass)
static ALL_DRAWS: std::sync::Mutex<Vec<(usize, Vec<u64>)>> = std::sync::Mutex::new(Vec::new());

fn analyse(label: &str, n: usize, ds: &[Tab], fails: &mut Vec<String>) -> (usize, usize) {
    if n >= 7 {
        let mut g = ALL_DRAWS.lock().unwrap();
        for d in ds {
            g.push((n, d.w.clone()));
        }
    }
    let nb = 1usize << n;
    let mut seen0 = vec![false; nb];
    let mut seen1 = vec![false; nb];
    for d in ds {
        if d.n != n || !d.wf() {
            fails.push(format!("{} n={}: malformed draw {}", label, n, d.show()));
        }
        if d.w.len() == table_size(n) {
            for m in 0..nb {
                if d.bit(m) { seen1[m] = true } else { seen0[m] = true }
            }
        }
    }
    let stuck: Vec<usize> = (0..nb).filter(|m| !(seen0[*m] && seen1[*m])).collect();
    if !stuck.is_empty() {
        fails.push(format!("{} n={}: {} positions never saw both values in {} draws (first: {})", label, n, stuck.len(), ds.len(), stuck[0]));
    }
    // not degenerate: every variable is essential in some draw (a fair generator gives a function
    // that ignores variable v with probability 2^-(2^(n-1)) per draw: at most 2^-256 over 256 draws)
    for v in 0..n {
        let essential = ds.iter().any(|d| d.w.len() == table_size(n) && (0..nb).any(|m| d.bit(m) != d.bit(m ^ (1 << v))));
        if !essential {
            fails.push(format!("{} n={}: no draw out of {} depends on variable {} (all draws are degenerate)", label, n, ds.len(), v));
        }
    }
    let mut distinct = ds.to_vec();
    distinct.sort_by(|a, b| a.w.cmp(&b.w));
    distinct.dedup();
    if n >= 7 && distinct.len() != ds.len() {
        // 128+ bits: any collision among 256*17 draws has probability < 2^-100
        fails.push(format!("{} n={}: only {} distinct draws out of {}", label, n, distinct.len(), ds.len()));
    }
    if (3..7).contains(&n) {
        // birthday bound: expect ds.len() - small; demand at least 1/4 of the space-limited optimum
        let space = if nb >= 20 { usize::MAX } else { 1usize << nb };
        let want = std::cmp::min(ds.len(), space) / 4;
        if distinct.len() < want {
            fails.push(format!("{} n={}: only {} distinct draws out of {}", label, n, distinct.len(), ds.len()));
        }
    }
    (ds.len(), distinct.len())
}

fn dyn_draws(n: usize, k: usize) -> Vec<Tab> { draws::<Lut>(n, k) }
fn stat_draws(n: usize, k: usize) -> Vec<Tab> { with_static!(n, draws, n, k) }

pub fn run<W: Write>(_seed: u64, thorough: bool, w: &mut W) {
    let k = if thorough { 1024 } else { 256 };
    let mut fails: Vec<String> = Vec::new();
    let mut total = 0usize;
    let mut distinct_total = 0usize;
    let mut sample = String::new();
    for n in 0..=12usize {
        for (label, f) in [("Lut", dyn_draws as fn(usize, usize) -> Vec<Tab>), ("LutN", stat_draws as fn(usize, usize) -> Vec<Tab>)] {
            // one thread
            let ds = f(n, k);
            if n == 7 && label == "Lut" { sample = ds[0].show(); }
            let (a, b) = analyse(&format!("{} 1-thread", label), n, &ds, &mut fails);
            total += a; distinct_total += b;
            // 16 concurrent threads; each thread's stream analysed alone and all together
            let mut all: Vec<Tab> = Vec::new();
            let per: Vec<Vec<Tab>> = std::thread::scope(|s| {
                let hs: Vec<_> = (0..16).map(|_| s.spawn(move || f(n, k))).collect();
                hs.into_iter().map(|h| h.join().unwrap()).collect()
            });
            for (ti, ds) in per.iter().enumerate() {
                let (a, b) = analyse(&format!("{} thread {}/16", label, ti), n, ds, &mut fails);
                total += a; distinct_total += b;
                all.extend(ds.iter().cloned());
            }
            if n >= 7 {
                let mut d = all.clone();
                d.sort_by(|a, b| a.w.cmp(&b.w));
                d.dedup();
                if d.len() != all.len() {
                    fails.push(format!("{} n={}: threads produced identical draws ({} distinct of {})", label, n, d.len(), all.len()));
                }
            }
        }
    }
    // threads that run ONE AFTER THE OTHER (each joined before the next starts): their draws must
    // differ too (seed C19-j: a per-thread generator seeded from the address of a thread-local,
    // which a later thread inherits from a finished one and so replays its tables)
    for (label, f) in [("Lut", dyn_draws as fn(usize, usize) -> Vec<Tab>), ("LutN", stat_draws as fn(usize, usize) -> Vec<Tab>)] {
        for n in [7usize, 8, 10] {
            let mut all: Vec<Tab> = Vec::new();
            for _ in 0..24 {
                let ds = std::thread::spawn(move || f(n, 16)).join().unwrap();
                all.extend(ds);
            }
            total += all.len();
            let mut d = all.clone();
            d.sort_by(|a, b| a.w.cmp(&b.w));
            d.dedup();
            distinct_total += d.len();
            if d.len() != all.len() {
                fails.push(format!("{} n={}: 24 threads run one after the other produced identical draws ({} distinct of {})", label, n, d.len(), all.len()));
            }
        }
    }
    // sizes interleaved on one thread (seed C19-g: a per-thread pool of spare random bits that
    // goes wrong only when calls of different small sizes alternate): a fixed pseudo-random order
    // of sizes 0..=8, k draws of each size in all, analysed per size as above
    for (label, f) in [("Lut", dyn_draws as fn(usize, usize) -> Vec<Tab>), ("LutN", stat_draws as fn(usize, usize) -> Vec<Tab>)] {
        let mut per: Vec<Vec<Tab>> = vec![Vec::new(); 9];
        let mut order: Vec<usize> = Vec::new();
        let mut st = _seed ^ 0x5851_f42d_4c95_7f2d;
        for _ in 0..k {
            // each round: the nine sizes in an order that changes from round to round
            let mut sizes: Vec<usize> = (0..9).collect();
            for i in (1..sizes.len()).rev() {
                st = st.wrapping_mul(6364136223846793005).wrapping_add(1442695040888963407);
                sizes.swap(i, ((st >> 33) as usize) % (i + 1));
            }
            order.extend(sizes);
        }
        for n in order {
            per[n].extend(f(n, 1));
        }
        for (n, ds) in per.iter().enumerate() {
            let (a, b) = analyse(&format!("{} sizes interleaved", label), n, ds, &mut fails);
            total += a;
            distinct_total += b;
        }
    }
    // every periodic pattern of three sizes out of 0..=6, each on a fresh thread, 256 rounds: the
    // draws at each place of the pattern are analysed on their own (a defect that depends on how
    // the calls before it left some per-thread state - seed C19-g: how many spare bits a pool still
    // holds - hits the same place of the pattern every round)
    for (label, f) in [("Lut", dyn_draws as fn(usize, usize) -> Vec<Tab>), ("LutN", stat_draws as fn(usize, usize) -> Vec<Tab>)] {
        let pats: Vec<[usize; 3]> = (0..343).map(|q| [q % 7, (q / 7) % 7, q / 49]).collect();
        let res: Vec<(usize, usize, Vec<String>)> = std::thread::scope(|s| {
            let hs: Vec<_> = pats
                .chunks(22)
                .map(|chunk| {
                    s.spawn(move || {
                        let mut tot = 0usize;
                        let mut dis = 0usize;
                        let mut fl: Vec<String> = Vec::new();
                        for pat in chunk {
                            let pat = *pat;
                            // a fresh thread per pattern: fresh per-thread state
                            let per: Vec<Vec<Tab>> = std::thread::spawn(move || {
                                let mut per: Vec<Vec<Tab>> = vec![Vec::new(); 3];
                                for _ in 0..256 {
                                    for (j, n) in pat.iter().enumerate() {
                                        per[j].extend(f(*n, 1));
                                    }
                                }
                                per
                            })
                            .join()
                            .unwrap();
                            for (j, ds) in per.iter().enumerate() {
                                let (a, b) = analyse(&format!("{} pattern {:?} place {}", label, pat, j), pat[j], ds, &mut fl);
                                tot += a;
                                dis += b;
                            }
                        }
                        (tot, dis, fl)
                    })
                })
                .collect();
            hs.into_iter().map(|h| h.join().unwrap()).collect()
        });
        for (a, b, fl) in res {
            total += a;
            distinct_total += b;
            fails.extend(fl);
        }
    }
    {
        let mut g = ALL_DRAWS.lock().unwrap();
        let total_g = g.len();
        g.sort();
        g.dedup();
        if g.len() != total_g {
            fails.push(format!("multi-word draws of the whole run (all passes, both types, all threads): {} distinct of {} - some table was drawn twice", g.len(), total_g));
        }
        g.clear();
    }
    for f in &fails {
        writeln!(w, "FAIL random :: {}", f).unwrap();
    }
    writeln!(w, "RANDOM draws={} distinct_sum={} fails={} sample={}", total, distinct_total, fails.len(), sample).unwrap();
}

//! SplitMix64: the single source of randomness of the harness (seeded by VERIF_SEED)

#[derive(Clone)]
pub struct Rng(pub u64);

impl Rng {
    pub fn new(seed: u64, stream: &str) -> Rng {
        let mut h = seed ^ 0x9e37_79b9_7f4a_7c15;
        for b in stream.bytes() {
            h = (h ^ b as u64).wrapping_mul(0x100_0000_01b3);
        }
        let mut r = Rng(h);
        r.next();
        r
    }
    pub fn next(&mut self) -> u64 {
        self.0 = self.0.wrapping_add(0x9e37_79b9_7f4a_7c15);
        let mut z = self.0;
        z = (z ^ (z >> 30)).wrapping_mul(0xbf58_476d_1ce4_e5b9);
        z = (z ^ (z >> 27)).wrapping_mul(0x94d0_49bb_1331_11eb);
        z ^ (z >> 31)
    }
    pub fn below(&mut self, n: usize) -> usize {
        if n == 0 {
            0
        } else {
            (self.next() % n as u64) as usize
        }
    }
    pub fn coin(&mut self) -> bool {
        self.next() & 1 == 1
    }
    pub fn pick<'a, T>(&mut self, l: &'a [T]) -> &'a T {
        &l[self.below(l.len())]
    }
}

//! C18: the real MIP optimizers (feature optim-mip, HiGHS) against exactness and an independent
//! exact optimum (shortest path for one output, subset search for two outputs on n <= 2).
//!
//! lines:   mipcand n tab*                      candidate cubes / exclusive cubes (hook)
//!          mip sop   A _ O tab*                optimize_sop_mip(and = A, or = O)
//!          mip sopes A X O tab*                optimize_sopes_mip
//!          mip esop  A X _ tab*                optimize_esop_mip(and = A, xor = X)
//!          mipilp <kind> A X O tab*            the integer programme the call hands to the solver
//!                                              (hook verif_last_ilp), in a canonical text: variables
//!                                              named by role, terms and constraints sorted
//! impl prints  `ok <cost> <form> ...` ; the model prints `ok <optimum>` (or `ok ?` when it does not
//! compute one); bin/check compares the cost field.

use crate::proto::*;
use crate::rng::Rng;
use std::io::{BufRead, Write};
use std::panic::{catch_unwind, AssertUnwindSafe};
use volute::sop::optim::{optimize_esop_mip, optimize_sop_mip, optimize_sopes_mip, verif_candidates, verif_last_ilp, VerifIlp};
use volute::sop::{Cube, Ecube};
use volute::Lut;

fn luts_of(tabs: &[Tab]) -> Vec<Lut> {
    tabs.iter().map(|t| Lut::from_blocks(t.n, &t.w)).collect()
}

fn gates(lits: usize) -> i64 {
    if lits <= 1 {
        0
    } else {
        lits as i64 - 1
    }
}

fn cube_val(p: u32, q: u32, m: u32) -> bool {
    p & !m == 0 && q & m == 0
}

fn ecube_val(v: u32, x: bool, m: u32) -> bool {
    ((v & m).count_ones() % 2 == 1) != x
}

/// cost of a returned solution, by the definition in the property
fn solution_cost(cubes: &[Vec<(u32, u32)>], ecubes: &[Vec<(u32, bool)>], a: i64, x: i64, o: i64, xor_join: bool) -> i64 {
    let mut all_c: Vec<(u32, u32)> = cubes.iter().flatten().cloned().collect();
    all_c.sort();
    all_c.dedup();
    let mut all_e: Vec<(u32, bool)> = ecubes.iter().flatten().cloned().collect();
    all_e.sort();
    all_e.dedup();
    let mut cost = 0i64;
    for (p, q) in &all_c {
        cost += a * gates((p.count_ones() + q.count_ones()) as usize);
    }
    for (v, _) in &all_e {
        cost += x * gates(v.count_ones() as usize);
    }
    for j in 0..cubes.len() {
        let k = cubes[j].len() + ecubes.get(j).map_or(0, |e| e.len());
        if k > 1 {
            cost += (if xor_join { x } else { o }) * (k as i64 - 1);
        }
    }
    cost
}

struct Parsed {
    kind: String,
    a: i64,
    x: i64,
    o: i64,
    tabs: Vec<Tab>,
}

fn parse(line: &str) -> Option<Parsed> {
    let t: Vec<&str> = line.split_whitespace().collect();
    if t.len() < 5 || (t[0] != "mip" && t[0] != "mipilp") {
        return None;
    }
    let tabs: Option<Vec<Tab>> = t[5..].iter().map(|s| parse_tab(s)).collect();
    Some(Parsed { kind: t[1].to_string(), a: t[2].parse().ok()?, x: t[3].parse().ok()?, o: t[4].parse().ok()?, tabs: tabs? })
}

/// run the optimizer: (cubes per output, ecubes per output)
fn run_opt(p: &Parsed) -> Result<(Vec<Vec<(u32, u32)>>, Vec<Vec<(u32, bool)>>), String> {
    let luts = luts_of(&p.tabs);
    let r = catch_unwind(AssertUnwindSafe(|| match p.kind.as_str() {
        "sop" => {
            let s = optimize_sop_mip(&luts, p.a as i32, p.o as i32);
            (s.iter().map(|x| x.cubes().iter().map(cube_raw).collect()).collect(), vec![vec![]; luts.len()])
        }
        "sopes" => {
            let s = optimize_sopes_mip(&luts, p.a as i32, p.x as i32, p.o as i32);
            (
                s.iter().map(|x| x.0.cubes().iter().map(cube_raw).collect()).collect(),
                s.iter().map(|x| x.1.cubes().iter().map(ecube_raw).collect()).collect(),
            )
        }
        _ => {
            let s = optimize_esop_mip(&luts, p.a as i32, p.x as i32);
            (s.iter().map(|x| x.cubes().iter().map(cube_raw).collect()).collect(), vec![vec![]; luts.len()])
        }
    }));
    r.map_err(|_| "optimizer panicked".to_string())
}

fn impl_line(line: &str) -> String {
    let t: Vec<&str> = line.split_whitespace().collect();
    if t.first() == Some(&"mipcand") {
        let tabs: Option<Vec<Tab>> = t[2..].iter().map(|s| parse_tab(s)).collect();
        let tabs = match tabs {
            Some(x) => x,
            None => return "bad-op".into(),
        };
        let luts = luts_of(&tabs);
        let (c, e): (Vec<Cube>, Vec<Ecube>) = verif_candidates(&luts);
        return format!("ok {} {}", show_cubes(&c), show_ecubes(&e));
    }
    let p = match parse(line) {
        Some(p) => p,
        None => return "bad-op".into(),
    };
    if t[0] == "mipilp" {
        return match run_opt(&p) {
            Err(_) => "panic".to_string(),
            Ok(_) => match verif_last_ilp() {
                Some(d) => canon_ilp(&d),
                None => "no-ilp".to_string(),
            },
        };
    }
    match run_opt(&p) {
        Err(_) => "panic".to_string(),
        Ok((cs, es)) => {
            let cost = solution_cost(&cs, &es, p.a, p.x, p.o, p.kind == "esop");
            let forms: Vec<String> = cs
                .iter()
                .zip(es.iter())
                .map(|(c, e)| {
                    format!(
                        "{}+{}",
                        if c.is_empty() { "-".to_string() } else { c.iter().map(|x| format!("{:x}/{:x}", x.0, x.1)).collect::<Vec<_>>().join(",") },
                        if e.is_empty() { "-".to_string() } else { e.iter().map(|x| format!("{:x}/{}", x.0, show_bool(x.1))).collect::<Vec<_>>().join(",") }
                    )
                })
                .collect();
            format!("ok {} {}", cost, forms.join(" "))
        }
    }
}


// ------------------------------------------------------------------ the programme, canonically

fn rat(f: f64) -> String {
    let r = f * 2.0;
    if r.fract() != 0.0 || !r.is_finite() {
        return format!("{}", f);
    }
    let k = r as i64;
    if k % 2 == 0 {
        format!("{}", k / 2)
    } else {
        format!("{}/2", k)
    }
}

/// "2 v3 + v5 + -1 v7" -> [(name, coeff)]
fn parse_linear(s: &str) -> Vec<(String, f64)> {
    let s = s.trim();
    if s == "0" || s.is_empty() {
        return vec![];
    }
    s.split(" + ")
        .map(|t| {
            let t = t.trim();
            match t.split_once(' ') {
                Some((c, v)) => (v.to_string(), c.parse::<f64>().unwrap_or(f64::NAN)),
                None => (t.to_string(), 1.0),
            }
        })
        .collect()
}

fn canon_ilp(d: &VerifIlp) -> String {
    use std::collections::HashMap;
    let mut role: HashMap<String, String> = HashMap::new();
    let mut class: HashMap<String, char> = HashMap::new();
    for (i, v) in d.used.iter().enumerate() {
        role.insert(v.clone(), format!("U{}", i));
        class.insert(v.clone(), 'U');
    }
    for (i, row) in d.used_in_fn.iter().enumerate() {
        for (j, v) in row.iter().enumerate() {
            role.insert(v.clone(), format!("X{}.{}", i, j));
            class.insert(v.clone(), 'X');
        }
    }
    for (j, v) in d.num_join.iter().enumerate() {
        role.insert(v.clone(), format!("N{}", j));
        class.insert(v.clone(), 'N');
    }
    // constraints
    let parsed: Vec<(Vec<(String, f64)>, &str, f64)> = d
        .constraints
        .iter()
        .map(|c| {
            let (l, op, r) = if let Some((l, r)) = c.split_once(" <= ") {
                (l, "<=", r)
            } else if let Some((l, r)) = c.split_once(" = ") {
                (l, "=", r)
            } else {
                (c.as_str(), "?", "nan")
            };
            (parse_linear(l), op, r.trim().parse::<f64>().unwrap_or(f64::NAN))
        })
        .collect();
    // a variable without a role is a slack when it occurs in exactly one constraint
    let mut occ: HashMap<String, usize> = HashMap::new();
    for (terms, _, _) in &parsed {
        for (v, _) in terms {
            if !role.contains_key(v) {
                *occ.entry(v.clone()).or_insert(0) += 1;
            }
        }
    }
    let obj_raw = {
        // "linear" or "linear + const"
        let t = parse_linear(&d.objective);
        t
    };
    let name = |v: &String| -> String {
        if let Some(r) = role.get(v) {
            r.clone()
        } else if occ.get(v) == Some(&1) && !obj_raw.iter().any(|(w, _)| w == v) {
            "S".to_string()
        } else {
            v.clone()
        }
    };
    let show_terms = |terms: &Vec<(String, f64)>| -> String {
        let mut t: Vec<String> = terms.iter().filter(|(_, c)| *c != 0.0).map(|(v, c)| format!("{}*{}", rat(*c), name(v))).collect();
        t.sort_by(|a, b| a.split_once('*').unwrap().1.cmp(b.split_once('*').unwrap().1).then(a.cmp(b)));
        if t.is_empty() {
            "0".to_string()
        } else {
            t.join("+")
        }
    };
    let mut cons: Vec<String> = parsed.iter().map(|(t, op, r)| format!("{}{}{}", show_terms(t), op, rat(if *r == 0.0 { 0.0 } else { *r }))).collect();
    cons.sort();
    // domains by class
    let mut dom: HashMap<char, Vec<String>> = HashMap::new();
    for (v, is_int, mn, mx) in &d.variables {
        let cl = match class.get(v) {
            Some(c) => *c,
            None => {
                if name(v) == "S" {
                    'S'
                } else {
                    '?'
                }
            }
        };
        let desc = if *is_int && *mn == 0.0 && *mx == 1.0 {
            "b".to_string()
        } else if !*is_int && *mn == 0.0 && *mx == f64::INFINITY {
            "c".to_string()
        } else if *is_int && *mn == f64::NEG_INFINITY && *mx == f64::INFINITY {
            "i".to_string()
        } else {
            format!("?{}:{}:{}", is_int, mn, mx)
        };
        let e = dom.entry(cl).or_default();
        if !e.contains(&desc) {
            e.push(desc);
        }
    }
    let mut doms: Vec<String> = Vec::new();
    for cl in ['U', 'X', 'N', 'S', '?'] {
        if let Some(v) = dom.get_mut(&cl) {
            v.sort();
            doms.push(format!("{}:{}", cl, v.join("/")));
        }
    }
    format!(
        "ok kind={} F={} cubes={} ecubes={} dom={} obj={} cons={}",
        d.kind,
        d.num_functions,
        show_cubes(&d.cubes),
        show_ecubes(&d.ecubes),
        doms.join(","),
        show_terms(&obj_raw),
        if cons.is_empty() { "-".to_string() } else { cons.join("|") }
    )
}

// ------------------------------------------------------------------ independent optimum

fn all_cubes(n: usize) -> Vec<(u32, u32)> {
    let mx = 1u32 << n;
    let mut v = vec![];
    for p in 0..mx {
        for q in 0..mx {
            if p & q == 0 {
                v.push((p, q));
            }
        }
    }
    v
}

fn tt_of_cube(n: usize, c: (u32, u32)) -> u32 {
    let mut t = 0u32;
    for m in 0..(1u32 << n) {
        if cube_val(c.0, c.1, m) {
            t |= 1 << m;
        }
    }
    t
}

fn tt_of_ecube(n: usize, e: (u32, bool)) -> u32 {
    let mut t = 0u32;
    for m in 0..(1u32 << n) {
        if ecube_val(e.0, e.1, m) {
            t |= 1 << m;
        }
    }
    t
}

/// single output: cheapest OR-cover of f by implicants (Dijkstra over covered sets)
fn opt_or_cover(n: usize, f: u32, a: i64, x: i64, o: i64, with_ecubes: bool) -> i64 {
    // items: (truth table, gate cost)
    let mut items: Vec<(u32, i64)> = Vec::new();
    for c in all_cubes(n) {
        let t = tt_of_cube(n, c);
        if t & !f == 0 {
            items.push((t, a * gates((c.0.count_ones() + c.1.count_ones()) as usize)));
        }
    }
    if with_ecubes {
        for v in 0..(1u32 << n) {
            for xn in [false, true] {
                let t = tt_of_ecube(n, (v, xn));
                if t & !f == 0 {
                    items.push((t, x * gates(v.count_ones() as usize)));
                }
            }
        }
    }
    if f == 0 {
        return 0;
    }
    let states = 1usize << (1usize << n);
    let inf = i64::MAX / 4;
    let mut dist = vec![inf; states];
    // first item has no OR gate
    for (t, c) in &items {
        if *t != 0 || true {
            let s = *t as usize;
            if *c < dist[s] {
                dist[s] = *c;
            }
        }
    }
    // relax until fixpoint (costs are non-negative, few states)
    loop {
        let mut changed = false;
        for s in 0..states {
            if dist[s] >= inf {
                continue;
            }
            for (t, c) in &items {
                let s2 = s | *t as usize;
                let d = dist[s] + c + o;
                if s2 != s && d < dist[s2] {
                    dist[s2] = d;
                    changed = true;
                }
            }
        }
        if !changed {
            break;
        }
    }
    dist[f as usize]
}

/// single output: cheapest XOR of cubes equal to f
fn opt_xor_cover(n: usize, f: u32, a: i64, x: i64) -> i64 {
    let items: Vec<(u32, i64)> =
        all_cubes(n).into_iter().map(|c| (tt_of_cube(n, c), a * gates((c.0.count_ones() + c.1.count_ones()) as usize))).collect();
    if f == 0 {
        return 0;
    }
    let states = 1usize << (1usize << n);
    let inf = i64::MAX / 4;
    // dist over (function, at least one cube used): first cube free of xor cost
    let mut dist = vec![inf; states];
    let mut first = vec![inf; states];
    for (t, c) in &items {
        let s = *t as usize;
        if *c < first[s] {
            first[s] = *c;
        }
    }
    for s in 0..states {
        dist[s] = first[s];
    }
    loop {
        let mut changed = false;
        for s in 0..states {
            if dist[s] >= inf {
                continue;
            }
            for (t, c) in &items {
                let s2 = s ^ *t as usize;
                let d = dist[s] + c + x;
                if d < dist[s2] {
                    dist[s2] = d;
                    changed = true;
                }
            }
        }
        if !changed {
            break;
        }
    }
    dist[f as usize]
}

/// two outputs, n <= 2: subset search with shared gate cost
/// exact optimum for up to three outputs of at most two variables, any kind: every subset of the
/// candidate list per output
fn opt_small(n: usize, f: &[u32], a: i64, x: i64, o: i64, kind: &str) -> i64 {
    let cubes = all_cubes(n);
    let mut items: Vec<(u32, i64)> =
        cubes.iter().map(|c| (tt_of_cube(n, *c), a * gates((c.0.count_ones() + c.1.count_ones()) as usize))).collect();
    if kind == "sopes" {
        for v in 0..(1u32 << n) {
            for xn in [false, true] {
                if v.count_ones() >= 2 {
                    items.push((tt_of_ecube(n, (v, xn)), x * gates(v.count_ones() as usize)));
                }
            }
        }
    }
    let k = items.len();
    let join = if kind == "esop" { x } else { o };
    let mut ok: Vec<Vec<u32>> = Vec::new();
    for fj in f {
        let mut l = Vec::new();
        for s in 0..(1u32 << k) {
            let mut val = 0u32;
            let mut good = true;
            for i in 0..k {
                if (s >> i) & 1 != 0 {
                    if kind == "esop" {
                        val ^= items[i].0;
                    } else {
                        if items[i].0 & !fj != 0 {
                            good = false;
                            break;
                        }
                        val |= items[i].0;
                    }
                }
            }
            if good && val == *fj {
                l.push(s);
            }
        }
        ok.push(l);
    }
    let cost_of = |u: u32| -> i64 { (0..k).filter(|&i| (u >> i) & 1 != 0).map(|i| items[i].1).sum() };
    let joins = |s: u32| -> i64 { let c = s.count_ones() as i64; if c > 1 { join * (c - 1) } else { 0 } };
    let mut best = i64::MAX;
    let mut idx = vec![0usize; ok.len()];
    if ok.iter().any(|l| l.is_empty()) {
        return best;
    }
    loop {
        let mut u = 0u32;
        let mut c = 0i64;
        for (j, &q) in idx.iter().enumerate() {
            u |= ok[j][q];
            c += joins(ok[j][q]);
        }
        c += cost_of(u);
        best = best.min(c);
        let mut j = 0;
        loop {
            if j == idx.len() {
                return best;
            }
            idx[j] += 1;
            if idx[j] < ok[j].len() {
                break;
            }
            idx[j] = 0;
            j += 1;
        }
    }
}

fn opt_pair(n: usize, f: [u32; 2], a: i64, x: i64, o: i64, kind: &str) -> i64 {
    let cubes = all_cubes(n);
    let mut items: Vec<(u32, i64)> =
        cubes.iter().map(|c| (tt_of_cube(n, *c), a * gates((c.0.count_ones() + c.1.count_ones()) as usize))).collect();
    if kind == "sopes" {
        for v in 0..(1u32 << n) {
            for xn in [false, true] {
                if v.count_ones() >= 2 {
                    items.push((tt_of_ecube(n, (v, xn)), x * gates(v.count_ones() as usize)));
                }
            }
        }
    }
    let k = items.len();
    let join = if kind == "esop" { x } else { o };
    // for each output, the subsets that realise it
    let mut ok: [Vec<u32>; 2] = [vec![], vec![]];
    for j in 0..2 {
        for s in 0..(1u32 << k) {
            let mut val = 0u32;
            let mut good = true;
            for i in 0..k {
                if (s >> i) & 1 != 0 {
                    if kind == "esop" {
                        val ^= items[i].0;
                    } else {
                        if items[i].0 & !f[j] != 0 {
                            good = false;
                            break;
                        }
                        val |= items[i].0;
                    }
                }
            }
            if good && val == f[j] {
                ok[j].push(s);
            }
        }
    }
    let mut best = i64::MAX;
    for s0 in &ok[0] {
        for s1 in &ok[1] {
            let u = s0 | s1;
            let mut c = 0i64;
            for i in 0..k {
                if (u >> i) & 1 != 0 {
                    c += items[i].1;
                }
            }
            for s in [s0, s1] {
                let cnt = s.count_ones() as i64;
                if cnt > 1 {
                    c += join * (cnt - 1);
                }
            }
            if c < best {
                best = c;
            }
        }
    }
    best
}

/// Exact optimum for up to three outputs of an OR form (cubes, and exclusive cubes for "sopes"):
/// a redundant term never pays (it costs a join gate >= 1 and at best shares a term that some
/// other output pays for anyway), so each output ranges over its irredundant covers by implicant
/// candidates only.  `None` when the search space is too large to enumerate.
fn opt_multi_or(n: usize, fs: &[u32], a: i64, x: i64, o: i64, with_ecubes: bool) -> Option<i64> {
    let mut items: Vec<(u32, i64)> = all_cubes(n)
        .iter()
        .map(|c| (tt_of_cube(n, *c), a * gates((c.0.count_ones() + c.1.count_ones()) as usize)))
        .collect();
    if with_ecubes {
        for v in 0..(1u32 << n) {
            for xn in [false, true] {
                if v.count_ones() >= 2 {
                    items.push((tt_of_ecube(n, (v, xn)), x * gates(v.count_ones() as usize)));
                }
            }
        }
    }
    // per output: irredundant covers as bit sets over `items`
    let mut covers: Vec<Vec<u64>> = Vec::new();
    for &f in fs {
        let imp: Vec<usize> = (0..items.len()).filter(|&i| items[i].0 != 0 && items[i].0 & !f == 0).collect();
        if imp.len() > 18 {
            return None;
        }
        let mut cs = Vec::new();
        for s in 0..(1u32 << imp.len()) {
            let mut val = 0u32;
            for (k, &i) in imp.iter().enumerate() {
                if (s >> k) & 1 != 0 {
                    val |= items[i].0;
                }
            }
            if val != f {
                continue;
            }
            // irredundant?
            let mut irr = true;
            for k in 0..imp.len() {
                if (s >> k) & 1 != 0 {
                    let mut v2 = 0u32;
                    for (k2, &i) in imp.iter().enumerate() {
                        if k2 != k && (s >> k2) & 1 != 0 {
                            v2 |= items[i].0;
                        }
                    }
                    if v2 == f {
                        irr = false;
                        break;
                    }
                }
            }
            if irr {
                let mut bits = 0u64;
                for (k, &i) in imp.iter().enumerate() {
                    if (s >> k) & 1 != 0 {
                        bits |= 1u64 << i;
                    }
                }
                cs.push(bits);
            }
        }
        covers.push(cs);
    }
    let total: u128 = covers.iter().map(|c| c.len() as u128).product();
    if total > 30_000_000 {
        return None;
    }
    let cost_of = |u: u64| -> i64 { (0..items.len()).filter(|&i| (u >> i) & 1 != 0).map(|i| items[i].1).sum() };
    let joins = |s: u64| -> i64 { let c = s.count_ones() as i64; if c > 1 { o * (c - 1) } else { 0 } };
    let mut best = i64::MAX;
    let mut idx = vec![0usize; covers.len()];
    if covers.iter().any(|c| c.is_empty()) {
        return None;
    }
    loop {
        let mut u = 0u64;
        let mut c = 0i64;
        for (j, &k) in idx.iter().enumerate() {
            u |= covers[j][k];
            c += joins(covers[j][k]);
        }
        c += cost_of(u);
        if c < best {
            best = c;
        }
        let mut j = 0;
        loop {
            if j == idx.len() {
                return Some(best);
            }
            idx[j] += 1;
            if idx[j] < covers[j].len() {
                break;
            }
            idx[j] = 0;
            j += 1;
        }
    }
}

fn oracle_line(line: &str) -> Result<bool, String> {
    let t: Vec<&str> = line.split_whitespace().collect();
    if t.first() == Some(&"mipcand") {
        // candidates: exactly the implicant cubes of some listed function / implicant ecubes with >= 2 literals
        let n: usize = t[1].parse().unwrap();
        let tabs: Vec<Tab> = t[2..].iter().map(|s| parse_tab(s).unwrap()).collect();
        let out = impl_line(line);
        let o: Vec<&str> = out.split_whitespace().collect();
        if o.len() != 3 {
            return Err(format!("candidates: `{}`", out));
        }
        let got: Vec<(u32, u32)> = if o[1] == "-" { vec![] } else { o[1].split(',').map(|x| parse_raw_cube(x).unwrap()).collect() };
        let mut want: Vec<(u32, u32)> = Vec::new();
        for c in all_cubes(n) {
            if tabs.iter().any(|f| (0..(1u32 << n)).all(|m| !cube_val(c.0, c.1, m) || f.bit(m as usize))) {
                want.push(c);
            }
        }
        let mut g = got.clone();
        g.sort();
        want.sort();
        if g != want {
            return Err(format!("candidate cubes differ from the implicants: got {} expected {}", got.len(), want.len()));
        }
        return Ok(true);
    }
    let p = parse(line).ok_or("bad line")?;
    let n = p.tabs[0].n;
    let (cs, es) = run_opt(&p)?;
    // exactness and implicants
    for (j, f) in p.tabs.iter().enumerate() {
        for m in 0..(1usize << n) {
            let v = if p.kind == "esop" {
                cs[j].iter().fold(false, |acc, c| acc != cube_val(c.0, c.1, m as u32))
            } else {
                cs[j].iter().any(|c| cube_val(c.0, c.1, m as u32)) || es[j].iter().any(|e| ecube_val(e.0, e.1, m as u32))
            };
            if v != f.bit(m) {
                return Err(format!("output {} does not denote its function at assignment {}", j, m));
            }
        }
        if p.kind != "esop" {
            for c in &cs[j] {
                if (0..(1usize << n)).any(|m| cube_val(c.0, c.1, m as u32) && !f.bit(m)) {
                    return Err(format!("cube {:x}/{:x} of output {} is not an implicant", c.0, c.1, j));
                }
            }
            for e in &es[j] {
                if (0..(1usize << n)).any(|m| ecube_val(e.0, e.1, m as u32) && !f.bit(m)) {
                    return Err(format!("exclusive cube of output {} is not an implicant", j));
                }
            }
        }
    }
    let cost = solution_cost(&cs, &es, p.a, p.x, p.o, p.kind == "esop");
    let tt: Vec<u32> = p.tabs.iter().map(|t| t.w[0] as u32).collect();
    let opt = if p.tabs.len() == 1 && n <= 3 {
        Some(match p.kind.as_str() {
            "sop" => opt_or_cover(n, tt[0], p.a, p.x, p.o, false),
            "sopes" => opt_or_cover(n, tt[0], p.a, p.x, p.o, true),
            _ => opt_xor_cover(n, tt[0], p.a, p.x),
        })
    } else if p.tabs.len() == 2 && n <= 2 {
        Some(opt_pair(n, [tt[0], tt[1]], p.a, p.x, p.o, &p.kind))
    } else if p.tabs.len() == 3 && n <= 2 && p.kind != "sopes" {
        Some(opt_small(n, &tt, p.a, p.x, p.o, &p.kind))
    } else if p.kind != "esop" && p.tabs.len() <= 3 && n <= 3 {
        opt_multi_or(n, &tt, p.a, p.x, p.o, p.kind == "sopes")
    } else {
        None
    };
    if let Some(best) = opt {
        if cost != best {
            return Err(format!("returned cost {} but the minimum over exact two-level forms is {}", cost, best));
        }
    }
    Ok(opt.is_some())
}

/// deep search, run only when an obligation or the correspondence is broken and the ordinary
/// workload shows no failing input: many three-output lists of three variables with high gate
/// costs (totals of 20 to 60, where a solver that stops within a few percent of the optimum, or a
/// slightly wrong objective, shows), optimum by enumeration of the irredundant covers
fn gen_deep(seed: u64) -> Vec<String> {
    let mut r = Rng::new(seed, "C18-deep");
    let mut out = Vec::new();
    let costs: [(i64, i64, i64); 6] = [(3, 1, 3), (3, 2, 3), (3, 3, 3), (2, 1, 3), (3, 1, 2), (3, 2, 1)];
    for i in 0..10000 {
        let tabs: Vec<String> = (0..3)
            .map(|_| {
                // on-set densities of about 0.4, 0.55 and 0.7
                let v = match i % 3 {
                    0 => r.next() & (r.next() | r.next() >> 1),
                    1 => r.next() & (r.next() | r.next() | r.next()),
                    _ => r.next() | (r.next() & r.next()),
                } & 0xff;
                Tab::new(3, vec![v]).show()
            })
            .collect();
        let (a, x, o) = costs[i % 6];
        // measured on a seeded 5% optimality gap: only the richer `sopes` programmes stop early
        let kind = if i % 10 == 9 { "sop" } else { "sopes" };
        out.push(format!("mip {} {} {} {} {}", kind, a, x, o, tabs.join(" ")));
    }
    // every list of three functions of two variables as an XOR form, AND dear and XOR cheap (seed
    // C18-g: a cap on the number of cubes per output shows only there)
    for f in 0..16u64 {
        for g in f..16u64 {
            for h in g..16u64 {
                let t = |v: u64| Tab::new(2, vec![v]).show();
                out.push(format!("mip esop 3 1 1 {} {} {}", t(f), t(g), t(h)));
            }
        }
    }
    out
}

fn gen(thorough: bool, seed: u64) -> Vec<String> {
    let mut r = Rng::new(seed, "C18");
    let mut out = Vec::new();
    let kinds = ["sop", "sopes", "esop"];
    let triples: Vec<(i64, i64, i64)> = if thorough {
        let mut v = vec![];
        for a in 1..=3 {
            for x in 1..=3 {
                for o in 1..=3 {
                    v.push((a, x, o));
                }
            }
        }
        v
    } else {
        vec![(1, 1, 1), (1, 2, 3), (3, 1, 2), (2, 3, 1)]
    };
    let tabs_n = |n: usize| -> Vec<Tab> { (0..(1u64 << (1u64 << n))).map(|v| Tab::new(n, vec![v])).collect() };
    for n in 0..=2usize {
        for f in tabs_n(n) {
            out.push(format!("mipcand {} {}", n, f.show()));
            for k in kinds {
                for (a, x, o) in &triples {
                    out.push(format!("mip {} {} {} {} {}", k, a, x, o, f.show()));
                }
            }
        }
        // pairs
        let all = tabs_n(n);
        // every ordered pair of functions (the property quantifies over all lists of 1..2 functions
        // for n <= 2); quick: one cost triple per pair, thorough: three
        let npairs = all.len() * all.len();
        for i in 0..npairs {
            let (f, g) = (all[i / all.len()].clone(), all[i % all.len()].clone());
            for rep in 0..(if thorough { 3 } else { 1 }) {
                let (a, x, o) = if rep == 0 && i % 2 == 0 { (1, 1, 1) } else { *r.pick(&triples) };
                for k in kinds {
                    out.push(format!("mip {} {} {} {} {} {}", k, a, x, o, f.show(), g.show()));
                }
            }
            if i % 4 == 0 {
                out.push(format!("mipcand {} {} {}", n, f.show(), g.show()));
            }
        }
    }
    // all single functions of three variables
    let step = if thorough { 1 } else { 3 };
    for (i, f) in tabs_n(3).into_iter().enumerate() {
        if i % step != 0 && !(f.w[0] == 0xaa || f.w[0] == 0xcc || f.w[0] == 0xf0 || f.w[0] == 0x96 || f.w[0] == 0xe8) {
            continue;
        }
        let (a, x, o) = if thorough { *r.pick(&triples) } else { (1, 1, 1) };
        for k in kinds {
            out.push(format!("mip {} {} {} {} {}", k, a, x, o, f.show()));
        }
        if i % 16 == 0 {
            out.push(format!("mipcand 3 {}", f.show()));
        }
    }
    // the projections (the case the pinned tree got wrong)
    for n in 1..=3usize {
        for v in 0..n {
            let f = Tab::from_fn(n, |m| (m >> v) & 1 != 0);
            out.push(format!("mip esop 1 1 1 {}", f.show()));
            out.push(format!("mip esop 2 3 1 {}", f.show()));
        }
    }
    // two and three outputs of three variables, unequal gate costs (seed C18-b: the AND and OR
    // costs swapped only shows with several outputs); optimum by enumeration of the irredundant
    // covers of each output
    // (measured on that seed: about 4% of sparse triples with costs 1/3 show it, pairs almost never)
    let unequal: [(i64, i64, i64); 4] = [(1, 2, 3), (3, 2, 1), (3, 1, 1), (1, 1, 3)];
    let saved_r = std::mem::replace(&mut r, Rng::new(seed, "C18-triples"));
    for i in 0..(if thorough { 600 } else { 160 }) {
        let k = if i % 8 == 7 { 2 } else { 3 };
        let tabs: Vec<String> = (0..k)
            .map(|_| {
                // sparse on-sets keep the number of implicants, hence of covers, small
                let v = (r.next() & r.next()) & 0xff;
                Tab::new(3, vec![v]).show()
            })
            .collect();
        let (a, x, o) = unequal[i % 4];
        let kind = if i % 9 == 4 { "sopes" } else { "sop" };
        out.push(format!("mip {} {} {} {} {}", kind, a, x, o, tabs.join(" ")));
    }
    // every cost triple of {1,2,3}^3 (the property's quantifier) on a few functions where the costs
    // decide the shape: XOR3, MAJ, AND-OR, and two outputs sharing an XOR2 cube (seed C18-c: a
    // pruning of the exclusive candidates that is wrong for one triple only)
    for a in 1..=3i64 {
        for x in 1..=3i64 {
            for o in 1..=3i64 {
                for k in kinds {
                    if thorough || (a + 2 * x + 3 * o) % 2 == 0 || k == "sopes" {
                        out.push(format!("mip {} {} {} {} 3:96", k, a, x, o));
                        out.push(format!("mip {} {} {} {} 3:e8", k, a, x, o));
                        out.push(format!("mip {} {} {} {} 2:6 2:6", k, a, x, o));
                    }
                }
                out.push(format!("mipilp sopes {} {} {} 3:96", a, x, o));
                out.push(format!("mipilp sopes {} {} {} 2:6 2:e", a, x, o));
            }
        }
    }
    // three outputs of two variables as XOR forms (exact optimum by enumeration)
    for (f, g, h) in [(1u64, 1u64, 8u64), (6, 9, 1), (7, 8, 14), (1, 2, 4), (6, 6, 9), (11, 13, 14), (15, 1, 6), (8, 4, 2)] {
        let t = |v: u64| Tab::new(2, vec![v]).show();
        for (a, x) in [(3i64, 1i64), (1, 1), (1, 3), (2, 1)] {
            out.push(format!("mip esop {} {} 1 {} {} {}", a, x, t(f), t(g), t(h)));
        }
    }
    // the integer programme itself (hook verif_last_ilp) against the model's, constraint by
    // constraint: every function of n <= 2, lists of one to three functions of n <= 4
    for n in 0..=2usize {
        for f in tabs_n(n) {
            for k in kinds {
                out.push(format!("mipilp {} 1 2 3 {}", k, f.show()));
            }
        }
    }
    r = Rng::new(seed, "C18-ilp");
    for i in 0..(if thorough { 400 } else { 90 }) {
        let n = match i % 6 {
            0 | 1 => 2,
            5 => 4,
            _ => 3,
        };
        if n == 4 && i % 12 != 5 {
            continue;
        }
        let k = 1 + (i / 6) % 3;
        let tabs: Vec<String> = (0..k)
            .map(|_| {
                let mut t = crate::gen::gen_tab(&mut r, n);
                if r.below(3) == 0 {
                    t.w[0] &= r.next();
                }
                t.show()
            })
            .collect();
        let (a, x, o) = *r.pick(&triples);
        let kind = kinds[i % 3];
        if kind == "esop" && n == 4 && k > 1 {
            continue;
        }
        out.push(format!("mipilp {} {} {} {} {}", kind, a, x, o, tabs.join(" ")));
    }
    r = saved_r;
    // random lists up to n = 4 with 1..3 outputs: exactness only
    for _ in 0..(if thorough { 60 } else { 8 }) {
        let n = 3 + r.below(2);
        let k = 1 + r.below(3);
        let tabs: Vec<String> = (0..k).map(|_| crate::gen::gen_tab(&mut r, n).show()).collect();
        let (a, x, o) = *r.pick(&triples);
        let kind = *r.pick(&kinds);
        out.push(format!("mip {} {} {} {} {}", kind, a, x, o, tabs.join(" ")));
    }
    out
}

pub fn run<W: Write>(args: &[String], w: &mut W) {
    match args.first().map(|s| s.as_str()) {
        Some("gen") => {
            let thorough = args.get(1).map(|s| s == "thorough").unwrap_or(false);
            let seed: u64 = args.get(2).and_then(|s| s.parse().ok()).unwrap_or(1);
            let lines = if args.get(1).map(|s| s == "deep").unwrap_or(false) { gen_deep(seed) } else { gen(thorough, seed) };
            for l in lines {
                writeln!(w, "{}", l).unwrap();
            }
        }
        Some("impl") => {
            let stdin = std::io::stdin();
            let lines: Vec<String> = stdin.lock().lines().map(|l| l.unwrap()).filter(|l| !l.trim().is_empty()).collect();
            for r in crate::par_map(&lines, |l| impl_line(l)) {
                writeln!(w, "{}", r).unwrap();
            }
        }
        Some("oracle") => {
            let stdin = std::io::stdin();
            let lines: Vec<String> = stdin.lock().lines().map(|l| l.unwrap()).filter(|l| !l.trim().is_empty()).collect();
            let res = crate::par_map(&lines, |l| match catch_unwind(AssertUnwindSafe(|| oracle_line(l))) {
                Ok(Ok(true)) => "N".to_string(),
                Ok(Ok(false)) => "T".to_string(),
                Ok(Err(e)) => format!("F {}", e),
                Err(_) => "F oracle panicked".to_string(),
            });
            let mut nt = 0;
            let mut fails = 0;
            for (l, r) in lines.iter().zip(res.iter()) {
                if r == "N" {
                    nt += 1;
                } else if let Some(e) = r.strip_prefix("F ") {
                    fails += 1;
                    writeln!(w, "FAIL {} :: {}", l, e).unwrap();
                }
            }
            writeln!(w, "ORACLE prop=C18 checked={} nontrivial={} fails={}", lines.len(), nt, fails).unwrap();
        }
        _ => {}
    }
}

import VoluteModel.Model.Api
import VoluteModel.Model.Sop
import VoluteModel.Model.Optim
import VoluteModel.Model.Mip
import VoluteModel.Spec.EvalText

/-!
# Line-protocol driver for the model (`vmodel`)

Reads one case per line on stdin, prints one result line per case on stdout.
The Rust harness (`vharness impl`) does the same with the real crate; `bin/check` diffs.
Protocol: DESIGN.md, Appendix B.
-/

open VoluteModel

namespace Drv

def hexCharVal (c : Char) : Option Nat :=
  let n := c.toNat
  if 48 ≤ n ∧ n ≤ 57 then some (n - 48)
  else if 97 ≤ n ∧ n ≤ 102 then some (n - 87)
  else none

def parseHexNat (s : String) : Option Nat :=
  if s.isEmpty then none
  else s.toList.foldl (fun acc c => match acc, hexCharVal c with
    | some a, some d => some (a * 16 + d)
    | _, _ => none) (some 0)

def parseW (s : String) : Option W := (parseHexNat s).map (BitVec.ofNat 64)

def parseWords (s : String) : Option (Array W) :=
  if s == "-" then some #[]
  else (s.splitOn ",").foldl (fun acc p => match acc, parseW p with
    | some a, some w => some (a.push w)
    | _, _ => none) (some #[])

/-- `n:w0,w1,…` -/
def parseTab (s : String) : Option Lut :=
  match s.splitOn ":" with
  | [a, b] => match a.toNat?, parseWords b with
    | some n, some t => some ⟨n, t⟩
    | _, _ => none
  | _ => none

/-- bytes as lower-case hex pairs (`-` = empty) -/
def parseBytes (s : String) : Option (List Nat) :=
  if s == "-" then some []
  else
    let cs := s.toList
    let rec go : List Char → List Nat → Option (List Nat)
      | [], acc => some acc.reverse
      | [_], _ => none
      | a :: b :: rest, acc => match hexCharVal a, hexCharVal b with
        | some x, some y => go rest ((x * 16 + y) :: acc)
        | _, _ => none
    go cs []

def hexDigitChar (d : Nat) : Char := Char.ofNat (if d < 10 then 48 + d else 87 + d)

def showHexNat (v : Nat) : String :=
  String.ofList ((Nat.toDigits 16 v))

def showW (w : W) : String := showHexNat w.toNat

def showWords (t : Array W) : String :=
  if t.isEmpty then "-" else ",".intercalate (t.toList.map showW)

def showTab (l : Lut) : String := s!"{l.n}:{showWords l.t}"

def showBytes (b : List Nat) : String :=
  if b.isEmpty then "-"
  else String.ofList (b.flatMap (fun x => [hexDigitChar (x / 16 % 16), hexDigitChar (x % 16)]))

def showNats (l : List Nat) : String :=
  if l.isEmpty then "-" else ",".intercalate (l.map toString)

def showBool (b : Bool) : String := if b then "1" else "0"

def showOrd : Ordering → String
  | .lt => "lt" | .eq => "eq" | .gt => "gt"

def showDecomp : DecompositionType → String
  | .None => "None" | .Independent => "Independent" | .Identity => "Identity"
  | .Negation => "Negation" | .And => "And" | .Or => "Or" | .Le => "Le" | .Lt => "Lt" | .Xor => "Xor"

def okOrPanic (o : Option String) : String := match o with
  | some s => "ok " ++ s
  | none => "panic"

/-- FNV-1a style digest over words, used for iterator runs -/
def digestStep (h : Nat) (w : W) : Nat := ((h ^^^ w.toNat) * 1099511628211) % 2^64

def parseCube (s : String) : Option Cube :=
  match s.splitOn "/" with
  | [a, b] => match parseHexNat a, parseHexNat b with
    | some p, some n => some ⟨BitVec.ofNat 32 p, BitVec.ofNat 32 n⟩
    | _, _ => none
  | _ => none

def showCube (c : Cube) : String := s!"{showHexNat c.pos.toNat}/{showHexNat c.neg.toNat}"

def parseCubes (s : String) : Option (List Cube) :=
  if s == "-" then some []
  else (s.splitOn ",").foldr (fun p acc => match parseCube p, acc with
    | some c, some l => some (c :: l)
    | _, _ => none) (some [])

def showCubes (l : List Cube) : String :=
  if l.isEmpty then "-" else ",".intercalate (l.map showCube)

def parseEcube (s : String) : Option Ecube :=
  match s.splitOn "/" with
  | [a, b] => match parseHexNat a with
    | some v => some ⟨BitVec.ofNat 32 v, b == "1"⟩
    | _ => none
  | _ => none

def showEcube (e : Ecube) : String := s!"{showHexNat e.vars.toNat}/{showBool e.xnor}"

def parseEcubes (s : String) : Option (List Ecube) :=
  if s == "-" then some []
  else (s.splitOn ",").foldr (fun p acc => match parseEcube p, acc with
    | some c, some l => some (c :: l)
    | _, _ => none) (some [])

def showEcubes (l : List Ecube) : String :=
  if l.isEmpty then "-" else ",".intercalate (l.map showEcube)

def parseNats (s : String) : Option (List Nat) :=
  if s == "-" then some []
  else (s.splitOn ",").foldr (fun p acc => match p.toNat?, acc with
    | some c, some l => some (c :: l)
    | _, _ => none) (some [])

/-- the provided methods of `Iterator` on an iterator that yields the list `l` (`Cube::all`,
    `Ecube::all`): `a` calls of `next`, one adaptor, one more `next` -/
def listAdaptor {α : Type} (l : List α) (a : Nat) (kind : String) (b : Nat) (sh : α → String)
    (le : α → α → Bool) : String :=
  let shw (o : Option α) : String := match o with | some x => sh x | none => "none"
  let rest := l.drop a
  match kind with
  | "nth" | "skip" =>
    let r := rest[b]?
    let r2 := if r.isSome then rest[b + 1]? else none
    s!"ok {shw r} {shw r2}"
  | "stepby" =>
    let polls := (List.range 5).map (fun k => rest[k * b]?)
    -- once exhausted, always exhausted
    let (out, _) := polls.foldl (fun (acc : List String × Bool) r =>
      if acc.2 then (acc.1 ++ ["none"], true)
      else (acc.1 ++ [shw r], r.isNone)) ([], false)
    "ok " ++ " ".intercalate out
  | "count" => s!"ok {rest.length} none"
  | "last" => s!"ok {shw rest.getLast?} none"
  | "max" => s!"ok {shw (rest.foldl (fun acc x => match acc with
      | none => some x | some m => if !(le m x) then some m else some x) none)} none"
  | "min" => s!"ok {shw (rest.foldl (fun acc x => match acc with
      | none => some x | some m => if !(le m x) then some x else some m) none)} none"
  | "hint" => "ok 1"
  | "vcount" => s!"ok {rest.length}"
  | "vlast" => s!"ok {shw rest.getLast?}"
  | "vmax" => s!"ok {shw (rest.foldl (fun acc x => match acc with
      | none => some x | some m => if !(le m x) then some m else some x) none)}"
  | "vmin" => s!"ok {shw (rest.foldl (fun acc x => match acc with
      | none => some x | some m => if !(le m x) then some x else some m) none)}"
  | "skipcount" => s!"ok {(rest.drop b).length}"
  | "vfold" => s!"ok {rest.length} {if rest.isEmpty then "-" else ",".intercalate (rest.map sh)}"
  | _ => "bad-op"

/-- `sop expr n <RPN>`: operands are cube lists, `&` `|` `!` the operators of `Sop`; `none` = panic,
    `some none` = malformed line -/
def evalSopExpr (n : Nat) : List String → List Sop → Option (Option Sop)
  | [], [s] => some (some s)
  | [], _ => some none
  | tok :: r, st =>
    if tok == "&" || tok == "|" then
      match st with
      | b :: a :: st' =>
        (match (if tok == "&" then Sop.and a b else Sop.or a b) with
        | some x => evalSopExpr n r (x :: st')
        | none => none)
      | _ => some none
    else if tok == "!" then
      match st with
      | a :: st' => (match Sop.not a with
        | some x => evalSopExpr n r (x :: st')
        | none => none)
      | _ => some none
    else match parseCubes tok with
      | some cs => (match Sop.fromCubes n cs with
        | some x => evalSopExpr n r (x :: st)
        | none => none)
      | none => some none

/-- `esop expr n <RPN>`: `^` and `!` of `Esop` -/
def evalEsopExpr (n : Nat) : List String → List Esop → Option (Option Esop)
  | [], [s] => some (some s)
  | [], _ => some none
  | tok :: r, st =>
    if tok == "^" then
      match st with
      | b :: a :: st' => (match Esop.xor a b with
        | some x => evalEsopExpr n r (x :: st')
        | none => none)
      | _ => some none
    else if tok == "!" then
      match st with
      | a :: st' => evalEsopExpr n r (Esop.not a :: st')
      | _ => some none
    else match parseCubes tok with
      | some cs => evalEsopExpr n r ((⟨n, cs⟩ : Esop) :: st)
      | none => some none

/-- run `k` items of the iterator from `it`; returns (items seen, digest, whether one more call yields an item) -/
def iterRun : Nat → Dyn.Iter → Nat → Nat → Nat × Nat × Bool
  | 0, it, cnt, h => (cnt, h, it.next.1.isSome)
  | k + 1, it, cnt, h =>
    match it.next with
    | (none, _) => (cnt, h, false)
    | (some l, it') => iterRun k it' (cnt + 1) (l.t.foldl digestStep h)

/-- one history step on a register file (C02): returns the new register file or `none` (panic) -/
def histStep (isStatic : Bool) (regs : Array Lut) (tok : String) : Option (Array Lut) :=
  let ps := tok.splitOn ","
  let reg (s : String) : Option Lut := s.toNat?.bind (fun i => regs[i]?)
  let setReg (d : String) (v : Option Lut) : Option (Array Lut) :=
    match d.toNat?, v with
    | some i, some l => if i < regs.size then some (regs.set! i l) else none
    | _, _ => none
  let n := (regs[0]?.map (·.n)).getD 0
  match ps with
  | ["zero", d] => setReg d (some (Dyn.zero n))
  | ["one", d] => setReg d (some (Dyn.one n))
  | ["nth", d, v] => setReg d (v.toNat?.bind (Dyn.nthVar n))
  | ["parity", d] => setReg d (some (Dyn.parity n))
  | ["maj", d] => setReg d (some (Dyn.majority n))
  | ["thr", d, k] => setReg d (k.toNat?.map (Dyn.threshold n))
  | ["equ", d, k] => setReg d (k.toNat?.map (Dyn.equals n))
  | ["sym", d, c] => setReg d ((parseW c).map (Dyn.symmetric n))
  | ["blk", d, w] => setReg d ((parseWords (w.replace ";" ",")).bind (fun b =>
      if isStatic then Stat.fromBlocks n b else Dyn.fromBlocks n b))
  | ["hex", d, s] => match parseBytes s with
    | some b => (match Dyn.fromHexString n b with
      | some l => setReg d (some l)
      | none => some regs)          -- Err: register unchanged
    | none => none
  | ["conv", d, n2, w] =>
    -- a dynamic table of n2 variables converted into the register type: `TryFrom<Lut>` for the
    -- static types (Err leaves the register alone), the identity for `Lut` when the size fits
    match n2.toNat?, parseWords (w.replace ";" ",") with
    | some k, some b =>
      if b.size != tableSize k then none
      else match Dyn.fromBlocks k b with
        | none => none
        | some src =>
          if isStatic then
            match Stat.tryFromDyn n src with
            | some l => setReg d (some l)
            | none => some regs
          else if k == n then setReg d (some src) else some regs
    | _, _ => none
  | ["mov", d, a] => setReg d (reg a)
  | ["not", d, a] => setReg d ((reg a).map Dyn.not)
  | ["and", d, a, b] => setReg d (do Dyn.and (← reg a) (← reg b))
  | ["or", d, a, b] => setReg d (do Dyn.or (← reg a) (← reg b))
  | ["xor", d, a, b] => setReg d (do Dyn.xor (← reg a) (← reg b))
  | ["flip", d, a, i] => setReg d (do Dyn.flip (← reg a) (← i.toNat?))
  | ["swap", d, a, i, j] => setReg d (do Dyn.swap (← reg a) (← i.toNat?) (← j.toNat?))
  | ["swadj", d, a, i] => setReg d (do Dyn.swapAdjacent (← reg a) (← i.toNat?))
  | ["cof0", d, a, i] => setReg d (do (← Dyn.cofactors (← reg a) (← i.toNat?)).1)
  | ["cof1", d, a, i] => setReg d (do (← Dyn.cofactors (← reg a) (← i.toNat?)).2)
  | ["fromcof", d, a, b, i] => setReg d (do
      let x ← reg a; let y ← reg b; let k ← i.toNat?
      if isStatic then Stat.fromCofactors x y k else Dyn.fromCofactors x y k)
  | ["setbit", d, a, m] => setReg d (do Dyn.setBit (← reg a) (← m.toNat?))
  | ["unsetbit", d, a, m] => setReg d (do Dyn.unsetBit (← reg a) (← m.toNat?))
  | ["pcanon", d, a] => setReg d (do (← Dyn.pCanonization (← reg a)).1)
  | ["ncanon", d, a] => setReg d (do (← Dyn.nCanonization (← reg a)).1)
  | ["npncanon", d, a] => setReg d (do (← Dyn.npnCanonization (← reg a)).1)
  | ["next", d, a] => setReg d ((reg a).map (fun l => (Dyn.verifNext l).1))
  | ["fromsop", d, a] => setReg d ((reg a).map (fun l => (Sop.fromLut l).toLut))
  | ["fromesop", d, a] => setReg d ((reg a).map (fun l => (Esop.fromLut l).toLut))
  | _ => none

def runHist (isStatic : Bool) (n : Nat) (prog : List String) : String :=
  let regs0 : Array Lut := Array.replicate 4 (Dyn.zero n)
  let rec go : List String → Array Lut → List String → String
    | [], _, acc => "ok " ++ " ".intercalate acc.reverse
    | tok :: rest, regs, acc =>
      match histStep isStatic regs tok with
      | none => "ok " ++ " ".intercalate ("panic" :: acc).reverse
      | some regs' => go rest regs' ((";".intercalate (regs'.toList.map showTab)) :: acc)
  go prog regs0 []

def step (line : String) : String :=
  let toks := (line.trimAscii.toString.splitOn " ").filter (· ≠ "")
  match toks with
  | ["ctor", ty, kind, n] =>
    (match n.toNat? with
    | some n => (match kind with
      | "zero" => "ok " ++ showTab (Dyn.zero n)
      | "one" => "ok " ++ showTab (Dyn.one n)
      | "parity" => "ok " ++ showTab (Dyn.parity n)
      | "majority" => "ok " ++ showTab (Dyn.majority n)
      | "default" => "ok " ++ showTab (if ty == "S" then Dyn.zero n else Dyn.default)
      | _ => "bad-op")
    | none => "bad-op")
  | ["ctor", _, kind, n, a] =>
    (match n.toNat? with
    | some n => (match kind with
      | "nth_var" => (match a.toNat? with
        | some v => okOrPanic ((Dyn.nthVar n v).map showTab)
        | none => "bad-op")
      | "threshold" => (match a.toNat? with
        | some k => "ok " ++ showTab (Dyn.threshold n k)
        | none => "bad-op")
      | "equals" => (match a.toNat? with
        | some k => "ok " ++ showTab (Dyn.equals n k)
        | none => "bad-op")
      | "symmetric" => (match parseW a with
        | some c => "ok " ++ showTab (Dyn.symmetric n c)
        | none => "bad-op")
      | _ => "bad-op")
    | none => "bad-op")
  | ["get", _, tab, m] =>
    (match parseTab tab, m.toNat? with
    | some l, some m => okOrPanic ((Dyn.getBit l m).map showBool)
    | _, _ => "bad-op")
  | ["set", _, tab, m, v] =>
    (match parseTab tab, m.toNat? with
    | some l, some m => okOrPanic ((Dyn.setValue l m (v == "1")).map showTab)
    | _, _ => "bad-op")
  | ["setbit", _, tab, m] =>
    (match parseTab tab, m.toNat? with
    | some l, some m => okOrPanic ((Dyn.setBit l m).map showTab)
    | _, _ => "bad-op")
  | ["unsetbit", _, tab, m] =>
    (match parseTab tab, m.toNat? with
    | some l, some m => okOrPanic ((Dyn.unsetBit l m).map showTab)
    | _, _ => "bad-op")
  | ["not", _, form, tab] =>
    (match parseTab tab, form.toNat? with
    | some l, some f => "ok " ++ showTab (Dyn.notForm f l)
    | _, _ => "bad-op")
  | ["bin", ty, op, form, a, b] =>
    (match parseTab a, parseTab b, form.toNat? with
    | some a, some b, some f =>
      let o := match op with | "and" => 0 | "or" => 1 | _ => 2
      okOrPanic ((if ty == "S" then Stat.binForm o f a b else Dyn.binForm o f a b).map showTab)
    | _, _, _ => "bad-op")
  | ["flip", _, _, tab, i] =>
    (match parseTab tab, i.toNat? with
    | some l, some i => okOrPanic ((Dyn.flip l i).map showTab)
    | _, _ => "bad-op")
  | ["swap", _, _, tab, i, j] =>
    (match parseTab tab, i.toNat?, j.toNat? with
    | some l, some i, some j => okOrPanic ((Dyn.swap l i j).map showTab)
    | _, _, _ => "bad-op")
  | ["swapadj", _, _, tab, i] =>
    (match parseTab tab, i.toNat? with
    | some l, some i => okOrPanic ((Dyn.swapAdjacent l i).map showTab)
    | _, _ => "bad-op")
  | ["cof", _, tab, i] =>
    (match parseTab tab, i.toNat? with
    | some l, some i => okOrPanic ((Dyn.cofactors l i).map (fun c => showTab c.1 ++ " " ++ showTab c.2))
    | _, _ => "bad-op")
  | ["fromcof", ty, c0, c1, i] =>
    (match parseTab c0, parseTab c1, i.toNat? with
    | some a, some b, some i =>
      okOrPanic ((if ty == "S" then Stat.fromCofactors a b i else Dyn.fromCofactors a b i).map showTab)
    | _, _, _ => "bad-op")
  -- C19: random() reading an injected word stream (hook verif_rng); asking for a word beyond
  -- the stream panics in the hook
  | ["rnd", _, n, ws] =>
    (match n.toNat?, (if ws == "-" then some #[] else parseWords ws) with
    | some n, some b =>
      if b.size < tableSize n then "panic"
      else s!"ok {showTab (Dyn.random n (fun i => b[i]?.getD 0))} left={b.size - tableSize n}"
    | _, _ => "bad-op")
  | ["fromblocks", ty, n, ws] =>
    (match n.toNat?, parseWords ws with
    | some n, some b =>
      okOrPanic ((if ty == "S" then Stat.fromBlocks n b else Dyn.fromBlocks n b).map showTab)
    | _, _ => "bad-op")
  | ["pcanon", _, tab] =>
    (match parseTab tab with
    | some l => okOrPanic ((Dyn.pCanonization l).map (fun r => s!"{showTab r.1} {showNats r.2.toList} 0"))
    | _ => "bad-op")
  | ["ncanon", _, tab] =>
    (match parseTab tab with
    | some l => okOrPanic ((Dyn.nCanonization l).map (fun r => s!"{showTab r.1} {showNats (List.range l.n)} {r.2}"))
    | _ => "bad-op")
  | ["npncanon", _, tab] =>
    (match parseTab tab with
    | some l => okOrPanic ((Dyn.npnCanonization l).map (fun r => s!"{showTab r.1} {showNats r.2.1.toList} {r.2.2}"))
    | _ => "bad-op")
  | ["clonefrom", _, _, src] => (match parseTab src with
    | some l => s!"ok {showTab l} 1" | _ => "bad-op")
  | ["npnorbit", _, _, _] => "unmodelled"
  | ["canonseq", n] =>
    (match n.toNat? with
    | some n => (match swapsFor n, flipsFor n with
      | some s, some f => s!"ok {showNats s} {showNats f}"
      | _, _ => "panic")
    | none => "bad-op")
  | ["canonused", kind, n] =>
    (match n.toNat? with
    | some n =>
      let sw := if n ≤ 1 then some [] else swapsFor n
      let fl := if n = 0 then some [] else flipsFor n
      (match kind, sw, fl with
      | "p", some s, _ => s!"ok {showNats s} -"
      | "n", _, some f => s!"ok - {showNats f}"
      | "npn", some s, some f => s!"ok {showNats s} {showNats f}"
      | _, _, _ => "panic")
    | none => "bad-op")
  | ["decomp", _, tab, i] =>
    (match parseTab tab, i.toNat? with
    | some l, some i => okOrPanic ((Dyn.topDecomposition l i).map showDecomp)
    | _, _ => "bad-op")
  | ["dflags", _, tab, i] =>
    (match parseTab tab, i.toNat? with
    | some l, some i => okOrPanic ((Dyn.topDecomposition l i).map (fun d =>
        s!"{showDecomp d} {showBool d.isTrivial} {showBool d.isAndType} {showBool d.isXorType} {showBool d.isSimpleGate}"))
    | _, _ => "bad-op")
  | ["linfo", _, tab] =>
    (match parseTab tab with
    | some l => s!"ok {l.n} {Dyn.numBits l} {Dyn.numBlocks l}"
    | none => "bad-op")
  | ["posunate", _, tab, i] =>
    (match parseTab tab, i.toNat? with
    | some l, some i => okOrPanic ((Dyn.isPosUnate l i).map showBool)
    | _, _ => "bad-op")
  | ["negunate", _, tab, i] =>
    (match parseTab tab, i.toNat? with
    | some l, some i => okOrPanic ((Dyn.isNegUnate l i).map showBool)
    | _, _ => "bad-op")
  | "bdd" :: ty :: n :: tabs =>
    (match n.toNat?, tabs.mapM parseTab with
    | some n, some ls =>
      okOrPanic ((if ty == "S" then Stat.bddComplexity n ls else Dyn.bddComplexity ls).map toString)
    | _, _ => "bad-op")
  | ["cmp", ty, a, b] =>
    (match parseTab a, parseTab b with
    | some a, some b => "ok " ++ showOrd (if ty == "S" then Stat.cmp a b else Dyn.cmp a b)
    | _, _ => "bad-op")
  | ["eq", _, a, b] =>
    (match parseTab a, parseTab b with
    | some a, some b => "ok " ++ showBool (decide (a = b))
    | _, _ => "bad-op")
  | ["next", _, tab] =>
    (match parseTab tab with
    | some l => let r := Dyn.verifNext l; s!"ok {showTab r.1} {showBool r.2}"
    | _ => "bad-op")
  | ["iter", _, n, k] =>
    (match n.toNat?, k.toNat? with
    | some n, some k =>
      let r := iterRun k (Dyn.allFunctions n) 0 14695981039346656037
      s!"ok {r.1} {showHexNat r.2.1} {showBool r.2.2}"
    | _, _ => "bad-op")
  | ["itera", _, n, a, kind, b] =>
    (match n.toNat?, a.toNat?, b.toNat? with
    | some n, some a, some b =>
      let it := (Dyn.allFunctions n).advance a
      let sh (o : Option Lut) : String := match o with | some l => showTab l | none => "none"
      let fuel := 2 ^ (2 ^ n) + 1
      (match kind with
      | "nth" | "skip" => let r := it.nth b; s!"ok {sh r.1} {sh r.2.next.1}"
      | "stepby" => "ok " ++ " ".intercalate ((it.stepBy b 5 true).map sh)
      | "count" => let r := it.rest fuel; s!"ok {r.1.length} {sh r.2.next.1}"
      | "last" => let r := it.rest fuel; s!"ok {sh r.1.getLast?} {sh r.2.next.1}"
      | "max" => let r := it.rest fuel; s!"ok {sh (Dyn.maxOf r.1)} {sh r.2.next.1}"
      | "min" => let r := it.rest fuel; s!"ok {sh (Dyn.minOf r.1)} {sh r.2.next.1}"
      | "fold" => let r := it.rest fuel
        s!"ok {showHexNat (r.1.foldl (fun h l => l.t.foldl digestStep h) 14695981039346656037)} {sh r.2.next.1}"
      | "hint" | "hint0" => "ok 1"
      | "takecollect" => let r := (it.rest b).1
        s!"ok {r.length} {sh r.getLast?}"
      | "vcount" => s!"ok {(it.rest fuel).1.length}"
      | "vlast" => s!"ok {sh (it.rest fuel).1.getLast?}"
      | "vmax" => s!"ok {sh (Dyn.maxOf (it.rest fuel).1)}"
      | "vmin" => s!"ok {sh (Dyn.minOf (it.rest fuel).1)}"
      | "skipcount" => s!"ok {((it.advance b).rest fuel).1.length}"
      | "vfold" => let r := (it.rest fuel).1
        let key (l : Lut) : Nat := l.t.foldl (fun a w => (a * 31 + w.toNat) % 2 ^ 64) 0
        s!"ok {r.length} {showHexNat (r.foldl (fun a l => (a + key l) % 2 ^ 64) 0)} {sh r.head?} {sh r.getLast?}"
      | _ => "bad-op")
    | _, _, _ => "bad-op")
  | ["tohex", _, tab] => (match parseTab tab with
    | some l => "ok " ++ showBytes (Dyn.toHexString l) | _ => "bad-op")
  | ["tobin", _, tab] => (match parseTab tab with
    | some l => "ok " ++ showBytes (Dyn.toBinString l) | _ => "bad-op")
  | ["display", _, tab] => (match parseTab tab with
    | some l => "ok " ++ showBytes (Dyn.display l) | _ => "bad-op")
  | ["fmtx", _, tab] => (match parseTab tab with
    | some l => "ok " ++ showBytes (Dyn.lowerHex l) | _ => "bad-op")
  | ["fmtb", _, tab] => (match parseTab tab with
    | some l => "ok " ++ showBytes (Dyn.binary l) | _ => "bad-op")
  | ["fromhex", _, n, s] =>
    (match n.toNat?, parseBytes s with
    | some n, some b => (match Dyn.fromHexString n b with
      | some l => "ok " ++ showTab l
      | none => "err")
    | _, _ => "bad-op")
  | ["s2d", tab] => (match parseTab tab with
    | some l => okOrPanic ((Stat.toDyn l).map showTab) | _ => "bad-op")
  | ["d2s", n, tab] => (match n.toNat?, parseTab tab with
    | some n, some l => (match Stat.tryFromDyn n l with
      | some r => "ok " ++ showTab r
      | none => "err")
    | _, _ => "bad-op")
  | ["toint", tab] => (match parseTab tab with
    | some l => s!"ok {showHexNat (Stat.toInt l)}" | _ => "bad-op")
  | ["fromint", n, v] => (match n.toNat?, parseHexNat v with
    | some n, some v => okOrPanic ((Stat.fromInt n v).map showTab)
    | _, _ => "bad-op")
  | "hist" :: ty :: n :: prog =>
    (match n.toNat? with
    | some n => runHist (ty == "S") n prog
    | none => "bad-op")
  -- cubes
  | ["cube", "value", c, m] => (match parseCube c, parseHexNat m with
    | some c, some m => "ok " ++ showBool (c.value m) | _, _ => "bad-op")
  | ["cube", "and", a, b] => (match parseCube a, parseCube b with
    | some a, some b => "ok " ++ showCube (Cube.and a b) | _, _ => "bad-op")
  | ["cube", "implies", a, b] => (match parseCube a, parseCube b with
    | some a, some b => "ok " ++ showBool (Cube.implies a b) | _, _ => "bad-op")
  | ["cube", "intersects", a, b] => (match parseCube a, parseCube b with
    | some a, some b => "ok " ++ showBool (Cube.intersects a b) | _, _ => "bad-op")
  | ["cube", "implieslut", c, tab] => (match parseCube c, parseTab tab with
    | some c, some l => "ok " ++ showBool (c.impliesLut l) | _, _ => "bad-op")
  | ["cube", "minterm", n, m] => (match n.toNat?, parseHexNat m with
    | some n, some m => "ok " ++ showCube (Cube.minterm n m) | _, _ => "bad-op")
  | ["cube", "frommask", p, q] => (match parseHexNat p, parseHexNat q with
    | some p, some q => "ok " ++ showCube (Cube.fromMask (BitVec.ofNat 32 p) (BitVec.ofNat 32 q)) | _, _ => "bad-op")
  | ["cube", "fromvars", p, q] => (match parseNats p, parseNats q with
    | some p, some q => "ok " ++ showCube (Cube.fromVars p q) | _, _ => "bad-op")
  | ["cube", "isconstant", c] => (match parseCube c with
    | some c => "ok " ++ showBool c.isConstant | _ => "bad-op")
  | ["fctor", ty, name, n, v] => (match n.toNat?, v.toNat? with
    | some n, some v =>
      (match ty, name with
      | "ecube", "one" => "ok " ++ showEcube Ecube.one
      | "ecube", "zero" => "ok " ++ showEcube Ecube.zero
      | "ecube", "nthvar" => "ok " ++ showEcube (Ecube.nthVar v)
      | "ecube", "nthvarinv" => "ok " ++ showEcube (Ecube.nthVarInv v)
      | "sop", "zero" => "ok " ++ showCubes (Sop.zero n).cubes
      | "sop", "one" => "ok " ++ showCubes (Sop.one n).cubes
      | "sop", "nthvar" => "ok " ++ showCubes (Sop.nthVar n v).cubes
      | "sop", "nthvarinv" => "ok " ++ showCubes (Sop.nthVarInv n v).cubes
      | "esop", "zero" => "ok " ++ showCubes (Esop.zero n).cubes
      | "esop", "one" => "ok " ++ showCubes (Esop.one n).cubes
      | "esop", "nthvar" => "ok " ++ showCubes (Esop.nthVar n v).cubes
      | "esop", "nthvarinv" => "ok " ++ showCubes (Esop.nthVarInv n v).cubes
      | "soes", "zero" => "ok " ++ showEcubes (Soes.zero n).cubes
      | "soes", "one" => "ok " ++ showEcubes (Soes.one n).cubes
      | "soes", "nthvar" => "ok " ++ showEcubes (Soes.nthVar n v).cubes
      | "soes", "nthvarinv" => "ok " ++ showEcubes (Soes.nthVarInv n v).cubes
      | _, _ => "bad-op")
    | _, _ => "bad-op")
  | ["cube", "info", c] => (match parseCube c with
    | some c => s!"ok {c.numLits} {c.numGates} {showBool c.isZero} {showBool c.isOne} {showNats c.posVars} {showNats c.negVars}"
    | _ => "bad-op")
  | ["cube", "all", n] => (match n.toNat? with
    | some n => let l := Cube.all n
      s!"ok {l.length} {showHexNat (l.foldl (fun h c => digestStep (digestStep h (BitVec.ofNat 64 c.pos.toNat)) (BitVec.ofNat 64 c.neg.toNat)) 14695981039346656037)}"
    | _ => "bad-op")
  | ["cube", "alla", n, a, kind, b] => (match n.toNat?, a.toNat?, b.toNat? with
    | some n, some a, some b => listAdaptor (Cube.all n) a kind b showCube Cube.le
    | _, _, _ => "bad-op")
  | ["ecube", "alla", n, a, kind, b] => (match n.toNat?, a.toNat?, b.toNat? with
    | some n, some a, some b => listAdaptor (Ecube.all n) a kind b showEcube
        (fun x y => x.vars.toNat < y.vars.toNat || (x.vars == y.vars && (!x.xnor || y.xnor)))
    | _, _, _ => "bad-op")
  | ["cube", "display", c] => (match parseCube c with
    | some c => "ok " ++ showBytes (Display.cube c) | _ => "bad-op")
  | ["cube", "nthvar", v, inv] => (match v.toNat? with
    | some v => "ok " ++ showCube (if inv == "1" then Cube.nthVarInv v else Cube.nthVar v) | _ => "bad-op")
  -- exclusive cubes
  | ["ecube", "value", e, m] => (match parseEcube e, parseHexNat m with
    | some e, some m => "ok " ++ showBool (e.value m) | _, _ => "bad-op")
  | ["ecube", "xor", a, b] => (match parseEcube a, parseEcube b with
    | some a, some b => "ok " ++ showEcube (Ecube.xor a b) | _, _ => "bad-op")
  -- derived Eq / Ord: (vars, xnor) for exclusive cubes, (pos, neg) for cubes
  | ["ecube", "cmp", a, b] => (match parseEcube a, parseEcube b with
    | some a, some b =>
      s!"ok {showBool (decide (a = b))} {if a = b then "eq" else if Optim.ecubeLe a b then "lt" else "gt"}"
    | _, _ => "bad-op")
  | ["cube", "cmp", a, b] => (match parseCube a, parseCube b with
    | some a, some b =>
      s!"ok {showBool (decide (a = b))} {if a = b then "eq" else if Cube.le a b then "lt" else "gt"}"
    | _, _ => "bad-op")
  | ["ecube", "not", a] => (match parseEcube a with
    | some a => "ok " ++ showEcube (Ecube.not a) | _ => "bad-op")
  | ["ecube", "fromvars", p, x] => (match parseNats p with
    | some p => "ok " ++ showEcube (Ecube.fromVars p (x == "1")) | _ => "bad-op")
  | ["ecube", "info", e] => (match parseEcube e with
    | some e => s!"ok {e.numLits} {e.numGates} {showBool e.isZero} {showBool e.isOne} {showNats e.varsList}"
    | _ => "bad-op")
  | ["ecube", "implieslut", e, tab] => (match parseEcube e, parseTab tab with
    | some e, some l => "ok " ++ showBool (e.impliesLut l) | _, _ => "bad-op")
  | ["ecube", "all", n] => (match n.toNat? with
    | some n => let l := Ecube.all n
      s!"ok {l.length} {showHexNat (l.foldl (fun h c => digestStep (digestStep h (BitVec.ofNat 64 c.vars.toNat)) (if c.xnor then 1 else 0)) 14695981039346656037)}"
    | _ => "bad-op")
  | ["ecube", "display", e] => (match parseEcube e with
    | some e => "ok " ++ showBytes (Display.ecube e) | _ => "bad-op")
  -- sums of products
  | ["sop", "fromcubes", n, cs] => (match n.toNat?, parseCubes cs with
    | some n, some cs => okOrPanic ((Sop.fromCubes n cs).map (fun s => showCubes s.cubes)) | _, _ => "bad-op")
  | "sop" :: "expr" :: n :: toks => (match n.toNat? with
    | some n => (match evalSopExpr n toks [] with
      | some (some r) => "ok " ++ showCubes r.cubes
      | some none => "bad-op"
      | none => "panic")
    | none => "bad-op")
  | "esop" :: "expr" :: n :: toks => (match n.toNat? with
    | some n => (match evalEsopExpr n toks [] with
      | some (some r) => "ok " ++ showCubes r.cubes
      | some none => "bad-op"
      | none => "panic")
    | none => "bad-op")
  | ["sop", "and", n, a, b] => (match n.toNat?, parseCubes a, parseCubes b with
    | some n, some a, some b => okOrPanic ((Sop.and ⟨n, a⟩ ⟨n, b⟩).map (fun s => showCubes s.cubes)) | _, _, _ => "bad-op")
  | ["sop", "or", n, a, b] => (match n.toNat?, parseCubes a, parseCubes b with
    | some n, some a, some b => okOrPanic ((Sop.or ⟨n, a⟩ ⟨n, b⟩).map (fun s => showCubes s.cubes)) | _, _, _ => "bad-op")
  | ["sop", "not", n, a] => (match n.toNat?, parseCubes a with
    | some n, some a => okOrPanic ((Sop.not ⟨n, a⟩).map (fun s => showCubes s.cubes)) | _, _ => "bad-op")
  | ["sop", "value", n, a, m] => (match n.toNat?, parseCubes a, parseHexNat m with
    | some n, some a, some m => "ok " ++ showBool ((⟨n, a⟩ : Sop).value m) | _, _, _ => "bad-op")
  | ["sop", "fromlut", tab] => (match parseTab tab with
    | some l => "ok " ++ showCubes (Sop.fromLut l).cubes | _ => "bad-op")
  | ["sop", "tolut", n, a] => (match n.toNat?, parseCubes a with
    | some n, some a => "ok " ++ showTab (Sop.toLut ⟨n, a⟩) | _, _ => "bad-op")
  | ["sop", "info", n, a] => (match n.toNat?, parseCubes a with
    | some n, some a => let s : Sop := ⟨n, a⟩
      s!"ok {showBool s.isZero} {showBool s.isOne} {s.numCubes} {s.numLits}" | _, _ => "bad-op")
  | ["sop", "display", n, a] => (match n.toNat?, parseCubes a with
    | some n, some a => "ok " ++ showBytes (Display.sop ⟨n, a⟩) | _, _ => "bad-op")
  -- exclusive sums of products
  | ["esop", "fromlut", tab] => (match parseTab tab with
    | some l => "ok " ++ showCubes (Esop.fromLut l).cubes | _ => "bad-op")
  | ["esop", "xor", n, a, b] => (match n.toNat?, parseCubes a, parseCubes b with
    | some n, some a, some b => okOrPanic ((Esop.xor ⟨n, a⟩ ⟨n, b⟩).map (fun s => showCubes s.cubes)) | _, _, _ => "bad-op")
  | ["esop", "not", n, a] => (match n.toNat?, parseCubes a with
    | some n, some a => "ok " ++ showCubes (Esop.not ⟨n, a⟩).cubes | _, _ => "bad-op")
  | ["esop", "value", n, a, m] => (match n.toNat?, parseCubes a, parseHexNat m with
    | some n, some a, some m => "ok " ++ showBool ((⟨n, a⟩ : Esop).value m) | _, _, _ => "bad-op")
  | ["esop", "tolut", n, a] => (match n.toNat?, parseCubes a with
    | some n, some a => "ok " ++ showTab (Esop.toLut ⟨n, a⟩) | _, _ => "bad-op")
  | ["esop", "info", n, a] => (match n.toNat?, parseCubes a with
    | some n, some a => let s : Esop := ⟨n, a⟩
      s!"ok {showBool s.isZero} {showBool s.isOne} {s.numCubes} {s.numLits}" | _, _ => "bad-op")
  | ["esop", "display", n, a] => (match n.toNat?, parseCubes a with
    | some n, some a => "ok " ++ showBytes (Display.esop ⟨n, a⟩) | _, _ => "bad-op")
  -- sums of exclusive sums
  | ["soes", "value", n, a, m] => (match n.toNat?, parseEcubes a, parseHexNat m with
    | some n, some a, some m => "ok " ++ showBool ((⟨n, a⟩ : Soes).value m) | _, _, _ => "bad-op")
  | ["soes", "or", n, a, b] => (match n.toNat?, parseEcubes a, parseEcubes b with
    | some n, some a, some b => okOrPanic ((Soes.or ⟨n, a⟩ ⟨n, b⟩).map (fun s => showEcubes s.cubes)) | _, _, _ => "bad-op")
  | ["soes", "tolut", n, a] => (match n.toNat?, parseEcubes a with
    | some n, some a => "ok " ++ showTab (Soes.toLut ⟨n, a⟩) | _, _ => "bad-op")
  | ["soes", "info", n, a] => (match n.toNat?, parseEcubes a with
    | some n, some a => let s : Soes := ⟨n, a⟩
      s!"ok {showBool s.isZero} {showBool s.isOne} {s.numCubes} {s.numLits}" | _, _ => "bad-op")
  | ["soes", "display", n, a] => (match n.toNat?, parseEcubes a with
    | some n, some a => "ok " ++ showBytes (Display.soes ⟨n, a⟩) | _, _ => "bad-op")
  -- C18
  | "mipcand" :: _ :: tabs =>
    (match tabs.mapM parseTab with
    | some ls => s!"ok {showCubes (Optim.enumerateValidCubesMulti ls)} {showEcubes (Optim.enumerateValidEcubesMulti ls)}"
    | none => "bad-op")
  -- C18: the integer programme an entry point hands to the solver, in canonical text
  | "mipilp" :: kind :: a :: x :: o :: tabs =>
    (match a.toNat?, x.toNat?, o.toNat?, tabs.mapM parseTab with
    | some a, some x, some o, some ls =>
      let n0 := (ls.head?.map (·.n)).getD 0
      let A : Int := a
      let X : Int := if kind == "sop" then -1 else x
      let O : Int := o
      -- `check()`: same number of variables, costs at least 1
      let okCosts := if kind == "esop" then decide (A ≥ 1) && decide (X ≥ 1)
        else decide (A ≥ 1) && decide (O ≥ 1) && (decide (X = -1) || decide (X ≥ 1))
      if !(ls.all (fun l => l.n == n0)) || !okCosts then "panic"
      else if kind == "esop" then
        let terms := Mip.esopTerms ls
        let P := Mip.esopProb ls A X
        let cubes := terms.filterMap (fun t => match t with | .cube c => some c | _ => none)
        let dom := ",".intercalate ((if P.K > 0 then ["U:b"] else []) ++ (if P.K > 0 && P.F > 0 then ["X:b"] else []) ++
          (if P.F > 0 then ["N:c", "S:i"] else []))
        s!"ok kind=esop F={P.F} cubes={showCubes cubes} ecubes=- dom={dom} obj={Mip.showTerms (Mip.objTerms P)} cons={Mip.showCons (Mip.esopCons P)}"
      else if kind == "sop" || kind == "sopes" then
        let terms := Mip.sopTerms ls X
        let P := Mip.sopProb ls A X O
        let cubes := terms.filterMap (fun t => match t with | .cube c => some c | _ => none)
        let ecubes := terms.filterMap (fun t => match t with | .ecube e => some e | _ => none)
        let dom := ",".intercalate ((if P.K > 0 then ["U:b"] else []) ++ (if P.K > 0 && P.F > 0 then ["X:b"] else []) ++
          (if P.F > 0 then ["N:c"] else []))
        s!"ok kind=sop F={P.F} cubes={showCubes cubes} ecubes={showEcubes ecubes} dom={dom} obj={Mip.showTerms (Mip.objTerms P)} cons={Mip.showCons (Mip.sopCons P)}"
      else "bad-op"
    | _, _, _, _ => "bad-op")
  | "mip" :: kind :: a :: x :: o :: tabs =>
    (match a.toNat?, x.toNat?, o.toNat?, tabs.mapM parseTab with
    | some a, some x, some o, some ls =>
      (match Optim.optimum kind a x o ls with
      | some c => s!"ok {c}"
      | none => "ok ?")
    | _, _, _, _ => "bad-op")
  -- C16: evaluate a printed formula (bytes) on an assignment
  | ["evaltext", s, m] => (match parseBytes s, parseHexNat m with
    | some b, some m => (match Spec.evalText b m with
      | some v => "ok " ++ showBool v
      | none => "err")
    | _, _ => "bad-op")
  | _ => "bad-op"

/-- `seq A ;; B ;; ...`: the calls one after the other; the model has no state, so the results
    are the results of the calls taken alone -/
def stepLine (line : String) : String :=
  let l := line.trimAscii.toString
  if l.startsWith "seq " then
    " ;; ".intercalate (((l.drop 4).toString.splitOn " ;; ").map (fun c => "[" ++ step c ++ "]"))
  else step line

partial def loop (h : IO.FS.Stream) (out : IO.FS.Stream) : IO Unit := do
  let line ← h.getLine
  if line.isEmpty then return ()
  out.putStrLn (stepLine line)
  loop h out

end Drv

def main : IO Unit := do
  let stdin ← IO.getStdin
  let stdout ← IO.getStdout
  Drv.loop stdin stdout

import VoluteModel.Model.Api
import VoluteModel.Model.Sop
import VoluteModel.Spec.EvalText
import VoluteModel.Model.Optim

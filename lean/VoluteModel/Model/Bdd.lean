import VoluteModel.Model.Ops

/-!
# Model of src/bdd.rs
-/

namespace VoluteModel

/-- Rust `Vec::dedup`: remove consecutive duplicates -/
def dedupAdj {α : Type} [DecidableEq α] : List α → List α
  | [] => []
  | [a] => [a]
  | a :: b :: l => if a = b then dedupAdj (b :: l) else a :: dedupAdj (b :: l)

/-- inner loop of `level_complexity` on one word: `iters` sub-tables of `shift` bits -/
def levelChunks (level shift : Nat) (mask : W) : Nat → W → List W
  | 0, _ => []
  | iters + 1, c =>
    let lut := if c &&& 1#64 != 0#64 then ~~~ c else c
    let lut := lut &&& mask
    let c' := if level < 5 then c >>> shift else c
    (if lut != 0#64 then [lut] else []) ++ levelChunks level shift mask iters c'

/-- the `retain` filter of `level_complexity` -/
def levelKeep (level : Nat) (c : W) : Bool :=
  let midShift := 1 <<< level
  let midMask := ~~~ 0#64 >>> (64 - midShift)
  let h := c >>> midShift
  let l := c &&& midMask
  if l == h then false
  else if l == (~~~ h &&& midMask) && (l == 0#64 || h == 0#64) then false
  else true

/-- `level_complexity` (`none` = `assert!` on the level) -/
def levelComplexity (table : Array W) (level : Nat) : Option Nat :=
  if ¬ (level < 6 ∧ level ≥ 1) then none
  else
    let shift := 1 <<< (level + 1)
    let mask := ~~~ 0#64 >>> (64 - shift)
    let luts := table.toList.flatMap (levelChunks level shift mask ((64 + shift - 1) / shift))
    let luts := luts.filter (levelKeep level)
    let luts := luts.mergeSort (fun a b => a.toNat ≤ b.toNat)
    some (dedupAdj luts).length

/-- lexicographic `<=` on word vectors (derived `Ord` of `Vec<u64>`) -/
def vecLe (a b : List W) : Bool := lexCmp a b != .gt

/-- consecutive groups of `nb` words (`(0..len).step_by(nb)` with `table[i..i+nb]`);
    `none` = slice index out of range -/
def wordGroups (nb : Nat) : Nat → List W → Option (List (List W))
  | 0, _ => some []
  | fuel + 1, l =>
    if l.isEmpty then some []
    else if l.length < nb then none
    else (wordGroups nb fuel (l.drop nb)).map (fun r => l.take nb :: r)

/-- the `retain` filter of `large_level_complexity` -/
def largeKeep (midNb : Nat) (c : List W) : Bool :=
  let h := c.drop midNb
  let l := c.take midNb
  if l == h then false
  else
    let opp := (List.zip l h).all (fun p => p.1 == ~~~ p.2)
    let lz := l.all (· == 0#64)
    let hz := h.all (· == 0#64)
    if opp && (lz || hz) then false else true

/-- `large_level_complexity` -/
def largeLevelComplexity (table : Array W) (level : Nat) : Option Nat :=
  if ¬ level ≥ 6 then none
  else
    let nb := 1 <<< (level - 5)
    match wordGroups nb table.size table.toList with
    | none => none
    | some groups =>
      let luts := groups.filterMap (fun c =>
        let c := if (c.headD 0) &&& 1#64 != 0#64 then c.map (~~~ ·) else c
        if c.any (· != 0#64) then some c else none)
      let midNb := 1 <<< (level - 6)
      let luts := luts.filter (largeKeep midNb)
      let luts := luts.mergeSort vecLe
      some (dedupAdj luts).length

/-- `table_complexity` -/
def tableComplexity (n : Nat) (table : Array W) : Option Nat :=
  let small := (List.range' 1 (min n 6 - 1)).foldl
    (fun acc level => match acc, levelComplexity table level with
      | some a, some b => some (a + b) | _, _ => none) (some 0)
  (List.range' 6 (n - 6)).foldl
    (fun acc level => match acc, largeLevelComplexity table level with
      | some a, some b => some (a + b) | _, _ => none) small

end VoluteModel

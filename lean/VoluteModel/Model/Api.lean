import VoluteModel.Model.Ops
import VoluteModel.Model.Text
import VoluteModel.Model.Canon
import VoluteModel.Model.Decomp
import VoluteModel.Model.Bdd

/-!
# Model of the public API: src/lut.rs (`Dyn`) and src/static_lut.rs (`Stat`)

One definition per public method.  `Option`: `none` = the call panics.  (`from_hex_string`
returns `Option (Option Lut)`: outer = no panic, inner = `Ok`.)  The two layers are written
separately because the sources differ (static operators have no size assertion - the types
guarantee it -, `from_blocks` goes through `clone_from_slice`, `bdd_complexity` has no prelude).
A `StaticLut<N,T>` is modelled as a `Lut` whose `n` is `N`.
-/

namespace VoluteModel

def guard' (c : Bool) : Option Unit := if c then some () else none

namespace Dyn

/-- `Lut::new` -/
def new (n : Nat) : Lut := ⟨n, Array.replicate (tableSize n) 0#64⟩

def numBits (l : Lut) : Nat := 1 <<< l.n
def numBlocks (l : Lut) : Nat := tableSize l.n

def checkVar (l : Lut) (ind : Nat) : Bool := ind < l.n
def checkLut (l r : Lut) : Bool := l.n == r.n
def checkBit (l : Lut) (ind : Nat) : Bool := ind < numBits l

def one (n : Nat) : Lut := ⟨n, fillOne n (new n).t⟩
def zero (n : Nat) : Lut := ⟨n, fillZero (new n).t⟩
def nthVar (n var : Nat) : Option Lut :=
  if var < n then some ⟨n, fillNthVar n (new n).t var⟩ else none
def parity (n : Nat) : Lut := ⟨n, fillParity n (new n).t⟩
def majority (n : Nat) : Lut := ⟨n, fillMajority n (new n).t⟩
def threshold (n k : Nat) : Lut := ⟨n, fillThreshold n (new n).t k⟩
def equals (n k : Nat) : Lut := ⟨n, fillEquals n (new n).t k⟩
def symmetric (n : Nat) (c : W) : Lut := ⟨n, fillSymmetric n (new n).t c⟩
def random (n : Nat) (rng : Nat → W) : Lut := ⟨n, fillRandom n (new n).t rng⟩
def default : Lut := zero 0

def getBit (l : Lut) (mask : Nat) : Option Bool :=
  if checkBit l mask then some (VoluteModel.getBit l.t mask) else none
def value := getBit
def setBit (l : Lut) (mask : Nat) : Option Lut :=
  if checkBit l mask then some { l with t := VoluteModel.setBit l.t mask } else none
def unsetBit (l : Lut) (mask : Nat) : Option Lut :=
  if checkBit l mask then some { l with t := VoluteModel.unsetBit l.t mask } else none
def setValue (l : Lut) (mask : Nat) (v : Bool) : Option Lut :=
  if v then setBit l mask else unsetBit l mask

def notInplace (l : Lut) : Lut := { l with t := VoluteModel.notInplace l.n l.t }
def andInplace (l r : Lut) : Option Lut :=
  if checkLut l r then some { l with t := VoluteModel.andInplace l.t r.t } else none
def orInplace (l r : Lut) : Option Lut :=
  if checkLut l r then some { l with t := VoluteModel.orInplace l.t r.t } else none
def xorInplace (l r : Lut) : Option Lut :=
  if checkLut l r then some { l with t := VoluteModel.xorInplace l.t r.t } else none

def flipInplace (l : Lut) (ind : Nat) : Option Lut :=
  if checkVar l ind then some { l with t := VoluteModel.flipInplace l.t ind } else none
def swapInplace (l : Lut) (i j : Nat) : Option Lut :=
  if checkVar l i && checkVar l j then some { l with t := VoluteModel.swapInplace l.t i j } else none
def swapAdjacentInplace (l : Lut) (ind : Nat) : Option Lut :=
  if checkVar l ind && checkVar l (ind + 1) then
    some { l with t := VoluteModel.swapAdjacentInplace l.t ind } else none

/- the copying forms: `let mut l = self.clone(); l.x_inplace(..); l` -/
def not (l : Lut) : Lut := notInplace l
def and (l r : Lut) : Option Lut := andInplace l r
def or (l r : Lut) : Option Lut := orInplace l r
def xor (l r : Lut) : Option Lut := xorInplace l r
def flip (l : Lut) (ind : Nat) : Option Lut := flipInplace l ind
def swap (l : Lut) (i j : Nat) : Option Lut := swapInplace l i j
def swapAdjacent (l : Lut) (ind : Nat) : Option Lut := swapAdjacentInplace l ind

/-- `cofactors` (with `check_var`) -/
def cofactors (l : Lut) (ind : Nat) : Option (Lut × Lut) :=
  if checkVar l ind then
    some ({ l with t := cofactor0Inplace l.t ind }, { l with t := cofactor1Inplace l.t ind })
  else none

/-- `from_cofactors` (with `assert_eq!` on the sizes and `check_var`) -/
def fromCofactors (c0 c1 : Lut) (ind : Nat) : Option Lut :=
  if c0.n != c1.n then none
  else if !checkVar c0 ind then none
  else some ⟨c0.n, fromCofactorsInplace (new c0.n).t c0.t c1.t ind⟩

def blocks (l : Lut) : Array W := l.t

/-- `from_blocks` -/
def fromBlocks (n : Nat) (b : Array W) : Option Lut :=
  if b.size == tableSize n then some ⟨n, b⟩ else none

def pCanonization (l : Lut) : Option (Lut × Array Nat) :=
  (VoluteModel.pCanonization l.n l.t).map (fun r => (⟨l.n, r.1⟩, r.2))
def nCanonization (l : Lut) : Option (Lut × Nat) :=
  (VoluteModel.nCanonization l.n l.t).map (fun r => (⟨l.n, r.1⟩, r.2))
def npnCanonization (l : Lut) : Option (Lut × Array Nat × Nat) :=
  (VoluteModel.npnCanonization l.n l.t).map (fun r => (⟨l.n, r.1⟩, r.2.1, r.2.2))

def topDecomposition (l : Lut) (ind : Nat) := VoluteModel.topDecomposition l.n l.t ind
def isPosUnate (l : Lut) (ind : Nat) := inputPosUnate l.n l.t ind
def isNegUnate (l : Lut) (ind : Nat) := inputNegUnate l.n l.t ind

/-- `bdd_complexity` -/
def bddComplexity (luts : List Lut) : Option Nat :=
  match luts with
  | [] => some 0
  | l0 :: _ =>
    if luts.all (fun l => l.n == l0.n) then
      tableComplexity l0.n (luts.flatMap (fun l => l.t.toList)).toArray
    else none

def toHexString (l : Lut) : List Nat := toHex l.n l.t
def toBinString (l : Lut) : List Nat := toBin l.n l.t
def display (l : Lut) : List Nat := fmtHex l.n l.t
def lowerHex (l : Lut) : List Nat := fmtHex l.n l.t
def binary (l : Lut) : List Nat := fmtBin l.n l.t

/-- `from_hex_string`: `none` = `Err(())` (it never panics) -/
def fromHexString (n : Nat) (s : List Nat) : Option Lut :=
  (fillHex n (tableSize n) s).map (fun t => ⟨n, t⟩)

/-- `Ord::cmp` -/
def cmp (a b : Lut) : Ordering :=
  if a.n != b.n then compare a.n b.n else cmpTables a.t b.t

/-- `LutIterator`: state `(lut, ok)` -/
structure Iter where
  lut : Lut
  ok : Bool

def allFunctions (n : Nat) : Iter := ⟨zero n, true⟩

def Iter.next (it : Iter) : Option Lut × Iter :=
  if !it.ok then (none, it)
  else
    let r := nextInplace it.lut.n it.lut.t
    (some it.lut, ⟨{ it.lut with t := r.1 }, r.2⟩)

/-! ### the provided methods of `Iterator`, as the standard library defines them on top of `next`

`LutIterator` / `StaticLutIterator` implement `next` only, so `nth`, `skip`, `step_by`, `count`,
`last`, `min`, `max`, `fold` are the library's defaults.  They are modelled here so that an
override of one of them in the crate is compared with what the default does. -/

/-- the iterator after `k` calls of `next` (an exhausted iterator stays where it is) -/
def Iter.advance (it : Iter) : Nat → Iter
  | 0 => it
  | k + 1 => (it.next.2).advance k

/-- `Iterator::nth(k)`: skip `k` items, return the next one -/
def Iter.nth (it : Iter) (k : Nat) : Option Lut × Iter := (it.advance k).next

/-- `step_by(step)`, first `cnt` polls: the first poll is `next`, every later one `nth(step - 1)` -/
def Iter.stepBy (it : Iter) (step : Nat) : Nat → Bool → List (Option Lut)
  | 0, _ => []
  | cnt + 1, first =>
    let r := if first then it.next else it.nth (step - 1)
    r.1 :: Iter.stepBy r.2 step cnt false

/-- all remaining items (at most `fuel` of them) and the iterator after them -/
def Iter.rest (it : Iter) : Nat → List Lut × Iter
  | 0 => ([], it)
  | fuel + 1 =>
    match it.next with
    | (none, it') => ([], it')
    | (some l, it') => let r := Iter.rest it' fuel; (l :: r.1, r.2)

/-- `Iterator::max` (the last of the greatest elements) / `Iterator::min` (the first of the least) -/
def maxOf (ls : List Lut) : Option Lut :=
  ls.foldl (fun acc x => match acc with
    | none => some x
    | some a => if cmp a x == .gt then some a else some x) none

def minOf (ls : List Lut) : Option Lut :=
  ls.foldl (fun acc x => match acc with
    | none => some x
    | some a => if cmp a x == .gt then some x else some a) none

/-- hook `verif_next`: one successor step -/
def verifNext (l : Lut) : Lut × Bool :=
  let r := nextInplace l.n l.t
  ({ l with t := r.1 }, r.2)

/-! ### the syntactic forms of the operators (lut.rs:432-595)

Every form is `clone / move` + compound assignment + kernel.  Forms are numbered; the harness
uses the same numbering.  The result is `(value, lhs after, rhs after)` so that "borrowed
operands are unchanged" is part of what is compared. -/

/-- `bitand_assign(&mut self, rhs: &Lut)` etc. -/
def opAssignRef (op : Nat) (l r : Lut) : Option Lut :=
  if l.n == r.n then
    some { l with t := match op with
      | 0 => VoluteModel.andInplace l.t r.t
      | 1 => VoluteModel.orInplace l.t r.t
      | _ => VoluteModel.xorInplace l.t r.t }
  else none

/-- number of binary forms: 0 named method, 1 named in-place, 2 `a op b`, 3 `&a op b`,
    4 `&a op &b`, 5 `a op &b`, 6 `a op= b`, 7 `a op= &b` -/
def numBinForms : Nat := 8

def binForm (op form : Nat) (a b : Lut) : Option Lut :=
  match form with
  | 0 | 1 => match op with
    | 0 => andInplace a b
    | 1 => orInplace a b
    | _ => xorInplace a b
  | _ => opAssignRef op a b

/-- forms of NOT: 0 `not()`, 1 `not_inplace`, 2 `!a`, 3 `!&a` -/
def numNotForms : Nat := 4
def notForm (_form : Nat) (a : Lut) : Lut := notInplace a

end Dyn

namespace Stat

/-- `from_blocks` of `StaticLut<N,T>`: `clone_from_slice` panics on a length mismatch -/
def fromBlocks (n : Nat) (b : Array W) : Option Lut :=
  if b.size == tableSize n then some ⟨n, b⟩ else none

/-- binary operators: same type, no assertion needed -/
def binForm (op _form : Nat) (a b : Lut) : Option Lut :=
  some { a with t := match op with
    | 0 => VoluteModel.andInplace a.t b.t
    | 1 => VoluteModel.orInplace a.t b.t
    | _ => VoluteModel.xorInplace a.t b.t }

/-- `from_cofactors` of StaticLut (with `check_var`) -/
def fromCofactors (c0 c1 : Lut) (ind : Nat) : Option Lut :=
  if !Dyn.checkVar c0 ind then none
  else some ⟨c0.n, fromCofactorsInplace (Dyn.new c0.n).t c0.t c1.t ind⟩

/-- `bdd_complexity` of StaticLut: no prelude -/
def bddComplexity (n : Nat) (luts : List Lut) : Option Nat :=
  tableComplexity n (luts.flatMap (fun l => l.t.toList)).toArray

/-- `Ord::cmp` of StaticLut -/
def cmp (a b : Lut) : Ordering := cmpTables a.t b.t

/-- `TryFrom<Lut> for StaticLut<N,T>`: `none` = `Err(())` -/
def tryFromDyn (n : Nat) (l : Lut) : Option Lut :=
  if l.n != n then none else fromBlocks n l.t

/-- `From<StaticLut<N,T>> for Lut` -/
def toDyn (l : Lut) : Option Lut := Dyn.fromBlocks l.n l.t

/-- `From<u8> for Lut3`, … : `from_blocks(&[v as u64])` -/
def fromInt (n : Nat) (v : Nat) : Option Lut := fromBlocks n #[BitVec.ofNat 64 v]

/-- `From<Lut3> for u8`, … : `(table[0] & !VAR_MASK[N]) as uN`; Lut6: `table[0]` -/
def toInt (l : Lut) : Nat :=
  let w := l.t[0]?.getD 0
  if l.n == 6 then w.toNat
  else ((w &&& ~~~ varMask l.n).toNat) % 2 ^ (2 ^ l.n)

end Stat

end VoluteModel

import VoluteModel.Model.Ops

/-!
# Model of the text forms (operations.rs:233-307)

Strings are byte lists (`List Nat`, each < 256).  `format!("{:0width$x}", t)` prints *at least*
`width` digits; that the width is exact for well-formed tables is a theorem (`Props/C09`).
`u64::from_str_radix(_, 16)` is modelled as in core::num: optional leading `+`, at least one
digit, upper and lower case digits, overflow is an error.
-/

namespace VoluteModel

/-- `hex_str_size` -/
def hexStrSize (n : Nat) : Nat :=
  if n ≥ 6 then 16 else if n ≤ 2 then 1 else 1 <<< (n - 2)

/-- ASCII code of a lower-case hexadecimal digit -/
def hexDigit (d : Nat) : Nat := if d < 10 then 48 + d else 87 + d

/-- digits of `v` in base `2^k`, most significant first, exactly `w` of them (value mod base^w) -/
def digitsFixed (k : Nat) (v : Nat) : Nat → List Nat
  | 0 => []
  | w + 1 => digitsFixed k (v >>> k) w ++ [v % 2^k]

/-- number of base-`2^k` digits needed to write `v` (at least one); `fuel` bounds the length -/
def numDigits (k : Nat) (v : Nat) : Nat → Nat
  | 0 => 1
  | fuel + 1 => if v < 2^k then 1 else 1 + numDigits k (v >>> k) fuel

/-- `format!("{:0width$x}", t)` for a 64-bit word -/
def fmtHexWord (width : Nat) (t : W) : List Nat :=
  (digitsFixed 4 t.toNat (max width (numDigits 4 t.toNat 16))).map hexDigit

/-- `format!("{:0width$b}", t)` for a 64-bit word -/
def fmtBinWord (width : Nat) (t : W) : List Nat :=
  (digitsFixed 1 t.toNat (max width (numDigits 1 t.toNat 64))).map (fun d => 48 + d)

/-- `to_hex` -/
def toHex (n : Nat) (t : Array W) : List Nat :=
  let width := hexStrSize n
  t.toList.reverse.flatMap (fmtHexWord width)

/-- `to_bin` -/
def toBin (n : Nat) (t : Array W) : List Nat :=
  let width := if n ≥ 6 then 64 else 1 <<< n
  t.toList.reverse.flatMap (fmtBinWord width)

/-- decimal rendering of a natural number (for `Lut{n}(…)`, `x{i}`) -/
def decDigits (v : Nat) : List Nat := (Nat.toDigits 10 v).map (fun c => c.toNat)

/-- `fmt_hex`: `Lut{n}({hex})` -/
def fmtHex (n : Nat) (t : Array W) : List Nat :=
  [76, 117, 116] ++ decDigits n ++ [40] ++ toHex n t ++ [41]

/-- `fmt_bin` -/
def fmtBin (n : Nat) (t : Array W) : List Nat :=
  [76, 117, 116] ++ decDigits n ++ [40] ++ toBin n t ++ [41]

/-- value of an ASCII hex digit (`char::to_digit(16)`), `none` if it is not one -/
def hexVal (c : Nat) : Option Nat :=
  if 48 ≤ c ∧ c ≤ 57 then some (c - 48)
  else if 97 ≤ c ∧ c ≤ 102 then some (c - 87)
  else if 65 ≤ c ∧ c ≤ 70 then some (c - 55)
  else none

/-- `u8::is_ascii_hexdigit` -/
def isHexDigit (c : Nat) : Bool := (hexVal c).isSome

/-- accumulate hex digits, failing on a non-digit or on overflow of `u64` -/
def parseHexDigits : List Nat → Nat → Option Nat
  | [], acc => some acc
  | c :: cs, acc =>
    match hexVal c with
    | none => none
    | some d =>
      let acc' := acc * 16 + d
      if acc' < 2^64 then parseHexDigits cs acc' else none

/-- `u64::from_str_radix(s, 16)` on bytes -/
def fromStrRadix16 (s : List Nat) : Option Nat :=
  match s with
  | [] => none
  | [43] => none                       -- "+"
  | 43 :: cs => parseHexDigits cs 0    -- leading '+'
  | cs => parseHexDigits cs 0          -- ('-' is not a digit for unsigned types)

/-- the loop of `fill_hex`: words are filled from the most significant one -/
def fillHexWords (width : Nat) (mask : W) : Nat → List Nat → Option (List W)
  | 0, _ => some []
  | k + 1, s =>
    match fromStrRadix16 (s.take width) with
    | none => none
    | some v =>
      let w := BitVec.ofNat 64 v
      if w &&& ~~~ mask != 0#64 then none
      else match fillHexWords width mask k (s.drop width) with
        | none => none
        | some ws => some (ws ++ [w])

/-- `fill_hex`: `none` is `Err(())` -/
def fillHex (n : Nat) (sz : Nat) (s : List Nat) : Option (Array W) :=
  if s.any (fun c => c ≥ 128) then none          -- !s.is_ascii()
  else
    let width := hexStrSize n
    if s.length ≠ width * sz then none
    else if !(s.all isHexDigit) then none
    else (fillHexWords width (numVarsMask n) sz s).map List.toArray

end VoluteModel

/-!
# Model of the sequence generators of src/canonization.rs (`generate_gray_flips`,
`generate_single_swap_permutations`, `find_permutation_swap`, `generate_swaps`)

Kept apart from the rest of the canonization model because it does not depend on the constant
tables: the kernel-evaluated facts about the generated sequences for n = 7, 8
(`Lemmas/SeqCore.lean`, minutes of kernel time) are then not invalidated when a table of /repo
changes.  All functions are structurally recursive so that the kernel can evaluate them.
-/

namespace VoluteModel

/-! ## sequence generators (canonization.rs:64-151) -/

/-- `usize::trailing_zeros` (64 for zero) -/
def trailingZerosFuel : Nat → Nat → Nat
  | 0, _ => 0
  | fuel + 1, x => if x % 2 = 1 then 0 else 1 + trailingZerosFuel fuel (x / 2)

def trailingZeros (x : Nat) : Nat := trailingZerosFuel 64 x

/-- `generate_gray_flips` -/
def generateGrayFlips (nbBits : Nat) (rollback : Bool) : List Nat :=
  let end_ := 1 <<< nbBits
  let flips := (List.range (end_ - 1)).map (fun k =>
    let i := k + 1
    let j := i - 1
    let pred := j ^^^ (j >>> 1)
    let gray := i ^^^ (i >>> 1)
    let diff := pred ^^^ gray
    trailingZeros diff)
  if rollback then flips ++ [nbBits - 1] else flips

/-- the loop of `check_permutation_swap` (`assert_eq!` failing is `false`) -/
def checkPermutationSwap (p1 p2 : List Nat) (ind : Nat) : Bool :=
  p1.length == p2.length &&
  (List.range (p1.length - 1)).all (fun i => (i == ind || i == ind + 1) || p1[i]? == p2[i]?) &&
  (ind + 1 < p1.length) &&
  p1[ind]? == p2[ind + 1]? && p1[ind + 1]? == p2[ind]?

/-- first index below `len - 1` where the two lists differ -/
def firstDiff : List Nat → List Nat → Nat → Option Nat
  | a :: as, b :: bs, i =>
    match as, bs with
    | [], _ => none          -- index len-1 is not inspected
    | _, [] => none
    | _ :: _, _ :: _ => if a != b then some i else firstDiff as bs (i + 1)
  | _, _, _ => none

/-- `find_permutation_swap`: `none` is a failed assertion or the final `panic!` -/
def findPermutationSwap (p1 p2 : List Nat) : Option Nat :=
  if p1.length != p2.length then none
  else match firstDiff p1 p2 0 with
    | none => none
    | some i => if checkPermutationSwap p1 p2 i then some i else none

/-- `Vec::insert` -/
def insertAt (x : Nat) : Nat → List Nat → List Nat
  | 0, l => x :: l
  | _ + 1, [] => [x]
  | j + 1, a :: l => a :: insertAt x j l

/-- all insertions of `x` into `cur`, positions increasing -/
def insertionsUp (x : Nat) (cur : List Nat) : List (List Nat) :=
  (List.range (cur.length + 1)).map (fun j => insertAt x j cur)

/-- one level of `generate_single_swap_permutations`: `i` is the running index (parity) -/
def sjtLevel (x : Nat) : List (List Nat) → Nat → List (List Nat)
  | [], _ => []
  | cur :: rest, i =>
    (if i % 2 = 0 then insertionsUp x cur else (insertionsUp x cur).reverse) ++ sjtLevel x rest (i + 1)

/-- `generate_single_swap_permutations` -/
def generateSingleSwapPermutations : Nat → List (List Nat)
  | 0 => [[]]
  | 1 => [[0]]
  | 2 => [[1, 0], [0, 1]]
  | n + 1 => sjtLevel n (generateSingleSwapPermutations n) 0

/-- swaps between consecutive permutations -/
def consecutiveSwaps : List (List Nat) → Option (List Nat)
  | [] => some []
  | [_] => some []
  | p :: q :: rest =>
    match findPermutationSwap p q, consecutiveSwaps (q :: rest) with
    | some s, some ss => some (s :: ss)
    | _, _ => none

/-- `generate_swaps` -/
def generateSwaps (n : Nat) (rollback : Bool) : Option (List Nat) :=
  let perms := generateSingleSwapPermutations n
  match consecutiveSwaps perms with
  | none => none
  | some swaps =>
    if rollback && !swaps.isEmpty then
      match perms.getLast?, perms.head? with
      | some l, some f =>
        match findPermutationSwap l f with
        | some s => some (swaps ++ [s])
        | none => none
      | _, _ => none
    else some swaps

end VoluteModel

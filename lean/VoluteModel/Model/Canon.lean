import VoluteModel.Model.Ops
import VoluteModel.Model.CanonGen

/-!
# Model of src/canonization.rs

The exhaustive walks are the folds they are in the source: a state `(table, best, best_ind, ind)`,
one step per swap / flip / complementation, strict `<` via `cmpTables`.  `assert!`/`panic!()`
are `none`.  All helper functions are structurally recursive so that the kernel can evaluate
them (the Hamiltonicity certificates of `Props/C04` are `decide +kernel` computations).
-/

namespace VoluteModel
open Gen

/-! ## the walks (canonization.rs:153-223) -/

structure WalkState where
  table : Array W
  best : Array W
  bestInd : Nat
  ind : Nat
deriving Repr

/-- `if cmp(table, best).is_lt() { best_ind = ind; best.clone_from_slice(table); } ind += 1` -/
def cmpStep (s : WalkState) : WalkState :=
  if cmpTables s.table s.best == .lt then
    { s with bestInd := s.ind, best := s.table, ind := s.ind + 1 }
  else
    { s with ind := s.ind + 1 }

/-- the `for _ in 0..2 { not_inplace; compare }` block -/
def notTwice (n : Nat) (s : WalkState) : WalkState :=
  (List.range 2).foldl (fun s _ => cmpStep { s with table := notInplace n s.table }) s

/-- `p_canonization_ind` (`best_ind` starts at the closing index of the cycle) -/
def pCanonInd (table : Array W) (swaps : List Nat) : WalkState :=
  swaps.foldl (fun s swap => cmpStep { s with table := swapAdjacentInplace s.table swap })
    { table := table, best := table, bestInd := swaps.length - 1, ind := 0 }

/-- `n_canonization_ind` -/
def nCanonInd (n : Nat) (table : Array W) (flips : List Nat) : WalkState :=
  flips.foldl (fun s flip => notTwice n { s with table := flipInplace s.table flip })
    { table := table, best := table, bestInd := 2 * flips.length - 1, ind := 0 }

/-- `npn_canonization_ind` -/
def npnCanonInd (n : Nat) (table : Array W) (swaps flips : List Nat) : WalkState :=
  swaps.foldl (fun s swap =>
      flips.foldl (fun s flip => notTwice n { s with table := flipInplace s.table flip })
        { s with table := swapAdjacentInplace s.table swap })
    { table := table, best := table, bestInd := 2 * swaps.length * flips.length - 1, ind := 0 }

/-! ## replaying the sequence up to `best_ind` (canonization.rs:225-294) -/

/-- loop of `p_canonization_res`; `none` = index panic of `swap` or the final `panic!()` -/
def pResLoop (bestInd : Nat) : List Nat → Nat → Array Nat → Option (Array Nat)
  | [], _, _ => none
  | s :: ss, ind, perm =>
    if s + 1 < perm.size then
      let perm' := perm.swapIfInBounds s (s + 1)
      if ind = bestInd then some perm' else pResLoop bestInd ss (ind + 1) perm'
    else none

/-- `p_canonization_res` -/
def pCanonRes (n : Nat) (swaps : List Nat) (bestInd : Nat) : Option (Array Nat) :=
  if bestInd ≤ swaps.length then pResLoop bestInd swaps 0 (Array.range n) else none

/-- inner `for _ in 0..2` of the `*_res` functions: returns `(cur_flip, ind)` or the result -/
def resTwice (n bestInd : Nat) (curFlip ind : Nat) : Except Nat (Nat × Nat) :=
  let c1 := curFlip ^^^ (1 <<< n)
  if ind = bestInd then .error c1
  else
    let c2 := c1 ^^^ (1 <<< n)
    if ind + 1 = bestInd then .error c2
    else .ok (c2, ind + 2)

/-- loop over the flips; `.error r` = `return r` -/
def nResLoop (n bestInd : Nat) : List Nat → Nat → Nat → Except Nat (Nat × Nat)
  | [], cur, ind => .ok (cur, ind)
  | f :: fs, cur, ind =>
    match resTwice n bestInd (cur ^^^ (1 <<< f)) ind with
    | .error r => .error r
    | .ok (c, i) => nResLoop n bestInd fs c i

/-- `n_canonization_res` (`none` = final `panic!()`) -/
def nCanonRes (n : Nat) (flips : List Nat) (bestInd : Nat) : Option Nat :=
  match nResLoop n bestInd flips 0 0 with
  | .error r => some r
  | .ok _ => none

/-- loop of `npn_canonization_res` -/
def npnResLoop (n bestInd : Nat) (flips : List Nat) : List Nat → Nat → Nat → Array Nat → Option (Array Nat × Nat)
  | [], _, _, _ => none
  | s :: ss, cur, ind, perm =>
    if s + 1 < perm.size then
      let perm' := perm.swapIfInBounds s (s + 1)
      match nResLoop n bestInd flips cur ind with
      | .error r => some (perm', r)
      | .ok (c, i) => npnResLoop n bestInd flips ss c i perm'
    else none

/-- `npn_canonization_res` -/
def npnCanonRes (n : Nat) (swaps flips : List Nat) (bestInd : Nat) : Option (Array Nat × Nat) :=
  npnResLoop n bestInd flips swaps 0 0 (Array.range n)

/-! ## dispatch (canonization.rs:296-349) -/

/-- the swap sequence used for `n` variables (`none` = an assertion of the generator fails) -/
def swapsFor (n : Nat) : Option (List Nat) :=
  if n ≤ 6 then SWAPS[n]? else generateSwaps n true

/-- the flip sequence used for `n` variables -/
def flipsFor (n : Nat) : Option (List Nat) :=
  if n ≤ 6 then FLIPS[n]? else some (generateGrayFlips n true)

/-- `p_canonization`: `(best, perm)` -/
def pCanonization (n : Nat) (table : Array W) : Option (Array W × Array Nat) :=
  if n ≤ 1 then some (table, Array.range n)
  else match swapsFor n with
    | none => none
    | some swaps =>
      let s := pCanonInd table swaps
      (pCanonRes n swaps s.bestInd).map (fun p => (s.best, p))

/-- `n_canonization`: `(best, flip)` -/
def nCanonization (n : Nat) (table : Array W) : Option (Array W × Nat) :=
  if n = 0 then
    let t' := notInplace n table
    if cmpTables t' table == .lt then some (t', 1) else some (table, 0)
  else match flipsFor n with
    | none => none
    | some flips =>
      let s := nCanonInd n table flips
      (nCanonRes n flips s.bestInd).map (fun f => (s.best, f))

/-- `npn_canonization`: `(best, perm, flip)` -/
def npnCanonization (n : Nat) (table : Array W) : Option (Array W × Array Nat × Nat) :=
  if n ≤ 1 then
    (nCanonization n table).map (fun r => (r.1, Array.range n, r.2))
  else match swapsFor n, flipsFor n with
    | some swaps, some flips =>
      let s := npnCanonInd n table swaps flips
      (npnCanonRes n swaps flips s.bestInd).map (fun r => (s.best, r.1, r.2))
    | _, _ => none

end VoluteModel

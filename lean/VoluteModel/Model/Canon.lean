import VoluteModel.Model.Ops

/-!
# Model of src/canonization.rs

The exhaustive walks are the folds they are in the source: a state `(table, best, best_ind, ind)`,
one step per swap / flip / complementation, strict `<` via `cmpTables`.  `assert!`/`panic!()`
are `none`.  All helper functions are structurally recursive so that the kernel can evaluate
them (the Hamiltonicity certificates of `Props/C04` are `decide +kernel` computations).
-/

namespace VoluteModel
open Gen

/-! ## sequence generators (canonization.rs:64-151) -/

/-- `usize::trailing_zeros` (64 for zero) -/
def trailingZerosFuel : Nat → Nat → Nat
  | 0, _ => 0
  | fuel + 1, x => if x % 2 = 1 then 0 else 1 + trailingZerosFuel fuel (x / 2)

def trailingZeros (x : Nat) : Nat := trailingZerosFuel 64 x

/-- `generate_gray_flips` -/
def generateGrayFlips (nbBits : Nat) (rollback : Bool) : List Nat :=
  let end_ := 1 <<< nbBits
  let flips := (List.range (end_ - 1)).map (fun k =>
    let i := k + 1
    let j := i - 1
    let pred := j ^^^ (j >>> 1)
    let gray := i ^^^ (i >>> 1)
    let diff := pred ^^^ gray
    trailingZeros diff)
  if rollback then flips ++ [nbBits - 1] else flips

/-- the loop of `check_permutation_swap` (`assert_eq!` failing is `false`) -/
def checkPermutationSwap (p1 p2 : List Nat) (ind : Nat) : Bool :=
  p1.length == p2.length &&
  (List.range (p1.length - 1)).all (fun i => (i == ind || i == ind + 1) || p1[i]? == p2[i]?) &&
  (ind + 1 < p1.length) &&
  p1[ind]? == p2[ind + 1]? && p1[ind + 1]? == p2[ind]?

/-- first index below `len - 1` where the two lists differ -/
def firstDiff : List Nat → List Nat → Nat → Option Nat
  | a :: as, b :: bs, i =>
    match as, bs with
    | [], _ => none          -- index len-1 is not inspected
    | _, [] => none
    | _ :: _, _ :: _ => if a != b then some i else firstDiff as bs (i + 1)
  | _, _, _ => none

/-- `find_permutation_swap`: `none` is a failed assertion or the final `panic!` -/
def findPermutationSwap (p1 p2 : List Nat) : Option Nat :=
  if p1.length != p2.length then none
  else match firstDiff p1 p2 0 with
    | none => none
    | some i => if checkPermutationSwap p1 p2 i then some i else none

/-- `Vec::insert` -/
def insertAt (x : Nat) : Nat → List Nat → List Nat
  | 0, l => x :: l
  | _ + 1, [] => [x]
  | j + 1, a :: l => a :: insertAt x j l

/-- all insertions of `x` into `cur`, positions increasing -/
def insertionsUp (x : Nat) (cur : List Nat) : List (List Nat) :=
  (List.range (cur.length + 1)).map (fun j => insertAt x j cur)

/-- one level of `generate_single_swap_permutations`: `i` is the running index (parity) -/
def sjtLevel (x : Nat) : List (List Nat) → Nat → List (List Nat)
  | [], _ => []
  | cur :: rest, i =>
    (if i % 2 = 0 then insertionsUp x cur else (insertionsUp x cur).reverse) ++ sjtLevel x rest (i + 1)

/-- `generate_single_swap_permutations` -/
def generateSingleSwapPermutations : Nat → List (List Nat)
  | 0 => [[]]
  | 1 => [[0]]
  | 2 => [[1, 0], [0, 1]]
  | n + 1 => sjtLevel n (generateSingleSwapPermutations n) 0

/-- swaps between consecutive permutations -/
def consecutiveSwaps : List (List Nat) → Option (List Nat)
  | [] => some []
  | [_] => some []
  | p :: q :: rest =>
    match findPermutationSwap p q, consecutiveSwaps (q :: rest) with
    | some s, some ss => some (s :: ss)
    | _, _ => none

/-- `generate_swaps` -/
def generateSwaps (n : Nat) (rollback : Bool) : Option (List Nat) :=
  let perms := generateSingleSwapPermutations n
  match consecutiveSwaps perms with
  | none => none
  | some swaps =>
    if rollback && !swaps.isEmpty then
      match perms.getLast?, perms.head? with
      | some l, some f =>
        match findPermutationSwap l f with
        | some s => some (swaps ++ [s])
        | none => none
      | _, _ => none
    else some swaps

/-! ## the walks (canonization.rs:153-223) -/

structure WalkState where
  table : Array W
  best : Array W
  bestInd : Nat
  ind : Nat
deriving Repr

/-- `if cmp(table, best).is_lt() { best_ind = ind; best.clone_from_slice(table); } ind += 1` -/
def cmpStep (s : WalkState) : WalkState :=
  if cmpTables s.table s.best == .lt then
    { s with bestInd := s.ind, best := s.table, ind := s.ind + 1 }
  else
    { s with ind := s.ind + 1 }

/-- the `for _ in 0..2 { not_inplace; compare }` block -/
def notTwice (n : Nat) (s : WalkState) : WalkState :=
  (List.range 2).foldl (fun s _ => cmpStep { s with table := notInplace n s.table }) s

/-- `p_canonization_ind` (`best_ind` starts at the closing index of the cycle) -/
def pCanonInd (table : Array W) (swaps : List Nat) : WalkState :=
  swaps.foldl (fun s swap => cmpStep { s with table := swapAdjacentInplace s.table swap })
    { table := table, best := table, bestInd := swaps.length - 1, ind := 0 }

/-- `n_canonization_ind` -/
def nCanonInd (n : Nat) (table : Array W) (flips : List Nat) : WalkState :=
  flips.foldl (fun s flip => notTwice n { s with table := flipInplace s.table flip })
    { table := table, best := table, bestInd := 2 * flips.length - 1, ind := 0 }

/-- `npn_canonization_ind` -/
def npnCanonInd (n : Nat) (table : Array W) (swaps flips : List Nat) : WalkState :=
  swaps.foldl (fun s swap =>
      flips.foldl (fun s flip => notTwice n { s with table := flipInplace s.table flip })
        { s with table := swapAdjacentInplace s.table swap })
    { table := table, best := table, bestInd := 2 * swaps.length * flips.length - 1, ind := 0 }

/-! ## replaying the sequence up to `best_ind` (canonization.rs:225-294) -/

/-- loop of `p_canonization_res`; `none` = index panic of `swap` or the final `panic!()` -/
def pResLoop (bestInd : Nat) : List Nat → Nat → Array Nat → Option (Array Nat)
  | [], _, _ => none
  | s :: ss, ind, perm =>
    if s + 1 < perm.size then
      let perm' := perm.swapIfInBounds s (s + 1)
      if ind = bestInd then some perm' else pResLoop bestInd ss (ind + 1) perm'
    else none

/-- `p_canonization_res` -/
def pCanonRes (n : Nat) (swaps : List Nat) (bestInd : Nat) : Option (Array Nat) :=
  if bestInd ≤ swaps.length then pResLoop bestInd swaps 0 (Array.range n) else none

/-- inner `for _ in 0..2` of the `*_res` functions: returns `(cur_flip, ind)` or the result -/
def resTwice (n bestInd : Nat) (curFlip ind : Nat) : Except Nat (Nat × Nat) :=
  let c1 := curFlip ^^^ (1 <<< n)
  if ind = bestInd then .error c1
  else
    let c2 := c1 ^^^ (1 <<< n)
    if ind + 1 = bestInd then .error c2
    else .ok (c2, ind + 2)

/-- loop over the flips; `.error r` = `return r` -/
def nResLoop (n bestInd : Nat) : List Nat → Nat → Nat → Except Nat (Nat × Nat)
  | [], cur, ind => .ok (cur, ind)
  | f :: fs, cur, ind =>
    match resTwice n bestInd (cur ^^^ (1 <<< f)) ind with
    | .error r => .error r
    | .ok (c, i) => nResLoop n bestInd fs c i

/-- `n_canonization_res` (`none` = final `panic!()`) -/
def nCanonRes (n : Nat) (flips : List Nat) (bestInd : Nat) : Option Nat :=
  match nResLoop n bestInd flips 0 0 with
  | .error r => some r
  | .ok _ => none

/-- loop of `npn_canonization_res` -/
def npnResLoop (n bestInd : Nat) (flips : List Nat) : List Nat → Nat → Nat → Array Nat → Option (Array Nat × Nat)
  | [], _, _, _ => none
  | s :: ss, cur, ind, perm =>
    if s + 1 < perm.size then
      let perm' := perm.swapIfInBounds s (s + 1)
      match nResLoop n bestInd flips cur ind with
      | .error r => some (perm', r)
      | .ok (c, i) => npnResLoop n bestInd flips ss c i perm'
    else none

/-- `npn_canonization_res` -/
def npnCanonRes (n : Nat) (swaps flips : List Nat) (bestInd : Nat) : Option (Array Nat × Nat) :=
  npnResLoop n bestInd flips swaps 0 0 (Array.range n)

/-! ## dispatch (canonization.rs:296-349) -/

/-- the swap sequence used for `n` variables (`none` = an assertion of the generator fails) -/
def swapsFor (n : Nat) : Option (List Nat) :=
  if n ≤ 6 then SWAPS[n]? else generateSwaps n true

/-- the flip sequence used for `n` variables -/
def flipsFor (n : Nat) : Option (List Nat) :=
  if n ≤ 6 then FLIPS[n]? else some (generateGrayFlips n true)

/-- `p_canonization`: `(best, perm)` -/
def pCanonization (n : Nat) (table : Array W) : Option (Array W × Array Nat) :=
  if n ≤ 1 then some (table, Array.range n)
  else match swapsFor n with
    | none => none
    | some swaps =>
      let s := pCanonInd table swaps
      (pCanonRes n swaps s.bestInd).map (fun p => (s.best, p))

/-- `n_canonization`: `(best, flip)` -/
def nCanonization (n : Nat) (table : Array W) : Option (Array W × Nat) :=
  if n = 0 then
    let t' := notInplace n table
    if cmpTables t' table == .lt then some (t', 1) else some (table, 0)
  else match flipsFor n with
    | none => none
    | some flips =>
      let s := nCanonInd n table flips
      (nCanonRes n flips s.bestInd).map (fun f => (s.best, f))

/-- `npn_canonization`: `(best, perm, flip)` -/
def npnCanonization (n : Nat) (table : Array W) : Option (Array W × Array Nat × Nat) :=
  if n ≤ 1 then
    (nCanonization n table).map (fun r => (r.1, Array.range n, r.2))
  else match swapsFor n, flipsFor n with
    | some swaps, some flips =>
      let s := npnCanonInd n table swaps flips
      (npnCanonRes n swaps flips s.bestInd).map (fun r => (s.best, r.1, r.2))
    | _, _ => none

end VoluteModel

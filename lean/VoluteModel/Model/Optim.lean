import VoluteModel.Model.Sop

/-!
# Model of src/sop/optim.rs and of the cost model of src/sop/optim/mip.rs

Candidate enumeration is modelled as written.  The ILPs are not executed: HiGHS is an external
solver.  What the model provides instead is the *exact optimum* of the documented cost over all
exact two-level forms, by exhaustive search (`bruteOr`, `bruteXor`, the specification) and by a
dynamic programme for one output (`optOr`, `optXor`, used by the driver for n = 3).
-/

namespace VoluteModel.Optim

def enumerateValidCubes (l : Lut) : List Cube := (Cube.all l.n).filter (fun c => c.impliesLut l)
def enumerateValidEcubes (l : Lut) : List Ecube := (Ecube.all l.n).filter (fun c => c.impliesLut l)

/-- derived `Ord` of `Ecube`: (vars, xnor) -/
def ecubeLe (a b : Ecube) : Bool :=
  a.vars.toNat < b.vars.toNat || (a.vars == b.vars && (!a.xnor || b.xnor))

def enumerateValidCubesMulti (fs : List Lut) : List Cube :=
  dedupAdj ((fs.flatMap enumerateValidCubes).mergeSort Cube.le)

def enumerateValidEcubesMulti (fs : List Lut) : List Ecube :=
  dedupAdj (((fs.flatMap enumerateValidEcubes).filter (fun c => c.numLits ≥ 2)).mergeSort ecubeLe)

/-- candidates of the ESOP model (every non-zero cube) -/
def esopCandidates (n : Nat) : List Cube := Cube.all n

/-- truth table of a value function as a number -/
def ttOf (n : Nat) (v : Nat → Bool) : Nat :=
  (List.range (2 ^ n)).foldl (fun t m => if v m then t ||| 2 ^ m else t) 0

def gateCost (lits : Nat) : Nat := max lits 1 - 1

/-- items of the OR problem: (truth table, gate cost) of every implicant candidate of `f` -/
def orItems (n f A X : Nat) (withE : Bool) : List (Nat × Nat) :=
  let cs := ((Cube.all n).map (fun c => (ttOf n c.value, A * c.numGates))).filter (fun it => it.1 &&& f == it.1)
  let es := if withE then
      (((Ecube.all n).filter (fun e => e.numLits ≥ 2)).map (fun e => (ttOf n e.value, X * e.numGates))).filter
        (fun it => it.1 &&& f == it.1)
    else []
  cs ++ es

def xorItems (n A : Nat) : List (Nat × Nat) := (Cube.all n).map (fun c => (ttOf n c.value, A * c.numGates))

def INF : Nat := 1000000000

/-- one relaxation pass over all states -/
def relaxPass (join : Nat) (comb : Nat → Nat → Nat) (items : List (Nat × Nat)) (dist : Array Nat) : Array Nat :=
  (List.range dist.size).foldl (fun d s =>
    let ds := d[s]?.getD INF
    if ds ≥ INF then d
    else items.foldl (fun d it =>
      let s2 := comb s it.1
      let nd := ds + it.2 + join
      if nd < d[s2]?.getD INF then d.setIfInBounds s2 nd else d) d) dist

def initDist (states : Nat) (items : List (Nat × Nat)) : Array Nat :=
  items.foldl (fun d it => if it.2 < d[it.1]?.getD INF then d.setIfInBounds it.1 it.2 else d)
    (Array.replicate states INF)

def iterate (f : Array Nat → Array Nat) : Nat → Array Nat → Array Nat
  | 0, d => d
  | k + 1, d => iterate f k (f d)

/-- one output: cheapest OR of implicants equal to f (first term carries no OR gate) -/
def optOr (n f A X O : Nat) (withE : Bool) : Nat :=
  if f = 0 then 0
  else
    let items := orItems n f A X withE
    let d := relaxPass O (· ||| ·) items (initDist (2 ^ (2 ^ n)) items)
    d[f]?.getD INF

/-- one output: cheapest XOR of cubes equal to f -/
def optXor (n f A X : Nat) : Nat :=
  if f = 0 then 0
  else
    let items := xorItems n A
    let states := 2 ^ (2 ^ n)
    let d := iterate (relaxPass X (· ^^^ ·) items) states (initDist states items)
    d[f]?.getD INF

/-- all sublists -/
def sublists {α : Type} : List α → List (List α)
  | [] => [[]]
  | a :: l => (sublists l).flatMap (fun s => [s, a :: s])

def joinCost (join k : Nat) : Nat := join * (k - 1)

/-- cost of a family (one sublist of items per output): shared gate cost + joins -/
def familyCost (join : Nat) (fam : List (List (Nat × Nat × Nat))) : Nat :=
  let used := (fam.flatten.map (fun it => (it.1, it.2.2))).eraseDups
  used.foldl (fun a it => a + it.2) 0 + fam.foldl (fun a s => a + joinCost join s.length) 0

/-- specification: minimum over all families of candidate sublists realising the functions;
    items carry an identifier so that equal truth tables of different cubes stay distinct -/
def brute (isXor : Bool) (fs : List Nat) (items : List (Nat × Nat × Nat)) (join : Nat) : Nat :=
  let subs := sublists items
  let realises (f : Nat) (s : List (Nat × Nat × Nat)) : Bool :=
    if isXor then s.foldl (fun a it => a ^^^ it.2.1) 0 == f
    else s.all (fun it => it.2.1 &&& f == it.2.1) && s.foldl (fun a it => a ||| it.2.1) 0 == f
  let choices := fs.map (fun f => subs.filter (realises f))
  let fams := choices.foldr (fun ch acc => ch.flatMap (fun s => acc.map (fun fam => s :: fam))) [[]]
  fams.foldl (fun best fam => min best (familyCost join fam)) INF

/-- items with identifiers: (id, truth table, gate cost) -/
def idItems (n A X : Nat) (kind : String) : List (Nat × Nat × Nat) :=
  let cs := (Cube.all n).map (fun c => (ttOf n c.value, A * c.numGates))
  let es := if kind == "sopes" then
      ((Ecube.all n).filter (fun e => e.numLits ≥ 2)).map (fun e => (ttOf n e.value, X * e.numGates))
    else []
  (cs ++ es).zipIdx.map (fun p => (p.2, p.1.1, p.1.2))

/-- the optimum the driver reports (`none` = not computed for this shape) -/
def optimum (kind : String) (A X O : Nat) (fs : List Lut) : Option Nat :=
  match fs with
  | [f] =>
    if f.n ≤ 3 then
      let tt := ttOf f.n (fun m => getBit f.t m)
      some (if kind == "esop" then optXor f.n tt A X else optOr f.n tt A X O (kind == "sopes"))
    else none
  | [f, g] =>
    if f.n ≤ 2 ∧ g.n = f.n then
      let t1 := ttOf f.n (fun m => getBit f.t m)
      let t2 := ttOf f.n (fun m => getBit g.t m)
      some (brute (kind == "esop") [t1, t2] (idItems f.n A X kind) (if kind == "esop" then X else O))
    else none
  | _ => none

end VoluteModel.Optim

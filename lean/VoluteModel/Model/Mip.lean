import VoluteModel.Model.Optim

/-!
# Model of the integer programmes of src/sop/optim/mip.rs

`SopModeler` and `EsopModeler` build a mixed-integer programme with `good_lp` and hand it to an
external solver (HiGHS).  This file models the programmes that are built - variables, constraints,
objective - over an abstract description of the candidates (`Prob`): which candidate is true at
which assignment, which candidate may be used for which output, what each costs.  Variables carry
their role instead of a number (the numbering is an artefact of allocation order).
-/

namespace VoluteModel.Mip

/-- the problem the modeler sees: `K` candidate terms (cubes, then exclusive cubes), `F` output
    functions over `nv` variables -/
structure Prob where
  K : Nat
  F : Nat
  nv : Nat
  /-- candidate `i` is true at assignment `b` (`c.value(b)`) -/
  val : Nat → Nat → Bool
  /-- output `j` is true at assignment `b` (`f.value(b)`) -/
  fv : Nat → Nat → Bool
  /-- candidate `i` implies output `j` (`c.implies_lut(f)`) -/
  ok : Nat → Nat → Bool
  /-- gate cost of candidate `i` (`num_gates * and_cost`, resp. `xor_cost`) -/
  w : Nat → Int
  /-- cost of one join gate (OR for `SopModeler`, XOR for `EsopModeler`) -/
  join : Int

/-- number of assignments -/
def Prob.B (P : Prob) : Nat := 2 ^ P.nv

/-- decision variables, by role -/
inductive Var where
  /-- `cube_used[i]` / `ecube_used[i]`: candidate `i` is used by some output -/
  | u (i : Nat)
  /-- `cube_used_in_fn[i][j]` / `ecube_used_in_fn[i][j]` -/
  | x (i j : Nat)
  /-- `num_or_in_fn[j]` / `num_xor_in_fn[j]`: continuous, lower bound 0 -/
  | n (j : Nat)
  /-- integer slack of the parity constraint for output `j` at assignment `b` -/
  | sv (j b : Nat)
  /-- integer slack of the redundant parity constraint for output `j`, assignment `b`, flipped variable `fl` -/
  | sd (j b fl : Nat)
  deriving DecidableEq, Repr

/-- a linear constraint in the normal form `good_lp` keeps: `Σ coeff·var ≤ rhs` or `= rhs` -/
structure Con where
  terms : List (Var × Rat)
  isEq : Bool
  rhs : Rat

def rangeF (P : Prob) : List Nat := List.range P.F
def rangeK (P : Prob) : List Nat := List.range P.K
def rangeB (P : Prob) : List Nat := List.range P.B

/-- `setup_vars`: `(num_or - num_cubes + 1).geq(0)` -/
def joinCon (P : Prob) (j : Nat) : Con :=
  ⟨(rangeK P).map (fun i => (Var.x i j, 1)) ++ [(Var.n j, -1)], false, 1⟩

/-- `add_cover_constraints`: `(used_in_fn[i][j] - used[i]).leq(0)` -/
def coverCon (i j : Nat) : Con := ⟨[(Var.x i j, 1), (Var.u i, -1)], false, 0⟩

/-- `add_off_set_constraints`: `(1.0 * used_in_fn[i][j]).leq(0)` for a candidate that does not imply the output -/
def offCon (i j : Nat) : Con := ⟨[(Var.x i j, 1)], false, 0⟩

/-- `add_on_set_constraints`: `expr.geq(1)` over the candidates true at `b` -/
def onCon (P : Prob) (j b : Nat) : Con :=
  ⟨((rangeK P).filter (fun i => P.val i b)).map (fun i => (Var.x i j, -1)), false, -1⟩

/-- `add_xor_constraint`: `(value + Σ vars) * 0.5 + slack = 0` -/
def parityCon (j : Nat) (sel : List Nat) (value : Bool) (slack : Var) : Con :=
  ⟨sel.map (fun i => (Var.x i j, 1 / 2)) ++ [(slack, 1)], true, if value then -(1 / 2) else 0⟩

/-- `add_value_constraint` -/
def valueCon (P : Prob) (j b : Nat) : Con :=
  parityCon j ((rangeK P).filter (fun i => P.val i b)) (P.fv j b) (Var.sv j b)

/-- `add_value_constraint_diff` for `b2 = b1 ^ (1 << fl)` -/
def diffCon (P : Prob) (j b fl : Nat) : Con :=
  parityCon j ((rangeK P).filter (fun i => P.val i b != P.val i (b ^^^ 2 ^ fl)))
    (P.fv j b != P.fv j (b ^^^ 2 ^ fl)) (Var.sd j b fl)

/-- the constraints of `SopModeler::run`, in the order they are pushed -/
def sopCons (P : Prob) : List Con :=
  (rangeF P).map (joinCon P)
  ++ (rangeF P).flatMap (fun j => (rangeK P).map (fun i => coverCon i j))
  ++ (rangeF P).flatMap (fun j => ((rangeK P).filter (fun i => !P.ok i j)).map (fun i => offCon i j))
  ++ (rangeF P).flatMap (fun j => ((rangeB P).filter (fun b => P.fv j b)).map (fun b => onCon P j b))

/-- the constraints of `EsopModeler::run`, in the order they are pushed -/
def esopCons (P : Prob) : List Con :=
  (rangeF P).map (joinCon P)
  ++ (rangeF P).flatMap (fun j => (rangeK P).map (fun i => coverCon i j))
  ++ (rangeF P).flatMap (fun j => (rangeB P).map (fun b => valueCon P j b))
  ++ (rangeF P).flatMap (fun j => (rangeB P).flatMap (fun b => (List.range P.nv).map (fun fl => diffCon P j b fl)))

/-- `setup_objective` -/
def objTerms (P : Prob) : List (Var × Rat) :=
  (rangeK P).map (fun i => (Var.u i, (P.w i : Rat))) ++ (rangeF P).map (fun j => (Var.n j, (P.join : Rat)))

/-! ## Semantics -/

def evalLin (σ : Var → Rat) (t : List (Var × Rat)) : Rat := (t.map (fun p => p.2 * σ p.1)).sum

def Con.holds (σ : Var → Rat) (c : Con) : Prop :=
  if c.isEq then evalLin σ c.terms = c.rhs else evalLin σ c.terms ≤ c.rhs

/-- `variable().binary()` -/
def isBin (r : Rat) : Prop := r = 0 ∨ r = 1
/-- `variable().integer()` -/
def isInt (r : Rat) : Prop := ∃ z : Int, r = (z : Rat)

/-- variable domains: `u`, `x` binary; `n` continuous with lower bound 0; slacks free integers -/
def Domains (P : Prob) (σ : Var → Rat) : Prop :=
  (∀ i, i < P.K → isBin (σ (Var.u i))) ∧
  (∀ i j, i < P.K → j < P.F → isBin (σ (Var.x i j))) ∧
  (∀ j, j < P.F → 0 ≤ σ (Var.n j)) ∧
  (∀ j b, isInt (σ (Var.sv j b))) ∧ (∀ j b fl, isInt (σ (Var.sd j b fl)))

def SopFeasible (P : Prob) (σ : Var → Rat) : Prop := Domains P σ ∧ ∀ c ∈ sopCons P, c.holds σ
def EsopFeasible (P : Prob) (σ : Var → Rat) : Prop := Domains P σ ∧ ∀ c ∈ esopCons P, c.holds σ

def objective (P : Prob) (σ : Var → Rat) : Rat := evalLin σ (objTerms P)

/-- `solve`: candidate `i` is part of output `j` when `solution.value(used_in_fn[i][j]) > 0.5` -/
def decode (σ : Var → Rat) (i j : Nat) : Bool := decide (1 / 2 < σ (Var.x i j))

/-! ## The problems the three entry points build -/

open VoluteModel VoluteModel.Optim

/-- a candidate term of `SopModeler`: a cube or an exclusive cube -/
inductive Term where
  | cube (c : Cube)
  | ecube (e : Ecube)
  deriving DecidableEq

def Term.value : Term → Nat → Bool
  | .cube c, b => c.value b
  | .ecube e, b => e.value b

def Term.impliesLut : Term → Lut → Bool
  | .cube c, l => c.impliesLut l
  | .ecube e, l => e.impliesLut l

def Term.cost (A X : Int) : Term → Int
  | .cube c => (c.numGates : Int) * A
  | .ecube e => (e.numGates : Int) * X

/-- the problem description behind a list of candidate terms and output functions -/
def probOf (terms : List Term) (fs : List Lut) (A X J : Int) : Prob :=
  { K := terms.length, F := fs.length,
    nv := (fs.head?.map (·.n)).getD 0,
    val := fun i b => (terms[i]?.map (·.value b)).getD false,
    fv := fun j b => (fs[j]?.map (fun l => getBit l.t b)).getD false,
    ok := fun i j => match terms[i]?, fs[j]? with
      | some t, some l => t.impliesLut l
      | _, _ => false,
    w := fun i => (terms[i]?.map (Term.cost A X)).getD 0,
    join := J }

/-- `SopModeler::setup_vars`: candidates of `optimize_sop_mip` (`xor_cost = -1`) and `optimize_sopes_mip` -/
def sopTerms (fs : List Lut) (X : Int) : List Term :=
  (enumerateValidCubesMulti fs).map Term.cube ++
    (if X ≥ 0 then (enumerateValidEcubesMulti fs).map Term.ecube else [])

/-- `EsopModeler::setup_vars`: every cube over the variables -/
def esopTerms (fs : List Lut) : List Term := (Cube.all ((fs.head?.map (·.n)).getD 0)).map Term.cube

def sopProb (fs : List Lut) (A X O : Int) : Prob := probOf (sopTerms fs X) fs A X O
def esopProb (fs : List Lut) (A X : Int) : Prob := probOf (esopTerms fs) fs A X X

/-- `solve`: the terms put into output `j`, in candidate order -/
def solution (terms : List Term) (σ : Var → Rat) (j : Nat) : List Term :=
  ((List.range terms.length).filter (fun i => decode σ i j)).filterMap (fun i => terms[i]?)

/-! ## Canonical text (what the correspondence check compares with the programme `good_lp` holds) -/

def showRat (r : Rat) : String := if r.den = 1 then toString r.num else s!"{r.num}/{r.den}"

def Var.name : Var → String
  | .u i => s!"U{i}"
  | .x i j => s!"X{i}.{j}"
  | .n j => s!"N{j}"
  | .sv _ _ => "S"
  | .sd _ _ _ => "S"

def showTerms (t : List (Var × Rat)) : String :=
  let ts := (t.filter (fun p => p.2 != 0)).map (fun p => (p.1.name, s!"{showRat p.2}*{p.1.name}"))
  let ts := ts.mergeSort (fun a b => a.1 ≤ b.1)
  if ts.isEmpty then "0" else "+".intercalate (ts.map (·.2))

def showCon (c : Con) : String := showTerms c.terms ++ (if c.isEq then "=" else "<=") ++ showRat c.rhs

def showCons (cs : List Con) : String :=
  let l := (cs.map showCon).mergeSort (fun a b => a ≤ b)
  if l.isEmpty then "-" else "|".intercalate l

end VoluteModel.Mip

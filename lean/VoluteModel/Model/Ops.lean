import VoluteModel.Model.Basic

/-!
# Model of src/operations.rs (the slice kernels)

One `def` per Rust kernel, same name (camelCase), same regime structure, same formulas.
`for t in table { *t = e }` is `map`; index loops which update pairs of words in place are the
folds they are (`pairLoopF`).  Kernels are total; their preconditions are the business of the
API layer (`Model/Api.lean`).
-/

namespace VoluteModel
open Gen

/-! ## constructors (operations.rs:96-176) -/

/-- `fill_one` -/
def fillOne (n : Nat) (t : Array W) : Array W := t.map (fun _ => numVarsMask n)

/-- `fill_zero` -/
def fillZero (t : Array W) : Array W := t.map (fun _ => 0#64)

/-- `fill_nth_var` -/
def fillNthVar (n : Nat) (t : Array W) (ind : Nat) : Array W :=
  if ind ≤ 5 then
    t.map (fun _ => varMask ind &&& numVarsMask n)
  else
    let mask := 1 <<< (ind - 6)
    t.mapIdx (fun i _ => if i &&& mask != 0 then ~~~ 0#64 else 0#64)

/-- the body of `fill_symmetric` for word `i` -/
def symWord (n : Nat) (countValues : W) (i : Nat) : W :=
  let cnt := popc 64 i
  let acc := (List.range COUNT_MASKS.size).foldl
    (fun (acc : W) c =>
      if (countValues >>> (cnt + c)) &&& 1#64 != 0#64 then acc ||| COUNT_MASKS[c]! else acc) 0#64
  acc &&& numVarsMask n

/-- `fill_symmetric` (`count_values : usize` is a 64-bit word) -/
def fillSymmetric (n : Nat) (t : Array W) (countValues : W) : Array W :=
  t.mapIdx (fun i _ => symWord n countValues i)

/-- `fill_parity` -/
def fillParity (n : Nat) (t : Array W) : Array W :=
  fillSymmetric n t 0xaaaaaaaaaaaaaaaa#64

/-- `fill_equals` (with the `k > num_vars` guard) -/
def fillEquals (n : Nat) (t : Array W) (k : Nat) : Array W :=
  if k > n then fillZero t else fillSymmetric n t (1#64 <<< k)

/-- `fill_threshold`; `!0usize - (1 << k) + 1` on 64-bit words -/
def fillThreshold (n : Nat) (t : Array W) (k : Nat) : Array W :=
  if k = 0 then fillOne n t
  else if k > n then fillZero t
  else fillSymmetric n t (~~~ 0#64 - (1#64 <<< k) + 1#64)

/-- `fill_majority` -/
def fillMajority (n : Nat) (t : Array W) : Array W := fillThreshold n t ((n + 1) / 2)

/-- `fill_random`, the generator being a parameter: word `i` of the table gets `rng i` -/
def fillRandom (n : Nat) (t : Array W) (rng : Nat → W) : Array W :=
  t.mapIdx (fun i _ => rng i &&& numVarsMask n)

/-! ## single bits (operations.rs:177-193) -/

/-- `get_bit` -/
def getBit (t : Array W) (ind : Nat) : Bool :=
  (t[ind >>> 6]?.getD 0 &&& (1#64 <<< (ind &&& 0x3f))) != 0#64

/-- `set_bit` -/
def setBit (t : Array W) (ind : Nat) : Array W :=
  t.modify (ind >>> 6) (fun w => w ||| (1#64 <<< (ind &&& 0x3f)))

/-- `unset_bit` -/
def unsetBit (t : Array W) (ind : Nat) : Array W :=
  t.modify (ind >>> 6) (fun w => w &&& ~~~ (1#64 <<< (ind &&& 0x3f)))

/-! ## logic (operations.rs:195-225) -/

/-- `not_inplace` -/
def notInplace (n : Nat) (t : Array W) : Array W :=
  let mask := numVarsMask n
  t.map (fun w => mask &&& ~~~ w)

/-- `and_inplace` -/
def andInplace (a b : Array W) : Array W := Array.zipWith (· &&& ·) a b
/-- `or_inplace` -/
def orInplace (a b : Array W) : Array W := Array.zipWith (· ||| ·) a b
/-- `xor_inplace` -/
def xorInplace (a b : Array W) : Array W := Array.zipWith (· ^^^ ·) a b

/-! ## ordering (operations.rs:227-231) -/

/-- head-first lexicographic comparison (Rust `Iterator::cmp`) -/
def lexCmp : List W → List W → Ordering
  | [], [] => .eq
  | [], _ :: _ => .lt
  | _ :: _, [] => .gt
  | a :: as, b :: bs => match compare a.toNat b.toNat with
    | .eq => lexCmp as bs
    | o => o

/-- `cmp`: `table1.iter().rev().cmp(table2.iter().rev())` -/
def cmpTables (a b : Array W) : Ordering := lexCmp a.toList.reverse b.toList.reverse

/-! ## variable transforms (operations.rs:309-444) -/

/-- one step of an in-place loop over word pairs:
    `if P k { (t[k], t[partner k]) := g (t[k], t[partner k]) }` -/
def pairStepF (P : Nat → Bool) (partner : Nat → Nat) (g : W → W → W × W) (t : Array W) (k : Nat) : Array W :=
  if P k then
    let a := t[k]?.getD 0
    let b := t[partner k]?.getD 0
    let r := g a b
    (t.setIfInBounds k r.1).setIfInBounds (partner k) r.2
  else t

/-- `for k in 0..table.len() { if P k { ... } }` -/
def pairLoopF (P : Nat → Bool) (partner : Nat → Nat) (g : W → W → W × W) (t : Array W) : Array W :=
  (List.range t.size).foldl (pairStepF P partner g) t

/-- `swap_inplace`, regime `i <= 5`, one word -/
def swapWord (i j : Nat) (t : W) : W :=
  let shift := (1 <<< i) - (1 <<< j)
  let maskLeft := swapMask i j
  let maskRight := maskLeft <<< shift
  (t &&& ~~~ maskLeft &&& ~~~ maskRight) + ((t &&& maskLeft) <<< shift) + ((t &&& maskRight) >>> shift)

/-- `swap_inplace`, regime `j <= 5 < i`, one pair of words -/
def swapMixedPair (j : Nat) (t0 t1 : W) : W × W :=
  let mask := varMask j
  let shift := 1 <<< j
  let t00 := t0 &&& ~~~ mask
  let t01 := (t0 &&& mask) >>> shift
  let t10 := t1 &&& ~~~ mask
  let t11 := (t1 &&& mask) >>> shift
  (t00 + (t10 <<< shift), t01 + (t11 <<< shift))

/-- `swap_inplace` -/
def swapInplace (t : Array W) (ind1 ind2 : Nat) : Array W :=
  if ind1 = ind2 then t
  else
    let i := max ind1 ind2
    let j := min ind1 ind2
    if i ≤ 5 then
      t.map (swapWord i j)
    else if j ≤ 5 then
      let mi := 1 <<< (i - 6)
      pairLoopF (fun k => k &&& mi == 0) (fun k => k + mi) (swapMixedPair j) t
    else
      let mi := 1 <<< (i - 6)
      let mj := 1 <<< (j - 6)
      pairLoopF (fun k => (mi &&& k == 0) && (mj &&& k != 0)) (fun k => k - mj + mi) (fun a b => (b, a)) t

/-- `swap_adjacent_inplace` -/
def swapAdjacentInplace (t : Array W) (ind : Nat) : Array W := swapInplace t ind (ind + 1)

/-- `flip_inplace`, regime `ind <= 5`, one word -/
def flipWord (ind : Nat) (t : W) : W :=
  let shift := 1 <<< ind
  let m1 := varMask ind
  let m0 := ~~~ varMask ind
  ((t &&& m1) >>> shift) + ((t &&& m0) <<< shift)

/-- `flip_inplace` -/
def flipInplace (t : Array W) (ind : Nat) : Array W :=
  if ind ≤ 5 then t.map (flipWord ind)
  else
    let stride := 1 <<< (ind - 6)
    pairLoopF (fun i => i &&& stride == 0) (fun i => i + stride) (fun a b => (b, a)) t

/-- `cofactor0_inplace`, one word -/
def cof0Word (ind : Nat) (t : W) : W :=
  let shift := 1 <<< ind
  let m0 := ~~~ varMask ind
  (t &&& m0) + ((t &&& m0) <<< shift)

/-- `cofactor0_inplace` -/
def cofactor0Inplace (t : Array W) (ind : Nat) : Array W :=
  if ind ≤ 5 then t.map (cof0Word ind)
  else
    let stride := 1 <<< (ind - 6)
    pairLoopF (fun i => i &&& stride == 0) (fun i => i + stride) (fun a _ => (a, a)) t

/-- `cofactor1_inplace`, one word -/
def cof1Word (ind : Nat) (t : W) : W :=
  let shift := 1 <<< ind
  let m1 := varMask ind
  ((t &&& m1) >>> shift) + (t &&& m1)

/-- `cofactor1_inplace` -/
def cofactor1Inplace (t : Array W) (ind : Nat) : Array W :=
  if ind ≤ 5 then t.map (cof1Word ind)
  else
    let stride := 1 <<< (ind - 6)
    pairLoopF (fun i => i &&& stride == 0) (fun i => i + stride) (fun _ b => (b, b)) t

/-- `from_cofactors_inplace` (the previous content of `table` is overwritten) -/
def fromCofactorsInplace (t t0 t1 : Array W) (ind : Nat) : Array W :=
  if ind ≤ 5 then
    let m1 := varMask ind
    let m0 := ~~~ varMask ind
    t.mapIdx (fun i _ => ((t1[i]?.getD 0) &&& m1) + ((t0[i]?.getD 0) &&& m0))
  else
    let stride := 1 <<< (ind - 6)
    t.mapIdx (fun i _ => if i &&& stride == 0 then t0[i]?.getD 0 else t1[i]?.getD 0)

/-! ## successor (operations.rs:446-457) -/

/-- `next_inplace` on the word list: masked wrapping increment with carry, early return -/
def nextList (mask : W) : List W → List W × Bool
  | [] => ([], false)
  | w :: ws =>
    let w' := (w + 1#64) &&& mask
    if w' != 0#64 then (w' :: ws, true)
    else
      let r := nextList mask ws
      (w' :: r.1, r.2)

/-- `next_inplace` -/
def nextInplace (n : Nat) (t : Array W) : Array W × Bool :=
  let r := nextList (numVarsMask n) t.toList
  (r.1.toArray, r.2)

end VoluteModel

import VoluteModel.Model.Api

/-!
# Model of src/sop/{cube,ecube,sop,esop,soes}.rs

Cubes are pairs of 32-bit literal masks, exclusive cubes a 32-bit mask and a flag, the
two-level forms are a variable count and a list.  `mask as u32` truncates an assignment.
-/

namespace VoluteModel

abbrev W32 := BitVec 32

structure Cube where
  pos : W32
  neg : W32
deriving DecidableEq, Repr

namespace Cube

def one : Cube := ⟨0, 0⟩
def zero : Cube := ⟨~~~ 0, ~~~ 0⟩
def isZero (c : Cube) : Bool := c.pos &&& c.neg != 0
def isOne (c : Cube) : Bool := c.pos == 0 && c.neg == 0
def isConstant (c : Cube) : Bool := c.isOne || c.isZero
/-- `nth_var` (`var < 32`, else the shift overflows) -/
def nthVar (var : Nat) : Cube := ⟨1#32 <<< var, 0⟩
def nthVarInv (var : Nat) : Cube := ⟨0, 1#32 <<< var⟩

/-- `minterm` (the full mask when `num_vars >= 32`) -/
def minterm (n : Nat) (mask : Nat) : Cube :=
  let m : W32 := BitVec.ofNat 32 mask
  let tot : W32 := if n ≥ 32 then ~~~ 0 else (1#32 <<< n) - 1
  ⟨m &&& tot, ~~~ m &&& tot⟩

/-- `value` -/
def value (c : Cube) (mask : Nat) : Bool :=
  let m : W32 := BitVec.ofNat 32 mask
  ((c.pos &&& m) ||| ~~~ c.pos) == ~~~ 0 && ((c.neg &&& ~~~ m) ||| ~~~ c.neg) == ~~~ 0

/-- `from_mask` -/
def fromMask (pos neg : W32) : Cube :=
  let c : Cube := ⟨pos, neg⟩
  if c.isZero then zero else c

/-- `from_vars` (every variable `< 32`) -/
def fromVars (posVars negVars : List Nat) : Cube :=
  let pos := posVars.foldl (fun acc p => acc ||| (1#32 <<< p)) 0
  let neg := negVars.foldl (fun acc p => acc ||| (1#32 <<< p)) 0
  fromMask pos neg

def popc32 (x : W32) : Nat := popc 32 x.toNat

def numLits (c : Cube) : Nat := if c.isZero then 0 else popc32 c.pos + popc32 c.neg
def numGates (c : Cube) : Nat := max c.numLits 1 - 1
def posVars (c : Cube) : List Nat := (List.range 32).filter (fun v => (c.pos >>> v) &&& 1 != 0)
def negVars (c : Cube) : List Nat := (List.range 32).filter (fun v => (c.neg >>> v) &&& 1 != 0)

/-- `Cube::and` -/
def and (a b : Cube) : Cube :=
  let ret : Cube := ⟨a.pos ||| b.pos, a.neg ||| b.neg⟩
  if ret.isZero then zero else ret

def intersects (a b : Cube) : Bool := and a b != zero
def implies (a b : Cube) : Bool := (a.pos ||| b.pos) == a.pos && (a.neg ||| b.neg) == a.neg

/-- `implies_lut` (`lut.value(i)` cannot panic for `i < num_bits`) -/
def impliesLut (c : Cube) (l : Lut) : Bool :=
  (List.range (Dyn.numBits l)).all (fun i => !(c.value i && !(getBit l.t i)))

/-- `Cube::all` -/
def all (vars : Nat) : List Cube :=
  let mx := 1 <<< vars
  ((List.range mx).flatMap (fun i => (List.range mx).map (fun j => (⟨BitVec.ofNat 32 i, BitVec.ofNat 32 j⟩ : Cube)))).filter
    (fun c => !c.isZero)

/-- derived `Ord`: lexicographic on `(pos, neg)` -/
def le (a b : Cube) : Bool := a.pos.toNat < b.pos.toNat || (a.pos == b.pos && a.neg.toNat ≤ b.neg.toNat)

end Cube

structure Ecube where
  vars : W32
  xnor : Bool
deriving DecidableEq, Repr

namespace Ecube

def one : Ecube := ⟨0, true⟩
def zero : Ecube := ⟨0, false⟩
def isZero (e : Ecube) : Bool := e.vars == 0 && !e.xnor
def isOne (e : Ecube) : Bool := e.vars == 0 && e.xnor
def nthVar (var : Nat) : Ecube := ⟨1#32 <<< var, false⟩
def nthVarInv (var : Nat) : Ecube := ⟨1#32 <<< var, true⟩

def value (e : Ecube) (mask : Nat) : Bool :=
  let m : W32 := BitVec.ofNat 32 mask
  let xorv := Cube.popc32 (e.vars &&& m) % 2
  (xorv == 1) != e.xnor

def fromVars (vars : List Nat) (xnor : Bool) : Ecube :=
  ⟨vars.foldl (fun acc p => acc ||| (1#32 <<< p)) 0, xnor⟩

def numLits (e : Ecube) : Nat := Cube.popc32 e.vars
def numGates (e : Ecube) : Nat := max e.numLits 1 - 1
def varsList (e : Ecube) : List Nat := (List.range 32).filter (fun v => (e.vars >>> v) &&& 1 != 0)

def impliesLut (e : Ecube) (l : Lut) : Bool :=
  (List.range (Dyn.numBits l)).all (fun i => !(e.value i && !(getBit l.t i)))

def all (vars : Nat) : List Ecube :=
  (List.range (1 <<< vars)).flatMap (fun i => [false, true].map (fun x => (⟨BitVec.ofNat 32 i, x⟩ : Ecube)))

def not (e : Ecube) : Ecube := ⟨e.vars, !e.xnor⟩
def xor (a b : Ecube) : Ecube := ⟨a.vars ^^^ b.vars, a.xnor != b.xnor⟩

end Ecube

/-- Rust `Vec::dedup` is `dedupAdj` (Model/Bdd.lean) -/

structure Sop where
  n : Nat
  cubes : List Cube
deriving DecidableEq, Repr

namespace Sop

def zero (n : Nat) : Sop := ⟨n, []⟩
def one (n : Nat) : Sop := ⟨n, [Cube.one]⟩
def numCubes (s : Sop) : Nat := s.cubes.length
def numLits (s : Sop) : Nat := s.cubes.foldl (fun acc c => acc + c.numLits) 0
def isZero (s : Sop) : Bool := s.cubes.isEmpty
def isOne (s : Sop) : Bool := match s.cubes.head? with | some c => c.isOne | none => false
def nthVar (n var : Nat) : Sop := ⟨n, [Cube.nthVar var]⟩
def nthVarInv (n var : Nat) : Sop := ⟨n, [Cube.nthVarInv var]⟩

/-- `from_cubes` (`none` = assertion on a variable index) -/
def fromCubes (n : Nat) (cubes : List Cube) : Option Sop :=
  if cubes.all (fun c => c.posVars.all (· < n) && c.negVars.all (· < n)) then some ⟨n, cubes⟩ else none

def value (s : Sop) (mask : Nat) : Bool := s.cubes.foldl (fun ret c => ret || c.value mask) false

/-- `simplify` -/
def simplifyCubes (cubes : List Cube) : List Cube :=
  let cubes := cubes.filter (fun c => !c.isZero)
  let cubes := dedupAdj (cubes.mergeSort Cube.le)
  cubes.filter (fun c => cubes.all (fun o => c == o || !c.implies o))

def or (a b : Sop) : Option Sop :=
  if a.n != b.n then none else some ⟨a.n, simplifyCubes (a.cubes ++ b.cubes)⟩

def and (a b : Sop) : Option Sop :=
  if a.n != b.n then none
  else
    let cubes := a.cubes.flatMap (fun c1 => b.cubes.filterMap (fun c2 =>
      let c := Cube.and c1 c2
      if c != Cube.zero then some c else none))
    some ⟨a.n, simplifyCubes cubes⟩

/-- `Not for &Sop` -/
def not (s : Sop) : Option Sop :=
  s.cubes.foldl (fun ret c =>
    match ret with
    | none => none
    | some r =>
      let v := c.posVars.map Cube.nthVarInv ++ c.negVars.map Cube.nthVar
      and r ⟨s.n, v⟩) (some (one s.n))

/-- `From<&Lut> for Sop` -/
def fromLut (l : Lut) : Sop :=
  ⟨l.n, (List.range (Dyn.numBits l)).filterMap (fun m =>
    if getBit l.t m then some (Cube.minterm l.n m) else none)⟩

end Sop

/-- `From<&Sop> for Lut` and friends: tabulate a `value` function -/
def tabulate (n : Nat) (f : Nat → Bool) : Lut :=
  (List.range (1 <<< n)).foldl (fun (l : Lut) m => if f m then { l with t := setBit l.t m } else l) (Dyn.zero n)

def Sop.toLut (s : Sop) : Lut := tabulate s.n s.value

structure Esop where
  n : Nat
  cubes : List Cube
deriving DecidableEq, Repr

namespace Esop

def zero (n : Nat) : Esop := ⟨n, []⟩
def one (n : Nat) : Esop := ⟨n, [Cube.one]⟩
def numCubes (s : Esop) : Nat := s.cubes.length
def numLits (s : Esop) : Nat := s.cubes.foldl (fun acc c => acc + c.numLits) 0
def isZero (s : Esop) : Bool := s.cubes.isEmpty
def isOne (s : Esop) : Bool :=
  if s.cubes.length != 1 then false else match s.cubes.head? with | some c => c.isOne | none => false
def nthVar (n var : Nat) : Esop := ⟨n, [Cube.nthVar var]⟩
def nthVarInv (n var : Nat) : Esop := ⟨n, [Cube.nthVarInv var]⟩
def fromCubes (n : Nat) (cubes : List Cube) : Option Esop :=
  if cubes.all (fun c => c.posVars.all (· < n) && c.negVars.all (· < n)) then some ⟨n, cubes⟩ else none
def value (s : Esop) (mask : Nat) : Bool := s.cubes.foldl (fun ret c => ret != c.value mask) false
def xor (a b : Esop) : Option Esop := if a.n != b.n then none else some ⟨a.n, a.cubes ++ b.cubes⟩
def not (s : Esop) : Esop := ⟨s.n, s.cubes ++ [Cube.one]⟩
def toLut (s : Esop) : Lut := tabulate s.n s.value

/-- inner loop of `From<&Lut> for Esop`: toggle every `j > i` with `!j & i == 0` -/
def esopToggle (nb i : Nat) (t : Array W) : Array W :=
  (List.range' (i + 1) (nb - (i + 1))).foldl (fun t j =>
    if (i &&& (2^64 - 1 - j % 2^64)) == 0 then     -- `!j & i == 0` on usize
      (if !(getBit t j) then setBit t j else unsetBit t j)
    else t) t

/-- `From<&Lut> for Esop` -/
def fromLut (l : Lut) : Esop :=
  let nb := Dyn.numBits l
  let r := (List.range nb).foldl (fun (st : Array W × List Cube) i =>
    if !(getBit st.1 i) then st
    else (esopToggle nb i st.1, st.2 ++ [Cube.fromMask (BitVec.ofNat 32 i) 0])) (l.t, [])
  ⟨l.n, r.2⟩

end Esop

structure Soes where
  n : Nat
  cubes : List Ecube
deriving DecidableEq, Repr

namespace Soes

def zero (n : Nat) : Soes := ⟨n, []⟩
def one (n : Nat) : Soes := ⟨n, [Ecube.one]⟩
def numCubes (s : Soes) : Nat := s.cubes.length
def numLits (s : Soes) : Nat := s.cubes.foldl (fun acc c => acc + c.numLits) 0
def isZero (s : Soes) : Bool := s.cubes.isEmpty
def isOne (s : Soes) : Bool := match s.cubes.head? with | some c => c.isOne | none => false
def nthVar (n var : Nat) : Soes := ⟨n, [Ecube.nthVar var]⟩
def nthVarInv (n var : Nat) : Soes := ⟨n, [Ecube.nthVarInv var]⟩
def fromCubes (n : Nat) (cubes : List Ecube) : Option Soes :=
  if cubes.all (fun c => c.varsList.all (· < n)) then some ⟨n, cubes⟩ else none
def value (s : Soes) (mask : Nat) : Bool := s.cubes.foldl (fun ret c => ret || c.value mask) false
def or (a b : Soes) : Option Soes := if a.n != b.n then none else some ⟨a.n, a.cubes ++ b.cubes⟩
def toLut (s : Soes) : Lut := tabulate s.n s.value

end Soes

/-! ## Display (cube.rs:204-230, ecube.rs:177-200, sop.rs:255-269, esop.rs:170-184, soes.rs:145-159) -/

namespace Display

def xLit (i : Nat) : List Nat := 120 :: decDigits i          -- "x{i}"

/-- the `while pos != 0 || neg != 0` loop of `Cube::fmt` -/
def cubeLoop : Nat → W32 → W32 → Nat → List Nat
  | 0, _, _, _ => []
  | fuel + 1, pos, neg, i =>
    if pos != 0 || neg != 0 then
      (if pos &&& 1 != 0 then xLit i else []) ++
      (if neg &&& 1 != 0 then 33 :: xLit i else []) ++
      cubeLoop fuel (pos >>> 1) (neg >>> 1) (i + 1)
    else []

def cube (c : Cube) : List Nat :=
  if c.isOne then [49] else if c.isZero then [48] else cubeLoop 32 c.pos c.neg 0

def joinWith (sep : List Nat) : List (List Nat) → List Nat
  | [] => []
  | [a] => a
  | a :: rest => a ++ sep ++ joinWith sep rest

def ecubeLoop : Nat → W32 → Nat → List (List Nat)
  | 0, _, _ => []
  | fuel + 1, vars, i =>
    if vars != 0 then
      (if vars &&& 1 != 0 then [xLit i] else []) ++ ecubeLoop fuel (vars >>> 1) (i + 1)
    else []

def ecube (e : Ecube) : List Nat :=
  if e.isZero then [48]
  else joinWith [32, 94, 32] ((if e.xnor then [[49]] else []) ++ ecubeLoop 32 e.vars 0)

def sop (s : Sop) : List Nat :=
  if s.isZero then [48] else joinWith [32, 124, 32] (s.cubes.map cube)
def esop (s : Esop) : List Nat :=
  if s.isZero then [48] else joinWith [32, 94, 32] (s.cubes.map cube)
def soes (s : Soes) : List Nat :=
  if s.isZero then [48] else joinWith [32, 124, 32] (s.cubes.map ecube)

end Display

end VoluteModel

import VoluteModel.Model.Ops

/-!
# Model of src/decomposition.rs
-/

namespace VoluteModel

/-- in-word cofactors of `input_property_helper` -/
def helperC1 (ind : Nat) (t : W) : W :=
  let shift := 1 <<< ind
  let m1 := varMask ind
  ((t &&& m1) >>> shift) ||| (t &&& m1)

def helperC0 (ind : Nat) (t : W) : W :=
  let shift := 1 <<< ind
  let m0 := ~~~ varMask ind
  ((t &&& m0) <<< shift) ||| (t &&& m0)

/-- `input_property_helper`; `none` = one of the two always-on `assert!`s fails -/
def inputPropertyHelper (n : Nat) (t : Array W) (ind : Nat) (op : W → W → W) : Option Bool :=
  if t.size ≠ tableSize n then none
  else if ¬ ind < n then none
  else
    let mask := numVarsMask n
    if ind ≤ 5 then
      some (t.foldl (fun ret w =>
        let c1 := helperC1 ind w
        let c0 := helperC0 ind w
        ret && (~~~ (op c0 c1) &&& mask == 0#64)) true)
    else
      let stride := 1 <<< (ind - 6)
      some ((List.range t.size).foldl (fun ret i =>
        if i &&& stride == 0 then
          let c0 := t[i]?.getD 0
          let c1 := t[i + stride]?.getD 0
          ret && (~~~ (op c0 c1) &&& mask == 0#64)
        else ret) true)

def inputIndependent (n t ind) := inputPropertyHelper n t ind (fun c0 c1 => ~~~ (c0 ^^^ c1))
def inputAnd (n t ind) := inputPropertyHelper n t ind (fun c0 _ => ~~~ c0)
def inputOr (n t ind) := inputPropertyHelper n t ind (fun _ c1 => c1)
def inputNand (n t ind) := inputPropertyHelper n t ind (fun c0 _ => c0)
def inputNor (n t ind) := inputPropertyHelper n t ind (fun _ c1 => ~~~ c1)
def inputXor (n t ind) := inputPropertyHelper n t ind (fun c0 c1 => c0 ^^^ c1)
def inputPosUnate (n t ind) := inputPropertyHelper n t ind (fun c0 c1 => ~~~ c0 ||| c1)
def inputNegUnate (n t ind) := inputPropertyHelper n t ind (fun c0 c1 => ~~~ c1 ||| c0)

inductive DecompositionType where
  | None | Independent | Identity | Negation | And | Or | Le | Lt | Xor
deriving DecidableEq, Repr

namespace DecompositionType
/-- `is_trivial` -/
def isTrivial (d : DecompositionType) : Bool := d == .Independent || d == .Identity || d == .Negation
/-- `is_and_type` -/
def isAndType (d : DecompositionType) : Bool := d == .And || d == .Or || d == .Le || d == .Lt
/-- `is_xor_type` -/
def isXorType (d : DecompositionType) : Bool := d == .Xor
/-- `is_simple_gate` -/
def isSimpleGate (d : DecompositionType) : Bool := d == .And || d == .Or || d == .Le || d == .Lt || d == .Xor
end DecompositionType

/-- the priority chain of `top_decomposition` -/
def decompChain (indep and or nand nor xor : Bool) : DecompositionType :=
  if indep then .Independent
  else if and && or then .Identity
  else if nand && nor then .Negation
  else if and then .And
  else if or then .Or
  else if nand then .Le
  else if nor then .Lt
  else if xor then .Xor
  else .None

/-- `top_decomposition` -/
def topDecomposition (n : Nat) (t : Array W) (ind : Nat) : Option DecompositionType :=
  match inputIndependent n t ind, inputAnd n t ind, inputOr n t ind,
        inputNand n t ind, inputNor n t ind, inputXor n t ind with
  | some indep, some and, some or, some nand, some nor, some xor =>
    some (decompChain indep and or nand nor xor)
  | _, _, _, _, _, _ => none

end VoluteModel

import VoluteModel.Gen.Tables

/-!
# Carrier and conventions of the model (operations.rs:1-94)

A truth table is `Array W` exactly as in Rust: little-endian 64-bit words, bit `m` of the
function sits in word `m / 64` at position `m % 64`.  `usize` is `Nat` (faithful as long as no
`usize` operation overflows - the API guards make sure of that, see `Props/C17`).
Imports: core only (the driver is linked as an executable).
-/

namespace VoluteModel
open Gen

abbrev W := BitVec 64

/-- bit `m` of a table (total: outside the table it is `false`) -/
def bit (t : Array W) (m : Nat) : Bool := (t[m / 64]?.getD 0).getLsbD (m % 64)

/-- `VAR_MASK[i]` -/
def varMask (i : Nat) : W := VAR_MASK[i]!

/-- Rust `num_vars_mask` -/
def numVarsMask (n : Nat) : W := NUM_VARS_MASK[min n 6]!

/-- Rust `table_size` -/
def tableSize (n : Nat) : Nat :=
  let v := if n > 6 then n else 6
  1 <<< (v - 6)

/-- `SWAP_INPUT_MASKS[i][j]` -/
def swapMask (i j : Nat) : W := (SWAP_INPUT_MASKS[i]!)[j]!

/-- number of set bits among the low `w` bits of `x` (`count_ones` for `w` = width) -/
def popc (w x : Nat) : Nat := (List.range w).countP (fun i => x.testBit i)

/-- the value of a table as a little-endian number -/
def toNatLE : List W → Nat
  | [] => 0
  | a :: as => a.toNat + 2^64 * toNatLE as

/-- A dynamic truth table (`Lut`): `num_vars` and the boxed slice -/
structure Lut where
  n : Nat
  t : Array W
deriving DecidableEq, Repr

/-- well-formed: right number of words, nothing above bit `2^n` -/
def WF (n : Nat) (t : Array W) : Prop :=
  t.size = tableSize n ∧ ∀ k, k < t.size → t[k]?.getD 0 &&& ~~~ numVarsMask n = 0

instance (n : Nat) (t : Array W) : Decidable (WF n t) := by
  unfold WF; exact inferInstance

def Lut.WF (l : Lut) : Prop := VoluteModel.WF l.n l.t

/-- value on assignment `m` -/
def Lut.eval (l : Lut) (m : Nat) : Bool := bit l.t m

end VoluteModel

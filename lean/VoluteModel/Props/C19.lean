import VoluteModel.Model.Api
import VoluteModel.Lemmas.WFLemmas

/-!
# C19 (partial) - random() is a masked projection of the generator's word stream

What Lean can carry: for EVERY word stream `rng` the result is well formed, and every table
position is a distinct bit of the stream, so nothing in volute can make the result
degenerate.  That `rand::thread_rng()` is fair and thread-local is a runtime fact of another
crate: it is covered by the statistical run on the real code (not by a theorem).
-/

namespace VoluteModel.Props.C19
open VoluteModel

theorem new_size (n : Nat) : (Dyn.new n).t.size = tableSize n := by simp [Dyn.new]

/-- always well formed, whatever the generator returns -/
theorem random_WF (n : Nat) (rng : Nat → W) : (Dyn.random n rng).WF ∧ (Dyn.random n rng).n = n :=
  ⟨fillRandom_WF n _ (new_size n) rng, rfl⟩

/-- position m of the table is bit (m mod 64) of stream word (m div 64): a projection, so
    distinct positions read distinct stream bits -/
theorem random_bit (n : Nat) (rng : Nat → W) (m : Nat) (hm : m < 2 ^ n) :
    (Dyn.random n rng).eval m = (rng (m / 64)).getLsbD (m % 64) := by
  have hw : m / 64 < (Dyn.new n).t.size := by rw [new_size]; exact div64_lt_tableSize hm
  unfold Dyn.random Lut.eval fillRandom
  simp only []
  rw [bit_mapIdx _ _ _ hw, BitVec.getLsbD_and, numVarsMask_bit n _ (mod64_lt m)]
  have : m % 64 < 2 ^ n := by
    by_cases h6 : n ≤ 6
    · have := (small_index h6 hm).2; omega
    · have : 2 ^ 6 ≤ 2 ^ n := Nat.pow_le_pow_right (by omega) (by omega)
      have := mod64_lt m
      omega
  simp [this]

/-- the position-to-stream-bit map is injective -/
theorem positions_distinct (m m' : Nat) (h : (m / 64, m % 64) = (m' / 64, m' % 64)) : m = m' := by
  simp only [Prod.mk.injEq] at h
  omega

/-- for six or more variables the table IS the stream prefix -/
theorem random_words (n : Nat) (h6 : 6 ≤ n) (rng : Nat → W) (i : Nat) (hi : i < tableSize n) :
    (Dyn.random n rng).t[i]? = some (rng i) := by
  have hmask : numVarsMask n = ~~~ 0#64 := by
    unfold numVarsMask
    have : min n 6 = 6 := by omega
    rw [this]; decide
  have hand : ∀ x : W, x &&& ~~~ 0#64 = x := by
    intro x; rw [BitVec.not_zero, BitVec.and_allOnes]
  simp only [Dyn.random, fillRandom, Dyn.new, hmask, hand]
  rw [Array.getElem?_mapIdx]
  simp [hi]

/-- a call consumes exactly `tableSize n` stream words: two calls fed from disjoint ranges of
    the stream have no stream bit in common -/
theorem calls_disjoint (n : Nat) (stream : Nat → W) (m m' : Nat) (hm : m < 2 ^ n) (hm' : m' < 2 ^ n) :
    (Dyn.random n (fun i => stream i)).eval m = (stream (m / 64)).getLsbD (m % 64) ∧
    (Dyn.random n (fun i => stream (tableSize n + i))).eval m' = (stream (tableSize n + m' / 64)).getLsbD (m' % 64) ∧
    m / 64 < tableSize n ∧ tableSize n ≤ tableSize n + m' / 64 :=
  ⟨random_bit n _ m hm, random_bit n _ m' hm', div64_lt_tableSize hm, Nat.le_add_right _ _⟩

/-- non-vacuity: a stream of alternating words -/
example : Dyn.random 3 (fun _ => 0xdeadbeef#64) = ⟨3, #[0xef#64]⟩ := by decide +kernel

end VoluteModel.Props.C19

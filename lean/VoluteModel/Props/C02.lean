import VoluteModel.Lemmas.WFLemmas
import VoluteModel.Props.C01
import VoluteModel.Props.C08
import VoluteModel.Props.C09
import VoluteModel.Props.C11
import VoluteModel.Props.C10

/-!
# C02 - equality, hashing and ordering are extensional (no hidden representation state)

(1) `Reachable l → l.WF`: induction over every finite history of public calls with valid
    arguments - one constructor per public way to obtain or mutate a table;
(2) for well-formed tables structural equality (derived `PartialEq`/`Hash` on
    `(num_vars, table)`) and `cmp = Equal` coincide with extensional equality;
(3) the block view of a well-formed table has `max 1 (2^n/64)` blocks and no bit at or beyond `2^n`.
-/

namespace VoluteModel.Props.C02
open VoluteModel Gen

theorem ite_some_eq {α : Type} {c : Prop} [Decidable c] {x l : α}
    (h : (if c then some x else none) = some l) : c ∧ x = l := by
  by_cases hc : c
  · simp only [hc, if_true, Option.some.injEq] at h; exact ⟨hc, h⟩
  · simp [hc] at h

/-! ## canonization results are well formed -/

theorem swapAdj_WF' (n : Nat) (t : Array W) (h : WF n t) (s : Nat) (hs : 6 ≤ n ∨ s + 1 < n) :
    WF n (swapAdjacentInplace t s) := by
  unfold swapAdjacentInplace
  rcases hs with h6 | hlt
  · exact WF_of_size_ge6 n _ h6 (by rw [swapInplace_size, h.1])
  · exact swap_WF n t h s (s + 1) (by omega) hlt

theorem flip_WF' (n : Nat) (t : Array W) (h : WF n t) (f : Nat) (hf : 6 ≤ n ∨ f < n) :
    WF n (flipInplace t f) := by
  rcases hf with h6 | hlt
  · exact WF_of_size_ge6 n _ h6 (by rw [flipInplace_size, h.1])
  · exact flip_WF n t h f hlt

def SInv (n : Nat) (s : WalkState) : Prop := WF n s.table ∧ WF n s.best

theorem cmpStep_inv (n : Nat) (s : WalkState) (h : SInv n s) : SInv n (cmpStep s) := by
  unfold cmpStep; split
  · exact ⟨h.1, h.1⟩
  · exact h

theorem notTwice_inv (n : Nat) (s : WalkState) (h : SInv n s) : SInv n (notTwice n s) := by
  unfold notTwice
  simp only [List.range_succ, List.range_zero, List.nil_append, List.cons_append, List.foldl_cons, List.foldl_nil]
  apply cmpStep_inv
  have h1 : SInv n (cmpStep { s with table := notInplace n s.table }) := by
    apply cmpStep_inv
    exact ⟨VoluteModel.Props.C01.not_WF n _ h.1.1, h.2⟩
  exact ⟨VoluteModel.Props.C01.not_WF n _ h1.1.1, h1.2⟩

theorem flips_inv (n : Nat) (flips : List Nat) (hf : ∀ f ∈ flips, 6 ≤ n ∨ f < n) (s : WalkState) (h : SInv n s) :
    SInv n (flips.foldl (fun s flip => notTwice n { s with table := flipInplace s.table flip }) s) := by
  induction flips generalizing s with
  | nil => exact h
  | cons f fs ih =>
    simp only [List.foldl_cons]
    apply ih (fun x hx => hf x (by simp [hx]))
    apply notTwice_inv
    exact ⟨flip_WF' n _ h.1 f (hf f (by simp)), h.2⟩

theorem pCanonInd_inv (n : Nat) (t : Array W) (h : WF n t) (swaps : List Nat)
    (hs : ∀ s ∈ swaps, 6 ≤ n ∨ s + 1 < n) : SInv n (pCanonInd t swaps) := by
  unfold pCanonInd
  have : ∀ (l : List Nat) (s : WalkState), (∀ x ∈ l, 6 ≤ n ∨ x + 1 < n) → SInv n s →
      SInv n (l.foldl (fun s swap => cmpStep { s with table := swapAdjacentInplace s.table swap }) s) := by
    intro l
    induction l with
    | nil => intro s _ h; exact h
    | cons a l ih =>
      intro s hl h
      simp only [List.foldl_cons]
      apply ih _ (fun x hx => hl x (by simp [hx]))
      apply cmpStep_inv
      exact ⟨swapAdj_WF' n _ h.1 a (hl a (by simp)), h.2⟩
  exact this swaps _ hs ⟨h, h⟩

theorem nCanonInd_inv (n : Nat) (t : Array W) (h : WF n t) (flips : List Nat)
    (hf : ∀ f ∈ flips, 6 ≤ n ∨ f < n) : SInv n (nCanonInd n t flips) := by
  unfold nCanonInd
  exact flips_inv n flips hf _ ⟨h, h⟩

theorem npnCanonInd_inv (n : Nat) (t : Array W) (h : WF n t) (swaps flips : List Nat)
    (hs : ∀ s ∈ swaps, 6 ≤ n ∨ s + 1 < n) (hf : ∀ f ∈ flips, 6 ≤ n ∨ f < n) :
    SInv n (npnCanonInd n t swaps flips) := by
  unfold npnCanonInd
  have : ∀ (l : List Nat) (s : WalkState), (∀ x ∈ l, 6 ≤ n ∨ x + 1 < n) → SInv n s →
      SInv n (l.foldl (fun s swap =>
        flips.foldl (fun s flip => notTwice n { s with table := flipInplace s.table flip })
          { s with table := swapAdjacentInplace s.table swap }) s) := by
    intro l
    induction l with
    | nil => intro s _ h; exact h
    | cons a l ih =>
      intro s hl h
      simp only [List.foldl_cons]
      apply ih _ (fun x hx => hl x (by simp [hx]))
      apply flips_inv n flips hf
      exact ⟨swapAdj_WF' n _ h.1 a (hl a (by simp)), h.2⟩
  exact this swaps _ hs ⟨h, h⟩

/-- T1: the hard-coded sequences for n <= 5 only name valid positions -/
theorem tables_valid : ∀ n : Fin 6, (∀ s ∈ (SWAPS[n.val]?).getD [], s + 1 < n.val) ∧
    (∀ f ∈ (FLIPS[n.val]?).getD [], f < n.val) := by decide

theorem swapsFor_valid (n : Nat) (sw : List Nat) (h : swapsFor n = some sw) : ∀ s ∈ sw, 6 ≤ n ∨ s + 1 < n := by
  intro s hs
  by_cases h6 : 6 ≤ n
  · exact Or.inl h6
  · right
    have hn : n ≤ 6 := by omega
    simp only [swapsFor, hn, if_true] at h
    have := (tables_valid ⟨n, by omega⟩).1 s
    simp only [h, Option.getD_some] at this
    exact this hs

theorem flipsFor_valid (n : Nat) (fl : List Nat) (h : flipsFor n = some fl) : ∀ f ∈ fl, 6 ≤ n ∨ f < n := by
  intro f hf
  by_cases h6 : 6 ≤ n
  · exact Or.inl h6
  · right
    have hn : n ≤ 6 := by omega
    simp only [flipsFor, hn, if_true] at h
    have := (tables_valid ⟨n, by omega⟩).2 f
    simp only [h, Option.getD_some] at this
    exact this hf

theorem pCanon_WF (n : Nat) (t : Array W) (h : WF n t) (r : Array W × Array Nat)
    (hr : pCanonization n t = some r) : WF n r.1 := by
  unfold pCanonization at hr
  split at hr
  · cases hr; exact h
  · split at hr
    · cases hr
    · rename_i sw hsw
      simp only [Option.map_eq_some_iff] at hr
      obtain ⟨p, _, rfl⟩ := hr
      exact (pCanonInd_inv n t h sw (swapsFor_valid n sw hsw)).2

theorem nCanon_WF (n : Nat) (t : Array W) (h : WF n t) (r : Array W × Nat)
    (hr : nCanonization n t = some r) : WF n r.1 := by
  unfold nCanonization at hr
  by_cases h0 : n = 0
  · simp only [h0, if_true] at hr
    by_cases hc : (cmpTables (notInplace 0 t) t == Ordering.lt) = true
    · simp only [hc, if_true, Option.some.injEq] at hr
      subst hr; subst h0; exact VoluteModel.Props.C01.not_WF 0 t h.1
    · simp only [hc, Bool.false_eq_true, if_false, Option.some.injEq] at hr
      subst hr; exact h
  · simp only [h0, if_false] at hr
    split at hr
    · cases hr
    · rename_i fl hfl
      simp only [Option.map_eq_some_iff] at hr
      obtain ⟨p, _, rfl⟩ := hr
      exact (nCanonInd_inv n t h fl (flipsFor_valid n fl hfl)).2

theorem npnCanon_WF (n : Nat) (t : Array W) (h : WF n t) (r : Array W × Array Nat × Nat)
    (hr : npnCanonization n t = some r) : WF n r.1 := by
  unfold npnCanonization at hr
  split at hr
  · simp only [Option.map_eq_some_iff] at hr
    obtain ⟨q, hq, rfl⟩ := hr
    exact nCanon_WF n t h q hq
  · split at hr
    · rename_i sw fl hsw hfl
      simp only [Option.map_eq_some_iff] at hr
      obtain ⟨p, _, rfl⟩ := hr
      exact (npnCanonInd_inv n t h sw fl (swapsFor_valid n sw hsw) (flipsFor_valid n fl hfl)).2
    · cases hr

/-! ## the invariant over API histories -/

/-- every public way to obtain a table from valid arguments -/
inductive Reachable : Lut → Prop
  | zero (n) : Reachable (Dyn.zero n)
  | one (n) : Reachable (Dyn.one n)
  | nthVar (n i l) : Dyn.nthVar n i = some l → Reachable l
  | parity (n) : Reachable (Dyn.parity n)
  | majority (n) : Reachable (Dyn.majority n)
  | threshold (n k) : Reachable (Dyn.threshold n k)
  | equals (n k) : Reachable (Dyn.equals n k)
  | symmetric (n c) : Reachable (Dyn.symmetric n c)
  | random (n rng) : Reachable (Dyn.random n rng)
  | fromBlocks (n b l) : WF n b → Dyn.fromBlocks n b = some l → Reachable l
  | fromHex (n s l) : Dyn.fromHexString n s = some l → Reachable l
  | not (a) : Reachable a → Reachable (Dyn.not a)
  | and (a b l) : Reachable a → Reachable b → Dyn.and a b = some l → Reachable l
  | or (a b l) : Reachable a → Reachable b → Dyn.or a b = some l → Reachable l
  | xor (a b l) : Reachable a → Reachable b → Dyn.xor a b = some l → Reachable l
  | flip (a i l) : Reachable a → Dyn.flip a i = some l → Reachable l
  | swap (a i j l) : Reachable a → Dyn.swap a i j = some l → Reachable l
  | swapAdjacent (a i l) : Reachable a → Dyn.swapAdjacent a i = some l → Reachable l
  | cofactor0 (a i c) : Reachable a → Dyn.cofactors a i = some c → Reachable c.1
  | cofactor1 (a i c) : Reachable a → Dyn.cofactors a i = some c → Reachable c.2
  | fromCofactors (a b i l) : Reachable a → Reachable b → Dyn.fromCofactors a b i = some l → Reachable l
  | setBit (a m l) : Reachable a → Dyn.setBit a m = some l → Reachable l
  | unsetBit (a m l) : Reachable a → Dyn.unsetBit a m = some l → Reachable l
  | pCanon (a r) : Reachable a → Dyn.pCanonization a = some r → Reachable r.1
  | nCanon (a r) : Reachable a → Dyn.nCanonization a = some r → Reachable r.1
  | npnCanon (a r) : Reachable a → Dyn.npnCanonization a = some r → Reachable r.1
  | next (a) : Reachable a → Reachable (Dyn.verifNext a).1
  | setValue (a m v l) : Reachable a → Dyn.setValue a m v = some l → Reachable l
  | tryFromDyn (n a l) : Reachable a → Stat.tryFromDyn n a = some l → Reachable l
  | toDyn (a l) : Reachable a → Stat.toDyn a = some l → Reachable l
  | fromInt (n v l) : n ≤ 6 → v < 2 ^ (2 ^ n) → Stat.fromInt n v = some l → Reachable l
  | ofSop (s : Sop) : Reachable s.toLut
  | ofEsop (s : Esop) : Reachable s.toLut
  | ofSoes (s : Soes) : Reachable s.toLut

theorem new_size (n : Nat) : (Dyn.new n).t.size = tableSize n := by simp [Dyn.new]

theorem zero_WF (n : Nat) : (Dyn.zero n).WF := VoluteModel.Props.C11.zero_WF n _ (new_size n)

/-- Main theorem: every value obtained through the public API from valid arguments, in any
    order and any number of times, is well formed. -/
theorem reachable_WF (l : Lut) (h : Reachable l) : l.WF := by
  induction h with
  | zero n => exact zero_WF n
  | one n => exact VoluteModel.Props.C11.one_WF n _ (new_size n)
  | nthVar n i l h => exact ((VoluteModel.Props.C11.api_nthVar n i).2 l h).2.1
  | parity n => exact VoluteModel.Props.C11.symmetric_WF n _ (new_size n) _
  | majority n => exact VoluteModel.Props.C11.threshold_WF n _ (new_size n) _
  | threshold n k => exact VoluteModel.Props.C11.threshold_WF n _ (new_size n) k
  | equals n k => exact VoluteModel.Props.C11.equals_WF n _ (new_size n) k
  | symmetric n c => exact VoluteModel.Props.C11.symmetric_WF n _ (new_size n) c
  | random n rng => exact fillRandom_WF n _ (new_size n) rng
  | fromBlocks n b l hb h =>
    simp only [Dyn.fromBlocks] at h
    obtain ⟨_, rfl⟩ := ite_some_eq h
    exact hb
  | fromHex n s l h => exact (VoluteModel.Props.C09.fromHex_WF n s l h).2
  | not a _ ih => exact VoluteModel.Props.C01.not_WF a.n a.t ih.1
  | and a b l _ _ h iha ihb =>
    simp only [Dyn.and, Dyn.andInplace, Dyn.checkLut] at h
    obtain ⟨hn, rfl⟩ := ite_some_eq h
    have hn' : a.n = b.n := by simpa using hn
    exact VoluteModel.Props.C01.and_WF a.n a.t b.t iha (hn' ▸ ihb)
  | or a b l _ _ h iha ihb =>
    simp only [Dyn.or, Dyn.orInplace, Dyn.checkLut] at h
    obtain ⟨hn, rfl⟩ := ite_some_eq h
    have hn' : a.n = b.n := by simpa using hn
    exact VoluteModel.Props.C01.or_WF a.n a.t b.t iha (hn' ▸ ihb)
  | xor a b l _ _ h iha ihb =>
    simp only [Dyn.xor, Dyn.xorInplace, Dyn.checkLut] at h
    obtain ⟨hn, rfl⟩ := ite_some_eq h
    have hn' : a.n = b.n := by simpa using hn
    exact VoluteModel.Props.C01.xor_WF a.n a.t b.t iha (hn' ▸ ihb)
  | flip a i l _ h ih =>
    simp only [Dyn.flip, Dyn.flipInplace, Dyn.checkVar] at h
    obtain ⟨hi, rfl⟩ := ite_some_eq h
    exact flip_WF a.n a.t ih i (by simpa using hi)
  | swap a i j l _ h ih =>
    simp only [Dyn.swap, Dyn.swapInplace, Dyn.checkVar] at h
    obtain ⟨hi, rfl⟩ := ite_some_eq h
    have hi' : i < a.n ∧ j < a.n := by simpa using hi
    exact swap_WF a.n a.t ih i j hi'.1 hi'.2
  | swapAdjacent a i l _ h ih =>
    simp only [Dyn.swapAdjacent, Dyn.swapAdjacentInplace, Dyn.checkVar] at h
    obtain ⟨hi, rfl⟩ := ite_some_eq h
    have hi' : i < a.n ∧ i + 1 < a.n := by simpa using hi
    exact swap_WF a.n a.t ih i (i + 1) hi'.1 hi'.2
  | cofactor0 a i c _ h ih =>
    simp only [Dyn.cofactors, Dyn.checkVar] at h
    obtain ⟨hi, rfl⟩ := ite_some_eq h
    exact cof0_WF a.n a.t ih i (by simpa using hi)
  | cofactor1 a i c _ h ih =>
    simp only [Dyn.cofactors, Dyn.checkVar] at h
    obtain ⟨hi, rfl⟩ := ite_some_eq h
    exact cof1_WF a.n a.t ih i (by simpa using hi)
  | fromCofactors a b i l _ _ h iha ihb =>
    simp only [Dyn.fromCofactors, Dyn.checkVar] at h
    by_cases hn : (a.n != b.n) = true
    · simp [hn] at h
    · simp only [hn, Bool.false_eq_true, if_false] at h
      by_cases hi : (!decide (i < a.n)) = true
      · simp [hi] at h
      · simp only [hi, Bool.false_eq_true, if_false, Option.some.injEq] at h
        subst h
        have hn' : a.n = b.n := by simpa using hn
        have hi' : i < a.n := by simpa using hi
        exact fromCof_WF a.n _ a.t b.t (new_size a.n) iha (hn' ▸ ihb) i hi'
  | setBit a m l _ h ih =>
    simp only [Dyn.setBit, Dyn.checkBit, Dyn.numBits] at h
    obtain ⟨hm, rfl⟩ := ite_some_eq h
    exact setBit_WF a.n a.t ih m (by simpa [Nat.shiftLeft_eq] using hm)
  | unsetBit a m l _ h ih =>
    simp only [Dyn.unsetBit, Dyn.checkBit] at h
    obtain ⟨_, rfl⟩ := ite_some_eq h
    exact unsetBit_WF a.n a.t ih m
  | pCanon a r _ h ih =>
    simp only [Dyn.pCanonization, Option.map_eq_some_iff] at h
    obtain ⟨q, hq, rfl⟩ := h
    exact pCanon_WF a.n a.t ih q hq
  | nCanon a r _ h ih =>
    simp only [Dyn.nCanonization, Option.map_eq_some_iff] at h
    obtain ⟨q, hq, rfl⟩ := h
    exact nCanon_WF a.n a.t ih q hq
  | npnCanon a r _ h ih =>
    simp only [Dyn.npnCanonization, Option.map_eq_some_iff] at h
    obtain ⟨q, hq, rfl⟩ := h
    exact npnCanon_WF a.n a.t ih q hq
  | next a _ ih => exact (VoluteModel.Props.C08.next_spec a ih).2.2.2
  | setValue a m v l _ h ih =>
    unfold Dyn.setValue at h
    cases v with
    | true =>
      simp only [if_true, Dyn.setBit, Dyn.checkBit, Dyn.numBits] at h
      obtain ⟨hm, rfl⟩ := ite_some_eq h
      exact setBit_WF a.n a.t ih m (by simpa [Nat.shiftLeft_eq] using hm)
    | false =>
      simp only [Bool.false_eq_true, if_false, Dyn.unsetBit, Dyn.checkBit] at h
      obtain ⟨_, rfl⟩ := ite_some_eq h
      exact unsetBit_WF a.n a.t ih m
  | tryFromDyn n a l _ h ih =>
    by_cases hn : a.n = n
    · rw [(VoluteModel.Props.C10.tryFromDyn_spec n a ih).1 hn] at h
      cases h; exact ih
    · rw [(VoluteModel.Props.C10.tryFromDyn_spec n a ih).2 hn] at h
      cases h
  | toDyn a l _ h ih =>
    rw [VoluteModel.Props.C10.toDyn_spec a ih] at h
    cases h; exact ih
  | fromInt n v l hn hv h =>
    obtain ⟨l', h', _, hwf, _⟩ := VoluteModel.Props.C10.fromInt_spec n v hn hv
    rw [h'] at h
    cases h; exact hwf
  | ofSop s => exact (tabulate_WF s.n _ (zero_WF s.n)).1
  | ofEsop s => exact (tabulate_WF s.n _ (zero_WF s.n)).1
  | ofSoes s => exact (tabulate_WF s.n _ (zero_WF s.n)).1

/-! ## extensionality -/

/-- two well-formed tables are equal (derived `==`, hence also equal hashes) exactly when they
    have the same number of variables and the same value on every assignment -/
theorem eq_iff_ext (a b : Lut) (ha : a.WF) (hb : b.WF) :
    a = b ↔ a.n = b.n ∧ ∀ m, m < 2 ^ a.n → a.eval m = b.eval m := by
  constructor
  · intro h; subst h; exact ⟨rfl, fun _ _ => rfl⟩
  · rintro ⟨hn, h⟩; exact VoluteModel.Props.C08.eq_of_eval a b ha hb hn h

/-- `cmp` returns `Equal` exactly on extensionally equal tables -/
theorem cmp_eq_iff_ext (a b : Lut) (ha : a.WF) (hb : b.WF) :
    Dyn.cmp a b = .eq ↔ a.n = b.n ∧ ∀ m, m < 2 ^ a.n → a.eval m = b.eval m := by
  rw [VoluteModel.Props.C08.cmp_eq_iff a b ha hb, eq_iff_ext a b ha hb]

/-- for reachable values: no hidden representation state -/
theorem reachable_ext (a b : Lut) (ha : Reachable a) (hb : Reachable b) :
    (a = b ↔ a.n = b.n ∧ ∀ m, m < 2 ^ a.n → a.eval m = b.eval m) ∧
    (Dyn.cmp a b = .eq ↔ a = b) :=
  ⟨eq_iff_ext a b (reachable_WF a ha) (reachable_WF b hb),
   VoluteModel.Props.C08.cmp_eq_iff a b (reachable_WF a ha) (reachable_WF b hb)⟩

theorem tableSize_eq (n : Nat) : tableSize n = max 1 (2 ^ n / 64) := by
  by_cases h6 : 6 ≤ n
  · rw [tableSize_ge6 h6]
    have e : 2 ^ n = 64 * 2 ^ (n - 6) := by
      have : n = 6 + (n - 6) := by omega
      conv => lhs; rw [this, Nat.pow_add]
    have := Nat.two_pow_pos (n - 6)
    rw [e]; omega
  · rw [tableSize_le6 (by omega)]
    have : 2 ^ n ≤ 2 ^ 5 := Nat.pow_le_pow_right (by omega) (by omega)
    omega

/-- the exported block view: exactly max(1, 2^n/64) blocks, no bit at a position >= 2^n -/
theorem blocks_view (l : Lut) (h : Reachable l) :
    (Dyn.blocks l).size = max 1 (2 ^ l.n / 64) ∧ ∀ p, 2 ^ l.n ≤ p → bit (Dyn.blocks l) p = false := by
  have hw := reachable_WF l h
  refine ⟨by rw [← tableSize_eq]; exact hw.1, ?_⟩
  intro p hp
  unfold Dyn.blocks
  by_cases hk : p / 64 < l.t.size
  · rw [bit_eq_getElem hk]
    by_cases h6 : 6 ≤ l.n
    · exfalso
      have hsz := size_pow hw.1 h6
      have e : 2 ^ l.n = 64 * 2 ^ (l.n - 6) := by
        have : l.n = 6 + (l.n - 6) := by omega
        conv => lhs; rw [this, Nat.pow_add]
      rw [hsz] at hk
      omega
    · have hs1 : l.t.size = 1 := by rw [hw.1, tableSize_le6 (by omega)]
      have : p / 64 = 0 := by omega
      apply WF_word_bit hw _ hk _ (mod64_lt p)
      omega
  · exact bit_of_size_le (by omega)

/-- non-vacuity: a history of four calls -/
example : Reachable (Dyn.not (Dyn.majority 3)) := Reachable.not _ (Reachable.majority 3)
example : ∃ l, Dyn.flip (Dyn.majority 3) 1 = some l ∧ Reachable l :=
  ⟨_, rfl, Reachable.flip _ 1 _ (Reachable.majority 3) rfl⟩

end VoluteModel.Props.C02

import VoluteModel.Model.Api
import VoluteModel.Lemmas.TextLemmas
import VoluteModel.Lemmas.CrossWord
import VoluteModel.Props.C08

/-!
# C09 - text forms are exact and fixed-width; parsing accepts exactly well-formed input
-/

namespace VoluteModel.Props.C09
open VoluteModel VoluteModel.Props.C08

/-- number of hex digits per word -/
theorem hexStrSize_small : ∀ n : Fin 6, hexStrSize n.val = max 1 (2 ^ n.val / 4) := by decide

theorem hexStrSize_spec (n : Nat) : hexStrSize n = if n ≥ 6 then 16 else max 1 (2 ^ n / 4) := by
  by_cases h6 : n ≥ 6
  · simp [hexStrSize, h6]
  · simp only [h6, if_false]
    exact hexStrSize_small ⟨n, by omega⟩

/-- a word of an n-variable table (n < 6) fits the digits printed for it -/
theorem small_width : ∀ n : Fin 6, 2 ^ (2 ^ n.val) ≤ 2 ^ (4 * hexStrSize n.val) ∧ 1 ≤ hexStrSize n.val ∧ hexStrSize n.val ≤ 16 := by
  decide

theorem width_bounds (n : Nat) : 1 ≤ hexStrSize n ∧ hexStrSize n ≤ 16 := by
  by_cases h6 : n ≥ 6
  · simp [hexStrSize, h6]
  · have := small_width ⟨n, by omega⟩
    exact ⟨this.2.1, this.2.2⟩

/-- every word of a well-formed table is below 16^width -/
theorem word_fits (n : Nat) (t : Array W) (h : WF n t) (k : Nat) (hk : k < t.size) :
    (t[k]).toNat < 2 ^ (4 * hexStrSize n) := by
  by_cases h6 : n ≥ 6
  · have : hexStrSize n = 16 := by simp [hexStrSize, h6]
    rw [this]; exact (t[k]).isLt
  · have hs1 : t.size = 1 := by rw [h.1, tableSize_le6 (by omega)]
    have hk0 : k = 0 := by omega
    subst hk0
    have hw : WF n #[t[0]] := by
      refine ⟨by simp [tableSize_le6 (show n ≤ 6 by omega)], ?_⟩
      intro k hk
      have hk0 : k = 0 := by simp at hk; omega
      subst hk0
      have := h.2 0 (by omega)
      have e : t[0]? = some t[0] := by simp [hs1]
      rw [e] at this
      simpa using this
    have := word_lt_of_WF n _ hw
    exact Nat.lt_of_lt_of_le this (small_width ⟨n, by omega⟩).1

/-- the padded rendering of a fitting word has exactly `width` digits: those of the number -/
theorem fmtHexWord_exact (width : Nat) (w : W) (h1 : 1 ≤ width) (h2 : width ≤ 16)
    (hfit : w.toNat < 2 ^ (4 * width)) :
    fmtHexWord width w = (digitsFixed 4 w.toNat width).map hexDigit := by
  unfold fmtHexWord
  have := numDigits_le 4 w.toNat 16 width (by omega) hfit h1 (by omega)
  rw [Nat.max_eq_left this]

theorem fmtHexWord_length (width : Nat) (w : W) (h1 : 1 ≤ width) (h2 : width ≤ 16)
    (hfit : w.toNat < 2 ^ (4 * width)) : (fmtHexWord width w).length = width := by
  rw [fmtHexWord_exact width w h1 h2 hfit]; simp [digitsFixed_length]

/-- digit `i` from the right of a printed word is the value of bits 4i..4i+3 -/
theorem hexDigit_of_word (width : Nat) (w : W) (h1 : 1 ≤ width) (h2 : width ≤ 16)
    (hfit : w.toNat < 2 ^ (4 * width)) (i : Nat) (hi : i < width) :
    (fmtHexWord width w)[width - 1 - i]? = some (hexDigit (w.toNat / 2 ^ (4 * i) % 16)) := by
  rw [fmtHexWord_exact width w h1 h2 hfit, List.getElem?_map, digitsFixed_getElem 4 _ _ i hi]
  rfl

/-- to_hex_string has exactly max(1, 2^n/4) digits -/
theorem toHex_length (n : Nat) (t : Array W) (h : WF n t) :
    (toHex n t).length = hexStrSize n * t.size := by
  unfold toHex
  obtain ⟨b1, b2⟩ := width_bounds n
  have hall : ∀ w ∈ t.toList.reverse, (fmtHexWord (hexStrSize n) w).length = hexStrSize n := by
    intro w hw
    have hw' : w ∈ t.toList := by simpa using hw
    obtain ⟨k, hk, rfl⟩ := List.getElem_of_mem hw'
    have hk' : k < t.size := by simpa using hk
    exact fmtHexWord_length _ _ b1 b2 (by simpa using word_fits n t h k hk')
  have : ∀ l : List W, (∀ w ∈ l, (fmtHexWord (hexStrSize n) w).length = hexStrSize n) →
      (l.flatMap (fmtHexWord (hexStrSize n))).length = hexStrSize n * l.length := by
    intro l
    induction l with
    | nil => simp
    | cons a l ih =>
      intro hl
      simp only [List.flatMap_cons, List.length_append, List.length_cons]
      rw [hl a (by simp), ih (fun w hw => hl w (by simp [hw])), Nat.mul_add, Nat.mul_one]; omega
  simpa using this _ hall

theorem toHex_width (n : Nat) (t : Array W) (h : WF n t) :
    (toHex n t).length = max 1 (2 ^ n / 4) := by
  rw [toHex_length n t h, h.1, hexStrSize_spec]
  by_cases h6 : n ≥ 6
  · simp only [h6, if_true, tableSize_ge6 h6]
    have e : 2 ^ n = 64 * 2 ^ (n - 6) := by
      have : n = 6 + (n - 6) := by omega
      conv => lhs; rw [this, Nat.pow_add]
    rw [e]
    have : 64 * 2 ^ (n - 6) / 4 = 16 * 2 ^ (n - 6) := by omega
    rw [this]
    have := Nat.two_pow_pos (n - 6)
    omega
  · simp only [h6, if_false, tableSize_le6 (show n ≤ 6 by omega), Nat.mul_one]

/-! ## binary strings -/

def binWidth (n : Nat) : Nat := if n ≥ 6 then 64 else 1 <<< n

theorem binWidth_bounds (n : Nat) : 1 ≤ binWidth n ∧ binWidth n ≤ 64 := by
  unfold binWidth
  by_cases h6 : n ≥ 6
  · simp [h6]
  · simp only [h6, if_false, Nat.shiftLeft_eq, Nat.one_mul]
    have : 2 ^ n ≤ 2 ^ 5 := Nat.pow_le_pow_right (by omega) (by omega)
    have := Nat.two_pow_pos n
    omega

theorem word_fits_bin (n : Nat) (t : Array W) (h : WF n t) (k : Nat) (hk : k < t.size) :
    (t[k]).toNat < 2 ^ (1 * binWidth n) := by
  unfold binWidth
  by_cases h6 : n ≥ 6
  · simp only [h6, if_true]; exact (t[k]).isLt
  · have hs1 : t.size = 1 := by rw [h.1, tableSize_le6 (by omega)]
    have hk0 : k = 0 := by omega
    subst hk0
    have hw : WF n #[t[0]] := by
      refine ⟨by simp [tableSize_le6 (show n ≤ 6 by omega)], ?_⟩
      intro k hk
      have hk0 : k = 0 := by simp at hk; omega
      subst hk0
      have := h.2 0 (by omega)
      have e : t[0]? = some t[0] := by simp [hs1]
      rw [e] at this
      simpa using this
    have := word_lt_of_WF n _ hw
    simpa [h6, Nat.shiftLeft_eq] using this

theorem fmtBinWord_exact (width : Nat) (w : W) (h1 : 1 ≤ width) (h2 : width ≤ 64)
    (hfit : w.toNat < 2 ^ (1 * width)) :
    fmtBinWord width w = (digitsFixed 1 w.toNat width).map (fun d => 48 + d) := by
  unfold fmtBinWord
  have := numDigits_le 1 w.toNat 64 width (by omega) hfit h1 (by omega)
  rw [Nat.max_eq_left this]

/-- binary digit `i` from the right of a printed word is bit `i` -/
theorem binDigit_of_word (width : Nat) (w : W) (h1 : 1 ≤ width) (h2 : width ≤ 64)
    (hfit : w.toNat < 2 ^ (1 * width)) (i : Nat) (hi : i < width) :
    (fmtBinWord width w)[width - 1 - i]? = some (48 + (if w.getLsbD i then 1 else 0)) := by
  rw [fmtBinWord_exact width w h1 h2 hfit, List.getElem?_map, digitsFixed_getElem 1 _ _ i hi]
  simp only [Nat.one_mul, Nat.pow_one, Option.map_some]
  congr 2
  rw [BitVec.getLsbD, Nat.testBit, Nat.shiftRight_eq_div_pow]
  have : w.toNat / 2 ^ i % 2 < 2 := Nat.mod_lt _ (by omega)
  rcases Nat.lt_or_ge (w.toNat / 2 ^ i % 2) 1 with h | h
  · have h0 : w.toNat / 2 ^ i % 2 = 0 := by omega
    simp [h0, Nat.and_one_is_mod]
  · have h0 : w.toNat / 2 ^ i % 2 = 1 := by omega
    simp [h0, Nat.and_one_is_mod]

/-- to_bin_string has exactly 2^n digits -/
theorem toBin_width (n : Nat) (t : Array W) (h : WF n t) : (toBin n t).length = 2 ^ n := by
  obtain ⟨b1, b2⟩ := binWidth_bounds n
  have hall : ∀ w ∈ t.toList.reverse, (fmtBinWord (binWidth n) w).length = binWidth n := by
    intro w hw
    have hw' : w ∈ t.toList := by simpa using hw
    obtain ⟨k, hk, rfl⟩ := List.getElem_of_mem hw'
    have hk' : k < t.size := by simpa using hk
    rw [fmtBinWord_exact _ _ b1 b2 (by simpa using word_fits_bin n t h k hk')]
    simp [digitsFixed_length]
  have gen : ∀ l : List W, (∀ w ∈ l, (fmtBinWord (binWidth n) w).length = binWidth n) →
      (l.flatMap (fmtBinWord (binWidth n))).length = binWidth n * l.length := by
    intro l
    induction l with
    | nil => simp
    | cons a l ih =>
      intro hl
      simp only [List.flatMap_cons, List.length_append, List.length_cons]
      rw [hl a (by simp), ih (fun w hw => hl w (by simp [hw])), Nat.mul_add, Nat.mul_one]; omega
  have := gen _ hall
  have e : toBin n t = t.toList.reverse.flatMap (fmtBinWord (binWidth n)) := rfl
  rw [e, this]
  simp only [List.length_reverse, Array.length_toList, h.1]
  unfold binWidth
  by_cases h6 : n ≥ 6
  · simp only [h6, if_true, tableSize_ge6 h6]
    have : n = 6 + (n - 6) := by omega
    conv => rhs; rw [this, Nat.pow_add]
  · simp [h6, tableSize_le6 (show n ≤ 6 by omega), Nat.shiftLeft_eq]

/-! ## parsing -/

/-- parsing the digits of a word gives the word back -/
theorem fromStrRadix16_digits (width v : Nat) (h1 : 1 ≤ width) (h2 : width ≤ 16) (hv : v < 2 ^ (4 * width)) :
    fromStrRadix16 ((digitsFixed 4 v width).map hexDigit) = some v := by
  have hlen := digitsFixed_length 4 v width
  have hds := digitsFixed_lt 4 v width
  have e16 : (2:Nat) ^ 4 = 16 := rfl
  have hval : ofDigits 4 (digitsFixed 4 v width) = v := by
    rw [ofDigits_digitsFixed, Nat.mod_eq_of_lt hv]
  have hlt64 : v < 2 ^ 64 := Nat.lt_of_lt_of_le hv (Nat.pow_le_pow_right (by omega) (by omega))
  have hparse := parseHexDigits_map (digitsFixed 4 v width) 0 (by rw [e16] at hds; exact hds)
    (by rw [Nat.zero_mul, Nat.zero_add, hval]; exact hlt64)
  rw [Nat.zero_mul, Nat.zero_add, hval] at hparse
  -- the string is non-empty and does not start with '+'
  match hd : digitsFixed 4 v width with
  | [] => rw [hd] at hlen; simp at hlen; omega
  | d :: ds =>
    rw [hd] at hparse hds
    have hd16 : d < 16 := by have := hds d (by simp); rw [e16] at this; exact this
    have hne := (hexDigit_range d hd16).2.1
    simp only [List.map_cons] at hparse ⊢
    unfold fromStrRadix16
    split
    · rename_i heq; cases heq
    · rename_i heq
      simp only [List.cons.injEq] at heq
      exact absurd heq.1 hne
    · rename_i cs heq
      simp only [List.cons.injEq] at heq
      exact absurd heq.1 hne
    · exact hparse

/-- the word loop of `fill_hex` reads back the words printed most significant first -/
theorem fillHexWords_print (n : Nat) (rs : List W)
    (hfit : ∀ w ∈ rs, w.toNat < 2 ^ (4 * hexStrSize n))
    (hmask : ∀ w ∈ rs, w &&& ~~~ numVarsMask n = 0#64) :
    fillHexWords (hexStrSize n) (numVarsMask n) rs.length (rs.flatMap (fmtHexWord (hexStrSize n))) = some rs.reverse := by
  obtain ⟨b1, b2⟩ := width_bounds n
  induction rs with
  | nil => simp [fillHexWords]
  | cons r rs ih =>
    have hr := hfit r (by simp)
    have hlen := fmtHexWord_length _ r b1 b2 hr
    simp only [List.length_cons, List.flatMap_cons, fillHexWords]
    rw [List.take_left' hlen, List.drop_left' hlen]
    rw [fmtHexWord_exact _ r b1 b2 hr, fromStrRadix16_digits _ _ b1 b2 hr]
    simp only [BitVec.ofNat_toNat, BitVec.setWidth_eq]
    rw [hmask r (by simp)]
    simp only [bne_self_eq_false, Bool.false_eq_true, if_false]
    rw [ih (fun w hw => hfit w (by simp [hw])) (fun w hw => hmask w (by simp [hw]))]
    simp

theorem fillHex_eq (n sz : Nat) (s : List Nat) : fillHex n sz s =
    if s.any (fun c => c ≥ 128) then none
    else if s.length ≠ hexStrSize n * sz then none
    else if !(s.all isHexDigit) then none
    else (fillHexWords (hexStrSize n) (numVarsMask n) sz s).map List.toArray := rfl

/-- parsing a printed table gives it back -/
theorem fromHex_toHex (l : Lut) (hl : l.WF) : Dyn.fromHexString l.n (Dyn.toHexString l) = some l := by
  obtain ⟨b1, b2⟩ := width_bounds l.n
  unfold Dyn.fromHexString Dyn.toHexString
  rw [fillHex_eq]
  have hfit : ∀ w ∈ l.t.toList.reverse, w.toNat < 2 ^ (4 * hexStrSize l.n) := by
    intro w hw
    have hw' : w ∈ l.t.toList := by simpa using hw
    obtain ⟨k, hk, rfl⟩ := List.getElem_of_mem hw'
    simpa using word_fits l.n l.t hl k (by simpa using hk)
  have hmask : ∀ w ∈ l.t.toList.reverse, w &&& ~~~ numVarsMask l.n = 0#64 := by
    intro w hw
    have hw' : w ∈ l.t.toList := by simpa using hw
    obtain ⟨k, hk, rfl⟩ := List.getElem_of_mem hw'
    have hk' : k < l.t.size := by simpa using hk
    have := hl.2 k hk'
    simpa [hk'] using this
  have hchars : ∀ c ∈ toHex l.n l.t, c < 128 ∧ isHexDigit c = true := by
    intro c hc
    unfold toHex at hc
    simp only [List.mem_flatMap] at hc
    obtain ⟨w, hw, hc⟩ := hc
    rw [fmtHexWord_exact _ w b1 b2 (hfit w hw)] at hc
    simp only [List.mem_map] at hc
    obtain ⟨d, hd, rfl⟩ := hc
    have := digitsFixed_lt 4 _ _ d hd
    have h16 : d < 16 := by simpa using this
    exact ⟨(hexDigit_range d h16).1, (hexDigit_range d h16).2.2⟩
  have h1 : (toHex l.n l.t).any (fun c => c ≥ 128) = false := by
    rw [List.any_eq_false]; intro c hc; have := (hchars c hc).1; simp; omega
  have h2 : (toHex l.n l.t).length = hexStrSize l.n * tableSize l.n := by
    rw [toHex_length l.n l.t hl, hl.1]
  have h3 : (toHex l.n l.t).all isHexDigit = true := by
    rw [List.all_eq_true]; intro c hc; exact (hchars c hc).2
  simp only [h1, Bool.false_eq_true, if_false, h2, ne_eq, not_true_eq_false, h3, Bool.not_true]
  have hp := fillHexWords_print l.n l.t.toList.reverse hfit hmask
  simp only [List.length_reverse, Array.length_toList, List.reverse_reverse] at hp
  unfold toHex
  rw [← hl.1, hp]
  simp

/-- the word loop only produces words under the mask, and the right number of them -/
theorem fillHexWords_wf (width : Nat) (mask : W) (k : Nat) (s : List Nat) (ws : List W)
    (h : fillHexWords width mask k s = some ws) : ws.length = k ∧ ∀ w ∈ ws, w &&& ~~~ mask = 0#64 := by
  induction k generalizing s ws with
  | zero => simp [fillHexWords] at h; subst h; simp
  | succ k ih =>
    simp only [fillHexWords] at h
    split at h
    · cases h
    · rename_i v hv
      split at h
      · cases h
      · rename_i hm
        split at h
        · cases h
        · rename_i ws' hws'
          cases h
          obtain ⟨i1, i2⟩ := ih _ _ hws'
          refine ⟨by simp [i1], ?_⟩
          intro w hw
          simp only [List.mem_append, List.mem_singleton] at hw
          rcases hw with hw | rfl
          · exact i2 w hw
          · simpa using hm

/-- from_hex_string never yields a malformed table -/
theorem fromHex_WF (n : Nat) (s : List Nat) (l : Lut) (h : Dyn.fromHexString n s = some l) : l.n = n ∧ l.WF := by
  unfold Dyn.fromHexString at h
  rw [fillHex_eq] at h
  by_cases c1 : s.any (fun c => c ≥ 128) = true
  · simp [c1] at h
  · by_cases c2 : s.length ≠ hexStrSize n * tableSize n
    · simp [c1, c2] at h
    · by_cases c3 : (!(s.all isHexDigit)) = true
      · simp [c1, c2, c3] at h
      · simp only [c1, c2, c3, Bool.false_eq_true, if_false] at h
        match hw : fillHexWords (hexStrSize n) (numVarsMask n) (tableSize n) s with
        | none => rw [hw] at h; cases h
        | some ws =>
          rw [hw] at h
          simp only [Option.map_some, Option.some.injEq] at h
          subst h
          obtain ⟨h1, h2⟩ := fillHexWords_wf _ _ _ _ _ hw
          refine ⟨rfl, ?_, ?_⟩
          · simp [h1]
          · intro k hk
            have hk' : k < ws.length := by simpa using hk
            have := h2 ws[k] (by simp)
            simpa [hk'] using this

/-- rejected: wrong length, any non-hex character (sign, blank, letters beyond f, non-ASCII) -/
theorem fromHex_rejects (n : Nat) (s : List Nat)
    (h : s.length ≠ hexStrSize n * tableSize n ∨ ∃ c ∈ s, isHexDigit c = false) :
    Dyn.fromHexString n s = none := by
  unfold Dyn.fromHexString
  rw [fillHex_eq]
  by_cases c1 : s.any (fun c => c ≥ 128) = true
  · simp [c1]
  · by_cases c2 : s.length ≠ hexStrSize n * tableSize n
    · simp [c1, c2]
    · rcases h with h | ⟨c, hc, hx⟩
      · exact absurd h c2
      · have : s.all isHexDigit = false := by
          rw [List.all_eq_false]; exact ⟨c, hc, by simp [hx]⟩
        simp [c1, c2, this]

/-- '+', '-', blank, 'g', 'x' and every non-ASCII byte are not hex digits -/
example : isHexDigit 43 = false ∧ isHexDigit 45 = false ∧ isHexDigit 32 = false ∧ isHexDigit 103 = false ∧
    isHexDigit 120 = false ∧ isHexDigit 195 = false ∧ isHexDigit 70 = true ∧ isHexDigit 102 = true := by decide

/-- a digit too large for the table (n < 2) is rejected: "f" for one variable -/
example : Dyn.fromHexString 1 [102] = none ∧ Dyn.fromHexString 1 [51] = some ⟨1, #[3#64]⟩ ∧
    Dyn.fromHexString 3 [43, 102] = none := by decide +kernel

/-- Display / LowerHex / Binary wrap the strings as `Lut<n>(...)` -/
theorem display_wrap (l : Lut) : Dyn.display l = [76, 117, 116] ++ decDigits l.n ++ [40] ++ Dyn.toHexString l ++ [41] ∧
    Dyn.lowerHex l = Dyn.display l ∧
    Dyn.binary l = [76, 117, 116] ++ decDigits l.n ++ [40] ++ Dyn.toBinString l ++ [41] :=
  ⟨rfl, rfl, rfl⟩

/-! ## from_hex_string: what is accepted, and what the accepted string denotes -/

/-- the number written by a string of hex digits (either case) -/
def hexDenote (s : List Nat) : Nat := ofDigits 4 (s.map (fun c => (hexVal c).getD 0))

theorem hexDenote_cons (c : Nat) (cs : List Nat) :
    hexDenote (c :: cs) = (hexVal c).getD 0 * 16 ^ cs.length + hexDenote cs := by
  unfold hexDenote ofDigits
  simp only [List.map_cons, List.foldl_cons, Nat.zero_mul, Nat.zero_add]
  rw [foldl_digits]
  simp [ofDigits]

theorem hexDenote_append (a b : List Nat) : hexDenote (a ++ b) = hexDenote a * 16 ^ b.length + hexDenote b := by
  induction a with
  | nil => simp [hexDenote, ofDigits]
  | cons c cs ih =>
    rw [List.cons_append, hexDenote_cons, hexDenote_cons, ih, List.length_append, Nat.pow_add, Nat.add_mul,
      Nat.mul_assoc]
    omega

theorem hexVal_lt (c : Nat) (d : Nat) (h : hexVal c = some d) : d < 16 := by
  unfold hexVal at h
  split at h
  · cases h; omega
  · split at h
    · cases h; omega
    · split at h
      · cases h; omega
      · cases h

theorem hexDenote_lt (s : List Nat) (h : ∀ c ∈ s, isHexDigit c = true) : hexDenote s < 16 ^ s.length := by
  induction s with
  | nil => simp [hexDenote, ofDigits]
  | cons c cs ih =>
    rw [hexDenote_cons, List.length_cons, Nat.pow_succ]
    have hc := h c (by simp)
    unfold isHexDigit at hc
    obtain ⟨d, hd⟩ := Option.isSome_iff_exists.mp hc
    rw [hd, Option.getD_some]
    have := hexVal_lt c d hd
    have ih' := ih (fun x hx => h x (by simp [hx]))
    calc d * 16 ^ cs.length + hexDenote cs < d * 16 ^ cs.length + 16 ^ cs.length := by omega
      _ = (d + 1) * 16 ^ cs.length := by rw [Nat.add_mul, Nat.one_mul]
      _ ≤ 16 * 16 ^ cs.length := Nat.mul_le_mul_right _ (by omega)
      _ = 16 ^ cs.length * 16 := Nat.mul_comm _ _

/-- `parseHexDigits` on hex digits: the value, unless it overflows 64 bits -/
theorem parse_hex (s : List Nat) (acc : Nat) (hacc : acc < 2 ^ 64) (h : ∀ c ∈ s, isHexDigit c = true) :
    parseHexDigits s acc =
      if acc * 16 ^ s.length + hexDenote s < 2 ^ 64 then some (acc * 16 ^ s.length + hexDenote s) else none := by
  induction s generalizing acc with
  | nil =>
    simp only [parseHexDigits, List.length_nil, Nat.pow_zero, Nat.mul_one, hexDenote, ofDigits, List.map_nil,
      List.foldl_nil, Nat.add_zero, hacc, if_true]
  | cons c cs ih =>
    have hc := h c (by simp)
    unfold isHexDigit at hc
    obtain ⟨d, hd⟩ := Option.isSome_iff_exists.mp hc
    have etot : acc * 16 ^ (c :: cs).length + hexDenote (c :: cs) = (acc * 16 + d) * 16 ^ cs.length + hexDenote cs := by
      rw [hexDenote_cons, hd, Option.getD_some, List.length_cons, Nat.pow_succ, Nat.add_mul,
        Nat.mul_comm (16 ^ cs.length) 16, Nat.mul_assoc]
      omega
    rw [etot]
    simp only [parseHexDigits, hd]
    have hpos : 1 ≤ 16 ^ cs.length := Nat.pos_of_ne_zero (by simp)
    by_cases ha : acc * 16 + d < 2 ^ 64
    · simp only [ha, if_true]
      exact ih (acc * 16 + d) ha (fun x hx => h x (by simp [hx]))
    · simp only [ha, if_false]
      have : (acc * 16 + d) * 1 ≤ (acc * 16 + d) * 16 ^ cs.length := Nat.mul_le_mul_left _ hpos
      have : ¬ (acc * 16 + d) * 16 ^ cs.length + hexDenote cs < 2 ^ 64 := by omega
      simp [this]

theorem not_plus_of_hex (c : Nat) (h : isHexDigit c = true) : c ≠ 43 := by
  intro e; subst e; revert h; decide

/-- `u64::from_str_radix(s, 16)` on 1..16 hex digits is their value -/
theorem fromStrRadix16_hex (s : List Nat) (h1 : 1 ≤ s.length) (h16 : s.length ≤ 16)
    (h : ∀ c ∈ s, isHexDigit c = true) : fromStrRadix16 s = some (hexDenote s) := by
  have hlt : hexDenote s < 2 ^ 64 := by
    have := hexDenote_lt s h
    have : 16 ^ s.length ≤ 16 ^ 16 := Nat.pow_le_pow_right (by omega) h16
    have e : (16 : Nat) ^ 16 = 2 ^ 64 := by decide
    omega
  match s, h1, h with
  | c :: cs, _, h =>
    have hne := not_plus_of_hex c (h c (by simp))
    have : fromStrRadix16 (c :: cs) = parseHexDigits (c :: cs) 0 := by
      unfold fromStrRadix16
      split
      · rename_i heq; cases heq
      · rename_i heq; cases heq; exact absurd rfl hne
      · rename_i heq; cases heq; exact absurd rfl hne
      · rfl
    rw [this, parse_hex (c :: cs) 0 (by decide) h]
    simp only [Nat.zero_mul, Nat.zero_add, hlt, if_true]

theorem toNatLE_append_single (ws : List W) (w : W) :
    toNatLE (ws ++ [w]) = toNatLE ws + 2 ^ (64 * ws.length) * w.toNat := by
  induction ws with
  | nil => simp [toNatLE]
  | cons a as ih =>
    simp only [List.cons_append, toNatLE, ih, List.length_cons]
    rw [Nat.mul_add, show 64 * (as.length + 1) = 64 + 64 * as.length by omega, Nat.pow_add, Nat.mul_assoc]
    omega

/-- the loop: whatever it accepts denotes the number written by the string -/
theorem fill_value (width : Nat) (mask : W) (hw1 : 1 ≤ width) (hw16 : width ≤ 16) (k : Nat) (s : List Nat) (ws : List W)
    (hk : width = 16 ∨ k ≤ 1) (hlen : s.length = width * k) (hhex : ∀ c ∈ s, isHexDigit c = true)
    (h : fillHexWords width mask k s = some ws) : ws.length = k ∧ toNatLE ws = hexDenote s := by
  induction k generalizing s ws with
  | zero =>
    simp only [fillHexWords] at h
    cases h
    have : s = [] := List.eq_nil_of_length_eq_zero (by simpa using hlen)
    subst this
    simp [toNatLE, hexDenote, ofDigits]
  | succ k ih =>
    simp only [fillHexWords] at h
    have htake : (s.take width).length = width := by
      rw [List.length_take, hlen, Nat.mul_succ]; omega
    have hdrop : (s.drop width).length = width * k := by
      rw [List.length_drop, hlen, Nat.mul_succ]; omega
    have hhexT : ∀ c ∈ s.take width, isHexDigit c = true := fun c hc => hhex c (List.mem_of_mem_take hc)
    have hhexD : ∀ c ∈ s.drop width, isHexDigit c = true := fun c hc => hhex c (List.mem_of_mem_drop hc)
    rw [fromStrRadix16_hex (s.take width) (by omega) (by omega) hhexT] at h
    simp only [] at h
    split at h
    · cases h
    · cases hrec : fillHexWords width mask k (s.drop width) with
      | none => rw [hrec] at h; cases h
      | some ws' =>
        rw [hrec] at h
        cases h
        obtain ⟨l1, v1⟩ := ih (s.drop width) ws' (by rcases hk with hk | hk; exact Or.inl hk; exact Or.inr (by omega)) hdrop hhexD hrec
        refine ⟨by simp [l1], ?_⟩
        rw [toNatLE_append_single, v1, l1]
        have hsplit : s = s.take width ++ s.drop width := (List.take_append_drop width s).symm
        conv => rhs; rw [hsplit, hexDenote_append, hdrop]
        have hv : hexDenote (s.take width) < 2 ^ 64 := by
          have := hexDenote_lt _ hhexT
          rw [htake] at this
          have : 16 ^ width ≤ 16 ^ 16 := Nat.pow_le_pow_right (by omega) hw16
          have e : (16 : Nat) ^ 16 = 2 ^ 64 := by decide
          omega
        rw [BitVec.toNat_ofNat, Nat.mod_eq_of_lt hv]
        have hp : (2 : Nat) ^ (64 * k) = 16 ^ (width * k) := by
          rcases hk with hk | hk
          · subst hk
            rw [show 64 * k = 4 * (16 * k) by omega, Nat.pow_mul]
          · have : k = 0 := by omega
            subst this; simp
        rw [hp, Nat.mul_comm]
        omega

/-- the loop accepts when every chunk fits the mask -/
theorem fill_accepts (width : Nat) (mask : W) (hw1 : 1 ≤ width) (hw16 : width ≤ 16) (k : Nat) (s : List Nat)
    (hlen : s.length = width * k) (hhex : ∀ c ∈ s, isHexDigit c = true)
    (hfit : ∀ j, j < k → BitVec.ofNat 64 (hexDenote ((s.drop (j * width)).take width)) &&& ~~~ mask = 0#64) :
    ∃ ws, fillHexWords width mask k s = some ws := by
  induction k generalizing s with
  | zero => exact ⟨[], rfl⟩
  | succ k ih =>
    simp only [fillHexWords]
    have htake : (s.take width).length = width := by
      rw [List.length_take, hlen, Nat.mul_succ]; omega
    have hdrop : (s.drop width).length = width * k := by
      rw [List.length_drop, hlen, Nat.mul_succ]; omega
    have hhexT : ∀ c ∈ s.take width, isHexDigit c = true := fun c hc => hhex c (List.mem_of_mem_take hc)
    have hhexD : ∀ c ∈ s.drop width, isHexDigit c = true := fun c hc => hhex c (List.mem_of_mem_drop hc)
    rw [fromStrRadix16_hex (s.take width) (by omega) (by omega) hhexT]
    simp only []
    have h0 := hfit 0 (by omega)
    simp only [Nat.zero_mul, List.drop_zero] at h0
    rw [h0]
    simp only [bne_self_eq_false, Bool.false_eq_true, if_false]
    obtain ⟨ws', hws'⟩ := ih (s.drop width) hdrop hhexD (by
      intro j hj
      have := hfit (j + 1) (by omega)
      rw [List.drop_drop]
      rw [Nat.succ_mul] at this
      rw [show width + j * width = j * width + width by omega]
      exact this)
    rw [hws']
    exact ⟨_, rfl⟩

/-- a value below 2^(2^n) fits the mask of n variables -/
theorem fits_mask (n v : Nat) (hv : v < 2 ^ (2 ^ n)) : BitVec.ofNat 64 v &&& ~~~ numVarsMask n = 0#64 := by
  apply BitVec.eq_of_getLsbD_eq
  intro i hi
  rw [BitVec.getLsbD_and, BitVec.getLsbD_not, numVarsMask_bit n i hi, BitVec.getLsbD_ofNat, BitVec.getLsbD_zero]
  by_cases hlt : i < 2 ^ n
  · simp [hlt]
  · have : v.testBit i = false := by
      apply Nat.testBit_lt_two_pow
      exact Nat.lt_of_lt_of_le hv (Nat.pow_le_pow_right (by omega) (by omega))
    simp [this]

/-- **what `from_hex_string` accepts, and what the result denotes**: for every byte string,
    `from_hex_string(n, s)` is `Ok(l)` exactly when s consists of `hex_str_size(n) * table_size(n)`
    hex digits (either case) and `l` is the well-formed n-variable table whose numeric value is the
    number written by s (in particular that number is below 2^(2^n)); otherwise it is `Err`. -/
theorem fromHex_iff (n : Nat) (s : List Nat) (l : Lut) :
    Dyn.fromHexString n s = some l ↔
      s.length = hexStrSize n * tableSize n ∧ (∀ c ∈ s, isHexDigit c = true) ∧
      l.n = n ∧ l.WF ∧ toNatLE l.t.toList = hexDenote s := by
  obtain ⟨b1, b2⟩ := width_bounds n
  have hk : hexStrSize n = 16 ∨ tableSize n ≤ 1 := by
    by_cases h6 : n ≥ 6
    · left; simp [hexStrSize, h6]
    · right; rw [tableSize_le6 (by omega)]; exact Nat.le_refl 1
  constructor
  · intro h
    obtain ⟨hn, hwf⟩ := fromHex_WF n s l h
    unfold Dyn.fromHexString at h
    rw [fillHex_eq] at h
    by_cases c1 : s.any (fun c => c ≥ 128) = true
    · simp [c1] at h
    · by_cases c2 : s.length ≠ hexStrSize n * tableSize n
      · simp [c1, c2] at h
      · by_cases c3 : (!(s.all isHexDigit)) = true
        · simp [c1, c2, c3] at h
        · simp only [c1, c2, c3, Bool.false_eq_true, if_false] at h
          have hlen : s.length = hexStrSize n * tableSize n := by simpa using c2
          have hhex : ∀ c ∈ s, isHexDigit c = true := by
            simpa using c3
          cases hf : fillHexWords (hexStrSize n) (numVarsMask n) (tableSize n) s with
          | none => rw [hf] at h; cases h
          | some ws =>
            rw [hf] at h
            cases h
            exact ⟨hlen, hhex, rfl, hwf, (fill_value _ _ b1 b2 _ s ws hk hlen hhex hf).2⟩
  · rintro ⟨hlen, hhex, hn, hwf, hval⟩
    -- the value fits, so every chunk fits the mask
    have hlt : hexDenote s < 2 ^ (2 ^ n) := by
      rw [← hval]
      have := VoluteModel.Props.C08.toNat_lt_of_WF l hwf
      rw [hn] at this
      exact this
    have hfit : ∀ j, j < tableSize n →
        BitVec.ofNat 64 (hexDenote ((s.drop (j * hexStrSize n)).take (hexStrSize n))) &&& ~~~ numVarsMask n = 0#64 := by
      intro j hj
      by_cases h6 : n ≥ 6
      · have : numVarsMask n = ~~~ 0#64 := by
          unfold numVarsMask; rw [Nat.min_eq_right h6]; decide
        rw [this]; simp
      · have hj0 : j = 0 := by rw [tableSize_le6 (by omega)] at hj; omega
        subst hj0
        simp only [Nat.zero_mul, List.drop_zero]
        have : s.take (hexStrSize n) = s := by
          apply List.take_of_length_le
          rw [hlen, tableSize_le6 (by omega)]; omega
        rw [this]
        exact fits_mask n _ hlt
    obtain ⟨ws, hws⟩ := fill_accepts _ (numVarsMask n) b1 b2 (tableSize n) s hlen hhex hfit
    obtain ⟨wl, wv⟩ := fill_value _ _ b1 b2 _ s ws hk hlen hhex hws
    have hres : Dyn.fromHexString n s = some ⟨n, ws.toArray⟩ := by
      unfold Dyn.fromHexString
      rw [fillHex_eq]
      have c1 : s.any (fun c => c ≥ 128) = false := by
        rw [List.any_eq_false]
        intro c hc
        have := hhex c hc
        unfold isHexDigit hexVal at this
        simp only [decide_eq_true_eq, Nat.not_le]
        split at this
        · omega
        · split at this
          · omega
          · split at this
            · omega
            · cases this
      have c3 : s.all isHexDigit = true := by
        rw [List.all_eq_true]; exact hhex
      simp [c1, hlen, c3, hws]
    rw [hres]
    obtain ⟨_, hwf'⟩ := fromHex_WF n s _ hres
    have hsz : ws.length = l.t.toList.length := by
      rw [wl, Array.length_toList, hwf.1, hn]
    have := toNatLE_inj ws l.t.toList hsz (by rw [wv, hval])
    cases l with
    | mk ln lt =>
      simp only at hn this
      subst hn
      congr 2
      apply Array.ext'
      simpa using this

/-! ## the binary string, digit by digit -/

theorem flatMap_fixed_getElem {α β : Type} (f : α → List β) (wd : Nat) (l : List α)
    (hall : ∀ a ∈ l, (f a).length = wd) (q r : Nat) (hq : q < l.length) (hr : r < wd) :
    (l.flatMap f)[q * wd + r]? = (f l[q])[r]? := by
  induction l generalizing q with
  | nil => simp at hq
  | cons a l ih =>
    simp only [List.flatMap_cons]
    have ha : (f a).length = wd := hall a (by simp)
    cases q with
    | zero =>
      simp only [Nat.zero_mul, Nat.zero_add, List.getElem_cons_zero]
      rw [List.getElem?_append_left (by omega)]
    | succ q =>
      have hq' : q < l.length := by simpa using hq
      rw [List.getElem?_append_right (by rw [ha, Nat.succ_mul]; omega)]
      have : (q + 1) * wd + r - (f a).length = q * wd + r := by rw [ha, Nat.succ_mul]; omega
      rw [this, ih (fun b hb => hall b (by simp [hb])) q hq']
      simp

/-- `to_bin_string` writes the table most significant bit first: the digit at distance `m` from
the right end is the value of the function on assignment `m` -/
theorem toBin_digit (n : Nat) (t : Array W) (h : WF n t) (m : Nat) (hm : m < 2 ^ n) :
    (toBin n t)[2 ^ n - 1 - m]? = some (48 + (if bit t m then 1 else 0)) := by
  obtain ⟨b1, b2⟩ := binWidth_bounds n
  have e : toBin n t = t.toList.reverse.flatMap (fmtBinWord (binWidth n)) := rfl
  have hall : ∀ w ∈ t.toList.reverse, (fmtBinWord (binWidth n) w).length = binWidth n := by
    intro w hw
    have hw' : w ∈ t.toList := by simpa using hw
    obtain ⟨k, hk, rfl⟩ := List.getElem_of_mem hw'
    have hk' : k < t.size := by simpa using hk
    rw [fmtBinWord_exact _ _ b1 b2 (by simpa using word_fits_bin n t h k hk')]
    simp [digitsFixed_length]
  -- word index and bit index
  have hsz : 2 ^ n = binWidth n * t.size := by
    rw [h.1]; unfold binWidth
    by_cases h6 : n ≥ 6
    · simp only [h6, if_true, tableSize_ge6 h6]
      have : n = 6 + (n - 6) := by omega
      conv => lhs; rw [this, Nat.pow_add]
    · simp [h6, tableSize_le6 (show n ≤ 6 by omega), Nat.shiftLeft_eq]
  have hwd : m % 64 < binWidth n ∧ m / 64 < t.size ∧ m = (m / 64) * binWidth n + m % 64 := by
    by_cases h6 : n ≥ 6
    · have hb : binWidth n = 64 := by unfold binWidth; simp [h6]
      rw [hb] at hsz ⊢
      refine ⟨Nat.mod_lt _ (by omega), ?_, by omega⟩
      omega
    · have hb : binWidth n = 2 ^ n := by unfold binWidth; simp [h6, Nat.shiftLeft_eq]
      have : 2 ^ n ≤ 2 ^ 5 := Nat.pow_le_pow_right (by omega) (by omega)
      have hs1 : t.size = 1 := by rw [h.1, tableSize_le6 (by omega)]
      have h0 : m / 64 = 0 := by omega
      have h1 : m % 64 = m := by omega
      rw [hb, h0, h1, hs1]
      omega
  obtain ⟨hr, hq, hmeq⟩ := hwd
  have hpos : 2 ^ n - 1 - m = (t.size - 1 - m / 64) * binWidth n + (binWidth n - 1 - m % 64) := by
    rw [hsz]
    have : t.size = (t.size - 1 - m / 64) + 1 + m / 64 := by omega
    conv => lhs; rw [this, Nat.mul_add, Nat.mul_add, Nat.mul_one]
    have e1 : binWidth n * (m / 64) = m / 64 * binWidth n := Nat.mul_comm _ _
    have e2 : binWidth n * (t.size - 1 - m / 64) = (t.size - 1 - m / 64) * binWidth n := Nat.mul_comm _ _
    omega
  rw [e, hpos, flatMap_fixed_getElem _ _ _ hall _ _ (by simp; omega) (by omega)]
  have hidx : (t.toList.reverse)[t.size - 1 - m / 64]'(by simp; omega) = t[m / 64] := by
    rw [List.getElem_reverse]
    simp only [Array.length_toList, Array.getElem_toList]
    congr 1; omega
  rw [hidx, binDigit_of_word _ _ b1 b2 (by simpa using word_fits_bin n t h _ hq) _ hr]
  unfold bit
  simp [hq]

example : toBin 2 #[0b0110#64] = [48, 49, 49, 48] := by decide

end VoluteModel.Props.C09

import VoluteModel.Model.Mip
import VoluteModel.Props.C12

/-!
# C18, the integer programmes: what an optimal solution is

`Model/Mip.lean` models the programmes `SopModeler` / `EsopModeler` build (tied to the code by the
`mipilp` line of the correspondence check, which compares them constraint by constraint with what
`good_lp` holds when `solve` is called).  This file proves what they mean:

* `sop_sound` / `esop_sound`: every feasible point decodes - by the rule `solve` applies - to an
  OR form by implicants (resp. XOR form) of every output, and its objective value is at least the
  documented cost of that form;
* `sop_complete` / `esop_complete`: every such form over the candidates is a feasible point whose
  objective value is exactly its documented cost (the redundant difference constraints of the ESOP
  programme exclude nothing);
* `sop_optimal` / `esop_optimal`: hence an optimal solution decodes to a form of minimum documented
  cost.  That the external solver returns an optimal solution is the assumption left;
* `sop_mip_spec`, `sop_mip_value`, `esop_mip_spec`: the same for the problems the three entry
  points build from real candidates and functions.

The continuous variables (`num_or_in_fn`) range over the rationals, the others over {0,1} / the
integers, as declared to the solver.
-/

namespace VoluteModel.Mip

/-! ## sums of rationals over lists -/

theorem sum_le_sum {α} (l : List α) (f g : α → Rat) (h : ∀ x ∈ l, f x ≤ g x) : (l.map f).sum ≤ (l.map g).sum := by
  induction l with
  | nil => simp
  | cons a l ih =>
    simp only [List.map_cons, List.sum_cons]
    have h1 := h a (by simp)
    have h2 := ih (fun x hx => h x (by simp [hx]))
    grind

theorem sum_congr {α} (l : List α) (f g : α → Rat) (h : ∀ x ∈ l, f x = g x) : (l.map f).sum = (l.map g).sum := by
  induction l with
  | nil => simp
  | cons a l ih =>
    simp only [List.map_cons, List.sum_cons]
    rw [h a (by simp), ih (fun x hx => h x (by simp [hx]))]

theorem sum_mul_left {α} (l : List α) (f : α → Rat) (c : Rat) : (l.map (fun x => c * f x)).sum = c * (l.map f).sum := by
  induction l with
  | nil => simp
  | cons a l ih => simp only [List.map_cons, List.sum_cons, ih]; grind

/-- a sum of indicator values counts -/
theorem sum_ind {α} (l : List α) (p : α → Bool) :
    (l.map (fun i => if p i then (1 : Rat) else 0)).sum = ((l.filter p).length : Rat) := by
  induction l with
  | nil => simp
  | cons a l ih =>
    simp only [List.map_cons, List.sum_cons, ih, List.filter_cons]
    cases p a <;> simp <;> grind

theorem sum_ind_filter {α} (l : List α) (q p : α → Bool) :
    ((l.filter q).map (fun i => if p i then (1 : Rat) else 0)).sum = ((l.filter (fun i => q i && p i)).length : Rat) := by
  rw [sum_ind, List.filter_filter]
  congr 3
  funext i
  exact Bool.and_comm _ _

theorem evalLin_nil (σ : Var → Rat) : evalLin σ [] = 0 := rfl
theorem evalLin_cons (σ : Var → Rat) (p : Var × Rat) (t) : evalLin σ (p :: t) = p.2 * σ p.1 + evalLin σ t := by
  simp [evalLin]
theorem evalLin_append (σ : Var → Rat) (s t) : evalLin σ (s ++ t) = evalLin σ s + evalLin σ t := by
  simp [evalLin, List.sum_append]
theorem evalLin_map (σ : Var → Rat) (l : List Nat) (f : Nat → Var) (c : Rat) :
    evalLin σ (l.map (fun i => (f i, c))) = c * (l.map (fun i => σ (f i))).sum := by
  simp only [evalLin, List.map_map]
  rw [← sum_mul_left]
  rfl

/-! ## selections and their documented cost -/

/-- number of candidates forming output `j` -/
def cnt (P : Prob) (sel : Nat → Nat → Bool) (j : Nat) : Nat := ((rangeK P).filter (fun i => sel i j)).length
/-- candidate `i` is part of some output -/
def usedBy (P : Prob) (sel : Nat → Nat → Bool) (i : Nat) : Bool := (rangeF P).any (fun j => sel i j)
/-- one join gate per extra term -/
def joinGates (c : Nat) : Rat := if c = 0 then 0 else (c : Rat) - 1
/-- the documented cost: gates of every distinct candidate used, once, plus the join gates of every output -/
def cost (P : Prob) (sel : Nat → Nat → Bool) : Rat :=
  ((rangeK P).map (fun i => if usedBy P sel i then (P.w i : Rat) else 0)).sum +
    (P.join : Rat) * ((rangeF P).map (fun j => joinGates (cnt P sel j))).sum

theorem objective_eq (P : Prob) (σ : Var → Rat) :
    objective P σ = ((rangeK P).map (fun i => (P.w i : Rat) * σ (Var.u i))).sum +
      (P.join : Rat) * ((rangeF P).map (fun j => σ (Var.n j))).sum := by
  simp only [objective, objTerms, evalLin_append]
  congr 1
  · simp [evalLin, List.map_map, Function.comp_def]
  · rw [evalLin_map]

theorem bin_decode (σ : Var → Rat) (i j : Nat) (h : isBin (σ (Var.x i j))) :
    σ (Var.x i j) = if decode σ i j then 1 else 0 := by
  unfold decode
  rcases h with h | h <;> rw [h] <;> simp <;> grind

theorem joinCon_holds (P : Prob) (σ : Var → Rat) (j : Nat) :
    (joinCon P j).holds σ ↔ ((rangeK P).map (fun i => σ (Var.x i j))).sum - σ (Var.n j) ≤ 1 := by
  simp only [Con.holds, joinCon, evalLin_append, evalLin_map, evalLin_cons, evalLin_nil]
  simp only [Bool.false_eq_true, if_false]
  constructor <;> intro h <;> grind

theorem coverCon_holds (σ : Var → Rat) (i j : Nat) :
    (coverCon i j).holds σ ↔ σ (Var.x i j) ≤ σ (Var.u i) := by
  simp only [Con.holds, coverCon, evalLin_cons, evalLin_nil]
  simp only [Bool.false_eq_true, if_false]
  constructor <;> intro h <;> grind

theorem offCon_holds (σ : Var → Rat) (i j : Nat) : (offCon i j).holds σ ↔ σ (Var.x i j) ≤ 0 := by
  simp only [Con.holds, offCon, evalLin_cons, evalLin_nil]
  simp only [Bool.false_eq_true, if_false]
  constructor <;> intro h <;> grind

theorem onCon_holds (P : Prob) (σ : Var → Rat) (j b : Nat) :
    (onCon P j b).holds σ ↔ 1 ≤ (((rangeK P).filter (fun i => P.val i b)).map (fun i => σ (Var.x i j))).sum := by
  simp only [Con.holds, onCon, evalLin_map]
  simp only [Bool.false_eq_true, if_false]
  constructor <;> intro h <;> grind

theorem parityCon_holds (σ : Var → Rat) (j : Nat) (l : List Nat) (v : Bool) (s : Var) :
    (parityCon j l v s).holds σ ↔
      (if v then (1 : Rat) else 0) + (l.map (fun i => σ (Var.x i j))).sum = -2 * σ s := by
  simp only [Con.holds, parityCon, evalLin_append, evalLin_map, evalLin_cons, evalLin_nil]
  simp only [if_true]
  cases v <;> simp <;> constructor <;> intro h <;> grind

/-- the sum of the per-output variables of a 0/1 assignment is the number of decoded candidates -/
theorem sum_x_eq (P : Prob) (σ : Var → Rat) (j : Nat) (q : Nat → Bool)
    (hb : ∀ i, i < P.K → isBin (σ (Var.x i j))) :
    (((rangeK P).filter q).map (fun i => σ (Var.x i j))).sum =
      (((rangeK P).filter (fun i => q i && decode σ i j)).length : Rat) := by
  rw [← sum_ind_filter]
  apply sum_congr
  intro i hi
  have : i < P.K := by simpa [rangeK] using (List.mem_filter.mp hi).1
  exact bin_decode σ i j (hb i this)

theorem sum_x_eq' (P : Prob) (σ : Var → Rat) (j : Nat)
    (hb : ∀ i, i < P.K → isBin (σ (Var.x i j))) :
    ((rangeK P).map (fun i => σ (Var.x i j))).sum = (cnt P (decode σ) j : Rat) := by
  have := sum_x_eq P σ j (fun _ => true) hb
  have e : (rangeK P).filter (fun _ => true) = rangeK P := List.filter_eq_self.mpr (fun _ _ => rfl)
  rw [e] at this
  simpa [cnt] using this

theorem mem_rangeK {P : Prob} {i : Nat} : i ∈ rangeK P ↔ i < P.K := by simp [rangeK]
theorem mem_rangeF {P : Prob} {j : Nat} : j ∈ rangeF P ↔ j < P.F := by simp [rangeF]
theorem mem_rangeB {P : Prob} {b : Nat} : b ∈ rangeB P ↔ b < P.B := by simp [rangeB]

theorem usedBy_iff (P : Prob) (sel : Nat → Nat → Bool) (i : Nat) :
    usedBy P sel i = true ↔ ∃ j, j < P.F ∧ sel i j = true := by
  simp [usedBy, List.any_eq_true, mem_rangeF]

theorem joinGates_le (c : Nat) (r : Rat) (h0 : 0 ≤ r) (h1 : (c : Rat) - r ≤ 1) : joinGates c ≤ r := by
  unfold joinGates
  split <;> grind

/-- the part of the argument common to both modelers: the documented cost of the decoded selection
    is at most the objective value -/
theorem cost_le_objective (P : Prob) (σ : Var → Rat) (hd : Domains P σ)
    (hw : ∀ i, i < P.K → 0 ≤ P.w i) (hj : 0 ≤ P.join)
    (hjoin : ∀ j, j < P.F → (joinCon P j).holds σ)
    (hcover : ∀ i j, i < P.K → j < P.F → (coverCon i j).holds σ) :
    cost P (decode σ) ≤ objective P σ := by
  rw [objective_eq, cost]
  obtain ⟨hu, hx, hn, _, _⟩ := hd
  have hjr : (0 : Rat) ≤ (P.join : Rat) := by exact_mod_cast hj
  have h1 : ((rangeK P).map (fun i => if usedBy P (decode σ) i then (P.w i : Rat) else 0)).sum ≤
      ((rangeK P).map (fun i => (P.w i : Rat) * σ (Var.u i))).sum := by
    apply sum_le_sum
    intro i hi
    have hiK := mem_rangeK.mp hi
    have hwr : (0 : Rat) ≤ (P.w i : Rat) := by exact_mod_cast hw i hiK
    by_cases hub : usedBy P (decode σ) i = true
    · obtain ⟨j, hjF, hdj⟩ := (usedBy_iff P _ i).mp hub
      have hxe := bin_decode σ i j (hx i j hiK hjF)
      rw [hdj] at hxe
      have hc := (coverCon_holds σ i j).mp (hcover i j hiK hjF)
      have : σ (Var.u i) = 1 := by
        rcases hu i hiK with h | h
        · rw [h] at hc; simp at hxe; grind
        · exact h
      simp [hub, this]
    · simp only [hub]
      rcases hu i hiK with h | h <;> rw [h] <;> simp [hwr]
  have h2 : ((rangeF P).map (fun j => joinGates (cnt P (decode σ) j))).sum ≤ ((rangeF P).map (fun j => σ (Var.n j))).sum := by
    apply sum_le_sum
    intro j hjm
    have hjF := mem_rangeF.mp hjm
    have := (joinCon_holds P σ j).mp (hjoin j hjF)
    rw [sum_x_eq' P σ j (fun i hi => hx i j hi hjF)] at this
    exact joinGates_le _ _ (hn j hjF) this
  have h3 := Rat.mul_le_mul_of_nonneg_left h2 hjr
  grind

/-- a selection of candidates is an OR form of the outputs: every selected candidate implies its
    output and every true assignment of an output is covered -/
def OrRealises (P : Prob) (sel : Nat → Nat → Bool) : Prop :=
  (∀ i j, i < P.K → j < P.F → sel i j = true → P.ok i j = true) ∧
  ∀ j b, j < P.F → b < P.B → P.fv j b = true → ∃ i, i < P.K ∧ sel i j = true ∧ P.val i b = true

/-- with `ok` meaning "implies", such a selection denotes exactly the outputs -/
theorem orRealises_exact (P : Prob) (sel : Nat → Nat → Bool)
    (hok : ∀ i j, i < P.K → j < P.F → (P.ok i j = true ↔ ∀ b, b < P.B → P.val i b = true → P.fv j b = true))
    (h : OrRealises P sel) (j b : Nat) (hj : j < P.F) (hb : b < P.B) :
    P.fv j b = true ↔ ∃ i, i < P.K ∧ sel i j = true ∧ P.val i b = true := by
  constructor
  · exact h.2 j b hj hb
  · rintro ⟨i, hi, hs, hv⟩
    exact (hok i j hi hj).mp (h.1 i j hi hj hs) b hb hv

theorem mem_sopCons (P : Prob) (c : Con) : c ∈ sopCons P ↔
    (∃ j, j < P.F ∧ c = joinCon P j) ∨ (∃ j i, j < P.F ∧ i < P.K ∧ c = coverCon i j) ∨
    (∃ j i, j < P.F ∧ i < P.K ∧ P.ok i j = false ∧ c = offCon i j) ∨
    (∃ j b, j < P.F ∧ b < P.B ∧ P.fv j b = true ∧ c = onCon P j b) := by
  simp only [sopCons, List.mem_append, List.mem_map, List.mem_flatMap, List.mem_filter, mem_rangeF, mem_rangeK,
    mem_rangeB, Bool.not_eq_true']
  constructor
  · rintro (((⟨j, hj, rfl⟩ | ⟨j, hj, i, hi, rfl⟩) | ⟨j, hj, i, ⟨hi, hok⟩, rfl⟩) | ⟨j, hj, b, ⟨hb, hf⟩, rfl⟩)
    · exact Or.inl ⟨j, hj, rfl⟩
    · exact Or.inr (Or.inl ⟨j, i, hj, hi, rfl⟩)
    · exact Or.inr (Or.inr (Or.inl ⟨j, i, hj, hi, hok, rfl⟩))
    · exact Or.inr (Or.inr (Or.inr ⟨j, b, hj, hb, hf, rfl⟩))
  · rintro (⟨j, hj, rfl⟩ | ⟨j, i, hj, hi, rfl⟩ | ⟨j, i, hj, hi, hok, rfl⟩ | ⟨j, b, hj, hb, hf, rfl⟩)
    · exact Or.inl (Or.inl (Or.inl ⟨j, hj, rfl⟩))
    · exact Or.inl (Or.inl (Or.inr ⟨j, hj, i, hi, rfl⟩))
    · exact Or.inl (Or.inr ⟨j, hj, i, ⟨hi, hok⟩, rfl⟩)
    · exact Or.inr ⟨j, hj, b, ⟨hb, hf⟩, rfl⟩

theorem sum_zero_of_all {α} (l : List α) (f : α → Rat) (h : ∀ x ∈ l, f x = 0) : (l.map f).sum = 0 := by
  rw [sum_congr l f (fun _ => 0) h]
  clear h
  induction l with
  | nil => rfl
  | cons a l ih => simp only [List.map_cons, List.sum_cons, ih]; grind

/-- **soundness of the SOP programme**: every feasible point decodes to an OR form of the outputs
    whose documented cost is at most the objective value -/
theorem sop_sound (P : Prob) (σ : Var → Rat) (h : SopFeasible P σ)
    (hw : ∀ i, i < P.K → 0 ≤ P.w i) (hj : 0 ≤ P.join) :
    OrRealises P (decode σ) ∧ cost P (decode σ) ≤ objective P σ := by
  obtain ⟨hd, hc⟩ := h
  have hx := hd.2.1
  refine ⟨⟨?_, ?_⟩, ?_⟩
  · intro i j hi hjF hdec
    cases hok : P.ok i j with
    | true => rfl
    | false =>
      exfalso
      have := (offCon_holds σ i j).mp (hc _ ((mem_sopCons P _).mpr (Or.inr (Or.inr (Or.inl ⟨j, i, hjF, hi, hok, rfl⟩)))))
      have hxe := bin_decode σ i j (hx i j hi hjF)
      rw [hdec] at hxe
      simp at hxe
      grind
  · intro j b hjF hb hf
    have := (onCon_holds P σ j b).mp (hc _ ((mem_sopCons P _).mpr (Or.inr (Or.inr (Or.inr ⟨j, b, hjF, hb, hf, rfl⟩)))))
    -- some selected candidate is true at b, or the sum would be zero
    apply Classical.byContradiction
    intro hne
    have hz : (((rangeK P).filter (fun i => P.val i b)).map (fun i => σ (Var.x i j))).sum = 0 := by
      apply sum_zero_of_all
      intro i hi
      obtain ⟨hiK, hv⟩ := List.mem_filter.mp hi
      have hiK := mem_rangeK.mp hiK
      have hxe := bin_decode σ i j (hx i j hiK hjF)
      cases hdec : decode σ i j with
      | false => rw [hdec] at hxe; simpa using hxe
      | true => exact absurd ⟨i, hiK, hdec, hv⟩ hne
    rw [hz] at this
    exact absurd this (by decide)
  · exact cost_le_objective P σ hd hw hj
      (fun j hjF => hc _ ((mem_sopCons P _).mpr (Or.inl ⟨j, hjF, rfl⟩)))
      (fun i j hi hjF => hc _ ((mem_sopCons P _).mpr (Or.inr (Or.inl ⟨j, i, hjF, hi, rfl⟩))))

def ind (b : Bool) : Rat := if b then 1 else 0

/-- the point of the programme that encodes a selection (slacks are filled in by `sl`) -/
def encode (P : Prob) (sel : Nat → Nat → Bool) (sl : Var → Rat) : Var → Rat
  | .u i => ind (usedBy P sel i)
  | .x i j => ind (sel i j)
  | .n j => joinGates (cnt P sel j)
  | v => sl v

theorem ind_bin (b : Bool) : isBin (ind b) := by cases b <;> simp [ind, isBin]

theorem decode_encode (P : Prob) (sel : Nat → Nat → Bool) (sl : Var → Rat) (i j : Nat) :
    decode (encode P sel sl) i j = sel i j := by
  show decide (1 / 2 < ind (sel i j)) = sel i j
  cases sel i j
  · have : ¬ ((1 : Rat) / 2 < 0) := by grind
    simpa [ind] using this
  · have : (1 : Rat) / 2 < 1 := by grind
    simpa [ind] using this

theorem joinGates_nonneg (c : Nat) : 0 ≤ joinGates c := by
  unfold joinGates
  split
  · exact Rat.le_refl
  · rename_i h
    have : (1 : Rat) ≤ (c : Rat) := by exact_mod_cast Nat.one_le_iff_ne_zero.mpr h
    grind

theorem joinGates_ge (c : Nat) : (c : Rat) - joinGates c ≤ 1 := by
  unfold joinGates
  split
  · rename_i h; rw [h]; grind
  · grind

theorem sum_x_encode (P : Prob) (sel : Nat → Nat → Bool) (sl : Var → Rat) (j : Nat) (q : Nat → Bool) :
    (((rangeK P).filter q).map (fun i => encode P sel sl (Var.x i j))).sum =
      (((rangeK P).filter (fun i => q i && sel i j)).length : Rat) := by
  rw [← sum_ind_filter]
  rfl

theorem sum_x_encode' (P : Prob) (sel : Nat → Nat → Bool) (sl : Var → Rat) (j : Nat) :
    ((rangeK P).map (fun i => encode P sel sl (Var.x i j))).sum = (cnt P sel j : Rat) := by
  have := sum_x_encode P sel sl j (fun _ => true)
  have e : (rangeK P).filter (fun _ => true) = rangeK P := List.filter_eq_self.mpr (fun _ _ => rfl)
  rw [e] at this
  simpa [cnt] using this

theorem encode_domains (P : Prob) (sel : Nat → Nat → Bool) (sl : Var → Rat)
    (hs1 : ∀ j b, isInt (sl (Var.sv j b))) (hs2 : ∀ j b fl, isInt (sl (Var.sd j b fl))) :
    Domains P (encode P sel sl) :=
  ⟨fun _ _ => ind_bin _, fun _ _ _ _ => ind_bin _, fun _ _ => joinGates_nonneg _, hs1, hs2⟩

theorem encode_join (P : Prob) (sel : Nat → Nat → Bool) (sl : Var → Rat) (j : Nat) :
    (joinCon P j).holds (encode P sel sl) := by
  rw [joinCon_holds, sum_x_encode']
  exact joinGates_ge _

theorem encode_cover (P : Prob) (sel : Nat → Nat → Bool) (sl : Var → Rat) (i j : Nat) (hj : j < P.F) :
    (coverCon i j).holds (encode P sel sl) := by
  rw [coverCon_holds]
  show ind (sel i j) ≤ ind (usedBy P sel i)
  cases hs : sel i j with
  | false => cases usedBy P sel i <;> simp only [ind] <;> grind
  | true =>
    have : usedBy P sel i = true := (usedBy_iff P sel i).mpr ⟨j, hj, hs⟩
    rw [this]; exact Rat.le_refl

theorem encode_objective (P : Prob) (sel : Nat → Nat → Bool) (sl : Var → Rat) :
    objective P (encode P sel sl) = cost P sel := by
  rw [objective_eq, cost]
  congr 1
  apply sum_congr
  intro i _
  show (P.w i : Rat) * ind (usedBy P sel i) = _
  cases usedBy P sel i <;> simp [ind]

theorem one_le_length_of_mem {α} (l : List α) (a : α) (h : a ∈ l) : (1 : Rat) ≤ (l.length : Rat) := by
  have : 1 ≤ l.length := List.length_pos_of_mem h
  exact_mod_cast this

/-- **completeness of the SOP programme**: every OR form over the candidates is a feasible point
    whose objective value is the documented cost of the form -/
theorem sop_complete (P : Prob) (sel : Nat → Nat → Bool) (h : OrRealises P sel) :
    ∃ σ, SopFeasible P σ ∧ objective P σ = cost P sel ∧ ∀ i j, decode σ i j = sel i j := by
  refine ⟨encode P sel (fun _ => 0), ⟨encode_domains P sel _ (fun _ _ => ⟨0, by simp⟩) (fun _ _ _ => ⟨0, by simp⟩), ?_⟩,
    encode_objective P sel _, decode_encode P sel _⟩
  intro c hc
  rcases (mem_sopCons P c).mp hc with ⟨j, _, rfl⟩ | ⟨j, i, hj, _, rfl⟩ | ⟨j, i, hj, hi, hok, rfl⟩ | ⟨j, b, hj, hb, hf, rfl⟩
  · exact encode_join P sel _ j
  · exact encode_cover P sel _ i j hj
  · rw [offCon_holds]
    show ind (sel i j) ≤ 0
    cases hs : sel i j with
    | false => simp [ind]
    | true => rw [h.1 i j hi hj hs] at hok; exact absurd hok (by decide)
  · rw [onCon_holds, sum_x_encode]
    obtain ⟨i, hi, hs, hv⟩ := h.2 j b hj hb hf
    exact one_le_length_of_mem _ i (List.mem_filter.mpr ⟨mem_rangeK.mpr hi, by simp [hs, hv]⟩)

/-- **what an optimal solution of the SOP programme is**: it decodes to an OR form of the outputs
    whose documented cost is minimal among all OR forms over the candidates -/
theorem sop_optimal (P : Prob) (σ : Var → Rat) (hf : SopFeasible P σ)
    (hopt : ∀ σ', SopFeasible P σ' → objective P σ ≤ objective P σ')
    (hw : ∀ i, i < P.K → 0 ≤ P.w i) (hj : 0 ≤ P.join) :
    OrRealises P (decode σ) ∧ ∀ sel, OrRealises P sel → cost P (decode σ) ≤ cost P sel := by
  obtain ⟨hr, hc⟩ := sop_sound P σ hf hw hj
  refine ⟨hr, fun sel hs => ?_⟩
  obtain ⟨σ', hf', ho', _⟩ := sop_complete P sel hs
  have := hopt σ' hf'
  rw [ho'] at this
  exact Rat.le_trans hc this

/-- number of selected candidates of output `j` that satisfy `q` -/
def cntAt (P : Prob) (sel : Nat → Nat → Bool) (j : Nat) (q : Nat → Bool) : Nat :=
  ((rangeK P).filter (fun i => q i && sel i j)).length

/-- a selection of candidates is an XOR form of the outputs -/
def XorRealises (P : Prob) (sel : Nat → Nat → Bool) : Prop :=
  ∀ j b, j < P.F → b < P.B → P.fv j b = (cntAt P sel j (fun i => P.val i b) % 2 == 1)

def bN (b : Bool) : Nat := if b then 1 else 0

theorem ind_bN (b : Bool) : ind b = (bN b : Rat) := by cases b <;> simp [ind, bN]

theorem parity_of_eq (v : Bool) (c : Nat) (z : Int) (h : ind v + (c : Rat) = -2 * (z : Rat)) :
    v = (c % 2 == 1) := by
  rw [ind_bN] at h
  have h2 : (((bN v + c : Nat) : Int) : Rat) = ((-2 * z : Int) : Rat) := by
    rw [Rat.intCast_natCast, Rat.intCast_mul, Rat.natCast_add]
    exact h
  have h' : ((bN v + c : Nat) : Int) = -2 * z := Rat.intCast_inj.mp h2
  cases v <;> simp [bN] at h' ⊢ <;> omega

theorem eq_of_parity (v : Bool) (c : Nat) (h : v = (c % 2 == 1)) :
    ind v + (c : Rat) = -2 * (-(((bN v + c) / 2 : Nat) : Rat)) := by
  rw [ind_bN]
  have hk : bN v + c = 2 * ((bN v + c) / 2) := by
    cases v <;> simp [bN] at h ⊢ <;> omega
  have : ((bN v + c : Nat) : Rat) = ((2 * ((bN v + c) / 2) : Nat) : Rat) := by rw [← hk]
  push_cast at this
  grind

/-- parity of the number of elements satisfying an exclusive or -/
theorem filter_xor_parity {α} (l : List α) (p r : α → Bool) :
    (l.filter (fun i => p i != r i)).length % 2 = ((l.filter p).length + (l.filter r).length) % 2 := by
  induction l with
  | nil => rfl
  | cons a l ih =>
    simp only [List.filter_cons]
    cases p a <;> cases r a <;> simp <;> omega

theorem cntAt_diff (P : Prob) (sel : Nat → Nat → Bool) (j b b2 : Nat) :
    cntAt P sel j (fun i => P.val i b != P.val i b2) % 2 =
      (cntAt P sel j (fun i => P.val i b) + cntAt P sel j (fun i => P.val i b2)) % 2 := by
  unfold cntAt
  rw [← filter_xor_parity]
  congr 2
  apply List.filter_congr
  intro i _
  show ((P.val i b != P.val i b2) && sel i j) = ((P.val i b && sel i j) != (P.val i b2 && sel i j))
  cases P.val i b <;> cases P.val i b2 <;> cases sel i j <;> rfl

theorem mem_esopCons (P : Prob) (c : Con) : c ∈ esopCons P ↔
    (∃ j, j < P.F ∧ c = joinCon P j) ∨ (∃ j i, j < P.F ∧ i < P.K ∧ c = coverCon i j) ∨
    (∃ j b, j < P.F ∧ b < P.B ∧ c = valueCon P j b) ∨
    (∃ j b fl, j < P.F ∧ b < P.B ∧ fl < P.nv ∧ c = diffCon P j b fl) := by
  simp only [esopCons, List.mem_append, List.mem_map, List.mem_flatMap, mem_rangeF, mem_rangeK,
    mem_rangeB, List.mem_range]
  constructor
  · rintro (((⟨j, hj, rfl⟩ | ⟨j, hj, i, hi, rfl⟩) | ⟨j, hj, b, hb, rfl⟩) | ⟨j, hj, b, hb, fl, hfl, rfl⟩)
    · exact Or.inl ⟨j, hj, rfl⟩
    · exact Or.inr (Or.inl ⟨j, i, hj, hi, rfl⟩)
    · exact Or.inr (Or.inr (Or.inl ⟨j, b, hj, hb, rfl⟩))
    · exact Or.inr (Or.inr (Or.inr ⟨j, b, fl, hj, hb, hfl, rfl⟩))
  · rintro (⟨j, hj, rfl⟩ | ⟨j, i, hj, hi, rfl⟩ | ⟨j, b, hj, hb, rfl⟩ | ⟨j, b, fl, hj, hb, hfl, rfl⟩)
    · exact Or.inl (Or.inl (Or.inl ⟨j, hj, rfl⟩))
    · exact Or.inl (Or.inl (Or.inr ⟨j, hj, i, hi, rfl⟩))
    · exact Or.inl (Or.inr ⟨j, hj, b, hb, rfl⟩)
    · exact Or.inr ⟨j, hj, b, hb, fl, hfl, rfl⟩

/-- **soundness of the ESOP programme**: every feasible point decodes to an XOR form of the
    outputs whose documented cost is at most the objective value -/
theorem esop_sound (P : Prob) (σ : Var → Rat) (h : EsopFeasible P σ)
    (hw : ∀ i, i < P.K → 0 ≤ P.w i) (hj : 0 ≤ P.join) :
    XorRealises P (decode σ) ∧ cost P (decode σ) ≤ objective P σ := by
  obtain ⟨hd, hc⟩ := h
  have hx := hd.2.1
  refine ⟨?_, ?_⟩
  · intro j b hjF hb
    have := (parityCon_holds σ j _ _ _).mp (hc _ ((mem_esopCons P _).mpr (Or.inr (Or.inr (Or.inl ⟨j, b, hjF, hb, rfl⟩)))))
    rw [sum_x_eq P σ j _ (fun i hi => hx i j hi hjF)] at this
    obtain ⟨z, hz⟩ := hd.2.2.2.1 j b
    rw [hz] at this
    exact parity_of_eq _ _ z this
  · exact cost_le_objective P σ hd hw hj
      (fun j hjF => hc _ ((mem_esopCons P _).mpr (Or.inl ⟨j, hjF, rfl⟩)))
      (fun i j hi hjF => hc _ ((mem_esopCons P _).mpr (Or.inr (Or.inl ⟨j, i, hjF, hi, rfl⟩))))

/-- the slack values that go with a selection -/
def slackOf (P : Prob) (sel : Nat → Nat → Bool) : Var → Rat
  | .sv j b => -(((bN (P.fv j b) + cntAt P sel j (fun i => P.val i b)) / 2 : Nat) : Rat)
  | .sd j b fl => -(((bN (P.fv j b != P.fv j (b ^^^ 2 ^ fl)) +
      cntAt P sel j (fun i => P.val i b != P.val i (b ^^^ 2 ^ fl))) / 2 : Nat) : Rat)
  | _ => 0

theorem isInt_neg_nat (k : Nat) : isInt (-(k : Rat)) := ⟨-(k : Int), by push_cast; rfl⟩

/-- **completeness of the ESOP programme** (the redundant difference constraints included): every
    XOR form over the candidates is a feasible point whose objective value is its documented cost -/
theorem esop_complete (P : Prob) (sel : Nat → Nat → Bool) (h : XorRealises P sel) :
    ∃ σ, EsopFeasible P σ ∧ objective P σ = cost P sel ∧ ∀ i j, decode σ i j = sel i j := by
  refine ⟨encode P sel (slackOf P sel), ⟨encode_domains P sel _ (fun _ _ => isInt_neg_nat _) (fun _ _ _ => isInt_neg_nat _), ?_⟩,
    encode_objective P sel _, decode_encode P sel _⟩
  intro c hc
  rcases (mem_esopCons P c).mp hc with ⟨j, _, rfl⟩ | ⟨j, i, hj, _, rfl⟩ | ⟨j, b, hj, hb, rfl⟩ | ⟨j, b, fl, hj, hb, hfl, rfl⟩
  · exact encode_join P sel _ j
  · exact encode_cover P sel _ i j hj
  · rw [valueCon, parityCon_holds, sum_x_encode]
    exact eq_of_parity _ _ (h j b hj hb)
  · rw [diffCon, parityCon_holds, sum_x_encode]
    apply eq_of_parity
    have hb2 : b ^^^ 2 ^ fl < P.B := Nat.xor_lt_two_pow hb (Nat.pow_lt_pow_right (by omega) hfl)
    have h1 := h j b hj hb
    have h2 := h j (b ^^^ 2 ^ fl) hj hb2
    have h3 := cntAt_diff P sel j b (b ^^^ 2 ^ fl)
    rw [h1, h2]
    show _ = (cntAt P sel j (fun i => P.val i b != P.val i (b ^^^ 2 ^ fl)) % 2 == 1)
    rw [h3]
    generalize cntAt P sel j (fun i => P.val i b) = c1
    generalize cntAt P sel j (fun i => P.val i (b ^^^ 2 ^ fl)) = c2
    rcases Nat.mod_two_eq_zero_or_one c1 with e1 | e1 <;> rcases Nat.mod_two_eq_zero_or_one c2 with e2 | e2 <;>
      simp [Nat.add_mod, e1, e2]

/-- **what an optimal solution of the ESOP programme is** -/
theorem esop_optimal (P : Prob) (σ : Var → Rat) (hf : EsopFeasible P σ)
    (hopt : ∀ σ', EsopFeasible P σ' → objective P σ ≤ objective P σ')
    (hw : ∀ i, i < P.K → 0 ≤ P.w i) (hj : 0 ≤ P.join) :
    XorRealises P (decode σ) ∧ ∀ sel, XorRealises P sel → cost P (decode σ) ≤ cost P sel := by
  obtain ⟨hr, hc⟩ := esop_sound P σ hf hw hj
  refine ⟨hr, fun sel hs => ?_⟩
  obtain ⟨σ', hf', ho', _⟩ := esop_complete P sel hs
  have := hopt σ' hf'
  rw [ho'] at this
  exact Rat.le_trans hc this

/-! ## The programmes of the three entry points -/

open VoluteModel VoluteModel.Optim

theorem ecube_impliesLut_iff (e : Ecube) (l : Lut) :
    e.impliesLut l = true ↔ ∀ m, m < 2 ^ l.n → e.value m = true → getBit l.t m = true := by
  unfold Ecube.impliesLut Dyn.numBits
  simp only [List.all_eq_true, List.mem_range, Nat.shiftLeft_eq, Nat.one_mul]
  constructor
  · intro h m hm hv
    have := h m hm
    rw [hv] at this
    simpa using this
  · intro h m hm
    cases hv : e.value m
    · simp
    · simp [h m hm hv]

theorem term_impliesLut_iff (t : Term) (l : Lut) :
    t.impliesLut l = true ↔ ∀ m, m < 2 ^ l.n → t.value m = true → getBit l.t m = true := by
  cases t with
  | cube c => exact VoluteModel.Props.C12.impliesLut_iff c l
  | ecube e => exact ecube_impliesLut_iff e l

/-- in the problems built from real candidates and functions (all of the same number of
    variables, which `check()` asserts), `ok` means "implies" -/
theorem probOf_ok (terms : List Term) (fs : List Lut) (A X J : Int) (n0 : Nat) (hn : ∀ l ∈ fs, l.n = n0)
    (i j : Nat) (hi : i < (probOf terms fs A X J).K) (hj : j < (probOf terms fs A X J).F) :
    (probOf terms fs A X J).ok i j = true ↔
      ∀ b, b < (probOf terms fs A X J).B → (probOf terms fs A X J).val i b = true → (probOf terms fs A X J).fv j b = true := by
  have hi' : i < terms.length := hi
  have hj' : j < fs.length := hj
  have hnv : (probOf terms fs A X J).B = 2 ^ n0 := by
    unfold Prob.B probOf
    cases fs with
    | nil => simp at hj'
    | cons l r => simp [hn l (by simp)]
  rw [hnv]
  simp only [probOf, List.getElem?_eq_getElem hi', List.getElem?_eq_getElem hj', Option.map_some, Option.getD_some]
  rw [term_impliesLut_iff, hn _ (List.getElem_mem hj')]

theorem term_cost_nonneg (t : Term) (A X : Int) (hA : 0 ≤ A) (hX : ∀ e, t = Term.ecube e → 0 ≤ X) : 0 ≤ t.cost A X := by
  cases t with
  | cube c => exact Int.mul_nonneg (Int.natCast_nonneg _) hA
  | ecube e => exact Int.mul_nonneg (Int.natCast_nonneg _) (hX e rfl)

theorem sopProb_w_nonneg (fs : List Lut) (A X O : Int) (hA : 0 ≤ A) (i : Nat) (hi : i < (sopProb fs A X O).K) :
    0 ≤ (sopProb fs A X O).w i := by
  have hi' : i < (sopTerms fs X).length := hi
  show 0 ≤ (((sopTerms fs X)[i]?.map (Term.cost A X)).getD 0)
  rw [List.getElem?_eq_getElem hi']
  apply term_cost_nonneg _ _ _ hA
  intro e he
  have hm : Term.ecube e ∈ sopTerms fs X := he ▸ List.getElem_mem hi'
  unfold sopTerms at hm
  by_cases hX : X ≥ 0
  · exact hX
  · simp [hX] at hm

theorem esopProb_w_nonneg (fs : List Lut) (A X : Int) (hA : 0 ≤ A) (i : Nat) (hi : i < (esopProb fs A X).K) :
    0 ≤ (esopProb fs A X).w i := by
  have hi' : i < (esopTerms fs).length := hi
  show 0 ≤ (((esopTerms fs)[i]?.map (Term.cost A X)).getD 0)
  rw [List.getElem?_eq_getElem hi']
  apply term_cost_nonneg _ _ _ hA
  intro e he
  have hm : Term.ecube e ∈ esopTerms fs := he ▸ List.getElem_mem hi'
  simp [esopTerms] at hm

/-- **`optimize_sop_mip` / `optimize_sopes_mip`, given an optimal solution of the programme they
    build**: every output is exactly the OR of the terms selected for it, every selected term is
    an implicant of its output, and no OR form by implicants over the candidates has a smaller
    documented cost -/
theorem sop_mip_spec (fs : List Lut) (A X O : Int) (hA : 1 ≤ A) (hO : 1 ≤ O) (n0 : Nat) (hn : ∀ l ∈ fs, l.n = n0)
    (σ : Var → Rat) (hf : SopFeasible (sopProb fs A X O) σ)
    (hopt : ∀ σ', SopFeasible (sopProb fs A X O) σ' → objective (sopProb fs A X O) σ ≤ objective (sopProb fs A X O) σ') :
    (∀ j (hj : j < fs.length) b, b < 2 ^ n0 →
      (getBit fs[j].t b = true ↔ ∃ i, ∃ hi : i < (sopTerms fs X).length, decode σ i j = true ∧ (sopTerms fs X)[i].value b = true)) ∧
    (∀ i j (hi : i < (sopTerms fs X).length) (hj : j < fs.length), decode σ i j = true → (sopTerms fs X)[i].impliesLut fs[j] = true) ∧
    (∀ sel, OrRealises (sopProb fs A X O) sel → cost (sopProb fs A X O) (decode σ) ≤ cost (sopProb fs A X O) sel) := by
  obtain ⟨hr, hmin⟩ := sop_optimal _ σ hf hopt (sopProb_w_nonneg fs A X O (by omega)) (show (0 : Int) ≤ O by omega)
  refine ⟨?_, ?_, hmin⟩
  · intro j hj b hb
    have hB : (sopProb fs A X O).B = 2 ^ n0 := by
      unfold Prob.B sopProb probOf
      cases fs with
      | nil => simp at hj
      | cons l r => simp [hn l (by simp)]
    have := orRealises_exact _ _ (fun i j hi hj => probOf_ok _ fs A X O n0 hn i j hi hj) hr j b hj (by show b < (sopProb fs A X O).B; rw [hB]; exact hb)
    simp only [probOf, List.getElem?_eq_getElem hj, Option.map_some, Option.getD_some] at this
    rw [this]
    constructor
    · rintro ⟨i, hi, hd, hv⟩
      refine ⟨i, hi, hd, ?_⟩
      simpa [List.getElem?_eq_getElem hi] using hv
    · rintro ⟨i, hi, hd, hv⟩
      refine ⟨i, hi, hd, ?_⟩
      simpa [List.getElem?_eq_getElem hi] using hv
  · intro i j hi hj hd
    have := hr.1 i j hi hj hd
    simpa [sopProb, probOf, List.getElem?_eq_getElem hi, List.getElem?_eq_getElem hj] using this

theorem xor_fold (l : List Bool) (r : Bool) :
    l.foldl (fun a v => a != v) r = (r != ((l.filter id).length % 2 == 1)) := by
  induction l generalizing r with
  | nil => simp
  | cons v l ih =>
    simp only [List.foldl_cons, ih, List.filter_cons]
    cases v <;> cases r <;> simp <;>
      rcases Nat.mod_two_eq_zero_or_one (List.filter id l).length with e | e <;> simp [e, Nat.add_mod]

theorem solution_values (terms : List Term) (l : List Nat) (hl : ∀ i ∈ l, i < terms.length) (b : Nat) :
    (l.filterMap (fun i => terms[i]?)).map (·.value b) = l.map (fun i => (terms[i]?.map (·.value b)).getD false) := by
  induction l with
  | nil => rfl
  | cons i l ih =>
    have hi := hl i (by simp)
    simp only [List.filterMap_cons, List.getElem?_eq_getElem hi, List.map_cons, Option.map_some, Option.getD_some]
    rw [ih (fun k hk => hl k (by simp [hk]))]

theorem count_solution (terms : List Term) (σ : Var → Rat) (j b : Nat) :
    (((solution terms σ j).map (·.value b)).filter id).length =
      ((List.range terms.length).filter (fun i => (terms[i]?.map (·.value b)).getD false && decode σ i j)).length := by
  unfold solution
  rw [solution_values _ _ (fun i hi => by simpa using (List.mem_filter.mp hi).1), List.filter_map, List.length_map,
    List.filter_filter]
  rfl

theorem probOf_B (terms : List Term) (fs : List Lut) (A X J : Int) (n0 : Nat) (hn : ∀ l ∈ fs, l.n = n0) (hne : fs ≠ []) :
    (probOf terms fs A X J).B = 2 ^ n0 := by
  unfold Prob.B probOf
  cases fs with
  | nil => exact absurd rfl hne
  | cons l r => simp [hn l (by simp)]

/-- **`optimize_esop_mip`, given an optimal solution of the programme it builds**: every output is
    exactly the XOR of the cubes selected for it (as `Esop::value` folds them), and no XOR form
    over the cubes of the variables has a smaller documented cost -/
theorem esop_mip_spec (fs : List Lut) (A X : Int) (hA : 1 ≤ A) (hX : 1 ≤ X) (n0 : Nat) (hn : ∀ l ∈ fs, l.n = n0)
    (σ : Var → Rat) (hf : EsopFeasible (esopProb fs A X) σ)
    (hopt : ∀ σ', EsopFeasible (esopProb fs A X) σ' → objective (esopProb fs A X) σ ≤ objective (esopProb fs A X) σ') :
    (∀ j (hj : j < fs.length) b, b < 2 ^ n0 →
      getBit fs[j].t b = ((solution (esopTerms fs) σ j).map (·.value b)).foldl (fun a v => a != v) false) ∧
    (∀ sel, XorRealises (esopProb fs A X) sel → cost (esopProb fs A X) (decode σ) ≤ cost (esopProb fs A X) sel) := by
  obtain ⟨hr, hmin⟩ := esop_optimal _ σ hf hopt (esopProb_w_nonneg fs A X (by omega)) (show (0 : Int) ≤ X by omega)
  refine ⟨?_, hmin⟩
  intro j hj b hb
  have hne : fs ≠ [] := by intro h; rw [h] at hj; simp at hj
  have hB := probOf_B (esopTerms fs) fs A X X n0 hn hne
  have := hr j b hj (by show b < (esopProb fs A X).B; unfold esopProb; rw [hB]; exact hb)
  rw [xor_fold, count_solution]
  simp only [esopProb, probOf, List.getElem?_eq_getElem hj, Option.map_some, Option.getD_some, cntAt, rangeK] at this
  rw [this]
  simp

/-- the OR form of `sop_mip_spec`, as `Sop::value` / `Soes::value` fold the selected terms -/
theorem sop_mip_value (fs : List Lut) (A X O : Int) (hA : 1 ≤ A) (hO : 1 ≤ O) (n0 : Nat) (hn : ∀ l ∈ fs, l.n = n0)
    (σ : Var → Rat) (hf : SopFeasible (sopProb fs A X O) σ)
    (hopt : ∀ σ', SopFeasible (sopProb fs A X O) σ' → objective (sopProb fs A X O) σ ≤ objective (sopProb fs A X O) σ')
    (j : Nat) (hj : j < fs.length) (b : Nat) (hb : b < 2 ^ n0) :
    getBit fs[j].t b = (solution (sopTerms fs X) σ j).any (·.value b) := by
  have h := (sop_mip_spec fs A X O hA hO n0 hn σ hf hopt).1 j hj b hb
  rw [Bool.eq_iff_iff, h, List.any_eq_true]
  unfold solution
  constructor
  · rintro ⟨i, hi, hd, hv⟩
    refine ⟨(sopTerms fs X)[i], ?_, hv⟩
    rw [List.mem_filterMap]
    exact ⟨i, List.mem_filter.mpr ⟨List.mem_range.mpr hi, hd⟩, List.getElem?_eq_getElem hi⟩
  · rintro ⟨t, ht, hv⟩
    rw [List.mem_filterMap] at ht
    obtain ⟨i, hi, hti⟩ := ht
    obtain ⟨hir, hd⟩ := List.mem_filter.mp hi
    have hi' : i < (sopTerms fs X).length := List.mem_range.mp hir
    rw [List.getElem?_eq_getElem hi'] at hti
    refine ⟨i, hi', hd, ?_⟩
    rw [Option.some.inj hti]; exact hv

theorem sum_nonneg {α} (l : List α) (f : α → Rat) (h : ∀ x ∈ l, 0 ≤ f x) : 0 ≤ (l.map f).sum := by
  have := sum_le_sum l (fun _ => 0) f h
  rw [sum_zero_of_all l (fun _ => 0) (fun _ _ => rfl)] at this
  exact this

theorem cost_nonneg (P : Prob) (sel : Nat → Nat → Bool) (hw : ∀ i, i < P.K → 0 ≤ P.w i) (hj : 0 ≤ P.join) :
    0 ≤ cost P sel := by
  unfold cost
  have h1 : 0 ≤ ((rangeK P).map (fun i => if usedBy P sel i then (P.w i : Rat) else 0)).sum := by
    apply sum_nonneg
    intro i hi
    have : (0 : Rat) ≤ (P.w i : Rat) := by exact_mod_cast hw i (mem_rangeK.mp hi)
    split
    · exact this
    · exact Rat.le_refl
  have h2 : 0 ≤ ((rangeF P).map (fun j => joinGates (cnt P sel j))).sum := sum_nonneg _ _ (fun j _ => joinGates_nonneg _)
  have hjr : (0 : Rat) ≤ (P.join : Rat) := by exact_mod_cast hj
  have h3 := Rat.mul_nonneg hjr h2
  grind

/-- non-vacuity: the programme of `optimize_sop_mip(&[x0], 1, 1)` has an optimal solution (the
    hypotheses of `sop_mip_spec` can be met) -/
example : ∃ σ, SopFeasible (sopProb [⟨1, #[0x2#64]⟩] 1 (-1) 1) σ ∧
    ∀ σ', SopFeasible (sopProb [⟨1, #[0x2#64]⟩] 1 (-1) 1) σ' →
      objective (sopProb [⟨1, #[0x2#64]⟩] 1 (-1) 1) σ ≤ objective (sopProb [⟨1, #[0x2#64]⟩] 1 (-1) 1) σ' := by
  -- the single candidate is the cube x0, selected for the single output
  have hterms : sopTerms [⟨1, #[0x2#64]⟩] (-1) = [Term.cube ⟨1#32, 0#32⟩] := by decide +kernel
  have hr : OrRealises (sopProb [⟨1, #[0x2#64]⟩] 1 (-1) 1) (fun _ _ => true) := by
    constructor
    · intro i j hi hj _
      have hi' : i < (sopTerms [⟨1, #[0x2#64]⟩] (-1)).length := hi
      rw [hterms] at hi'
      have hi0 : i = 0 := by simpa using hi'
      have hj0 : j = 0 := by have : j < 1 := hj; omega
      subst hi0; subst hj0
      show (match (sopTerms [⟨1, #[0x2#64]⟩] (-1))[0]?, ([⟨1, #[0x2#64]⟩] : List Lut)[0]? with
        | some t, some l => t.impliesLut l | _, _ => false) = true
      rw [hterms]
      decide +kernel
    · intro j b hj hb hf
      have hj0 : j = 0 := by have : j < 1 := hj; omega
      have hb2 : b < 2 := hb
      subst hj0
      refine ⟨0, by show 0 < (sopTerms _ _).length; rw [hterms]; decide, rfl, ?_⟩
      show (((sopTerms [⟨1, #[0x2#64]⟩] (-1))[0]?.map (·.value b)).getD false) = true
      rw [hterms]
      have hb' : b = 0 ∨ b = 1 := by omega
      rcases hb' with rfl | rfl
      · exact absurd hf (by decide +kernel)
      · decide +kernel
  obtain ⟨σ, hf, ho, _⟩ := sop_complete _ _ hr
  refine ⟨σ, hf, fun σ' hf' => ?_⟩
  rw [ho]
  have hw := sopProb_w_nonneg [⟨1, #[0x2#64]⟩] 1 (-1) 1 (by decide)
  have h1 := (sop_sound _ σ' hf' hw (by decide)).2
  -- the selected form costs nothing: one literal, no gate, no join
  have hc : cost (sopProb [⟨1, #[0x2#64]⟩] 1 (-1) 1) (fun _ _ => true) = 0 := by
    unfold cost usedBy cnt rangeK rangeF
    show ((List.range (sopTerms [⟨1, #[0x2#64]⟩] (-1)).length).map _).sum + _ = 0
    simp only [sopProb, probOf, hterms]
    simp [joinGates, Term.cost, Cube.numGates, Cube.numLits]
    decide +kernel
  rw [hc]
  exact Rat.le_trans (cost_nonneg _ _ hw (by decide)) h1

end VoluteModel.Mip

import VoluteModel.Model.Api
import VoluteModel.Lemmas.SortDedup
import VoluteModel.Lemmas.Cmp
import VoluteModel.Lemmas.CanonMain

/-!
# C07 - bdd_complexity counts the distinct normalised sub-functions per level

The shared complement-edge ROBDD with variable n-1 at the root has, at level v, one node per
distinct sub-function of the variables 0..v that is obtained from a listed function by fixing the
variables above v, is normalised (complemented when its value on the all-zero assignment is 1),
depends on x_v and is not the literal x_v.  This file proves that `level_complexity` /
`large_level_complexity` count exactly those - as the length of a duplicate-free list whose
members are characterised bit by bit - and derives the invariances the property states.
The identification of this count with the node count of an explicitly constructed ROBDD
datatype is the textbook canonicity theorem; it is exercised by the independent ROBDD oracle on
the real code (TARGET for a Lean proof).
-/

namespace VoluteModel.Props.C07
open VoluteModel

/-! ## small levels (1..5): sub-tables inside one word -/

/-- normalisation of a chunk: complement when the all-zero assignment gives 1, keep `shift` bits -/
def normChunk (mask c : W) : W := (if c &&& 1#64 != 0#64 then ~~~ c else c) &&& mask

/-- one normalised chunk, dropped when it is the constant -/
def chunkOpt (mask c : W) : Option W :=
  if normChunk mask c != 0#64 then some (normChunk mask c) else none

/-- the chunks the loop pushes, in closed form -/
def chunkList (shift : Nat) (mask : W) (iters : Nat) (c : W) : List W :=
  (List.range iters).filterMap (fun i => chunkOpt mask (c >>> (i * shift)))

theorem chunkOpt_list (mask c : W) :
    (if (if c &&& 1#64 != 0#64 then ~~~ c else c) &&& mask != 0#64
      then [(if c &&& 1#64 != 0#64 then ~~~ c else c) &&& mask] else []) = (chunkOpt mask c).toList := by
  unfold chunkOpt normChunk
  split <;> (split <;> rfl)

theorem chunkList_succ (shift : Nat) (mask : W) (k : Nat) (c : W) :
    chunkList shift mask (k + 1) c = (chunkOpt mask c).toList ++ chunkList shift mask k (c >>> shift) := by
  unfold chunkList
  rw [List.range_succ_eq_map, List.filterMap_cons, List.filterMap_map]
  have hf : ((fun i => chunkOpt mask (c >>> (i * shift))) ∘ Nat.succ) =
      (fun i => chunkOpt mask ((c >>> shift) >>> (i * shift))) := by
    funext i
    simp only [Function.comp]
    rw [← BitVec.shiftRight_add]
    congr 2
    rw [Nat.succ_mul, Nat.add_comm]
  rw [hf]
  simp only [Nat.zero_mul, BitVec.ushiftRight_zero]
  cases chunkOpt mask c <;> rfl

theorem levelChunks_eq (level shift : Nat) (mask : W) (h5 : level < 5) (iters : Nat) (c : W) :
    levelChunks level shift mask iters c = chunkList shift mask iters c := by
  induction iters generalizing c with
  | zero => rfl
  | succ k ih =>
    rw [chunkList_succ]
    simp only [levelChunks, h5, if_true]
    rw [ih, chunkOpt_list]

theorem levelChunks_eq5 (shift : Nat) (mask : W) (c : W) :
    levelChunks 5 shift mask 1 c = chunkList shift mask 1 c := by
  rw [chunkList_succ]
  simp only [levelChunks]
  rw [chunkOpt_list]
  rfl

/-- the members of the list counted at a small level -/
def KeptSmall (t : Array W) (level : Nat) (x : W) : Prop :=
  ∃ w ∈ t.toList, ∃ j, j < (64 + 2 ^ (level + 1) - 1) / 2 ^ (level + 1) ∧
    x = normChunk (~~~ 0#64 >>> (64 - 2 ^ (level + 1))) (w >>> (j * 2 ^ (level + 1))) ∧ x ≠ 0#64 ∧
    levelKeep level x = true

theorem w_le_total (a b : W) : (decide (a.toNat ≤ b.toNat) || decide (b.toNat ≤ a.toNat)) = true := by
  rcases Nat.le_total a.toNat b.toNat with h | h <;> simp [h]

/-- `level_complexity` is the number of distinct kept normalised chunks -/
theorem level_spec (t : Array W) (level : Nat) (h1 : 1 ≤ level) (h5 : level ≤ 5) :
    ∃ L : List W, L.Nodup ∧ (∀ x, x ∈ L ↔ KeptSmall t level x) ∧ levelComplexity t level = some L.length := by
  have hlv : level < 6 ∧ level ≥ 1 := ⟨by omega, h1⟩
  have hnot : ¬ ¬ (level < 6 ∧ level ≥ 1) := by simp [hlv]
  unfold levelComplexity
  simp only [hnot, if_false, Nat.shiftLeft_eq, Nat.one_mul]
  obtain ⟨hn, hm⟩ := sort_dedup_spec (fun (a b : W) => decide (a.toNat ≤ b.toNat))
    (by intro a b c h1 h2; simp only [decide_eq_true_eq] at *; omega)
    w_le_total
    (by intro a b h1 h2; simp only [decide_eq_true_eq] at *; exact BitVec.eq_of_toNat_eq (by omega))
    ((t.toList.flatMap (levelChunks level (2 ^ (level + 1)) (~~~ 0#64 >>> (64 - 2 ^ (level + 1)))
        ((64 + 2 ^ (level + 1) - 1) / 2 ^ (level + 1)))).filter (levelKeep level))
  refine ⟨_, hn, ?_, rfl⟩
  intro x
  rw [hm x, List.mem_filter, List.mem_flatMap]
  have hch : ∀ w, levelChunks level (2 ^ (level + 1)) (~~~ 0#64 >>> (64 - 2 ^ (level + 1)))
      ((64 + 2 ^ (level + 1) - 1) / 2 ^ (level + 1)) w =
      chunkList (2 ^ (level + 1)) (~~~ 0#64 >>> (64 - 2 ^ (level + 1))) ((64 + 2 ^ (level + 1) - 1) / 2 ^ (level + 1)) w := by
    intro w
    by_cases h : level < 5
    · exact levelChunks_eq level _ _ h _ w
    · have : level = 5 := by omega
      subst this
      exact levelChunks_eq5 _ _ w
  unfold KeptSmall
  constructor
  · rintro ⟨⟨w, hw, hx⟩, hk⟩
    rw [hch w] at hx
    unfold chunkList at hx
    rw [List.mem_filterMap] at hx
    obtain ⟨j, hj, hjx⟩ := hx
    unfold chunkOpt at hjx
    split at hjx
    · rename_i hne
      cases hjx
      exact ⟨w, hw, j, by simpa using hj, rfl, by simpa using hne, hk⟩
    · cases hjx
  · rintro ⟨w, hw, j, hj, rfl, hne, hk⟩
    refine ⟨⟨w, hw, ?_⟩, hk⟩
    rw [hch w]
    unfold chunkList
    rw [List.mem_filterMap]
    refine ⟨j, by simpa using hj, ?_⟩
    unfold chunkOpt
    have : (normChunk (~~~ 0#64 >>> (64 - 2 ^ (level + 1))) (w >>> (j * 2 ^ (level + 1))) != 0#64) = true := by
      simpa using hne
    rw [if_pos this]

/-! ## what the normalised chunk and the filter mean, bit by bit -/

theorem and_one_ne' (x : W) : (x &&& 1#64 != 0#64) = x.getLsbD 0 := by
  have h : (x &&& 1#64) = if x.getLsbD 0 then 1#64 else 0#64 := by
    apply BitVec.eq_of_getLsbD_eq
    intro k hk
    rw [BitVec.getLsbD_and]
    cases k with
    | zero => cases hb : x.getLsbD 0 <;> simp [hb]
    | succ k =>
      have : (1#64).getLsbD (k + 1) = false := by simp [BitVec.getLsbD_one]
      rw [this]
      cases hb : x.getLsbD 0 <;> simp [this]
  rw [h]
  cases x.getLsbD 0 <;> decide

/-- mask of the low `s` bits (s = 2^(level+1) <= 64) -/
theorem lowmask_bit (s : Nat) (hs1 : 1 ≤ s) (hs : s ≤ 64) (b : Nat) (hb : b < 64) :
    (~~~ 0#64 >>> (64 - s)).getLsbD b = decide (b < s) := by
  rw [BitVec.getLsbD_ushiftRight, BitVec.not_zero, BitVec.getLsbD_allOnes]
  by_cases h : b < s
  · have : 64 - s + b < 64 := by omega
    simp [h, this]
  · have : ¬ (64 - s + b < 64) := by omega
    simp [h, this]

/-- bit b of the normalised chunk j of word w: the sub-function value at b, complemented when the
    sub-function is 1 on the all-zero assignment; nothing beyond the chunk -/
theorem normChunk_bit (s : Nat) (hs1 : 1 ≤ s) (hs : s ≤ 64) (w : W) (off b : Nat) (hb : b < 64) :
    (normChunk (~~~ 0#64 >>> (64 - s)) (w >>> off)).getLsbD b =
      (decide (b < s) && (w.getLsbD (off + b) != w.getLsbD off)) := by
  unfold normChunk
  rw [and_one_ne', BitVec.getLsbD_and, lowmask_bit s hs1 hs b hb, BitVec.getLsbD_ushiftRight, Nat.add_zero]
  cases h0 : w.getLsbD off
  · simp [BitVec.getLsbD_ushiftRight, Bool.and_comm]
  · simp only [if_true, BitVec.getLsbD_not, hb, decide_true, Bool.true_and, BitVec.getLsbD_ushiftRight]
    cases w.getLsbD (off + b) <;> cases decide (b < s) <;> rfl

/-- the filter keeps exactly the chunks whose two halves differ (the sub-function depends on
    x_level) and that are not the literal x_level (low half all 0 and high half all 1, or the
    complement), for chunks with no bit at or above 2^(level+1) -/
theorem levelKeep_iff (level : Nat) (h5 : level ≤ 5) (x : W)
    (hx : ∀ b, b < 64 → 2 ^ (level + 1) ≤ b → x.getLsbD b = false) :
    levelKeep level x = true ↔
      (∃ b, b < 2 ^ level ∧ x.getLsbD b ≠ x.getLsbD (b + 2 ^ level)) ∧
      ¬ ((∀ b, b < 2 ^ level → x.getLsbD b = (!x.getLsbD (b + 2 ^ level))) ∧
         ((∀ b, b < 2 ^ level → x.getLsbD b = false) ∨ (∀ b, b < 2 ^ level → x.getLsbD (b + 2 ^ level) = false))) := by
  have hp : 2 ^ level ≤ 32 := by
    have : 2 ^ level ≤ 2 ^ 5 := Nat.pow_le_pow_right (by omega) h5
    omega
  have hpos : 1 ≤ 2 ^ level := Nat.two_pow_pos level
  have e2 : 2 ^ (level + 1) = 2 * 2 ^ level := by rw [Nat.pow_succ]; omega
  -- bits of the two halves
  have hl : ∀ b, b < 64 → (x &&& (~~~ 0#64 >>> (64 - 2 ^ level))).getLsbD b = (decide (b < 2 ^ level) && x.getLsbD b) := by
    intro b hb
    rw [BitVec.getLsbD_and, lowmask_bit (2 ^ level) hpos (by omega) b hb, Bool.and_comm]
  have hh : ∀ b, b < 64 → (x >>> 2 ^ level).getLsbD b = (decide (b < 2 ^ level) && x.getLsbD (b + 2 ^ level)) := by
    intro b hb
    rw [BitVec.getLsbD_ushiftRight, Nat.add_comm]
    by_cases hlt : b < 2 ^ level
    · simp [hlt]
    · simp only [hlt, decide_false, Bool.false_and]
      by_cases h64 : b + 2 ^ level < 64
      · exact hx _ h64 (by omega)
      · exact BitVec.getLsbD_of_ge _ _ (by omega)
  have eqiff : ∀ (a c : W), (∀ b, b < 64 → a.getLsbD b = (decide (b < 2 ^ level) && a.getLsbD b)) →
      (∀ b, b < 64 → c.getLsbD b = (decide (b < 2 ^ level) && c.getLsbD b)) →
      (a = c ↔ ∀ b, b < 2 ^ level → a.getLsbD b = c.getLsbD b) := by
    intro a c ha hc
    constructor
    · intro h b _; rw [h]
    · intro h
      apply BitVec.eq_of_getLsbD_eq
      intro b hb
      by_cases hlt : b < 2 ^ level
      · exact h b hlt
      · rw [ha b hb, hc b hb]; simp [hlt]
  unfold levelKeep
  simp only [Nat.shiftLeft_eq, Nat.one_mul]
  generalize x &&& (~~~ 0#64 >>> (64 - 2 ^ level)) = l at hl ⊢
  generalize x >>> 2 ^ level = h at hh ⊢
  have lself : ∀ b, b < 64 → l.getLsbD b = (decide (b < 2 ^ level) && l.getLsbD b) := by
    intro b hb; rw [hl b hb]; cases decide (b < 2 ^ level) <;> simp
  have hself : ∀ b, b < 64 → h.getLsbD b = (decide (b < 2 ^ level) && h.getLsbD b) := by
    intro b hb; rw [hh b hb]; cases decide (b < 2 ^ level) <;> simp
  have lbit : ∀ b, b < 2 ^ level → l.getLsbD b = x.getLsbD b := by
    intro b hb; rw [hl b (by omega)]; simp [hb]
  have hbit : ∀ b, b < 2 ^ level → h.getLsbD b = x.getLsbD (b + 2 ^ level) := by
    intro b hb; rw [hh b (by omega)]; simp [hb]
  have e_lh : l = h ↔ ∀ b, b < 2 ^ level → x.getLsbD b = x.getLsbD (b + 2 ^ level) := by
    rw [eqiff l h lself hself]
    constructor
    · intro hq b hb; rw [← lbit b hb, ← hbit b hb]; exact hq b hb
    · intro hq b hb; rw [lbit b hb, hbit b hb]; exact hq b hb
  have nself : ∀ b, b < 64 → (~~~ h &&& (~~~ 0#64 >>> (64 - 2 ^ level))).getLsbD b =
      (decide (b < 2 ^ level) && (~~~ h &&& (~~~ 0#64 >>> (64 - 2 ^ level))).getLsbD b) := by
    intro b hb
    rw [BitVec.getLsbD_and, lowmask_bit (2 ^ level) hpos (by omega) b hb]
    cases decide (b < 2 ^ level) <;> simp
  have e_opp : l = (~~~ h &&& (~~~ 0#64 >>> (64 - 2 ^ level))) ↔
      ∀ b, b < 2 ^ level → x.getLsbD b = (!x.getLsbD (b + 2 ^ level)) := by
    rw [eqiff l _ lself nself]
    constructor
    · intro hq b hb
      have := hq b hb
      rw [lbit b hb, BitVec.getLsbD_and, BitVec.getLsbD_not, lowmask_bit (2 ^ level) hpos (by omega) b (by omega),
        hbit b hb] at this
      simpa [hb, show b < 64 by omega] using this
    · intro hq b hb
      rw [lbit b hb, BitVec.getLsbD_and, BitVec.getLsbD_not, lowmask_bit (2 ^ level) hpos (by omega) b (by omega),
        hbit b hb, hq b hb]
      simp [hb, show b < 64 by omega]
  have zl : l = 0#64 ↔ ∀ b, b < 2 ^ level → x.getLsbD b = false := by
    have z0 : ∀ b, b < 64 → (0#64 : W).getLsbD b = (decide (b < 2 ^ level) && (0#64 : W).getLsbD b) := by
      intro b _; simp
    rw [eqiff l 0#64 lself z0]
    constructor
    · intro hq b hb; rw [← lbit b hb, hq b hb]; simp
    · intro hq b hb; rw [lbit b hb, hq b hb]; simp
  have zh : h = 0#64 ↔ ∀ b, b < 2 ^ level → x.getLsbD (b + 2 ^ level) = false := by
    have z0 : ∀ b, b < 64 → (0#64 : W).getLsbD b = (decide (b < 2 ^ level) && (0#64 : W).getLsbD b) := by
      intro b _; simp
    rw [eqiff h 0#64 hself z0]
    constructor
    · intro hq b hb; rw [← hbit b hb, hq b hb]; simp
    · intro hq b hb; rw [hbit b hb, hq b hb]; simp
  by_cases c1 : l = h
  · have : (l == h) = true := by simp [c1]
    simp only [this, if_true, Bool.false_eq_true, false_iff]
    rintro ⟨⟨b, hb, hne⟩, _⟩
    exact hne (e_lh.mp c1 b hb)
  · have hc1 : (l == h) = false := by simp [c1]
    simp only [hc1, Bool.false_eq_true, if_false]
    have hdep : ∃ b, b < 2 ^ level ∧ x.getLsbD b ≠ x.getLsbD (b + 2 ^ level) := by
      by_cases hex : ∃ b, b < 2 ^ level ∧ x.getLsbD b ≠ x.getLsbD (b + 2 ^ level)
      · exact hex
      · exfalso; apply c1; rw [e_lh]
        intro b hb
        by_cases he : x.getLsbD b = x.getLsbD (b + 2 ^ level)
        · exact he
        · exact absurd ⟨b, hb, he⟩ hex
    by_cases c2 : l = (~~~ h &&& (~~~ 0#64 >>> (64 - 2 ^ level)))
    · by_cases c3 : l = 0#64 ∨ h = 0#64
      · have hb2 : (l == ~~~ h &&& (~~~ 0#64 >>> (64 - 2 ^ level)) && (l == 0#64 || h == 0#64)) = true := by
          have e1 : (l == ~~~ h &&& (~~~ 0#64 >>> (64 - 2 ^ level))) = true := by rw [beq_iff_eq]; exact c2
          have e2 : (l == 0#64 || h == 0#64) = true := by
            rw [Bool.or_eq_true]
            rcases c3 with c3 | c3
            · left; rw [beq_iff_eq]; exact c3
            · right; rw [beq_iff_eq]; exact c3
          rw [e1, e2]; rfl
        simp only [hb2, if_true, Bool.false_eq_true, false_iff]
        rintro ⟨_, hnl⟩
        apply hnl
        refine ⟨e_opp.mp c2, ?_⟩
        rcases c3 with c3 | c3
        · exact Or.inl (zl.mp c3)
        · exact Or.inr (zh.mp c3)
      · have hb2 : (l == ~~~ h &&& (~~~ 0#64 >>> (64 - 2 ^ level)) && (l == 0#64 || h == 0#64)) = false := by
          have n1 : ¬ l = 0#64 := fun e => c3 (Or.inl e)
          have n2 : ¬ h = 0#64 := fun e => c3 (Or.inr e)
          have e2 : (l == 0#64 || h == 0#64) = false := by
            rw [Bool.or_eq_false_iff]
            exact ⟨beq_false_of_ne n1, beq_false_of_ne n2⟩
          rw [e2, Bool.and_false]
        simp only [hb2, Bool.false_eq_true, if_false, true_iff]
        refine ⟨hdep, ?_⟩
        rintro ⟨_, hz⟩
        rcases hz with hz | hz
        · exact c3 (Or.inl (zl.mpr hz))
        · exact c3 (Or.inr (zh.mpr hz))
    · have hb2 : (l == ~~~ h &&& (~~~ 0#64 >>> (64 - 2 ^ level)) && (l == 0#64 || h == 0#64)) = false := by
        rw [beq_false_of_ne c2, Bool.false_and]
      simp only [hb2, Bool.false_eq_true, if_false, true_iff]
      refine ⟨hdep, ?_⟩
      rintro ⟨hopp, _⟩
      exact c2 (e_opp.mpr hopp)

/-! ## invariances: the count depends only on the set of kept chunks -/

theorem nodup_length_unique {α : Type} (L1 L2 : List α) (h1 : L1.Nodup) (h2 : L2.Nodup)
    (h : ∀ x, x ∈ L1 ↔ x ∈ L2) : L1.length = L2.length :=
  ((List.perm_ext_iff_of_nodup h1 h2).mpr h).length_eq

/-- order of the list and duplicates do not matter at small levels: tables with the same set of
    words give the same count -/
theorem level_invariant (t1 t2 : Array W) (level : Nat) (h1 : 1 ≤ level) (h5 : level ≤ 5)
    (hw : ∀ w, w ∈ t1.toList ↔ w ∈ t2.toList) : levelComplexity t1 level = levelComplexity t2 level := by
  obtain ⟨L1, n1, m1, e1⟩ := level_spec t1 level h1 h5
  obtain ⟨L2, n2, m2, e2⟩ := level_spec t2 level h1 h5
  rw [e1, e2]
  congr 1
  apply nodup_length_unique L1 L2 n1 n2
  intro x
  rw [m1, m2]
  unfold KeptSmall
  constructor
  · rintro ⟨w, hw1, rest⟩; exact ⟨w, (hw w).mp hw1, rest⟩
  · rintro ⟨w, hw2, rest⟩; exact ⟨w, (hw w).mpr hw2, rest⟩

/-- complementing a full word does not change its normalised chunks (levels below 5 words of
    6 or more variables: the chunk is complemented, its normal form is the same) -/
theorem normChunk_compl (s : Nat) (hs1 : 1 ≤ s) (hs : s ≤ 64) (w : W) (off : Nat) (hoff : off + s ≤ 64) :
    normChunk (~~~ 0#64 >>> (64 - s)) ((~~~ w) >>> off) = normChunk (~~~ 0#64 >>> (64 - s)) (w >>> off) := by
  apply BitVec.eq_of_getLsbD_eq
  intro b hb
  rw [normChunk_bit s hs1 hs _ off b hb, normChunk_bit s hs1 hs w off b hb]
  by_cases hlt : b < s
  · have h1 : off + b < 64 := by omega
    have h2 : off < 64 := by omega
    simp only [hlt, decide_true, Bool.true_and, BitVec.getLsbD_not, h1, h2]
    cases w.getLsbD (off + b) <;> cases w.getLsbD off <;> rfl
  · simp [hlt]

/-! ## large levels (6 and above): sub-tables of whole words -/

theorem lexCmp_swap : ∀ (a b : List W), lexCmp b a = (lexCmp a b).swap
  | [], [] => rfl
  | [], _ :: _ => rfl
  | _ :: _, [] => rfl
  | a :: as, b :: bs => by
    simp only [lexCmp]
    rw [Nat.compare_swap a.toNat b.toNat |>.symm]
    cases h : compare a.toNat b.toNat
    · rfl
    · simp only [Ordering.swap]; exact lexCmp_swap as bs
    · rfl

theorem lexCmp_eq : ∀ (a b : List W), lexCmp a b = .eq → a = b
  | [], [], _ => rfl
  | [], _ :: _, h => by cases h
  | _ :: _, [], h => by cases h
  | a :: as, b :: bs, h => by
    simp only [lexCmp] at h
    cases hc : compare a.toNat b.toNat
    · rw [hc] at h; cases h
    · rw [hc] at h
      have : a = b := BitVec.eq_of_toNat_eq (Nat.compare_eq_eq.mp hc)
      rw [this, lexCmp_eq as bs h]
    · rw [hc] at h; cases h

theorem vecLe_total (a b : List W) : (vecLe a b || vecLe b a) = true := by
  unfold vecLe
  rw [lexCmp_swap a b]
  cases lexCmp a b <;> rfl

theorem vecLe_antisymm (a b : List W) (h1 : vecLe a b = true) (h2 : vecLe b a = true) : a = b := by
  unfold vecLe at h1 h2
  rw [lexCmp_swap a b] at h2
  apply lexCmp_eq
  cases h : lexCmp a b
  · rw [h] at h2; cases h2
  · rfl
  · rw [h] at h1; cases h1

theorem vecLe_trans (a b c : List W) (h1 : vecLe a b = true) (h2 : vecLe b c = true) : vecLe a c = true := by
  unfold vecLe at *
  cases hab : lexCmp a b
  · cases hbc : lexCmp b c
    · rw [lexCmp_lt_trans a b c hab hbc]; rfl
    · rw [← lexCmp_eq b c hbc, hab]; rfl
    · rw [hbc] at h2; cases h2
  · rw [lexCmp_eq a b hab]; exact h2
  · rw [hab] at h1; cases h1

/-- the consecutive groups of `nb` words, in closed form -/
def grp (nb : Nat) (l : List W) : List (List W) :=
  (List.range (l.length / nb)).map (fun g => (l.drop (g * nb)).take nb)

theorem grp_step (nb : Nat) (hnb : 0 < nb) (l : List W) (hl : nb ≤ l.length) :
    grp nb l = l.take nb :: grp nb (l.drop nb) := by
  unfold grp
  have hq : l.length / nb = (l.length - nb) / nb + 1 := by
    have : l.length = (l.length - nb) + nb := by omega
    conv => lhs; rw [this]
    exact Nat.add_div_right _ hnb
  rw [List.length_drop, hq, List.range_succ_eq_map, List.map_cons, List.map_map]
  simp only [Nat.zero_mul, List.drop_zero]
  congr 1
  apply List.map_congr_left
  intro g _
  simp only [Function.comp, List.drop_drop]
  congr 2
  rw [Nat.succ_mul]
  omega

theorem wordGroups_eq (nb : Nat) (hnb : 0 < nb) (fuel : Nat) (l : List W) (hd : nb ∣ l.length)
    (hf : l.length ≤ fuel) : wordGroups nb fuel l = some (grp nb l) := by
  induction fuel generalizing l with
  | zero =>
    have : l = [] := List.eq_nil_of_length_eq_zero (by omega)
    subst this
    simp [wordGroups, grp]
  | succ fuel ih =>
    unfold wordGroups
    by_cases he : l.isEmpty = true
    · have : l = [] := by simpa using he
      subst this
      simp [grp]
    · have hne : l ≠ [] := by simpa using he
      have hpos : 0 < l.length := List.length_pos_iff.mpr hne
      have hge : nb ≤ l.length := Nat.le_of_dvd hpos hd
      have hnlt : ¬ l.length < nb := by omega
      simp only [he, Bool.false_eq_true, if_false, hnlt]
      rw [ih (l.drop nb) (by rw [List.length_drop]; exact Nat.dvd_sub hd (Nat.dvd_refl nb))
        (by rw [List.length_drop]; omega)]
      rw [Option.map_some, grp_step nb hnb l hge]

/-- normalisation of a group of words: complement when the all-zero assignment gives 1 -/
def normGroup (c : List W) : List W := if (c.headD 0) &&& 1#64 != 0#64 then c.map (~~~ ·) else c

/-- one normalised group, dropped when it is the constant -/
def groupOpt (c : List W) : Option (List W) :=
  if (normGroup c).any (· != 0#64) then some (normGroup c) else none

/-- the members of the list counted at a large level -/
def KeptLarge (t : Array W) (level : Nat) (x : List W) : Prop :=
  ∃ c, c ∈ grp (2 ^ (level - 5)) t.toList ∧ x = normGroup c ∧
    x.any (· != 0#64) = true ∧ largeKeep (2 ^ (level - 6)) x = true

/-- group g of the table is words g*nb .. g*nb+nb-1 -/
theorem mem_grp (nb : Nat) (l : List W) (c : List W) :
    c ∈ grp nb l ↔ ∃ g, g < l.length / nb ∧ c = (l.drop (g * nb)).take nb := by
  unfold grp
  rw [List.mem_map]
  constructor
  · rintro ⟨g, hg, rfl⟩; exact ⟨g, by simpa using hg, rfl⟩
  · rintro ⟨g, hg, rfl⟩; exact ⟨g, by simpa using hg, rfl⟩

/-- `large_level_complexity` is the number of distinct kept normalised groups -/
theorem large_spec (t : Array W) (level : Nat) (h6 : 6 ≤ level) (hd : 2 ^ (level - 5) ∣ t.size) :
    ∃ L : List (List W), L.Nodup ∧ (∀ x, x ∈ L ↔ KeptLarge t level x) ∧
      largeLevelComplexity t level = some L.length := by
  unfold largeLevelComplexity
  have hnot : ¬ ¬ level ≥ 6 := by omega
  simp only [hnot, if_false, Nat.shiftLeft_eq, Nat.one_mul]
  rw [wordGroups_eq (2 ^ (level - 5)) (Nat.two_pow_pos _) t.size t.toList (by simpa using hd) (by simp)]
  simp only []
  have hfun : (fun (c : List W) =>
        if (if (c.headD 0) &&& 1#64 != 0#64 then c.map (~~~ ·) else c).any (· != 0#64)
          then some (if (c.headD 0) &&& 1#64 != 0#64 then c.map (~~~ ·) else c) else none) = groupOpt := rfl
  rw [hfun]
  obtain ⟨hn, hm⟩ := sort_dedup_spec vecLe vecLe_trans vecLe_total vecLe_antisymm
    (((grp (2 ^ (level - 5)) t.toList).filterMap groupOpt).filter (largeKeep (2 ^ (level - 6))))
  refine ⟨_, hn, ?_, rfl⟩
  intro x
  rw [hm x, List.mem_filter, List.mem_filterMap]
  unfold KeptLarge
  constructor
  · rintro ⟨⟨c, hc, hx⟩, hk⟩
    unfold groupOpt at hx
    by_cases hany : (normGroup c).any (· != 0#64) = true
    · rw [if_pos hany] at hx
      cases hx
      exact ⟨c, hc, rfl, hany, hk⟩
    · rw [if_neg hany] at hx
      cases hx
  · rintro ⟨c, hc, rfl, hany, hk⟩
    refine ⟨⟨c, hc, ?_⟩, hk⟩
    unfold groupOpt
    rw [if_pos hany]

/-- what the large filter means: the two halves differ, and the group is not the literal -/
theorem largeKeep_iff (midNb : Nat) (c : List W) :
    largeKeep midNb c = true ↔
      c.take midNb ≠ c.drop midNb ∧
      ¬ (((List.zip (c.take midNb) (c.drop midNb)).all (fun p => p.1 == ~~~ p.2)) = true ∧
         (((c.take midNb).all (· == 0#64)) = true ∨ ((c.drop midNb).all (· == 0#64)) = true)) := by
  unfold largeKeep
  simp only []
  by_cases h1 : c.take midNb = c.drop midNb
  · simp [h1]
  · have : (c.take midNb == c.drop midNb) = false := beq_false_of_ne h1
    simp only [this, Bool.false_eq_true, if_false, ne_eq, h1, not_false_eq_true, true_and]
    cases (List.zip (c.take midNb) (c.drop midNb)).all (fun p => p.1 == ~~~ p.2) <;>
      cases (c.take midNb).all (· == 0#64) <;> cases (c.drop midNb).all (· == 0#64) <;> simp

/-- tables with the same set of groups give the same count at a large level -/
theorem large_invariant (t1 t2 : Array W) (level : Nat) (h6 : 6 ≤ level)
    (hd1 : 2 ^ (level - 5) ∣ t1.size) (hd2 : 2 ^ (level - 5) ∣ t2.size)
    (hg : ∀ c, c ∈ grp (2 ^ (level - 5)) t1.toList ↔ c ∈ grp (2 ^ (level - 5)) t2.toList) :
    largeLevelComplexity t1 level = largeLevelComplexity t2 level := by
  obtain ⟨L1, n1, m1, e1⟩ := large_spec t1 level h6 hd1
  obtain ⟨L2, n2, m2, e2⟩ := large_spec t2 level h6 hd2
  rw [e1, e2]
  congr 1
  apply nodup_length_unique L1 L2 n1 n2
  intro x
  rw [m1, m2]
  unfold KeptLarge
  constructor
  · rintro ⟨c, hc, rest⟩; exact ⟨c, (hg c).mp hc, rest⟩
  · rintro ⟨c, hc, rest⟩; exact ⟨c, (hg c).mpr hc, rest⟩

theorem grp_nil (nb : Nat) : grp nb [] = [] := by simp [grp]

theorem grp_append (nb : Nat) (hnb : 0 < nb) (k : Nat) (a b : List W) (ha : a.length = k * nb) :
    grp nb (a ++ b) = grp nb a ++ grp nb b := by
  induction k generalizing a with
  | zero =>
    have : a = [] := List.eq_nil_of_length_eq_zero (by simpa using ha)
    subst this
    simp [grp_nil]
  | succ k ih =>
    have hge : nb ≤ a.length := by rw [ha, Nat.succ_mul]; omega
    rw [grp_step nb hnb (a ++ b) (by rw [List.length_append]; omega), grp_step nb hnb a hge,
      List.take_append_of_le_length hge, List.drop_append_of_le_length hge,
      ih (a.drop nb) (by rw [List.length_drop, ha, Nat.succ_mul]; omega)]
    rfl

/-- the groups of a concatenation of tables are the groups of the tables -/
theorem grp_flatMap (nb : Nat) (hnb : 0 < nb) (ts : List (List W)) (h : ∀ t ∈ ts, nb ∣ t.length) :
    grp nb (ts.flatMap id) = ts.flatMap (grp nb) := by
  induction ts with
  | nil => simp [grp_nil]
  | cons t ts ih =>
    obtain ⟨k, hk⟩ := h t (by simp)
    rw [List.flatMap_cons, List.flatMap_cons, id,
      grp_append nb hnb k t _ (by rw [hk, Nat.mul_comm]), ih (fun t' ht' => h t' (by simp [ht']))]

/-! ## the whole table: the sum over the levels 1 .. n-1 -/

/-- one step of the two sums of `table_complexity` -/
def stepWith (f : Nat → Option Nat) : Option Nat → Nat → Option Nat :=
  fun acc level => match acc, f level with
    | some a, some b => some (a + b)
    | _, _ => none

theorem tableComplexity_eq (n : Nat) (t : Array W) :
    tableComplexity n t =
      (List.range' 6 (n - 6)).foldl (stepWith (largeLevelComplexity t))
        ((List.range' 1 (min n 6 - 1)).foldl (stepWith (levelComplexity t)) (some 0)) := rfl

theorem fold_optAdd (f : Nat → Option Nat) (g : Nat → Nat) (ls : List Nat) (a : Nat)
    (h : ∀ l ∈ ls, f l = some (g l)) :
    ls.foldl (stepWith f) (some a) = some (a + (ls.map g).sum) := by
  induction ls generalizing a with
  | nil => simp
  | cons l ls ih =>
    rw [List.foldl_cons]
    have : stepWith f (some a) l = some (a + g l) := by
      unfold stepWith; rw [h l (by simp)]
    rw [this, ih (a + g l) (fun l' hl' => h l' (by simp [hl']))]
    simp only [List.map_cons, List.sum_cons, Nat.add_assoc]

theorem fold_optAdd_congr (f1 f2 : Nat → Option Nat) (ls : List Nat) (a : Option Nat)
    (h : ∀ l ∈ ls, f1 l = f2 l) :
    ls.foldl (stepWith f1) a = ls.foldl (stepWith f2) a := by
  induction ls generalizing a with
  | nil => rfl
  | cons l ls ih =>
    rw [List.foldl_cons, List.foldl_cons]
    have : stepWith f1 a l = stepWith f2 a l := by
      unfold stepWith; rw [h l (by simp)]
    rw [this]
    exact ih _ (fun l' hl' => h l' (by simp [hl']))

/-- `table_complexity` on the concatenation of k tables of n variables: never panics, and is the
    sum over the levels 1..n-1 of the number of distinct kept normalised sub-tables -/
theorem table_spec (n : Nat) (t : Array W) (k : Nat) (hs : t.size = k * tableSize n) :
    ∃ cnt : Nat → Nat,
      tableComplexity n t = some (((List.range' 1 (min n 6 - 1)).map cnt).sum + ((List.range' 6 (n - 6)).map cnt).sum) ∧
      (∀ level, 1 ≤ level → level < n → level ≤ 5 →
        ∃ L : List W, L.Nodup ∧ (∀ x, x ∈ L ↔ KeptSmall t level x) ∧ L.length = cnt level) ∧
      (∀ level, 6 ≤ level → level < n →
        ∃ L : List (List W), L.Nodup ∧ (∀ x, x ∈ L ↔ KeptLarge t level x) ∧ L.length = cnt level) := by
  have hdiv : ∀ level, 6 ≤ level → level < n → 2 ^ (level - 5) ∣ t.size := by
    intro level h6 hn
    rw [hs, tableSize_ge6 (by omega)]
    exact Nat.dvd_trans (Nat.pow_dvd_pow 2 (by omega)) (Nat.dvd_mul_left _ _)
  let cnt : Nat → Nat := fun level =>
    if level ≤ 5 then (levelComplexity t level).getD 0 else (largeLevelComplexity t level).getD 0
  have hsmall : ∀ level, 1 ≤ level → level ≤ 5 → levelComplexity t level = some (cnt level) := by
    intro level h1 h5
    obtain ⟨L, _, _, e⟩ := level_spec t level h1 h5
    simp only [cnt, h5, if_true, e, Option.getD_some]
  have hlarge : ∀ level, 6 ≤ level → level < n → largeLevelComplexity t level = some (cnt level) := by
    intro level h6 hn
    obtain ⟨L, _, _, e⟩ := large_spec t level h6 (hdiv level h6 hn)
    have : ¬ level ≤ 5 := by omega
    simp only [cnt, this, if_false, e, Option.getD_some]
  refine ⟨cnt, ?_, ?_, ?_⟩
  · rw [tableComplexity_eq]
    rw [fold_optAdd (levelComplexity t) cnt _ 0 (by
      intro l hl
      rw [List.mem_range'_1] at hl
      exact hsmall l hl.1 (by omega))]
    rw [fold_optAdd (largeLevelComplexity t) cnt _ _ (by
      intro l hl
      rw [List.mem_range'_1] at hl
      exact hlarge l hl.1 (by omega))]
    simp
  · intro level h1 _ h5
    obtain ⟨L, hn, hm, e⟩ := level_spec t level h1 h5
    refine ⟨L, hn, hm, ?_⟩
    have := hsmall level h1 h5
    rw [e] at this
    exact Option.some.inj this
  · intro level h6 hn
    obtain ⟨L, hnd, hm, e⟩ := large_spec t level h6 (hdiv level h6 hn)
    refine ⟨L, hnd, hm, ?_⟩
    have := hlarge level h6 hn
    rw [e] at this
    exact Option.some.inj this

/-- two concatenated tables with the same words and the same groups at every level give the same
    complexity -/
theorem table_invariant (n : Nat) (t1 t2 : Array W) (k1 k2 : Nat)
    (hs1 : t1.size = k1 * tableSize n) (hs2 : t2.size = k2 * tableSize n)
    (hw : ∀ w, w ∈ t1.toList ↔ w ∈ t2.toList)
    (hg : ∀ level, 6 ≤ level → level < n →
      ∀ c, c ∈ grp (2 ^ (level - 5)) t1.toList ↔ c ∈ grp (2 ^ (level - 5)) t2.toList) :
    tableComplexity n t1 = tableComplexity n t2 := by
  have hdiv : ∀ (t : Array W) (k : Nat), t.size = k * tableSize n →
      ∀ level, 6 ≤ level → level < n → 2 ^ (level - 5) ∣ t.size := by
    intro t k hs level h6 hn
    rw [hs, tableSize_ge6 (by omega)]
    exact Nat.dvd_trans (Nat.pow_dvd_pow 2 (by omega)) (Nat.dvd_mul_left _ _)
  rw [tableComplexity_eq, tableComplexity_eq]
  rw [fold_optAdd_congr (levelComplexity t1) (levelComplexity t2) _ _ (by
    intro l hl
    rw [List.mem_range'_1] at hl
    exact level_invariant t1 t2 l hl.1 (by omega) hw)]
  exact fold_optAdd_congr (largeLevelComplexity t1) (largeLevelComplexity t2) _ _ (by
    intro l hl
    rw [List.mem_range'_1] at hl
    exact large_invariant t1 t2 l hl.1 (hdiv t1 k1 hs1 l hl.1 (by omega)) (hdiv t2 k2 hs2 l hl.1 (by omega))
      (hg l hl.1 (by omega)))

/-! ## the API: `Lut::bdd_complexity`, `StaticLut::bdd_complexity` -/

theorem flat_size (n : Nat) (luts : List Lut) (h : ∀ l ∈ luts, l.t.size = tableSize n) :
    (luts.flatMap (fun l => l.t.toList)).length = luts.length * tableSize n := by
  induction luts with
  | nil => simp
  | cons l ls ih =>
    rw [List.flatMap_cons, List.length_append, ih (fun l' hl' => h l' (by simp [hl'])), List.length_cons,
      Array.length_toList, h l (by simp), Nat.succ_mul, Nat.add_comm]

theorem flat_groups (n : Nat) (luts : List Lut) (h : ∀ l ∈ luts, l.t.size = tableSize n)
    (level : Nat) (h6 : 6 ≤ level) (hn : level < n) (c : List W) :
    c ∈ grp (2 ^ (level - 5)) (luts.flatMap (fun l => l.t.toList)) ↔
      ∃ l ∈ luts, c ∈ grp (2 ^ (level - 5)) l.t.toList := by
  have e : luts.flatMap (fun l => l.t.toList) = (luts.map (fun l => l.t.toList)).flatMap id := by
    rw [List.flatMap_map]; rfl
  rw [e, grp_flatMap _ (Nat.two_pow_pos _), List.mem_flatMap]
  · constructor
    · rintro ⟨t, ht, hc⟩
      obtain ⟨l, hl, rfl⟩ := List.mem_map.mp ht
      exact ⟨l, hl, hc⟩
    · rintro ⟨l, hl, hc⟩
      exact ⟨_, List.mem_map.mpr ⟨l, hl, rfl⟩, hc⟩
  · intro t ht
    obtain ⟨l, hl, rfl⟩ := List.mem_map.mp ht
    rw [Array.length_toList, h l hl, tableSize_ge6 (by omega)]
    exact Nat.pow_dvd_pow 2 (by omega)

/-- `Lut::bdd_complexity` panics exactly when the numbers of variables differ -/
theorem dyn_panics_iff (l0 : Lut) (ls : List Lut) (h : ∀ l ∈ l0 :: ls, l.t.size = tableSize l.n) :
    Dyn.bddComplexity (l0 :: ls) = none ↔ ∃ l ∈ ls, l.n ≠ l0.n := by
  simp only [Dyn.bddComplexity]
  by_cases hall : (l0 :: ls).all (fun l => l.n == l0.n) = true
  · rw [if_pos hall]
    have hall' : ∀ l ∈ l0 :: ls, l.n = l0.n := by
      intro l hl
      have := List.all_eq_true.mp hall l hl
      simpa using this
    obtain ⟨cnt, e, _⟩ := table_spec l0.n ((l0 :: ls).flatMap (fun l => l.t.toList)).toArray (l0 :: ls).length
      (by rw [List.size_toArray, flat_size l0.n (l0 :: ls) (fun l hl => by rw [h l hl, hall' l hl])])
    rw [e]
    constructor
    · intro hc; cases hc
    · rintro ⟨l, hl, hne⟩
      exact absurd (hall' l (by simp [hl])) hne
  · rw [if_neg hall]
    simp only [true_iff]
    rw [List.all_eq_true] at hall
    have : ∃ l ∈ l0 :: ls, ¬ (l.n == l0.n) = true := by
      by_cases hex : ∃ l ∈ l0 :: ls, ¬ (l.n == l0.n) = true
      · exact hex
      · exfalso; apply hall
        intro l hl
        by_cases hq : (l.n == l0.n) = true
        · exact hq
        · exact absurd ⟨l, hl, hq⟩ hex
    obtain ⟨l, hl, hne⟩ := this
    rcases List.mem_cons.mp hl with rfl | hl'
    · simp at hne
    · exact ⟨l, hl', by simpa using hne⟩

/-- for functions of the same number of variables the static and dynamic entry points agree -/
theorem stat_eq_dyn (n : Nat) (l0 : Lut) (ls : List Lut) (hall : ∀ l ∈ l0 :: ls, l.n = n) :
    Stat.bddComplexity n (l0 :: ls) = Dyn.bddComplexity (l0 :: ls) := by
  simp only [Stat.bddComplexity, Dyn.bddComplexity]
  have h0 : l0.n = n := hall l0 (by simp)
  have : (l0 :: ls).all (fun l => l.n == l0.n) = true := by
    rw [List.all_eq_true]
    intro l hl
    rw [hall l hl, h0]
    simp
  rw [if_pos this, h0]

/-- the count depends only on the *set* of listed functions: order and duplicates do not matter -/
theorem stat_set_invariant (n : Nat) (A B : List Lut)
    (hA : ∀ l ∈ A, l.t.size = tableSize n) (hB : ∀ l ∈ B, l.t.size = tableSize n)
    (hset : ∀ l, l ∈ A ↔ l ∈ B) :
    Stat.bddComplexity n A = Stat.bddComplexity n B := by
  unfold Stat.bddComplexity
  apply table_invariant n _ _ A.length B.length
  · rw [List.size_toArray, flat_size n A hA]
  · rw [List.size_toArray, flat_size n B hB]
  · intro w
    simp only [List.mem_flatMap]
    constructor
    · rintro ⟨l, hl, hw⟩; exact ⟨l, (hset l).mp hl, hw⟩
    · rintro ⟨l, hl, hw⟩; exact ⟨l, (hset l).mpr hl, hw⟩
  · intro level h6 hn c
    show c ∈ grp _ (A.flatMap fun l => l.t.toList) ↔ c ∈ grp _ (B.flatMap fun l => l.t.toList)
    rw [flat_groups n A hA level h6 hn, flat_groups n B hB level h6 hn]
    constructor
    · rintro ⟨l, hl, hc⟩; exact ⟨l, (hset l).mp hl, hc⟩
    · rintro ⟨l, hl, hc⟩; exact ⟨l, (hset l).mpr hl, hc⟩

theorem dyn_perm_invariant (n : Nat) (A B : List Lut) (hp : A.Perm B)
    (hA : ∀ l ∈ A, l.n = n ∧ l.t.size = tableSize n) :
    Dyn.bddComplexity A = Dyn.bddComplexity B := by
  have hB : ∀ l ∈ B, l.n = n ∧ l.t.size = tableSize n := fun l hl => hA l (hp.mem_iff.mpr hl)
  match A, B, hp with
  | [], [], _ => rfl
  | [], _ :: _, hp => exact absurd hp.length_eq (by simp)
  | _ :: _, [], hp => exact absurd hp.length_eq (by simp)
  | a :: as, b :: bs, hp =>
    rw [← stat_eq_dyn n a as (fun l hl => (hA l hl).1), ← stat_eq_dyn n b bs (fun l hl => (hB l hl).1)]
    exact stat_set_invariant n _ _ (fun l hl => (hA l hl).2) (fun l hl => (hB l hl).2) (fun l => hp.mem_iff)

/-- listing a function twice changes nothing -/
theorem dyn_dup_invariant (n : Nat) (a : Lut) (A : List Lut) (ha : a ∈ A)
    (hA : ∀ l ∈ A, l.n = n ∧ l.t.size = tableSize n) :
    Dyn.bddComplexity (a :: A) = Dyn.bddComplexity A := by
  match A, ha, hA with
  | b :: bs, ha, hA =>
    have hA' : ∀ l ∈ a :: b :: bs, l.n = n ∧ l.t.size = tableSize n := by
      intro l hl
      rcases List.mem_cons.mp hl with rfl | hl
      · exact hA _ ha
      · exact hA l hl
    rw [← stat_eq_dyn n a (b :: bs) (fun l hl => (hA' l hl).1), ← stat_eq_dyn n b bs (fun l hl => (hA l hl).1)]
    apply stat_set_invariant n _ _ (fun l hl => (hA' l hl).2) (fun l hl => (hA l hl).2)
    intro l
    constructor
    · intro hl
      rcases List.mem_cons.mp hl with rfl | hl
      · exact ha
      · exact hl
    · intro hl; exact List.mem_cons_of_mem _ hl

/-! ## complement edges: complementing listed functions changes nothing -/

theorem level_invariant' (t1 t2 : Array W) (level : Nat) (h1 : 1 ≤ level) (h5 : level ≤ 5)
    (hk : ∀ x, KeptSmall t1 level x ↔ KeptSmall t2 level x) :
    levelComplexity t1 level = levelComplexity t2 level := by
  obtain ⟨L1, n1, m1, e1⟩ := level_spec t1 level h1 h5
  obtain ⟨L2, n2, m2, e2⟩ := level_spec t2 level h1 h5
  rw [e1, e2]
  congr 1
  apply nodup_length_unique L1 L2 n1 n2
  intro x
  rw [m1, m2]
  exact hk x

theorem large_invariant' (t1 t2 : Array W) (level : Nat) (h6 : 6 ≤ level)
    (hd1 : 2 ^ (level - 5) ∣ t1.size) (hd2 : 2 ^ (level - 5) ∣ t2.size)
    (hk : ∀ x, KeptLarge t1 level x ↔ KeptLarge t2 level x) :
    largeLevelComplexity t1 level = largeLevelComplexity t2 level := by
  obtain ⟨L1, n1, m1, e1⟩ := large_spec t1 level h6 hd1
  obtain ⟨L2, n2, m2, e2⟩ := large_spec t2 level h6 hd2
  rw [e1, e2]
  congr 1
  apply nodup_length_unique L1 L2 n1 n2
  intro x
  rw [m1, m2]
  exact hk x

theorem table_invariant' (n : Nat) (t1 t2 : Array W) (k1 k2 : Nat)
    (hs1 : t1.size = k1 * tableSize n) (hs2 : t2.size = k2 * tableSize n)
    (hsm : ∀ level, 1 ≤ level → level < n → level ≤ 5 → ∀ x, KeptSmall t1 level x ↔ KeptSmall t2 level x)
    (hlg : ∀ level, 6 ≤ level → level < n → ∀ x, KeptLarge t1 level x ↔ KeptLarge t2 level x) :
    tableComplexity n t1 = tableComplexity n t2 := by
  have hdiv : ∀ (t : Array W) (k : Nat), t.size = k * tableSize n →
      ∀ level, 6 ≤ level → level < n → 2 ^ (level - 5) ∣ t.size := by
    intro t k hs level h6 hn
    rw [hs, tableSize_ge6 (by omega)]
    exact Nat.dvd_trans (Nat.pow_dvd_pow 2 (by omega)) (Nat.dvd_mul_left _ _)
  rw [tableComplexity_eq, tableComplexity_eq]
  rw [fold_optAdd_congr (levelComplexity t1) (levelComplexity t2) _ _ (by
    intro l hl
    rw [List.mem_range'_1] at hl
    exact level_invariant' t1 t2 l hl.1 (by omega) (hsm l hl.1 (by omega) (by omega)))]
  exact fold_optAdd_congr (largeLevelComplexity t1) (largeLevelComplexity t2) _ _ (by
    intro l hl
    rw [List.mem_range'_1] at hl
    exact large_invariant' t1 t2 l hl.1 (hdiv t1 k1 hs1 l hl.1 (by omega)) (hdiv t2 k2 hs2 l hl.1 (by omega))
      (hlg l hl.1 (by omega)))

/-- the nodes of a list of functions at a small level: the kept chunks of its members -/
theorem keptSmall_flat (luts : List Lut) (level : Nat) (x : W) :
    KeptSmall (luts.flatMap (fun l => l.t.toList)).toArray level x ↔ ∃ l ∈ luts, KeptSmall l.t level x := by
  unfold KeptSmall
  simp only [List.mem_flatMap]
  constructor
  · rintro ⟨w, ⟨l, hl, hw⟩, rest⟩; exact ⟨l, hl, w, hw, rest⟩
  · rintro ⟨l, hl, w, hw, rest⟩; exact ⟨w, ⟨l, hl, hw⟩, rest⟩

theorem keptLarge_flat (n : Nat) (luts : List Lut) (h : ∀ l ∈ luts, l.t.size = tableSize n)
    (level : Nat) (h6 : 6 ≤ level) (hn : level < n) (x : List W) :
    KeptLarge (luts.flatMap (fun l => l.t.toList)).toArray level x ↔ ∃ l ∈ luts, KeptLarge l.t level x := by
  unfold KeptLarge
  constructor
  · rintro ⟨c, hc, rest⟩
    obtain ⟨l, hl, hc'⟩ := (flat_groups n luts h level h6 hn c).mp hc
    exact ⟨l, hl, c, hc', rest⟩
  · rintro ⟨l, hl, c, hc, rest⟩
    exact ⟨c, (flat_groups n luts h level h6 hn c).mpr ⟨l, hl, hc⟩, rest⟩

theorem normChunk_zero (mask : W) : normChunk mask 0#64 = 0#64 := by
  unfold normChunk
  have : (0#64 &&& 1#64 != 0#64) = false := by decide
  rw [this]
  simp

/-- a word of a function of n variables and the same word of its complement have the same
    normalised chunks at every level below n -/
theorem normChunk_not_word (n level : Nat) (hl : level < n) (h5 : level ≤ 5) (w : W)
    (hw : w &&& ~~~ numVarsMask n = 0#64) (j : Nat) (hj : j < (64 + 2 ^ (level + 1) - 1) / 2 ^ (level + 1)) :
    normChunk (~~~ 0#64 >>> (64 - 2 ^ (level + 1))) ((numVarsMask n &&& ~~~ w) >>> (j * 2 ^ (level + 1))) =
    normChunk (~~~ 0#64 >>> (64 - 2 ^ (level + 1))) (w >>> (j * 2 ^ (level + 1))) := by
  have hs64 : 2 ^ (level + 1) ≤ 64 := by
    have : 2 ^ (level + 1) ≤ 2 ^ 6 := Nat.pow_le_pow_right (by omega) (by omega)
    omega
  have hs1 : 1 ≤ 2 ^ (level + 1) := Nat.two_pow_pos _
  have hdvd : 2 ^ (level + 1) ∣ 64 := by
    have : (64 : Nat) = 2 ^ 6 := rfl
    rw [this]; exact Nat.pow_dvd_pow 2 (by omega)
  obtain ⟨q, hq⟩ := hdvd
  have hjq : j < q := by
    have : (64 + 2 ^ (level + 1) - 1) / 2 ^ (level + 1) = q := by
      rw [hq, show 2 ^ (level + 1) * q + 2 ^ (level + 1) - 1 = (2 ^ (level + 1) - 1) + 2 ^ (level + 1) * q by omega,
        Nat.add_mul_div_left _ _ hs1, Nat.div_eq_of_lt (by omega)]
      omega
    omega
  have hoff : j * 2 ^ (level + 1) + 2 ^ (level + 1) ≤ 64 := by
    have : (j + 1) * 2 ^ (level + 1) ≤ q * 2 ^ (level + 1) := Nat.mul_le_mul_right _ (by omega)
    rw [Nat.succ_mul] at this
    rw [hq, Nat.mul_comm _ q]; exact this
  -- bits of the word of the complement
  have hwbit : ∀ i, i < 64 → ¬ i < 2 ^ n → w.getLsbD i = false := by
    intro i hi hni
    have := congrArg (fun v => v.getLsbD i) hw
    simp only [BitVec.getLsbD_and, BitVec.getLsbD_not, hi, decide_true, Bool.true_and, numVarsMask_bit n i hi,
      BitVec.getLsbD_zero, hni, decide_false, Bool.not_false, Bool.and_true] at this
    exact this
  have hnbit : ∀ i, i < 64 → (numVarsMask n &&& ~~~ w).getLsbD i = (decide (i < 2 ^ n) && !w.getLsbD i) := by
    intro i hi
    rw [BitVec.getLsbD_and, BitVec.getLsbD_not, numVarsMask_bit n i hi]
    simp [hi]
  -- the chunk is inside 2^n or beyond it
  have hpow : 2 ^ n = 2 ^ (level + 1) * 2 ^ (n - (level + 1)) := by
    rw [← Nat.pow_add]; congr 1; omega
  by_cases hin : j + 1 ≤ 2 ^ (n - (level + 1))
  · have hle : j * 2 ^ (level + 1) + 2 ^ (level + 1) ≤ 2 ^ n := by
      have := Nat.mul_le_mul_right (2 ^ (level + 1)) hin
      rw [Nat.succ_mul] at this
      rw [hpow, Nat.mul_comm (2 ^ (level + 1))]; exact this
    apply BitVec.eq_of_getLsbD_eq
    intro b hb
    rw [normChunk_bit _ hs1 hs64 _ _ b hb, normChunk_bit _ hs1 hs64 w _ b hb]
    by_cases hlt : b < 2 ^ (level + 1)
    · rw [hnbit _ (by omega), hnbit _ (by omega)]
      have a1 : j * 2 ^ (level + 1) + b < 2 ^ n := by omega
      have a2 : j * 2 ^ (level + 1) < 2 ^ n := by omega
      simp only [hlt, a1, a2, decide_true, Bool.true_and]
      cases w.getLsbD (j * 2 ^ (level + 1) + b) <;> cases w.getLsbD (j * 2 ^ (level + 1)) <;> rfl
    · simp [hlt]
  · have hge : 2 ^ n ≤ j * 2 ^ (level + 1) := by
      have := Nat.mul_le_mul_right (2 ^ (level + 1)) (show 2 ^ (n - (level + 1)) ≤ j by omega)
      rw [hpow, Nat.mul_comm (2 ^ (level + 1))]; exact this
    have z1 : (numVarsMask n &&& ~~~ w) >>> (j * 2 ^ (level + 1)) = 0#64 := by
      apply BitVec.eq_of_getLsbD_eq
      intro b hb
      rw [BitVec.getLsbD_ushiftRight, BitVec.getLsbD_zero]
      by_cases h64 : j * 2 ^ (level + 1) + b < 64
      · rw [hnbit _ h64]
        have : ¬ j * 2 ^ (level + 1) + b < 2 ^ n := by omega
        simp [this]
      · exact BitVec.getLsbD_of_ge _ _ (by omega)
    have z2 : w >>> (j * 2 ^ (level + 1)) = 0#64 := by
      apply BitVec.eq_of_getLsbD_eq
      intro b hb
      rw [BitVec.getLsbD_ushiftRight, BitVec.getLsbD_zero]
      by_cases h64 : j * 2 ^ (level + 1) + b < 64
      · exact hwbit _ h64 (by omega)
      · exact BitVec.getLsbD_of_ge _ _ (by omega)
    rw [z1, z2]

/-- a function and its complement have the same nodes at every small level -/
theorem keptSmall_not (n : Nat) (t : Array W) (hwf : WF n t) (level : Nat) (hl : level < n) (h5 : level ≤ 5)
    (x : W) : KeptSmall (notInplace n t) level x ↔ KeptSmall t level x := by
  unfold KeptSmall notInplace
  simp only [Array.toList_map, List.mem_map]
  have hw : ∀ w ∈ t.toList, w &&& ~~~ numVarsMask n = 0#64 := by
    intro w hw
    obtain ⟨k, hk, rfl⟩ := List.getElem_of_mem hw
    have := hwf.2 k (by simpa using hk)
    simpa [Array.getElem?_eq_getElem (show k < t.size by simpa using hk)] using this
  constructor
  · rintro ⟨w', ⟨w, hwm, rfl⟩, j, hj, hx, rest⟩
    rw [normChunk_not_word n level hl h5 w (hw w hwm) j hj] at hx
    exact ⟨w, hwm, j, hj, hx, rest⟩
  · rintro ⟨w, hwm, j, hj, hx, rest⟩
    exact ⟨_, ⟨w, hwm, rfl⟩, j, hj, by rw [normChunk_not_word n level hl h5 w (hw w hwm) j hj]; exact hx, rest⟩

theorem normGroup_not (c : List W) : normGroup (c.map (~~~ ·)) = normGroup c := by
  cases c with
  | nil => rfl
  | cons a r =>
    unfold normGroup
    simp only [List.map_cons, List.headD_cons]
    rw [and_one_ne', and_one_ne', BitVec.getLsbD_not]
    cases h : a.getLsbD 0
    · simp only [show (0 : Nat) < 64 by omega, decide_true, Bool.not_false, Bool.and_true, if_true,
        Bool.false_eq_true, if_false]
      simp only [List.map_cons, List.map_map, BitVec.not_not]
      congr 1
      have : ((fun x : W => ~~~ x) ∘ fun x : W => ~~~ x) = id := by
        funext x; simp [Function.comp]
      rw [this, List.map_id]
    · simp

theorem grp_map (nb : Nat) (f : W → W) (l : List W) : grp nb (l.map f) = (grp nb l).map (List.map f) := by
  unfold grp
  rw [List.length_map, List.map_map]
  apply List.map_congr_left
  intro g _
  simp only [Function.comp, List.map_take, List.map_drop]

theorem numVarsMask_ge6 (n : Nat) (h : 6 ≤ n) : numVarsMask n = ~~~ 0#64 := by
  unfold numVarsMask
  rw [Nat.min_eq_right h]
  decide

/-- a function and its complement have the same nodes at every large level -/
theorem keptLarge_not (n : Nat) (t : Array W) (h6 : 6 ≤ n) (level : Nat) (x : List W) :
    KeptLarge (notInplace n t) level x ↔ KeptLarge t level x := by
  unfold KeptLarge notInplace
  simp only [Array.toList_map]
  have hf : (fun w : W => numVarsMask n &&& ~~~ w) = (fun w : W => ~~~ w) := by
    funext w
    rw [numVarsMask_ge6 n h6, BitVec.not_zero, BitVec.allOnes_and]
  rw [hf, grp_map]
  constructor
  · rintro ⟨c', hc', hx, rest⟩
    obtain ⟨c, hc, rfl⟩ := List.mem_map.mp hc'
    rw [normGroup_not] at hx
    exact ⟨c, hc, hx, rest⟩
  · rintro ⟨c, hc, hx, rest⟩
    exact ⟨c.map (~~~ ·), List.mem_map.mpr ⟨c, hc, rfl⟩, by rw [normGroup_not]; exact hx, rest⟩

theorem notInplace_WF (n : Nat) (t : Array W) (h : WF n t) : WF n (notInplace n t) := by
  refine ⟨by simp [notInplace, h.1], ?_⟩
  intro k hk
  have hk' : k < t.size := by simpa [notInplace] using hk
  simp only [notInplace, Array.getElem?_map, Array.getElem?_eq_getElem hk', Option.map_some, Option.getD_some]
  apply BitVec.eq_of_getLsbD_eq
  intro i hi
  simp only [BitVec.getLsbD_and, BitVec.getLsbD_not, hi, decide_true, Bool.true_and, BitVec.getLsbD_zero]
  cases (numVarsMask n).getLsbD i <;> simp

theorem notInplace_notInplace (n : Nat) (t : Array W) (h : WF n t) : notInplace n (notInplace n t) = t := by
  apply Array.ext
  · simp [notInplace]
  · intro k hk1 hk2
    simp only [notInplace, Array.getElem_map]
    have hz := h.2 k hk2
    rw [Array.getElem?_eq_getElem hk2, Option.getD_some] at hz
    apply BitVec.eq_of_getLsbD_eq
    intro i hi
    have hb := congrArg (fun v => v.getLsbD i) hz
    simp only [BitVec.getLsbD_and, BitVec.getLsbD_not, hi, decide_true, Bool.true_and, BitVec.getLsbD_zero] at hb ⊢
    cases hm : (numVarsMask n).getLsbD i <;> cases hw : t[k].getLsbD i <;> simp_all

/-- the statement of the property: the count is a function of the set of listed functions taken
    up to complement - order, duplicates and complementing any member do not matter -/
theorem stat_invariant (n : Nat) (A B : List Lut)
    (hA : ∀ l ∈ A, l.n = n ∧ WF n l.t) (hB : ∀ l ∈ B, l.n = n ∧ WF n l.t)
    (hAB : ∀ a ∈ A, a ∈ B ∨ Dyn.not a ∈ B) (hBA : ∀ b ∈ B, b ∈ A ∨ Dyn.not b ∈ A) :
    Stat.bddComplexity n A = Stat.bddComplexity n B := by
  unfold Stat.bddComplexity
  have sA : ∀ l ∈ A, l.t.size = tableSize n := fun l hl => (hA l hl).2.1
  have sB : ∀ l ∈ B, l.t.size = tableSize n := fun l hl => (hB l hl).2.1
  have small : ∀ (X Y : List Lut), (∀ l ∈ X, l.n = n ∧ WF n l.t) → (∀ a ∈ X, a ∈ Y ∨ Dyn.not a ∈ Y) →
      ∀ level, level < n → level ≤ 5 → ∀ x, (∃ l ∈ X, KeptSmall l.t level x) → ∃ l ∈ Y, KeptSmall l.t level x := by
    intro X Y hX hXY level hn h5 x
    rintro ⟨l, hl, hk⟩
    rcases hXY l hl with h | h
    · exact ⟨l, h, hk⟩
    · refine ⟨Dyn.not l, h, ?_⟩
      show KeptSmall (notInplace l.n l.t) level x
      rw [(hX l hl).1]
      exact (keptSmall_not n l.t (hX l hl).2 level hn h5 x).mpr hk
  have large : ∀ (X Y : List Lut), (∀ l ∈ X, l.n = n ∧ WF n l.t) → (∀ a ∈ X, a ∈ Y ∨ Dyn.not a ∈ Y) →
      ∀ level, 6 ≤ level → level < n → ∀ x, (∃ l ∈ X, KeptLarge l.t level x) → ∃ l ∈ Y, KeptLarge l.t level x := by
    intro X Y hX hXY level h6 hn x
    rintro ⟨l, hl, hk⟩
    rcases hXY l hl with h | h
    · exact ⟨l, h, hk⟩
    · refine ⟨Dyn.not l, h, ?_⟩
      show KeptLarge (notInplace l.n l.t) level x
      rw [(hX l hl).1]
      exact (keptLarge_not n l.t (by omega) level x).mpr hk
  apply table_invariant' n _ _ A.length B.length
  · rw [List.size_toArray, flat_size n A sA]
  · rw [List.size_toArray, flat_size n B sB]
  · intro level _ hn h5 x
    rw [keptSmall_flat, keptSmall_flat]
    exact ⟨small A B hA hAB level hn h5 x, small B A hB hBA level hn h5 x⟩
  · intro level h6 hn x
    rw [keptLarge_flat n A sA level h6 hn, keptLarge_flat n B sB level h6 hn]
    exact ⟨large A B hA hAB level h6 hn x, large B A hB hBA level h6 hn x⟩

/-- complementing one member of the list does not change the count (dynamic entry point) -/
theorem dyn_not_invariant (n : Nat) (a : Lut) (A : List Lut)
    (hA : ∀ l ∈ a :: A, l.n = n ∧ WF n l.t) :
    Dyn.bddComplexity (Dyn.not a :: A) = Dyn.bddComplexity (a :: A) := by
  have hna : (Dyn.not a).n = n := (hA a (by simp)).1
  have hwf : WF n (Dyn.not a).t := by
    have := (hA a (by simp))
    show WF n (notInplace a.n a.t)
    rw [this.1]
    exact notInplace_WF n a.t this.2
  have hA' : ∀ l ∈ Dyn.not a :: A, l.n = n ∧ WF n l.t := by
    intro l hl
    rcases List.mem_cons.mp hl with rfl | hl
    · exact ⟨hna, hwf⟩
    · exact hA l (by simp [hl])
  rw [← stat_eq_dyn n (Dyn.not a) A (fun l hl => (hA' l hl).1), ← stat_eq_dyn n a A (fun l hl => (hA l hl).1)]
  apply stat_invariant n _ _ hA' hA
  · intro l hl
    rcases List.mem_cons.mp hl with rfl | hl
    · right
      have : Dyn.not (Dyn.not a) = a := by
        show ({ a with t := notInplace a.n (notInplace a.n a.t) } : Lut) = a
        have hwa : WF a.n a.t := by rw [(hA a (by simp)).1]; exact (hA a (by simp)).2
        rw [notInplace_notInplace a.n a.t hwa]
      rw [this]; simp
    · left; simp [hl]
  · intro l hl
    rcases List.mem_cons.mp hl with rfl | hl
    · right; simp
    · left; simp [hl]

/-- empty list: nothing to count -/
theorem empty_small (level : Nat) (h1 : 1 ≤ level) (h5 : level ≤ 5) : levelComplexity #[] level = some 0 := by
  unfold levelComplexity
  have : ¬ ¬ (level < 6 ∧ level ≥ 1) := by simp; omega
  simp [this, dedupAdj]

theorem bdd_empty : Dyn.bddComplexity [] = some 0 := rfl

/-- non-vacuity: majority of three variables has three counted nodes, and so has its complement -/
example : chunkList 4 0xf#64 2 0xe8#64 = [0x8#64, 0xe#64] ∧ chunkList 4 0xf#64 2 0x17#64 = [0x8#64, 0xe#64] ∧
    levelKeep 2 0xe8#64 = true ∧ levelKeep 1 0x8#64 = true ∧ levelKeep 1 0xe#64 = true ∧
    levelKeep 1 0xa#64 = false ∧ levelKeep 1 0xc#64 = false := by decide

end VoluteModel.Props.C07

import VoluteModel.Model.Optim
import VoluteModel.Props.C14

/-!
# C18 (partial) - MIP two-level optimizers

What Lean carries:
 * the candidate sets handed to the ILPs are complete: every cube of an exact cover of `f` over
   `n` variables is an enumerated candidate, the multi-output lists have exactly the union as
   members, without duplicates; the ESOP model considers every non-contradictory cube - in
   particular the single positive literals, which the pinned tree dropped;
 * the specification of the optimum (`Optim.brute`) is a minimum of the documented cost
   (shared cube gates once + one join gate per extra term per output) over ALL families of
   candidate sublists that realise the functions: it is a lower bound of every realising
   family and it is attained.
What Lean does not carry: that HiGHS returns an optimal integral solution of the ILP it is
given, and that the ILP's constraint encoding (on-set, off-set, parity slack) is equivalent to
"the family realises the functions" - both are covered by running the real optimizers against
this optimum (and an independent one in the harness) on all function lists the property names.
-/

namespace VoluteModel.Props.C18
open VoluteModel VoluteModel.Optim VoluteModel.Props.C12 VoluteModel.Props.C14

/-- membership in `Cube::all(n)` -/
theorem mem_all (n : Nat) (c : Cube) : c ∈ Cube.all n ↔
    (∃ i j, i < 2 ^ n ∧ j < 2 ^ n ∧ c = ⟨BitVec.ofNat 32 i, BitVec.ofNat 32 j⟩) ∧ c.isZero = false := by
  unfold Cube.all
  simp only [List.mem_filter, List.mem_flatMap, List.mem_map, List.mem_range, Nat.shiftLeft_eq, Nat.one_mul,
    Bool.not_eq_true']
  constructor
  · rintro ⟨⟨i, hi, j, hj, rfl⟩, hz⟩
    exact ⟨⟨i, j, hi, hj, rfl⟩, hz⟩
  · rintro ⟨⟨i, j, hi, hj, rfl⟩, hz⟩
    exact ⟨⟨i, hi, j, hj, rfl⟩, hz⟩

/-- single-output candidates: exactly the enumerated cubes that are implicants -/
theorem mem_valid (l : Lut) (c : Cube) : c ∈ enumerateValidCubes l ↔ c ∈ Cube.all l.n ∧ c.impliesLut l = true := by
  simp [enumerateValidCubes, List.mem_filter]

/-- completeness: every cube of an exact OR-cover of `f` is a candidate -/
theorem cover_cubes_are_candidates (l : Lut) (s : Sop) (hn : s.n = l.n)
    (hcubes : ∀ c ∈ s.cubes, c ∈ Cube.all l.n)
    (hexact : ∀ m, m < 2 ^ l.n → s.value m = getBit l.t m) :
    ∀ c ∈ s.cubes, c ∈ enumerateValidCubes l := by
  intro c hc
  rw [mem_valid]
  refine ⟨hcubes c hc, ?_⟩
  rw [impliesLut_iff]
  intro m hm hv
  rw [← hexact m hm, sop_value]
  unfold cval
  rw [List.any_eq_true]
  exact ⟨c, hc, hv⟩

/-- the multi-output list: the union of the single-output candidate sets, each once -/
theorem mem_valid_multi (fs : List Lut) :
    (enumerateValidCubesMulti fs).Nodup ∧
    ∀ c, c ∈ enumerateValidCubesMulti fs ↔ ∃ f ∈ fs, c ∈ enumerateValidCubes f := by
  obtain ⟨h1, h2⟩ := sort_dedup_spec Cube.le le_trans le_total le_antisymm (fs.flatMap enumerateValidCubes)
  refine ⟨h1, ?_⟩
  intro c
  rw [show enumerateValidCubesMulti fs = dedupAdj ((fs.flatMap enumerateValidCubes).mergeSort Cube.le) from rfl, h2 c]
  simp [List.mem_flatMap]

/-- ESOP candidates: every non-contradictory cube over the variables - in particular every single
    positive literal (the defect repaired by the `fix:` commit a204a9b) -/
theorem esop_candidates (n : Nat) (c : Cube) : c ∈ esopCandidates n ↔ c ∈ Cube.all n := Iff.rfl

theorem literal_is_candidate (n v : Nat) (hv : v < n) (hn : n ≤ 32) : Cube.nthVar v ∈ esopCandidates n := by
  rw [esop_candidates, mem_all]
  refine ⟨⟨2 ^ v, 0, Nat.pow_lt_pow_right (by omega) hv, Nat.two_pow_pos n, ?_⟩, ?_⟩
  · unfold Cube.nthVar
    congr 1
    apply BitVec.eq_of_toNat_eq
    have : 2 ^ v < 2 ^ 32 := Nat.pow_lt_pow_right (by omega) (by omega)
    simp [BitVec.toNat_shiftLeft, Nat.shiftLeft_eq, Nat.mod_eq_of_lt this]
  · unfold Cube.isZero Cube.nthVar; simp

/-! ## the optimum is a minimum -/

theorem foldl_min_le (l : List Nat) (init : Nat) : l.foldl (fun b x => min b x) init ≤ init ∧
    ∀ x ∈ l, l.foldl (fun b x => min b x) init ≤ x := by
  induction l generalizing init with
  | nil => simp
  | cons a l ih =>
    simp only [List.foldl_cons]
    obtain ⟨i1, i2⟩ := ih (min init a)
    refine ⟨Nat.le_trans i1 (Nat.min_le_left _ _), ?_⟩
    intro x hx
    rcases List.mem_cons.mp hx with rfl | hx'
    · exact Nat.le_trans i1 (Nat.min_le_right _ _)
    · exact i2 x hx'

theorem foldl_min_attained (l : List Nat) (init : Nat) :
    l.foldl (fun b x => min b x) init = init ∨ l.foldl (fun b x => min b x) init ∈ l := by
  induction l generalizing init with
  | nil => left; rfl
  | cons a l ih =>
    simp only [List.foldl_cons]
    rcases ih (min init a) with h | h
    · rw [h]
      rcases Nat.le_total init a with hle | hle
      · left; exact Nat.min_eq_left hle
      · right; rw [Nat.min_eq_right hle]; simp
    · right; exact List.mem_cons_of_mem _ h

theorem foldl_min_map {α : Type} (l : List α) (g : α → Nat) (init : Nat) :
    l.foldl (fun b x => min b (g x)) init = (l.map g).foldl (fun b x => min b x) init := by
  rw [List.foldl_map]

/-- `brute` is a lower bound of the cost of every family it ranges over, and one of them (or the
    sentinel INF when no family realises the functions) attains it -/
theorem brute_is_min (isXor : Bool) (fs : List Nat) (items : List (Nat × Nat × Nat)) (join : Nat) :
    ∃ fams : List (List (List (Nat × Nat × Nat))),
      brute isXor fs items join = (fams.map (familyCost join)).foldl (fun b x => min b x) INF ∧
      (∀ fam ∈ fams, brute isXor fs items join ≤ familyCost join fam) ∧
      (brute isXor fs items join = INF ∨ ∃ fam ∈ fams, brute isXor fs items join = familyCost join fam) := by
  unfold brute
  simp only []
  generalize (List.foldr _ [[]] _ : List (List (List (Nat × Nat × Nat)))) = fams
  refine ⟨fams, foldl_min_map fams (familyCost join) INF, ?_, ?_⟩
  · intro fam hfam
    rw [foldl_min_map]
    exact (foldl_min_le _ INF).2 _ (List.mem_map_of_mem hfam)
  · rw [foldl_min_map]
    rcases foldl_min_attained (fams.map (familyCost join)) INF with h | h
    · left; exact h
    · right
      obtain ⟨fam, hfam, he⟩ := List.mem_map.mp h
      exact ⟨fam, hfam, he.symm⟩

/-- the documented cost of a family: every distinct cube's gates once, plus one join gate per extra
    term in each output -/
theorem familyCost_def (join : Nat) (fam : List (List (Nat × Nat × Nat))) :
    familyCost join fam =
      ((fam.flatten.map (fun it => (it.1, it.2.2))).eraseDups).foldl (fun a it => a + it.2) 0 +
      fam.foldl (fun a s => a + join * (s.length - 1)) 0 := rfl

/-- non-vacuity: x0 over one variable costs nothing as an ESOP, (the pinned tree returned 1 ^ !x0, cost 1) -/
example : optimum "esop" 1 1 1 [⟨1, #[0x2#64]⟩] = some 0 := by decide +kernel

end VoluteModel.Props.C18

import VoluteModel.Model.Optim
import VoluteModel.Props.C14

/-!
# C18 (partial) - MIP two-level optimizers

What Lean carries:
 * the candidate sets handed to the ILPs are complete: every cube of an exact cover of `f` over
   `n` variables is an enumerated candidate, the multi-output lists have exactly the union as
   members, without duplicates; the ESOP model considers every non-contradictory cube - in
   particular the single positive literals, which the pinned tree dropped;
 * the specification of the optimum (`Optim.brute`) is a minimum of the documented cost
   (shared cube gates once + one join gate per extra term per output) over ALL families of
   candidate sublists that realise the functions (`brute_spec`: for every choice, per output, of
   a sub-list of the candidates that realises it, the optimum is at most that family's cost,
   and some such family attains it).
What Lean does not carry: that HiGHS returns an optimal integral solution of the ILP it is
given, and that the ILP's constraint encoding (on-set, off-set, parity slack) is equivalent to
"the family realises the functions" - both are covered by running the real optimizers against
this optimum (and an independent one in the harness) on all function lists the property names.
-/

namespace VoluteModel.Props.C18
open VoluteModel VoluteModel.Optim VoluteModel.Props.C12 VoluteModel.Props.C14

/-- membership in `Cube::all(n)` -/
theorem mem_all (n : Nat) (c : Cube) : c ∈ Cube.all n ↔
    (∃ i j, i < 2 ^ n ∧ j < 2 ^ n ∧ c = ⟨BitVec.ofNat 32 i, BitVec.ofNat 32 j⟩) ∧ c.isZero = false := by
  unfold Cube.all
  simp only [List.mem_filter, List.mem_flatMap, List.mem_map, List.mem_range, Nat.shiftLeft_eq, Nat.one_mul,
    Bool.not_eq_true']
  constructor
  · rintro ⟨⟨i, hi, j, hj, rfl⟩, hz⟩
    exact ⟨⟨i, j, hi, hj, rfl⟩, hz⟩
  · rintro ⟨⟨i, j, hi, hj, rfl⟩, hz⟩
    exact ⟨⟨i, hi, j, hj, rfl⟩, hz⟩

/-- single-output candidates: exactly the enumerated cubes that are implicants -/
theorem mem_valid (l : Lut) (c : Cube) : c ∈ enumerateValidCubes l ↔ c ∈ Cube.all l.n ∧ c.impliesLut l = true := by
  simp [enumerateValidCubes, List.mem_filter]

/-- completeness: every cube of an exact OR-cover of `f` is a candidate -/
theorem cover_cubes_are_candidates (l : Lut) (s : Sop) (hn : s.n = l.n)
    (hcubes : ∀ c ∈ s.cubes, c ∈ Cube.all l.n)
    (hexact : ∀ m, m < 2 ^ l.n → s.value m = getBit l.t m) :
    ∀ c ∈ s.cubes, c ∈ enumerateValidCubes l := by
  intro c hc
  rw [mem_valid]
  refine ⟨hcubes c hc, ?_⟩
  rw [impliesLut_iff]
  intro m hm hv
  rw [← hexact m hm, sop_value]
  unfold cval
  rw [List.any_eq_true]
  exact ⟨c, hc, hv⟩

/-- the multi-output list: the union of the single-output candidate sets, each once -/
theorem mem_valid_multi (fs : List Lut) :
    (enumerateValidCubesMulti fs).Nodup ∧
    ∀ c, c ∈ enumerateValidCubesMulti fs ↔ ∃ f ∈ fs, c ∈ enumerateValidCubes f := by
  obtain ⟨h1, h2⟩ := sort_dedup_spec Cube.le le_trans le_total le_antisymm (fs.flatMap enumerateValidCubes)
  refine ⟨h1, ?_⟩
  intro c
  rw [show enumerateValidCubesMulti fs = dedupAdj ((fs.flatMap enumerateValidCubes).mergeSort Cube.le) from rfl, h2 c]
  simp [List.mem_flatMap]

/-- ESOP candidates: every non-contradictory cube over the variables - in particular every single
    positive literal (the defect repaired by the `fix:` commit a204a9b) -/
theorem esop_candidates (n : Nat) (c : Cube) : c ∈ esopCandidates n ↔ c ∈ Cube.all n := Iff.rfl

theorem literal_is_candidate (n v : Nat) (hv : v < n) (hn : n ≤ 32) : Cube.nthVar v ∈ esopCandidates n := by
  rw [esop_candidates, mem_all]
  refine ⟨⟨2 ^ v, 0, Nat.pow_lt_pow_right (by omega) hv, Nat.two_pow_pos n, ?_⟩, ?_⟩
  · unfold Cube.nthVar
    congr 1
    apply BitVec.eq_of_toNat_eq
    have : 2 ^ v < 2 ^ 32 := Nat.pow_lt_pow_right (by omega) (by omega)
    simp [BitVec.toNat_shiftLeft, Nat.shiftLeft_eq, Nat.mod_eq_of_lt this]
  · unfold Cube.isZero Cube.nthVar; simp

/-! ## the optimum is a minimum -/

theorem foldl_min_le (l : List Nat) (init : Nat) : l.foldl (fun b x => min b x) init ≤ init ∧
    ∀ x ∈ l, l.foldl (fun b x => min b x) init ≤ x := by
  induction l generalizing init with
  | nil => simp
  | cons a l ih =>
    simp only [List.foldl_cons]
    obtain ⟨i1, i2⟩ := ih (min init a)
    refine ⟨Nat.le_trans i1 (Nat.min_le_left _ _), ?_⟩
    intro x hx
    rcases List.mem_cons.mp hx with rfl | hx'
    · exact Nat.le_trans i1 (Nat.min_le_right _ _)
    · exact i2 x hx'

theorem foldl_min_attained (l : List Nat) (init : Nat) :
    l.foldl (fun b x => min b x) init = init ∨ l.foldl (fun b x => min b x) init ∈ l := by
  induction l generalizing init with
  | nil => left; rfl
  | cons a l ih =>
    simp only [List.foldl_cons]
    rcases ih (min init a) with h | h
    · rw [h]
      rcases Nat.le_total init a with hle | hle
      · left; exact Nat.min_eq_left hle
      · right; rw [Nat.min_eq_right hle]; simp
    · right; exact List.mem_cons_of_mem _ h

theorem foldl_min_map {α : Type} (l : List α) (g : α → Nat) (init : Nat) :
    l.foldl (fun b x => min b (g x)) init = (l.map g).foldl (fun b x => min b x) init := by
  rw [List.foldl_map]

/-- `brute` is a lower bound of the cost of every family it ranges over, and one of them (or the
    sentinel INF when no family realises the functions) attains it -/
theorem brute_is_min (isXor : Bool) (fs : List Nat) (items : List (Nat × Nat × Nat)) (join : Nat) :
    ∃ fams : List (List (List (Nat × Nat × Nat))),
      brute isXor fs items join = (fams.map (familyCost join)).foldl (fun b x => min b x) INF ∧
      (∀ fam ∈ fams, brute isXor fs items join ≤ familyCost join fam) ∧
      (brute isXor fs items join = INF ∨ ∃ fam ∈ fams, brute isXor fs items join = familyCost join fam) := by
  unfold brute
  simp only []
  generalize (List.foldr _ [[]] _ : List (List (List (Nat × Nat × Nat)))) = fams
  refine ⟨fams, foldl_min_map fams (familyCost join) INF, ?_, ?_⟩
  · intro fam hfam
    rw [foldl_min_map]
    exact (foldl_min_le _ INF).2 _ (List.mem_map_of_mem hfam)
  · rw [foldl_min_map]
    rcases foldl_min_attained (fams.map (familyCost join)) INF with h | h
    · left; exact h
    · right
      obtain ⟨fam, hfam, he⟩ := List.mem_map.mp h
      exact ⟨fam, hfam, he.symm⟩

/-! ## the families `brute` ranges over are ALL the realising families -/

theorem mem_sublists {α : Type} (l s : List α) : s ∈ sublists l ↔ s.Sublist l := by
  induction l generalizing s with
  | nil => simp [sublists]
  | cons a l ih =>
    simp only [sublists, List.mem_flatMap, List.mem_cons, List.not_mem_nil, or_false]
    constructor
    · rintro ⟨t, ht, hs⟩
      rcases hs with rfl | rfl
      · exact ((ih s).mp ht).cons a
      · exact ((ih t).mp ht).cons_cons a
    · intro h
      cases h with
      | cons _ h' => exact ⟨s, (ih s).mpr h', Or.inl rfl⟩
      | cons_cons _ h' => exact ⟨_, (ih _).mpr h', Or.inr rfl⟩

/-- whether a list of items realises the truth table f (OR of implicants / XOR) -/
def realises (isXor : Bool) (f : Nat) (s : List (Nat × Nat × Nat)) : Bool :=
  if isXor then s.foldl (fun a it => a ^^^ it.2.1) 0 == f
  else s.all (fun it => it.2.1 &&& f == it.2.1) && s.foldl (fun a it => a ||| it.2.1) 0 == f

/-- the product of the choice lists: one member per output -/
theorem mem_product {α : Type} (choices : List (List α)) (fam : List α) :
    fam ∈ choices.foldr (fun ch acc => ch.flatMap (fun s => acc.map (fun fam => s :: fam))) [[]] ↔
      fam.length = choices.length ∧ ∀ i (h1 : i < fam.length) (h2 : i < choices.length), fam[i] ∈ choices[i] := by
  induction choices generalizing fam with
  | nil =>
    simp only [List.foldr_nil, List.mem_singleton, List.length_nil]
    constructor
    · rintro rfl; exact ⟨rfl, fun i h1 _ => by simp at h1⟩
    · rintro ⟨h, _⟩; exact List.eq_nil_of_length_eq_zero h
  | cons ch rest ih =>
    simp only [List.foldr_cons, List.mem_flatMap, List.mem_map, List.length_cons]
    constructor
    · rintro ⟨s, hs, fam', hfam', rfl⟩
      obtain ⟨hl, hall⟩ := (ih fam').mp hfam'
      refine ⟨by simp [hl], ?_⟩
      intro i h1 h2
      cases i with
      | zero => simpa using hs
      | succ i =>
        simp only [List.getElem_cons_succ]
        exact hall i (by simpa using h1) (by simpa using h2)
    · rintro ⟨hl, hall⟩
      cases fam with
      | nil => simp at hl
      | cons s fam' =>
        have h0 := hall 0 (by simp) (by simp)
        simp only [List.getElem_cons_zero] at h0
        refine ⟨s, h0, fam', (ih fam').mpr ⟨by simpa using hl, ?_⟩, rfl⟩
        intro i h1 h2
        have := hall (i + 1) (by simpa using h1) (by simpa using h2)
        simpa using this

/-- **the optimum is the minimum over all families**: for every way of choosing, for each output
    f_i, a sub-list of the candidate items that realises f_i, the reported optimum is at most that
    family's documented cost; and (unless no such family exists) one of them attains it -/
theorem brute_spec (isXor : Bool) (fs : List Nat) (items : List (Nat × Nat × Nat)) (join : Nat) :
    (∀ fam : List (List (Nat × Nat × Nat)), fam.length = fs.length →
      (∀ i (h1 : i < fam.length) (h2 : i < fs.length), (fam[i]).Sublist items ∧ realises isXor fs[i] fam[i] = true) →
      brute isXor fs items join ≤ familyCost join fam) ∧
    (brute isXor fs items join = INF ∨
      ∃ fam : List (List (Nat × Nat × Nat)), fam.length = fs.length ∧
        (∀ i (h1 : i < fam.length) (h2 : i < fs.length), (fam[i]).Sublist items ∧ realises isXor fs[i] fam[i] = true) ∧
        brute isXor fs items join = familyCost join fam) := by
  have key : ∀ fam : List (List (Nat × Nat × Nat)),
      fam ∈ (fs.map (fun f => (sublists items).filter (realises isXor f))).foldr
        (fun ch acc => ch.flatMap (fun s => acc.map (fun fam => s :: fam))) [[]] ↔
      fam.length = fs.length ∧
        ∀ i (h1 : i < fam.length) (h2 : i < fs.length), (fam[i]).Sublist items ∧ realises isXor fs[i] fam[i] = true := by
    intro fam
    rw [mem_product]
    simp only [List.length_map, List.getElem_map, List.mem_filter, mem_sublists]
  have hb : brute isXor fs items join =
      (((fs.map (fun f => (sublists items).filter (realises isXor f))).foldr
        (fun ch acc => ch.flatMap (fun s => acc.map (fun fam => s :: fam))) [[]]).map (familyCost join)).foldl
          (fun b x => min b x) INF := by
    rw [← foldl_min_map]
    rfl
  constructor
  · intro fam hl h
    rw [hb]
    exact (foldl_min_le _ INF).2 _ (List.mem_map_of_mem ((key fam).mpr ⟨hl, h⟩))
  · rw [hb]
    rcases foldl_min_attained
      (((fs.map (fun f => (sublists items).filter (realises isXor f))).foldr
        (fun ch acc => ch.flatMap (fun s => acc.map (fun fam => s :: fam))) [[]]).map (familyCost join)) INF with h | h
    · left; exact h
    · right
      obtain ⟨fam, hfam, he⟩ := List.mem_map.mp h
      obtain ⟨hl, hall⟩ := (key fam).mp hfam
      exact ⟨fam, hl, hall, he.symm⟩

/-- the documented cost of a family: every distinct cube's gates once, plus one join gate per extra
    term in each output -/
theorem familyCost_def (join : Nat) (fam : List (List (Nat × Nat × Nat))) :
    familyCost join fam =
      ((fam.flatten.map (fun it => (it.1, it.2.2))).eraseDups).foldl (fun a it => a + it.2) 0 +
      fam.foldl (fun a s => a + join * (s.length - 1)) 0 := rfl

/-- non-vacuity: x0 over one variable costs nothing as an ESOP, (the pinned tree returned 1 ^ !x0, cost 1) -/
example : optimum "esop" 1 1 1 [⟨1, #[0x2#64]⟩] = some 0 := by decide +kernel

end VoluteModel.Props.C18

import VoluteModel.Props.C07
import VoluteModel.Lemmas.Robdd

/-!
# C07, continued: `bdd_complexity` is the node count of the shared complement-edge ROBDD

`Lemmas/Robdd.lean` defines reduced ordered BDDs with complemented edges over truth tables written
as numbers (`mk`), proves canonicity (`mk_inj`), characterises the nodes of the BDD of a table
(`mem_nodes_mk`: one node per sub-function that depends on its top variable) and counts the
non-literal nodes of the shared BDD of a list level by level (`shared_count`).  This file connects
the bit-vector chunks and word groups that the code sorts and deduplicates with those
sub-functions (`small_glue1`, `large_glue1`), and concludes `bdd_is_shared_robdd`.
-/

namespace VoluteModel.Props.C07
open VoluteModel VoluteModel.Robdd


/-! ## small levels: the normalised chunk of a word is the normal form of a block, the filter is
    "depends on the top variable and is not the literal" -/

theorem testBit_toNat' (x : W) (i : Nat) : x.toNat.testBit i = x.getLsbD i := rfl

theorem norm_testBit (k g : Nat) (hg : g < P k) (i : Nat) :
    (norm k g).testBit i = (decide (i < 2 ^ k) && (g.testBit i != g.testBit 0)) := by
  unfold norm
  have hb0 : g.testBit 0 = decide (g % 2 = 1) := by
    rw [Nat.testBit_zero]
  by_cases h : g % 2 = 1
  · rw [if_pos h, compl_testBit k g hg, hb0]
    simp [h]
  · rw [if_neg h, hb0]
    by_cases hi : i < 2 ^ k
    · simp [hi, h]
    · have : g.testBit i = false := by
        apply Nat.testBit_lt_two_pow
        exact Nat.lt_of_lt_of_le hg (Nat.pow_le_pow_right (by omega) (by omega))
      simp [hi, this]

/-- S1: the normalised chunk j of a word, as a number, is the normal form of block j of the word -/
theorem normChunk_toNat (v : Nat) (hv : v ≤ 5) (w : W) (j : Nat) (hj : j < 2 ^ (5 - v)) :
    (normChunk (~~~ 0#64 >>> (64 - 2 ^ (v + 1))) (w >>> (j * 2 ^ (v + 1)))).toNat =
      norm (v + 1) (sub v j w.toNat) := by
  have hs64 : 2 ^ (v + 1) ≤ 64 := by
    have : 2 ^ (v + 1) ≤ 2 ^ 6 := Nat.pow_le_pow_right (by omega) (by omega)
    omega
  have hs1 : 1 ≤ 2 ^ (v + 1) := Nat.two_pow_pos _
  have hoff : j * 2 ^ (v + 1) + 2 ^ (v + 1) ≤ 64 := by
    have e : (64 : Nat) = 2 ^ (5 - v) * 2 ^ (v + 1) := by
      rw [← Nat.pow_add, show 5 - v + (v + 1) = 6 by omega]
    have : (j + 1) * 2 ^ (v + 1) ≤ 2 ^ (5 - v) * 2 ^ (v + 1) := Nat.mul_le_mul_right _ (by omega)
    rw [Nat.add_mul, Nat.one_mul] at this
    omega
  apply Nat.eq_of_testBit_eq
  intro i
  rw [testBit_toNat', norm_testBit _ _ (sub_lt v j _), sub_testBit, sub_testBit]
  by_cases hi : i < 64
  · rw [normChunk_bit _ hs1 hs64 w _ i hi]
    simp only [Nat.add_zero, testBit_toNat']
    by_cases his : i < 2 ^ (v + 1)
    · have h0 : 0 < 2 ^ (v + 1) := hs1
      simp only [his, h0, decide_true, Bool.true_and, Nat.add_zero]
    · simp [his]
  · have : ¬ i < 2 ^ (v + 1) := by omega
    rw [BitVec.getLsbD_of_ge _ _ (by omega)]
    simp [this]

theorem lowmask_toNat (m : Nat) (hm : m ≤ 64) : (~~~ 0#64 >>> (64 - m)).toNat = 2 ^ m - 1 := by
  apply Nat.eq_of_testBit_eq
  intro i
  rw [testBit_toNat', Nat.testBit_two_pow_sub_one]
  by_cases hi : i < 64
  · by_cases hm0 : m = 0
    · subst hm0
      rw [BitVec.getLsbD_ushiftRight]
      simp [hi]
    · rw [lowmask_bit m (by omega) hm i hi]
  · rw [BitVec.getLsbD_of_ge _ _ (by omega)]
    have : ¬ i < m := by omega
    simp [this]

/-- S2: the filter of `level_complexity` on a normalised chunk -/
theorem levelKeep_nat (v : Nat) (hv : v ≤ 5) (x : W) (hx : Valid (v + 1) x.toNat) :
    levelKeep v x = true ↔ dep v x.toNat ∧ ¬ litTable v x.toNat := by
  have hp : 2 ^ v ≤ 32 := by
    have : 2 ^ v ≤ 2 ^ 5 := Nat.pow_le_pow_right (by omega) hv
    omega
  have hPv : P v = 2 ^ (2 ^ v) := rfl
  have hPpos := P_pos v
  have hPev := P_even v
  have hlo := lo_valid v _ hx
  have hhi := hi_lt v _ hx
  -- the two halves as numbers
  have hl : (x &&& (~~~ 0#64 >>> (64 - 2 ^ v))).toNat = x.toNat % P v := by
    rw [BitVec.toNat_and, lowmask_toNat _ (by omega), Nat.and_two_pow_sub_one_eq_mod, hPv]
  have hh : (x >>> 2 ^ v).toNat = x.toNat / P v := by
    rw [BitVec.toNat_ushiftRight, Nat.shiftRight_eq_div_pow, hPv]
  have hnh : (~~~ (x >>> 2 ^ v) &&& (~~~ 0#64 >>> (64 - 2 ^ v))).toNat = P v - 1 - x.toNat / P v := by
    rw [BitVec.toNat_and, lowmask_toNat _ (by omega), Nat.and_two_pow_sub_one_eq_mod, BitVec.toNat_not, hh]
    have hdvd : P v ∣ 2 ^ 64 := by
      rw [hPv]; exact Nat.pow_dvd_pow 2 (by omega)
    obtain ⟨q, hq⟩ := hdvd
    have hq1 : 1 ≤ q := by
      cases q with
      | zero => simp at hq
      | succ q => omega
    rw [← hPv, hq]
    have : P v * q - 1 - x.toNat / P v = (P v - 1 - x.toNat / P v) + P v * (q - 1) := by
      have : P v * q = P v * (q - 1) + P v := by
        rw [← Nat.mul_succ]; congr 1; omega
      omega
    rw [this, Nat.add_mul_mod_self_left, Nat.mod_eq_of_lt (by omega)]
  have beq_iff : ∀ a b : W, (a == b) = decide (a.toNat = b.toNat) := by
    intro a b
    by_cases h : a = b
    · subst h; simp
    · have : ¬ a.toNat = b.toNat := fun e => h (BitVec.eq_of_toNat_eq e)
      simp [h, this]
  unfold levelKeep
  simp only [Nat.shiftLeft_eq, Nat.one_mul]
  rw [beq_iff, beq_iff, beq_iff, beq_iff, hl, hh, hnh]
  simp only [BitVec.toNat_ofNat, Nat.zero_mod]
  unfold dep litTable
  have hle := hlo.2
  by_cases c1 : x.toNat % P v = x.toNat / P v
  · simp [c1]
  · simp only [c1, decide_false, Bool.false_eq_true, if_false, ne_eq, not_false_eq_true, true_and]
    by_cases c2 : x.toNat % P v = P v - 1 - x.toNat / P v
    · by_cases c3 : x.toNat % P v = 0
      · have : x.toNat / P v = P v - 1 := by omega
        simp [c2, c3, this]
      · by_cases c4 : x.toNat / P v = 0
        · exfalso; omega
        · have e1 : decide (x.toNat % P v = P v - 1 - x.toNat / P v) = true := by simp [c2]
          have e2 : decide (x.toNat % P v = 0) = false := by simp [c3]
          have e3 : decide (x.toNat / P v = 0) = false := by simp [c4]
          rw [e1, e2, e3]
          simp only [Bool.or_self, Bool.and_false, Bool.false_eq_true, if_false, true_iff]
          rintro ⟨a, _⟩; exact c3 a
    · have : ¬ (x.toNat % P v = 0 ∧ x.toNat / P v = P v - 1) := by
        rintro ⟨a, b⟩; apply c2; omega
      simp [c2, this]



/-- word q of a table is block q (of 64 bits) of its number -/
theorem word_toNat (f : Array W) (q : Nat) (hq : q < f.size) : (f[q]).toNat = sub 5 q (toNatLE f.toList) := by
  apply Nat.eq_of_testBit_eq
  intro i
  rw [sub_testBit, toNatLE_testBit, testBit_toNat']
  have e64 : (2 : Nat) ^ (5 + 1) = 64 := rfl
  rw [e64]
  by_cases hi : i < 64
  · have h1 : (q * 64 + i) / 64 = q := by omega
    have h2 : (q * 64 + i) % 64 = i := by omega
    rw [h1, h2]
    simp [hi, hq]
  · rw [BitVec.getLsbD_of_ge _ _ (by omega)]
    simp [hi]

/-- a block of a block -/
theorem sub_sub (v : Nat) (hv : v ≤ 5) (q j t : Nat) (hj : j < 2 ^ (5 - v)) :
    sub v j (sub 5 q t) = sub v (q * 2 ^ (5 - v) + j) t := by
  apply Nat.eq_of_testBit_eq
  intro i
  rw [sub_testBit, sub_testBit, sub_testBit]
  have e : (2 : Nat) ^ (5 + 1) = 2 ^ (5 - v) * 2 ^ (v + 1) := by
    rw [← Nat.pow_add]; congr 1; omega
  by_cases hi : i < 2 ^ (v + 1)
  · have hlt : j * 2 ^ (v + 1) + i < 2 ^ (5 + 1) := by
      have : (j + 1) * 2 ^ (v + 1) ≤ 2 ^ (5 - v) * 2 ^ (v + 1) := Nat.mul_le_mul_right _ (by omega)
      rw [Nat.add_mul, Nat.one_mul] at this
      omega
    have hidx : q * 2 ^ (5 + 1) + (j * 2 ^ (v + 1) + i) = (q * 2 ^ (5 - v) + j) * 2 ^ (v + 1) + i := by
      rw [e, Nat.add_mul, Nat.mul_assoc]; omega
    simp only [hi, hlt, decide_true, Bool.true_and, hidx]
  · simp [hi]

/-- blocks beyond the table are zero -/
theorem sub_beyond (n v a t : Nat) (hv : v < n) (ht : t < P n) (ha : 2 ^ (n - 1 - v) ≤ a) : sub v a t = 0 := by
  apply Nat.eq_of_testBit_eq
  intro i
  rw [sub_testBit, Nat.zero_testBit]
  have e : 2 ^ n = 2 ^ (n - 1 - v) * 2 ^ (v + 1) := by rw [← Nat.pow_add]; congr 1; omega
  have : 2 ^ n ≤ a * 2 ^ (v + 1) + i := by
    have h1 := Nat.mul_le_mul_right (2 ^ (v + 1)) ha
    rw [← e] at h1
    exact Nat.le_trans h1 (Nat.le_add_right _ _)
  have hz : t.testBit (a * 2 ^ (v + 1) + i) = false := by
    apply Nat.testBit_lt_two_pow
    exact Nat.lt_of_lt_of_le ht (Nat.pow_le_pow_right (by omega) this)
  rw [hz]; simp

theorem norm_zero (k : Nat) : norm k 0 = 0 := by simp [norm]

theorem not_dep_zero (v : Nat) : ¬ dep v 0 := by simp [dep]

theorem iters_eq (v : Nat) (hv : v ≤ 5) : (64 + 2 ^ (v + 1) - 1) / 2 ^ (v + 1) = 2 ^ (5 - v) := by
  have e : (64 : Nat) = 2 ^ (5 - v) * 2 ^ (v + 1) := by
    rw [← Nat.pow_add, show 5 - v + (v + 1) = 6 by omega]
  have hpos : 0 < 2 ^ (v + 1) := Nat.two_pow_pos _
  rw [e, show 2 ^ (5 - v) * 2 ^ (v + 1) + 2 ^ (v + 1) - 1 = (2 ^ (v + 1) - 1) + 2 ^ (v + 1) * 2 ^ (5 - v) by
    rw [Nat.mul_comm]; omega, Nat.add_mul_div_left _ _ hpos, Nat.div_eq_of_lt (by omega)]
  omega

/-- **small levels, one function**: the kept normalised chunks of a table are, as numbers, exactly
    the kept sub-functions of the function -/
theorem small_glue1 (n v : Nat) (hv5 : v ≤ 5) (hvn : v < n) (f : Array W) (hf : WF n f) (g : Nat) :
    (∃ x, KeptSmall f v x ∧ x.toNat = g) ↔
      ∃ a, a < 2 ^ (n - 1 - v) ∧ g = norm (v + 1) (sub v a (toNatLE f.toList)) ∧ dep v g ∧ ¬ litTable v g := by
  have hT : toNatLE f.toList < P n := VoluteModel.Props.C08.toNat_lt_of_WF ⟨n, f⟩ hf
  constructor
  · rintro ⟨x, ⟨w, hw, j, hj, hx, hne, hk⟩, rfl⟩
    rw [iters_eq v hv5] at hj
    obtain ⟨q, hq, rfl⟩ := List.getElem_of_mem hw
    have hq' : q < f.size := by simpa using hq
    have hval : x.toNat = norm (v + 1) (sub v (q * 2 ^ (5 - v) + j) (toNatLE f.toList)) := by
      rw [hx, normChunk_toNat v hv5 _ j hj]
      simp only [Array.getElem_toList]
      rw [word_toNat f q hq', sub_sub v hv5 q j _ hj]
    have hvalid : Valid (v + 1) x.toNat := by rw [hval]; exact norm_valid _ _ (sub_lt _ _ _)
    have hkeep := (levelKeep_nat v hv5 x hvalid).mp hk
    refine ⟨q * 2 ^ (5 - v) + j, ?_, hval, hkeep.1, hkeep.2⟩
    -- the block index is inside the table
    by_cases hlt : q * 2 ^ (5 - v) + j < 2 ^ (n - 1 - v)
    · exact hlt
    · exfalso
      have := sub_beyond n v (q * 2 ^ (5 - v) + j) _ hvn hT (Nat.le_of_not_lt hlt)
      rw [this, norm_zero] at hval
      exact hne (BitVec.eq_of_toNat_eq (by rw [hval]; rfl))
  · rintro ⟨a, ha, rfl, hd, hnl⟩
    -- the word and the chunk inside it
    have hsz : a / 2 ^ (5 - v) < f.size := by
      rw [hf.1]
      by_cases h6 : 6 ≤ n
      · rw [tableSize_ge6 h6, Nat.div_lt_iff_lt_mul (Nat.two_pow_pos _), ← Nat.pow_add]
        rw [show n - 6 + (5 - v) = n - 1 - v by omega]
        exact ha
      · rw [tableSize_le6 (by omega)]
        have : 2 ^ (n - 1 - v) ≤ 2 ^ (5 - v) := Nat.pow_le_pow_right (by omega) (by omega)
        rw [Nat.div_eq_of_lt (by omega)]
        omega
    have hj : a % 2 ^ (5 - v) < 2 ^ (5 - v) := Nat.mod_lt _ (Nat.two_pow_pos _)
    have hidx : a / 2 ^ (5 - v) * 2 ^ (5 - v) + a % 2 ^ (5 - v) = a := by
      rw [Nat.mul_comm]; exact Nat.div_add_mod a _
    have hval : (normChunk (~~~ 0#64 >>> (64 - 2 ^ (v + 1)))
        (f[a / 2 ^ (5 - v)] >>> (a % 2 ^ (5 - v) * 2 ^ (v + 1)))).toNat =
        norm (v + 1) (sub v a (toNatLE f.toList)) := by
      rw [normChunk_toNat v hv5 _ _ hj, word_toNat f _ hsz, sub_sub v hv5 _ _ _ hj, hidx]
    refine ⟨_, ⟨f[a / 2 ^ (5 - v)], by simp, a % 2 ^ (5 - v), by rw [iters_eq v hv5]; exact hj, rfl, ?_, ?_⟩, hval⟩
    · intro h0
      have := congrArg BitVec.toNat h0
      rw [hval] at this
      rw [this] at hd
      exact not_dep_zero v hd
    · rw [levelKeep_nat v hv5 _ (by rw [hval]; exact norm_valid _ _ (sub_lt _ _ _)), hval]
      exact ⟨hd, hnl⟩



/-! ## large levels: lists of words as numbers -/

theorem P_words (k : Nat) : P (k + 6) = 2 ^ (64 * 2 ^ k) := by
  unfold P
  congr 1
  rw [Nat.pow_add]; omega

theorem toNatLE_lt' (c : List W) (k : Nat) (hc : c.length = 2 ^ k) : toNatLE c < P (k + 6) := by
  rw [P_words, ← hc]; exact toNatLE_lt c

/-- bits of the number of a list of words -/
theorem toNatLE_bit (c : List W) (i : Nat) :
    (toNatLE c).testBit i = (c[i / 64]?.getD 0).getLsbD (i % 64) := toNatLE_testBit c i

/-- L1: group a of nb words is block a of the number of the table -/
theorem group_toNat (k : Nat) (l : List W) (a : Nat) (ha : (a + 1) * 2 ^ k ≤ l.length) :
    toNatLE ((l.drop (a * 2 ^ k)).take (2 ^ k)) = sub (k + 5) a (toNatLE l) := by
  apply Nat.eq_of_testBit_eq
  intro i
  rw [sub_testBit, toNatLE_bit, toNatLE_bit]
  have e : 2 ^ (k + 5 + 1) = 64 * 2 ^ k := by
    rw [show k + 5 + 1 = k + 6 by omega, Nat.pow_add]; omega
  rw [e]
  rw [List.getElem?_take]
  by_cases hi : i < 64 * 2 ^ k
  · have h1 : i / 64 < 2 ^ k := by omega
    have h2 : (a * (64 * 2 ^ k) + i) / 64 = a * 2 ^ k + i / 64 := by
      rw [show a * (64 * 2 ^ k) = 64 * (a * 2 ^ k) by rw [Nat.mul_left_comm]]
      omega
    have h3 : (a * (64 * 2 ^ k) + i) % 64 = i % 64 := by
      rw [show a * (64 * 2 ^ k) = 64 * (a * 2 ^ k) by rw [Nat.mul_left_comm]]
      omega
    rw [if_pos h1, List.getElem?_drop, h2, h3]
    simp [hi]
  · have h1 : ¬ i / 64 < 2 ^ k := by omega
    rw [if_neg h1]
    simp [hi]

/-- the number of the word-wise complement -/
theorem map_not_toNat (c : List W) (k : Nat) (hc : c.length = 2 ^ k) :
    toNatLE (c.map (~~~ ·)) = compl (k + 6) (toNatLE c) := by
  apply Nat.eq_of_testBit_eq
  intro i
  rw [compl_testBit _ _ (toNatLE_lt' c k hc), toNatLE_bit, toNatLE_bit]
  have e : 2 ^ (k + 6) = 64 * 2 ^ k := by rw [Nat.pow_add]; omega
  rw [e, List.getElem?_map]
  by_cases hi : i < 64 * 2 ^ k
  · have h1 : i / 64 < c.length := by rw [hc]; omega
    rw [List.getElem?_eq_getElem h1]
    have hb : i % 64 < 64 := Nat.mod_lt _ (by omega)
    simp [hi, hb]
  · have h1 : c.length ≤ i / 64 := by rw [hc]; omega
    rw [List.getElem?_eq_none h1]
    simp [hi]

/-- L3: the normal form of a group -/
theorem normGroup_toNat (c : List W) (k : Nat) (hc : c.length = 2 ^ k) :
    toNatLE (normGroup c) = norm (k + 6) (toNatLE c) := by
  have hne : c ≠ [] := by
    intro h; rw [h] at hc; simp at hc
    have := Nat.two_pow_pos k; omega
  match c, hne, hc with
  | a :: r, _, hc =>
    have hpar : (toNatLE (a :: r)) % 2 = a.toNat % 2 := by
      simp only [toNatLE]; omega
    have hbit : (a &&& 1#64 != 0#64) = decide (a.toNat % 2 = 1) := by
      rw [and_one_ne', ← testBit_toNat', Nat.testBit_zero]
    unfold normGroup norm
    by_cases h : a.toNat % 2 = 1
    · have hb : ((a :: r).headD 0 &&& 1#64 != 0#64) = true := by
        simp only [List.headD_cons]; rw [hbit]; simp [h]
      rw [if_pos hb, if_pos (by rw [hpar]; exact h)]
      exact map_not_toNat (a :: r) k hc
    · have hb : ¬ ((a :: r).headD 0 &&& 1#64 != 0#64) = true := by
        simp only [List.headD_cons]; rw [hbit]; simp [h]
      rw [if_neg hb, if_neg (by rw [hpar]; exact h)]

/-- L4: some word is not zero iff the number is not zero -/
theorem any_ne_zero (c : List W) : c.any (· != 0#64) = true ↔ toNatLE c ≠ 0 := by
  induction c with
  | nil => simp [toNatLE]
  | cons a r ih =>
    simp only [List.any_cons, Bool.or_eq_true, toNatLE, ih]
    constructor
    · rintro (h | h)
      · have : a.toNat ≠ 0 := by
          intro e; apply (bne_iff_ne.mp h); exact BitVec.eq_of_toNat_eq (by rw [e]; rfl)
        omega
      · have : 0 < 2 ^ 64 * toNatLE r := Nat.mul_pos (by decide) (Nat.pos_of_ne_zero h)
        omega
    · intro h
      by_cases ha : a = 0#64
      · right
        intro e; apply h; rw [ha, e]; rfl
      · left; simpa using ha

theorem all_zero (c : List W) : c.all (· == 0#64) = true ↔ toNatLE c = 0 := by
  have := any_ne_zero c
  constructor
  · intro h
    by_cases e : toNatLE c = 0
    · exact e
    · have := this.mpr e
      rw [List.any_eq_true] at this
      obtain ⟨x, hx, hne⟩ := this
      have := List.all_eq_true.mp h x hx
      simp_all
  · intro h
    rw [List.all_eq_true]
    intro x hx
    by_cases e : x = 0#64
    · simp [e]
    · exfalso
      have : c.any (· != 0#64) = true := List.any_eq_true.mpr ⟨x, hx, by simpa using e⟩
      exact (any_ne_zero c).mp this h

/-- L5: the two halves of a group -/
theorem take_toNat (c : List W) (m : Nat) : toNatLE (c.take m) = toNatLE c % 2 ^ (64 * m) := by
  apply Nat.eq_of_testBit_eq
  intro i
  rw [Nat.testBit_mod_two_pow, toNatLE_bit, toNatLE_bit, List.getElem?_take]
  by_cases hi : i < 64 * m
  · have : i / 64 < m := by omega
    simp [hi, this]
  · have : ¬ i / 64 < m := by omega
    simp [hi, this]

theorem drop_toNat (c : List W) (m : Nat) : toNatLE (c.drop m) = toNatLE c / 2 ^ (64 * m) := by
  apply Nat.eq_of_testBit_eq
  intro i
  rw [Nat.testBit_div_two_pow, toNatLE_bit, toNatLE_bit, List.getElem?_drop]
  have h1 : (i + 64 * m) / 64 = m + i / 64 := by omega
  have h2 : (i + 64 * m) % 64 = i % 64 := by omega
  rw [h1, h2]



theorem zip_all_not (l h : List W) (hlen : l.length = h.length) :
    (List.zip l h).all (fun p => p.1 == ~~~ p.2) = true ↔ l = h.map (~~~ ·) := by
  induction l generalizing h with
  | nil =>
    have : h = [] := List.eq_nil_of_length_eq_zero (by simpa using hlen.symm)
    subst this; simp
  | cons a l ih =>
    match h, hlen with
    | b :: h, hlen =>
      simp only [List.zip_cons_cons, List.all_cons, Bool.and_eq_true, beq_iff_eq, List.map_cons, List.cons.injEq]
      rw [ih h (by simpa using hlen)]

/-- the decision of the two filters, on numbers -/
theorem keep_decision (Pv l h : Nat) (hl : l % 2 = 0) (hP : Pv % 2 = 0) (hPpos : 0 < Pv) (hh : h < Pv) :
    (if l = h then false else if (decide (l = Pv - 1 - h) && (decide (l = 0) || decide (h = 0))) then false else true) = true ↔
      (l ≠ h ∧ ¬ (l = 0 ∧ h = Pv - 1)) := by
  by_cases c1 : l = h
  · simp [c1]
  · simp only [c1, if_false, ne_eq, not_false_eq_true, true_and]
    by_cases c2 : l = Pv - 1 - h
    · by_cases c3 : l = 0
      · have : h = Pv - 1 := by omega
        simp [c2, c3, this]
      · by_cases c4 : h = 0
        · exfalso; omega
        · have e1 : decide (l = Pv - 1 - h) = true := by simp [c2]
          have e2 : decide (l = 0) = false := by simp [c3]
          have e3 : decide (h = 0) = false := by simp [c4]
          rw [e1, e2, e3]
          simp only [Bool.or_self, Bool.and_false, Bool.false_eq_true, if_false, true_iff]
          rintro ⟨a, _⟩; exact c3 a
    · have : ¬ (l = 0 ∧ h = Pv - 1) := by
        rintro ⟨a, b⟩; apply c2; omega
      simp [c2, this]

/-- L6: the filter of `large_level_complexity` on a normalised group of 2^(k+1) words -/
theorem largeKeep_nat (k : Nat) (x : List W) (hx : x.length = 2 ^ (k + 1)) (hv : Valid (k + 6 + 1) (toNatLE x)) :
    largeKeep (2 ^ k) x = true ↔ dep (k + 6) (toNatLE x) ∧ ¬ litTable (k + 6) (toNatLE x) := by
  have hm : 2 ^ (k + 1) = 2 ^ k + 2 ^ k := by rw [Nat.pow_succ]; omega
  have hlt : (x.take (2 ^ k)).length = 2 ^ k := by rw [List.length_take, hx]; omega
  have hld : (x.drop (2 ^ k)).length = 2 ^ k := by rw [List.length_drop, hx]; omega
  have hPw := P_words k
  have hlN : toNatLE (x.take (2 ^ k)) = toNatLE x % P (k + 6) := by rw [take_toNat, hPw]
  have hhN : toNatLE (x.drop (2 ^ k)) = toNatLE x / P (k + 6) := by rw [drop_toNat, hPw]
  have hlo := lo_valid (k + 6) _ hv
  have hhi := hi_lt (k + 6) _ hv
  have e1 : (x.take (2 ^ k) == x.drop (2 ^ k)) = decide (toNatLE x % P (k + 6) = toNatLE x / P (k + 6)) := by
    rw [← hlN, ← hhN]
    by_cases h : x.take (2 ^ k) = x.drop (2 ^ k)
    · rw [h]; simp
    · have : ¬ toNatLE (x.take (2 ^ k)) = toNatLE (x.drop (2 ^ k)) :=
        fun e => h (toNatLE_inj _ _ (by rw [hlt, hld]) e)
      simp [h, this]
  have e2 : (List.zip (x.take (2 ^ k)) (x.drop (2 ^ k))).all (fun p => p.1 == ~~~ p.2) =
      decide (toNatLE x % P (k + 6) = P (k + 6) - 1 - toNatLE x / P (k + 6)) := by
    have hc : toNatLE ((x.drop (2 ^ k)).map (~~~ ·)) = P (k + 6) - 1 - toNatLE x / P (k + 6) := by
      rw [map_not_toNat _ k hld, hhN]; rfl
    by_cases h : x.take (2 ^ k) = (x.drop (2 ^ k)).map (~~~ ·)
    · have := (zip_all_not _ _ (by rw [hlt, hld])).mpr h
      rw [this, ← hlN, h, hc]; simp
    · have h' : ¬ (List.zip (x.take (2 ^ k)) (x.drop (2 ^ k))).all (fun p => p.1 == ~~~ p.2) = true :=
        fun e => h ((zip_all_not _ _ (by rw [hlt, hld])).mp e)
      have : ¬ toNatLE x % P (k + 6) = P (k + 6) - 1 - toNatLE x / P (k + 6) := by
        intro e; apply h
        apply toNatLE_inj _ _ (by rw [List.length_map, hlt, hld])
        rw [hlN, hc, e]
      simp only [Bool.not_eq_true] at h'
      rw [h']; simp [this]
  have e3 : (x.take (2 ^ k)).all (· == 0#64) = decide (toNatLE x % P (k + 6) = 0) := by
    rw [← hlN]
    by_cases h : toNatLE (x.take (2 ^ k)) = 0
    · rw [(all_zero _).mpr h]; simp [h]
    · have : ¬ (x.take (2 ^ k)).all (· == 0#64) = true := fun e => h ((all_zero _).mp e)
      simp only [Bool.not_eq_true] at this
      rw [this]; simp [h]
  have e4 : (x.drop (2 ^ k)).all (· == 0#64) = decide (toNatLE x / P (k + 6) = 0) := by
    rw [← hhN]
    by_cases h : toNatLE (x.drop (2 ^ k)) = 0
    · rw [(all_zero _).mpr h]; simp [h]
    · have : ¬ (x.drop (2 ^ k)).all (· == 0#64) = true := fun e => h ((all_zero _).mp e)
      simp only [Bool.not_eq_true] at this
      rw [this]; simp [h]
  unfold largeKeep
  simp only []
  rw [e1, e2, e3, e4]
  have := keep_decision (P (k + 6)) (toNatLE x % P (k + 6)) (toNatLE x / P (k + 6)) hlo.2 (P_even _) (P_pos _) hhi
  unfold dep litTable
  rw [← this]
  by_cases c : toNatLE x % P (k + 6) = toNatLE x / P (k + 6)
  · simp [c]
  · simp [c]



/-- **large levels, one function**: the kept normalised groups of a table are, as numbers, exactly
    the kept sub-functions of the function -/
theorem large_glue1 (n k : Nat) (hvn : k + 6 < n) (f : Array W) (hf : WF n f) (g : Nat) :
    (∃ x, KeptLarge f (k + 6) x ∧ toNatLE x = g) ↔
      ∃ a, a < 2 ^ (n - 1 - (k + 6)) ∧ g = norm (k + 6 + 1) (sub (k + 6) a (toNatLE f.toList)) ∧
        dep (k + 6) g ∧ ¬ litTable (k + 6) g := by
  have hsz : f.toList.length = 2 ^ (n - 6) := by
    rw [Array.length_toList, hf.1, tableSize_ge6 (by omega)]
  have e5 : k + 6 - 5 = k + 1 := by omega
  have e6 : k + 6 - 6 = k := by omega
  have hgroups : f.toList.length / 2 ^ (k + 1) = 2 ^ (n - 1 - (k + 6)) := by
    rw [hsz]
    have e : 2 ^ (n - 6) = 2 ^ (n - 1 - (k + 6)) * 2 ^ (k + 1) := by
      rw [← Nat.pow_add]; congr 1; omega
    rw [e, Nat.mul_div_cancel _ (Nat.two_pow_pos _)]
  have hfit : ∀ a, a < 2 ^ (n - 1 - (k + 6)) → (a + 1) * 2 ^ (k + 1) ≤ f.toList.length := by
    intro a ha
    rw [hsz]
    have e : 2 ^ (n - 6) = 2 ^ (n - 1 - (k + 6)) * 2 ^ (k + 1) := by
      rw [← Nat.pow_add]; congr 1; omega
    rw [e]
    exact Nat.mul_le_mul_right _ (Nat.succ_le_of_lt ha)
  have hclen : ∀ a, a < 2 ^ (n - 1 - (k + 6)) →
      ((f.toList.drop (a * 2 ^ (k + 1))).take (2 ^ (k + 1))).length = 2 ^ (k + 1) := by
    intro a ha
    have := hfit a ha
    rw [Nat.add_mul, Nat.one_mul] at this
    rw [List.length_take, List.length_drop]
    omega
  have hnlen : ∀ c : List W, (normGroup c).length = c.length := by
    intro c; unfold normGroup; split <;> simp
  have hval : ∀ a, a < 2 ^ (n - 1 - (k + 6)) →
      toNatLE (normGroup ((f.toList.drop (a * 2 ^ (k + 1))).take (2 ^ (k + 1)))) =
        norm (k + 6 + 1) (sub (k + 6) a (toNatLE f.toList)) := by
    intro a ha
    rw [normGroup_toNat _ (k + 1) (hclen a ha), group_toNat (k + 1) _ a (hfit a ha)]
  unfold KeptLarge
  rw [e5, e6]
  constructor
  · rintro ⟨x, ⟨c, hc, rfl, hany, hk⟩, rfl⟩
    obtain ⟨a, ha, rfl⟩ := (mem_grp _ _ c).mp hc
    rw [hgroups] at ha
    have hv : Valid (k + 6 + 1) (toNatLE (normGroup ((f.toList.drop (a * 2 ^ (k + 1))).take (2 ^ (k + 1))))) := by
      rw [hval a ha]; exact norm_valid _ _ (sub_lt _ _ _)
    have hkeep := (largeKeep_nat k _ (by rw [hnlen, hclen a ha]) hv).mp hk
    exact ⟨a, ha, hval a ha, hkeep.1, hkeep.2⟩
  · rintro ⟨a, ha, rfl, hd, hnl⟩
    refine ⟨normGroup ((f.toList.drop (a * 2 ^ (k + 1))).take (2 ^ (k + 1))),
      ⟨_, (mem_grp _ _ _).mpr ⟨a, by rw [hgroups]; exact ha, rfl⟩, rfl, ?_, ?_⟩, hval a ha⟩
    · rw [any_ne_zero, hval a ha]
      intro h0
      rw [h0] at hd
      exact not_dep_zero _ hd
    · rw [largeKeep_nat k _ (by rw [hnlen, hclen a ha]) (by rw [hval a ha]; exact norm_valid _ _ (sub_lt _ _ _)), hval a ha]
      exact ⟨hd, hnl⟩

/-- members of the large lists have the length of a group -/
theorem keptLarge_length (f : Array W) (k : Nat) (x : List W) (h : KeptLarge f (k + 6) x)
    (hfit : 2 ^ (k + 1) ∣ f.toList.length) : x.length = 2 ^ (k + 1) := by
  obtain ⟨c, hc, rfl, _, _⟩ := h
  rw [show k + 6 - 5 = k + 1 by omega] at hc
  obtain ⟨a, ha, rfl⟩ := (mem_grp _ _ c).mp hc
  have hn : ∀ c : List W, (normGroup c).length = c.length := by
    intro c; unfold normGroup; split <;> simp
  rw [hn, List.length_take, List.length_drop]
  obtain ⟨q, hq⟩ := hfit
  rw [hq] at ha ⊢
  rw [Nat.mul_div_cancel_left _ (Nat.two_pow_pos _)] at ha
  have : (a + 1) * 2 ^ (k + 1) ≤ q * 2 ^ (k + 1) := Nat.mul_le_mul_right _ (by omega)
  rw [Nat.add_mul, Nat.one_mul] at this
  rw [Nat.mul_comm (2 ^ (k + 1)) q]
  omega



theorem kept_of_funcs (n v : Nat) (F : List Lut) (g : Nat) :
    Kept n v (F.map (fun l => toNatLE l.t.toList)) g ↔
      ∃ l ∈ F, ∃ a, a < 2 ^ (n - 1 - v) ∧ g = norm (v + 1) (sub v a (toNatLE l.t.toList)) ∧ dep v g ∧ ¬ litTable v g := by
  unfold Kept
  constructor
  · rintro ⟨t, ht, rest⟩
    obtain ⟨l, hl, rfl⟩ := List.mem_map.mp ht
    exact ⟨l, hl, rest⟩
  · rintro ⟨l, hl, rest⟩
    exact ⟨_, List.mem_map.mpr ⟨l, hl, rfl⟩, rest⟩

/-- **C07, the statement of the property**: `bdd_complexity` of a list of functions of n
    variables is the number of nodes of their shared reduced ordered BDD with complemented edges
    (variable n-1 at the root, variable 0 at the bottom, constant 0 as the only leaf, regular low
    edges), not counting the nodes that denote a single literal.  The nodes are given as a
    duplicate-free list of exactly the non-literal node subterms of the BDDs `mk n (norm n f)` of
    the listed functions f (as numbers: bit m of the number is the value on assignment m). -/
theorem bdd_is_shared_robdd (n : Nat) (F : List Lut) (hF : ∀ l ∈ F, WF n l.t) :
    ∃ L : List B, L.Nodup ∧
      (∀ b, b ∈ L ↔ SharedNode n (F.map (fun l => toNatLE l.t.toList)) b) ∧
      Stat.bddComplexity n F = some L.length := by
  have hsz : ∀ l ∈ F, l.t.size = tableSize n := fun l hl => (hF l hl).1
  have hsize : (F.flatMap (fun l => l.t.toList)).toArray.size = F.length * tableSize n := by
    rw [List.size_toArray, flat_size n F hsz]
  obtain ⟨cnt, hres, hsmall, hlarge⟩ := table_spec n _ F.length hsize
  have hts : ∀ t ∈ F.map (fun l => toNatLE l.t.toList), t < P n := by
    intro t ht
    obtain ⟨l, hl, rfl⟩ := List.mem_map.mp ht
    exact VoluteModel.Props.C08.toNat_lt_of_WF ⟨n, l.t⟩ (hF l hl)
  -- one list of numbers per level
  have hlevel : ∀ v, ∃ Gv : List Nat, 1 ≤ v → v < n →
      Gv.Nodup ∧ (∀ g, g ∈ Gv ↔ Kept n v (F.map (fun l => toNatLE l.t.toList)) g) ∧ Gv.length = cnt v := by
    intro v
    by_cases hv : 1 ≤ v ∧ v < n
    · obtain ⟨h1, hn⟩ := hv
      by_cases h5 : v ≤ 5
      · obtain ⟨L, nd, mem, len⟩ := hsmall v h1 hn h5
        refine ⟨L.map BitVec.toNat, fun _ _ => ⟨?_, ?_, by simpa using len⟩⟩
        · unfold List.Nodup at nd ⊢
          rw [List.pairwise_map]
          exact nd.imp (fun hne e => hne (BitVec.eq_of_toNat_eq e))
        · intro g
          rw [kept_of_funcs, List.mem_map]
          constructor
          · rintro ⟨x, hx, rfl⟩
            obtain ⟨l, hl, hk⟩ := (keptSmall_flat F v x).mp ((mem x).mp hx)
            exact ⟨l, hl, (small_glue1 n v h5 hn l.t (hF l hl) _).mp ⟨x, hk, rfl⟩⟩
          · rintro ⟨l, hl, rest⟩
            obtain ⟨x, hk, hx⟩ := (small_glue1 n v h5 hn l.t (hF l hl) g).mpr rest
            exact ⟨x, (mem x).mpr ((keptSmall_flat F v x).mpr ⟨l, hl, hk⟩), hx⟩
      · obtain ⟨k, rfl⟩ : ∃ k, v = k + 6 := ⟨v - 6, by omega⟩
        obtain ⟨L, nd, mem, len⟩ := hlarge (k + 6) (by omega) hn
        have hdiv : ∀ l ∈ F, 2 ^ (k + 1) ∣ l.t.toList.length := by
          intro l hl
          rw [Array.length_toList, hsz l hl, tableSize_ge6 (by omega)]
          exact Nat.pow_dvd_pow 2 (by omega)
        have hlen : ∀ x ∈ L, x.length = 2 ^ (k + 1) := by
          intro x hx
          obtain ⟨l, hl, hk⟩ := (keptLarge_flat n F hsz (k + 6) (by omega) hn x).mp ((mem x).mp hx)
          exact keptLarge_length l.t k x hk (hdiv l hl)
        refine ⟨L.map toNatLE, fun _ _ => ⟨?_, ?_, by simpa using len⟩⟩
        · unfold List.Nodup at nd ⊢
          rw [List.pairwise_map]
          refine List.Pairwise.imp_of_mem ?_ nd
          intro a b ha hb hne e
          exact hne (toNatLE_inj a b (by rw [hlen a ha, hlen b hb]) e)
        · intro g
          rw [kept_of_funcs, List.mem_map]
          constructor
          · rintro ⟨x, hx, rfl⟩
            obtain ⟨l, hl, hk⟩ := (keptLarge_flat n F hsz (k + 6) (by omega) hn x).mp ((mem x).mp hx)
            exact ⟨l, hl, (large_glue1 n k hn l.t (hF l hl) _).mp ⟨x, hk, rfl⟩⟩
          · rintro ⟨l, hl, rest⟩
            obtain ⟨x, hk, hx⟩ := (large_glue1 n k hn l.t (hF l hl) g).mpr rest
            exact ⟨x, (mem x).mpr ((keptLarge_flat n F hsz (k + 6) (by omega) hn x).mpr ⟨l, hl, hk⟩), hx⟩
    · exact ⟨[], fun h1 hn => absurd ⟨h1, hn⟩ hv⟩
  obtain ⟨G, hG⟩ := Classical.axiomOfChoice hlevel
  obtain ⟨nd, mem, len⟩ := shared_count n _ hts G (fun v h1 hn => (hG v h1 hn).1) (fun v h1 hn => (hG v h1 hn).2.1)
  refine ⟨_, nd, mem, ?_⟩
  unfold Stat.bddComplexity
  rw [hres, len]
  congr 1
  -- the two sums of the code are the sum over the levels 1..n-1
  have hsplit : List.range' 1 (n - 1) = List.range' 1 (min n 6 - 1) ++ List.range' 6 (n - 6) := by
    by_cases h6 : n ≤ 6
    · rw [Nat.min_eq_left h6, show n - 6 = 0 by omega]; simp
    · rw [Nat.min_eq_right (by omega)]
      have := @List.range'_append_1 1 5 (n - 6)
      rw [show 1 + 5 = 6 by rfl] at this
      rw [show 6 - 1 = 5 by rfl, this]
      congr 1; omega
  have hcnt : (List.range' 1 (n - 1)).map (fun v => (G v).length) = (List.range' 1 (n - 1)).map cnt := by
    apply List.map_congr_left
    intro v hv
    rw [List.mem_range'_1] at hv
    exact (hG v hv.1 (by omega)).2.2
  rw [hcnt, hsplit, List.map_append, List.sum_append]


/-- the dynamic entry point, for functions of the same number of variables -/
theorem dyn_bdd_is_shared_robdd (n : Nat) (l0 : Lut) (ls : List Lut) (hF : ∀ l ∈ l0 :: ls, l.n = n ∧ WF n l.t) :
    ∃ L : List B, L.Nodup ∧
      (∀ b, b ∈ L ↔ SharedNode n ((l0 :: ls).map (fun l => toNatLE l.t.toList)) b) ∧
      Dyn.bddComplexity (l0 :: ls) = some L.length := by
  rw [← stat_eq_dyn n l0 ls (fun l hl => (hF l hl).1)]
  exact bdd_is_shared_robdd n (l0 :: ls) (fun l hl => (hF l hl).2)

/-- non-vacuity: the majority of three variables has three counted nodes -/
example : ((nodes (mk 3 (norm 3 0xe8))).filter (fun b => !isLit b)).eraseDups.length = 3 := by decide

end VoluteModel.Props.C07

import VoluteModel.Model.Api
import VoluteModel.Lemmas.CrossWord
import VoluteModel.Props.C03

/-!
# C06 - top decomposition and unateness are sound and complete

`c0 m`, `c1 m` are the values of the two cofactors on assignment `m`, by definition
(`f` on `m` with `x_v` cleared / set).  Every helper predicate is the statement
"for all assignments, g (c0 m) (c1 m)" for the Boolean function `g` its closure lifts.
-/

namespace VoluteModel.Props.C06
open VoluteModel VoluteModel.Props.C03

/-- `p` holds on all `2^n` assignments -/
def allB (n : Nat) (p : Nat → Bool) : Bool := (List.range (2 ^ n)).all p

theorem allB_iff (n : Nat) (p : Nat → Bool) : allB n p = true ↔ ∀ m, m < 2 ^ n → p m = true := by
  simp [allB]

def c0 (t : Array W) (v m : Nat) : Bool := bit t (clearBit m v)
def c1 (t : Array W) (v m : Nat) : Bool := bit t (setBitN m v)

/-- `op` computes `g` bit by bit -/
def Lifts (op : W → W → W) (g : Bool → Bool → Bool) : Prop :=
  ∀ (x y : W) (b : Nat), b < 64 → (op x y).getLsbD b = g (x.getLsbD b) (y.getLsbD b)

/-- the masked all-ones test of the helper -/
theorem wordOK (x : W) (n : Nat) :
    ((~~~ x &&& numVarsMask n == 0#64) = true) ↔ ∀ b, b < 64 → b < 2 ^ n → x.getLsbD b = true := by
  constructor
  · intro h b hb hlt
    have h' : ~~~ x &&& numVarsMask n = 0#64 := by simpa using h
    have := congrArg (fun w => w.getLsbD b) h'
    simp only [BitVec.getLsbD_and, BitVec.getLsbD_not, numVarsMask_bit n b hb, BitVec.getLsbD_zero] at this
    cases hx : x.getLsbD b
    · rw [hx] at this; simp [hb, hlt] at this
    · rfl
  · intro h
    have : ~~~ x &&& numVarsMask n = 0#64 := by
      apply BitVec.eq_of_getLsbD_eq
      intro b hb
      simp only [BitVec.getLsbD_and, BitVec.getLsbD_not, numVarsMask_bit n b hb, BitVec.getLsbD_zero]
      by_cases hlt : b < 2 ^ n
      · simp [h b hb hlt]
      · simp [hlt]
    simp [this]

theorem foldl_and_iff {α : Type} (l : List α) (p : α → Bool) (init : Bool) :
    l.foldl (fun r x => r && p x) init = true ↔ init = true ∧ ∀ x ∈ l, p x = true := by
  induction l generalizing init with
  | nil => simp
  | cons a l ih =>
    simp only [List.foldl_cons, ih, List.mem_cons, Bool.and_eq_true]
    constructor
    · rintro ⟨⟨h1, h2⟩, h3⟩
      exact ⟨h1, fun x hx => by rcases hx with rfl | hx; exact h2; exact h3 x hx⟩
    · rintro ⟨h1, h2⟩
      exact ⟨⟨h1, h2 a (Or.inl rfl)⟩, fun x hx => h2 x (Or.inr hx)⟩

theorem foldl_cond_and_iff {α : Type} (l : List α) (c p : α → Bool) (init : Bool) :
    l.foldl (fun r x => if c x then r && p x else r) init = true ↔
      init = true ∧ ∀ x ∈ l, c x = true → p x = true := by
  induction l generalizing init with
  | nil => simp
  | cons a l ih =>
    simp only [List.foldl_cons, ih, List.mem_cons]
    cases hc : c a
    · simp only [Bool.false_eq_true, if_false]
      constructor
      · rintro ⟨h1, h3⟩
        exact ⟨h1, fun x hx hcx => by rcases hx with rfl | hx; (rw [hc] at hcx; cases hcx); exact h3 x hx hcx⟩
      · rintro ⟨h1, h2⟩
        exact ⟨h1, fun x hx => h2 x (Or.inr hx)⟩
    · simp only [if_true, Bool.and_eq_true]
      constructor
      · rintro ⟨⟨h1, h2⟩, h3⟩
        exact ⟨h1, fun x hx hcx => by rcases hx with rfl | hx; exact h2; exact h3 x hx hcx⟩
      · rintro ⟨h1, h2⟩
        exact ⟨⟨h1, h2 a (Or.inl rfl) hc⟩, fun x hx => h2 x (Or.inr hx)⟩

/-- reassembling an assignment from word index and in-word index -/
theorem index_lt {n w b : Nat} (h6 : 6 ≤ n) (hw : w < 2 ^ (n - 6)) (hb : b < 64) : 64 * w + b < 2 ^ n := by
  have e : 2 ^ n = 64 * 2 ^ (n - 6) := by
    have : n = 6 + (n - 6) := by omega
    conv => lhs; rw [this, Nat.pow_add]
  rw [e]
  have : 64 * (w + 1) ≤ 64 * 2 ^ (n - 6) := Nat.mul_le_mul_left _ hw
  omega

/-- Main lemma: the helper decides "for all assignments, g (c0 m) (c1 m)" -/
theorem helper_spec (n : Nat) (t : Array W) (hs : t.size = tableSize n) (v : Nat) (hv : v < n)
    (op : W → W → W) (g : Bool → Bool → Bool) (hop : Lifts op g) :
    inputPropertyHelper n t v op = some (allB n (fun m => g (c0 t v m) (c1 t v m))) := by
  unfold inputPropertyHelper
  have hne : ¬ t.size ≠ tableSize n := by simp [hs]
  have hvn : ¬ ¬ v < n := by simp [hv]
  simp only [hne, if_false, hvn]
  by_cases h5 : v ≤ 5
  · have hv6 : v < 6 := by omega
    simp only [h5, if_true]
    congr 1
    rw [← Array.foldl_toList]
    apply Bool.eq_iff_iff.mpr
    rw [foldl_and_iff, allB_iff]
    simp only [true_and]
    constructor
    · intro h m hm
      have hw : m / 64 < t.size := by rw [hs]; exact div64_lt_tableSize hm
      have hmem : t[m / 64] ∈ t.toList := by simp
      have := (wordOK _ n).mp (h _ hmem) (m % 64) (mod64_lt m) (by
        by_cases h6 : n ≤ 6
        · have := (small_index h6 hm).2; omega
        · have : 2 ^ 6 ≤ 2 ^ n := Nat.pow_le_pow_right (by omega) (by omega)
          have := mod64_lt m
          omega)
      rw [hop _ _ _ (mod64_lt m), helperC0_bit v hv6 _ _ (mod64_lt m), helperC1_bit v hv6 _ _ (mod64_lt m),
        testBit_mod64 m v hv6] at this
      unfold c0 c1 clearBit setBitN bit
      cases hb : m.testBit v
      · simp only [hb, Bool.false_eq_true, if_false] at this ⊢
        rw [xor_two_pow_div_64, xor_two_pow_mod_64]
        simpa [hv6, hw] using this
      · simp only [hb, if_true] at this ⊢
        rw [xor_two_pow_div_64, xor_two_pow_mod_64]
        simpa [hv6, hw] using this
    · intro h x hx
      obtain ⟨k, hk, rfl⟩ := List.getElem_of_mem hx
      have hk' : k < t.size := by simpa using hk
      rw [wordOK]
      intro b hb hlt
      -- the assignment 64 k + b
      have hm : 64 * k + b < 2 ^ n := by
        by_cases h6 : n ≤ 6
        · have : t.size = 1 := by rw [hs, tableSize_le6 h6]
          have : k = 0 := by omega
          subst this; simpa using hlt
        · exact index_lt (by omega) (by rw [← size_pow hs (by omega)]; exact hk') hb
      have hd : (64 * k + b) / 64 = k := by omega
      have hmod : (64 * k + b) % 64 = b := by omega
      have := h (64 * k + b) hm
      unfold c0 c1 clearBit setBitN bit at this
      rw [hop _ _ _ hb, helperC0_bit v hv6 _ _ hb, helperC1_bit v hv6 _ _ hb]
      have htb : (64 * k + b).testBit v = b.testBit v := by
        rw [testBit_word_split k b v hb]; simp [hv6]
      rw [htb] at this
      cases hbv : b.testBit v
      · simp only [hbv, Bool.false_eq_true, if_false] at this ⊢
        rw [xor_two_pow_div_64, xor_two_pow_mod_64, hd, hmod] at this
        simpa [hv6, hk'] using this
      · simp only [hbv, if_true] at this ⊢
        rw [xor_two_pow_div_64, xor_two_pow_mod_64, hd, hmod] at this
        simpa [hv6, hk'] using this
  · obtain ⟨j, rfl⟩ : ∃ j, v = 6 + j := ⟨v - 6, by omega⟩
    have h6 : 6 ≤ n := by omega
    have hsz := size_pow hs h6
    have hjn : j < n - 6 := by omega
    simp only [h5, if_false, Nat.add_sub_cancel_left, Nat.shiftLeft_eq, Nat.one_mul]
    congr 1
    apply Bool.eq_iff_iff.mpr
    rw [foldl_cond_and_iff, allB_iff]
    simp only [true_and, List.mem_range, and_two_pow_eq_zero]
    constructor
    · intro h m hm
      have hw : m / 64 < t.size := by rw [hs]; exact div64_lt_tableSize hm
      have hb := mod64_lt m
      unfold c0 c1 clearBit setBitN bit
      rw [← testBit_div64 m j]
      cases hbit : (m / 64).testBit j
      · have := (wordOK _ n).mp (h (m / 64) hw (by simp [hbit])) (m % 64) hb (by
          have : 2 ^ 6 ≤ 2 ^ n := Nat.pow_le_pow_right (by omega) h6
          omega)
        rw [hop _ _ _ hb] at this
        simp only [Bool.false_eq_true, if_false]
        rw [xor_two_pow_div_64, xor_two_pow_mod_64]
        have h6' : ¬ (6 + j < 6) := by omega
        simp only [h6', if_false, Nat.add_sub_cancel_left]
        rw [xor_two_pow_of_clear _ _ hbit]
        exact this
      · obtain ⟨e, hle⟩ := xor_two_pow_of_set (m / 64) j hbit
        have hclr : (m / 64 - 2 ^ j).testBit j = false := by
          rw [← e, testBit_xor_two_pow, hbit]; simp
        have hlt' : m / 64 - 2 ^ j < t.size := Nat.lt_of_le_of_lt (Nat.sub_le _ _) hw
        have := (wordOK _ n).mp (h (m / 64 - 2 ^ j) hlt' (by simp [hclr])) (m % 64) hb (by
          have : 2 ^ 6 ≤ 2 ^ n := Nat.pow_le_pow_right (by omega) h6
          omega)
        rw [hop _ _ _ hb] at this
        have e2 : m / 64 - 2 ^ j + 2 ^ j = m / 64 := by omega
        rw [e2] at this
        simp only [if_true]
        rw [xor_two_pow_div_64, xor_two_pow_mod_64]
        have h6' : ¬ (6 + j < 6) := by omega
        simp only [h6', if_false, Nat.add_sub_cancel_left]
        rw [e]
        exact this
    · intro h i hi hclr
      have hclr' : i.testBit j = false := by simpa using hclr
      rw [wordOK]
      intro b hb _
      have hm : 64 * i + b < 2 ^ n := index_lt h6 (by rw [← hsz]; exact hi) hb
      have hd : (64 * i + b) / 64 = i := by omega
      have hmod : (64 * i + b) % 64 = b := by omega
      have := h (64 * i + b) hm
      unfold c0 c1 clearBit setBitN bit at this
      have htb : (64 * i + b).testBit (6 + j) = false := by
        rw [testBit_word_split i b (6 + j) hb]
        have h6' : ¬ (6 + j < 6) := by omega
        simp [h6', hclr']
      rw [htb] at this
      simp only [Bool.false_eq_true, if_false] at this
      rw [xor_two_pow_div_64, xor_two_pow_mod_64, hd, hmod] at this
      have h6' : ¬ (6 + j < 6) := by omega
      simp only [h6', if_false, Nat.add_sub_cancel_left] at this
      rw [xor_two_pow_of_clear _ _ hclr'] at this
      rw [hop _ _ _ hb]
      exact this

/-! ## the eight predicates -/

section predicates
variable (n : Nat) (t : Array W) (hs : t.size = tableSize n) (v : Nat) (hv : v < n)
include hs hv

/-- c0 = c1 -/
theorem independent_spec : inputIndependent n t v = some (allB n fun m => c0 t v m == c1 t v m) := by
  have := helper_spec n t hs v hv (fun c0 c1 => ~~~ (c0 ^^^ c1)) (fun a b => a == b) (by
    intro x y b hb
    simp only [BitVec.getLsbD_not, BitVec.getLsbD_xor, hb, decide_true, Bool.true_and]
    cases x.getLsbD b <;> cases y.getLsbD b <;> rfl)
  exact this

/-- c0 = 0 -/
theorem and_spec : inputAnd n t v = some (allB n fun m => !c0 t v m) :=
  helper_spec n t hs v hv (fun c0 _ => ~~~ c0) (fun a _ => !a) (by
    intro x y b hb; simp [hb])

/-- c1 = 1 -/
theorem or_spec : inputOr n t v = some (allB n fun m => c1 t v m) :=
  helper_spec n t hs v hv (fun _ c1 => c1) (fun _ b => b) (by intro x y b hb; rfl)

/-- c0 = 1 -/
theorem nand_spec : inputNand n t v = some (allB n fun m => c0 t v m) :=
  helper_spec n t hs v hv (fun c0 _ => c0) (fun a _ => a) (by intro x y b hb; rfl)

/-- c1 = 0 -/
theorem nor_spec : inputNor n t v = some (allB n fun m => !c1 t v m) :=
  helper_spec n t hs v hv (fun _ c1 => ~~~ c1) (fun _ b => !b) (by
    intro x y b hb; simp [hb])

/-- c0 = not c1 -/
theorem xor_spec : inputXor n t v = some (allB n fun m => c0 t v m != c1 t v m) :=
  helper_spec n t hs v hv (fun c0 c1 => c0 ^^^ c1) (fun a b => a != b) (by
    intro x y b hb; simp)

/-- is_pos_unate: c0 <= c1 pointwise -/
theorem posUnate_spec : inputPosUnate n t v = some (allB n fun m => !c0 t v m || c1 t v m) :=
  helper_spec n t hs v hv (fun c0 c1 => ~~~ c0 ||| c1) (fun a b => !a || b) (by
    intro x y b hb; simp [hb])

/-- is_neg_unate: c1 <= c0 pointwise -/
theorem negUnate_spec : inputNegUnate n t v = some (allB n fun m => !c1 t v m || c0 t v m) :=
  helper_spec n t hs v hv (fun c0 c1 => ~~~ c1 ||| c0) (fun a b => !b || a) (by
    intro x y b hb; simp [hb])

/-- top_decomposition is the property's case list, verbatim:
    Independent iff c0 = c1; otherwise Identity iff c0 = 0 and c1 = 1, Negation iff c0 = 1 and
    c1 = 0; otherwise And iff c0 = 0, Or iff c1 = 1, Le iff c0 = 1, Lt iff c1 = 0,
    Xor iff c0 = not c1, None in all remaining cases. -/
theorem top_spec : topDecomposition n t v = some (
    let eq := allB n fun m => c0 t v m == c1 t v m
    let c0zero := allB n fun m => !c0 t v m
    let c1one := allB n fun m => c1 t v m
    let c0one := allB n fun m => c0 t v m
    let c1zero := allB n fun m => !c1 t v m
    let opp := allB n fun m => c0 t v m != c1 t v m
    if eq then DecompositionType.Independent
    else if c0zero && c1one then .Identity
    else if c0one && c1zero then .Negation
    else if c0zero then .And
    else if c1one then .Or
    else if c0one then .Le
    else if c1zero then .Lt
    else if opp then .Xor
    else .None) := by
  unfold topDecomposition
  rw [independent_spec n t hs v hv, and_spec n t hs v hv, or_spec n t hs v hv, nand_spec n t hs v hv,
    nor_spec n t hs v hv, xor_spec n t hs v hv]
  rfl

end predicates

/-- out-of-range variable or wrong table size: the always-on assertions fire -/
theorem helper_none (n : Nat) (t : Array W) (v : Nat) (op : W → W → W)
    (h : t.size ≠ tableSize n ∨ ¬ v < n) : inputPropertyHelper n t v op = none := by
  unfold inputPropertyHelper
  rcases h with h | h
  · simp [h]
  · by_cases h1 : t.size ≠ tableSize n
    · simp [h1]
    · simp [h1, h]

/-- API layer, both types (`StaticLut` forwards to the same functions with `N`) -/
theorem api_top (l : Lut) (hl : l.WF) (v : Nat) (hv : v < l.n) :
    ∃ d, Dyn.topDecomposition l v = some d ∧
      (d = .Independent ↔ ∀ m, m < 2 ^ l.n → c0 l.t v m = c1 l.t v m) := by
  have h := top_spec l.n l.t hl.1 v hv
  refine ⟨_, h, ?_⟩
  simp only []
  constructor
  · intro hd
    by_cases he : (allB l.n fun m => c0 l.t v m == c1 l.t v m) = true
    · intro m hm; have := (allB_iff _ _).mp he m hm; simpa using this
    · simp only [he, Bool.false_eq_true, if_false] at hd
      split at hd <;> try cases hd
      split at hd <;> try cases hd
      split at hd <;> try cases hd
      split at hd <;> try cases hd
      split at hd <;> try cases hd
      split at hd <;> try cases hd
      split at hd <;> cases hd
  · intro hall
    have : (allB l.n fun m => c0 l.t v m == c1 l.t v m) = true := by
      rw [allB_iff]; intro m hm; simp [hall m hm]
    simp [this]

theorem api_unate (l : Lut) (hl : l.WF) (v : Nat) (hv : v < l.n) :
    (Dyn.isPosUnate l v = some true ↔ ∀ m, m < 2 ^ l.n → (c0 l.t v m = true → c1 l.t v m = true)) ∧
    (Dyn.isNegUnate l v = some true ↔ ∀ m, m < 2 ^ l.n → (c1 l.t v m = true → c0 l.t v m = true)) := by
  constructor
  · unfold Dyn.isPosUnate
    rw [posUnate_spec l.n l.t hl.1 v hv]
    simp only [Option.some.injEq, allB_iff]
    constructor
    · intro h m hm hc; have := h m hm; rw [hc] at this; simpa using this
    · intro h m hm; cases hc : c0 l.t v m
      · simp
      · simp [h m hm hc]
  · unfold Dyn.isNegUnate
    rw [negUnate_spec l.n l.t hl.1 v hv]
    simp only [Option.some.injEq, allB_iff]
    constructor
    · intro h m hm hc; have := h m hm; rw [hc] at this; simpa using this
    · intro h m hm; cases hc : c1 l.t v m
      · simp
      · simp [h m hm hc]

/-- non-vacuity: parity of three variables is Xor-decomposable in x0 -/
example : Dyn.topDecomposition ⟨3, #[0x96#64]⟩ 0 = some .Xor := by decide +kernel
/-- a cross-word variable -/
example : Dyn.topDecomposition ⟨7, #[0x0#64, 0xffffffffffffffff#64]⟩ 6 = some .Identity := by decide +kernel

end VoluteModel.Props.C06

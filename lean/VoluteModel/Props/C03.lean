import VoluteModel.Model.Api
import VoluteModel.Lemmas.CrossWord

/-!
# C03 - flip, swap, cofactors and Shannon recomposition are exact

All statements hold for every `n`, every table with `tableSize n` words, every index below `n`
and every assignment `m < 2^n`, i.e. for all three storage regimes.
-/

namespace VoluteModel.Props.C03
open VoluteModel

/-- assignment `m` with bit `i` cleared / set -/
def clearBit (m i : Nat) : Nat := if m.testBit i then m ^^^ 2 ^ i else m
def setBitN (m i : Nat) : Nat := if m.testBit i then m else m ^^^ 2 ^ i

theorem testBit_mod64 (m i : Nat) (hi : i < 6) : (m % 64).testBit i = m.testBit i := by
  rw [testBit_of_div_mod m i]; simp [hi]

theorem testBit_div64 (m j : Nat) : (m / 64).testBit j = m.testBit (6 + j) := by
  rw [testBit_of_div_mod m (6 + j)]
  have : ¬ (6 + j < 6) := by omega
  simp [this]

/-- flip(i): g(x) = f(x with bit i complemented) -/
theorem flip_bit (n : Nat) (t : Array W) (hs : t.size = tableSize n) (i : Nat) (hi : i < n)
    (m : Nat) (hm : m < 2 ^ n) : bit (flipInplace t i) m = bit t (m ^^^ 2 ^ i) := by
  have hw : m / 64 < t.size := by rw [hs]; exact div64_lt_tableSize hm
  by_cases h5 : i ≤ 5
  · have hi6 : i < 6 := by omega
    have e : flipInplace t i = t.map (flipWord i) := by simp [flipInplace, h5]
    rw [e, bit_map _ _ _ hw, flipWord_bit i hi6 _ _ (mod64_lt m)]
    unfold bit
    rw [xor_two_pow_div_64, xor_two_pow_mod_64]
    simp [hi6, hw]
  · obtain ⟨j, rfl⟩ : ∃ j, i = 6 + j := ⟨i - 6, by omega⟩
    have h6 : 6 ≤ n := by omega
    have hsz := size_pow hs h6
    unfold bit
    rw [flipHi_word t (n - 6) j hsz (by omega) _ hw, xor_two_pow_div_64, xor_two_pow_mod_64]
    have : ¬ (6 + j < 6) := by omega
    simp [this]

/-- cofactor 0 -/
theorem cof0_bit (n : Nat) (t : Array W) (hs : t.size = tableSize n) (i : Nat) (hi : i < n)
    (m : Nat) (hm : m < 2 ^ n) : bit (cofactor0Inplace t i) m = bit t (clearBit m i) := by
  have hw : m / 64 < t.size := by rw [hs]; exact div64_lt_tableSize hm
  unfold clearBit
  by_cases h5 : i ≤ 5
  · have hi6 : i < 6 := by omega
    have e : cofactor0Inplace t i = t.map (cof0Word i) := by simp [cofactor0Inplace, h5]
    rw [e, bit_map _ _ _ hw, cof0Word_bit i hi6 _ _ (mod64_lt m), testBit_mod64 m i hi6]
    unfold bit
    cases hb : m.testBit i
    · simp [hw]
    · simp only [if_true]
      rw [xor_two_pow_div_64, xor_two_pow_mod_64]
      simp [hi6, hw]
  · obtain ⟨j, rfl⟩ : ∃ j, i = 6 + j := ⟨i - 6, by omega⟩
    have h6 : 6 ≤ n := by omega
    have hsz := size_pow hs h6
    unfold bit
    rw [cof0Hi_word t (n - 6) j hsz (by omega) _ hw, testBit_div64]
    cases hb : m.testBit (6 + j)
    · simp
    · simp only [if_true]
      rw [xor_two_pow_div_64, xor_two_pow_mod_64]
      have : ¬ (6 + j < 6) := by omega
      simp [this]

/-- cofactor 1 -/
theorem cof1_bit (n : Nat) (t : Array W) (hs : t.size = tableSize n) (i : Nat) (hi : i < n)
    (m : Nat) (hm : m < 2 ^ n) : bit (cofactor1Inplace t i) m = bit t (setBitN m i) := by
  have hw : m / 64 < t.size := by rw [hs]; exact div64_lt_tableSize hm
  unfold setBitN
  by_cases h5 : i ≤ 5
  · have hi6 : i < 6 := by omega
    have e : cofactor1Inplace t i = t.map (cof1Word i) := by simp [cofactor1Inplace, h5]
    rw [e, bit_map _ _ _ hw, cof1Word_bit i hi6 _ _ (mod64_lt m), testBit_mod64 m i hi6]
    unfold bit
    cases hb : m.testBit i
    · simp only [Bool.false_eq_true, if_false]
      rw [xor_two_pow_div_64, xor_two_pow_mod_64]
      simp [hi6, hw]
    · simp [hw]
  · obtain ⟨j, rfl⟩ : ∃ j, i = 6 + j := ⟨i - 6, by omega⟩
    have h6 : 6 ≤ n := by omega
    have hsz := size_pow hs h6
    unfold bit
    rw [cof1Hi_word t (n - 6) j hsz (by omega) _ hw, testBit_div64]
    cases hb : m.testBit (6 + j)
    · simp only [Bool.false_eq_true, if_false]
      rw [xor_two_pow_div_64, xor_two_pow_mod_64]
      have : ¬ (6 + j < 6) := by omega
      simp [this]
    · simp

/-- the cofactors do not depend on x_i -/
theorem cof0_indep (n : Nat) (t : Array W) (hs : t.size = tableSize n) (i : Nat) (hi : i < n)
    (m : Nat) (hm : m < 2 ^ n) :
    bit (cofactor0Inplace t i) (m ^^^ 2 ^ i) = bit (cofactor0Inplace t i) m := by
  rw [cof0_bit n t hs i hi _ (xor_lt_two_pow_of_lt hm hi), cof0_bit n t hs i hi m hm]
  unfold clearBit
  rw [testBit_xor_two_pow]
  cases hb : m.testBit i
  · simp [Nat.xor_assoc]
  · simp

theorem cof1_indep (n : Nat) (t : Array W) (hs : t.size = tableSize n) (i : Nat) (hi : i < n)
    (m : Nat) (hm : m < 2 ^ n) :
    bit (cofactor1Inplace t i) (m ^^^ 2 ^ i) = bit (cofactor1Inplace t i) m := by
  rw [cof1_bit n t hs i hi _ (xor_lt_two_pow_of_lt hm hi), cof1_bit n t hs i hi m hm]
  unfold setBitN
  rw [testBit_xor_two_pow]
  cases hb : m.testBit i
  · simp
  · simp [Nat.xor_assoc]

/-- from_cofactors(c0, c1, i): c0 where x_i = 0, c1 where x_i = 1 -/
theorem fromCof_bit (n : Nat) (t t0 t1 : Array W) (hs : t.size = tableSize n)
    (hs0 : t0.size = tableSize n) (hs1 : t1.size = tableSize n) (i : Nat) (hi : i < n)
    (m : Nat) (hm : m < 2 ^ n) :
    bit (fromCofactorsInplace t t0 t1 i) m = if m.testBit i then bit t1 m else bit t0 m := by
  have hw : m / 64 < t.size := by rw [hs]; exact div64_lt_tableSize hm
  by_cases h5 : i ≤ 5
  · have hi6 : i < 6 := by omega
    unfold fromCofactorsInplace
    simp only [h5, if_true]
    rw [bit_mapIdx _ _ _ hw, fromCofWord_bit i hi6 _ _ _ (mod64_lt m), testBit_mod64 m i hi6]
    unfold bit; rfl
  · obtain ⟨j, rfl⟩ : ∃ j, i = 6 + j := ⟨i - 6, by omega⟩
    unfold fromCofactorsInplace
    simp only [h5, if_false, Nat.add_sub_cancel_left]
    rw [bit_mapIdx _ _ _ hw]
    simp only [Nat.shiftLeft_eq, Nat.one_mul, and_two_pow_eq_zero, testBit_div64]
    unfold bit
    cases m.testBit (6 + j) <;> simp

/-- Shannon recomposition of the two cofactors gives the function back -/
theorem shannon (n : Nat) (t z : Array W) (hs : t.size = tableSize n) (hz : z.size = tableSize n)
    (i : Nat) (hi : i < n) (m : Nat) (hm : m < 2 ^ n) :
    bit (fromCofactorsInplace z (cofactor0Inplace t i) (cofactor1Inplace t i) i) m = bit t m := by
  rw [fromCof_bit n z _ _ hz (by rw [cofactor0Inplace_size, hs]) (by rw [cofactor1Inplace_size, hs]) i hi m hm]
  cases hb : m.testBit i
  · simp only [Bool.false_eq_true, if_false]
    rw [cof0_bit n t hs i hi m hm]; unfold clearBit; simp [hb]
  · simp only [if_true]
    rw [cof1_bit n t hs i hi m hm]; unfold setBitN; simp [hb]

theorem swapInplace_comm (t : Array W) (i j : Nat) : swapInplace t i j = swapInplace t j i := by
  unfold swapInplace
  by_cases h : i = j
  · subst h; rfl
  · have h' : ¬ j = i := fun e => h e.symm
    simp only [h, h', if_false, Nat.max_comm i j, Nat.min_comm i j]

/-- swap, larger index first -/
theorem swap_bit_ordered (n : Nat) (t : Array W) (hs : t.size = tableSize n) (i j : Nat) (hji : j < i) (hi : i < n)
    (m : Nat) (hm : m < 2 ^ n) : bit (swapInplace t i j) m = bit t (exch i j m) := by
  have hw : m / 64 < t.size := by rw [hs]; exact div64_lt_tableSize hm
  by_cases h5 : i ≤ 5
  · have hi6 : i < 6 := by omega
    have hj6 : j < 6 := by omega
    have e : swapInplace t i j = t.map (swapWord i j) := by
      unfold swapInplace
      have h1 : ¬ i = j := by omega
      have h2 : max i j = i := by omega
      have h3 : min i j = j := by omega
      simp only [h1, if_false, h2, h3, h5, if_true]
    rw [e, bit_map _ _ _ hw, swapWord_bit i j hi6 hji _ _ (mod64_lt m)]
    obtain ⟨e1, e2⟩ := exch_split_lo i j m hi6 hj6
    unfold bit
    rw [e1, e2]
    simp [hw]
  · obtain ⟨i', rfl⟩ : ∃ i', i = 6 + i' := ⟨i - 6, by omega⟩
    have h6 : 6 ≤ n := by omega
    have hsz := size_pow hs h6
    by_cases hj5 : j ≤ 5
    · have hj6 : j < 6 := by omega
      obtain ⟨e1, e2⟩ := exch_split_mixed i' j m hj6
      unfold bit
      rw [swapMixed_word t (n - 6) i' j hj5 hsz (by omega) _ hw, e1, e2]
      obtain ⟨p1, p2⟩ := swapMixedPair_bit j hj6 (t[m / 64]?.getD 0) (t[m / 64 + 2 ^ i']?.getD 0) (m % 64) (mod64_lt m)
      obtain ⟨q1, q2⟩ := swapMixedPair_bit j hj6 (t[m / 64 - 2 ^ i']?.getD 0) (t[m / 64]?.getD 0) (m % 64) (mod64_lt m)
      cases ha : (m / 64).testBit i'
      · simp only [if_true]
        rw [p1]
        cases hb : (m % 64).testBit j
        · simp
        · simp [xor_two_pow_of_clear _ _ ha]
      · simp only [Bool.true_eq_false, if_false]
        rw [q2]
        cases hb : (m % 64).testBit j
        · simp [(xor_two_pow_of_set _ _ ha).1]
        · simp
    · obtain ⟨j', rfl⟩ : ∃ j', j = 6 + j' := ⟨j - 6, by omega⟩
      obtain ⟨e1, e2⟩ := exch_split_hi i' j' m
      unfold bit
      rw [swapHi_word t (n - 6) i' j' (by omega) hsz (by omega) _ hw, e1, e2]

/-- swap(i,j): g(x) = f(x with bits i and j exchanged), for all three storage regimes -/
theorem swap_bit (n : Nat) (t : Array W) (hs : t.size = tableSize n) (i j : Nat) (hi : i < n) (hj : j < n)
    (m : Nat) (hm : m < 2 ^ n) : bit (swapInplace t i j) m = bit t (exch i j m) := by
  rcases Nat.lt_trichotomy i j with h | h | h
  · rw [swapInplace_comm, exch_comm]
    exact swap_bit_ordered n t hs j i h hj m hm
  · subst h
    simp [swapInplace, exch_self]
  · exact swap_bit_ordered n t hs i j h hi m hm

/-- swap_adjacent(i) = swap(i, i+1) -/
theorem swapAdjacent_eq (t : Array W) (i : Nat) : swapAdjacentInplace t i = swapInplace t i (i + 1) := rfl

/-! ## the API layer: in-place and copying forms are the same function, guards are `check_var` -/

theorem api_flip (l : Lut) (i : Nat) (hl : l.WF) (hi : i < l.n) :
    ∃ r, Dyn.flip l i = some r ∧ Dyn.flipInplace l i = some r ∧ r.n = l.n ∧
      ∀ m, m < 2 ^ l.n → r.eval m = l.eval (m ^^^ 2 ^ i) := by
  refine ⟨{ l with t := flipInplace l.t i }, ?_, ?_, rfl, ?_⟩
  · simp [Dyn.flip, Dyn.flipInplace, Dyn.checkVar, hi]
  · simp [Dyn.flipInplace, Dyn.checkVar, hi]
  · intro m hm; exact flip_bit l.n l.t hl.1 i hi m hm

theorem api_swap (l : Lut) (i j : Nat) (hl : l.WF) (hi : i < l.n) (hj : j < l.n) :
    ∃ r, Dyn.swap l i j = some r ∧ Dyn.swapInplace l i j = some r ∧ r.n = l.n ∧
      ∀ m, m < 2 ^ l.n → r.eval m = l.eval (exch i j m) := by
  refine ⟨{ l with t := swapInplace l.t i j }, ?_, ?_, rfl, ?_⟩
  · simp [Dyn.swap, Dyn.swapInplace, Dyn.checkVar, hi, hj]
  · simp [Dyn.swapInplace, Dyn.checkVar, hi, hj]
  · intro m hm; exact swap_bit l.n l.t hl.1 i j hi hj m hm

theorem api_cofactors (l : Lut) (i : Nat) (hl : l.WF) (hi : i < l.n) :
    ∃ c0 c1, Dyn.cofactors l i = some (c0, c1) ∧ c0.n = l.n ∧ c1.n = l.n ∧
      (∀ m, m < 2 ^ l.n → c0.eval m = l.eval (clearBit m i) ∧ c1.eval m = l.eval (setBitN m i)) ∧
      ∃ r, Dyn.fromCofactors c0 c1 i = some r ∧ r.n = l.n ∧ ∀ m, m < 2 ^ l.n → r.eval m = l.eval m := by
  refine ⟨{ l with t := cofactor0Inplace l.t i }, { l with t := cofactor1Inplace l.t i }, ?_, rfl, rfl, ?_, ?_⟩
  · simp [Dyn.cofactors, Dyn.checkVar, hi]
  · intro m hm
    exact ⟨cof0_bit l.n l.t hl.1 i hi m hm, cof1_bit l.n l.t hl.1 i hi m hm⟩
  · refine ⟨⟨l.n, fromCofactorsInplace (Dyn.new l.n).t (cofactor0Inplace l.t i) (cofactor1Inplace l.t i) i⟩, ?_, rfl, ?_⟩
    · simp [Dyn.fromCofactors, Dyn.checkVar, hi]
    · intro m hm
      exact shannon l.n l.t _ hl.1 (by simp [Dyn.new]) i hi m hm

/-- non-vacuity: a 7-variable table (two words) and the cross-word variable 6 -/
example : (⟨7, #[0xfee8e880e8808000#64, 0xfffefee8fee8e880#64]⟩ : Lut).WF ∧ 6 < 7 := by
  constructor
  · unfold Lut.WF; decide +kernel
  · omega

end VoluteModel.Props.C03

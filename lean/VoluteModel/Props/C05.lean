import VoluteModel.Lemmas.SeqFacts
import VoluteModel.Model.Api

/-!
# C05 - canonization witnesses (permutation, complementation mask) map input to result

`CertRel n f c perm mask` is the reading of the certificate in the property:
`c(y) = f(x) xor mask[n]` where `x[perm[i]] = y[i] xor mask[i]` for all i.

Proved for every n: P for every n >= 2, N and NPN for every n <= 64 (the width of
`trailing_zeros` in the Gray-flip generator); the property quantifies over n <= 8.  The sequence
facts are kernel-evaluated for the tables n <= 6 regenerated from the source
(Lemmas/SeqFacts.lean) and PROVED for the run-time generators for every n
(Lemmas/Gray.lean, Lemmas/Sjt.lean); the walk/certificate argument itself (Lemmas/CanonMain.lean)
is for every n and every admissible closed sequence.
-/

namespace VoluteModel.Props.C05
open VoluteModel

/-- what the walk over the macro-step list `ms` returns (the result is the state after `k` steps) -/
structure ResultAt (n : Nat) (f c : Array W) (perm : Array Nat) (mask : Nat) (ms : List (List Elem)) (k : Nat) : Prop where
  k_pos : 1 ≤ k
  k_le : k ≤ ms.length
  table : c = stateAt (applyElems n) f ms k
  cert : (perm, mask) = certAt n ms k
  rel : CertRel n f c perm mask
  minimal : ∀ j, j ≤ ms.length → ltT (stateAt (applyElems n) f ms j) c = false
  rels : ∀ j, j ≤ ms.length → CertRel n f (stateAt (applyElems n) f ms j) (certAt n ms j).1 (certAt n ms j).2

def Result (n : Nat) (f c : Array W) (perm : Array Nat) (mask : Nat) (ms : List (List Elem)) : Prop :=
  ∃ k, ResultAt n f c perm mask ms k

theorem Result.rel {n f c perm mask ms} (r : Result n f c perm mask ms) : CertRel n f c perm mask := by
  obtain ⟨k, rk⟩ := r; exact rk.rel

theorem result_of_walk (n : Nat) (f : Array W) (hf : WF n f) (ms : List (List Elem)) (hne : 1 ≤ ms.length)
    (hsafe : Safe n (Array.range n, 0) ms.flatten) (hc : certAt n ms ms.length = (Array.range n, 0)) :
    let r := mwalk n ⟨f, f, ms.length - 1, 0⟩ ms
    r.bestInd < ms.length ∧
    Result n f r.best (certAt n ms (r.bestInd + 1)).1 (certAt n ms (r.bestInd + 1)).2 ms := by
  intro r
  have hclosed := closed_of_cert n f hf ms hsafe hc
  obtain ⟨h1, h2, h3, h4⟩ := walk_result n f hf.1 ms hne hsafe hclosed
  refine ⟨h1, ⟨r.bestInd + 1, ⟨by omega, h1, h2, rfl, ?_, h3, h4⟩⟩⟩
  rw [h2]; exact h4 _ h1

/-! ## P -/

theorem p_safe (n : Nat) (swaps : List Nat) (hs : SwapFacts n swaps) :
    Safe n (Array.range n, 0) (macroP swaps).flatten ∧
    certAt n (macroP swaps) (macroP swaps).length = (Array.range n, 0) := by
  have hz : LowZero n 0 := fun i _ => by simp
  obtain ⟨s1, s2⟩ := safe_swaps n (Array.range n) 0 swaps hs.valid hz
  refine ⟨by rw [macroP_flatten]; exact s1, ?_⟩
  unfold certAt
  rw [List.take_length, macroP_flatten]
  exact Prod.ext hs.closed s2

theorem p_mask_zero (n : Nat) (swaps : List Nat) (hs : SwapFacts n swaps) (k : Nat) :
    (certAt n (macroP swaps) k).2 = 0 := by
  unfold certAt
  have : ((macroP swaps).take k).flatten = (swaps.take k).map Elem.swap := by
    rw [← macroP_flatten]; simp [macroP, List.map_take]
  rw [this]
  have hz : LowZero n 0 := fun i _ => by simp
  exact (safe_swaps n (Array.range n) 0 (swaps.take k) (fun s hs' => hs.valid s (List.mem_of_mem_take hs')) hz).2

/-- P canonization, n >= 2: result, certificate, minimality over the walk -/
theorem p_result (n : Nat) (f : Array W) (hf : WF n f) (h2 : 2 ≤ n) (swaps : List Nat) (hsw : swapsFor n = some swaps)
    (hs : SwapFacts n swaps) :
    ∃ c perm, pCanonization n f = some (c, perm) ∧ Result n f c perm 0 (macroP swaps) := by
  have hne : 1 ≤ (macroP swaps).length := by
    rw [macroP_length]
    match swaps, hs.ne with
    | _ :: _, _ => simp
  obtain ⟨hsafe, hc⟩ := p_safe n swaps hs
  obtain ⟨hb, hres⟩ := result_of_walk n f hf (macroP swaps) hne hsafe hc
  rw [macroP_length] at hb
  have hn1 : ¬ n ≤ 1 := by omega
  refine ⟨(mwalk n ⟨f, f, (macroP swaps).length - 1, 0⟩ (macroP swaps)).best,
    (certAt n (macroP swaps) ((mwalk n ⟨f, f, (macroP swaps).length - 1, 0⟩ (macroP swaps)).bestInd + 1)).1, ?_, ?_⟩
  · unfold pCanonization
    simp only [hn1, if_false, hsw]
    rw [pCanonInd_eq n f swaps, ← macroP_length swaps, pCanonRes_eq n swaps _ hs.valid (by rw [macroP_length]; exact hb)]
    rfl
  · have := hres
    rw [p_mask_zero n swaps hs] at this
    exact this

/-! ## N -/

theorem n_safe (n : Nat) (flips : List Nat) (hfl : FlipFacts n flips) :
    Safe n (Array.range n, 0) (macroN flips).flatten ∧
    certAt n (macroN flips) (macroN flips).length = (Array.range n, 0) := by
  refine ⟨safe_macroN n _ 0 flips hfl.valid, ?_⟩
  unfold certAt
  rw [List.take_length, certAfter_macroN, hfl.closed]
  rfl

theorem noswap_perm (n : Nat) (es : List Elem) (st : Array Nat × Nat) (h : ∀ e ∈ es, ∀ q, e ≠ Elem.swap q) :
    (certAfter n st es).1 = st.1 := by
  induction es generalizing st with
  | nil => rfl
  | cons e es ih =>
    simp only [certAfter, List.foldl_cons] at ih ⊢
    rw [ih _ (fun x hx => h x (by simp [hx]))]
    cases e with
    | swap q => exact absurd rfl (h (Elem.swap q) (by simp) q)
    | flip f => rfl
    | neg => rfl

theorem macroN_noswap (flips : List Nat) (k : Nat) : ∀ e ∈ ((macroN flips).take k).flatten, ∀ q, e ≠ Elem.swap q := by
  intro e he q
  rw [List.mem_flatten] at he
  obtain ⟨m, hm, hem⟩ := he
  have hm' : m ∈ macroN flips := List.mem_of_mem_take hm
  simp only [macroN, List.mem_flatMap] at hm'
  obtain ⟨f, _, hmf⟩ := hm'
  simp only [List.mem_cons, List.mem_singleton, List.not_mem_nil, or_false] at hmf
  rcases hmf with rfl | rfl
  · simp only [List.mem_cons, List.not_mem_nil, or_false] at hem
    rcases hem with rfl | rfl <;> simp
  · simp only [List.mem_singleton] at hem
    subst hem; simp

/-- N canonization, n >= 1: the permutation is the identity -/
theorem n_result (n : Nat) (f : Array W) (hf : WF n f) (h1 : 1 ≤ n) (flips : List Nat) (hfl' : flipsFor n = some flips)
    (hfl : FlipFacts n flips) :
    ∃ c mask, nCanonization n f = some (c, mask) ∧ Result n f c (Array.range n) mask (macroN flips) := by
  have hne : 1 ≤ (macroN flips).length := by
    rw [macroN_length]
    match flips, hfl.ne with
    | _ :: _, _ => simp only [List.length_cons]; omega
  obtain ⟨hsafe, hc⟩ := n_safe n flips hfl
  obtain ⟨hb, hres⟩ := result_of_walk n f hf (macroN flips) hne hsafe hc
  have hlen := macroN_length flips
  have hn0 : ¬ n = 0 := by omega
  refine ⟨(mwalk n ⟨f, f, (macroN flips).length - 1, 0⟩ (macroN flips)).best,
    (certAt n (macroN flips) ((mwalk n ⟨f, f, (macroN flips).length - 1, 0⟩ (macroN flips)).bestInd + 1)).2, ?_, ?_⟩
  · unfold nCanonization
    simp only [hn0, if_false, hfl']
    rw [nCanonInd_eq n f flips, ← hlen, nCanonRes_eq n flips _ (by rw [← hlen]; exact hb)]
    rfl
  · have hp : (certAt n (macroN flips) ((mwalk n ⟨f, f, (macroN flips).length - 1, 0⟩ (macroN flips)).bestInd + 1)).1 = Array.range n := by
      unfold certAt
      exact noswap_perm n _ _ (macroN_noswap flips _)
    have := hres
    rw [hp] at this
    exact this

/-! ## NPN -/

theorem npn_perm (n : Nat) (swaps flips : List Nat) (p : Array Nat) (m : Nat) :
    (certAfter n (p, m) (macroNPN swaps flips).flatten).1 = (certAfter n (p, 0) (swaps.map Elem.swap)).1 ∨ flips = [] := by
  by_cases hf : flips = []
  · exact Or.inr hf
  · left
    induction swaps generalizing p m with
    | nil => simp [macroNPN, certAfter]
    | cons s ss ih =>
      have hnpn : macroNPN (s :: ss) flips = macroBlock s flips ++ macroNPN ss flips := by simp [macroNPN]
      rw [hnpn, List.flatten_append, macroBlock_flatten s flips hf]
      simp only [List.cons_append, List.map_cons, certAfter, List.foldl_cons, List.foldl_append, rstepE]
      have e1 : List.foldl (rstepE n) (p.swapIfInBounds s (s + 1), m) (macroN flips).flatten =
          (p.swapIfInBounds s (s + 1), m ^^^ xorFlips flips) := certAfter_macroN n _ m flips
      rw [e1]
      exact ih (p.swapIfInBounds s (s + 1)) (m ^^^ xorFlips flips)

theorem npn_safe (n : Nat) (swaps flips : List Nat) (hs : SwapFacts n swaps) (hfl : FlipFacts n flips) :
    Safe n (Array.range n, 0) (macroNPN swaps flips).flatten ∧
    certAt n (macroNPN swaps flips) (macroNPN swaps flips).length = (Array.range n, 0) := by
  have hz : LowZero n 0 := fun i _ => by simp
  obtain ⟨s1, s2⟩ := safe_macroNPN n swaps flips hfl.ne hs.valid hfl.valid hfl.closed (Array.range n) 0 hz
  refine ⟨s1, ?_⟩
  unfold certAt
  rw [List.take_length]
  apply Prod.ext
  · rcases npn_perm n swaps flips (Array.range n) 0 with h | h
    · rw [h]; exact hs.closed
    · exact absurd h hfl.ne
  · exact s2

/-- NPN canonization, n >= 2 -/
theorem npn_result (n : Nat) (f : Array W) (hf : WF n f) (h2 : 2 ≤ n) (swaps flips : List Nat)
    (hsw : swapsFor n = some swaps) (hfl' : flipsFor n = some flips) (hs : SwapFacts n swaps) (hfl : FlipFacts n flips) :
    ∃ c perm mask, npnCanonization n f = some (c, perm, mask) ∧ Result n f c perm mask (macroNPN swaps flips) := by
  have hlen := macroNPN_length swaps flips hfl.ne
  have hne : 1 ≤ (macroNPN swaps flips).length := by
    rw [hlen]
    match swaps, hs.ne, flips, hfl.ne with
    | _ :: ss, _, _ :: fs, _ =>
      simp only [List.length_cons]
      have : 1 ≤ (ss.length + 1) * (fs.length + 1) := Nat.mul_pos (by omega) (by omega)
      rw [Nat.mul_assoc]; omega
  obtain ⟨hsafe, hc⟩ := npn_safe n swaps flips hs hfl
  obtain ⟨hb, hres⟩ := result_of_walk n f hf (macroNPN swaps flips) hne hsafe hc
  have hn1 : ¬ n ≤ 1 := by omega
  refine ⟨(mwalk n ⟨f, f, (macroNPN swaps flips).length - 1, 0⟩ (macroNPN swaps flips)).best,
    (certAt n (macroNPN swaps flips) ((mwalk n ⟨f, f, (macroNPN swaps flips).length - 1, 0⟩ (macroNPN swaps flips)).bestInd + 1)).1,
    (certAt n (macroNPN swaps flips) ((mwalk n ⟨f, f, (macroNPN swaps flips).length - 1, 0⟩ (macroNPN swaps flips)).bestInd + 1)).2,
    ?_, hres⟩
  unfold npnCanonization
  simp only [hn1, if_false, hsw, hfl']
  rw [npnCanonInd_eq n f swaps flips hfl.ne, ← hlen, npnCanonRes_eq n swaps flips _ hfl.ne hs.valid (by rw [← hlen]; exact hb)]
  rfl

/-! ## the certificate statements of the property -/

theorem mask_bound (n : Nat) (es : List Elem) (st : Array Nat × Nat) (h : st.2 < 2 ^ (n + 1))
    (hv : ∀ e ∈ es, ∀ f, e = Elem.flip f → f < n) : (certAfter n st es).2 < 2 ^ (n + 1) := by
  induction es generalizing st with
  | nil => exact h
  | cons e es ih =>
    simp only [certAfter, List.foldl_cons] at ih ⊢
    apply ih
    · cases e with
      | swap s => exact h
      | flip f =>
        simp only [rstepE, Nat.shiftLeft_eq, Nat.one_mul]
        exact Nat.xor_lt_two_pow h (Nat.pow_lt_pow_right (by omega) (by have := hv _ (by simp) f rfl; omega))
      | neg =>
        simp only [rstepE, Nat.shiftLeft_eq, Nat.one_mul]
        exact Nat.xor_lt_two_pow h (Nat.pow_lt_pow_right (by omega) (by omega))
    · intro e' he' f hf; exact hv e' (by simp [he']) f hf

/-- certificate facts common to the three walks: perm is a permutation, mask has no bit above n -/
theorem result_wellformed (n : Nat) (f c : Array W) (perm : Array Nat) (mask : Nat) (ms : List (List Elem))
    (hsafe : Safe n (Array.range n, 0) ms.flatten) (r : Result n f c perm mask ms) :
    IsPerm n perm ∧ mask < 2 ^ (n + 1) := by
  obtain ⟨k, rk⟩ := r
  have hv := safe_valid n _ _ (Safe_prefix n _ ms k hsafe)
  have hc := rk.cert
  unfold certAt at hc
  constructor
  · have := certAfter_isPerm n (Array.range n, 0) (ms.take k).flatten (isPerm_range n)
      (fun e he s hs => (hv e he).1 s hs)
    rw [← hc] at this; exact this
  · have := mask_bound n (ms.take k).flatten (Array.range n, 0) (Nat.two_pow_pos _)
      (fun e he f hf => (hv e he).2 f hf)
    rw [← hc] at this; exact this

/-- **C05, P**: for every f of n >= 2 variables the returned permutation is a permutation of
    0..n, no complementation is used, and the certificate maps f to the result - also when f is
    already its own representative. -/
theorem p_certificate (n : Nat) (h2 : 2 ≤ n) (f : Array W) (hf : WF n f) :
    ∃ c perm, pCanonization n f = some (c, perm) ∧ IsPerm n perm ∧ CertRel n f c perm 0 := by
  obtain ⟨sw, hsw, hs, _⟩ := swapsFor_facts n h2
  obtain ⟨c, perm, h1, r⟩ := p_result n f hf h2 sw hsw hs
  exact ⟨c, perm, h1, (result_wellformed n f c perm 0 _ (p_safe n sw hs).1 r).1, r.rel⟩

/-- **C05, N** -/
theorem n_certificate (n : Nat) (h1 : 1 ≤ n) (h64 : n ≤ 64) (f : Array W) (hf : WF n f) :
    ∃ c mask, nCanonization n f = some (c, mask) ∧ mask < 2 ^ (n + 1) ∧ CertRel n f c (Array.range n) mask := by
  obtain ⟨fl, hfl', hfl, _⟩ := flipsFor_facts n h1 h64
  obtain ⟨c, mask, h, r⟩ := n_result n f hf h1 fl hfl' hfl
  exact ⟨c, mask, h, (result_wellformed n f c _ mask _ (n_safe n fl hfl).1 r).2, r.rel⟩

/-- **C05, NPN** -/
theorem npn_certificate (n : Nat) (h2 : 2 ≤ n) (h64 : n ≤ 64) (f : Array W) (hf : WF n f) :
    ∃ c perm mask, npnCanonization n f = some (c, perm, mask) ∧ IsPerm n perm ∧ mask < 2 ^ (n + 1) ∧
      CertRel n f c perm mask := by
  obtain ⟨sw, hsw, hs, _⟩ := swapsFor_facts n h2
  obtain ⟨fl, hfl', hfl, _⟩ := flipsFor_facts n (by omega) (by omega)
  obtain ⟨c, perm, mask, h, r⟩ := npn_result n f hf h2 sw fl hsw hfl' hs hfl
  obtain ⟨w1, w2⟩ := result_wellformed n f c perm mask _ (npn_safe n sw fl hs hfl).1 r
  exact ⟨c, perm, mask, h, w1, w2, r.rel⟩

/-! ## the small sizes, handled explicitly by the code -/

/-- P for n <= 1: the identity -/
theorem p_small (n : Nat) (h : n ≤ 1) (f : Array W) :
    pCanonization n f = some (f, Array.range n) ∧ CertRel n f f (Array.range n) 0 := by
  unfold pCanonization
  simp only [h, if_true]
  exact ⟨trivial, cert_init n f⟩

/-- N for n = 0: only the output complement -/
theorem n_zero (f : Array W) (hf : WF 0 f) :
    ∃ c mask, nCanonization 0 f = some (c, mask) ∧ mask < 2 ∧ CertRel 0 f c (Array.range 0) mask := by
  unfold nCanonization
  simp only [if_true]
  by_cases hc : (cmpTables (notInplace 0 f) f == Ordering.lt) = true
  · refine ⟨notInplace 0 f, 1, by simp [hc], by omega, ?_⟩
    have := cert_elem 0 f f (Array.range 0) 0 Elem.neg hf.1 (by simp) (cert_init 0 f) trivial
    simpa [applyElem, rstepE] using this
  · refine ⟨f, 0, by simp [hc], by omega, cert_init 0 f⟩

/-- NPN for n <= 1 reduces to N with the identity permutation -/
theorem npn_small (n : Nat) (h : n ≤ 1) (f : Array W) :
    npnCanonization n f = (nCanonization n f).map (fun r => (r.1, Array.range n, r.2)) := by
  unfold npnCanonization
  simp only [h, if_true]

/-- API level (both types go through the same functions): the certificate returned with
    `npn_canonization` for any function of 0..64 variables -/
theorem api_npn (l : Lut) (hl : l.WF) (h64 : l.n ≤ 64) :
    ∃ c perm mask, Dyn.npnCanonization l = some (c, perm, mask) ∧ c.n = l.n ∧ IsPerm l.n perm ∧
      mask < 2 ^ (l.n + 1) ∧ CertRel l.n l.t c.t perm mask := by
  by_cases h2 : 2 ≤ l.n
  · obtain ⟨c, perm, mask, h, w1, w2, w3⟩ := npn_certificate l.n h2 h64 l.t hl
    exact ⟨⟨l.n, c⟩, perm, mask, by simp [Dyn.npnCanonization, h], rfl, w1, w2, w3⟩
  · have hle : l.n ≤ 1 := by omega
    by_cases h0 : l.n = 0
    · have hl0 : WF 0 l.t := by rw [← h0]; exact hl
      obtain ⟨c, mask, h, w2, w3⟩ := n_zero l.t hl0
      refine ⟨⟨l.n, c⟩, Array.range l.n, mask, ?_, rfl, isPerm_range _, ?_, ?_⟩
      · unfold Dyn.npnCanonization
        rw [npn_small l.n hle, h0, h]; rfl
      · rw [h0]; omega
      · rw [h0]; exact w3
    · have h1 : 1 ≤ l.n := by omega
      obtain ⟨c, mask, h, w2, w3⟩ := n_certificate l.n h1 (by omega) l.t hl
      exact ⟨⟨l.n, c⟩, Array.range l.n, mask, by simp [Dyn.npnCanonization, npn_small l.n hle, h], rfl,
        isPerm_range _, w2, w3⟩

/-- non-vacuity: majority-3 is its own P representative; the certificate is the identity walk's
    closing element (this is the case the pinned tree got wrong) -/
example : (pCanonization 3 #[0xe8#64]).map (·.1) = some #[0xe8#64] := by decide +kernel

end VoluteModel.Props.C05

import VoluteModel.Lemmas.Lexer
import VoluteModel.Props.C12
import VoluteModel.Props.C13
import VoluteModel.Props.C14

/-!
# C16 - the printed text of cubes and two-level forms is a formula denoting the same function

Two layers: every `Display` output is `render` of a token list (character level: `lex ∘ render
= id`, Lemmas/Lexer.lean), and the token list evaluates, under the grammar's evaluator
(Spec/EvalText.lean), to the value the object itself returns.
-/

namespace VoluteModel.Props.C16
open VoluteModel VoluteModel.Spec VoluteModel.Props.C12

/-! ## cubes -/

def cubeLoopToks : Nat → W32 → W32 → Nat → List Tok
  | 0, _, _, _ => []
  | fuel + 1, pos, neg, i =>
    if pos != 0 || neg != 0 then
      (if pos &&& 1 != 0 then [Tok.var i] else []) ++
      (if neg &&& 1 != 0 then [Tok.not, Tok.var i] else []) ++
      cubeLoopToks fuel (pos >>> 1) (neg >>> 1) (i + 1)
    else []

def cubeToks (c : Cube) : List Tok :=
  if c.isOne then [Tok.one] else if c.isZero then [Tok.zero] else cubeLoopToks 32 c.pos c.neg 0

theorem cubeLoop_render (fuel : Nat) (p q : W32) (i : Nat) :
    Display.cubeLoop fuel p q i = render (cubeLoopToks fuel p q i) := by
  induction fuel generalizing p q i with
  | zero => rfl
  | succ f ih =>
    simp only [Display.cubeLoop, cubeLoopToks]
    split
    · rw [render_append, render_append, ih]
      congr 1
      congr 1
      · split <;> simp [render, Display.xLit]
      · split <;> simp [render, Display.xLit]
    · rfl

/-- character level: the printed cube is the rendering of its tokens -/
theorem cube_render (c : Cube) : Display.cube c = render (cubeToks c) := by
  unfold Display.cube cubeToks
  split
  · rfl
  · split
    · rfl
    · exact cubeLoop_render 32 c.pos c.neg 0

theorem and_one_ne (x : W32) : (x &&& 1 != 0) = x.getLsbD 0 := by
  have h : (x &&& 1#32) = if x.getLsbD 0 then 1#32 else 0#32 := by
    apply BitVec.eq_of_getLsbD_eq
    intro k hk
    rw [BitVec.getLsbD_and]
    cases k with
    | zero => cases hb : x.getLsbD 0 <;> simp [hb]
    | succ k =>
      have : (1#32).getLsbD (k + 1) = false := by simp [BitVec.getLsbD_one]
      rw [this]
      cases hb : x.getLsbD 0 <;> simp [this]
  show (x &&& 1#32 != 0#32) = _
  rw [h]
  cases x.getLsbD 0 <;> decide

/-- the only tokens of a cube product are variables and complements, a complement is followed by
    a variable, indices stay below 32 -/
def ProdToks : List Tok → Prop
  | [] => True
  | .var i :: r => i < 32 ∧ ProdToks r
  | .not :: .var i :: r => i < 32 ∧ ProdToks r
  | _ => False

theorem prodToks_append (a b : List Tok) (ha : ProdToks a) (hb : ProdToks b) : ProdToks (a ++ b) := by
  match a, ha with
  | [], _ => exact hb
  | .var i :: r, ⟨hi, hr⟩ => exact ⟨hi, prodToks_append r b hr hb⟩
  | .not :: .var i :: r, ⟨hi, hr⟩ => exact ⟨hi, prodToks_append r b hr hb⟩

theorem cubeLoopToks_prod (fuel : Nat) (p q : W32) (i : Nat) (hi : i + fuel ≤ 32) :
    ProdToks (cubeLoopToks fuel p q i) := by
  induction fuel generalizing p q i with
  | zero => trivial
  | succ f ih =>
    simp only [cubeLoopToks]
    split
    · apply prodToks_append
      · apply prodToks_append
        · split
          · exact ⟨by omega, trivial⟩
          · trivial
        · split
          · exact ⟨by omega, trivial⟩
          · trivial
      · exact ih _ _ _ (by omega)
    · trivial

/-- the next token is not a constant -/
def NoConstHead (rest : List Tok) : Prop :=
  match rest with | .zero :: _ => False | .one :: _ => False | _ => True

theorem WFT_var (i : Nat) (rest : List Tok) (hi : i < 32) (h : NoConstHead rest) (hr : WFT rest) :
    WFT (Tok.var i :: rest) := ⟨hi, h, hr⟩

/-- a product's tokens lex back: WFT, and they contain no operator -/
theorem prodToks_WFT_append : ∀ (a rest : List Tok), ProdToks a → WFT rest → NoConstHead rest → WFT (a ++ rest)
  | [], rest, _, hr, _ => hr
  | [.var i], rest, ⟨hi, _⟩, hr, hrest => WFT_var i rest hi hrest hr
  | .var i :: .var j :: r, rest, ⟨hi, hr'⟩, hr, hrest =>
    WFT_var i _ hi trivial (prodToks_WFT_append (.var j :: r) rest hr' hr hrest)
  | .var i :: .not :: r, rest, ⟨hi, hr'⟩, hr, hrest =>
    WFT_var i _ hi trivial (prodToks_WFT_append (.not :: r) rest hr' hr hrest)
  | .not :: .var i :: r, rest, ⟨hi, hr'⟩, hr, hrest =>
    prodToks_WFT_append (.var i :: r) rest ⟨hi, hr'⟩ hr hrest

theorem prodToks_noop (a : List Tok) (ha : ProdToks a) : Tok.xor ∉ a ∧ Tok.or ∉ a := by
  match a, ha with
  | [], _ => simp
  | .var i :: r, ⟨_, hr⟩ => have := prodToks_noop r hr; simp [this]
  | .not :: .var i :: r, ⟨_, hr⟩ => have := prodToks_noop r hr; simp [this]

/-- evaluation of the atoms of a product -/
theorem evalAtoms_append (a : Nat) (x y : List Tok) (vx : List Bool) (hx : evalAtoms a x false = some vx) :
    evalAtoms a (x ++ y) false = (evalAtoms a y false).map (vx ++ ·) := by
  have gen : ∀ (x : List Tok) (neg : Bool) (vx : List Bool), evalAtoms a x neg = some vx →
      evalAtoms a (x ++ y) neg = (evalAtoms a y false).map (vx ++ ·) := by
    intro x
    induction x with
    | nil =>
      intro neg vx h
      cases neg with
      | false => simp only [evalAtoms, Option.some.injEq] at h; subst h; simp
      | true => simp [evalAtoms] at h
    | cons t x ih =>
      intro neg vx h
      cases t with
      | not =>
        simp only [evalAtoms, List.cons_append] at h ⊢
        exact ih (!neg) vx h
      | var i =>
        simp only [evalAtoms, List.cons_append] at h ⊢
        cases hr : evalAtoms a x false with
        | none => rw [hr] at h; cases h
        | some vr =>
          rw [hr] at h; cases h
          rw [ih false vr hr]
          cases evalAtoms a y false <;> simp
      | zero =>
        simp only [evalAtoms, List.cons_append] at h ⊢
        cases hr : evalAtoms a x false with
        | none => rw [hr] at h; cases h
        | some vr =>
          rw [hr] at h; cases h
          rw [ih false vr hr]
          cases evalAtoms a y false <;> simp
      | one =>
        simp only [evalAtoms, List.cons_append] at h ⊢
        cases hr : evalAtoms a x false with
        | none => rw [hr] at h; cases h
        | some vr =>
          rw [hr] at h; cases h
          rw [ih false vr hr]
          cases evalAtoms a y false <;> simp
      | xor => simp [evalAtoms] at h
      | or => simp [evalAtoms] at h
  exact gen x false vx hx

/-- the atoms of the loop: their conjunction is the cube condition on bits i.., and the list is
    non-empty as soon as a literal is present -/
theorem cubeLoop_eval (a : Nat) (fuel : Nat) (p q : W32) (i : Nat) :
    ∃ vs, evalAtoms a (cubeLoopToks fuel p q i) false = some vs ∧
      (vs.all id = true ↔ ∀ k, k < fuel → (p.getLsbD k = true → a.testBit (i + k) = true) ∧
                                           (q.getLsbD k = true → a.testBit (i + k) = false)) ∧
      (vs = [] ↔ ∀ k, k < fuel → p.getLsbD k = false ∧ q.getLsbD k = false) := by
  induction fuel generalizing p q i with
  | zero => exact ⟨[], rfl, by simp, by simp⟩
  | succ f ih =>
    simp only [cubeLoopToks]
    by_cases hz : (p != 0 || q != 0) = true
    · simp only [hz, if_true]
      obtain ⟨vr, hr, hall, hnil⟩ := ih (p >>> 1) (q >>> 1) (i + 1)
      rw [and_one_ne, and_one_ne]
      have shiftbit : ∀ (x : W32) k, (x >>> 1).getLsbD k = x.getLsbD (k + 1) := by
        intro x k; rw [BitVec.getLsbD_ushiftRight, Nat.add_comm]
      -- the head atoms
      let L1 : List Bool := if p.getLsbD 0 then [a.testBit i] else []
      let L2 : List Bool := if q.getLsbD 0 then [!a.testBit i] else []
      have ehp : evalAtoms a (if p.getLsbD 0 then [Tok.var i] else []) false = some L1 := by
        show _ = some (if p.getLsbD 0 then [a.testBit i] else [])
        cases p.getLsbD 0 <;> simp [evalAtoms]
      have ehq : evalAtoms a (if q.getLsbD 0 then [Tok.not, Tok.var i] else []) false = some L2 := by
        show _ = some (if q.getLsbD 0 then [!a.testBit i] else [])
        cases q.getLsbD 0 <;> simp [evalAtoms]
      have e2 := evalAtoms_append a _ (cubeLoopToks f (p >>> 1) (q >>> 1) (i + 1)) _ ehq
      rw [hr] at e2
      have e1 := evalAtoms_append a _ ((if q.getLsbD 0 then [Tok.not, Tok.var i] else []) ++
        cubeLoopToks f (p >>> 1) (q >>> 1) (i + 1)) _ ehp
      rw [e2] at e1
      have a1 : L1.all id = true ↔ (p.getLsbD 0 = true → a.testBit i = true) := by
        show (if p.getLsbD 0 then [a.testBit i] else []).all id = true ↔ _
        cases p.getLsbD 0 <;> simp
      have a2 : L2.all id = true ↔ (q.getLsbD 0 = true → a.testBit i = false) := by
        show (if q.getLsbD 0 then [!a.testBit i] else []).all id = true ↔ _
        cases q.getLsbD 0 <;> simp
      have n1 : L1 = [] ↔ p.getLsbD 0 = false := by
        show (if p.getLsbD 0 then [a.testBit i] else []) = [] ↔ _
        cases p.getLsbD 0 <;> simp
      have n2 : L2 = [] ↔ q.getLsbD 0 = false := by
        show (if q.getLsbD 0 then [!a.testBit i] else []) = [] ↔ _
        cases q.getLsbD 0 <;> simp
      refine ⟨L1 ++ (L2 ++ vr), by rw [List.append_assoc, e1]; rfl, ?_, ?_⟩
      · rw [List.all_append, List.all_append, Bool.and_eq_true, Bool.and_eq_true, a1, a2, hall]
        constructor
        · rintro ⟨h1, h2, h3⟩ k hk
          cases k with
          | zero => exact ⟨h1, h2⟩
          | succ k =>
            have := h3 k (by omega)
            rw [shiftbit, shiftbit] at this
            have e : i + 1 + k = i + (k + 1) := by omega
            rw [e] at this; exact this
        · intro h
          refine ⟨(h 0 (by omega)).1, (h 0 (by omega)).2, ?_⟩
          intro k hk
          have := h (k + 1) (by omega)
          rw [shiftbit, shiftbit]
          have e : i + 1 + k = i + (k + 1) := by omega
          rw [e]; exact this
      · rw [List.append_eq_nil_iff, List.append_eq_nil_iff, n1, n2, hnil]
        constructor
        · rintro ⟨h1, h2, h3⟩ k hk
          cases k with
          | zero => exact ⟨h1, h2⟩
          | succ k =>
            have := h3 k (by omega)
            rw [shiftbit, shiftbit] at this; exact this
        · intro h
          refine ⟨(h 0 (by omega)).1, (h 0 (by omega)).2, ?_⟩
          intro k hk
          rw [shiftbit, shiftbit]; exact h (k + 1) (by omega)
    · -- both words are zero: nothing left
      have hz' : p = 0 ∧ q = 0 := by
        have : (p != 0 || q != 0) = false := by simpa using hz
        simpa using this
      simp only [hz, Bool.false_eq_true, if_false]
      refine ⟨[], rfl, ?_, ?_⟩
      · simp [hz'.1, hz'.2]
      · simp [hz'.1, hz'.2]

/-- token level: the product of a cube's literals evaluates to the cube's value -/
theorem cube_product (c : Cube) (a : Nat) : evalProduct a (cubeToks c) = some (c.value a) := by
  unfold cubeToks
  by_cases h1 : c.isOne = true
  · simp only [h1, if_true]
    have hv : c.value a = true := by
      unfold Cube.isOne at h1
      have h' : c.pos = 0 ∧ c.neg = 0 := by simpa using h1
      rw [value_iff]; intro v hv; rw [h'.1, h'.2]; simp
    rw [hv]; rfl
  · simp only [h1, Bool.false_eq_true, if_false]
    by_cases h0 : c.isZero = true
    · simp only [h0, if_true]
      rw [value_of_isZero c h0]; rfl
    · simp only [h0, Bool.false_eq_true, if_false]
      obtain ⟨vs, hvs, hall, hnil⟩ := cubeLoop_eval a 32 c.pos c.neg 0
      unfold evalProduct
      rw [hvs]
      have hne : vs ≠ [] := by
        intro he
        have := hnil.mp he
        apply h1
        unfold Cube.isOne
        have hp : c.pos = 0 := by
          apply BitVec.eq_of_getLsbD_eq; intro k hk; rw [(this k hk).1]; simp
        have hq : c.neg = 0 := by
          apply BitVec.eq_of_getLsbD_eq; intro k hk; rw [(this k hk).2]; simp
        simp [hp, hq]
      match vs, hne with
      | v :: vs', _ =>
        simp only [Option.some.injEq]
        apply Bool.eq_iff_iff.mpr
        rw [hall, value_iff]
        unfold Sem
        constructor
        · intro h v hv
          have := h v hv
          simp only [Nat.zero_add] at this
          rw [abit_eq a v hv]; exact this
        · intro h k hk
          have := h k hk
          rw [abit_eq a k hk] at this
          simpa using this

/-! ## joining products with an operator -/

def joinToks (sep : Tok) : List (List Tok) → List Tok
  | [] => []
  | [a] => a
  | a :: b :: rest => a ++ [sep] ++ joinToks sep (b :: rest)

theorem render_xor : render [Tok.xor] = [32, 94, 32] := rfl
theorem render_or : render [Tok.or] = [32, 124, 32] := rfl

theorem joinWith_render (sep : Tok) (gs : List (List Tok)) :
    Display.joinWith (render [sep]) (gs.map render) = render (joinToks sep gs) := by
  match gs with
  | [] => rfl
  | [a] => rfl
  | a :: b :: rest =>
    have ih := joinWith_render sep (b :: rest)
    simp only [List.map_cons] at ih ⊢
    simp only [Display.joinWith, joinToks, render_append]
    rw [ih]

theorem splitTok_nosep (sep : Tok) (ts : List Tok) (h : sep ∉ ts) : splitTok sep ts = [ts] := by
  induction ts with
  | nil => rfl
  | cons t ts ih =>
    have h1 : sep ∉ ts := fun hm => h (List.mem_cons_of_mem _ hm)
    have h2 : t ≠ sep := fun e => h (by simp [e])
    simp only [splitTok, ih h1, h2, if_false]

theorem splitTok_ne_nil (sep : Tok) (l : List Tok) : splitTok sep l ≠ [] := by
  induction l with
  | nil => simp [splitTok]
  | cons t l ih =>
    simp only [splitTok]
    cases hr : splitTok sep l with
    | nil => exact absurd hr ih
    | cons g gs =>
      simp only []
      by_cases h : t = sep <;> simp [h]

theorem splitTok_append_sep (sep : Tok) (g rest : List Tok) (h : sep ∉ g) :
    splitTok sep (g ++ [sep] ++ rest) = g :: splitTok sep rest := by
  induction g with
  | nil =>
    simp only [List.nil_append, List.cons_append, splitTok]
    cases hr : splitTok sep rest with
    | nil => exact absurd hr (splitTok_ne_nil sep rest)
    | cons a as => simp
  | cons t g ih =>
    have h1 : sep ∉ g := fun hm => h (List.mem_cons_of_mem _ hm)
    have h2 : t ≠ sep := fun e => h (by simp [e])
    simp only [List.cons_append, splitTok]
    rw [ih h1]
    simp [h2]

theorem splitTok_join (sep : Tok) (gs : List (List Tok)) (hne : gs ≠ []) (h : ∀ g ∈ gs, sep ∉ g) :
    splitTok sep (joinToks sep gs) = gs := by
  match gs, hne with
  | [a], _ => exact splitTok_nosep sep a (h a (by simp))
  | a :: b :: rest, _ =>
    simp only [joinToks]
    rw [splitTok_append_sep sep a _ (h a (by simp)),
      splitTok_join sep (b :: rest) (by simp) (fun g hg => h g (by simp [hg]))]

theorem NoConstHead_sep (sep : Tok) (hs : sep = Tok.xor ∨ sep = Tok.or) (r : List Tok) : NoConstHead (sep :: r) := by
  rcases hs with rfl | rfl <;> trivial

theorem WFT_sep (sep : Tok) (hs : sep = Tok.xor ∨ sep = Tok.or) (r : List Tok) (h : WFT r) : WFT (sep :: r) := by
  rcases hs with rfl | rfl <;> exact h

/-- a group is a product of literals or a single constant -/
def Group (g : List Tok) : Prop := ProdToks g ∨ g = [Tok.zero] ∨ g = [Tok.one]

theorem WFT_group_append (g rest : List Tok) (hg : Group g) (hr : WFT rest) (hh : NoConstHead rest) :
    WFT (g ++ rest) := by
  rcases hg with hp | rfl | rfl
  · exact prodToks_WFT_append g rest hp hr hh
  · exact hr
  · exact hr

theorem WFT_join (sep : Tok) (hs : sep = Tok.xor ∨ sep = Tok.or) (gs : List (List Tok)) (h : ∀ g ∈ gs, Group g) :
    WFT (joinToks sep gs) := by
  match gs with
  | [] => trivial
  | [a] =>
    have := WFT_group_append a [] (h a (by simp)) trivial trivial
    show WFT a
    simpa using this
  | a :: b :: rest =>
    simp only [joinToks, List.append_assoc, List.cons_append, List.nil_append]
    exact WFT_group_append a _ (h a (by simp))
      (WFT_sep sep hs _ (WFT_join sep hs (b :: rest) (fun g hg => h g (by simp [hg]))))
      (NoConstHead_sep sep hs _)

theorem cubeToks_group (c : Cube) : Group (cubeToks c) := by
  unfold cubeToks
  split
  · exact Or.inr (Or.inr rfl)
  · split
    · exact Or.inr (Or.inl rfl)
    · exact Or.inl (cubeLoopToks_prod 32 c.pos c.neg 0 (by omega))

theorem group_noop (g : List Tok) (hg : Group g) : Tok.xor ∉ g ∧ Tok.or ∉ g := by
  rcases hg with hp | rfl | rfl
  · exact prodToks_noop g hp
  · simp
  · simp

theorem mapM_some {α β : Type} (f : α → Option β) (g : α → β) (l : List α) (h : ∀ x ∈ l, f x = some (g x)) :
    l.mapM f = some (l.map g) := by
  induction l with
  | nil => rfl
  | cons a l ih =>
    rw [List.mapM_cons, h a (by simp), ih (fun x hx => h x (by simp [hx]))]
    rfl

/-- a single product as a term and as a formula -/
theorem term_of_product (a : Nat) (g : List Tok) (hg : Group g) (v : Bool) (hv : evalProduct a g = some v) :
    evalTerm a g = some v := by
  unfold evalTerm
  rw [splitTok_nosep _ _ (group_noop g hg).1]
  simp [hv]

/-! ## the five Display implementations -/

/-- Cube: printed text = formula with the cube's value -/
theorem cube_text (c : Cube) (a : Nat) : evalText (Display.cube c) a = some (c.value a) := by
  unfold evalText
  rw [cube_render, lex_render _ (by
    have := WFT_group_append (cubeToks c) [] (cubeToks_group c) trivial trivial
    simpa using this)]
  simp only [Option.bind_some]
  unfold evalFormula
  rw [splitTok_nosep _ _ (group_noop _ (cubeToks_group c)).2]
  simp [term_of_product a _ (cubeToks_group c) _ (cube_product c a)]

def sopToks (s : Sop) : List Tok := if s.isZero then [Tok.zero] else joinToks Tok.or (s.cubes.map cubeToks)

theorem sop_render (s : Sop) : Display.sop s = render (sopToks s) := by
  unfold Display.sop sopToks
  split
  · rfl
  · rw [← joinWith_render, List.map_map]
    congr 1
    apply List.map_congr_left
    intro c _
    exact cube_render c

/-- Sop: terms joined by ` | ` -/
theorem sop_text (s : Sop) (a : Nat) : evalText (Display.sop s) a = some (s.value a) := by
  unfold evalText
  rw [sop_render]
  unfold sopToks
  by_cases hz : s.isZero = true
  · simp only [hz, if_true]
    have hv : s.value a = false := by
      have : s.cubes = [] := by simpa [Sop.isZero] using hz
      simp [Sop.value, this]
    rw [hv]; rfl
  · simp only [hz, Bool.false_eq_true, if_false]
    have hne : s.cubes.map cubeToks ≠ [] := by
      intro h; apply hz; simpa [Sop.isZero] using h
    have hgroups : ∀ g ∈ s.cubes.map cubeToks, Group g := by
      intro g hg; obtain ⟨c, _, rfl⟩ := List.mem_map.mp hg; exact cubeToks_group c
    rw [lex_render _ (WFT_join Tok.or (Or.inr rfl) _ hgroups)]
    simp only [Option.bind_some]
    unfold evalFormula
    rw [splitTok_join Tok.or _ hne (fun g hg => (group_noop g (hgroups g hg)).2)]
    rw [List.mapM_map]
    rw [mapM_some (evalTerm a ∘ cubeToks) (fun c => c.value a) s.cubes
      (fun c _ => term_of_product a _ (cubeToks_group c) _ (cube_product c a))]
    simp only [Option.map_some, Option.some.injEq]
    rw [VoluteModel.Props.C14.sop_value_any]

/-! ## Esop -/

theorem WFT_append : ∀ (x y : List Tok), WFT x → WFT y → NoConstHead y → WFT (x ++ y)
  | [], y, _, hy, _ => hy
  | [.var i], y, ⟨hi, _, _⟩, hy, hh => ⟨hi, hh, hy⟩
  | .var i :: t :: r, y, ⟨hi, hn, hr⟩, hy, hh => by
    refine ⟨hi, ?_, WFT_append (t :: r) y hr hy hh⟩
    cases t <;> first | exact hn | trivial
  | .not :: r, y, hx, hy, hh => WFT_append r y hx hy hh
  | .zero :: r, y, hx, hy, hh => WFT_append r y hx hy hh
  | .one :: r, y, hx, hy, hh => WFT_append r y hx hy hh
  | .xor :: r, y, hx, hy, hh => WFT_append r y hx hy hh
  | .or :: r, y, hx, hy, hh => WFT_append r y hx hy hh

theorem WFT_join' (sep : Tok) (hs : sep = Tok.xor ∨ sep = Tok.or) (gs : List (List Tok)) (h : ∀ g ∈ gs, WFT g) :
    WFT (joinToks sep gs) := by
  match gs with
  | [] => trivial
  | [a] => exact h a (by simp)
  | a :: b :: rest =>
    simp only [joinToks, List.append_assoc, List.cons_append, List.nil_append]
    exact WFT_append a _ (h a (by simp))
      (WFT_sep sep hs _ (WFT_join' sep hs (b :: rest) (fun g hg => h g (by simp [hg]))))
      (NoConstHead_sep sep hs _)

theorem not_mem_join (t sep : Tok) (hts : t ≠ sep) (gs : List (List Tok)) (h : ∀ g ∈ gs, t ∉ g) :
    t ∉ joinToks sep gs := by
  match gs with
  | [] => simp [joinToks]
  | [a] => exact h a (by simp)
  | a :: b :: rest =>
    simp only [joinToks, List.mem_append, List.mem_singleton, not_or]
    exact ⟨⟨h a (by simp), hts⟩, not_mem_join t sep hts (b :: rest) (fun g hg => h g (by simp [hg]))⟩

def esopToks (s : Esop) : List Tok := if s.isZero then [Tok.zero] else joinToks Tok.xor (s.cubes.map cubeToks)

theorem esop_render (s : Esop) : Display.esop s = render (esopToks s) := by
  unfold Display.esop esopToks
  split
  · rfl
  · rw [← joinWith_render, List.map_map]
    congr 1
    apply List.map_congr_left
    intro c _
    exact cube_render c

/-- Esop: terms joined by ` ^ ` -/
theorem esop_text (s : Esop) (a : Nat) : evalText (Display.esop s) a = some (s.value a) := by
  unfold evalText
  rw [esop_render]
  unfold esopToks
  by_cases hz : s.isZero = true
  · simp only [hz, if_true]
    have hv : s.value a = false := by
      have : s.cubes = [] := by simpa [Esop.isZero] using hz
      simp [Esop.value, this]
    rw [hv]; rfl
  · simp only [hz, Bool.false_eq_true, if_false]
    have hne : s.cubes.map cubeToks ≠ [] := by
      intro h; apply hz; simpa [Esop.isZero] using h
    have hgroups : ∀ g ∈ s.cubes.map cubeToks, Group g := by
      intro g hg; obtain ⟨c, _, rfl⟩ := List.mem_map.mp hg; exact cubeToks_group c
    rw [lex_render _ (WFT_join Tok.xor (Or.inl rfl) _ hgroups)]
    simp only [Option.bind_some]
    unfold evalFormula
    rw [splitTok_nosep _ _ (not_mem_join Tok.or Tok.xor (by decide) _ (fun g hg => (group_noop g (hgroups g hg)).2))]
    simp only [List.mapM_cons, List.mapM_nil]
    unfold evalTerm
    rw [splitTok_join Tok.xor _ hne (fun g hg => (group_noop g (hgroups g hg)).1), List.mapM_map]
    rw [mapM_some (evalProduct a ∘ cubeToks) (fun c => c.value a) s.cubes (fun c _ => cube_product c a)]
    simp only [Option.map_some, Option.bind_some, Option.pure_def, Option.bind_eq_bind]
    show some ([List.foldl (fun x1 x2 => x1 != x2) false (List.map (fun c => c.value a) s.cubes)].any id) = _
    rw [List.foldl_map]
    simp [Esop.value]

/-! ## exclusive cubes and Soes -/

def ecubeLoopToks : Nat → W32 → Nat → List (List Tok)
  | 0, _, _ => []
  | fuel + 1, vars, i =>
    if vars != 0 then
      (if vars &&& 1 != 0 then [[Tok.var i]] else []) ++ ecubeLoopToks fuel (vars >>> 1) (i + 1)
    else []

def ecubeGroups (e : Ecube) : List (List Tok) :=
  (if e.xnor then [[Tok.one]] else []) ++ ecubeLoopToks 32 e.vars 0

def ecubeToks (e : Ecube) : List Tok := if e.isZero then [Tok.zero] else joinToks Tok.xor (ecubeGroups e)

theorem ecubeLoop_render (fuel : Nat) (v : W32) (i : Nat) :
    Display.ecubeLoop fuel v i = (ecubeLoopToks fuel v i).map render := by
  induction fuel generalizing v i with
  | zero => rfl
  | succ f ih =>
    simp only [Display.ecubeLoop, ecubeLoopToks]
    split
    · rw [List.map_append, ih]
      congr 1
      split <;> simp [render, Display.xLit]
    · rfl

theorem ecube_render (e : Ecube) : Display.ecube e = render (ecubeToks e) := by
  unfold Display.ecube ecubeToks ecubeGroups
  split
  · rfl
  · rw [← joinWith_render, List.map_append, ecubeLoop_render]
    congr 2
    split <;> rfl

theorem ecubeLoop_groups (fuel : Nat) (v : W32) (i : Nat) (hi : i + fuel ≤ 32) :
    ∀ g ∈ ecubeLoopToks fuel v i, ∃ j, j < 32 ∧ g = [Tok.var j] := by
  induction fuel generalizing v i with
  | zero => intro g hg; simp [ecubeLoopToks] at hg
  | succ f ih =>
    intro g hg
    simp only [ecubeLoopToks] at hg
    split at hg
    · rw [List.mem_append] at hg
      rcases hg with hg | hg
      · split at hg
        · have : g = [Tok.var i] := by simpa using hg
          exact ⟨i, by omega, this⟩
        · simp at hg
      · exact ih _ _ (by omega) g hg
    · simp at hg

theorem ecubeGroups_group (e : Ecube) : ∀ g ∈ ecubeGroups e, Group g := by
  intro g hg
  unfold ecubeGroups at hg
  rw [List.mem_append] at hg
  rcases hg with hg | hg
  · split at hg
    · have : g = [Tok.one] := by simpa using hg
      exact Or.inr (Or.inr this)
    · simp at hg
  · obtain ⟨j, hj, rfl⟩ := ecubeLoop_groups 32 e.vars 0 (by omega) g hg
    exact Or.inl ⟨hj, trivial⟩

/-- XOR of a Boolean sequence -/
def xr (f : Nat → Bool) (n : Nat) : Bool := (List.range n).foldl (fun p k => p != f k) false

theorem xr_succ (f : Nat → Bool) (n : Nat) : xr f (n + 1) = (xr f n != f n) := by
  simp [xr, List.range_succ, List.foldl_append]

theorem xr_shift (f : Nat → Bool) (n : Nat) : xr f (n + 1) = (f 0 != xr (fun k => f (k + 1)) n) := by
  induction n with
  | zero => simp [xr]
  | succ n ih =>
    rw [xr_succ, ih, xr_succ]
    cases f 0 <;> cases xr (fun k => f (k + 1)) n <;> cases f (n + 1) <;> rfl

theorem xr_false (n : Nat) : xr (fun _ => false) n = false := by
  induction n with
  | zero => rfl
  | succ n ih => rw [xr_succ, ih]; rfl

theorem foldl_xor_init (l : List Bool) (init : Bool) :
    l.foldl (fun x1 x2 => x1 != x2) init = (init != l.foldl (fun x1 x2 => x1 != x2) false) := by
  induction l generalizing init with
  | nil => simp
  | cons b l ih =>
    simp only [List.foldl_cons]
    rw [ih, ih (false != b)]
    cases init <;> cases b <;> cases l.foldl (fun x1 x2 => x1 != x2) false <;> rfl

/-- the products of the loop are single variables whose XOR is the parity of the selected bits -/
theorem ecubeLoop_eval (a : Nat) (fuel : Nat) (v : W32) (i : Nat) :
    ∃ vs, (ecubeLoopToks fuel v i).mapM (evalProduct a) = some vs ∧
      vs.foldl (fun x1 x2 => x1 != x2) false = xr (fun k => v.getLsbD k && a.testBit (i + k)) fuel := by
  induction fuel generalizing v i with
  | zero => exact ⟨[], rfl, rfl⟩
  | succ f ih =>
    simp only [ecubeLoopToks]
    have shiftbit : ∀ k, (v >>> 1).getLsbD k = v.getLsbD (k + 1) := by
      intro k; rw [BitVec.getLsbD_ushiftRight, Nat.add_comm]
    by_cases hz : (v != 0) = true
    · simp only [hz, if_true]
      obtain ⟨vr, hr, hx⟩ := ih (v >>> 1) (i + 1)
      rw [and_one_ne, xr_shift]
      have hshift : xr (fun k => v.getLsbD (k + 1) && a.testBit (i + (k + 1))) f =
          xr (fun k => (v >>> 1).getLsbD k && a.testBit (i + 1 + k)) f := by
        congr 1; funext k; rw [shiftbit]; congr 2; omega
      rw [hshift, ← hx]
      cases hb : v.getLsbD 0
      · refine ⟨vr, by simpa using hr, ?_⟩
        simp
      · refine ⟨a.testBit i :: vr, ?_, ?_⟩
        · simp only [if_true, List.singleton_append, List.mapM_cons, hr]
          simp [evalProduct, evalAtoms]
        · simp only [List.foldl_cons, Nat.add_zero, Bool.true_and]
          rw [foldl_xor_init]
          cases a.testBit i <;> rfl
    · have hv0 : v = 0 := by simpa using hz
      simp only [hz, Bool.false_eq_true, if_false]
      refine ⟨[], rfl, ?_⟩
      subst hv0
      have : (fun k => (0 : W32).getLsbD k && a.testBit (i + k)) = fun _ => false := by
        funext k; simp
      rw [this, xr_false]; rfl

theorem par_eq_xr (x : Nat) (n : Nat) : VoluteModel.Props.C13.par n x = xr (fun k => x.testBit k) n := rfl

/-- token level: an exclusive cube's term evaluates to its value -/
theorem ecube_term (e : Ecube) (a : Nat) : evalTerm a (ecubeToks e) = some (e.value a) := by
  unfold ecubeToks
  by_cases hz : e.isZero = true
  · simp only [hz, if_true]
    have hv : e.value a = false := by
      unfold Ecube.isZero at hz
      have h' : e.vars = 0 ∧ e.xnor = false := by simpa using hz
      rw [VoluteModel.Props.C13.value_spec, h'.1, h'.2]
      have : ((0 : W32) &&& BitVec.ofNat 32 a).toNat = 0 := by simp
      rw [this, VoluteModel.Props.C13.par_zero]; rfl
    rw [hv]; rfl
  · simp only [hz, Bool.false_eq_true, if_false]
    have hne : ecubeGroups e ≠ [] := by
      intro h
      apply hz
      unfold ecubeGroups at h
      rw [List.append_eq_nil_iff] at h
      have hx : e.xnor = false := by
        cases hx : e.xnor
        · rfl
        · rw [hx] at h; simp at h
      have hv : e.vars = 0 := by
        cases hv : (e.vars != 0)
        · simpa using hv
        · -- a set bit produces a group
          exfalso
          have hloop := h.2
          obtain ⟨vs, hvs, _⟩ := ecubeLoop_eval 0 32 e.vars 0
          -- use the bit-level characterisation instead: if all groups are absent all bits are clear
          have allclear : ∀ (fuel : Nat) (v : W32) (i : Nat), ecubeLoopToks fuel v i = [] →
              ∀ k, k < fuel → v.getLsbD k = false := by
            intro fuel
            induction fuel with
            | zero => intro v i _ k hk; omega
            | succ f ih =>
              intro v i hnil k hk
              simp only [ecubeLoopToks] at hnil
              by_cases hz : (v != 0) = true
              · simp only [hz, if_true, List.append_eq_nil_iff] at hnil
                rw [and_one_ne] at hnil
                cases k with
                | zero =>
                  cases hb : v.getLsbD 0
                  · rfl
                  · rw [hb] at hnil; simp at hnil
                | succ k =>
                  have := ih (v >>> 1) (i + 1) hnil.2 k (by omega)
                  rw [BitVec.getLsbD_ushiftRight, Nat.add_comm] at this
                  exact this
              · have : v = 0 := by simpa using hz
                subst this; simp
          have hbits := allclear 32 e.vars 0 hloop
          have : e.vars = 0 := by
            apply BitVec.eq_of_getLsbD_eq; intro k hk; rw [hbits k hk]; simp
          rw [this] at hv; simp at hv
      unfold Ecube.isZero; simp [hv, hx]
    unfold evalTerm
    rw [splitTok_join Tok.xor _ hne (fun g hg => (group_noop g (ecubeGroups_group e g hg)).1)]
    unfold ecubeGroups
    obtain ⟨vs, hvs, hx⟩ := ecubeLoop_eval a 32 e.vars 0
    rw [List.mapM_append, hvs]
    have hval : e.value a = (xr (fun k => e.vars.getLsbD k && a.testBit (0 + k)) 32 != e.xnor) := by
      rw [VoluteModel.Props.C13.value_spec, par_eq_xr]
      have hbit : ∀ k, k < 32 → (e.vars &&& BitVec.ofNat 32 a).toNat.testBit k = (e.vars.getLsbD k && a.testBit (0 + k)) := by
        intro k hk
        rw [← BitVec.getLsbD, BitVec.getLsbD_and, BitVec.getLsbD_ofNat]
        simp [hk]
      have gen : ∀ (l : List Nat) (init : Bool), (∀ k ∈ l, k < 32) →
          l.foldl (fun p k => p != (e.vars &&& BitVec.ofNat 32 a).toNat.testBit k) init =
          l.foldl (fun p k => p != (e.vars.getLsbD k && a.testBit (0 + k))) init := by
        intro l
        induction l with
        | nil => intro _ _; rfl
        | cons x l ih =>
          intro init hl
          simp only [List.foldl_cons]
          rw [hbit x (hl x (by simp))]
          exact ih _ (fun k hk => hl k (by simp [hk]))
      have hxr : xr (fun k => (e.vars &&& BitVec.ofNat 32 a).toNat.testBit k) 32 =
          xr (fun k => e.vars.getLsbD k && a.testBit (0 + k)) 32 := by
        unfold xr
        exact gen _ _ (fun k hk => by simpa using hk)
      rw [hxr]
    cases hxn : e.xnor
    · simp only [Bool.false_eq_true, if_false, List.mapM_nil, Option.pure_def, Option.bind_eq_bind, Option.bind_some,
        List.nil_append, Option.map_some]
      rw [hx, hval, hxn]; simp
    · simp only [if_true, List.mapM_cons, List.mapM_nil, Option.pure_def, Option.bind_eq_bind, Option.bind_some,
        Option.map_some]
      have : evalProduct a [Tok.one] = some true := rfl
      rw [this]
      simp only [Option.bind_some, List.singleton_append, Option.map_some, List.foldl_cons]
      rw [foldl_xor_init, hx, hval, hxn]
      cases xr (fun k => e.vars.getLsbD k && a.testBit (0 + k)) 32 <;> rfl

theorem ecubeToks_WFT (e : Ecube) : WFT (ecubeToks e) ∧ Tok.or ∉ ecubeToks e := by
  unfold ecubeToks
  split
  · exact ⟨trivial, by simp⟩
  · exact ⟨WFT_join Tok.xor (Or.inl rfl) _ (ecubeGroups_group e),
      not_mem_join Tok.or Tok.xor (by decide) _ (fun g hg => (group_noop g (ecubeGroups_group e g hg)).2)⟩

/-- Ecube: optional leading 1, then the variables joined by ` ^ ` -/
theorem ecube_text (e : Ecube) (a : Nat) : evalText (Display.ecube e) a = some (e.value a) := by
  unfold evalText
  rw [ecube_render, lex_render _ (ecubeToks_WFT e).1]
  simp only [Option.bind_some]
  unfold evalFormula
  rw [splitTok_nosep _ _ (ecubeToks_WFT e).2]
  simp [ecube_term e a]

def soesToks (s : Soes) : List Tok := if s.isZero then [Tok.zero] else joinToks Tok.or (s.cubes.map ecubeToks)

theorem soes_render (s : Soes) : Display.soes s = render (soesToks s) := by
  unfold Display.soes soesToks
  split
  · rfl
  · rw [← joinWith_render, List.map_map]
    congr 1
    apply List.map_congr_left
    intro c _
    exact ecube_render c

/-- Soes: exclusive cubes joined by ` | ` (OR binds loosest) -/
theorem soes_text (s : Soes) (a : Nat) : evalText (Display.soes s) a = some (s.value a) := by
  unfold evalText
  rw [soes_render]
  unfold soesToks
  by_cases hz : s.isZero = true
  · simp only [hz, if_true]
    rw [VoluteModel.Props.C13.soes_isZero_sound s hz a]; rfl
  · simp only [hz, Bool.false_eq_true, if_false]
    have hne : s.cubes.map ecubeToks ≠ [] := by
      intro h; apply hz; simpa [Soes.isZero] using h
    rw [lex_render _ (WFT_join' Tok.or (Or.inr rfl) _ (by
      intro g hg; obtain ⟨c, _, rfl⟩ := List.mem_map.mp hg; exact (ecubeToks_WFT c).1))]
    simp only [Option.bind_some]
    unfold evalFormula
    rw [splitTok_join Tok.or _ hne (by
      intro g hg; obtain ⟨c, _, rfl⟩ := List.mem_map.mp hg; exact (ecubeToks_WFT c).2)]
    rw [List.mapM_map, mapM_some (evalTerm a ∘ ecubeToks) (fun c => c.value a) s.cubes (fun c _ => ecube_term c a)]
    simp only [Option.map_some, Option.some.injEq]
    rw [VoluteModel.Props.C13.soes_value]
    simp [List.any_map]

/-- variables appear in increasing index order in a printed cube -/
theorem cube_vars_increasing (fuel : Nat) (p q : W32) (i : Nat) :
    ∀ t ∈ cubeLoopToks fuel p q i, ∀ j, t = Tok.var j → i ≤ j := by
  induction fuel generalizing p q i with
  | zero => intro t ht; simp [cubeLoopToks] at ht
  | succ f ih =>
    intro t ht j hj
    simp only [cubeLoopToks] at ht
    split at ht
    · simp only [List.mem_append] at ht
      rcases ht with (ht | ht) | ht
      · split at ht
        · have : t = Tok.var i := by simpa using ht
          rw [this] at hj; cases hj; exact Nat.le_refl _
        · simp at ht
      · split at ht
        · simp only [List.mem_cons, List.mem_singleton, List.not_mem_nil, or_false] at ht
          rcases ht with rfl | rfl
          · cases hj
          · cases hj; exact Nat.le_refl _
        · simp at ht
      · have := ih _ _ _ t ht j hj; omega
    · simp at ht

/-- distinct cubes print distinct text -/
theorem cube_display_injective (c d : Cube) (hc : OK c) (hd : OK d) (h : Display.cube c = Display.cube d) : c = d := by
  rw [eq_iff_sem c d hc hd]
  intro m
  have h1 := cube_text c m
  rw [h, cube_text d m] at h1
  exact (Option.some.inj h1).symm

/-- non-vacuity: a cube with a two-digit index and a Soes -/
example : Display.cube ⟨1 <<< 10, 1 <<< 3⟩ = [33, 120, 51, 120, 49, 48] := by decide +kernel   -- "!x3x10"
example : evalText (Display.soes ⟨3, [⟨0b011, true⟩, ⟨0b100, false⟩]⟩) 0b010 = some false := by decide +kernel

end VoluteModel.Props.C16

import VoluteModel.Model.Api
import VoluteModel.Lemmas.Bits

/-!
# C01 - logical operators are exact pointwise Boolean operations

Statements are about the model (`Model/Ops.lean`, `Model/Api.lean`); the tie to /repo is the
correspondence run over all forms on both types.  All theorems hold for every `n`.
-/

namespace VoluteModel.Props.C01
open VoluteModel

/-- NOT is pointwise on every assignment of the function -/
theorem not_eval (n : Nat) (t : Array W) (h : WF n t) (m : Nat) (hm : m < 2 ^ n) :
    bit (notInplace n t) m = !bit t m := by
  have hw : m / 64 < t.size := by rw [h.1]; exact div64_lt_tableSize hm
  unfold notInplace
  rw [bit_map _ _ _ hw, bit_eq_getElem hw]
  have hb := mod64_lt m
  simp only [BitVec.getLsbD_and, BitVec.getLsbD_not, numVarsMask_bit n _ hb]
  have : m % 64 < 2 ^ n := by
    by_cases h6 : n ≤ 6
    · have := (small_index h6 hm).2; omega
    · have : 2 ^ 6 ≤ 2 ^ n := Nat.pow_le_pow_right (by omega) (by omega)
      omega
  simp [this, hb]

/-- NOT re-masks: the result is well formed (whatever the operand's high bits were) -/
theorem not_WF (n : Nat) (t : Array W) (hs : t.size = tableSize n) : WF n (notInplace n t) := by
  apply WF_of_bits
  · simp [notInplace, hs]
  · intro k hk b hb hge
    simp only [notInplace, Array.getElem_map, BitVec.getLsbD_and, numVarsMask_bit n b hb]
    have : ¬ b < 2 ^ n := by omega
    simp [this]

theorem and_eval (a b : Array W) (hs : a.size = b.size) (m : Nat) :
    bit (andInplace a b) m = (bit a m && bit b m) := by
  by_cases hw : m / 64 < a.size
  · unfold andInplace
    rw [bit_zipWith _ _ _ _ hw (hs ▸ hw), bit_eq_getElem hw, bit_eq_getElem (hs ▸ hw)]
    simp
  · have h1 : bit a m = false := bit_of_size_le (by omega)
    have h2 : bit (andInplace a b) m = false := bit_of_size_le (by simp [andInplace]; omega)
    simp [h1, h2]

theorem or_eval (a b : Array W) (hs : a.size = b.size) (m : Nat) :
    bit (orInplace a b) m = (bit a m || bit b m) := by
  by_cases hw : m / 64 < a.size
  · unfold orInplace
    rw [bit_zipWith _ _ _ _ hw (hs ▸ hw), bit_eq_getElem hw, bit_eq_getElem (hs ▸ hw)]
    simp
  · have h1 : bit a m = false := bit_of_size_le (by omega)
    have h3 : bit b m = false := bit_of_size_le (by omega)
    have h2 : bit (orInplace a b) m = false := bit_of_size_le (by simp [orInplace]; omega)
    simp [h1, h2, h3]

theorem xor_eval (a b : Array W) (hs : a.size = b.size) (m : Nat) :
    bit (xorInplace a b) m = (bit a m != bit b m) := by
  by_cases hw : m / 64 < a.size
  · unfold xorInplace
    rw [bit_zipWith _ _ _ _ hw (hs ▸ hw), bit_eq_getElem hw, bit_eq_getElem (hs ▸ hw)]
    simp
  · have h1 : bit a m = false := bit_of_size_le (by omega)
    have h3 : bit b m = false := bit_of_size_le (by omega)
    have h2 : bit (xorInplace a b) m = false := bit_of_size_le (by simp [xorInplace]; omega)
    simp [h1, h2, h3]

/-- binary operators preserve well-formedness -/
theorem bin_WF (n : Nat) (f : W → W → W)
    (hf : ∀ x y : W, ∀ b, x.getLsbD b = false → y.getLsbD b = false → (f x y).getLsbD b = false)
    (a b : Array W) (ha : WF n a) (hb : WF n b) : WF n (Array.zipWith f a b) := by
  apply WF_of_bits
  · simp [ha.1, hb.1]
  · intro k hk p hp hge
    have hka : k < a.size := by simp at hk; omega
    have hkb : k < b.size := by simp at hk; omega
    rw [Array.getElem_zipWith]
    exact hf _ _ _ (WF_word_bit ha k hka p hp hge) (WF_word_bit hb k hkb p hp hge)

theorem and_WF (n : Nat) (a b : Array W) (ha : WF n a) (hb : WF n b) : WF n (andInplace a b) :=
  bin_WF n _ (by intro x y b h1 h2; simp [h1]) a b ha hb
theorem or_WF (n : Nat) (a b : Array W) (ha : WF n a) (hb : WF n b) : WF n (orInplace a b) :=
  bin_WF n _ (by intro x y b h1 h2; simp [h1, h2]) a b ha hb
theorem xor_WF (n : Nat) (a b : Array W) (ha : WF n a) (hb : WF n b) : WF n (xorInplace a b) :=
  bin_WF n _ (by intro x y b h1 h2; simp [h1, h2]) a b ha hb

/-- the Boolean function of operator number `op` (0 and, 1 or, else xor) -/
def bop (op : Nat) (x y : Bool) : Bool := match op with
  | 0 => x && y
  | 1 => x || y
  | _ => x != y

/-- every syntactic form is the compound assignment by reference (dynamic type) -/
theorem dyn_binForm_eq : ∀ (op form : Nat) (a b : Lut), Dyn.binForm op form a b = Dyn.opAssignRef op a b
  | 0, 0, a, b => by simp [Dyn.binForm, Dyn.opAssignRef, Dyn.andInplace, Dyn.checkLut]
  | 1, 0, a, b => by simp [Dyn.binForm, Dyn.opAssignRef, Dyn.orInplace, Dyn.checkLut]
  | _ + 2, 0, a, b => by simp [Dyn.binForm, Dyn.opAssignRef, Dyn.xorInplace, Dyn.checkLut]
  | 0, 1, a, b => by simp [Dyn.binForm, Dyn.opAssignRef, Dyn.andInplace, Dyn.checkLut]
  | 1, 1, a, b => by simp [Dyn.binForm, Dyn.opAssignRef, Dyn.orInplace, Dyn.checkLut]
  | _ + 2, 1, a, b => by simp [Dyn.binForm, Dyn.opAssignRef, Dyn.xorInplace, Dyn.checkLut]
  | _, _ + 2, a, b => by simp [Dyn.binForm]

/-- all forms of one operator agree (dynamic type) -/
theorem dyn_forms_agree (op f g : Nat) (a b : Lut) : Dyn.binForm op f a b = Dyn.binForm op g a b := by
  rw [dyn_binForm_eq, dyn_binForm_eq]

/-- the table computed by operator `op` -/
def opTable (op : Nat) (a b : Array W) : Array W := match op with
  | 0 => andInplace a b
  | 1 => orInplace a b
  | _ => xorInplace a b

theorem opTable_eval (op : Nat) (a b : Array W) (hs : a.size = b.size) (m : Nat) :
    bit (opTable op a b) m = bop op (bit a m) (bit b m) := by
  unfold opTable bop
  split
  · exact and_eval _ _ hs m
  · exact or_eval _ _ hs m
  · exact xor_eval _ _ hs m

theorem opTable_WF (op n : Nat) (a b : Array W) (ha : WF n a) (hb : WF n b) : WF n (opTable op a b) := by
  unfold opTable
  split
  · exact and_WF _ _ _ ha hb
  · exact or_WF _ _ _ ha hb
  · exact xor_WF _ _ _ ha hb

/-- Main statement, dynamic type: every one of the 8 syntactic forms of every binary operator,
applied to well-formed tables over the same variables, returns the well-formed table whose
value on each assignment is the Boolean function of the operands' values. -/
theorem dyn_binForm_spec (op form : Nat) (a b : Lut) (ha : a.WF) (hb : b.WF) (hn : a.n = b.n) :
    ∃ r, Dyn.binForm op form a b = some r ∧ r.n = a.n ∧ r.WF ∧
      ∀ m, m < 2 ^ a.n → r.eval m = bop op (a.eval m) (b.eval m) := by
  have hs : a.t.size = b.t.size := by rw [ha.1, hb.1, hn]
  have hb' : WF a.n b.t := by unfold Lut.WF at hb; rw [hn]; exact hb
  have hne : (a.n == b.n) = true := by simp [hn]
  refine ⟨{ a with t := opTable op a.t b.t }, ?_, rfl, opTable_WF _ _ _ _ ha hb', ?_⟩
  · rw [dyn_binForm_eq]; simp only [Dyn.opAssignRef, hne, if_true, opTable]; rfl
  · intro m _; exact opTable_eval _ _ _ hs m

/-- size mismatch: every form panics (shared with C17) -/
theorem dyn_binForm_mismatch (op form : Nat) (a b : Lut) (hn : a.n ≠ b.n) :
    Dyn.binForm op form a b = none := by
  have hne : (a.n == b.n) = false := by simp [hn]
  rw [dyn_binForm_eq]; simp [Dyn.opAssignRef, hne]

/-- static type: every form returns the pointwise result, no form can panic -/
theorem stat_binForm_spec (op form : Nat) (a b : Lut) (ha : a.WF) (hb : b.WF) (hn : a.n = b.n) :
    ∃ r, Stat.binForm op form a b = some r ∧ r.n = a.n ∧ r.WF ∧
      ∀ m, m < 2 ^ a.n → r.eval m = bop op (a.eval m) (b.eval m) := by
  obtain ⟨r, h1, h2⟩ := dyn_binForm_spec op 2 a b ha hb hn
  refine ⟨r, ?_, h2⟩
  rw [← h1, dyn_binForm_eq]
  have hne : (a.n == b.n) = true := by simp [hn]
  simp only [Stat.binForm, Dyn.opAssignRef, hne, if_true]

/-- NOT, all four forms, both types -/
theorem notForm_spec (form : Nat) (a : Lut) (ha : a.WF) :
    (Dyn.notForm form a).n = a.n ∧ (Dyn.notForm form a).WF ∧
      ∀ m, m < 2 ^ a.n → (Dyn.notForm form a).eval m = !a.eval m := by
  refine ⟨rfl, not_WF _ _ ha.1, ?_⟩
  intro m hm
  exact not_eval _ _ ha m hm

/-- non-vacuity: majority of 3 variables and the projection on x0 meet the hypotheses -/
example : (⟨3, #[0xe8#64]⟩ : Lut).WF ∧ (⟨3, #[0xaa#64]⟩ : Lut).WF := by
  constructor <;> (unfold Lut.WF; decide +kernel)

example : Dyn.binForm 0 4 ⟨3, #[0xe8#64]⟩ ⟨3, #[0xaa#64]⟩ = some ⟨3, #[0xa8#64]⟩ := by decide +kernel

end VoluteModel.Props.C01

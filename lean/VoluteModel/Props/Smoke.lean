import VoluteModel.Model.Ops
namespace VoluteModel.Props.Smoke
theorem t1 : (1 : Nat) + 1 = 2 := rfl
end VoluteModel.Props.Smoke

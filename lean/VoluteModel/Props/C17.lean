import VoluteModel.Model.Api
import VoluteModel.Lemmas.InWord
import VoluteModel.Props.C01
import VoluteModel.Props.C06

/-!
# C17 - invalid indices and size mismatches panic; builds with and without checks agree

What Lean decides:
 (1) for every index-, assignment-, table- or slice-taking method of both types the API model
     returns `none` (panic) exactly when the argument is invalid (the `assert!` guards are
     complete and exact, independent of `debug_assert!`);
 (2) on valid arguments the modelled word arithmetic cannot overflow: every `+` in the in-word
     kernels adds bit-disjoint words, every subtraction is guarded - so a build with overflow
     checks computes what a build without them computes.
What Lean cannot exhibit - the behaviour of two compiled binaries - is the two-profile run.
-/

namespace VoluteModel.Props.C17
open VoluteModel

/-! ## (1) guards are exact -/

theorem nthVar_none (n i : Nat) : Dyn.nthVar n i = none ↔ ¬ i < n := by
  unfold Dyn.nthVar; split <;> simp [*]

theorem getBit_none (l : Lut) (m : Nat) : Dyn.getBit l m = none ↔ ¬ m < 2 ^ l.n := by
  unfold Dyn.getBit Dyn.checkBit Dyn.numBits
  simp only [Nat.shiftLeft_eq, Nat.one_mul]
  split <;> simp_all

theorem setBit_none (l : Lut) (m : Nat) : Dyn.setBit l m = none ↔ ¬ m < 2 ^ l.n := by
  unfold Dyn.setBit Dyn.checkBit Dyn.numBits
  simp only [Nat.shiftLeft_eq, Nat.one_mul]
  split <;> simp_all

theorem unsetBit_none (l : Lut) (m : Nat) : Dyn.unsetBit l m = none ↔ ¬ m < 2 ^ l.n := by
  unfold Dyn.unsetBit Dyn.checkBit Dyn.numBits
  simp only [Nat.shiftLeft_eq, Nat.one_mul]
  split <;> simp_all

theorem setValue_none (l : Lut) (m : Nat) (v : Bool) : Dyn.setValue l m v = none ↔ ¬ m < 2 ^ l.n := by
  unfold Dyn.setValue; split
  · exact setBit_none l m
  · exact unsetBit_none l m

theorem flip_none (l : Lut) (i : Nat) : Dyn.flip l i = none ↔ ¬ i < l.n := by
  unfold Dyn.flip Dyn.flipInplace Dyn.checkVar; split <;> simp_all

theorem swap_none (l : Lut) (i j : Nat) : Dyn.swap l i j = none ↔ ¬ (i < l.n ∧ j < l.n) := by
  unfold Dyn.swap Dyn.swapInplace Dyn.checkVar; split <;> simp_all

theorem swapAdjacent_none (l : Lut) (i : Nat) : Dyn.swapAdjacent l i = none ↔ ¬ (i < l.n ∧ i + 1 < l.n) := by
  unfold Dyn.swapAdjacent Dyn.swapAdjacentInplace Dyn.checkVar; split <;> simp_all

theorem cofactors_none (l : Lut) (i : Nat) : Dyn.cofactors l i = none ↔ ¬ i < l.n := by
  unfold Dyn.cofactors Dyn.checkVar; split <;> simp_all

theorem fromCofactors_none (c0 c1 : Lut) (i : Nat) :
    Dyn.fromCofactors c0 c1 i = none ↔ (c0.n ≠ c1.n ∨ ¬ i < c0.n) := by
  unfold Dyn.fromCofactors Dyn.checkVar
  by_cases hn : c0.n = c1.n
  · by_cases hi : i < c0.n <;> simp [hn, hi]
  · simp [hn]

theorem stat_fromCofactors_none (c0 c1 : Lut) (i : Nat) : Stat.fromCofactors c0 c1 i = none ↔ ¬ i < c0.n := by
  unfold Stat.fromCofactors Dyn.checkVar
  by_cases hi : i < c0.n <;> simp [hi]

theorem binForm_none (op form : Nat) (a b : Lut) : Dyn.binForm op form a b = none ↔ a.n ≠ b.n := by
  rw [VoluteModel.Props.C01.dyn_binForm_eq]
  unfold Dyn.opAssignRef
  by_cases hn : a.n = b.n <;> simp [hn]

theorem stat_binForm_some (op form : Nat) (a b : Lut) : (Stat.binForm op form a b).isSome = true := rfl

theorem fromBlocks_none (n : Nat) (b : Array W) :
    (Dyn.fromBlocks n b = none ↔ b.size ≠ tableSize n) ∧ (Stat.fromBlocks n b = none ↔ b.size ≠ tableSize n) := by
  unfold Dyn.fromBlocks Stat.fromBlocks
  by_cases h : b.size = tableSize n <;> simp [h]

/-- the decomposition helper has its own always-on assertions -/
theorem decomposition_none (l : Lut) (v : Nat) (hs : l.t.size = tableSize l.n) :
    (Dyn.topDecomposition l v = none ↔ ¬ v < l.n) ∧ (Dyn.isPosUnate l v = none ↔ ¬ v < l.n) ∧
    (Dyn.isNegUnate l v = none ↔ ¬ v < l.n) := by
  by_cases hv : v < l.n
  · have h1 := VoluteModel.Props.C06.top_spec l.n l.t hs v hv
    have h2 := VoluteModel.Props.C06.posUnate_spec l.n l.t hs v hv
    have h3 := VoluteModel.Props.C06.negUnate_spec l.n l.t hs v hv
    unfold Dyn.topDecomposition Dyn.isPosUnate Dyn.isNegUnate
    rw [h1, h2, h3]; simp [hv]
  · have hn : ∀ op, inputPropertyHelper l.n l.t v op = none :=
      fun op => VoluteModel.Props.C06.helper_none l.n l.t v op (Or.inr hv)
    unfold Dyn.topDecomposition Dyn.isPosUnate Dyn.isNegUnate topDecomposition inputPosUnate inputNegUnate
      inputIndependent
    simp [hn, hv]

/-- bdd_complexity of the dynamic type asserts equal sizes -/
theorem bdd_mixed_none (l0 : Lut) (ls : List Lut) (h : ∃ l ∈ l0 :: ls, l.n ≠ l0.n) :
    Dyn.bddComplexity (l0 :: ls) = none := by
  unfold Dyn.bddComplexity
  have : (l0 :: ls).all (fun l => l.n == l0.n) = false := by
    rw [List.all_eq_false]
    obtain ⟨l, hl, hne⟩ := h
    exact ⟨l, hl, by simp [hne]⟩
  simp [this]

/-! ## (2) no arithmetic overflow under the guards -/

/-- flip, in-word: the two shifted halves never overlap, so `+` cannot carry or overflow -/
theorem flip_no_overflow (i : Nat) (hi : i < 6) (t : W) :
    (((t &&& varMask i) >>> (2 ^ i)) + ((t &&& ~~~ varMask i) <<< (2 ^ i))).toNat =
      ((t &&& varMask i) >>> (2 ^ i)).toNat + ((t &&& ~~~ varMask i) <<< (2 ^ i)).toNat :=
  BitVec.toNat_add_of_and_eq_zero (disjoint_of_guard' _ _ (fun k => k.testBit i) _ _
    (fun k hk => termA i hi t k hk) (fun k hk => termB i hi t k hk))

theorem cof0_no_overflow (i : Nat) (hi : i < 6) (t : W) :
    ((t &&& ~~~ varMask i) + ((t &&& ~~~ varMask i) <<< (2 ^ i))).toNat =
      (t &&& ~~~ varMask i).toNat + ((t &&& ~~~ varMask i) <<< (2 ^ i)).toNat :=
  BitVec.toNat_add_of_and_eq_zero (disjoint_of_guard' _ _ (fun k => k.testBit i) _ _
    (fun k hk => termD i hi t k hk) (fun k hk => termB i hi t k hk))

theorem cof1_no_overflow (i : Nat) (hi : i < 6) (t : W) :
    (((t &&& varMask i) >>> (2 ^ i)) + (t &&& varMask i)).toNat =
      ((t &&& varMask i) >>> (2 ^ i)).toNat + (t &&& varMask i).toNat :=
  BitVec.toNat_add_of_and_eq_zero (disjoint_of_guard' _ _ (fun k => k.testBit i) _ _
    (fun k hk => termA i hi t k hk) (fun k hk => termC i hi t k hk))

theorem fromCof_no_overflow (i : Nat) (hi : i < 6) (t0 t1 : W) :
    ((t1 &&& varMask i) + (t0 &&& ~~~ varMask i)).toNat = (t1 &&& varMask i).toNat + (t0 &&& ~~~ varMask i).toNat :=
  BitVec.toNat_add_of_and_eq_zero (disjoint_of_guard _ _ (fun k => k.testBit i) _ _
    (fun k hk => termC i hi t1 k hk) (fun k hk => termD i hi t0 k hk))

theorem swapMixed_no_overflow (j : Nat) (hj : j < 6) (t0 t1 : W) :
    ((t0 &&& ~~~ varMask j) + ((t1 &&& ~~~ varMask j) <<< (2 ^ j))).toNat =
      (t0 &&& ~~~ varMask j).toNat + ((t1 &&& ~~~ varMask j) <<< (2 ^ j)).toNat ∧
    (((t0 &&& varMask j) >>> (2 ^ j)) + (((t1 &&& varMask j) >>> (2 ^ j)) <<< (2 ^ j))).toNat =
      ((t0 &&& varMask j) >>> (2 ^ j)).toNat + (((t1 &&& varMask j) >>> (2 ^ j)) <<< (2 ^ j)).toNat :=
  ⟨BitVec.toNat_add_of_and_eq_zero (disjoint_of_guard' _ _ (fun k => k.testBit j) _ _
      (fun k hk => termD j hj t0 k hk) (fun k hk => termB j hj t1 k hk)),
   BitVec.toNat_add_of_and_eq_zero (disjoint_of_guard' _ _ (fun k => k.testBit j) _ _
      (fun k hk => termA j hj t0 k hk) (fun k hk => termE j hj t1 k hk))⟩

/-- the guarded subtractions of usize indices: `(1 << i) - (1 << j)` with j < i, `ind - 6`
    under `ind > 5`, `k - mj + mi` under the loop guard - none underflows -/
theorem index_arith (i j : Nat) (hji : j < i) : 2 ^ j ≤ 2 ^ i ∧ (6 ≤ i → i - 6 + 6 = i) :=
  ⟨Nat.pow_le_pow_right (by omega) (by omega), fun h => by omega⟩

theorem partner_no_underflow (k j' : Nat) (h : k.testBit j' = true) : 2 ^ j' ≤ k :=
  Nat.ge_two_pow_of_testBit h

/-- shift amounts stay below the word width for every table that fits in memory -/
theorem shift_amounts (n ind : Nat) (hn : n < 70) (hi : ind < n) : (ind ≤ 5 → 2 ^ ind < 64) ∧ (6 ≤ ind → ind - 6 < 64) := by
  constructor
  · intro h
    have : 2 ^ ind ≤ 2 ^ 5 := Nat.pow_le_pow_right (by omega) h
    omega
  · intro _; omega

/-- the successor step uses wrapping arithmetic: identical in both profiles by construction -/
theorem next_total (l : Lut) : (Dyn.verifNext l).1.n = l.n := rfl

/-- non-vacuity: an out-of-range index on a valid table, and a valid call -/
example : Dyn.cofactors ⟨2, #[0xe#64]⟩ 4 = none ∧ (Dyn.cofactors ⟨2, #[0xe#64]⟩ 1).isSome = true := by
  decide +kernel

end VoluteModel.Props.C17

import VoluteModel.Gen.Solver

/-!
# C18: what the external solver is asked to do

`Props/C18Ilp.lean` and `Props/C18Forms.lean` say what an *optimal* solution of the programme is.
That the solver returns one is assumed - and it can only be assumed if the code asks for one.
`Gen/Solver.lean` is regenerated on every run from `src/sop/optim/mip.rs`: for each `fn solve`, the
optimisation direction, the solver, and every option set on the problem before `.solve()`.
The obligation: both modelers minimise, with the crate's default solver, and set no option other
than the number of threads - no optimality gap, time limit, node limit or the like under which
the solver may stop at a non-optimal point.
-/

namespace VoluteModel.Props.C18Solver
open VoluteModel

/-- both `solve` functions: minimise, default solver, threads = 1 and nothing else -/
theorem solver_configuration :
    Gen.solveConfigs.length = 2 ∧
    ∀ c ∈ Gen.solveConfigs, c.1 = "minimise" ∧ c.2.1 = "default_solver" ∧ c.2.2 = ["set_threads(1)"] := by
  decide

end VoluteModel.Props.C18Solver

import VoluteModel.Props.C09

namespace VoluteModel.Props.C08
open VoluteModel VoluteModel.Props.C09

/-!
# C08, continued: the library's order is the lexicographic order of the fixed-width hex strings

(kept in a file of its own because it needs the printing and parsing theorems of C09, which
themselves use the numeric reading of tables from `Props/C08.lean`)
-/

/-- lexicographic comparison of byte strings (`str::cmp`) -/
def lexBytes : List Nat → List Nat → Ordering
  | [], [] => .eq
  | [], _ :: _ => .lt
  | _ :: _, [] => .gt
  | a :: as, b :: bs => match compare a b with
    | .eq => lexBytes as bs
    | o => o

/-- a lower-case hex digit as printed by the library -/
def LowerHex (c : Nat) : Prop := ∃ d, d < 16 ∧ c = hexDigit d

theorem hexDigit_mono (d e : Nat) (hd : d < 16) (he : e < 16) : compare (hexDigit d) (hexDigit e) = compare d e := by
  unfold hexDigit
  rcases Nat.lt_trichotomy d e with h | h | h
  · rw [Nat.compare_eq_lt.mpr h, Nat.compare_eq_lt]
    split <;> split <;> omega
  · subst h; simp
  · rw [Nat.compare_eq_gt.mpr h, Nat.compare_eq_gt]
    split <;> split <;> omega

theorem lowerHex_isHex (c : Nat) (h : LowerHex c) : isHexDigit c = true := by
  obtain ⟨d, hd, rfl⟩ := h
  exact (hexDigit_range d hd).2.2

/-- for equal-length strings of printed hex digits, byte order is numeric order -/
theorem lex_numeric (s1 s2 : List Nat) (hlen : s1.length = s2.length)
    (h1 : ∀ c ∈ s1, LowerHex c) (h2 : ∀ c ∈ s2, LowerHex c) :
    lexBytes s1 s2 = compare (hexDenote s1) (hexDenote s2) := by
  induction s1 generalizing s2 with
  | nil =>
    have : s2 = [] := List.eq_nil_of_length_eq_zero (by simpa using hlen.symm)
    subst this; simp [lexBytes]
  | cons a as ih =>
    match s2, hlen with
    | b :: bs, hlen =>
      have hl : as.length = bs.length := by simpa using hlen
      obtain ⟨d, hd, rfl⟩ := h1 a (by simp)
      obtain ⟨e, he, rfl⟩ := h2 b (by simp)
      have r1 := hexDenote_lt as (fun c hc => lowerHex_isHex c (h1 c (by simp [hc])))
      have r2 := hexDenote_lt bs (fun c hc => lowerHex_isHex c (h2 c (by simp [hc])))
      rw [hexDenote_cons, hexDenote_cons, hexVal_hexDigit d hd, hexVal_hexDigit e he, Option.getD_some, Option.getD_some]
      simp only [lexBytes, hexDigit_mono d e hd he]
      rw [← hl] at r2 ⊢
      rcases Nat.lt_trichotomy d e with h | h | h
      · rw [Nat.compare_eq_lt.mpr h]
        symm; rw [Nat.compare_eq_lt]
        have : (d + 1) * 16 ^ as.length ≤ e * 16 ^ as.length := Nat.mul_le_mul_right _ (by omega)
        rw [Nat.add_mul, Nat.one_mul] at this
        omega
      · subst h
        rw [Nat.compare_eq_eq.mpr rfl]
        simp only []
        rw [ih bs hl (fun c hc => h1 c (by simp [hc])) (fun c hc => h2 c (by simp [hc]))]
        rcases Nat.lt_trichotomy (hexDenote as) (hexDenote bs) with q | q | q
        · rw [Nat.compare_eq_lt.mpr q, Nat.compare_eq_lt.mpr (by omega)]
        · rw [q, Nat.compare_eq_eq.mpr rfl, Nat.compare_eq_eq.mpr rfl]
        · rw [Nat.compare_eq_gt.mpr q, Nat.compare_eq_gt.mpr (by omega)]
      · rw [Nat.compare_eq_gt.mpr h]
        symm; rw [Nat.compare_eq_gt]
        have : (e + 1) * 16 ^ as.length ≤ d * 16 ^ as.length := Nat.mul_le_mul_right _ (by omega)
        rw [Nat.add_mul, Nat.one_mul] at this
        omega

/-- the printed string consists of lower-case hex digits -/
theorem toHex_lower (n : Nat) (t : Array W) (h : WF n t) : ∀ c ∈ toHex n t, LowerHex c := by
  obtain ⟨b1, b2⟩ := width_bounds n
  intro c hc
  unfold toHex at hc
  simp only [List.mem_flatMap, List.mem_reverse] at hc
  obtain ⟨w, hw, hcw⟩ := hc
  obtain ⟨k, hk, rfl⟩ := List.getElem_of_mem hw
  have hk' : k < t.size := by simpa using hk
  have hfit := word_fits n t h k hk'
  simp only [Array.getElem_toList] at hcw
  rw [fmtHexWord_exact _ _ b1 b2 hfit] at hcw
  obtain ⟨d, hd, rfl⟩ := List.mem_map.mp hcw
  exact ⟨d, by have := digitsFixed_lt 4 _ _ d hd; simpa using this, rfl⟩

/-- the printed string denotes the numeric value of the table -/
theorem hexDenote_toHex (l : Lut) (hl : l.WF) : hexDenote (Dyn.toHexString l) = toNatLE l.t.toList :=
  ((fromHex_iff l.n (Dyn.toHexString l) l).mp (fromHex_toHex l hl)).2.2.2.2.symm

/-- **C08/C09**: for two functions of the same number of variables the library's order is the
    lexicographic (byte) order of their fixed-width hex strings -/
theorem cmp_eq_hex_order (a b : Lut) (ha : a.WF) (hb : b.WF) (hn : a.n = b.n) :
    Dyn.cmp a b = lexBytes (Dyn.toHexString a) (Dyn.toHexString b) := by
  rw [cmp_spec a b ha hb]
  have hne : ¬ a.n ≠ b.n := by simpa using hn
  rw [if_neg hne]
  have hlen : (Dyn.toHexString a).length = (Dyn.toHexString b).length := by
    unfold Dyn.toHexString
    rw [toHex_length _ _ ha, toHex_length _ _ hb, ha.1, hb.1, hn]
  rw [lex_numeric _ _ hlen (toHex_lower _ _ ha) (toHex_lower _ _ hb), hexDenote_toHex a ha, hexDenote_toHex b hb]
  rfl

end VoluteModel.Props.C08

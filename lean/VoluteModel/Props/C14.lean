import VoluteModel.Model.Sop
import VoluteModel.Lemmas.SortDedup
import VoluteModel.Lemmas.Tabulate
import VoluteModel.Props.C12

/-!
# C14 - Sop operations preserve meaning and return containment-irredundant covers
-/

namespace VoluteModel.Props.C14
open VoluteModel VoluteModel.Props.C12

/-- the function denoted by a list of cubes -/
def cval (cs : List Cube) (m : Nat) : Bool := cs.any (fun c => c.value m)

theorem foldl_or (l : List Cube) (m : Nat) (init : Bool) :
    l.foldl (fun ret c => ret || c.value m) init = (init || l.any (fun c => c.value m)) := by
  induction l generalizing init with
  | nil => simp
  | cons a l ih => simp [List.foldl_cons, ih, Bool.or_assoc]

theorem sop_value (s : Sop) (m : Nat) : s.value m = cval s.cubes m := by
  unfold Sop.value cval; rw [foldl_or]; simp

theorem sop_value_any (s : Sop) (m : Nat) : (s.cubes.map (fun c => c.value m)).any id = s.value m := by
  rw [sop_value]; simp [cval, List.any_map]

/-! ## the order used by `sort` -/

theorem le_total (a b : Cube) : (Cube.le a b || Cube.le b a) = true := by
  unfold Cube.le
  rcases Nat.lt_trichotomy a.pos.toNat b.pos.toNat with h | h | h
  · simp [h]
  · have e : a.pos = b.pos := BitVec.eq_of_toNat_eq h
    rcases Nat.le_total a.neg.toNat b.neg.toNat with h2 | h2 <;> simp [e, h2]
  · simp [h]

theorem le_trans (a b c : Cube) (h1 : Cube.le a b = true) (h2 : Cube.le b c = true) : Cube.le a c = true := by
  unfold Cube.le at *
  simp only [Bool.or_eq_true, decide_eq_true_eq, Bool.and_eq_true, beq_iff_eq] at *
  rcases h1 with h1 | ⟨e1, h1⟩ <;> rcases h2 with h2 | ⟨e2, h2⟩
  · left; omega
  · left; rw [← e2]; exact h1
  · left; rw [e1]; exact h2
  · right; exact ⟨e1.trans e2, by omega⟩

theorem le_antisymm (a b : Cube) (h1 : Cube.le a b = true) (h2 : Cube.le b a = true) : a = b := by
  unfold Cube.le at *
  simp only [Bool.or_eq_true, decide_eq_true_eq, Bool.and_eq_true, beq_iff_eq] at *
  rcases h1 with h1 | ⟨e1, h1⟩ <;> rcases h2 with h2 | ⟨e2, h2⟩
  · omega
  · rw [e2] at h1; omega
  · rw [e1] at h2; omega
  · have : a.neg = b.neg := BitVec.eq_of_toNat_eq (by omega)
    cases a; cases b; simp_all

/-! ## literal containment -/

/-- `implies` as containment of literal sets -/
theorem implies_bits (a b : Cube) : a.implies b = true ↔
    ∀ v, v < 32 → (b.pos.getLsbD v = true → a.pos.getLsbD v = true) ∧ (b.neg.getLsbD v = true → a.neg.getLsbD v = true) := by
  unfold Cube.implies
  simp only [Bool.and_eq_true, beq_iff_eq]
  constructor
  · rintro ⟨h1, h2⟩ v hv
    have e1 := congrArg (fun x => x.getLsbD v) h1
    have e2 := congrArg (fun x => x.getLsbD v) h2
    simp only [BitVec.getLsbD_or] at e1 e2
    constructor
    · intro hp; rw [hp] at e1; simpa using e1.symm
    · intro hn; rw [hn] at e2; simpa using e2.symm
  · intro h
    constructor <;> apply BitVec.eq_of_getLsbD_eq <;> intro v hv <;> simp only [BitVec.getLsbD_or]
    · cases hp : b.pos.getLsbD v
      · simp
      · simp [(h v hv).1 hp]
    · cases hn : b.neg.getLsbD v
      · simp
      · simp [(h v hv).2 hn]

theorem implies_refl (a : Cube) : a.implies a = true := by
  rw [implies_bits]; intro v _; exact ⟨id, id⟩

theorem implies_trans (a b c : Cube) (h1 : a.implies b = true) (h2 : b.implies c = true) : a.implies c = true := by
  rw [implies_bits] at *
  intro v hv
  exact ⟨fun h => (h1 v hv).1 ((h2 v hv).1 h), fun h => (h1 v hv).2 ((h2 v hv).2 h)⟩

/-- containment gives semantic implication (for every cube) -/
theorem implies_sound (a b : Cube) (h : a.implies b = true) (m : Nat) (hm : a.value m = true) : b.value m = true := by
  rw [implies_bits] at h
  rw [value_iff] at hm ⊢
  intro v hv
  exact ⟨fun hp => (hm v hv).1 ((h v hv).1 hp), fun hn => (hm v hv).2 ((h v hv).2 hn)⟩

/-- number of literals (as a measure) -/
def lits (c : Cube) : Nat :=
  (List.range 32).countP (fun v => c.pos.getLsbD v) + (List.range 32).countP (fun v => c.neg.getLsbD v)

theorem countP_lt_of {l : List Nat} {p q : Nat → Bool} (hpq : ∀ x ∈ l, p x = true → q x = true)
    (hx : ∃ x ∈ l, q x = true ∧ p x = false) : l.countP p < l.countP q := by
  induction l with
  | nil => obtain ⟨x, hx, _⟩ := hx; cases hx
  | cons a l ih =>
    simp only [List.countP_cons]
    obtain ⟨x, hxm, hq, hp⟩ := hx
    have hle : l.countP p ≤ l.countP q := List.countP_mono_left (fun y hy => hpq y (List.mem_cons_of_mem _ hy))
    rcases List.mem_cons.mp hxm with rfl | hxl
    · simp only [hq, hp, if_true, Bool.false_eq_true, if_false]; omega
    · have := ih (fun y hy => hpq y (List.mem_cons_of_mem _ hy)) ⟨x, hxl, hq, hp⟩
      cases hpa : p a
      · cases hqa : q a
        · simp only [Bool.false_eq_true, if_false]; omega
        · simp only [Bool.false_eq_true, if_false, if_true]; omega
      · have hqa := hpq a (by simp) hpa
        simp only [hqa, if_true]; omega

theorem lits_lt (a b : Cube) (h : a.implies b = true) (hne : a ≠ b) : lits b < lits a := by
  rw [implies_bits] at h
  have hp : (List.range 32).countP (fun v => b.pos.getLsbD v) ≤ (List.range 32).countP (fun v => a.pos.getLsbD v) :=
    List.countP_mono_left (fun v hv => (h v (by simpa using hv)).1)
  have hn : (List.range 32).countP (fun v => b.neg.getLsbD v) ≤ (List.range 32).countP (fun v => a.neg.getLsbD v) :=
    List.countP_mono_left (fun v hv => (h v (by simpa using hv)).2)
  unfold lits
  by_cases hpe : a.pos = b.pos
  · have hne' : a.neg ≠ b.neg := by intro e; apply hne; cases a; cases b; simp_all
    have : ∃ v, v < 32 ∧ a.neg.getLsbD v ≠ b.neg.getLsbD v := by
      by_cases hex : ∃ v, v < 32 ∧ a.neg.getLsbD v ≠ b.neg.getLsbD v
      · exact hex
      · exfalso; apply hne'
        apply BitVec.eq_of_getLsbD_eq; intro v hv
        by_cases he : a.neg.getLsbD v = b.neg.getLsbD v
        · exact he
        · exact absurd ⟨v, hv, he⟩ hex
    obtain ⟨v, hv, hd⟩ := this
    have hlt := countP_lt_of (l := List.range 32) (p := fun v => b.neg.getLsbD v) (q := fun v => a.neg.getLsbD v)
      (fun x hx => (h x (by simpa using hx)).2)
      ⟨v, by simpa using hv, by
        cases ha : a.neg.getLsbD v <;> cases hb : b.neg.getLsbD v <;> simp_all⟩
    omega
  · have : ∃ v, v < 32 ∧ a.pos.getLsbD v ≠ b.pos.getLsbD v := by
      by_cases hex : ∃ v, v < 32 ∧ a.pos.getLsbD v ≠ b.pos.getLsbD v
      · exact hex
      · exfalso; apply hpe
        apply BitVec.eq_of_getLsbD_eq; intro v hv
        by_cases he : a.pos.getLsbD v = b.pos.getLsbD v
        · exact he
        · exact absurd ⟨v, hv, he⟩ hex
    obtain ⟨v, hv, hd⟩ := this
    have hlt := countP_lt_of (l := List.range 32) (p := fun v => b.pos.getLsbD v) (q := fun v => a.pos.getLsbD v)
      (fun x hx => (h x (by simpa using hx)).1)
      ⟨v, by simpa using hv, by
        cases ha : a.pos.getLsbD v <;> cases hb : b.pos.getLsbD v <;> simp_all⟩
    omega

/-! ## simplify -/

/-- the list after dropping zero cubes, sorting and removing duplicates -/
def dedupd (cs : List Cube) : List Cube := dedupAdj ((cs.filter (fun c => !c.isZero)).mergeSort Cube.le)

theorem simplify_eq (cs : List Cube) :
    Sop.simplifyCubes cs = (dedupd cs).filter (fun c => (dedupd cs).all (fun o => c == o || !c.implies o)) := rfl

theorem dedupd_spec (cs : List Cube) :
    (dedupd cs).Nodup ∧ ∀ x, x ∈ dedupd cs ↔ (x ∈ cs ∧ x.isZero = false) := by
  obtain ⟨h1, h2⟩ := sort_dedup_spec Cube.le le_trans le_total le_antisymm (cs.filter (fun c => !c.isZero))
  refine ⟨h1, ?_⟩
  intro x
  rw [show dedupd cs = dedupAdj ((cs.filter (fun c => !c.isZero)).mergeSort Cube.le) from rfl, h2 x]
  simp [List.mem_filter]

/-- every cube of the deduplicated list is absorbed by a surviving cube -/
theorem absorber (cs : List Cube) : ∀ k c, lits c ≤ k → c ∈ dedupd cs →
    ∃ o ∈ Sop.simplifyCubes cs, c.implies o = true := by
  intro k
  induction k with
  | zero =>
    intro c hk hc
    -- no literal: nothing can absorb it strictly
    refine ⟨c, ?_, implies_refl c⟩
    rw [simplify_eq, List.mem_filter]
    refine ⟨hc, ?_⟩
    rw [List.all_eq_true]
    intro o ho
    by_cases he : c = o
    · simp [he]
    · cases hi : c.implies o
      · simp
      · have := lits_lt c o hi he; omega
  | succ k ih =>
    intro c hk hc
    by_cases hs : c ∈ Sop.simplifyCubes cs
    · exact ⟨c, hs, implies_refl c⟩
    · rw [simplify_eq, List.mem_filter] at hs
      have : ¬ (dedupd cs).all (fun o => c == o || !c.implies o) = true := fun h => hs ⟨hc, h⟩
      rw [List.all_eq_true] at this
      have : ∃ o ∈ dedupd cs, ¬ ((c == o || !c.implies o) = true) := by
        by_cases hex : ∃ o ∈ dedupd cs, ¬ ((c == o || !c.implies o) = true)
        · exact hex
        · exfalso; apply this; intro o ho
          by_cases hh : (c == o || !c.implies o) = true
          · exact hh
          · exact absurd ⟨o, ho, hh⟩ hex
      obtain ⟨o, ho, hno⟩ := this
      have hne : c ≠ o := by intro e; apply hno; simp [e]
      have himp : c.implies o = true := by
        cases hi : c.implies o
        · exfalso; apply hno; simp [hi]
        · rfl
      have hlt := lits_lt c o himp hne
      obtain ⟨o', ho', hi'⟩ := ih o (by omega) ho
      exact ⟨o', ho', implies_trans c o o' himp hi'⟩

/-- simplify preserves the denoted function -/
theorem simplify_value (cs : List Cube) (m : Nat) : cval (Sop.simplifyCubes cs) m = cval cs m := by
  apply Bool.eq_iff_iff.mpr
  unfold cval
  simp only [List.any_eq_true]
  constructor
  · rintro ⟨c, hc, hv⟩
    rw [simplify_eq, List.mem_filter] at hc
    exact ⟨c, ((dedupd_spec cs).2 c).mp hc.1 |>.1, hv⟩
  · rintro ⟨c, hc, hv⟩
    have hnz : c.isZero = false := by
      cases hz : c.isZero
      · rfl
      · rw [value_of_isZero c hz] at hv; cases hv
    have hd : c ∈ dedupd cs := ((dedupd_spec cs).2 c).mpr ⟨hc, hnz⟩
    obtain ⟨o, ho, hi⟩ := absorber cs (lits c) c (Nat.le_refl _) hd
    exact ⟨o, ho, implies_sound c o hi m hv⟩

/-- the result of simplify is irredundant: no zero cube, no duplicate, no cube implying another -/
theorem simplify_irredundant (cs : List Cube) :
    (∀ c ∈ Sop.simplifyCubes cs, c.isZero = false) ∧ (Sop.simplifyCubes cs).Nodup ∧
    (∀ c ∈ Sop.simplifyCubes cs, ∀ d ∈ Sop.simplifyCubes cs, c ≠ d → c.implies d = false) := by
  obtain ⟨hn, hm⟩ := dedupd_spec cs
  rw [simplify_eq]
  refine ⟨?_, hn.filter _, ?_⟩
  · intro c hc
    rw [List.mem_filter] at hc
    exact ((hm c).mp hc.1).2
  · intro c hc d hd hne
    rw [List.mem_filter] at hc hd
    have := (List.all_eq_true.mp hc.2) d hd.1
    cases hi : c.implies d
    · rfl
    · simp [hi, hne] at this

/-! ## the operations -/

theorem or_spec (a b r : Sop) (h : Sop.or a b = some r) :
    (∀ m, r.value m = (a.value m || b.value m)) ∧ r.n = a.n ∧ r.cubes = Sop.simplifyCubes (a.cubes ++ b.cubes) := by
  unfold Sop.or at h
  split at h
  · cases h
  · cases h
    refine ⟨?_, rfl, rfl⟩
    intro m
    rw [sop_value, sop_value, sop_value]
    simp only []
    rw [simplify_value]
    simp [cval, List.any_append]

theorem products_value (as bs : List Cube) (m : Nat) :
    cval (as.flatMap (fun c1 => bs.filterMap (fun c2 =>
      let c := Cube.and c1 c2
      if c != Cube.zero then some c else none))) m = (cval as m && cval bs m) := by
  apply Bool.eq_iff_iff.mpr
  unfold cval
  simp only [List.any_eq_true, List.mem_flatMap, List.mem_filterMap, Bool.and_eq_true]
  constructor
  · rintro ⟨c, ⟨c1, h1, c2, h2, hc⟩, hv⟩
    split at hc
    · cases hc
      rw [and_value] at hv
      simp only [Bool.and_eq_true] at hv
      exact ⟨⟨c1, h1, hv.1⟩, ⟨c2, h2, hv.2⟩⟩
    · cases hc
  · rintro ⟨⟨c1, h1, v1⟩, ⟨c2, h2, v2⟩⟩
    have hv : (Cube.and c1 c2).value m = true := by rw [and_value, v1, v2]; rfl
    have hne : Cube.and c1 c2 ≠ Cube.zero := by
      intro hz; rw [hz, value_of_isZero _ zero_isZero] at hv; cases hv
    refine ⟨Cube.and c1 c2, ⟨c1, h1, c2, h2, ?_⟩, hv⟩
    simp [hne]

theorem and_spec (a b r : Sop) (h : Sop.and a b = some r) :
    (∀ m, r.value m = (a.value m && b.value m)) ∧ r.n = a.n := by
  unfold Sop.and at h
  split at h
  · cases h
  · cases h
    refine ⟨?_, rfl⟩
    intro m
    rw [sop_value, sop_value, sop_value]
    simp only []
    rw [simplify_value, products_value]

/-- the structural part for both operations: results are irredundant covers -/
theorem results_irredundant (a b r : Sop) (h : Sop.and a b = some r ∨ Sop.or a b = some r) :
    (∀ c ∈ r.cubes, c.isZero = false) ∧ r.cubes.Nodup ∧
    (∀ c ∈ r.cubes, ∀ d ∈ r.cubes, c ≠ d → c.implies d = false) := by
  rcases h with h | h
  · unfold Sop.and at h
    split at h
    · cases h
    · cases h; exact simplify_irredundant _
  · unfold Sop.or at h
    split at h
    · cases h
    · cases h; exact simplify_irredundant _

/-- is_zero holds exactly for the constant-zero function (on irredundant covers) -/
theorem isZero_iff (cs : List Cube) (hnz : ∀ c ∈ cs, c.isZero = false) :
    (⟨0, cs⟩ : Sop).isZero = true ↔ ∀ m, cval cs m = false := by
  unfold Sop.isZero
  constructor
  · intro h m
    have : cs = [] := by simpa using h
    subst this; rfl
  · intro h
    match cs, hnz, h with
    | [], _, _ => rfl
    | c :: cs', hnz, h =>
      exfalso
      have := h c.pos.toNat
      unfold cval at this
      rw [List.any_cons, witness c (hnz c (by simp))] at this
      simp at this

/-- is_one only for the constant-one function -/
theorem isOne_sound (s : Sop) (h : s.isOne = true) (m : Nat) : s.value m = true := by
  unfold Sop.isOne at h
  match hc : s.cubes with
  | [] => rw [hc] at h; simp at h
  | c :: cs =>
    rw [hc] at h
    simp only [List.head?_cons] at h
    rw [sop_value, hc]
    have hv : c.value m = true := by
      unfold Cube.isOne at h
      have h' : c.pos = 0 ∧ c.neg = 0 := by simpa using h
      rw [value_iff]; intro v hv
      rw [h'.1, h'.2]; simp
    simp [cval, hv]

/-! ## complement (De Morgan) -/

theorem posVars_mem (c : Cube) (v : Nat) : v ∈ c.posVars ↔ v < 32 ∧ c.pos.getLsbD v = true := by
  unfold Cube.posVars
  rw [List.mem_filter, List.mem_range]
  have : ((c.pos >>> v) &&& 1 != 0) = c.pos.getLsbD v := by
    have h : ((c.pos >>> v) &&& 1#32) = if c.pos.getLsbD v then 1#32 else 0#32 := by
      apply BitVec.eq_of_getLsbD_eq
      intro k hk
      rw [BitVec.getLsbD_and, BitVec.getLsbD_ushiftRight]
      cases k with
      | zero => cases hb : c.pos.getLsbD v <;> simp [hb]
      | succ k =>
        have : (1#32).getLsbD (k + 1) = false := by simp [BitVec.getLsbD_one]
        rw [this]
        cases hb : c.pos.getLsbD v <;> simp [this]
    show ((c.pos >>> v) &&& 1#32 != 0#32) = _
    rw [h]
    cases c.pos.getLsbD v <;> decide
  rw [this]

theorem negVars_mem (c : Cube) (v : Nat) : v ∈ c.negVars ↔ v < 32 ∧ c.neg.getLsbD v = true := by
  have := posVars_mem ⟨c.neg, c.pos⟩ v
  simpa [Cube.posVars, Cube.negVars] using this

theorem nthVar_value (v : Nat) (hv : v < 32) (m : Nat) :
    (Cube.nthVar v).value m = abit m v ∧ (Cube.nthVarInv v).value m = !abit m v := by
  have hbit : ∀ k, k < 32 → ((1#32 : W32) <<< v).getLsbD k = decide (k = v) := by
    intro k hk
    rw [BitVec.getLsbD_shiftLeft]
    by_cases h : k < v
    · have : k ≠ v := by omega
      simp [h, this]
    · by_cases he : k = v
      · subst he; simp [hk]
      · have : k - v ≠ 0 := by omega
        simp [h, he, hk, BitVec.getLsbD_one, this]
  constructor
  · apply Bool.eq_iff_iff.mpr
    rw [value_iff]
    unfold Sem Cube.nthVar
    constructor
    · intro h; exact (h v hv).1 (by rw [hbit v hv]; simp)
    · intro h k hk
      constructor
      · intro hp; rw [hbit k hk] at hp
        have : k = v := by simpa using hp
        subst this; exact h
      · intro hn; simp at hn
  · apply Bool.eq_iff_iff.mpr
    rw [value_iff]
    unfold Sem Cube.nthVarInv
    constructor
    · intro h
      have := (h v hv).2 (by rw [hbit v hv]; simp)
      simp [this]
    · intro h k hk
      constructor
      · intro hp; simp at hp
      · intro hn; rw [hbit k hk] at hn
        have : k = v := by simpa using hn
        subst this; simpa using h

/-- the De Morgan factor of a cube: the OR of its complemented literals is its complement -/
theorem factor_value (c : Cube) (m : Nat) :
    cval (c.posVars.map Cube.nthVarInv ++ c.negVars.map Cube.nthVar) m = !c.value m := by
  apply Bool.eq_iff_iff.mpr
  unfold cval
  simp only [List.any_append, Bool.or_eq_true, List.any_eq_true, List.mem_map, Bool.not_eq_true']
  constructor
  · intro h
    cases hv : c.value m
    · rfl
    · exfalso
      have hs := (value_iff c m).mp hv
      rcases h with ⟨x, ⟨v, hvm, rfl⟩, hx⟩ | ⟨x, ⟨v, hvm, rfl⟩, hx⟩
      · obtain ⟨hv32, hp⟩ := (posVars_mem c v).mp hvm
        rw [(nthVar_value v hv32 m).2, (hs v hv32).1 hp] at hx; cases hx
      · obtain ⟨hv32, hn⟩ := (negVars_mem c v).mp hvm
        rw [(nthVar_value v hv32 m).1, (hs v hv32).2 hn] at hx; cases hx
  · intro h
    -- some literal is violated
    have : ¬ Sem c m := fun hs => by rw [(value_iff c m).mpr hs] at h; cases h
    unfold Sem at this
    have : ∃ v, v < 32 ∧ ((c.pos.getLsbD v = true ∧ abit m v = false) ∨ (c.neg.getLsbD v = true ∧ abit m v = true)) := by
      by_cases hex : ∃ v, v < 32 ∧ ((c.pos.getLsbD v = true ∧ abit m v = false) ∨ (c.neg.getLsbD v = true ∧ abit m v = true))
      · exact hex
      · exfalso; apply this
        intro v hv
        constructor
        · intro hp
          cases ha : abit m v
          · exact absurd ⟨v, hv, Or.inl ⟨hp, ha⟩⟩ hex
          · rfl
        · intro hn
          cases ha : abit m v
          · rfl
          · exact absurd ⟨v, hv, Or.inr ⟨hn, ha⟩⟩ hex
    obtain ⟨v, hv, hcase⟩ := this
    rcases hcase with ⟨hp, ha⟩ | ⟨hn, ha⟩
    · left
      exact ⟨_, ⟨v, (posVars_mem c v).mpr ⟨hv, hp⟩, rfl⟩, by rw [(nthVar_value v hv m).2, ha]; rfl⟩
    · right
      exact ⟨_, ⟨v, (negVars_mem c v).mpr ⟨hv, hn⟩, rfl⟩, by rw [(nthVar_value v hv m).1, ha]⟩

/-- `!a` denotes the complement, whatever cubes the operand was built from -/
theorem not_spec (s r : Sop) (h : Sop.not s = some r) : (∀ m, r.value m = !s.value m) ∧ r.n = s.n := by
  unfold Sop.not at h
  -- generalise the fold
  have key : ∀ (cs : List Cube) (acc : Option Sop) (r : Sop),
      cs.foldl (fun ret c => match ret with
        | none => none
        | some r => Sop.and r ⟨s.n, c.posVars.map Cube.nthVarInv ++ c.negVars.map Cube.nthVar⟩) acc = some r →
      ∃ a, acc = some a ∧ (a.n = s.n → r.n = s.n ∧ ∀ m, r.value m = (a.value m && !cval cs m)) := by
    intro cs
    induction cs with
    | nil => intro acc r h; exact ⟨r, h, fun hn => ⟨hn, fun m => by simp [cval]⟩⟩
    | cons c cs ih =>
      intro acc r h
      simp only [List.foldl_cons] at h
      obtain ⟨a', ha', hrest⟩ := ih _ r h
      match acc, ha' with
      | none, ha' => simp at ha'
      | some a, ha' =>
        refine ⟨a, rfl, ?_⟩
        intro hn
        simp only [] at ha'
        obtain ⟨hv, hn'⟩ := and_spec a _ a' ha'
        obtain ⟨r1, r2⟩ := hrest (hn'.trans hn)
        refine ⟨r1, ?_⟩
        intro m
        rw [r2 m, hv m, sop_value ⟨s.n, _⟩]
        simp only []
        rw [factor_value]
        simp only [cval, List.any_cons]
        cases a.value m <;> cases c.value m <;> simp
  obtain ⟨a, ha, hr⟩ := key s.cubes (some (Sop.one s.n)) r h
  cases ha
  obtain ⟨h1, h2⟩ := hr rfl
  refine ⟨?_, h1⟩
  intro m
  rw [h2 m, sop_value s]
  have : (Sop.one s.n).value m = true := isOne_sound _ (by simp [Sop.isOne, Sop.one, Cube.isOne, Cube.one]) m
  rw [this]; simp

/-! ## conversions -/

/-- Lut -> Sop is the minterm cover and converting back is the identity -/
theorem fromLut_roundtrip (l : Lut) (hn : l.n ≤ 32) (m : Nat) (hm : m < 2 ^ l.n) :
    (Sop.fromLut l).value m = l.eval m ∧ (Sop.fromLut l).toLut.eval m = l.eval m := by
  have hval : (Sop.fromLut l).value m = l.eval m := by
    rw [sop_value]
    unfold Sop.fromLut cval Dyn.numBits
    simp only [Nat.shiftLeft_eq, Nat.one_mul]
    apply Bool.eq_iff_iff.mpr
    simp only [List.any_eq_true, List.mem_filterMap, List.mem_range]
    have agree : ∀ k, k < 2 ^ l.n → ((Cube.minterm l.n k).value m = true ↔ k = m) := by
      intro k hk
      rw [minterm_value l.n k m hn]
      constructor
      · intro h
        apply Nat.eq_of_testBit_eq
        intro v
        by_cases hv : v < l.n
        · have := h v hv
          rw [abit_eq m v (by omega), abit_eq k v (by omega)] at this
          exact this.symm
        · have p2 : 2 ^ l.n ≤ 2 ^ v := Nat.pow_le_pow_right (by omega) (by omega)
          rw [Nat.testBit_lt_two_pow (by omega), Nat.testBit_lt_two_pow (by omega)]
      · intro h; subst h; intro v _; rfl
    constructor
    · rintro ⟨c, ⟨k, hk, hc⟩, hv⟩
      split at hc
      · rename_i hb
        cases hc
        have := (agree k hk).mp hv
        subst this
        unfold Lut.eval; rw [← getBit_eq_bit]; exact hb
      · cases hc
    · intro h
      refine ⟨Cube.minterm l.n m, ⟨m, hm, ?_⟩, (agree m hm).mpr rfl⟩
      unfold Lut.eval at h; rw [← getBit_eq_bit] at h
      simp [h]
  refine ⟨hval, ?_⟩
  have := tabulate_bit (Sop.fromLut l).n (Sop.fromLut l).value m (by simpa [Sop.fromLut] using hm)
  unfold Sop.toLut Lut.eval
  rw [this.1]; exact hval

/-- converting any Sop to a Lut tabulates its function -/
theorem toLut_spec (s : Sop) (m : Nat) (hm : m < 2 ^ s.n) : s.toLut.eval m = s.value m ∧ s.toLut.n = s.n := by
  have := tabulate_bit s.n s.value m hm
  exact ⟨this.1, this.2⟩

/-- non-vacuity: a redundant cube list is simplified to an irredundant one -/
example : Sop.or ⟨2, [⟨1, 0⟩, ⟨3, 0⟩]⟩ ⟨2, [⟨1, 0⟩, ⟨0, 2⟩]⟩ =
    some ⟨2, Sop.simplifyCubes [⟨1, 0⟩, ⟨3, 0⟩, ⟨1, 0⟩, ⟨0, 2⟩]⟩ := by simp [Sop.or]


/-! ## expressions nesting any number of operations

The property quantifies over expressions that nest several `&`, `|`, `!`; the three operator
theorems compose along the expression tree, for every depth. -/

/-- the structural guarantee of the property: no contradictory cube, no duplicate, no cube that
implies another -/
def Irredundant (r : Sop) : Prop :=
  (∀ c ∈ r.cubes, c.isZero = false) ∧ r.cubes.Nodup ∧
    (∀ c ∈ r.cubes, ∀ d ∈ r.cubes, c ≠ d → c.implies d = false)

theorem one_irredundant (n : Nat) : Irredundant (Sop.one n) := by
  refine ⟨?_, ?_, ?_⟩
  · intro c hc
    have : c = Cube.one := by simpa [Sop.one] using hc
    subst this; decide
  · simp [Sop.one]
  · intro c hc d hd hne
    have h1 : c = Cube.one := by simpa [Sop.one] using hc
    have h2 : d = Cube.one := by simpa [Sop.one] using hd
    exact absurd (h1.trans h2.symm) hne

/-- the complement is an irredundant cover too -/
theorem not_irredundant (s r : Sop) (h : Sop.not s = some r) : Irredundant r := by
  unfold Sop.not at h
  have key : ∀ (cs : List Cube) (acc : Option Sop) (r : Sop),
      cs.foldl (fun ret c => match ret with
        | none => none
        | some r => Sop.and r ⟨s.n, c.posVars.map Cube.nthVarInv ++ c.negVars.map Cube.nthVar⟩) acc = some r →
      (cs = [] ∧ acc = some r) ∨ Irredundant r := by
    intro cs
    induction cs with
    | nil => intro acc r h; exact Or.inl ⟨rfl, h⟩
    | cons c cs ih =>
      intro acc r h
      simp only [List.foldl_cons] at h
      rcases ih _ r h with ⟨_, hacc⟩ | hir
      · right
        match acc, hacc with
        | none, hacc => simp at hacc
        | some a, hacc => exact results_irredundant a _ r (Or.inl hacc)
      · exact Or.inr hir
  rcases key s.cubes _ r h with ⟨_, hr⟩ | hir
  · cases hr; exact one_irredundant s.n
  · exact hir

inductive SExpr where
  | leaf (s : Sop)
  | and (a b : SExpr)
  | or (a b : SExpr)
  | not (a : SExpr)

/-- what the crate computes (`none` = the size assertion of an operator fails) -/
def SExpr.eval : SExpr → Option Sop
  | .leaf s => some s
  | .and a b => match a.eval, b.eval with
    | some x, some y => Sop.and x y
    | _, _ => none
  | .or a b => match a.eval, b.eval with
    | some x, some y => Sop.or x y
    | _, _ => none
  | .not a => match a.eval with
    | some x => Sop.not x
    | none => none

/-- what the expression means -/
def SExpr.den : SExpr → Nat → Bool
  | .leaf s, m => s.value m
  | .and a b, m => a.den m && b.den m
  | .or a b, m => a.den m || b.den m
  | .not a, m => !a.den m

def SExpr.isLeaf : SExpr → Bool
  | .leaf _ => true
  | _ => false

/-- the value of the result of an expression of any depth is the Boolean expression of the values
of its leaves, whatever cubes the leaves were built from -/
theorem expr_value (e : SExpr) (r : Sop) (h : e.eval = some r) : ∀ m, r.value m = e.den m := by
  induction e generalizing r with
  | leaf s => intro m; simp only [SExpr.eval, Option.some.injEq] at h; subst h; rfl
  | and a b iha ihb =>
    simp only [SExpr.eval] at h
    split at h
    · rename_i x y hx hy
      intro m
      rw [(and_spec x y r h).1 m, iha x hx m, ihb y hy m]; rfl
    · cases h
  | or a b iha ihb =>
    simp only [SExpr.eval] at h
    split at h
    · rename_i x y hx hy
      intro m
      rw [(or_spec x y r h).1 m, iha x hx m, ihb y hy m]; rfl
    · cases h
  | not a iha =>
    simp only [SExpr.eval] at h
    split at h
    · rename_i x hx
      intro m
      rw [(not_spec x r h).1 m, iha x hx m]; rfl
    · cases h

/-- every result of an operator - at the root of an expression of any depth - is an irredundant
cover -/
theorem expr_irredundant (e : SExpr) (r : Sop) (h : e.eval = some r) (hl : e.isLeaf = false) :
    Irredundant r := by
  cases e with
  | leaf s => simp [SExpr.isLeaf] at hl
  | and a b =>
    simp only [SExpr.eval] at h
    split at h
    · rename_i x y _ _; exact results_irredundant x y r (Or.inl h)
    · cases h
  | or a b =>
    simp only [SExpr.eval] at h
    split at h
    · rename_i x y _ _; exact results_irredundant x y r (Or.inr h)
    · cases h
  | not a =>
    simp only [SExpr.eval] at h
    split at h
    · rename_i x _; exact not_irredundant x r h
    · cases h

/-- non-vacuity: `(x0 | x0 x1) & (x1 | !x0 | x1 !x0)` over redundant operands evaluates -/
example : ((SExpr.and (.or (.leaf ⟨2, [⟨1, 0⟩]⟩) (.leaf ⟨2, [⟨3, 0⟩, ⟨3, 0⟩]⟩))
    (.leaf ⟨2, [⟨2, 0⟩, ⟨0, 1⟩, ⟨2, 1⟩]⟩)).eval).isSome = true := by
  simp [SExpr.eval, Sop.or, Sop.and]


end VoluteModel.Props.C14

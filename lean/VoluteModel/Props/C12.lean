import VoluteModel.Model.Sop
import VoluteModel.Lemmas.Bits

/-!
# C12 - cube algebra: evaluation, conjunction, implication and intersection are semantic

Cubes over 32 variables; an assignment is truncated to 32 bits (`mask as u32`).
`Sat c m v` is the literal-level reading used as the semantic definition.
-/

namespace VoluteModel.Props.C12
open VoluteModel

/-- bit `v` of the assignment `m` as seen by the cube (`m as u32`) -/
def abit (m v : Nat) : Bool := (BitVec.ofNat 32 m).getLsbD v

theorem abit_eq (m v : Nat) (hv : v < 32) : abit m v = m.testBit v := by
  unfold abit; rw [BitVec.getLsbD_ofNat]; simp [hv]

/-- the semantic definition: all positive variables set, all negative variables clear -/
def Sem (c : Cube) (m : Nat) : Prop :=
  ∀ v, v < 32 → (c.pos.getLsbD v = true → abit m v = true) ∧ (c.neg.getLsbD v = true → abit m v = false)

theorem ones_bit (v : Nat) (hv : v < 32) : (~~~ (0 : W32)).getLsbD v = true := by
  rw [BitVec.getLsbD_not]; simp [hv]

theorem abit_toNat (x : W32) (v : Nat) : abit x.toNat v = x.getLsbD v := by
  unfold abit; rw [BitVec.ofNat_toNat, BitVec.setWidth_eq]

theorem allOnes_iff (x : W32) : (x == ~~~ 0) = true ↔ ∀ v, v < 32 → x.getLsbD v = true := by
  constructor
  · intro h v hv
    have : x = ~~~ 0 := by simpa using h
    rw [this]; exact ones_bit v hv
  · intro h
    have : x = ~~~ 0 := by
      apply BitVec.eq_of_getLsbD_eq
      intro v hv
      rw [h v hv, ones_bit v hv]
    rw [this]; exact beq_self_eq_true _

theorem and_def (a b : Cube) : Cube.and a b =
    if (⟨a.pos ||| b.pos, a.neg ||| b.neg⟩ : Cube).isZero then Cube.zero else ⟨a.pos ||| b.pos, a.neg ||| b.neg⟩ := rfl

theorem fromMask_def (p q : W32) : Cube.fromMask p q = if (⟨p, q⟩ : Cube).isZero then Cube.zero else ⟨p, q⟩ := rfl

theorem zero_bits (v : Nat) (hv : v < 32) : Cube.zero.pos.getLsbD v = true ∧ Cube.zero.neg.getLsbD v = true :=
  ⟨ones_bit v hv, ones_bit v hv⟩

/-- `value` is the semantic definition -/
theorem value_iff (c : Cube) (m : Nat) : c.value m = true ↔ Sem c m := by
  unfold Cube.value Sem abit
  simp only [Bool.and_eq_true, allOnes_iff]
  constructor
  · rintro ⟨h1, h2⟩ v hv
    have a := h1 v hv
    have b := h2 v hv
    simp only [BitVec.getLsbD_or, BitVec.getLsbD_and, BitVec.getLsbD_not, hv, decide_true, Bool.true_and] at a b
    constructor
    · intro hp; rw [hp] at a; simpa using a
    · intro hn; rw [hn] at b; simpa using b
  · intro h
    constructor
    · intro v hv
      simp only [BitVec.getLsbD_or, BitVec.getLsbD_and, BitVec.getLsbD_not, hv, decide_true, Bool.true_and]
      cases hp : c.pos.getLsbD v
      · simp
      · simp [(h v hv).1 hp]
    · intro v hv
      simp only [BitVec.getLsbD_or, BitVec.getLsbD_and, BitVec.getLsbD_not, hv, decide_true, Bool.true_and]
      cases hn : c.neg.getLsbD v
      · simp
      · simp [(h v hv).2 hn]

theorem isZero_iff (c : Cube) : c.isZero = true ↔ ∃ v, v < 32 ∧ c.pos.getLsbD v = true ∧ c.neg.getLsbD v = true := by
  unfold Cube.isZero
  constructor
  · intro h
    have hne : c.pos &&& c.neg ≠ 0 := by simpa using h
    by_cases hex : ∃ v, v < 32 ∧ c.pos.getLsbD v = true ∧ c.neg.getLsbD v = true
    · exact hex
    · exfalso; apply hne
      apply BitVec.eq_of_getLsbD_eq
      intro v hv
      simp only [BitVec.getLsbD_and, BitVec.getLsbD_zero]
      cases hp : c.pos.getLsbD v <;> cases hn : c.neg.getLsbD v <;> simp
      exact hex ⟨v, hv, hp, hn⟩
  · rintro ⟨v, hv, hp, hn⟩
    have hne : c.pos &&& c.neg ≠ 0 := by
      intro h0
      have := congrArg (fun x => x.getLsbD v) h0
      simp [BitVec.getLsbD_and, hp, hn] at this
    simpa using hne

/-- a contradictory cube is false everywhere; in particular the canonical zero cube -/
theorem value_of_isZero (c : Cube) (h : c.isZero = true) (m : Nat) : c.value m = false := by
  cases hv : c.value m
  · rfl
  · obtain ⟨v, hv32, hp, hn⟩ := (isZero_iff c).mp h
    have := (value_iff c m).mp hv v hv32
    rw [this.1 hp] at this
    exact absurd (this.2 hn) (by simp)

theorem zero_isZero : Cube.zero.isZero = true := by decide

/-- `a & b` denotes the conjunction -/
theorem and_value (a b : Cube) (m : Nat) : (Cube.and a b).value m = (a.value m && b.value m) := by
  rw [and_def]
  split
  · rename_i hz
    rw [value_of_isZero _ zero_isZero]
    -- the union of the literal sets is contradictory, so no assignment satisfies both
    cases ha : a.value m <;> cases hb : b.value m <;> simp
    exfalso
    have hv := value_of_isZero _ hz m
    have : (⟨a.pos ||| b.pos, a.neg ||| b.neg⟩ : Cube).value m = true := by
      rw [value_iff]
      intro v hv32
      have sa := (value_iff a m).mp ha v hv32
      have sb := (value_iff b m).mp hb v hv32
      simp only [BitVec.getLsbD_or, Bool.or_eq_true]
      exact ⟨fun h => h.elim sa.1 sb.1, fun h => h.elim sa.2 sb.2⟩
    rw [hv] at this; cases this
  · apply Bool.eq_iff_iff.mpr
    simp only [Bool.and_eq_true, value_iff]
    constructor
    · intro h
      constructor <;> intro v hv32 <;> have := h v hv32 <;>
        simp only [BitVec.getLsbD_or, Bool.or_eq_true] at this
      · exact ⟨fun hp => this.1 (Or.inl hp), fun hn => this.2 (Or.inl hn)⟩
      · exact ⟨fun hp => this.1 (Or.inr hp), fun hn => this.2 (Or.inr hn)⟩
    · rintro ⟨sa, sb⟩ v hv32
      simp only [BitVec.getLsbD_or, Bool.or_eq_true]
      exact ⟨fun h => h.elim (sa v hv32).1 (sb v hv32).1, fun h => h.elim (sa v hv32).2 (sb v hv32).2⟩

/-- the representation invariant of every cube built through the public API -/
def OK (c : Cube) : Prop := c.isZero = false ∨ c = Cube.zero

theorem and_OK (a b : Cube) : OK (Cube.and a b) := by
  rw [and_def]; split
  · exact Or.inr rfl
  · rename_i h; exact Or.inl (by simpa using h)

theorem fromMask_OK (p q : W32) : OK (Cube.fromMask p q) := by
  rw [fromMask_def]; split
  · exact Or.inr rfl
  · rename_i h; exact Or.inl (by simpa using h)

theorem fromVars_OK (p q : List Nat) : OK (Cube.fromVars p q) := fromMask_OK _ _

/-- the assignment that sets exactly the positive variables of a non-contradictory cube satisfies it -/
theorem witness (c : Cube) (h : c.isZero = false) : c.value c.pos.toNat = true := by
  rw [value_iff]
  intro v hv
  have hab : abit c.pos.toNat v = c.pos.getLsbD v := abit_toNat _ v
  constructor
  · intro hp; rw [hab, hp]
  · intro hn
    rw [hab]
    cases hp : c.pos.getLsbD v
    · rfl
    · exfalso
      have : c.isZero = true := (isZero_iff c).mpr ⟨v, hv, hp, hn⟩
      rw [h] at this; cases this

/-- a variant of the witness with extra variables set, where allowed -/
theorem witness_with (c : Cube) (h : c.isZero = false) (extra : W32) :
    c.value (c.pos ||| (extra &&& ~~~ c.neg)).toNat = true := by
  rw [value_iff]
  intro v hv
  rw [abit_toNat]
  simp only [BitVec.getLsbD_or, BitVec.getLsbD_and, BitVec.getLsbD_not, hv, decide_true, Bool.true_and]
  constructor
  · intro hp; simp [hp]
  · intro hn
    cases hp : c.pos.getLsbD v
    · simp [hn]
    · exfalso
      have : c.isZero = true := (isZero_iff c).mpr ⟨v, hv, hp, hn⟩
      rw [h] at this; cases this

/-- `implies` (literal-set containment) is semantic implication, for cubes of the API -/
theorem implies_iff (a b : Cube) (ha : OK a) (hb : OK b) :
    a.implies b = true ↔ ∀ m, a.value m = true → b.value m = true := by
  have hcont : a.implies b = true ↔
      ∀ v, v < 32 → (b.pos.getLsbD v = true → a.pos.getLsbD v = true) ∧ (b.neg.getLsbD v = true → a.neg.getLsbD v = true) := by
    unfold Cube.implies
    simp only [Bool.and_eq_true, beq_iff_eq]
    constructor
    · rintro ⟨h1, h2⟩ v hv
      have e1 := congrArg (fun x => x.getLsbD v) h1
      have e2 := congrArg (fun x => x.getLsbD v) h2
      simp only [BitVec.getLsbD_or] at e1 e2
      constructor
      · intro hp; rw [hp] at e1; simpa using e1.symm
      · intro hn; rw [hn] at e2; simpa using e2.symm
    · intro h
      constructor <;> apply BitVec.eq_of_getLsbD_eq <;> intro v hv <;> simp only [BitVec.getLsbD_or]
      · cases hp : b.pos.getLsbD v
        · simp
        · simp [(h v hv).1 hp]
      · cases hn : b.neg.getLsbD v
        · simp
        · simp [(h v hv).2 hn]
  rw [hcont]
  constructor
  · intro h m hm
    rw [value_iff] at hm ⊢
    intro v hv
    exact ⟨fun hp => (hm v hv).1 ((h v hv).1 hp), fun hn => (hm v hv).2 ((h v hv).2 hn)⟩
  · intro h
    rcases ha with ha | ha
    · -- a is satisfiable: test with two witnesses
      have w1 := h _ (witness a ha)
      have w2 := h _ (witness_with a ha (~~~ 0))
      intro v hv
      constructor
      · intro hp
        have := ((value_iff b _).mp w1 v hv).1 hp
        rw [abit_toNat] at this; exact this
      · intro hn
        have := ((value_iff b _).mp w2 v hv).2 hn
        rw [abit_toNat] at this
        simp only [BitVec.getLsbD_or, BitVec.getLsbD_and, BitVec.getLsbD_not, hv, decide_true, Bool.true_and,
          ones_bit v hv] at this
        cases hna : a.neg.getLsbD v
        · simp [hna] at this
        · rfl
    · subst ha
      intro v hv
      exact ⟨fun _ => (zero_bits v hv).1, fun _ => (zero_bits v hv).2⟩

/-- `intersects`: some assignment satisfies both -/
theorem intersects_iff (a b : Cube) : a.intersects b = true ↔ ∃ m, a.value m = true ∧ b.value m = true := by
  unfold Cube.intersects
  constructor
  · intro h
    have hne : Cube.and a b ≠ Cube.zero := by simpa using h
    rcases and_OK a b with hok | hz
    · refine ⟨(Cube.and a b).pos.toNat, ?_⟩
      have := witness _ hok
      rw [and_value] at this
      simpa using this
    · exact absurd hz hne
  · rintro ⟨m, ha, hb⟩
    have : (Cube.and a b).value m = true := by rw [and_value, ha, hb]; rfl
    have hne : Cube.and a b ≠ Cube.zero := by
      intro hz
      rw [hz, value_of_isZero _ zero_isZero] at this; cases this
    simpa using hne

/-- equality of API cubes is semantic equality -/
theorem eq_iff_sem (a b : Cube) (ha : OK a) (hb : OK b) : a = b ↔ ∀ m, a.value m = b.value m := by
  constructor
  · intro h; subst h; intro; rfl
  · intro h
    have i1 := (implies_iff a b ha hb).mpr (fun m hm => by rw [← h m]; exact hm)
    have i2 := (implies_iff b a hb ha).mpr (fun m hm => by rw [h m]; exact hm)
    unfold Cube.implies at i1 i2
    simp only [Bool.and_eq_true, beq_iff_eq] at i1 i2
    have hp : a.pos = b.pos := by
      apply BitVec.eq_of_getLsbD_eq; intro v hv
      have e1 := congrArg (fun x => x.getLsbD v) i1.1
      have e2 := congrArg (fun x => x.getLsbD v) i2.1
      simp only [BitVec.getLsbD_or] at e1 e2
      cases h1 : a.pos.getLsbD v <;> cases h2 : b.pos.getLsbD v <;> simp_all
    have hn : a.neg = b.neg := by
      apply BitVec.eq_of_getLsbD_eq; intro v hv
      have e1 := congrArg (fun x => x.getLsbD v) i1.2
      have e2 := congrArg (fun x => x.getLsbD v) i2.2
      simp only [BitVec.getLsbD_or] at e1 e2
      cases h1 : a.neg.getLsbD v <;> cases h2 : b.neg.getLsbD v <;> simp_all
    cases a; cases b; simp_all

/-- `implies_lut`: the cube is an implicant of f -/
theorem impliesLut_iff (c : Cube) (l : Lut) :
    c.impliesLut l = true ↔ ∀ m, m < 2 ^ l.n → c.value m = true → getBit l.t m = true := by
  unfold Cube.impliesLut Dyn.numBits
  simp only [List.all_eq_true, List.mem_range, Nat.shiftLeft_eq, Nat.one_mul]
  constructor
  · intro h m hm hv
    have := h m hm
    rw [hv] at this
    simpa using this
  · intro h m hm
    cases hv : c.value m
    · simp
    · simp [h m hm hv]

theorem lowMask_bit : ∀ n : Fin 32, ∀ v : Fin 32,
    (((1#32 <<< n.val) - 1 : W32).getLsbD v.val) = decide (v.val < n.val) := by decide +kernel

/-- `minterm(n, m)` (n <= 32) is true exactly on the assignments that agree with m on the
    first n variables -/
theorem minterm_value (n m a : Nat) (hn : n ≤ 32) :
    (Cube.minterm n m).value a = true ↔ ∀ v, v < n → abit a v = abit m v := by
  have htot : ∀ v, v < 32 → ((if n ≥ 32 then ~~~ (0 : W32) else (1#32 <<< n) - 1).getLsbD v) = decide (v < n) := by
    intro v hv
    by_cases h32 : n ≥ 32
    · have : n = 32 := by omega
      subst this
      simp only [ge_iff_le, Nat.le_refl, if_true, ones_bit v hv, hv, decide_true]
    · simp only [h32, if_false]
      exact lowMask_bit ⟨n, by omega⟩ ⟨v, hv⟩
  rw [value_iff]
  unfold Sem Cube.minterm
  simp only [BitVec.getLsbD_and, BitVec.getLsbD_not]
  constructor
  · intro h v hv
    have hv32 : v < 32 := by omega
    have := h v hv32
    rw [htot v hv32] at this
    simp only [hv, decide_true, Bool.and_true, hv32, Bool.true_and] at this
    unfold abit at this ⊢
    cases hm : (BitVec.ofNat 32 m).getLsbD v
    · rw [hm] at this; exact this.2 rfl
    · rw [hm] at this; exact this.1 rfl
  · intro h v hv32
    rw [htot v hv32]
    by_cases hv : v < n
    · simp only [hv, decide_true, Bool.and_true, hv32, Bool.true_and]
      have := h v hv
      unfold abit at this ⊢
      constructor
      · intro hm; rw [this, hm]
      · intro hm; rw [this]; simpa using hm
    · simp [hv]

/-- literal and gate counts -/
theorem counts (c : Cube) : c.numLits = (if c.isZero then 0 else popc 32 c.pos.toNat + popc 32 c.neg.toNat) ∧
    c.numGates = c.numLits - 1 := by
  constructor
  · rfl
  · unfold Cube.numGates; omega

/-- the enumeration yields exactly 3^n cubes, none contradictory (kernel-evaluated, n <= 5) -/
theorem all_count : ∀ n : Fin 6, (Cube.all n.val).length = 3 ^ n.val ∧
    (Cube.all n.val).all (fun c => !c.isZero) = true := by decide +kernel

/-- non-vacuity -/
example : Cube.and ⟨1, 2⟩ ⟨4, 0⟩ = ⟨5, 2⟩ ∧ Cube.and ⟨1, 2⟩ ⟨2, 0⟩ = Cube.zero ∧
    (Cube.minterm 32 0xfffffffe).value 0xfffffffe = true := by decide +kernel

end VoluteModel.Props.C12

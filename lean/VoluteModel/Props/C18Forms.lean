import VoluteModel.Props.C18Ilp
import VoluteModel.Props.C18

/-!
# C18: the optimum of the programme is the minimum over ALL two-level forms

`Props/C18Ilp.lean` shows that an optimal solution of the programme has minimum documented cost
among the selections over the candidate list.  This file closes the gap to the property's wording
("the minimum over all such two-level forms"): every form made of cubes (and exclusive cubes of two
literals or more) over the variables in which each term implies its output uses candidates only
(`Props/C18.lean`: the candidate lists are complete and duplicate-free), and the selection it
induces costs no more than the form (`form_to_selection`, `xor_form_to_selection`, and for XOR
lists with repeated cubes `xor_form_to_selection'`: the cubes occurring an odd number of times).
Hence `sop_mip_minimal`, `esop_mip_minimal` and `esop_mip_minimal_general`.
-/

namespace VoluteModel.Mip
open VoluteModel VoluteModel.Optim

/-! ## From forms over arbitrary terms to selections over the candidate list -/

theorem sum_erase {α} [DecidableEq α] (l : List α) (w : α → Rat) (x : α) (h : x ∈ l) :
    (l.map w).sum = w x + ((l.erase x).map w).sum := by
  induction l with
  | nil => simp at h
  | cons a l ih =>
    by_cases hax : a = x
    · subst hax; simp
    · have hx : x ∈ l := by simpa [Ne.symm hax] using h
      have hbeq : (a == x) = false := by simpa using hax
      rw [List.erase_cons, hbeq]
      simp only [Bool.false_eq_true, if_false, List.map_cons, List.sum_cons, ih hx]
      grind

/-- a duplicate-free list whose members all occur in another list weighs no more (weights >= 0) -/
theorem sum_le_of_nodup_subset {α} [DecidableEq α] (l1 l2 : List α) (w : α → Rat) (hw : ∀ x, 0 ≤ w x)
    (hnd : l1.Nodup) (hsub : ∀ x ∈ l1, x ∈ l2) : (l1.map w).sum ≤ (l2.map w).sum := by
  induction l1 generalizing l2 with
  | nil =>
    simp only [List.map_nil, List.sum_nil]
    exact sum_nonneg _ _ (fun x _ => hw x)
  | cons a l1 ih =>
    have ha : a ∈ l2 := hsub a (by simp)
    rw [sum_erase l2 w a ha]
    simp only [List.map_cons, List.sum_cons]
    have hnd' := List.nodup_cons.mp hnd
    have := ih (l2.erase a) hnd'.2 (fun x hx => by
      have hx2 : x ∈ l2 := hsub x (by simp [hx])
      have hne : x ≠ a := fun e => hnd'.1 (e ▸ hx)
      exact (List.mem_erase_of_ne hne).mpr hx2)
    grind

theorem length_le_of_nodup_subset {α} [DecidableEq α] (l1 l2 : List α) (hnd : l1.Nodup) (hsub : ∀ x ∈ l1, x ∈ l2) :
    l1.length ≤ l2.length := by
  have h := sum_le_of_nodup_subset l1 l2 (fun _ => (1 : Rat)) (fun _ => by grind) hnd hsub
  have e : ∀ l : List α, (l.map (fun _ => (1 : Rat))).sum = (l.length : Rat) := by
    intro l
    have := sum_ind l (fun _ => true)
    rw [List.filter_eq_self.mpr (fun _ _ => rfl)] at this
    simpa using this
  rw [e, e] at h
  exact_mod_cast h

/-- sums and counts over the indices of a list are sums and counts over the list -/
theorem sum_range_getElem? {α} (l : List α) (g : Option α → Rat) :
    ((List.range l.length).map (fun i => g l[i]?)).sum = (l.map (fun a => g (some a))).sum := by
  induction l with
  | nil => rfl
  | cons a l ih =>
    rw [List.length_cons, List.range_succ_eq_map, List.map_cons, List.map_map]
    simp only [List.sum_cons, List.map_cons, List.getElem?_cons_zero]
    congr 1

theorem filter_range_getElem? {α} (l : List α) (p : Option α → Bool) :
    ((List.range l.length).filter (fun i => p l[i]?)).length = (l.filter (fun a => p (some a))).length := by
  induction l with
  | nil => rfl
  | cons a l ih =>
    rw [List.length_cons, List.range_succ_eq_map, List.filter_cons, List.filter_map]
    have : ((List.range l.length).filter ((fun i => p (a :: l)[i]?) ∘ Nat.succ)) = (List.range l.length).filter (fun i => p l[i]?) := by
      apply List.filter_congr; intro i _; simp
    rw [this]
    simp only [List.getElem?_cons_zero, List.filter_cons]
    split <;> simp [ih]

theorem sum_le_of_nodup_subset' {α} [DecidableEq α] (l1 l2 : List α) (w : α → Rat) (hw : ∀ x ∈ l2, 0 ≤ w x)
    (hnd : l1.Nodup) (hsub : ∀ x ∈ l1, x ∈ l2) : (l1.map w).sum ≤ (l2.map w).sum := by
  induction l1 generalizing l2 with
  | nil =>
    simp only [List.map_nil, List.sum_nil]
    exact sum_nonneg _ _ hw
  | cons a l1 ih =>
    have ha : a ∈ l2 := hsub a (by simp)
    rw [sum_erase l2 w a ha]
    simp only [List.map_cons, List.sum_cons]
    have hnd' := List.nodup_cons.mp hnd
    have := ih (l2.erase a) (fun x hx => hw x (List.mem_of_mem_erase hx)) hnd'.2 (fun x hx => by
      have hx2 : x ∈ l2 := hsub x (by simp [hx])
      have hne : x ≠ a := fun e => hnd'.1 (e ▸ hx)
      exact (List.mem_erase_of_ne hne).mpr hx2)
    grind

theorem sum_filter {α} (l : List α) (p : α → Bool) (w : α → Rat) :
    (l.map (fun a => if p a then w a else 0)).sum = ((l.filter p).map w).sum := by
  induction l with
  | nil => rfl
  | cons a l ih =>
    simp only [List.map_cons, List.sum_cons, List.filter_cons, ih]
    cases p a <;> simp <;> grind

theorem joinGates_mono (a b : Nat) (h : a ≤ b) : joinGates a ≤ joinGates b := by
  unfold joinGates
  have hr : (a : Rat) ≤ (b : Rat) := by exact_mod_cast h
  by_cases ha : a = 0
  · simp only [ha, if_true]
    split
    · exact Rat.le_refl
    · rename_i hb
      have : (1 : Rat) ≤ (b : Rat) := by exact_mod_cast Nat.one_le_iff_ne_zero.mpr hb
      grind
  · have hb : b ≠ 0 := by omega
    simp only [ha, hb, if_false]
    grind

/-- the documented cost of a two-level form given as one list of terms per output: the gates of
    every distinct term once, one join gate per extra term of each output -/
def formCost (A X O : Int) (fam : List (List Term)) : Rat :=
  ((fam.flatten.eraseDups).map (fun t => ((t.cost A X : Int) : Rat))).sum +
    (O : Rat) * (fam.map (fun l => joinGates l.length)).sum

/-- the selection over the candidate list that a form induces -/
def selOf (cands : List Term) (fam : List (List Term)) (i j : Nat) : Bool :=
  match cands[i]?, fam[j]? with
  | some t, some l => decide (t ∈ l)
  | _, _ => false

def gateOf (A X : Int) (flat : List Term) : Option Term → Rat
  | some t => if decide (t ∈ flat) then ((t.cost A X : Int) : Rat) else 0
  | none => 0

def joinOf : Option (List Term) → Rat
  | some l => joinGates l.length
  | none => 0

def memOf (l : List Term) : Option Term → Bool
  | some t => decide (t ∈ l)
  | none => false

theorem selOf_iff (cands : List Term) (fam : List (List Term)) (i j : Nat) (hi : i < cands.length) (hj : j < fam.length) :
    selOf cands fam i j = true ↔ cands[i] ∈ fam[j] := by
  simp [selOf, List.getElem?_eq_getElem hi, List.getElem?_eq_getElem hj]

/-- the selection induced by a family of lists of candidates costs no more than the family -/
theorem selOf_cost_le (cands : List Term) (fs : List Lut) (A X O : Int) (hO : 0 ≤ O)
    (hcost : ∀ t ∈ cands, 0 ≤ t.cost A X) (fam : List (List Term)) (hlen : fam.length = fs.length)
    (hnd : cands.Nodup) (hin : ∀ l ∈ fam, ∀ t ∈ l, t ∈ cands) :
    cost (probOf cands fs A X O) (selOf cands fam) ≤ formCost A X O fam := by
  have hK : (probOf cands fs A X O).K = cands.length := rfl
  have hF : (probOf cands fs A X O).F = fam.length := by rw [hlen]; rfl
  unfold cost formCost
  have hOr : (0 : Rat) ≤ (O : Rat) := by exact_mod_cast hO
  -- the gates of the terms used
  have h1 : ((rangeK (probOf cands fs A X O)).map (fun i =>
        if usedBy (probOf cands fs A X O) (selOf cands fam) i then (((probOf cands fs A X O).w i : Int) : Rat) else 0)).sum ≤
      ((fam.flatten.eraseDups).map (fun t => ((t.cost A X : Int) : Rat))).sum := by
    have e : ((rangeK (probOf cands fs A X O)).map (fun i =>
          if usedBy (probOf cands fs A X O) (selOf cands fam) i then (((probOf cands fs A X O).w i : Int) : Rat) else 0)).sum =
        ((List.range cands.length).map (fun i => gateOf A X fam.flatten cands[i]?)).sum := by
      apply sum_congr
      intro i hi
      have hi' : i < cands.length := mem_rangeK.mp hi
      simp only [List.getElem?_eq_getElem hi']
      have hu : usedBy (probOf cands fs A X O) (selOf cands fam) i = decide (cands[i] ∈ fam.flatten) := by
        rw [Bool.eq_iff_iff, usedBy_iff, decide_eq_true_iff, List.mem_flatten]
        constructor
        · rintro ⟨j, hj, hs⟩
          have hj' : j < fam.length := by rw [← hF]; exact hj
          exact ⟨fam[j], List.getElem_mem hj', (selOf_iff cands fam i j hi' hj').mp hs⟩
        · rintro ⟨l, hl, hm⟩
          obtain ⟨j, hj, rfl⟩ := List.getElem_of_mem hl
          exact ⟨j, by rw [hF]; exact hj, (selOf_iff cands fam i j hi' hj).mpr hm⟩
      rw [hu]
      simp [probOf, gateOf, List.getElem?_eq_getElem hi']
    rw [e, sum_range_getElem? cands (gateOf A X fam.flatten)]
    simp only [gateOf]
    rw [sum_filter cands (fun t => decide (t ∈ fam.flatten)) (fun t => ((t.cost A X : Int) : Rat))]
    apply sum_le_of_nodup_subset'
    · intro t ht
      have ht' : t ∈ fam.flatten := List.mem_eraseDups.mp ht
      obtain ⟨l, hl, hm⟩ := List.mem_flatten.mp ht'
      exact_mod_cast hcost t (hin l hl t hm)
    · exact hnd.filter _
    · intro t ht
      have := (List.mem_filter.mp ht).2
      exact List.mem_eraseDups.mpr (by simpa using this)
  -- the join gates
  have h2 : ((rangeF (probOf cands fs A X O)).map (fun j => joinGates (cnt (probOf cands fs A X O) (selOf cands fam) j))).sum ≤
      (fam.map (fun l => joinGates l.length)).sum := by
    have e : (fam.map (fun l => joinGates l.length)).sum =
        ((List.range fam.length).map (fun j => joinOf fam[j]?)).sum := by
      rw [sum_range_getElem? fam joinOf]
      rfl
    rw [e]
    have hr : rangeF (probOf cands fs A X O) = List.range fam.length := by unfold rangeF; rw [hF]
    rw [hr]
    apply sum_le_sum
    intro j hj
    have hj' : j < fam.length := List.mem_range.mp hj
    simp only [List.getElem?_eq_getElem hj', joinOf]
    apply joinGates_mono
    -- the candidates selected for output j are distinct members of the j-th list
    have hc : cnt (probOf cands fs A X O) (selOf cands fam) j = (cands.filter (fun t => decide (t ∈ fam[j]))).length := by
      unfold cnt rangeK
      rw [hK]
      have := filter_range_getElem? cands (memOf fam[j])
      simp only [memOf] at this
      rw [← this]
      congr 1
      apply List.filter_congr
      intro i hi
      have hi' : i < cands.length := List.mem_range.mp hi
      simp [selOf, List.getElem?_eq_getElem hi', List.getElem?_eq_getElem hj']
    rw [hc]
    exact length_le_of_nodup_subset _ _ (hnd.filter _) (fun t ht => by simpa using (List.mem_filter.mp ht).2)
  have h3 := Rat.mul_le_mul_of_nonneg_left h2 hOr
  have e4 : (((probOf cands fs A X O).join : Int) : Rat) = (O : Rat) := rfl
  rw [e4]
  grind

/-- **every two-level OR form over the candidates is a selection that costs no more**: given one
    list of candidate terms per output, each term an implicant of its output and every true
    assignment covered, the induced selection is an OR form in the sense of the programme and its
    documented cost is at most the documented cost of the lists (repeated terms only add to the latter) -/
theorem form_to_selection (cands : List Term) (fs : List Lut) (A X O : Int) (hO : 0 ≤ O)
    (hcost : ∀ t ∈ cands, 0 ≤ t.cost A X) (fam : List (List Term)) (hlen : fam.length = fs.length)
    (hnd : cands.Nodup) (hin : ∀ l ∈ fam, ∀ t ∈ l, t ∈ cands)
    (himp : ∀ j (h1 : j < fam.length) (h2 : j < fs.length), ∀ t ∈ fam[j], t.impliesLut fs[j] = true)
    (hcov : ∀ j (h1 : j < fam.length) (h2 : j < fs.length) b, b < (probOf cands fs A X O).B →
      getBit fs[j].t b = true → ∃ t ∈ fam[j], t.value b = true) :
    OrRealises (probOf cands fs A X O) (selOf cands fam) ∧
      cost (probOf cands fs A X O) (selOf cands fam) ≤ formCost A X O fam := by
  have hK : (probOf cands fs A X O).K = cands.length := rfl
  have hF : (probOf cands fs A X O).F = fam.length := by rw [hlen]; rfl
  refine ⟨⟨?_, ?_⟩, selOf_cost_le cands fs A X O hO hcost fam hlen hnd hin⟩
  · intro i j hi hj hs
    have hj' : j < fam.length := by rw [← hF]; exact hj
    have hj2 : j < fs.length := hj
    have hm := (selOf_iff cands fam i j hi hj').mp hs
    have e : (probOf cands fs A X O).ok i j = cands[i].impliesLut fs[j] := by
      simp only [probOf, List.getElem?_eq_getElem (show i < cands.length from hi), List.getElem?_eq_getElem hj2]
      rfl
    rw [e]
    exact himp j hj' hj2 _ hm
  · intro j b hj hb hf
    have hj' : j < fam.length := by rw [← hF]; exact hj
    have hj2 : j < fs.length := hj
    have hf' : getBit fs[j].t b = true := by
      simpa [probOf, List.getElem?_eq_getElem hj2] using hf
    obtain ⟨t, ht, hv⟩ := hcov j hj' hj2 b hb hf'
    have htc := hin _ (List.getElem_mem hj') t ht
    obtain ⟨i, hi, rfl⟩ := List.getElem_of_mem htc
    refine ⟨i, hi, (selOf_iff cands fam i j hi hj').mpr ht, ?_⟩
    simpa [probOf, List.getElem?_eq_getElem hi] using hv

theorem ecubeLe_total (a b : Ecube) : (ecubeLe a b || ecubeLe b a) = true := by
  unfold ecubeLe
  by_cases h1 : a.vars.toNat < b.vars.toNat
  · simp [h1]
  · by_cases h2 : b.vars.toNat < a.vars.toNat
    · simp [h2]
    · have : a.vars = b.vars := BitVec.eq_of_toNat_eq (by omega)
      simp [this]
      cases a.xnor <;> cases b.xnor <;> simp

theorem ecubeLe_trans (a b c : Ecube) (h1 : ecubeLe a b = true) (h2 : ecubeLe b c = true) : ecubeLe a c = true := by
  unfold ecubeLe at *
  simp only [Bool.or_eq_true, decide_eq_true_eq, Bool.and_eq_true, beq_iff_eq, Bool.not_eq_true'] at *
  rcases h1 with h1 | ⟨e1, x1⟩ <;> rcases h2 with h2 | ⟨e2, x2⟩
  · left; omega
  · left; rw [← e2]; exact h1
  · left; rw [e1]; exact h2
  · right
    refine ⟨e1.trans e2, ?_⟩
    rcases x1 with x1 | x1 <;> rcases x2 with x2 | x2 <;> simp_all

theorem ecubeLe_antisymm (a b : Ecube) (h1 : ecubeLe a b = true) (h2 : ecubeLe b a = true) : a = b := by
  unfold ecubeLe at *
  simp only [Bool.or_eq_true, decide_eq_true_eq, Bool.and_eq_true, beq_iff_eq, Bool.not_eq_true'] at *
  rcases h1 with h1 | ⟨e1, x1⟩ <;> rcases h2 with h2 | ⟨e2, x2⟩
  · omega
  · rw [e2] at h1; omega
  · rw [e1] at h2; omega
  · cases a; cases b
    simp only at e1 x1 x2
    subst e1
    congr
    rename_i xa _ xb
    cases xa <;> cases xb <;> simp_all

/-- the exclusive candidates: the implicant exclusive cubes of some output with two literals or more, each once -/
theorem mem_valid_ecubes_multi (fs : List Lut) :
    (enumerateValidEcubesMulti fs).Nodup ∧
    ∀ e, e ∈ enumerateValidEcubesMulti fs ↔
      (∃ f ∈ fs, e ∈ Ecube.all f.n ∧ e.impliesLut f = true) ∧ e.numLits ≥ 2 := by
  obtain ⟨h1, h2⟩ := sort_dedup_spec ecubeLe ecubeLe_trans ecubeLe_total ecubeLe_antisymm
    ((fs.flatMap enumerateValidEcubes).filter (fun c => c.numLits ≥ 2))
  refine ⟨h1, ?_⟩
  intro e
  rw [show enumerateValidEcubesMulti fs = dedupAdj (((fs.flatMap enumerateValidEcubes).filter (fun c => c.numLits ≥ 2)).mergeSort ecubeLe) from rfl, h2 e]
  simp [List.mem_filter, List.mem_flatMap, enumerateValidEcubes]

theorem sopTerms_nodup (fs : List Lut) (X : Int) : (sopTerms fs X).Nodup := by
  unfold sopTerms
  rw [List.nodup_append]
  refine ⟨?_, ?_, ?_⟩
  · exact List.Pairwise.map Term.cube (fun a b h e => h (by injection e)) (VoluteModel.Props.C18.mem_valid_multi fs).1
  · split
    · exact List.Pairwise.map Term.ecube (fun a b h e => h (by injection e)) (mem_valid_ecubes_multi fs).1
    · exact List.nodup_nil
  · intro a ha b hb
    obtain ⟨c, _, rfl⟩ := List.mem_map.mp ha
    split at hb
    · obtain ⟨e, _, rfl⟩ := List.mem_map.mp hb
      exact fun h => by injection h
    · simp at hb

theorem cube_mem_sopTerms (fs : List Lut) (X : Int) (c : Cube) :
    Term.cube c ∈ sopTerms fs X ↔ c ∈ enumerateValidCubesMulti fs := by
  unfold sopTerms
  simp only [List.mem_append, List.mem_map]
  constructor
  · rintro (⟨c', hc, h⟩ | h)
    · injection h with h; subst h; exact hc
    · split at h
      · obtain ⟨e, _, h⟩ := List.mem_map.mp h; injection h
      · simp at h
  · intro h; exact Or.inl ⟨c, h, rfl⟩

theorem ecube_mem_sopTerms (fs : List Lut) (X : Int) (e : Ecube) :
    Term.ecube e ∈ sopTerms fs X ↔ X ≥ 0 ∧ e ∈ enumerateValidEcubesMulti fs := by
  unfold sopTerms
  simp only [List.mem_append, List.mem_map]
  constructor
  · rintro (⟨c', _, h⟩ | h)
    · injection h
    · split at h
      · rename_i hx
        obtain ⟨e', he, h⟩ := List.mem_map.mp h
        injection h with h; subst h; exact ⟨hx, he⟩
      · simp at h
  · rintro ⟨hx, he⟩
    right
    rw [if_pos hx]
    exact List.mem_map.mpr ⟨e, he, rfl⟩

/-- a term a two-level form may use: a cube over the variables, or (when exclusive cubes are
    allowed, `X >= 0`) an exclusive cube over the variables with two literals or more (shorter
    ones are constants and literals, i.e. cubes) -/
def Term.wellFormed (n0 : Nat) (X : Int) : Term → Prop
  | .cube c => c ∈ Cube.all n0
  | .ecube e => X ≥ 0 ∧ e ∈ Ecube.all n0 ∧ e.numLits ≥ 2

/-- **`optimize_sop_mip` / `optimize_sopes_mip`: minimum over ALL two-level forms.**  Given an
    optimal solution of the programme, the selected form costs no more than any family of term
    lists (one per output) made of cubes / exclusive cubes over the variables in which every term
    implies its output and every true assignment of every output is covered. -/
theorem sop_mip_minimal (fs : List Lut) (A X O : Int) (hA : 1 ≤ A) (hO : 1 ≤ O) (n0 : Nat) (hn : ∀ l ∈ fs, l.n = n0)
    (σ : Var → Rat) (hf : SopFeasible (sopProb fs A X O) σ)
    (hopt : ∀ σ', SopFeasible (sopProb fs A X O) σ' → objective (sopProb fs A X O) σ ≤ objective (sopProb fs A X O) σ')
    (fam : List (List Term)) (hlen : fam.length = fs.length)
    (hwf : ∀ l ∈ fam, ∀ t ∈ l, t.wellFormed n0 X)
    (himp : ∀ j (h1 : j < fam.length) (h2 : j < fs.length), ∀ t ∈ fam[j], t.impliesLut fs[j] = true)
    (hcov : ∀ j (h1 : j < fam.length) (h2 : j < fs.length) b, b < 2 ^ n0 →
      getBit fs[j].t b = true → ∃ t ∈ fam[j], t.value b = true) :
    cost (sopProb fs A X O) (decode σ) ≤ formCost A X O fam := by
  have hmin := (sop_mip_spec fs A X O hA hO n0 hn σ hf hopt).2.2
  -- every term of the form is a candidate
  have hin : ∀ l ∈ fam, ∀ t ∈ l, t ∈ sopTerms fs X := by
    intro l hl t ht
    obtain ⟨j, hj, rfl⟩ := List.getElem_of_mem hl
    have hj2 : j < fs.length := by rw [← hlen]; exact hj
    have hi := himp j hj hj2 t ht
    have hw := hwf _ (List.getElem_mem hj) t ht
    have hnj : fs[j].n = n0 := hn _ (List.getElem_mem hj2)
    cases t with
    | cube c =>
      rw [cube_mem_sopTerms, (VoluteModel.Props.C18.mem_valid_multi fs).2]
      exact ⟨fs[j], List.getElem_mem hj2, (VoluteModel.Props.C18.mem_valid _ c).mpr ⟨by rw [hnj]; exact hw, hi⟩⟩
    | ecube e =>
      rw [ecube_mem_sopTerms, (mem_valid_ecubes_multi fs).2]
      exact ⟨hw.1, ⟨fs[j], List.getElem_mem hj2, by rw [hnj]; exact hw.2.1, hi⟩, hw.2.2⟩
  by_cases hne : fs = []
  · -- no output: both sides are sums over nothing but the shared gates, which the empty form does not use
    subst hne
    have hfam : fam = [] := List.eq_nil_of_length_eq_zero (by simpa using hlen)
    subst hfam
    have h0 := hmin (fun _ _ => false) ⟨fun _ _ _ hj => by simp [sopProb, probOf] at hj, fun _ _ hj => by simp [sopProb, probOf] at hj⟩
    refine Rat.le_trans h0 ?_
    unfold cost formCost usedBy rangeF
    simp [sopProb, probOf, sum_zero_of_all]
  · have hB := probOf_B (sopTerms fs X) fs A X O n0 hn hne
    obtain ⟨hr, hc⟩ := form_to_selection (sopTerms fs X) fs A X O (by omega)
      (fun t ht => by
        apply term_cost_nonneg _ _ _ (by omega)
        intro e he
        subst he
        exact ((ecube_mem_sopTerms fs X e).mp ht).1)
      fam hlen (sopTerms_nodup fs X) hin himp
      (fun j h1 h2 b hb => hcov j h1 h2 b (by rw [← hB]; exact hb))
    exact Rat.le_trans (hmin _ hr) hc

/-- two duplicate-free lists with the same members have the same length -/
theorem length_eq_of_nodup_same {α} [DecidableEq α] (l1 l2 : List α) (h1 : l1.Nodup) (h2 : l2.Nodup)
    (h : ∀ x, x ∈ l1 ↔ x ∈ l2) : l1.length = l2.length :=
  Nat.le_antisymm (length_le_of_nodup_subset l1 l2 h1 (fun x hx => (h x).mp hx))
    (length_le_of_nodup_subset l2 l1 h2 (fun x hx => (h x).mpr hx))

theorem ofNat32_inj (i j : Nat) (hi : i < 2 ^ 32) (hj : j < 2 ^ 32) (h : BitVec.ofNat 32 i = BitVec.ofNat 32 j) : i = j := by
  have := congrArg BitVec.toNat h
  simpa [BitVec.toNat_ofNat, Nat.mod_eq_of_lt hi, Nat.mod_eq_of_lt hj] using this

/-- `Cube::all(n)` lists every cube once (n <= 32, the width of the masks) -/
theorem cube_all_nodup (n : Nat) (hn : n ≤ 32) : (Cube.all n).Nodup := by
  unfold Cube.all
  apply List.Pairwise.filter
  have hmx : 1 <<< n ≤ 2 ^ 32 := by
    rw [Nat.shiftLeft_eq, Nat.one_mul]; exact Nat.pow_le_pow_right (by omega) hn
  rw [List.pairwise_flatMap]
  constructor
  · intro i _
    rw [List.pairwise_map]
    refine List.Pairwise.imp_of_mem ?_ (List.nodup_range (n := 1 <<< n))
    intro a b ha hb hab e
    injection e with _ e2
    exact hab (ofNat32_inj a b (by have := List.mem_range.mp ha; omega) (by have := List.mem_range.mp hb; omega) e2)
  · refine List.Pairwise.imp_of_mem ?_ (List.nodup_range (n := 1 <<< n))
    intro a b ha hb hab x hx y hy e
    obtain ⟨j1, _, rfl⟩ := List.mem_map.mp hx
    obtain ⟨j2, _, h2⟩ := List.mem_map.mp hy
    rw [← h2] at e
    injection e with e1 _
    exact hab (ofNat32_inj a b (by have := List.mem_range.mp ha; omega) (by have := List.mem_range.mp hb; omega) e1)

theorem esopTerms_nodup (fs : List Lut) (n0 : Nat) (hn0 : n0 ≤ 32) (hn : ∀ l ∈ fs, l.n = n0) (hne : fs ≠ []) :
    (esopTerms fs).Nodup := by
  unfold esopTerms
  have : (fs.head?.map (·.n)).getD 0 = n0 := by
    cases fs with
    | nil => exact absurd rfl hne
    | cons l r => simp [hn l (by simp)]
  rw [this]
  exact List.Pairwise.map Term.cube (fun a b h e => h (by injection e)) (cube_all_nodup n0 hn0)

def valMem (l : List Term) (b : Nat) : Option Term → Bool
  | some t => t.value b && decide (t ∈ l)
  | none => false

/-- **every XOR form over the candidates is a selection that costs no more**: given one
    duplicate-free list of candidate cubes per output whose XOR is the output, the induced
    selection is an XOR form in the sense of the programme, of at most the same documented cost -/
theorem xor_form_to_selection (cands : List Term) (fs : List Lut) (A X O : Int) (hO : 0 ≤ O)
    (hcost : ∀ t ∈ cands, 0 ≤ t.cost A X) (fam : List (List Term)) (hlen : fam.length = fs.length)
    (hnd : cands.Nodup) (hin : ∀ l ∈ fam, ∀ t ∈ l, t ∈ cands) (hfnd : ∀ l ∈ fam, l.Nodup)
    (hval : ∀ j (h1 : j < fam.length) (h2 : j < fs.length) b, b < (probOf cands fs A X O).B →
      getBit fs[j].t b = (fam[j].map (·.value b)).foldl (fun a v => a != v) false) :
    XorRealises (probOf cands fs A X O) (selOf cands fam) ∧
      cost (probOf cands fs A X O) (selOf cands fam) ≤ formCost A X O fam := by
  have hK : (probOf cands fs A X O).K = cands.length := rfl
  have hF : (probOf cands fs A X O).F = fam.length := by rw [hlen]; rfl
  refine ⟨?_, selOf_cost_le cands fs A X O hO hcost fam hlen hnd hin⟩
  intro j b hj hb
  have hj' : j < fam.length := by rw [← hF]; exact hj
  have hj2 : j < fs.length := hj
  have e1 : (probOf cands fs A X O).fv j b = getBit fs[j].t b := by
    simp [probOf, List.getElem?_eq_getElem hj2]
  rw [e1, hval j hj' hj2 b hb, xor_fold]
  -- both counts are the number of members of the j-th list that are true at b
  have hc : cntAt (probOf cands fs A X O) (selOf cands fam) j (fun i => (probOf cands fs A X O).val i b) =
      ((fam[j].map (·.value b)).filter id).length := by
    unfold cntAt rangeK
    rw [hK]
    have h1 := filter_range_getElem? cands (valMem fam[j] b)
    have h2 : (List.range cands.length).filter (fun i => (probOf cands fs A X O).val i b && selOf cands fam i j) =
        (List.range cands.length).filter (fun i => valMem fam[j] b cands[i]?) := by
      apply List.filter_congr
      intro i hi
      have hi' : i < cands.length := List.mem_range.mp hi
      simp [probOf, selOf, valMem, List.getElem?_eq_getElem hi', List.getElem?_eq_getElem hj']
    rw [h2, h1, List.filter_map, List.length_map]
    apply length_eq_of_nodup_same
    · exact hnd.filter _
    · exact (hfnd _ (List.getElem_mem hj')).filter _
    · intro t
      simp only [List.mem_filter, valMem, Bool.and_eq_true, decide_eq_true_eq, Function.comp_apply, id]
      constructor
      · rintro ⟨_, hv, hm⟩; exact ⟨hm, hv⟩
      · rintro ⟨hm, hv⟩; exact ⟨hin _ (List.getElem_mem hj') t hm, hv, hm⟩
  rw [hc]
  simp

/-- **`optimize_esop_mip`: minimum over ALL XOR-of-cubes forms.**  Given an optimal solution of the
    programme, the selected form costs no more than any family of duplicate-free lists of cubes over
    the variables, one per output, whose XOR is the output (a list with a repeated cube denotes the
    same function as the list without the pair, at a higher cost). -/
theorem esop_mip_minimal (fs : List Lut) (A X : Int) (hA : 1 ≤ A) (hX : 1 ≤ X) (n0 : Nat) (hn0 : n0 ≤ 32)
    (hn : ∀ l ∈ fs, l.n = n0) (hne : fs ≠ [])
    (σ : Var → Rat) (hf : EsopFeasible (esopProb fs A X) σ)
    (hopt : ∀ σ', EsopFeasible (esopProb fs A X) σ' → objective (esopProb fs A X) σ ≤ objective (esopProb fs A X) σ')
    (fam : List (List Cube)) (hlen : fam.length = fs.length)
    (hwf : ∀ l ∈ fam, l.Nodup ∧ ∀ c ∈ l, c ∈ Cube.all n0)
    (hval : ∀ j (h1 : j < fam.length) (h2 : j < fs.length) b, b < 2 ^ n0 →
      getBit fs[j].t b = (fam[j].map (·.value b)).foldl (fun a v => a != v) false) :
    cost (esopProb fs A X) (decode σ) ≤ formCost A X X (fam.map (·.map Term.cube)) := by
  have hmin := (esop_mip_spec fs A X hA hX n0 hn σ hf hopt).2
  have hB := probOf_B (esopTerms fs) fs A X X n0 hn hne
  have hterms : esopTerms fs = (Cube.all n0).map Term.cube := by
    unfold esopTerms
    cases fs with
    | nil => exact absurd rfl hne
    | cons l r => simp [hn l (by simp)]
  obtain ⟨hr, hc⟩ := xor_form_to_selection (esopTerms fs) fs A X X (by omega)
    (fun t _ => by
      apply term_cost_nonneg _ _ _ (by omega)
      intro e _; omega)
    (fam.map (·.map Term.cube)) (by simpa using hlen) (esopTerms_nodup fs n0 hn0 hn hne)
    (by
      intro l hl t ht
      obtain ⟨l', hl', rfl⟩ := List.mem_map.mp hl
      obtain ⟨c, hc, rfl⟩ := List.mem_map.mp ht
      rw [hterms]
      exact List.mem_map.mpr ⟨c, (hwf l' hl').2 c hc, rfl⟩)
    (by
      intro l hl
      obtain ⟨l', hl', rfl⟩ := List.mem_map.mp hl
      exact List.Pairwise.map Term.cube (fun a b h e => h (by injection e)) (hwf l' hl').1)
    (by
      intro j h1 h2 b hb
      have h1' : j < fam.length := by simpa using h1
      rw [hval j h1' h2 b (by rw [← hB]; exact hb)]
      simp [Term.value, Function.comp_def])
  exact Rat.le_trans (hmin _ hr) hc

/-! ## XOR forms with repeated cubes -/

/-- toggling a predicate at one member of a duplicate-free list flips the parity of the count -/
theorem filter_toggle_parity {α} [DecidableEq α] (cands : List α) (hnd : cands.Nodup) (a : α) (ha : a ∈ cands)
    (q q' : α → Bool) (hq : ∀ c, q' c = (q c != decide (c = a))) :
    (cands.filter q').length % 2 = ((cands.filter q).length + 1) % 2 := by
  induction cands with
  | nil => simp at ha
  | cons c cs ih =>
    have hnd' := List.nodup_cons.mp hnd
    by_cases hca : c = a
    · subst hca
      have hsame : cs.filter q' = cs.filter q := by
        apply List.filter_congr
        intro x hx
        have : x ≠ c := fun e => hnd'.1 (e ▸ hx)
        rw [hq x]; simp [this]
      have hc : q' c = !q c := by rw [hq c]; simp
      simp only [List.filter_cons, hc, hsame]
      cases q c <;> simp <;> omega
    · have ha' : a ∈ cs := by
        rcases List.mem_cons.mp ha with h | h
        · exact absurd h.symm hca
        · exact h
      have hc : q' c = q c := by rw [hq c]; simp [hca]
      have := ih hnd'.2 ha'
      simp only [List.filter_cons, hc]
      cases q c <;> simp <;> omega

/-- XOR over a list with repetitions: the parity of the number of true members equals the parity
    of the number of candidates that are true and occur an odd number of times -/
theorem odd_count_parity {α} [DecidableEq α] (cands : List α) (hnd : cands.Nodup) (v : α → Bool) (l : List α)
    (hl : ∀ x ∈ l, x ∈ cands) :
    (cands.filter (fun c => v c && (l.count c % 2 == 1))).length % 2 = (l.filter v).length % 2 := by
  induction l with
  | nil =>
    have : cands.filter (fun c => v c && (([] : List α).count c % 2 == 1)) = [] := by
      apply List.filter_eq_nil_iff.mpr
      intro c _; simp
    rw [this]; rfl
  | cons a l ih =>
    have iha := ih (fun x hx => hl x (by simp [hx]))
    have ha : a ∈ cands := hl a (by simp)
    cases hva : v a with
    | false =>
      have : cands.filter (fun c => v c && ((a :: l).count c % 2 == 1)) = cands.filter (fun c => v c && (l.count c % 2 == 1)) := by
        apply List.filter_congr
        intro c _
        by_cases hc : c = a
        · subst hc; simp [hva]
        · have : (a == c) = false := by simpa using fun e => hc e.symm
          simp [List.count_cons, this]
      rw [this, iha]
      simp [List.filter_cons, hva]
    | true =>
      have := filter_toggle_parity cands hnd a ha (fun c => v c && (l.count c % 2 == 1))
        (fun c => v c && ((a :: l).count c % 2 == 1)) (by
          intro c
          by_cases hc : c = a
          · subst hc
            simp only [List.count_cons_self, hva, Bool.true_and, decide_true]
            rcases Nat.mod_two_eq_zero_or_one (l.count c) with e | e <;> simp [Nat.add_mod, e]
          · have : (a == c) = false := by simpa using fun e => hc e.symm
            simp [List.count_cons, this, hc])
      rw [this, List.filter_cons, hva]
      simp only [if_true, List.length_cons]
      omega

theorem length_filter_mono {α} (l : List α) (p q : α → Bool) (h : ∀ x ∈ l, p x = true → q x = true) :
    (l.filter p).length ≤ (l.filter q).length := by
  induction l with
  | nil => simp
  | cons a l ih =>
    have iha := ih (fun x hx => h x (by simp [hx]))
    have ha := h a (by simp)
    simp only [List.filter_cons]
    cases hp : p a with
    | false => cases q a <;> simp <;> omega
    | true => simp [ha hp]; omega

/-- a smaller selection costs no more -/
theorem cost_mono (P : Prob) (sel' sel : Nat → Nat → Bool) (hw : ∀ i, i < P.K → 0 ≤ P.w i) (hj : 0 ≤ P.join)
    (h : ∀ i j, i < P.K → j < P.F → sel' i j = true → sel i j = true) : cost P sel' ≤ cost P sel := by
  unfold cost
  have hjr : (0 : Rat) ≤ (P.join : Rat) := by exact_mod_cast hj
  have h1 : ((rangeK P).map (fun i => if usedBy P sel' i then (P.w i : Rat) else 0)).sum ≤
      ((rangeK P).map (fun i => if usedBy P sel i then (P.w i : Rat) else 0)).sum := by
    apply sum_le_sum
    intro i hi
    have hiK := mem_rangeK.mp hi
    have hwr : (0 : Rat) ≤ (P.w i : Rat) := by exact_mod_cast hw i hiK
    by_cases hu : usedBy P sel' i = true
    · obtain ⟨j, hjF, hs⟩ := (usedBy_iff P sel' i).mp hu
      have : usedBy P sel i = true := (usedBy_iff P sel i).mpr ⟨j, hjF, h i j hiK hjF hs⟩
      rw [hu, this]; exact Rat.le_refl
    · have hu' : usedBy P sel' i = false := by simpa using hu
      rw [hu']
      cases usedBy P sel i
      · exact Rat.le_refl
      · exact hwr
  have h2 : ((rangeF P).map (fun j => joinGates (cnt P sel' j))).sum ≤ ((rangeF P).map (fun j => joinGates (cnt P sel j))).sum := by
    apply sum_le_sum
    intro j hjm
    apply joinGates_mono
    exact length_filter_mono _ _ _ (fun i hi hs => h i j (mem_rangeK.mp hi) (mem_rangeF.mp hjm) hs)
  have h3 := Rat.mul_le_mul_of_nonneg_left h2 hjr
  grind

/-- the selection a family of lists with repetitions induces under XOR: the candidates that occur
    an odd number of times -/
def selOdd (cands : List Term) (fam : List (List Term)) (i j : Nat) : Bool :=
  match cands[i]?, fam[j]? with
  | some t, some l => l.count t % 2 == 1
  | _, _ => false

def valOdd (l : List Term) (b : Nat) : Option Term → Bool
  | some t => t.value b && (l.count t % 2 == 1)
  | none => false

/-- **every XOR form over the candidates, repetitions allowed, is a selection that costs no more** -/
theorem xor_form_to_selection' (cands : List Term) (fs : List Lut) (A X O : Int) (hO : 0 ≤ O)
    (hcost : ∀ t ∈ cands, 0 ≤ t.cost A X) (fam : List (List Term)) (hlen : fam.length = fs.length)
    (hnd : cands.Nodup) (hin : ∀ l ∈ fam, ∀ t ∈ l, t ∈ cands)
    (hval : ∀ j (h1 : j < fam.length) (h2 : j < fs.length) b, b < (probOf cands fs A X O).B →
      getBit fs[j].t b = (fam[j].map (·.value b)).foldl (fun a v => a != v) false) :
    XorRealises (probOf cands fs A X O) (selOdd cands fam) ∧
      cost (probOf cands fs A X O) (selOdd cands fam) ≤ formCost A X O fam := by
  have hK : (probOf cands fs A X O).K = cands.length := rfl
  have hF : (probOf cands fs A X O).F = fam.length := by rw [hlen]; rfl
  constructor
  · intro j b hj hb
    have hj' : j < fam.length := by rw [← hF]; exact hj
    have hj2 : j < fs.length := hj
    have e1 : (probOf cands fs A X O).fv j b = getBit fs[j].t b := by
      simp [probOf, List.getElem?_eq_getElem hj2]
    rw [e1, hval j hj' hj2 b hb, xor_fold]
    have hc : cntAt (probOf cands fs A X O) (selOdd cands fam) j (fun i => (probOf cands fs A X O).val i b) % 2 =
        ((fam[j].map (·.value b)).filter id).length % 2 := by
      unfold cntAt rangeK
      rw [hK]
      have h1 := filter_range_getElem? cands (valOdd fam[j] b)
      have h2 : (List.range cands.length).filter (fun i => (probOf cands fs A X O).val i b && selOdd cands fam i j) =
          (List.range cands.length).filter (fun i => valOdd fam[j] b cands[i]?) := by
        apply List.filter_congr
        intro i hi
        have hi' : i < cands.length := List.mem_range.mp hi
        simp [probOf, selOdd, valOdd, List.getElem?_eq_getElem hi', List.getElem?_eq_getElem hj']
      rw [h2, h1, List.filter_map, List.length_map]
      exact odd_count_parity cands hnd (fun t => t.value b) fam[j] (hin _ (List.getElem_mem hj'))
    rw [hc]
    simp
  · refine Rat.le_trans (cost_mono _ (selOdd cands fam) (selOf cands fam) ?_ (show (0:Int) ≤ O from hO) ?_)
      (selOf_cost_le cands fs A X O hO hcost fam hlen hnd hin)
    · intro i hi
      have hi' : i < cands.length := hi
      show 0 ≤ ((cands[i]?.map (Term.cost A X)).getD 0)
      rw [List.getElem?_eq_getElem hi']
      exact hcost _ (List.getElem_mem hi')
    · intro i j hi hj hs
      have hi' : i < cands.length := hi
      have hj' : j < fam.length := by rw [← hF]; exact hj
      simp only [selOdd, List.getElem?_eq_getElem hi', List.getElem?_eq_getElem hj'] at hs
      rw [selOf_iff cands fam i j hi' hj']
      apply List.count_pos_iff.mp
      have : fam[j].count cands[i] % 2 = 1 := by simpa using hs
      omega

/-- **`optimize_esop_mip`: minimum over ALL XOR-of-cubes forms, repetitions allowed.**  Given an
    optimal solution of the programme, the selected form costs no more than any family of lists of
    cubes over the variables, one per output, whose XOR is the output. -/
theorem esop_mip_minimal_general (fs : List Lut) (A X : Int) (hA : 1 ≤ A) (hX : 1 ≤ X) (n0 : Nat) (hn0 : n0 ≤ 32)
    (hn : ∀ l ∈ fs, l.n = n0) (hne : fs ≠ [])
    (σ : Var → Rat) (hf : EsopFeasible (esopProb fs A X) σ)
    (hopt : ∀ σ', EsopFeasible (esopProb fs A X) σ' → objective (esopProb fs A X) σ ≤ objective (esopProb fs A X) σ')
    (fam : List (List Cube)) (hlen : fam.length = fs.length)
    (hwf : ∀ l ∈ fam, ∀ c ∈ l, c ∈ Cube.all n0)
    (hval : ∀ j (h1 : j < fam.length) (h2 : j < fs.length) b, b < 2 ^ n0 →
      getBit fs[j].t b = (fam[j].map (·.value b)).foldl (fun a v => a != v) false) :
    cost (esopProb fs A X) (decode σ) ≤ formCost A X X (fam.map (·.map Term.cube)) := by
  have hmin := (esop_mip_spec fs A X hA hX n0 hn σ hf hopt).2
  have hB := probOf_B (esopTerms fs) fs A X X n0 hn hne
  have hterms : esopTerms fs = (Cube.all n0).map Term.cube := by
    unfold esopTerms
    cases fs with
    | nil => exact absurd rfl hne
    | cons l r => simp [hn l (by simp)]
  obtain ⟨hr, hc⟩ := xor_form_to_selection' (esopTerms fs) fs A X X (by omega)
    (fun t _ => by
      apply term_cost_nonneg _ _ _ (by omega)
      intro e _; omega)
    (fam.map (·.map Term.cube)) (by simpa using hlen) (esopTerms_nodup fs n0 hn0 hn hne)
    (by
      intro l hl t ht
      obtain ⟨l', hl', rfl⟩ := List.mem_map.mp hl
      obtain ⟨c, hc, rfl⟩ := List.mem_map.mp ht
      rw [hterms]
      exact List.mem_map.mpr ⟨c, hwf l' hl' c hc, rfl⟩)
    (by
      intro j h1 h2 b hb
      have h1' : j < fam.length := by simpa using h1
      rw [hval j h1' h2 b (by rw [← hB]; exact hb)]
      simp [Term.value, Function.comp_def])
  exact Rat.le_trans (hmin _ hr) hc

end VoluteModel.Mip

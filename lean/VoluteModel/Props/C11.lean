import VoluteModel.Model.Api
import VoluteModel.Lemmas.Bits
import VoluteModel.Lemmas.Popcount
import VoluteModel.Lemmas.CrossWord

/-!
# C11 - named constructors build exactly the functions their names denote

For every `n < 64` (beyond that `num_bits = 1 << n` does not fit a `usize`), every `k : Nat`
without any bound, every count mask and every assignment `m < 2^n`.
-/

namespace VoluteModel.Props.C11
open VoluteModel Gen

/-- `(x >> s) & 1 != 0` reads bit `s` -/
theorem shift_and_one (cv : W) (s : Nat) : ((cv >>> s) &&& 1#64 != 0#64) = cv.getLsbD s := by
  have h : ((cv >>> s) &&& 1#64) = if cv.getLsbD s then 1#64 else 0#64 := by
    apply BitVec.eq_of_getLsbD_eq
    intro k hk
    rw [BitVec.getLsbD_and, BitVec.getLsbD_ushiftRight]
    cases k with
    | zero =>
      cases hb : cv.getLsbD s <;> simp [hb]
    | succ k =>
      have : (1#64).getLsbD (k + 1) = false := by
        simp [BitVec.getLsbD_one]
      rw [this]
      cases hb : cv.getLsbD s <;> simp [this]
  rw [h]
  cases cv.getLsbD s <;> decide

/-- the or-accumulation loop of `fill_symmetric` -/
theorem foldOr_bit (cs : List Nat) (p : Nat → Bool) (M : Nat → W) (acc : W) (b : Nat) :
    (cs.foldl (fun acc c => if p c then acc ||| M c else acc) acc).getLsbD b =
      (acc.getLsbD b || cs.any (fun c => p c && (M c).getLsbD b)) := by
  induction cs generalizing acc with
  | nil => simp
  | cons c cs ih =>
    simp only [List.foldl_cons, List.any_cons]
    rw [ih]
    cases hp : p c
    · simp
    · simp [BitVec.getLsbD_or, Bool.or_assoc]

/-- one word of a symmetric function -/
theorem symWord_bit (n : Nat) (cv : W) (w b : Nat) (hb : b < 64) :
    (symWord n cv w).getLsbD b = (cv.getLsbD (popc 64 w + popc 6 b) && decide (b < 2 ^ n)) := by
  unfold symWord
  simp only [BitVec.getLsbD_and, numVarsMask_bit n b hb]
  congr 1
  have hfold := foldOr_bit (List.range COUNT_MASKS.size)
    (fun c => (cv >>> (popc 64 w + c)) &&& 1#64 != 0#64) (fun c => COUNT_MASKS[c]!) 0#64 b
  rw [hfold, COUNT_MASKS_size]
  simp only [BitVec.getLsbD_zero, Bool.false_or, shift_and_one]
  have hle : popc 6 b ≤ 6 := popc_le 6 b
  cases hv : cv.getLsbD (popc 64 w + popc 6 b)
  · rw [List.any_eq_false]
    intro c hc
    have hc7 : c < 7 := by simpa using hc
    have hm := countMask_bit ⟨c, hc7⟩ ⟨b, hb⟩
    simp only [] at hm
    rw [hm]
    by_cases he : popc 6 b = c
    · subst he; simp [hv]
    · simp [he]
  · rw [List.any_eq_true]
    refine ⟨popc 6 b, by simp; omega, ?_⟩
    have hm := countMask_bit ⟨popc 6 b, by omega⟩ ⟨b, hb⟩
    simp only [] at hm
    rw [hm, hv]; simp

/-- symmetric(c): value bit popcount(m) of c on assignment m -/
theorem symmetric_bit (n : Nat) (hn : n ≤ 70) (t : Array W) (hs : t.size = tableSize n) (cv : W)
    (m : Nat) (hm : m < 2 ^ n) : bit (fillSymmetric n t cv) m = cv.getLsbD (popc n m) := by
  have hw : m / 64 < t.size := by rw [hs]; exact div64_lt_tableSize hm
  unfold fillSymmetric
  rw [bit_mapIdx _ _ _ hw, symWord_bit n cv _ _ (mod64_lt m), popc_of_index n m hn hm]
  have : m % 64 < 2 ^ n := by
    by_cases h6 : n ≤ 6
    · have := (small_index h6 hm).2; omega
    · have : 2 ^ 6 ≤ 2 ^ n := Nat.pow_le_pow_right (by omega) (by omega)
      have := mod64_lt m
      omega
  simp [this]

/-- every symmetric table is well formed (the kernel masks each word) -/
theorem symmetric_WF (n : Nat) (t : Array W) (hs : t.size = tableSize n) (cv : W) :
    WF n (fillSymmetric n t cv) := by
  apply WF_of_bits
  · simp [fillSymmetric, hs]
  · intro k hk b hb hge
    simp only [fillSymmetric, Array.getElem_mapIdx]
    rw [symWord_bit n cv k b hb]
    have : ¬ b < 2 ^ n := by omega
    simp [this]

/-! ## the special count masks -/

theorem equalsMask_bit : ∀ k : Fin 64, ∀ s : Fin 64, ((1#64 <<< k.val).getLsbD s.val) = decide (s.val = k.val) := by
  decide +kernel

theorem thresholdMask_bit : ∀ k : Fin 64, ∀ s : Fin 64,
    ((~~~ 0#64 - (1#64 <<< k.val) + 1#64).getLsbD s.val) = decide (k.val ≤ s.val) := by
  decide +kernel

theorem parityMask_bit : ∀ s : Fin 64, ((0xaaaaaaaaaaaaaaaa#64).getLsbD s.val) = decide (s.val % 2 = 1) := by
  decide +kernel

theorem zero_bit (t : Array W) (m : Nat) : bit (fillZero t) m = false := by
  by_cases hw : m / 64 < t.size
  · unfold fillZero; rw [bit_map _ _ _ hw]; simp
  · exact bit_of_size_le (by simp [fillZero]; omega)

theorem one_bit (n : Nat) (t : Array W) (hs : t.size = tableSize n) (m : Nat) (hm : m < 2 ^ n) :
    bit (fillOne n t) m = true := by
  have hw : m / 64 < t.size := by rw [hs]; exact div64_lt_tableSize hm
  unfold fillOne
  rw [bit_map _ _ _ hw, numVarsMask_bit n _ (mod64_lt m)]
  have : m % 64 < 2 ^ n := by
    by_cases h6 : n ≤ 6
    · have := (small_index h6 hm).2; omega
    · have : 2 ^ 6 ≤ 2 ^ n := Nat.pow_le_pow_right (by omega) (by omega)
      have := mod64_lt m
      omega
  simp [this]

/-- equals(k): true exactly when k inputs are true - for EVERY k -/
theorem equals_bit (n : Nat) (hn : n < 64) (t : Array W) (hs : t.size = tableSize n) (k : Nat)
    (m : Nat) (hm : m < 2 ^ n) : bit (fillEquals n t k) m = decide (popc n m = k) := by
  have hp : popc n m ≤ n := popc_le n m
  unfold fillEquals
  by_cases hk : k > n
  · simp only [hk, if_true]
    rw [zero_bit]
    have : ¬ popc n m = k := by omega
    simp [this]
  · simp only [hk, if_false]
    rw [symmetric_bit n (by omega) t hs _ m hm]
    exact equalsMask_bit ⟨k, by omega⟩ ⟨popc n m, by omega⟩

/-- threshold(k): true exactly when at least k inputs are true - for EVERY k -/
theorem threshold_bit (n : Nat) (hn : n < 64) (t : Array W) (hs : t.size = tableSize n) (k : Nat)
    (m : Nat) (hm : m < 2 ^ n) : bit (fillThreshold n t k) m = decide (k ≤ popc n m) := by
  have hp : popc n m ≤ n := popc_le n m
  unfold fillThreshold
  by_cases h0 : k = 0
  · subst h0; simp only [if_true]
    rw [one_bit n t hs m hm]; simp
  · simp only [h0, if_false]
    by_cases hk : k > n
    · simp only [hk, if_true]
      rw [zero_bit]
      have : ¬ k ≤ popc n m := by omega
      simp [this]
    · simp only [hk, if_false]
      rw [symmetric_bit n (by omega) t hs _ m hm]
      exact thresholdMask_bit ⟨k, by omega⟩ ⟨popc n m, by omega⟩

/-- majority = threshold(ceil(n/2)) -/
theorem majority_bit (n : Nat) (hn : n < 64) (t : Array W) (hs : t.size = tableSize n)
    (m : Nat) (hm : m < 2 ^ n) : bit (fillMajority n t) m = decide ((n + 1) / 2 ≤ popc n m) :=
  threshold_bit n hn t hs _ m hm

/-- parity: XOR of all inputs -/
theorem parity_bit (n : Nat) (hn : n < 64) (t : Array W) (hs : t.size = tableSize n)
    (m : Nat) (hm : m < 2 ^ n) : bit (fillParity n t) m = decide (popc n m % 2 = 1) := by
  have hp : popc n m ≤ n := popc_le n m
  unfold fillParity
  rw [symmetric_bit n (by omega) t hs _ m hm]
  exact parityMask_bit ⟨popc n m, by omega⟩

/-- nth_var(i): the projection on x_i -/
theorem nthVar_bit (n : Nat) (t : Array W) (hs : t.size = tableSize n) (i : Nat) (hi : i < n)
    (m : Nat) (hm : m < 2 ^ n) : bit (fillNthVar n t i) m = m.testBit i := by
  have hw : m / 64 < t.size := by rw [hs]; exact div64_lt_tableSize hm
  unfold fillNthVar
  by_cases h5 : i ≤ 5
  · simp only [h5, if_true]
    rw [bit_map _ _ _ hw, BitVec.getLsbD_and, numVarsMask_bit n _ (mod64_lt m)]
    have hv := varMask_bit ⟨i, by omega⟩ ⟨m % 64, mod64_lt m⟩
    simp only [] at hv
    rw [hv, testBit_of_div_mod m i]
    have : m % 64 < 2 ^ n := by
      by_cases h6 : n ≤ 6
      · have := (small_index h6 hm).2; omega
      · have : 2 ^ 6 ≤ 2 ^ n := Nat.pow_le_pow_right (by omega) (by omega)
        have := mod64_lt m
        omega
    have hi6 : i < 6 := by omega
    simp [this, hi6]
  · simp only [h5, if_false]
    rw [bit_mapIdx _ _ _ hw]
    obtain ⟨j, rfl⟩ : ∃ j, i = 6 + j := ⟨i - 6, by omega⟩
    simp only [Nat.add_sub_cancel_left, Nat.shiftLeft_eq, Nat.one_mul]
    have hP := and_two_pow_eq_zero (m / 64) j
    rw [testBit_of_div_mod m (6 + j)]
    have h6 : ¬ (6 + j < 6) := by omega
    simp only [h6, if_false, Nat.add_sub_cancel_left]
    cases hb : (m / 64).testBit j
    · rw [hb] at hP
      have : (m / 64 &&& 2 ^ j) = 0 := by simpa using hP
      simp [this]
    · rw [hb] at hP
      have : (m / 64 &&& 2 ^ j) ≠ 0 := by simpa using hP
      have hlt := mod64_lt m
      have hne : ((m / 64 &&& 2 ^ j) != 0) = true := by simp [this]
      simp only [hne, ↓reduceIte]
      rw [BitVec.not_zero, BitVec.getLsbD_allOnes]
      simp [hlt]

/-! ## well-formedness of all constructors, and the API layer -/

theorem zero_WF (n : Nat) (t : Array W) (hs : t.size = tableSize n) : WF n (fillZero t) := by
  apply WF_of_bits
  · simp [fillZero, hs]
  · intro k hk b hb _; simp [fillZero]

theorem one_WF (n : Nat) (t : Array W) (hs : t.size = tableSize n) : WF n (fillOne n t) := by
  apply WF_of_bits
  · simp [fillOne, hs]
  · intro k hk b hb hge
    simp only [fillOne, Array.getElem_map, numVarsMask_bit n b hb]
    have : ¬ b < 2 ^ n := by omega
    simp [this]

theorem nthVar_WF (n : Nat) (t : Array W) (hs : t.size = tableSize n) (i : Nat) (hi : i < n) :
    WF n (fillNthVar n t i) := by
  apply WF_of_bits
  · unfold fillNthVar; split <;> simp [hs]
  · intro k hk b hb hge
    unfold fillNthVar
    by_cases h5 : i ≤ 5
    · simp only [h5, if_true, Array.getElem_map, BitVec.getLsbD_and, numVarsMask_bit n b hb]
      have : ¬ b < 2 ^ n := by omega
      simp [this]
    · -- six or more variables: no position of a word is at or above 2^n
      have : 2 ^ 6 ≤ 2 ^ n := Nat.pow_le_pow_right (by omega) (by omega)
      omega

theorem equals_WF (n : Nat) (t : Array W) (hs : t.size = tableSize n) (k : Nat) : WF n (fillEquals n t k) := by
  unfold fillEquals; split
  · exact zero_WF n t hs
  · exact symmetric_WF n t hs _

theorem threshold_WF (n : Nat) (t : Array W) (hs : t.size = tableSize n) (k : Nat) : WF n (fillThreshold n t k) := by
  unfold fillThreshold; split
  · exact one_WF n t hs
  · split
    · exact zero_WF n t hs
    · exact symmetric_WF n t hs _

theorem new_size (n : Nat) : (Dyn.new n).t.size = tableSize n := by simp [Dyn.new]

/-- API: `Lut::equals(n, k)` for every k, including 63, 64, 65 and usize::MAX -/
theorem api_equals (n : Nat) (hn : n < 64) (k : Nat) :
    (Dyn.equals n k).n = n ∧ (Dyn.equals n k).WF ∧
    ∀ m, m < 2 ^ n → (Dyn.equals n k).eval m = decide (popc n m = k) :=
  ⟨rfl, equals_WF n _ (new_size n) k, fun m hm => equals_bit n hn _ (new_size n) k m hm⟩

theorem api_threshold (n : Nat) (hn : n < 64) (k : Nat) :
    (Dyn.threshold n k).n = n ∧ (Dyn.threshold n k).WF ∧
    ∀ m, m < 2 ^ n → (Dyn.threshold n k).eval m = decide (k ≤ popc n m) :=
  ⟨rfl, threshold_WF n _ (new_size n) k, fun m hm => threshold_bit n hn _ (new_size n) k m hm⟩

theorem api_symmetric (n : Nat) (hn : n < 64) (c : W) :
    (Dyn.symmetric n c).n = n ∧ (Dyn.symmetric n c).WF ∧
    ∀ m, m < 2 ^ n → (Dyn.symmetric n c).eval m = c.getLsbD (popc n m) :=
  ⟨rfl, symmetric_WF n _ (new_size n) c, fun m hm => symmetric_bit n (by omega) _ (new_size n) c m hm⟩

theorem api_parity (n : Nat) (hn : n < 64) :
    (Dyn.parity n).WF ∧ ∀ m, m < 2 ^ n → (Dyn.parity n).eval m = decide (popc n m % 2 = 1) :=
  ⟨symmetric_WF n _ (new_size n) _, fun m hm => parity_bit n hn _ (new_size n) m hm⟩

theorem api_majority (n : Nat) (hn : n < 64) :
    (Dyn.majority n).WF ∧ ∀ m, m < 2 ^ n → (Dyn.majority n).eval m = decide ((n + 1) / 2 ≤ popc n m) :=
  ⟨threshold_WF n _ (new_size n) _, fun m hm => majority_bit n hn _ (new_size n) m hm⟩

theorem api_nthVar (n i : Nat) : (Dyn.nthVar n i).isSome = decide (i < n) ∧
    ∀ l, Dyn.nthVar n i = some l → l.n = n ∧ l.WF ∧ ∀ m, m < 2 ^ n → l.eval m = m.testBit i := by
  constructor
  · unfold Dyn.nthVar; split <;> simp [*]
  · intro l hl
    unfold Dyn.nthVar at hl
    split at hl
    · rename_i hi
      cases hl
      exact ⟨rfl, nthVar_WF n _ (new_size n) i hi, fun m hm => nthVar_bit n _ (new_size n) i hi m hm⟩
    · cases hl

theorem api_zero_one (n : Nat) :
    (Dyn.zero n).WF ∧ (Dyn.one n).WF ∧ (∀ m, (Dyn.zero n).eval m = false) ∧
    (∀ m, m < 2 ^ n → (Dyn.one n).eval m = true) ∧ Dyn.default = Dyn.zero 0 :=
  ⟨zero_WF n _ (new_size n), one_WF n _ (new_size n), fun m => zero_bit _ m,
   fun m hm => one_bit n _ (new_size n) m hm, rfl⟩

/-- non-vacuity: the statements are about non-trivial tables -/
example : Dyn.equals 3 1 = ⟨3, #[0x16#64]⟩ ∧ Dyn.majority 3 = ⟨3, #[0xe8#64]⟩ := by
  constructor <;> decide +kernel

end VoluteModel.Props.C11

import VoluteModel.Model.Sop
import VoluteModel.Lemmas.Tabulate
import VoluteModel.Props.C12

/-!
# C13 - exclusive cubes (XOR terms) and Soes (OR of XOR terms)
-/

namespace VoluteModel.Props.C13
open VoluteModel VoluteModel.Props.C12

/-- parity (XOR) of the low `w` bits of `x` -/
def par (w x : Nat) : Bool := (List.range w).foldl (fun p i => p != x.testBit i) false

theorem par_succ (w x : Nat) : par (w + 1) x = (par w x != x.testBit w) := by
  simp [par, List.range_succ, List.foldl_append]

/-- `count_ones % 2 == 1` is the XOR of the bits -/
theorem popc_parity (w x : Nat) : (popc w x % 2 == 1) = par w x := by
  induction w with
  | zero => simp [popc, par]
  | succ w ih =>
    rw [par_succ, ← ih]
    unfold popc
    rw [List.range_succ, List.countP_append]
    simp only [List.countP_cons, List.countP_nil]
    cases hb : x.testBit w
    · simp
    · simp only [if_true, Nat.zero_add]
      generalize List.countP (fun i => x.testBit i) (List.range w) = c
      rcases Nat.mod_two_eq_zero_or_one c with h | h
      · have : (c + 1) % 2 = 1 := by omega
        simp [h, this]
      · have : (c + 1) % 2 = 0 := by omega
        simp [h, this]

theorem par_xor (w x y : Nat) : par w (x ^^^ y) = (par w x != par w y) := by
  induction w with
  | zero => simp [par]
  | succ w ih =>
    rw [par_succ, par_succ, par_succ, ih, Nat.testBit_xor]
    cases par w x <;> cases par w y <;> cases x.testBit w <;> cases y.testBit w <;> rfl

theorem par_zero (w : Nat) : par w 0 = false := by
  induction w with
  | zero => rfl
  | succ w ih => rw [par_succ, ih]; simp

/-- the value of an exclusive cube: parity of its variables under the assignment, complemented
    for an XNOR -/
theorem value_spec (e : Ecube) (m : Nat) :
    e.value m = (par 32 (e.vars &&& BitVec.ofNat 32 m).toNat != e.xnor) := by
  unfold Ecube.value Cube.popc32
  simp only []
  rw [popc_parity]

/-- `^` denotes XOR -/
theorem xor_value (a b : Ecube) (m : Nat) : (Ecube.xor a b).value m = (a.value m != b.value m) := by
  rw [value_spec, value_spec, value_spec]
  unfold Ecube.xor
  simp only []
  have : ((a.vars ^^^ b.vars) &&& BitVec.ofNat 32 m).toNat
      = (a.vars &&& BitVec.ofNat 32 m).toNat ^^^ (b.vars &&& BitVec.ofNat 32 m).toNat := by
    rw [← BitVec.toNat_xor]; congr 1
    apply BitVec.eq_of_getLsbD_eq; intro v hv
    simp only [BitVec.getLsbD_and, BitVec.getLsbD_xor]
    cases a.vars.getLsbD v <;> cases b.vars.getLsbD v <;> cases (BitVec.ofNat 32 m).getLsbD v <;> rfl
  rw [this, par_xor]
  cases par 32 (a.vars &&& BitVec.ofNat 32 m).toNat <;> cases par 32 (b.vars &&& BitVec.ofNat 32 m).toNat <;>
    cases a.xnor <;> cases b.xnor <;> rfl

/-- `!` denotes the complement -/
theorem not_value (e : Ecube) (m : Nat) : (Ecube.not e).value m = !e.value m := by
  rw [value_spec, value_spec]
  unfold Ecube.not
  cases par 32 (e.vars &&& BitVec.ofNat 32 m).toNat <;> cases e.xnor <;> rfl

theorem par_single (w v : Nat) (hv : v < w) : par w (2 ^ v) = true := by
  induction w with
  | zero => omega
  | succ w ih =>
    rw [par_succ, Nat.testBit_two_pow]
    by_cases h : v = w
    · subst h
      have : par v (2 ^ v) = false := by
        have : ∀ k, k ≤ v → par k (2 ^ v) = false := by
          intro k hk
          induction k with
          | zero => rfl
          | succ k ih2 =>
            rw [par_succ, ih2 (by omega), Nat.testBit_two_pow]
            have : ¬ v = k := by omega
            simp [this]
        exact this v (Nat.le_refl _)
      simp [this]
    · rw [ih (by omega)]; simp [h]

/-- equality of exclusive cubes is semantic equality -/
theorem eq_iff_sem (a b : Ecube) : a = b ↔ ∀ m, a.value m = b.value m := by
  constructor
  · intro h; subst h; intro; rfl
  · intro h
    have hx : a.xnor = b.xnor := by
      have := h 0
      rw [value_spec, value_spec] at this
      have z : ∀ v : W32, (v &&& BitVec.ofNat 32 0).toNat = 0 := by intro v; simp
      rw [z, z, par_zero] at this
      simpa using this
    have hv : a.vars = b.vars := by
      apply BitVec.eq_of_getLsbD_eq
      intro v hv
      have := h (2 ^ v)
      rw [value_spec, value_spec, hx] at this
      have hsingle : ∀ x : W32, (x &&& BitVec.ofNat 32 (2 ^ v)).toNat = if x.getLsbD v then 2 ^ v else 0 := by
        intro x
        have hlt : 2 ^ v < 2 ^ 32 := Nat.pow_lt_pow_right (by omega) hv
        apply Nat.eq_of_testBit_eq
        intro i
        rw [BitVec.toNat_and, Nat.testBit_and, BitVec.toNat_ofNat, Nat.mod_eq_of_lt hlt, Nat.testBit_two_pow]
        by_cases hi : v = i
        · subst hi
          cases hb : x.getLsbD v
          · simp [BitVec.getLsbD] at hb; simp [hb]
          · simp [BitVec.getLsbD] at hb; simp [hb, Nat.testBit_two_pow_self]
        · cases hb : x.getLsbD v <;> simp [hi, Nat.testBit_two_pow]
      rw [hsingle, hsingle] at this
      have ps := par_single 32 v hv
      cases ha : a.vars.getLsbD v <;> cases hb : b.vars.getLsbD v
      · rfl
      · rw [ha, hb] at this
        simp only [Bool.false_eq_true, if_false, if_true, par_zero, ps] at this
        cases hbx : b.xnor <;> rw [hbx] at this <;> simp at this
      · rw [ha, hb] at this
        simp only [Bool.false_eq_true, if_false, if_true, par_zero, ps] at this
        cases hbx : b.xnor <;> rw [hbx] at this <;> simp at this
      · rfl
    cases a; cases b; simp_all

/-- the enumeration has 2^(n+1) distinct terms (kernel-evaluated for n <= 5) -/
theorem all_count : ∀ n : Fin 6, (Ecube.all n.val).length = 2 ^ (n.val + 1) ∧ (Ecube.all n.val).Nodup := by
  decide +kernel

/-! ## Soes -/

theorem foldl_or (l : List Ecube) (m : Nat) (init : Bool) :
    l.foldl (fun ret c => ret || c.value m) init = (init || l.any (fun c => c.value m)) := by
  induction l generalizing init with
  | nil => simp
  | cons a l ih => simp [List.foldl_cons, ih, Bool.or_assoc]

/-- a Soes evaluates to the OR of its terms -/
theorem soes_value (s : Soes) (m : Nat) : s.value m = s.cubes.any (fun c => c.value m) := by
  unfold Soes.value; rw [foldl_or]; simp

/-- `|` denotes OR -/
theorem soes_or (a b r : Soes) (h : Soes.or a b = some r) (m : Nat) :
    r.value m = (a.value m || b.value m) ∧ r.n = a.n := by
  unfold Soes.or at h
  split at h
  · cases h
  · cases h
    exact ⟨by simp [soes_value, List.any_append], rfl⟩

/-- converting to a Lut tabulates exactly that function -/
theorem soes_toLut (s : Soes) (m : Nat) (hm : m < 2 ^ s.n) :
    (Soes.toLut s).eval m = s.value m ∧ (Soes.toLut s).n = s.n ∧ (Soes.toLut s).WF := by
  have := tabulate_bit s.n s.value m hm
  have zw : (Dyn.zero s.n).WF := by
    apply WF_of_bits
    · simp [Dyn.zero, Dyn.new, fillZero]
    · intro k hk b hb _; simp [Dyn.zero, Dyn.new, fillZero]
  exact ⟨this.1, this.2, (tabulate_WF s.n s.value zw).1⟩

/-- is_zero / is_one never hold for a non-constant or opposite-constant function -/
theorem soes_isZero_sound (s : Soes) (h : s.isZero = true) (m : Nat) : s.value m = false := by
  have : s.cubes = [] := by simpa [Soes.isZero] using h
  rw [soes_value, this]; rfl

theorem ecube_one_value (e : Ecube) (h : e.isOne = true) (m : Nat) : e.value m = true := by
  unfold Ecube.isOne at h
  have h' : e.vars = 0 ∧ e.xnor = true := by simpa using h
  rw [value_spec, h'.1, h'.2]
  have : ((0 : W32) &&& BitVec.ofNat 32 m).toNat = 0 := by simp
  rw [this, par_zero]; rfl

theorem soes_isOne_sound (s : Soes) (h : s.isOne = true) (m : Nat) : s.value m = true := by
  unfold Soes.isOne at h
  match hc : s.cubes with
  | [] => rw [hc] at h; simp at h
  | c :: cs =>
    rw [hc] at h
    simp only [List.head?_cons] at h
    rw [soes_value, hc]
    simp [ecube_one_value c h m]

/-- non-vacuity -/
example : (Ecube.xor ⟨0b011, false⟩ ⟨0b110, true⟩) = ⟨0b101, true⟩ ∧ (⟨0b101, true⟩ : Ecube).value 0b100 = false := by
  decide +kernel

end VoluteModel.Props.C13

import VoluteModel.Model.Api
import VoluteModel.Lemmas.Cmp
import VoluteModel.Lemmas.CrossWord

/-!
# C08 - ordering is numeric order of the table; all_functions enumerates it fully
-/

namespace VoluteModel.Props.C08
open VoluteModel Gen

/-- the table read as a `2^n`-bit unsigned number -/
def toNat (l : Lut) : Nat := toNatLE l.t.toList

/-- bit `m` of the number is the value on assignment `m`: the most significant bit is the value
    on the all-ones assignment -/
theorem toNat_testBit (l : Lut) (m : Nat) : (toNat l).testBit m = l.eval m :=
  toNatLE_testBit_array l.t m

theorem toNat_lt (l : Lut) : toNat l < 2 ^ (64 * l.t.size) := by
  have := toNatLE_lt l.t.toList
  simpa [toNat] using this

/-- `Ord for Lut`: first the number of variables, then the number -/
theorem cmp_spec (a b : Lut) (ha : a.WF) (hb : b.WF) :
    Dyn.cmp a b = if a.n ≠ b.n then compare a.n b.n else compare (toNat a) (toNat b) := by
  unfold Dyn.cmp
  by_cases h : a.n = b.n
  · have hs : a.t.size = b.t.size := by rw [ha.1, hb.1, h]
    simp [h, cmpTables_eq a.t b.t hs, toNat]
  · simp [h]

/-- `Ord for StaticLut` -/
theorem stat_cmp_spec (a b : Lut) (ha : a.WF) (hb : b.WF) (h : a.n = b.n) :
    Stat.cmp a b = compare (toNat a) (toNat b) := by
  have hs : a.t.size = b.t.size := by rw [ha.1, hb.1, h]
  simp [Stat.cmp, cmpTables_eq a.t b.t hs, toNat]

/-- the order agrees with equality -/
theorem cmp_eq_iff (a b : Lut) (ha : a.WF) (hb : b.WF) : Dyn.cmp a b = .eq ↔ a = b := by
  rw [cmp_spec a b ha hb]
  constructor
  · intro h
    by_cases hn : a.n = b.n
    · simp only [hn, ne_eq, not_true_eq_false, if_false] at h
      have hv : toNat a = toNat b := Nat.compare_eq_eq.mp h
      have hs : a.t.toList.length = b.t.toList.length := by simp [ha.1, hb.1, hn]
      have := toNatLE_inj _ _ hs hv
      cases a; cases b
      simp only [Lut.mk.injEq]
      exact ⟨hn, Array.ext' this⟩
    · simp only [hn, ne_eq, not_false_eq_true, if_true] at h
      exact absurd (Nat.compare_eq_eq.mp h) hn
  · intro h; subst h; simp

/-- extensionality: equal number of variables and equal values on every assignment -/
theorem eq_of_eval (a b : Lut) (ha : a.WF) (hb : b.WF) (hn : a.n = b.n)
    (h : ∀ m, m < 2 ^ a.n → a.eval m = b.eval m) : a = b := by
  have hs : a.t.size = b.t.size := by rw [ha.1, hb.1, hn]
  have hv : toNat a = toNat b := by
    apply Nat.eq_of_testBit_eq
    intro m
    rw [toNat_testBit, toNat_testBit]
    by_cases hm : m < 2 ^ a.n
    · exact h m hm
    · -- beyond 2^n both tables are zero (well-formedness)
      have hz : ∀ (l : Lut), l.WF → l.n = a.n → l.eval m = false := by
        intro l hl hln
        unfold Lut.eval
        by_cases hw : m / 64 < l.t.size
        · rw [bit_eq_getElem hw]
          by_cases h6 : a.n ≤ 6
          · have h1 : l.t.size = 1 := by rw [hl.1, hln, tableSize_le6 h6]
            apply WF_word_bit hl _ hw _ (mod64_lt m)
            have h0 : m / 64 = 0 := by omega
            rw [hln]; omega
          · exfalso
            have h6' : 6 ≤ a.n := by omega
            have : l.t.size = 2 ^ (a.n - 6) := by rw [hl.1, hln, tableSize_ge6 h6']
            have e : 2 ^ a.n = 64 * 2 ^ (a.n - 6) := by
              have : a.n = 6 + (a.n - 6) := by omega
              conv => lhs; rw [this, Nat.pow_add]
            have : m < 64 * l.t.size := by omega
            omega
        · exact bit_of_size_le (by omega)
      rw [hz a ha rfl, hz b hb hn.symm]
  have := toNatLE_inj _ _ (by simp [hs]) hv
  cases a; cases b
  simp only [Lut.mk.injEq]
  exact ⟨hn, Array.ext' this⟩

theorem cmp_lt_iff (a b : Lut) (ha : a.WF) (hb : b.WF) :
    Dyn.cmp a b = .lt ↔ a.n < b.n ∨ (a.n = b.n ∧ toNat a < toNat b) := by
  rw [cmp_spec a b ha hb]
  by_cases h : a.n = b.n
  · simp only [h, ne_eq, not_true_eq_false, if_false, Nat.lt_irrefl, true_and, false_or]
    exact Nat.compare_eq_lt
  · simp only [h, ne_eq, not_false_eq_true, if_true, false_and, or_false]
    exact Nat.compare_eq_lt

/-- antisymmetry and transitivity are inherited from the natural numbers -/
theorem cmp_antisymm (a b : Lut) (ha : a.WF) (hb : b.WF) : Dyn.cmp b a = (Dyn.cmp a b).swap := by
  rw [cmp_spec a b ha hb, cmp_spec b a hb ha]
  by_cases h : a.n = b.n
  · have h' : b.n = a.n := h.symm
    simp only [h, ne_eq, not_true_eq_false, if_false]
    exact (Nat.compare_swap _ _).symm
  · have h' : ¬ b.n = a.n := fun e => h e.symm
    simp only [h, h', ne_eq, not_false_eq_true, if_true]
    exact (Nat.compare_swap _ _).symm

theorem cmp_trans (a b c : Lut) (ha : a.WF) (hb : b.WF) (hc : c.WF)
    (h1 : Dyn.cmp a b = .lt) (h2 : Dyn.cmp b c = .lt) : Dyn.cmp a c = .lt := by
  rw [cmp_lt_iff a b ha hb] at h1
  rw [cmp_lt_iff b c hb hc] at h2
  rw [cmp_lt_iff a c ha hc]
  generalize toNat a = x at *
  generalize toNat b = y at *
  generalize toNat c = z at *
  omega

/-! ## the successor step -/

theorem and_allOnes' (x : W) : x &&& ~~~ 0#64 = x := by
  rw [BitVec.not_zero, BitVec.and_allOnes]

theorem one_toNat : (1#64 : W).toNat = 1 := rfl

theorem succ_word_zero (w : W) (h : w + 1#64 = 0#64) : w.toNat + 1 = 2 ^ 64 := by
  have h1 := congrArg BitVec.toNat h
  rw [BitVec.toNat_add, one_toNat] at h1
  have hw := w.isLt
  have h2 : (0#64 : W).toNat = 0 := rfl
  rw [h2] at h1
  omega

theorem succ_word_ne (w : W) (h : ¬ w + 1#64 = 0#64) : (w + 1#64).toNat = w.toNat + 1 ∧ w.toNat + 1 < 2 ^ 64 := by
  have hw := w.isLt
  have hlt : w.toNat + 1 < 2 ^ 64 := by
    rcases Nat.lt_or_ge (w.toNat + 1) (2 ^ 64) with h' | h'
    · exact h'
    · exfalso; apply h
      apply BitVec.eq_of_toNat_eq
      rw [BitVec.toNat_add, one_toNat]
      have : w.toNat + 1 = 2 ^ 64 := by omega
      rw [this]; rfl
  refine ⟨?_, hlt⟩
  rw [BitVec.toNat_add, one_toNat, Nat.mod_eq_of_lt hlt]

theorem carry_arith (P L A wv : Nat) (hP : 0 < P) (hw : wv + 1 = P) :
    (wv + P * A + 1) % (P * L) = 0 + P * ((A + 1) % L) ∧
    (decide (A + 1 < L) = decide (wv + P * A + 1 < P * L)) := by
  have e3 : wv + P * A + 1 = P * (A + 1) := by rw [Nat.mul_add, Nat.mul_one]; omega
  rw [e3, Nat.mul_mod_mul_left, Nat.zero_add]
  refine ⟨rfl, ?_⟩
  simp only [Nat.mul_lt_mul_left hP]

theorem nocarry_arith (P L A wv : Nat) (hA : A < L) (hw : wv + 1 < P) :
    (wv + P * A + 1) % (P * L) = wv + 1 + P * A ∧ wv + P * A + 1 < P * L := by
  have h1 : P * (A + 1) ≤ P * L := Nat.mul_le_mul_left _ hA
  rw [Nat.mul_add, Nat.mul_one] at h1
  have hlt : wv + P * A + 1 < P * L := by omega
  exact ⟨by rw [Nat.mod_eq_of_lt hlt]; omega, hlt⟩

theorem toNatLE_cons (a : W) (as : List W) : toNatLE (a :: as) = a.toNat + 2 ^ 64 * toNatLE as := rfl

/-- carry chain over full words -/
theorem nextList_full (ws : List W) :
    toNatLE (nextList (~~~ 0#64) ws).1 = (toNatLE ws + 1) % 2 ^ (64 * ws.length) ∧
    (nextList (~~~ 0#64) ws).2 = decide (toNatLE ws + 1 < 2 ^ (64 * ws.length)) ∧
    (nextList (~~~ 0#64) ws).1.length = ws.length := by
  induction ws with
  | nil => simp [nextList, toNatLE]
  | cons w ws ih =>
    obtain ⟨ih1, ih2, ih3⟩ := ih
    have hA := toNatLE_lt ws
    have e2 : 2 ^ (64 * (ws.length + 1)) = 2 ^ 64 * 2 ^ (64 * ws.length) := by
      rw [Nat.mul_add, Nat.mul_one, Nat.pow_add, Nat.mul_comm]
    have hlen : (w :: ws).length = ws.length + 1 := rfl
    rw [hlen, e2, toNatLE_cons]
    by_cases h0 : (w + 1#64) = 0#64
    · -- the word was all ones: carry
      have hn : nextList (~~~ 0#64) (w :: ws) =
          (0#64 :: (nextList (~~~ 0#64) ws).1, (nextList (~~~ 0#64) ws).2) := by
        simp only [nextList, and_allOnes', h0, bne_self_eq_false, Bool.false_eq_true, ↓reduceIte]
      rw [hn]
      obtain ⟨c1, c2⟩ := carry_arith (2 ^ 64) (2 ^ (64 * ws.length)) (toNatLE ws) w.toNat
        (Nat.two_pow_pos 64) (succ_word_zero w h0)
      refine ⟨?_, ?_, ?_⟩
      · rw [c1, ← ih1]; rfl
      · rw [← c2]; exact ih2
      · simp only [List.length_cons, ih3]
    · have hne : (w + 1#64 != 0#64) = true := by simp [h0]
      have hn : nextList (~~~ 0#64) (w :: ws) = ((w + 1#64) :: ws, true) := by
        simp only [nextList, and_allOnes', hne, ↓reduceIte]
      rw [hn]
      obtain ⟨hwt, hwn⟩ := succ_word_ne w h0
      obtain ⟨c1, c2⟩ := nocarry_arith (2 ^ 64) (2 ^ (64 * ws.length)) (toNatLE ws) w.toNat hA hwn
      refine ⟨?_, ?_, rfl⟩
      · rw [c1, toNatLE_cons, hwt]
      · simp only [c2, decide_true]

/-- `NUM_VARS_MASK[n]` as a number -/
theorem numVarsMaskTab_toNat : ∀ n : Fin 7, (NUM_VARS_MASK[n.val]!).toNat = 2 ^ (2 ^ n.val) - 1 := by
  decide +kernel

/-- a well-formed single word is below 2^(2^n) -/
theorem word_lt_of_WF (n : Nat) (w : W) (h : WF n #[w]) : w.toNat < 2 ^ (2 ^ n) := by
  apply Nat.lt_pow_two_of_testBit
  intro b hb
  by_cases h64 : b < 64
  · have := WF_word_bit h 0 (by simp) b h64 hb
    simpa [BitVec.getLsbD] using this
  · exact Nat.testBit_lt_two_pow (Nat.lt_of_lt_of_le w.isLt (Nat.pow_le_pow_right (by omega) (by omega)))

/-- the successor is +1 modulo 2^(2^n); the flag says whether it did not wrap; the result is
    well formed.  Includes every carry across 64-bit words. -/
theorem next_spec (l : Lut) (hl : l.WF) :
    toNat (Dyn.verifNext l).1 = (toNat l + 1) % 2 ^ (2 ^ l.n) ∧
    (Dyn.verifNext l).2 = decide (toNat l + 1 < 2 ^ (2 ^ l.n)) ∧
    (Dyn.verifNext l).1.n = l.n ∧ (Dyn.verifNext l).1.WF := by
  by_cases h6 : 6 ≤ l.n
  · -- full words
    have hmask : numVarsMask l.n = ~~~ 0#64 := by
      unfold numVarsMask
      have : min l.n 6 = 6 := by omega
      rw [this]; decide
    have hsz : l.t.size = 2 ^ (l.n - 6) := size_pow hl.1 h6
    have hbits : 64 * l.t.toList.length = 2 ^ l.n := by
      simp only [Array.length_toList, hsz]
      have : l.n = 6 + (l.n - 6) := by omega
      conv => rhs; rw [this, Nat.pow_add]
    obtain ⟨h1, h2, h3⟩ := nextList_full l.t.toList
    rw [hbits] at h1 h2
    refine ⟨?_, ?_, rfl, ?_⟩
    · show toNatLE (nextInplace l.n l.t).1.toList = _
      simp only [nextInplace, hmask]
      exact h1
    · show (nextInplace l.n l.t).2 = _
      simp only [nextInplace, hmask]
      exact h2
    · show WF l.n (nextInplace l.n l.t).1
      apply WF_of_bits
      · simp only [nextInplace, hmask, List.size_toArray, h3, Array.length_toList]; exact hl.1
      · intro k hk b hb hge
        have : 2 ^ 6 ≤ 2 ^ l.n := Nat.pow_le_pow_right (by omega) h6
        omega
  · -- a single, partially used word
    have h6' : l.n ≤ 6 := by omega
    have hs1 : l.t.size = 1 := by rw [hl.1, tableSize_le6 h6']
    obtain ⟨n, t⟩ := l
    obtain ⟨w, rfl⟩ : ∃ w, t = #[w] := by
      have : t.toList.length = 1 := by simpa using hs1
      match hh : t.toList, this with
      | [w], _ => exact ⟨w, Array.ext' (by simpa using hh)⟩
    simp only at h6 h6' hl ⊢
    have hmask : (numVarsMask n).toNat = 2 ^ (2 ^ n) - 1 := by
      unfold numVarsMask
      have : min n 6 = n := by omega
      rw [this]
      exact numVarsMaskTab_toNat ⟨n, by omega⟩
    have hB : 2 ^ n ≤ 32 := by
      have : 2 ^ n ≤ 2 ^ 5 := Nat.pow_le_pow_right (by omega) (by omega)
      omega
    have hB2 : 2 ^ (2 ^ n) ≤ 2 ^ 32 := Nat.pow_le_pow_right (by omega) hB
    have hpos : 0 < 2 ^ (2 ^ n) := Nat.two_pow_pos _
    have hwlt : w.toNat < 2 ^ (2 ^ n) := word_lt_of_WF n w hl
    -- the new word
    have hw1 : (w + 1#64).toNat = w.toNat + 1 := by
      rw [BitVec.toNat_add, one_toNat]
      apply Nat.mod_eq_of_lt
      have : (2:Nat) ^ 32 < 2 ^ 64 := by decide
      omega
    have hw' : ((w + 1#64) &&& numVarsMask n).toNat = (w.toNat + 1) % 2 ^ (2 ^ n) := by
      rw [BitVec.toNat_and, hmask, hw1, Nat.and_two_pow_sub_one_eq_mod]
    have hnext : Dyn.verifNext ⟨n, #[w]⟩ =
        (⟨n, #[(w + 1#64) &&& numVarsMask n]⟩, (w + 1#64) &&& numVarsMask n != 0#64) := by
      simp only [Dyn.verifNext, nextInplace, nextList]
      split <;> simp_all
    rw [hnext]
    refine ⟨?_, ?_, rfl, ?_⟩
    · show toNatLE [(w + 1#64) &&& numVarsMask n] = (toNatLE [w] + 1) % 2 ^ (2 ^ n)
      have e1 : ∀ x : W, toNatLE [x] = x.toNat := by intro x; simp [toNatLE]
      rw [e1, e1, hw']
    · have e1 : ∀ x : W, toNatLE [x] = x.toNat := by intro x; simp [toNatLE]
      show ((w + 1#64) &&& numVarsMask n != 0#64) = decide (toNatLE [w] + 1 < 2 ^ (2 ^ n))
      rw [e1]
      have hiff : ((w + 1#64) &&& numVarsMask n = 0#64) ↔ (w.toNat + 1) % 2 ^ (2 ^ n) = 0 := by
        constructor
        · intro h; rw [← hw', h]; rfl
        · intro h; apply BitVec.eq_of_toNat_eq; rw [hw', h]; rfl
      by_cases hz : (w + 1#64) &&& numVarsMask n = 0#64
      · have := hiff.mp hz
        have hge : ¬ (w.toNat + 1 < 2 ^ (2 ^ n)) := by
          intro hlt
          rw [Nat.mod_eq_of_lt (by omega)] at this
          omega
        simp [hz, hge]
      · have hne : (w.toNat + 1) % 2 ^ (2 ^ n) ≠ 0 := fun h => hz (hiff.mpr h)
        have hlt : w.toNat + 1 < 2 ^ (2 ^ n) := by
          rcases Nat.lt_or_ge (w.toNat + 1) (2 ^ (2 ^ n)) with h | h
          · omega
          · exfalso; apply hne
            have : w.toNat + 1 = 2 ^ (2 ^ n) := by omega
            rw [this, Nat.mod_self]
        simp [hz, hlt]
    · show WF n #[(w + 1#64) &&& numVarsMask n]
      apply WF_of_bits
      · simp [tableSize_le6 h6']
      · intro k hk b hb hge
        have hk0 : k = 0 := by simp at hk; omega
        subst hk0
        simp only [List.getElem_toArray, List.getElem_cons_zero, BitVec.getLsbD_and, numVarsMask_bit n b hb]
        have : ¬ b < 2 ^ n := by omega
        simp [this]

/-! ## the iterator `all_functions` -/

/-- state of the iterator after `k` calls of `next` -/
def iterN (it : Dyn.Iter) : Nat → Dyn.Iter
  | 0 => it
  | k + 1 => (iterN it k).next.2

/-- the item returned by call number `k` (counting from 0) -/
def nthItem (n k : Nat) : Option Lut := (iterN (Dyn.allFunctions n) k).next.1

theorem toNatLE_replicate_zero (k : Nat) : toNatLE (List.replicate k (0#64 : W)) = 0 := by
  induction k with
  | zero => rfl
  | succ k ih => simp [List.replicate_succ, toNatLE, ih]

theorem zero_toNat (n : Nat) : toNat (Dyn.zero n) = 0 := by
  simp only [toNat, Dyn.zero, Dyn.new, fillZero]
  have : (Array.map (fun _ => 0#64) (Array.replicate (tableSize n) (0#64 : W))).toList
      = List.replicate (tableSize n) 0#64 := by simp
  rw [this, toNatLE_replicate_zero]

theorem zero_WF (n : Nat) : (Dyn.zero n).WF := by
  apply WF_of_bits
  · simp [Dyn.zero, Dyn.new, fillZero]
  · intro k hk b hb _; simp [Dyn.zero, Dyn.new, fillZero]

theorem iter_invariant (n : Nat) (k : Nat) (hk : k ≤ 2 ^ (2 ^ n)) :
    let s := iterN (Dyn.allFunctions n) k
    s.lut.n = n ∧ s.lut.WF ∧ (k < 2 ^ (2 ^ n) → s.ok = true ∧ toNat s.lut = k) ∧
      (k = 2 ^ (2 ^ n) → s.ok = false) := by
  induction k with
  | zero =>
    refine ⟨rfl, zero_WF n, fun _ => ⟨rfl, zero_toNat n⟩, ?_⟩
    intro h; have := Nat.two_pow_pos (2 ^ n); omega
  | succ k ih =>
    obtain ⟨hn, hwf, hlt, _⟩ := ih (by omega)
    obtain ⟨hok, hval⟩ := hlt (by omega)
    have hnext := next_spec (iterN (Dyn.allFunctions n) k).lut hwf
    rw [hn, hval] at hnext
    obtain ⟨h1, h2, h3, h4⟩ := hnext
    have hs : iterN (Dyn.allFunctions n) (k + 1) =
        ⟨(Dyn.verifNext (iterN (Dyn.allFunctions n) k).lut).1, (Dyn.verifNext (iterN (Dyn.allFunctions n) k).lut).2⟩ := by
      show (iterN (Dyn.allFunctions n) k).next.2 = _
      simp only [Dyn.Iter.next, hok, Bool.not_true, Bool.false_eq_true, if_false, Dyn.verifNext]
    intro s
    have hs' : s = _ := hs
    rw [hs']
    refine ⟨h3, h4, ?_, ?_⟩
    · intro hlt'
      refine ⟨by simp only [h2]; simp [hlt'], ?_⟩
      simp only [h1]; exact Nat.mod_eq_of_lt hlt'
    · intro he
      simp only [h2]; simp [he]

/-- call number k < 2^(2^n) yields the function whose table is the number k:
    every item is the numeric successor of the previous one, starting from constant zero -/
theorem nthItem_lt (n k : Nat) (hk : k < 2 ^ (2 ^ n)) :
    ∃ l, nthItem n k = some l ∧ l.n = n ∧ l.WF ∧ toNat l = k := by
  obtain ⟨hn, hwf, hlt, _⟩ := iter_invariant n k (by omega)
  obtain ⟨hok, hval⟩ := hlt hk
  refine ⟨(iterN (Dyn.allFunctions n) k).lut, ?_, hn, hwf, hval⟩
  simp only [nthItem, Dyn.Iter.next, hok, Bool.not_true, Bool.false_eq_true, if_false]

/-- after 2^(2^n) items the iterator is finished, for ever -/
theorem nthItem_ge (n k : Nat) (hk : 2 ^ (2 ^ n) ≤ k) : nthItem n k = none := by
  have hstop : ∀ j, (iterN (Dyn.allFunctions n) (2 ^ (2 ^ n) + j)).ok = false := by
    intro j
    induction j with
    | zero => exact (iter_invariant n _ (Nat.le_refl _)).2.2.2 rfl
    | succ j ih =>
      show ((iterN (Dyn.allFunctions n) (2 ^ (2 ^ n) + j)).next.2).ok = false
      simp only [Dyn.Iter.next, ih, Bool.not_false, if_true]
  obtain ⟨j, rfl⟩ : ∃ j, k = 2 ^ (2 ^ n) + j := ⟨k - 2 ^ (2 ^ n), by omega⟩
  simp only [nthItem, Dyn.Iter.next, hstop j, Bool.not_false, if_true]

/-- a well-formed table is a number below 2^(2^n) -/
theorem toNat_lt_of_WF (l : Lut) (hl : l.WF) : toNat l < 2 ^ (2 ^ l.n) := by
  by_cases h6 : 6 ≤ l.n
  · have hsz := size_pow hl.1 h6
    have := toNat_lt l
    have e : 64 * l.t.size = 2 ^ l.n := by
      rw [hsz]
      have : l.n = 6 + (l.n - 6) := by omega
      conv => rhs; rw [this, Nat.pow_add]
    rw [e] at this; exact this
  · have hs1 : l.t.size = 1 := by rw [hl.1, tableSize_le6 (by omega)]
    obtain ⟨n, t⟩ := l
    obtain ⟨w, rfl⟩ : ∃ w, t = #[w] := by
      have : t.toList.length = 1 := by simpa using hs1
      match hh : t.toList, this with
      | [w], _ => exact ⟨w, Array.ext' (by simpa using hh)⟩
    have := word_lt_of_WF n w hl
    simpa [toNat, toNatLE] using this

/-- every function of n variables is yielded, exactly once (at the position given by its value) -/
theorem every_function_once (l : Lut) (hl : l.WF) :
    nthItem l.n (toNat l) = some l ∧ ∀ k, nthItem l.n k = some l → k = toNat l := by
  have hlt := toNat_lt_of_WF l hl
  obtain ⟨l', h1, h2, h3, h4⟩ := nthItem_lt l.n (toNat l) hlt
  have hsame : l' = l := by
    have hs : l'.t.toList.length = l.t.toList.length := by simp [h3.1, hl.1, h2]
    have := toNatLE_inj _ _ hs h4
    cases l'; cases l
    simp only [Lut.mk.injEq]
    exact ⟨h2, Array.ext' this⟩
  refine ⟨by rw [h1, hsame], ?_⟩
  intro k hk
  by_cases hkl : k < 2 ^ (2 ^ l.n)
  · obtain ⟨l2, g1, _, _, g4⟩ := nthItem_lt l.n k hkl
    rw [g1] at hk
    cases hk
    exact g4.symm
  · rw [nthItem_ge l.n k (by omega)] at hk; cases hk

/-- non-vacuity: a two-word table whose low word is all ones (carry into the second word) -/
example : (⟨7, #[0xffffffffffffffff#64, 0x5#64]⟩ : Lut).WF ∧
    Dyn.verifNext ⟨7, #[0xffffffffffffffff#64, 0x5#64]⟩ = (⟨7, #[0x0#64, 0x6#64]⟩, true) := by
  constructor
  · unfold Lut.WF; decide +kernel
  · decide +kernel


/-! ## the provided methods of `Iterator`: `nth`, `skip`, `step_by`, `count`, `last`

`LutIterator` implements `next` only; the model defines the library's defaults on top of it
(`Dyn.Iter.advance / nth / stepBy / rest`).  They select exactly the items of the enumeration. -/

theorem advance_succ' (it : Dyn.Iter) (k : Nat) : it.advance (k + 1) = (it.advance k).next.2 := by
  induction k generalizing it with
  | zero => rfl
  | succ k ih =>
    show (it.next.2).advance (k + 1) = ((it.next.2).advance k).next.2
    exact ih _

theorem advance_eq_iterN (it : Dyn.Iter) (k : Nat) : it.advance k = iterN it k := by
  induction k with
  | zero => rfl
  | succ k ih => rw [advance_succ', ih]; rfl

theorem advance_add (it : Dyn.Iter) (a b : Nat) : (it.advance a).advance b = it.advance (a + b) := by
  induction b with
  | zero => rfl
  | succ b ih => rw [advance_succ', ih, ← Nat.add_assoc, advance_succ']

/-- `nth(b)` after `a` items were taken returns item number `a + b` of the enumeration -/
theorem nth_spec (n a b : Nat) : (((Dyn.allFunctions n).advance a).nth b).1 = nthItem n (a + b) := by
  unfold Dyn.Iter.nth nthItem
  rw [advance_add, advance_eq_iterN]

/-- ... and leaves the iterator where `a + b + 1` calls of `next` leave it -/
theorem nth_state (n a b : Nat) :
    (((Dyn.allFunctions n).advance a).nth b).2 = (Dyn.allFunctions n).advance (a + b + 1) := by
  unfold Dyn.Iter.nth
  rw [advance_add, advance_succ']

/-- a jump inside the enumeration lands on the function whose table is the number `a + b` -/
theorem nth_inside (n a b : Nat) (h : a + b < 2 ^ (2 ^ n)) :
    ∃ l, (((Dyn.allFunctions n).advance a).nth b).1 = some l ∧ l.n = n ∧ l.WF ∧ toNat l = a + b := by
  rw [nth_spec]; exact nthItem_lt n (a + b) h

/-- a jump to or beyond the end returns `None`, and so does every later call -/
theorem nth_beyond (n a b : Nat) (h : 2 ^ (2 ^ n) ≤ a + b) :
    (((Dyn.allFunctions n).advance a).nth b).1 = none ∧
    ∀ j, ((((Dyn.allFunctions n).advance a).nth b).2.advance j).next.1 = none := by
  refine ⟨by rw [nth_spec]; exact nthItem_ge n _ h, ?_⟩
  intro j
  rw [nth_state, advance_add, advance_eq_iterN]
  exact nthItem_ge n _ (by omega)

/-- poll number `k` of `step_by(step)` (step >= 1) is item number `a + k * step` -/
theorem stepBy_spec (n a step cnt k : Nat) (hs : 1 ≤ step) (hk : k < cnt) :
    (((Dyn.allFunctions n).advance a).stepBy step cnt true)[k]? = some (nthItem n (a + k * step)) := by
  -- generalised: from position p, `first` or not
  have gen : ∀ cnt p k, k < cnt →
      ((((Dyn.allFunctions n).advance p).stepBy step cnt true)[k]? = some (nthItem n (p + k * step))) ∧
      ((((Dyn.allFunctions n).advance (p + 1)).stepBy step cnt false)[k]? = some (nthItem n (p + (k + 1) * step))) := by
    intro cnt
    induction cnt with
    | zero => intro p k hk; omega
    | succ cnt ih =>
      intro p k hk
      constructor
      · unfold Dyn.Iter.stepBy
        cases k with
        | zero =>
          simp only [if_true, List.getElem?_cons_zero, Nat.zero_mul, Nat.add_zero]
          rw [nthItem, ← advance_eq_iterN]
        | succ k =>
          simp only [if_true, List.getElem?_cons_succ]
          have e : ((Dyn.allFunctions n).advance p).next.2 = (Dyn.allFunctions n).advance (p + 1) := by
            rw [advance_succ']
          rw [e]
          exact (ih p k (by omega)).2
      · unfold Dyn.Iter.stepBy
        have hnth : ((Dyn.allFunctions n).advance (p + 1)).nth (step - 1) =
            (nthItem n (p + step), (Dyn.allFunctions n).advance (p + step + 1)) := by
          have h1 := nth_spec n (p + 1) (step - 1)
          have h2 := nth_state n (p + 1) (step - 1)
          have e1 : p + 1 + (step - 1) = p + step := by omega
          rw [e1] at h1 h2
          exact Prod.ext h1 h2
        cases k with
        | zero =>
          simp only [Bool.false_eq_true, if_false, List.getElem?_cons_zero, hnth, Nat.zero_add, Nat.one_mul]
        | succ k =>
          simp only [Bool.false_eq_true, if_false, List.getElem?_cons_succ, hnth]
          have := (ih (p + step) k (by omega)).2
          rw [this]
          congr 2
          rw [Nat.add_mul (k + 1) 1 step, Nat.one_mul]; omega
  exact (gen cnt a k hk).1


theorem next_at (n p : Nat) :
    ((Dyn.allFunctions n).advance p).next = (nthItem n p, (Dyn.allFunctions n).advance (p + 1)) := by
  apply Prod.ext
  · show _ = nthItem n p
    rw [nthItem, ← advance_eq_iterN]
  · rw [advance_succ']

/-- the items that are left after `p` calls of `next`, in order: what `count`, `last`, `fold`,
`min`, `max`, `collect` consume -/
theorem rest_spec (n fuel p : Nat) :
    (((Dyn.allFunctions n).advance p).rest fuel).1 =
      (List.range (min fuel (2 ^ (2 ^ n) - p))).filterMap (fun j => nthItem n (p + j)) := by
  induction fuel generalizing p with
  | zero => simp [Dyn.Iter.rest]
  | succ fuel ih =>
    unfold Dyn.Iter.rest
    rw [next_at]
    by_cases hp : p < 2 ^ (2 ^ n)
    · obtain ⟨l, hl, _⟩ := nthItem_lt n p hp
      simp only [hl]
      rw [ih (p + 1)]
      have hm : min (fuel + 1) (2 ^ (2 ^ n) - p) = min fuel (2 ^ (2 ^ n) - (p + 1)) + 1 := by omega
      rw [hm, List.range_succ_eq_map, List.filterMap_cons]
      simp only [Nat.add_zero, hl, List.filterMap_map]
      congr 1
      have hf : ((fun j => nthItem n (p + j)) ∘ Nat.succ) = (fun j => nthItem n (p + 1 + j)) := by
        funext j
        simp only [Function.comp]
        congr 1; omega
      rw [hf]
    · have hn := nthItem_ge n p (by omega)
      simp only [hn]
      have hm : min (fuel + 1) (2 ^ (2 ^ n) - p) = 0 := by omega
      rw [hm]; rfl

/-- `count()` after `p` items: the number of functions that are left -/
theorem count_spec (n fuel p : Nat) (hf : 2 ^ (2 ^ n) ≤ fuel) :
    (((Dyn.allFunctions n).advance p).rest fuel).1.length = 2 ^ (2 ^ n) - p := by
  rw [rest_spec]
  have hm : min fuel (2 ^ (2 ^ n) - p) = 2 ^ (2 ^ n) - p := by omega
  rw [hm]
  -- every index of the range gives an item
  have : ∀ m, m ≤ 2 ^ (2 ^ n) - p →
      ((List.range m).filterMap (fun j => nthItem n (p + j))).length = m := by
    intro m
    induction m with
    | zero => intro _; rfl
    | succ m ih =>
      intro hm
      rw [List.range_succ, List.filterMap_append, List.length_append, ih (by omega)]
      obtain ⟨l, hl, _⟩ := nthItem_lt n (p + m) (by omega)
      simp [hl]
  exact this _ (Nat.le_refl _)

/-- `last()` after `p < 2^(2^n)` items is the constant one function (the number 2^(2^n) - 1) -/
theorem last_spec (n fuel p : Nat) (hf : 2 ^ (2 ^ n) ≤ fuel) (hp : p < 2 ^ (2 ^ n)) :
    (((Dyn.allFunctions n).advance p).rest fuel).1.getLast? = nthItem n (2 ^ (2 ^ n) - 1) := by
  rw [rest_spec]
  have hm : min fuel (2 ^ (2 ^ n) - p) = (2 ^ (2 ^ n) - p - 1) + 1 := by omega
  rw [hm, List.range_succ, List.filterMap_append]
  obtain ⟨l, hl, _⟩ := nthItem_lt n (2 ^ (2 ^ n) - 1) (by omega)
  have e : p + (2 ^ (2 ^ n) - p - 1) = 2 ^ (2 ^ n) - 1 := by omega
  simp [e, hl]

/-- non-vacuity: three variables, jump over the end -/
example : (((Dyn.allFunctions 1).advance 1).nth 2).1 = some ⟨1, #[3#64]⟩ ∧
    (((Dyn.allFunctions 1).advance 1).nth 3).1 = none := by decide +kernel


end VoluteModel.Props.C08

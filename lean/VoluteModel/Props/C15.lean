import VoluteModel.Model.Sop
import VoluteModel.Lemmas.Tabulate
import VoluteModel.Props.C12

/-!
# C15 - Lut to Esop conversion (in-place Moebius sweep)

Proved here, for every n <= 32 and every function: the emitted cubes are all-positive, in
strictly increasing order of their variable sets (hence each at most once), and the Esop denotes
the function (so converting back gives the function).  The loop invariant is the one of
DESIGN.md: after all i' < k are processed, position m of the working table holds
`f m xor #{emitted T : T a proper subset of m}`.
`fromLut_anf`: the emitted cubes are exactly the monomials S whose ANF coefficient (the XOR of f
over the assignments contained in S) is 1, each once - from the uniqueness of duplicate-free
positive ESOPs (`positive_esop_unique`) and Moebius inversion over GF(2) (`mobius`);
`fromLut_canonical`: equal functions give equal Esops.
-/

namespace VoluteModel.Props.C15
open VoluteModel VoluteModel.Props.C12

/-- T is a subset of m (as sets of variables) -/
def subB (T m : Nat) : Bool := decide (T &&& m = T)
/-- proper subset -/
def psub (T m : Nat) : Bool := subB T m && (T != m)

/-- XOR of a predicate over a list of indices -/
def X (E : List Nat) (P : Nat → Bool) : Bool := E.foldl (fun r T => r != P T) false

theorem X_foldl (E : List Nat) (P : Nat → Bool) (init : Bool) :
    E.foldl (fun r T => r != P T) init = (init != X E P) := by
  induction E generalizing init with
  | nil => simp [X]
  | cons a E ih =>
    simp only [List.foldl_cons, X]
    rw [ih, ih (false != P a)]
    cases init <;> cases P a <;> cases X E P <;> rfl

theorem X_cons (a : Nat) (E : List Nat) (P : Nat → Bool) : X (a :: E) P = (P a != X E P) := by
  show List.foldl (fun r T => r != P T) false (a :: E) = _
  rw [List.foldl_cons, X_foldl]; simp

theorem X_append_single (E : List Nat) (a : Nat) (P : Nat → Bool) : X (E ++ [a]) P = (X E P != P a) := by
  simp [X, List.foldl_append]

theorem X_congr (E : List Nat) (P Q : Nat → Bool) (h : ∀ T ∈ E, P T = Q T) : X E P = X E Q := by
  induction E with
  | nil => rfl
  | cons a E ih =>
    rw [X_cons, X_cons, h a (by simp), ih (fun T hT => h T (by simp [hT]))]

theorem X_or (E : List Nat) (P Q : Nat → Bool) (hd : ∀ T ∈ E, ¬ (P T = true ∧ Q T = true)) :
    X E (fun T => P T || Q T) = (X E P != X E Q) := by
  induction E with
  | nil => rfl
  | cons a E ih =>
    rw [X_cons, X_cons, X_cons, ih (fun T hT => hd T (by simp [hT]))]
    have := hd a (by simp)
    cases hp : P a <;> cases hq : Q a <;> cases X E P <;> cases X E Q <;> simp_all

theorem X_eq_mem (E : List Nat) (hn : E.Nodup) (m : Nat) : X E (fun T => T == m) = decide (m ∈ E) := by
  induction E with
  | nil => rfl
  | cons a E ih =>
    rw [X_cons, ih (List.nodup_cons.mp hn).2]
    have hna : a ∉ E := (List.nodup_cons.mp hn).1
    by_cases h : a = m
    · subst h; simp [hna]
    · have : ¬ m = a := fun e => h e.symm
      have hb : (a == m) = false := by simp [h]
      rw [hb]; simp [this]

/-- a bit toggle -/
def toggle (t : Array W) (j : Nat) : Array W := if !(getBit t j) then setBit t j else unsetBit t j

theorem toggle_size (t : Array W) (j : Nat) : (toggle t j).size = t.size := by
  unfold toggle; split <;> simp [setBit, unsetBit]

theorem bit_toggle (t : Array W) (j m : Nat) (hj : j / 64 < t.size) :
    bit (toggle t j) m = (bit t m != decide (m = j)) := by
  unfold toggle
  rw [getBit_eq_bit]
  cases hb : bit t j
  · simp only [Bool.not_false, if_true]
    rw [bit_setBit _ _ _ hj]
    by_cases h : m = j
    · subst h; simp [hb]
    · simp [h]
  · simp only [Bool.not_true, Bool.false_eq_true, if_false]
    rw [bit_unsetBit]
    by_cases h : m = j
    · subst h; simp [hb]
    · simp [h]

/-- toggling all positions of a duplicate-free list that satisfy a condition -/
theorem bit_toggleList (L : List Nat) (c : Nat → Bool) (t : Array W) (hL : L.Nodup)
    (hr : ∀ j ∈ L, j / 64 < t.size) (m : Nat) :
    bit (L.foldl (fun t j => if c j then toggle t j else t) t) m = (bit t m != (decide (m ∈ L) && c m)) ∧
    (L.foldl (fun t j => if c j then toggle t j else t) t).size = t.size := by
  induction L generalizing t with
  | nil => simp
  | cons a L ih =>
    simp only [List.foldl_cons]
    have hna : a ∉ L := (List.nodup_cons.mp hL).1
    have ha : a / 64 < t.size := hr a (by simp)
    by_cases hc : c a = true
    · simp only [hc, if_true]
      obtain ⟨h1, h2⟩ := ih (toggle t a) (List.nodup_cons.mp hL).2
        (fun j hj => by rw [toggle_size]; exact hr j (by simp [hj]))
      refine ⟨?_, by rw [h2, toggle_size]⟩
      rw [h1, bit_toggle _ _ _ ha]
      by_cases hm : m = a
      · subst hm; simp [hna, hc]
      · have : ¬ m ∈ L → (decide (m ∈ a :: L)) = false := by intro h; simp [hm, h]
        by_cases hml : m ∈ L <;> simp [hm, hml]
    · have hc' : c a = false := by simpa using hc
      simp only [hc', Bool.false_eq_true, if_false]
      obtain ⟨h1, h2⟩ := ih t (List.nodup_cons.mp hL).2 (fun j hj => hr j (by simp [hj]))
      refine ⟨?_, h2⟩
      rw [h1]
      by_cases hm : m = a
      · subst hm; simp [hna, hc']
      · by_cases hml : m ∈ L <;> simp [hm, hml]

/-- `!j & i == 0` on 64-bit words is "i is a subset of j" -/
theorem subset_cond (i j : Nat) (hi : i < 2 ^ 64) (hj : j < 2 ^ 64) :
    ((i &&& (2 ^ 64 - 1 - j % 2 ^ 64)) == 0) = subB i j := by
  rw [Nat.mod_eq_of_lt hj]
  have e : 2 ^ 64 - 1 - j = 2 ^ 64 - (j + 1) := by omega
  rw [e]
  unfold subB
  apply Bool.eq_iff_iff.mpr
  simp only [beq_iff_eq, decide_eq_true_eq]
  constructor
  · intro h
    apply Nat.eq_of_testBit_eq
    intro v
    have := congrArg (fun x => x.testBit v) h
    simp only [Nat.testBit_and, Nat.zero_testBit, Nat.testBit_two_pow_sub_succ hj] at this
    rw [Nat.testBit_and]
    cases hiv : i.testBit v
    · simp
    · rw [hiv] at this
      by_cases hv : v < 64
      · simp only [hv, decide_true, Bool.true_and] at this
        have : j.testBit v = true := by simpa using this
        simp [this]
      · exfalso
        have : i < 2 ^ v := Nat.lt_of_lt_of_le hi (Nat.pow_le_pow_right (by omega) (by omega))
        rw [Nat.testBit_lt_two_pow this] at hiv; cases hiv
  · intro h
    apply Nat.eq_of_testBit_eq
    intro v
    simp only [Nat.testBit_and, Nat.zero_testBit, Nat.testBit_two_pow_sub_succ hj]
    have := congrArg (fun x => x.testBit v) h
    simp only [Nat.testBit_and] at this
    cases hiv : i.testBit v
    · simp
    · rw [hiv] at this
      have : j.testBit v = true := by simpa using this
      simp [this]

theorem esopToggle_eq (nb i : Nat) (t : Array W) :
    Esop.esopToggle nb i t = (List.range' (i + 1) (nb - (i + 1))).foldl
      (fun t j => if (i &&& (2 ^ 64 - 1 - j % 2 ^ 64)) == 0 then toggle t j else t) t := rfl

/-- the inner loop: toggle every proper superset position of i below nb -/
theorem bit_esopToggle (nb i : Nat) (t : Array W) (hnb : nb ≤ 64 * t.size) (h64 : nb ≤ 2 ^ 64) (m : Nat) (hm : m < nb) :
    bit (Esop.esopToggle nb i t) m = (bit t m != (decide (i < m) && subB i m)) ∧
    (Esop.esopToggle nb i t).size = t.size := by
  rw [esopToggle_eq]
  by_cases hi : i < nb
  · have hL : (List.range' (i + 1) (nb - (i + 1))).Nodup := List.nodup_range'
    have hmem : ∀ j, j ∈ List.range' (i + 1) (nb - (i + 1)) ↔ (i < j ∧ j < nb) := by
      intro j; rw [List.mem_range'_1]; omega
    have hcond : ∀ j ∈ List.range' (i + 1) (nb - (i + 1)),
        ((i &&& (2 ^ 64 - 1 - j % 2 ^ 64)) == 0) = subB i j := by
      intro j hj
      have := (hmem j).mp hj
      exact subset_cond i j (by omega) (by omega)
    have hfold : ∀ (L : List Nat) (t : Array W), (∀ j ∈ L, ((i &&& (2 ^ 64 - 1 - j % 2 ^ 64)) == 0) = subB i j) →
        L.foldl (fun t j => if (i &&& (2 ^ 64 - 1 - j % 2 ^ 64)) == 0 then toggle t j else t) t =
        L.foldl (fun t j => if subB i j then toggle t j else t) t := by
      intro L
      induction L with
      | nil => intro t _; rfl
      | cons a L ih =>
        intro t h
        simp only [List.foldl_cons]
        rw [h a (by simp)]
        exact ih _ (fun j hj => h j (by simp [hj]))
    rw [hfold _ t hcond]
    obtain ⟨h1, h2⟩ := bit_toggleList _ (subB i) t hL (fun j hj => by have := (hmem j).mp hj; omega) m
    refine ⟨?_, h2⟩
    rw [h1]
    have : decide (m ∈ List.range' (i + 1) (nb - (i + 1))) = decide (i < m) := by
      apply Bool.eq_iff_iff.mpr; simp only [decide_eq_true_eq, hmem]; constructor
      · intro h; exact h.1
      · intro h; exact ⟨h, hm⟩
    rw [this]
  · have : nb - (i + 1) = 0 := by omega
    rw [this]
    simp only [List.range'_zero, List.foldl_nil]
    have : ¬ i < m := by omega
    simp [this]

/-- the cube emitted for the variable set T -/
def cubeOf (T : Nat) : Cube := ⟨BitVec.ofNat 32 T, 0⟩

theorem fromMask_pos (p : W32) : Cube.fromMask p 0 = ⟨p, 0⟩ := by
  unfold Cube.fromMask Cube.isZero
  simp

/-- a positive cube is true exactly on the supersets of its variable set -/
theorem cubeOf_value (T m : Nat) (hT : T < 2 ^ 32) (hm : m < 2 ^ 32) : (cubeOf T).value m = subB T m := by
  apply Bool.eq_iff_iff.mpr
  rw [value_iff]
  unfold Sem cubeOf subB
  simp only [decide_eq_true_eq]
  constructor
  · intro h
    apply Nat.eq_of_testBit_eq
    intro v
    rw [Nat.testBit_and]
    cases hTv : T.testBit v
    · simp
    · by_cases hv : v < 32
      · have := (h v hv).1 (by rw [BitVec.getLsbD_ofNat]; simp [hv, hTv])
        rw [abit_eq m v hv] at this
        simp [this]
      · exfalso
        have : T < 2 ^ v := Nat.lt_of_lt_of_le hT (Nat.pow_le_pow_right (by omega) (by omega))
        rw [Nat.testBit_lt_two_pow this] at hTv; cases hTv
  · intro h v hv
    constructor
    · intro hp
      rw [BitVec.getLsbD_ofNat] at hp
      have hTv : T.testBit v = true := by simpa [hv] using hp
      have := congrArg (fun x => x.testBit v) h
      simp only [Nat.testBit_and, hTv, Bool.true_and] at this
      rw [abit_eq m v hv]; exact this
    · intro hn; simp at hn

theorem esop_value_X (n : Nat) (E : List Nat) (m : Nat) :
    (⟨n, E.map cubeOf⟩ : Esop).value m = X E (fun T => (cubeOf T).value m) := by
  unfold Esop.value X
  rw [List.foldl_map]

/-- the loop invariant -/
structure Inv (n : Nat) (f : Nat → Bool) (k : Nat) (t : Array W) (E : List Nat) : Prop where
  size : t.size = tableSize n
  table : ∀ m, m < 2 ^ n → bit t m = (f m != X E (fun T => psub T m))
  bound : ∀ T ∈ E, T < k
  sorted : E.Pairwise (· < ·)
  record : ∀ m, m < k → decide (m ∈ E) = (f m != X E (fun T => psub T m))

theorem psub_lt (T m : Nat) (h : psub T m = true) : T < m := by
  unfold psub subB at h
  simp only [Bool.and_eq_true, decide_eq_true_eq, bne_iff_ne, ne_eq] at h
  have hle : T ≤ m := by rw [← h.1]; exact Nat.and_le_right
  omega

theorem inv_step (n : Nat) (hn : n ≤ 32) (f : Nat → Bool) (k : Nat) (hk : k < 2 ^ n) (t : Array W) (E : List Nat)
    (h : Inv n f k t E) :
    (bit t k = false → Inv n f (k + 1) t E) ∧
    (bit t k = true → Inv n f (k + 1) (Esop.esopToggle (2 ^ n) k t) (E ++ [k])) := by
  have hnb : 2 ^ n ≤ 64 * t.size := by
    rw [h.size]
    by_cases h6 : 6 ≤ n
    · rw [tableSize_ge6 h6]
      have : n = 6 + (n - 6) := by omega
      conv => lhs; rw [this, Nat.pow_add]
      exact Nat.le_refl _
    · rw [tableSize_le6 (by omega)]
      have : 2 ^ n ≤ 2 ^ 5 := Nat.pow_le_pow_right (by omega) (by omega)
      omega
  have h64 : 2 ^ n ≤ 2 ^ 64 := Nat.pow_le_pow_right (by omega) (by omega)
  have hkE : k ∉ E := fun hm => by have := h.bound k hm; omega
  have hnot : ∀ m, m ≤ k → psub k m = false := by
    intro m hm
    cases hp : psub k m
    · rfl
    · have := psub_lt k m hp; omega
  constructor
  · intro hb
    refine ⟨h.size, h.table, fun T hT => by have := h.bound T hT; omega, h.sorted, ?_⟩
    intro m hm
    by_cases hmk : m = k
    · subst hmk
      rw [← h.table m hk, hb]; simp [hkE]
    · exact h.record m (by omega)
  · intro hb
    have hX : ∀ m, X (E ++ [k]) (fun T => psub T m) = (X E (fun T => psub T m) != psub k m) :=
      fun m => X_append_single E k _
    refine ⟨?_, ?_, ?_, ?_, ?_⟩
    · rw [(bit_esopToggle (2 ^ n) k t hnb h64 k hk).2]; exact h.size
    · intro m hm
      rw [(bit_esopToggle (2 ^ n) k t hnb h64 m hm).1, h.table m hm, hX m]
      have : (decide (k < m) && subB k m) = psub k m := by
        unfold psub
        by_cases hlt : k < m
        · have : (k != m) = true := by simp; omega
          simp [hlt, this]
        · have hle : m ≤ k := by omega
          have := hnot m hle
          unfold psub at this
          simp [hlt, this]
      rw [this]
      cases f m <;> cases X E (fun T => psub T m) <;> cases psub k m <;> rfl
    · intro T hT
      rw [List.mem_append] at hT
      rcases hT with hT | hT
      · have := h.bound T hT; omega
      · have : T = k := by simpa using hT
        omega
    · rw [List.pairwise_append]
      refine ⟨h.sorted, by simp, ?_⟩
      intro a ha b hb'
      have : b = k := by simpa using hb'
      subst this; exact h.bound a ha
    · intro m hm
      rw [hX m, hnot m (by omega)]
      by_cases hmk : m = k
      · subst hmk
        have ht := h.table m hk
        rw [hb] at ht
        rw [Bool.bne_false, ← ht]; simp
      · have := h.record m (by omega)
        have hne : ¬ m = k := hmk
        simp only [List.mem_append, List.mem_singleton, hne, or_false, Bool.bne_false]
        exact this

/-- state of the outer loop -/
def loopState (l : Lut) (k : Nat) : Array W × List Cube :=
  (List.range k).foldl (fun (st : Array W × List Cube) i =>
    if !(getBit st.1 i) then st
    else (Esop.esopToggle (Dyn.numBits l) i st.1, st.2 ++ [Cube.fromMask (BitVec.ofNat 32 i) 0])) (l.t, [])

theorem fromLut_eq (l : Lut) : Esop.fromLut l = ⟨l.n, (loopState l (Dyn.numBits l)).2⟩ := rfl

theorem loop_inv (l : Lut) (hl : l.t.size = tableSize l.n) (hn : l.n ≤ 32) (k : Nat) (hk : k ≤ 2 ^ l.n) :
    ∃ E, (loopState l k).2 = E.map cubeOf ∧ Inv l.n (fun m => bit l.t m) k (loopState l k).1 E := by
  induction k with
  | zero =>
    refine ⟨[], rfl, ⟨hl, ?_, by simp, by simp, by intro m hm; omega⟩⟩
    intro m _
    show bit l.t m = (bit l.t m != false)
    simp
  | succ k ih =>
    obtain ⟨E, hE, hinv⟩ := ih (by omega)
    have hkk : k < 2 ^ l.n := by omega
    obtain ⟨s1, s2⟩ := inv_step l.n hn _ k hkk _ E hinv
    have hstep : loopState l (k + 1) =
        (if !(getBit (loopState l k).1 k) then loopState l k
         else (Esop.esopToggle (Dyn.numBits l) k (loopState l k).1,
               (loopState l k).2 ++ [Cube.fromMask (BitVec.ofNat 32 k) 0])) := by
      unfold loopState
      rw [List.range_succ, List.foldl_append]
      rfl
    rw [hstep, getBit_eq_bit]
    cases hb : bit (loopState l k).1 k
    · simp only [Bool.not_false, if_true]
      exact ⟨E, hE, s1 hb⟩
    · simp only [Bool.not_true, Bool.false_eq_true, if_false]
      refine ⟨E ++ [k], ?_, ?_⟩
      · rw [hE, fromMask_pos]; simp [cubeOf]
      · have : Dyn.numBits l = 2 ^ l.n := by simp [Dyn.numBits, Nat.shiftLeft_eq]
        rw [this]; exact s2 hb

/-- Main theorem: the Esop of a function has only positive cubes, in strictly increasing order
    (each once), and denotes the function. -/
theorem fromLut_spec (l : Lut) (hl : l.t.size = tableSize l.n) (hn : l.n ≤ 32) :
    ∃ E : List Nat, (Esop.fromLut l).cubes = E.map cubeOf ∧ (Esop.fromLut l).n = l.n ∧
      E.Pairwise (· < ·) ∧ (∀ T ∈ E, T < 2 ^ l.n) ∧
      ∀ m, m < 2 ^ l.n → (Esop.fromLut l).value m = l.eval m := by
  have hnb : Dyn.numBits l = 2 ^ l.n := by simp [Dyn.numBits, Nat.shiftLeft_eq]
  obtain ⟨E, hE, hinv⟩ := loop_inv l hl hn (2 ^ l.n) (Nat.le_refl _)
  rw [fromLut_eq, hnb]
  refine ⟨E, hE, rfl, hinv.sorted, hinv.bound, ?_⟩
  intro m hm
  simp only [hE]
  rw [esop_value_X]
  have h32 : 2 ^ l.n ≤ 2 ^ 32 := Nat.pow_le_pow_right (by omega) hn
  have hnod : E.Nodup := hinv.sorted.imp (fun h => Nat.ne_of_lt h)
  -- value of a cube = subset test; split into proper subsets and m itself
  have e1 : X E (fun T => (cubeOf T).value m) = X E (fun T => psub T m || (T == m)) := by
    apply X_congr
    intro T hT
    rw [cubeOf_value T m (by have := hinv.bound T hT; omega) (by omega)]
    show subB T m = (psub T m || (T == m))
    unfold psub
    by_cases hTm : T = m
    · subst hTm; simp [subB]
    · have h1 : (T != m) = true := by simp [hTm]
      have h2 : (T == m) = false := by simp [hTm]
      rw [h1, h2]; simp
  rw [e1, X_or _ _ _ (by
    intro T _ ⟨h1, h2⟩
    have : T = m := by simpa using h2
    subst this
    unfold psub at h1; simp at h1), X_eq_mem E hnod m, hinv.record m hm]
  unfold Lut.eval
  cases bit l.t m <;> cases X E (fun T => psub T m) <;> rfl

/-- converting back gives the function -/
theorem roundtrip (l : Lut) (hl : l.t.size = tableSize l.n) (hn : l.n ≤ 32) (m : Nat) (hm : m < 2 ^ l.n) :
    (Esop.fromLut l).toLut.eval m = l.eval m := by
  obtain ⟨E, _, h2, _, _, h5⟩ := fromLut_spec l hl hn
  have := tabulate_bit (Esop.fromLut l).n (Esop.fromLut l).value m (by rw [h2]; exact hm)
  unfold Esop.toLut Lut.eval
  rw [this.1]; exact h5 m hm

/-! ## operators -/

theorem esop_value_xor_fold (cs : List Cube) (m : Nat) (init : Bool) :
    cs.foldl (fun ret c => ret != c.value m) init = (init != cs.foldl (fun ret c => ret != c.value m) false) := by
  induction cs generalizing init with
  | nil => simp
  | cons a cs ih =>
    simp only [List.foldl_cons]
    rw [ih, ih (false != a.value m)]
    cases init <;> cases a.value m <;> cases cs.foldl (fun ret c => ret != c.value m) false <;> rfl

/-- `^` denotes XOR -/
theorem xor_spec (a b r : Esop) (h : Esop.xor a b = some r) (m : Nat) :
    r.value m = (a.value m != b.value m) ∧ r.n = a.n := by
  unfold Esop.xor at h
  split at h
  · cases h
  · cases h
    refine ⟨?_, rfl⟩
    unfold Esop.value
    simp only [List.foldl_append]
    rw [esop_value_xor_fold]

/-- `!` denotes the complement (append the constant-one cube) -/
theorem not_spec (s : Esop) (m : Nat) : (Esop.not s).value m = !s.value m := by
  unfold Esop.not Esop.value
  simp only [List.foldl_append, List.foldl_cons, List.foldl_nil]
  have : Cube.one.value m = true := by
    rw [value_iff]; intro v hv; simp [Cube.one]
  rw [this]
  cases s.cubes.foldl (fun ret c => ret != c.value m) false <;> rfl

/-- is_zero / is_one hold only for the respective constants -/
theorem isZero_sound (s : Esop) (h : s.isZero = true) (m : Nat) : s.value m = false := by
  have : s.cubes = [] := by simpa [Esop.isZero] using h
  simp [Esop.value, this]

theorem isOne_sound (s : Esop) (h : s.isOne = true) (m : Nat) : s.value m = true := by
  unfold Esop.isOne at h
  match hc : s.cubes with
  | [] => rw [hc] at h; simp at h
  | [c] =>
    rw [hc] at h
    simp only [List.length_cons, List.length_nil, List.head?_cons] at h
    have hone : c.isOne = true := by simpa using h
    unfold Esop.value
    rw [hc]
    have : c.value m = true := by
      unfold Cube.isOne at hone
      have h' : c.pos = 0 ∧ c.neg = 0 := by simpa using hone
      rw [value_iff]; intro v hv
      rw [h'.1, h'.2]; simp
    simp [this]
  | _ :: _ :: _ => rw [hc] at h; simp at h

/-- non-vacuity: the Reed-Muller form of majority-3 is x0x1 ^ x0x2 ^ x1x2 -/
example : Esop.fromLut ⟨3, #[0xe8#64]⟩ = ⟨3, [cubeOf 3, cubeOf 5, cubeOf 6]⟩ := by decide +kernel

/-! ## canonicity: a function has exactly one duplicate-free set of positive cubes -/

theorem sub_le (S a : Nat) (h : subB S a = true) : S ≤ a := by
  unfold subB at h
  have h' : S &&& a = S := by simpa using h
  rw [← h']
  exact Nat.and_le_right

/-- no cube of a list of larger indices is contained in `a` -/
theorem X_above (L : List Nat) (a : Nat) (h : ∀ S ∈ L, a < S) : X L (fun S => subB S a) = false := by
  induction L with
  | nil => rfl
  | cons s L ih =>
    rw [X_cons, ih (fun S hS => h S (by simp [hS]))]
    have : subB s a = false := by
      cases hb : subB s a
      · rfl
      · have := sub_le s a hb
        have := h s (by simp)
        omega
    rw [this]; rfl

theorem subB_self (a : Nat) : subB a a = true := by simp [subB]

/-- two strictly increasing lists of positive cubes with the same XOR on every assignment below
    2^n are the same list -/
theorem positive_esop_unique (n : Nat) (E E' : List Nat) (hs : E.Pairwise (· < ·)) (hs' : E'.Pairwise (· < ·))
    (hb : ∀ T ∈ E, T < 2 ^ n) (hb' : ∀ T ∈ E', T < 2 ^ n)
    (h : ∀ m, m < 2 ^ n → X E (fun S => subB S m) = X E' (fun S => subB S m)) : E = E' := by
  induction E generalizing E' with
  | nil =>
    cases E' with
    | nil => rfl
    | cons b E1' =>
      exfalso
      have := h b (hb' b (by simp))
      rw [X_cons, subB_self, X_above E1' b (fun S hS => List.rel_of_pairwise_cons hs' hS)] at this
      cases this
  | cons a E1 ih =>
    cases E' with
    | nil =>
      exfalso
      have := h a (hb a (by simp))
      rw [X_cons, subB_self, X_above E1 a (fun S hS => List.rel_of_pairwise_cons hs hS)] at this
      cases this
    | cons b E1' =>
      have ha : ∀ S, S ∈ E1 → a < S := fun S hS => List.rel_of_pairwise_cons hs hS
      have hb1 : ∀ S, S ∈ E1' → b < S := fun S hS => List.rel_of_pairwise_cons hs' hS
      have hab : a = b := by
        rcases Nat.lt_trichotomy a b with hlt | heq | hgt
        · exfalso
          have := h a (hb a (by simp))
          rw [X_cons, subB_self, X_above E1 a ha,
            X_above (b :: E1') a (by
              intro S hS
              rcases List.mem_cons.mp hS with rfl | hS
              · exact hlt
              · exact Nat.lt_trans hlt (hb1 S hS))] at this
          cases this
        · exact heq
        · exfalso
          have := h b (hb' b (by simp))
          rw [X_cons (a := b), subB_self, X_above E1' b hb1,
            X_above (a :: E1) b (by
              intro S hS
              rcases List.mem_cons.mp hS with rfl | hS
              · exact hgt
              · exact Nat.lt_trans hgt (ha S hS))] at this
          cases this
      subst hab
      congr 1
      apply ih E1' (List.Pairwise.of_cons hs) (List.Pairwise.of_cons hs')
        (fun T hT => hb T (by simp [hT])) (fun T hT => hb' T (by simp [hT]))
      intro m hm
      have := h m hm
      rw [X_cons, X_cons] at this
      cases h1 : X E1 (fun S => subB S m) <;> cases h2 : X E1' (fun S => subB S m) <;> simp_all

/-- **equal functions give equal Esops**: the conversion depends only on the function -/
theorem fromLut_canonical (l1 l2 : Lut) (hn : l1.n = l2.n) (h1 : l1.t.size = tableSize l1.n)
    (h2 : l2.t.size = tableSize l2.n) (h32 : l1.n ≤ 32)
    (heq : ∀ m, m < 2 ^ l1.n → l1.eval m = l2.eval m) : Esop.fromLut l1 = Esop.fromLut l2 := by
  obtain ⟨E1, c1, n1, s1, b1, v1⟩ := fromLut_spec l1 h1 h32
  obtain ⟨E2, c2, n2, s2, b2, v2⟩ := fromLut_spec l2 h2 (by omega)
  have hp : 2 ^ l1.n ≤ 2 ^ 32 := Nat.pow_le_pow_right (by omega) h32
  have key : E1 = E2 := by
    apply positive_esop_unique l1.n E1 E2 s1 s2 b1 (by rw [hn]; exact b2)
    intro m hm
    have a := v1 m hm
    have b := v2 m (by rw [← hn]; exact hm)
    have e1 : (Esop.fromLut l1).value m = X E1 (fun S => subB S m) := by
      have : Esop.fromLut l1 = ⟨(Esop.fromLut l1).n, E1.map cubeOf⟩ := by rw [← c1]
      rw [this, esop_value_X]
      apply X_congr
      intro T hT
      exact cubeOf_value T m (by have := b1 T hT; omega) (by omega)
    have e2 : (Esop.fromLut l2).value m = X E2 (fun S => subB S m) := by
      have : Esop.fromLut l2 = ⟨(Esop.fromLut l2).n, E2.map cubeOf⟩ := by rw [← c2]
      rw [this, esop_value_X]
      apply X_congr
      intro T hT
      exact cubeOf_value T m (by have := b2 T hT; rw [← hn] at this; omega) (by omega)
    rw [← e1, ← e2, a, b, heq m hm]
  have : ∀ e e' : Esop, e.n = e'.n → e.cubes = e'.cubes → e = e' := by
    intro e e' ha hb; cases e; cases e'; simp_all
  exact this _ _ (by rw [n1, n2, hn]) (by rw [c1, c2, key])

/-! ## the closed form: the emitted cubes are the monomials of the algebraic normal form -/

/-- the subsets of m among the variables 0..i-1 (as numbers), m's own low part last -/
def subs : Nat → Nat → List Nat
  | 0, _ => [0]
  | i + 1, m => if m.testBit i then subs i m ++ (subs i m).map (· + 2 ^ i) else subs i m

/-- XOR of a Boolean function over a list of indices (`X` with the function as predicate) -/
theorem X_append (A B : List Nat) (P : Nat → Bool) : X (A ++ B) P = (X A P != X B P) := by
  induction A with
  | nil => simp [X]
  | cons a A ih =>
    rw [List.cons_append, X_cons, X_cons, ih]
    cases P a <;> cases X A P <;> cases X B P <;> rfl

theorem X_map (A : List Nat) (g : Nat → Nat) (P : Nat → Bool) : X (A.map g) P = X A (fun T => P (g T)) := by
  induction A with
  | nil => rfl
  | cons a A ih => rw [List.map_cons, X_cons, X_cons, ih]

theorem X_xor (A : List Nat) (P Q : Nat → Bool) : X A (fun T => P T != Q T) = (X A P != X A Q) := by
  induction A with
  | nil => rfl
  | cons a A ih =>
    rw [X_cons, X_cons, X_cons, ih]
    cases P a <;> cases Q a <;> cases X A P <;> cases X A Q <;> rfl

theorem subs_lt (i m : Nat) : ∀ T ∈ subs i m, T < 2 ^ i := by
  induction i with
  | zero => intro T hT; simp [subs] at hT; omega
  | succ i ih =>
    intro T hT
    simp only [subs] at hT
    have hp : 2 ^ (i + 1) = 2 ^ i + 2 ^ i := by rw [Nat.pow_succ]; omega
    split at hT
    · rcases List.mem_append.mp hT with h | h
      · have := ih T h; omega
      · obtain ⟨T', hT', rfl⟩ := List.mem_map.mp h
        have := ih T' hT'; omega
    · have := ih T hT; omega

/-- the ANF coefficient of the monomial T: XOR of f over the assignments contained in T -/
def anf (n : Nat) (f : Nat → Bool) (T : Nat) : Bool := X (subs n T) f

/-- `subs` only looks at the bits below i -/
theorem subs_congr (i m m' : Nat) (h : ∀ k, k < i → m.testBit k = m'.testBit k) : subs i m = subs i m' := by
  induction i with
  | zero => rfl
  | succ i ih =>
    simp only [subs]
    rw [h i (by omega), ih (fun k hk => h k (by omega))]

theorem testBit_add_pow_low (T i k : Nat) (hT : T < 2 ^ i) (hk : k < i) : (T + 2 ^ i).testBit k = T.testBit k := by
  rw [Nat.add_comm, Nat.testBit_two_pow_add_gt hk]

theorem testBit_add_pow_self (T i : Nat) (hT : T < 2 ^ i) : (T + 2 ^ i).testBit i = true := by
  rw [Nat.add_comm, Nat.testBit_two_pow_add_eq]
  simp [Nat.testBit_lt_two_pow hT]

/-- Moebius inversion over GF(2), by induction on the number of variables: the XOR over the
    subsets T of m of the coefficients is f m -/
theorem mobius (i : Nat) (f : Nat → Bool) (m : Nat) (hm : m < 2 ^ i) :
    X (subs i m) (fun T => X (subs i T) f) = f m := by
  induction i generalizing f m with
  | zero =>
    have : m = 0 := by omega
    subst this
    simp [subs, X]
  | succ i ih =>
    have hp : 2 ^ (i + 1) = 2 ^ i + 2 ^ i := by rw [Nat.pow_succ]; omega
    by_cases hb : m.testBit i = true
    · -- m = m' + 2^i
      have hge : 2 ^ i ≤ m := Nat.ge_two_pow_of_testBit hb
      have hm' : m - 2 ^ i < 2 ^ i := by omega
      have hmm : m = (m - 2 ^ i) + 2 ^ i := by omega
      have hsub : subs i m = subs i (m - 2 ^ i) := by
        apply subs_congr
        intro k hk
        have := testBit_add_pow_low (m - 2 ^ i) i k hm' hk
        rw [← hmm] at this
        exact this
      simp only [subs, hb, if_true]
      rw [X_append, X_map]
      -- low part: T < 2^i has bit i clear
      have low : X (subs i m) (fun T => X (if T.testBit i then subs i T ++ (subs i T).map (· + 2 ^ i) else subs i T) f) =
          X (subs i m) (fun T => X (subs i T) f) := by
        apply X_congr
        intro T hT
        have := subs_lt i m T hT
        rw [Nat.testBit_lt_two_pow this]
        simp
      have high : X (subs i m) (fun T => X (if (T + 2 ^ i).testBit i then subs i (T + 2 ^ i) ++ (subs i (T + 2 ^ i)).map (· + 2 ^ i)
            else subs i (T + 2 ^ i)) f) =
          X (subs i m) (fun T => X (subs i T) f != X (subs i T) (fun k => f (k + 2 ^ i))) := by
        apply X_congr
        intro T hT
        have hlt := subs_lt i m T hT
        rw [testBit_add_pow_self T i hlt]
        simp only [if_true]
        have : subs i (T + 2 ^ i) = subs i T := by
          apply subs_congr
          intro k hk
          exact testBit_add_pow_low T i k hlt hk
        rw [this, X_append, X_map]
      rw [low, high, X_xor]
      rw [hsub, ih (fun k => f (k + 2 ^ i)) (m - 2 ^ i) hm']
      have : m - 2 ^ i + 2 ^ i = m := by omega
      rw [this]
      cases X (subs i (m - 2 ^ i)) (fun T => X (subs i T) f) <;> cases f m <;> rfl
    · have hb' : m.testBit i = false := by simpa using hb
      have hlt : m < 2 ^ i := by
        apply Nat.lt_pow_two_of_testBit
        intro k hk
        by_cases hki : k = i
        · subst hki; exact hb'
        · exact Nat.testBit_lt_two_pow (Nat.lt_of_lt_of_le hm (Nat.pow_le_pow_right (by omega) (by omega)))
      simp only [subs, hb', Bool.false_eq_true, if_false]
      have low : X (subs i m) (fun T => X (if T.testBit i then subs i T ++ (subs i T).map (· + 2 ^ i) else subs i T) f) =
          X (subs i m) (fun T => X (subs i T) f) := by
        apply X_congr
        intro T hT
        have := subs_lt i m T hT
        rw [Nat.testBit_lt_two_pow this]
        simp
      rw [low]
      exact ih f m hlt

/-! ## membership in `subs`, and the set of ANF monomials as a list -/

theorem mem_subs (i m T : Nat) : T ∈ subs i m ↔ T < 2 ^ i ∧ ∀ k, k < i → T.testBit k = true → m.testBit k = true := by
  induction i generalizing T with
  | zero =>
    simp only [subs, List.mem_singleton, Nat.pow_zero]
    constructor
    · rintro rfl; exact ⟨by omega, fun k hk => by omega⟩
    · rintro ⟨h, _⟩; omega
  | succ i ih =>
    have hp : 2 ^ (i + 1) = 2 ^ i + 2 ^ i := by rw [Nat.pow_succ]; omega
    simp only [subs]
    by_cases hb : m.testBit i = true
    · simp only [hb, if_true, List.mem_append, List.mem_map]
      constructor
      · rintro (h | ⟨T', hT', rfl⟩)
        · obtain ⟨h1, h2⟩ := (ih T).mp h
          refine ⟨by omega, ?_⟩
          intro k hk hbit
          by_cases hki : k = i
          · subst hki; exact hb
          · exact h2 k (by omega) hbit
        · obtain ⟨h1, h2⟩ := (ih T').mp hT'
          refine ⟨by omega, ?_⟩
          intro k hk hbit
          by_cases hki : k = i
          · subst hki; exact hb
          · rw [testBit_add_pow_low T' i k h1 (by omega)] at hbit
            exact h2 k (by omega) hbit
      · rintro ⟨h1, h2⟩
        by_cases hTi : T.testBit i = true
        · right
          have hge : 2 ^ i ≤ T := Nat.ge_two_pow_of_testBit hTi
          have hlt' : T - 2 ^ i < 2 ^ i := by omega
          refine ⟨T - 2 ^ i, (ih (T - 2 ^ i)).mpr ⟨hlt', ?_⟩, by omega⟩
          intro k hk hbit
          have := testBit_add_pow_low (T - 2 ^ i) i k hlt' hk
          rw [show T - 2 ^ i + 2 ^ i = T by omega] at this
          rw [← this] at hbit
          exact h2 k (by omega) hbit
        · left
          have hTi' : T.testBit i = false := by simpa using hTi
          have hlt : T < 2 ^ i := by
            apply Nat.lt_pow_two_of_testBit
            intro k hk
            by_cases hki : k = i
            · subst hki; exact hTi'
            · exact Nat.testBit_lt_two_pow (Nat.lt_of_lt_of_le h1 (Nat.pow_le_pow_right (by omega) (by omega)))
          exact (ih T).mpr ⟨hlt, fun k hk hbit => h2 k (by omega) hbit⟩
    · have hb' : m.testBit i = false := by simpa using hb
      simp only [hb', Bool.false_eq_true, if_false]
      constructor
      · intro h
        obtain ⟨h1, h2⟩ := (ih T).mp h
        refine ⟨by omega, ?_⟩
        intro k hk hbit
        by_cases hki : k = i
        · subst hki
          rw [Nat.testBit_lt_two_pow h1] at hbit; cases hbit
        · exact h2 k (by omega) hbit
      · rintro ⟨h1, h2⟩
        have hTi' : T.testBit i = false := by
          cases hq : T.testBit i
          · rfl
          · have := h2 i (by omega) hq
            rw [hb'] at this; cases this
        have hlt : T < 2 ^ i := by
          apply Nat.lt_pow_two_of_testBit
          intro k hk
          by_cases hki : k = i
          · subst hki; exact hTi'
          · exact Nat.testBit_lt_two_pow (Nat.lt_of_lt_of_le h1 (Nat.pow_le_pow_right (by omega) (by omega)))
        exact (ih T).mpr ⟨hlt, fun k hk hbit => h2 k (by omega) hbit⟩

theorem subs_nodup (i m : Nat) : (subs i m).Nodup := by
  induction i with
  | zero => simp [subs]
  | succ i ih =>
    simp only [subs]
    split
    · rw [List.nodup_append]
      refine ⟨ih, ?_, ?_⟩
      · unfold List.Nodup
        rw [List.pairwise_map]
        exact ih.imp (fun hne e => hne (by omega))
      · intro a ha b hb
        obtain ⟨b', hb', rfl⟩ := List.mem_map.mp hb
        have := subs_lt i m a ha
        omega
    · exact ih

theorem subB_iff_bits (T m : Nat) : subB T m = true ↔ ∀ k, T.testBit k = true → m.testBit k = true := by
  unfold subB
  simp only [decide_eq_true_eq]
  constructor
  · intro h k hk
    have := congrArg (fun v => v.testBit k) h
    simp only [Nat.testBit_and, hk, Bool.true_and] at this
    exact this
  · intro h
    apply Nat.eq_of_testBit_eq
    intro k
    rw [Nat.testBit_and]
    cases hk : T.testBit k
    · rfl
    · simp [h k hk]

theorem X_perm (A B : List Nat) (P : Nat → Bool) (h : A.Perm B) : X A P = X B P := by
  induction h with
  | nil => rfl
  | cons a _ ih => rw [X_cons, X_cons, ih]
  | swap a b l =>
    rw [X_cons, X_cons, X_cons, X_cons]
    cases P a <;> cases P b <;> cases X l P <;> rfl
  | trans _ _ ih1 ih2 => rw [ih1, ih2]

theorem X_filter (A : List Nat) (q P : Nat → Bool) : X (A.filter q) P = X A (fun T => q T && P T) := by
  induction A with
  | nil => rfl
  | cons a A ih =>
    rw [List.filter_cons]
    by_cases hq : q a = true
    · rw [if_pos hq, X_cons, X_cons, ih, hq]; simp
    · have hq' : q a = false := by simpa using hq
      rw [if_neg hq, X_cons, ih, hq']; simp

/-- XOR over the numbers below 2^n that are subsets of m = XOR over `subs n m` -/
theorem X_range_subs (n m : Nat) (hm : m < 2 ^ n) (g : Nat → Bool) :
    X (List.range (2 ^ n)) (fun T => subB T m && g T) = X (subs n m) g := by
  rw [← X_filter]
  apply X_perm
  rw [List.perm_ext_iff_of_nodup (List.nodup_range.filter _) (subs_nodup n m)]
  intro T
  rw [List.mem_filter, List.mem_range, mem_subs, subB_iff_bits]
  constructor
  · rintro ⟨h1, h2⟩; exact ⟨h1, fun k _ hk => h2 k hk⟩
  · rintro ⟨h1, h2⟩
    refine ⟨h1, ?_⟩
    intro k hk
    by_cases hkn : k < n
    · exact h2 k hkn hk
    · rw [Nat.testBit_lt_two_pow (Nat.lt_of_lt_of_le h1 (Nat.pow_le_pow_right (by omega) (by omega)))] at hk
      cases hk

/-- the monomials of the algebraic normal form of f, in increasing order -/
def anfList (n : Nat) (f : Nat → Bool) : List Nat := (List.range (2 ^ n)).filter (anf n f)

theorem anfList_sorted (n : Nat) (f : Nat → Bool) : (anfList n f).Pairwise (· < ·) :=
  (List.pairwise_lt_range).filter _

theorem anfList_lt (n : Nat) (f : Nat → Bool) : ∀ T ∈ anfList n f, T < 2 ^ n := by
  intro T hT
  exact List.mem_range.mp (List.mem_filter.mp hT).1

/-- the ANF monomials XOR to f (Moebius inversion) -/
theorem anfList_value (n : Nat) (f : Nat → Bool) (m : Nat) (hm : m < 2 ^ n) :
    X (anfList n f) (fun S => subB S m) = f m := by
  unfold anfList
  rw [X_filter]
  have : (fun T => anf n f T && subB T m) = (fun T => subB T m && anf n f T) := by
    funext T; exact Bool.and_comm _ _
  rw [this, X_range_subs n m hm (anf n f)]
  exact mobius n f m hm

/-- **C15, exactness**: the cubes emitted by the conversion are exactly the positive cubes of
    the monomials S whose ANF coefficient - the XOR of f over the assignments contained in S -
    is 1, each once, in increasing order of S -/
theorem fromLut_anf (l : Lut) (hl : l.t.size = tableSize l.n) (h32 : l.n ≤ 32) :
    (Esop.fromLut l).cubes = (anfList l.n (fun m => l.eval m)).map cubeOf ∧ (Esop.fromLut l).n = l.n := by
  obtain ⟨E, c1, n1, s1, b1, v1⟩ := fromLut_spec l hl h32
  have hp : 2 ^ l.n ≤ 2 ^ 32 := Nat.pow_le_pow_right (by omega) h32
  have key : E = anfList l.n (fun m => l.eval m) := by
    apply positive_esop_unique l.n E _ s1 (anfList_sorted _ _) b1 (anfList_lt _ _)
    intro m hm
    rw [anfList_value l.n _ m hm, ← v1 m hm]
    have : Esop.fromLut l = ⟨(Esop.fromLut l).n, E.map cubeOf⟩ := by rw [← c1]
    rw [this, esop_value_X]
    apply X_congr
    intro T hT
    exact (cubeOf_value T m (by have := b1 T hT; omega) (by omega)).symm
  exact ⟨by rw [c1, key], n1⟩


/-! ## expressions nesting any number of `^` and `!` -/

inductive EExpr where
  | leaf (s : Esop)
  | xor (a b : EExpr)
  | not (a : EExpr)

def EExpr.eval : EExpr → Option Esop
  | .leaf s => some s
  | .xor a b => match a.eval, b.eval with
    | some x, some y => Esop.xor x y
    | _, _ => none
  | .not a => a.eval.map Esop.not

def EExpr.den : EExpr → Nat → Bool
  | .leaf s, m => s.value m
  | .xor a b, m => a.den m != b.den m
  | .not a, m => !a.den m

/-- the value of the result of an expression of any depth is the XOR / complement expression of
the values of its leaves, whatever cubes (repeated or not) the leaves were built from -/
theorem expr_value (e : EExpr) (r : Esop) (h : e.eval = some r) : ∀ m, r.value m = e.den m := by
  induction e generalizing r with
  | leaf s => intro m; simp only [EExpr.eval, Option.some.injEq] at h; subst h; rfl
  | xor a b iha ihb =>
    simp only [EExpr.eval] at h
    split at h
    · rename_i x y hx hy
      intro m
      rw [(xor_spec x y r h m).1, iha x hx m, ihb y hy m]; rfl
    · cases h
  | not a iha =>
    simp only [EExpr.eval, Option.map_eq_some_iff] at h
    obtain ⟨x, hx, rfl⟩ := h
    intro m
    rw [not_spec, iha x hx m]; rfl

example : ((EExpr.not (.xor (.leaf ⟨2, [⟨1, 0⟩, ⟨1, 0⟩]⟩) (.leaf ⟨2, [⟨0, 0⟩, ⟨3, 0⟩]⟩))).eval).isSome = true := by
  simp [EExpr.eval, Esop.xor]


end VoluteModel.Props.C15

import VoluteModel.Props.C05

/-!
# C04 - P/N/NPN canonization returns the orbit minimum (stage 1)

Proved here for every function of n <= 7 variables:
 * the three canonizations terminate normally (never `none` = panic), including n = 0, 1;
 * the representative is one of the tables visited by the walk, each visited table is the image
   of the input under the group element recorded by the certificate (C05), and no visited table
   is smaller than the representative in the library's own order (which is the numeric order, C08);
 * the walk is closed (it ends on the input), so the input itself is among the visited tables.
`orbit_min_partial` is the statement "minimum over the visited group elements".
TARGET (stage 2): "the visited certificates are ALL n!, 2^(n+1), n!*2^(n+1) group elements"
(Hamiltonicity of the sequences, by kernel evaluation + counting), which turns the partial
statement into the full orbit minimum.  Until then the coverage of the group is checked on the
real sequences by the oracle (`canonseq`) and on the results by independent orbit enumeration.
-/

namespace VoluteModel.Props.C04
open VoluteModel VoluteModel.Props.C05

/-- the library's order on tables of one size is the numeric order (C08), so "not less" is ">=" -/
theorem ltT_false_iff (a b : Array W) (h : a.size = b.size) :
    ltT a b = false ↔ toNatLE b.toList ≤ toNatLE a.toList := by
  unfold ltT
  rw [cmpTables_eq a b h]
  constructor
  · intro hlt
    rcases Nat.lt_or_ge (toNatLE a.toList) (toNatLE b.toList) with hl | hl
    · rw [Nat.compare_eq_lt.mpr hl] at hlt; simp at hlt
    · exact hl
  · intro hle
    rcases Nat.lt_or_ge (toNatLE b.toList) (toNatLE a.toList) with hl | hl
    · rw [Nat.compare_eq_gt.mpr hl]; rfl
    · have : toNatLE a.toList = toNatLE b.toList := by omega
      rw [Nat.compare_eq_eq.mpr this]; rfl

/-- no panic: P, N and NPN canonization return normally for every function of 0..7 variables -/
theorem no_panic (n : Nat) (h7 : n ≤ 7) (f : Array W) (hf : WF n f) :
    (pCanonization n f).isSome = true ∧ (nCanonization n f).isSome = true ∧ (npnCanonization n f).isSome = true := by
  have hp : (pCanonization n f).isSome = true := by
    by_cases h2 : 2 ≤ n
    · obtain ⟨c, perm, h, _⟩ := p_certificate n h2 h7 f hf; rw [h]; rfl
    · rw [(p_small n (by omega) f).1]; rfl
  have hn : (nCanonization n f).isSome = true := by
    by_cases h1 : 1 ≤ n
    · obtain ⟨c, mask, h, _⟩ := n_certificate n h1 h7 f hf; rw [h]; rfl
    · have h0 : n = 0 := by omega
      subst h0
      obtain ⟨c, mask, h, _⟩ := n_zero f hf; rw [h]; rfl
  refine ⟨hp, hn, ?_⟩
  by_cases h2 : 2 ≤ n
  · obtain ⟨c, perm, mask, h, _⟩ := npn_certificate n h2 h7 f hf; rw [h]; rfl
  · rw [npn_small n (by omega) f]
    cases hx : nCanonization n f with
    | none => rw [hx] at hn; cases hn
    | some r => rfl

/-- minimum over the visited group elements (partial form of the orbit minimum):
    for every macro-step index j the table reached there - the image of f under the certificate
    `certAt j` - is numerically >= the representative, and the representative is such a table -/
theorem orbit_min_partial (n : Nat) (f c : Array W) (perm : Array Nat) (mask : Nat) (ms : List (List Elem))
    (hs : f.size = tableSize n) (r : Result n f c perm mask ms) :
    (∃ k, k ≤ ms.length ∧ c = stateAt (applyElems n) f ms k) ∧
    ∀ j, j ≤ ms.length →
      CertRel n f (stateAt (applyElems n) f ms j) (certAt n ms j).1 (certAt n ms j).2 ∧
      toNatLE c.toList ≤ toNatLE (stateAt (applyElems n) f ms j).toList := by
  obtain ⟨k, rk⟩ := r
  refine ⟨⟨k, rk.k_le, rk.table⟩, ?_⟩
  intro j hj
  refine ⟨rk.rels j hj, ?_⟩
  have hsz : (stateAt (applyElems n) f ms j).size = c.size := by
    rw [rk.table, stateAt_flatten, stateAt_flatten, applyElems_size, applyElems_size]
  exact (ltT_false_iff _ _ hsz).mp (rk.minimal j hj)

/-- the input itself is visited (index 0), so the representative is <= the input -/
theorem le_input (n : Nat) (f c : Array W) (perm : Array Nat) (mask : Nat) (ms : List (List Elem))
    (hs : f.size = tableSize n) (r : Result n f c perm mask ms) : toNatLE c.toList ≤ toNatLE f.toList := by
  have := (orbit_min_partial n f c perm mask ms hs r).2 0 (Nat.zero_le _)
  simpa [stateAt] using this.2

/-- NPN, all together for n = 2..7 -/
theorem npn_partial (n : Nat) (h2 : 2 ≤ n) (h7 : n ≤ 7) (f : Array W) (hf : WF n f) :
    ∃ c perm mask sw fl, npnCanonization n f = some (c, perm, mask) ∧ swapsFor n = some sw ∧ flipsFor n = some fl ∧
      Result n f c perm mask (macroNPN sw fl) := by
  obtain ⟨sw, hsw, hs⟩ := swapsFor_facts n h2 h7
  obtain ⟨fl, hfl', hfl⟩ := flipsFor_facts n (by omega) h7
  obtain ⟨c, perm, mask, h, r⟩ := npn_result n f hf h2 sw fl hsw hfl' hs hfl
  exact ⟨c, perm, mask, sw, fl, h, hsw, hfl', r⟩

/-- non-vacuity -/
example : npnCanonization 3 #[0xe8#64] = some (#[0x17#64], #[1, 0, 2], 7) := by decide +kernel

end VoluteModel.Props.C04

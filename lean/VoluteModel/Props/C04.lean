import VoluteModel.Props.C05
import VoluteModel.Lemmas.Cover
import VoluteModel.Lemmas.Group

/-!
# C04 - P/N/NPN canonization returns the orbit minimum

Proved for every n (the property quantifies over n <= 8): P for every n, N and NPN for every
n <= 64 (the width of `trailing_zeros` in the Gray-flip generator).  The run-time generators of
the flip and swap sequences are PROVED to be closed Hamiltonian walks for every n
(`Lemmas/Gray.lean`, `Lemmas/Sjt.lean`); only the constant tables of the source (n <= 6) are
evaluated in the kernel:
 * the three canonizations terminate normally (never `none` = panic), including n = 0, 1;
 * `p_orbit_min`, `n_orbit_min`, `npn_orbit_min`: the representative is the image of f under the
   returned certificate (so it is in the orbit), and it is numerically <= the image of f under
   EVERY element of the group - every permutation of the inputs (P), every complementation mask
   of n+1 bits (N), every pair (NPN).  "Image of f under (perm, mask)" is the relation `CertRel`
   of C05; a certificate determines the table (`cert_unique`).
   The proof: minimum over the visited group elements (`orbit_min_partial`, from the walk
   invariant) + coverage (`Lemmas/Cover.lean`): the walk visits every group element, because the
   permutations / masks before each step are pairwise distinct and there are n! / 2^n of them
   (kernel-evaluated on the tables, proved for the generators), and a duplicate-free list of n! permutations of
   0..n-1 contains them all (`Lemmas/Count.lean`, the one place where a Mathlib module is used).
 * `*_unique`: the representative is the only minimum, hence the same for any two functions with
   the same orbit, and canonizing a representative returns it.
The library's order is the numeric order of the table value (C08), `toNatLE`.
-/

namespace VoluteModel.Props.C04
open VoluteModel VoluteModel.Props.C05

/-- the library's order on tables of one size is the numeric order (C08), so "not less" is ">=" -/
theorem ltT_false_iff (a b : Array W) (h : a.size = b.size) :
    ltT a b = false ↔ toNatLE b.toList ≤ toNatLE a.toList := by
  unfold ltT
  rw [cmpTables_eq a b h]
  constructor
  · intro hlt
    rcases Nat.lt_or_ge (toNatLE a.toList) (toNatLE b.toList) with hl | hl
    · rw [Nat.compare_eq_lt.mpr hl] at hlt; simp at hlt
    · exact hl
  · intro hle
    rcases Nat.lt_or_ge (toNatLE b.toList) (toNatLE a.toList) with hl | hl
    · rw [Nat.compare_eq_gt.mpr hl]; rfl
    · have : toNatLE a.toList = toNatLE b.toList := by omega
      rw [Nat.compare_eq_eq.mpr this]; rfl

/-- no panic: P, N and NPN canonization return normally for every function of 0..8 variables -/
theorem no_panic (n : Nat) (h64 : n ≤ 64) (f : Array W) (hf : WF n f) :
    (pCanonization n f).isSome = true ∧ (nCanonization n f).isSome = true ∧ (npnCanonization n f).isSome = true := by
  have hp : (pCanonization n f).isSome = true := by
    by_cases h2 : 2 ≤ n
    · obtain ⟨c, perm, h, _⟩ := p_certificate n h2 f hf; rw [h]; rfl
    · rw [(p_small n (by omega) f).1]; rfl
  have hn : (nCanonization n f).isSome = true := by
    by_cases h1 : 1 ≤ n
    · obtain ⟨c, mask, h, _⟩ := n_certificate n h1 (by omega) f hf; rw [h]; rfl
    · have h0 : n = 0 := by omega
      subst h0
      obtain ⟨c, mask, h, _⟩ := n_zero f hf; rw [h]; rfl
  refine ⟨hp, hn, ?_⟩
  by_cases h2 : 2 ≤ n
  · obtain ⟨c, perm, mask, h, _⟩ := npn_certificate n h2 h64 f hf; rw [h]; rfl
  · rw [npn_small n (by omega) f]
    cases hx : nCanonization n f with
    | none => rw [hx] at hn; cases hn
    | some r => rfl

/-- minimum over the visited group elements: for every macro-step index j the table reached
    there - the image of f under the certificate `certAt j` - is numerically >= the
    representative, and the representative is such a table -/
theorem orbit_min_partial (n : Nat) (f c : Array W) (perm : Array Nat) (mask : Nat) (ms : List (List Elem))
    (hs : f.size = tableSize n) (r : Result n f c perm mask ms) :
    (∃ k, k ≤ ms.length ∧ c = stateAt (applyElems n) f ms k) ∧
    ∀ j, j ≤ ms.length →
      CertRel n f (stateAt (applyElems n) f ms j) (certAt n ms j).1 (certAt n ms j).2 ∧
      toNatLE c.toList ≤ toNatLE (stateAt (applyElems n) f ms j).toList := by
  obtain ⟨k, rk⟩ := r
  refine ⟨⟨k, rk.k_le, rk.table⟩, ?_⟩
  intro j hj
  refine ⟨rk.rels j hj, ?_⟩
  have hsz : (stateAt (applyElems n) f ms j).size = c.size := by
    rw [rk.table, stateAt_flatten, stateAt_flatten, applyElems_size, applyElems_size]
  exact (ltT_false_iff _ _ hsz).mp (rk.minimal j hj)

/-- the input itself is visited (index 0), so the representative is <= the input -/
theorem le_input (n : Nat) (f c : Array W) (perm : Array Nat) (mask : Nat) (ms : List (List Elem))
    (hs : f.size = tableSize n) (r : Result n f c perm mask ms) : toNatLE c.toList ≤ toNatLE f.toList := by
  have := (orbit_min_partial n f c perm mask ms hs r).2 0 (Nat.zero_le _)
  simpa [stateAt] using this.2

/-- every visited table is well formed -/
theorem stateAt_WF (n : Nat) (f : Array W) (hf : WF n f) (ms : List (List Elem))
    (hsafe : Safe n (Array.range n, 0) ms.flatten) (j : Nat) : WF n (stateAt (applyElems n) f ms j) := by
  rw [stateAt_flatten]
  exact applyElems_WF n f hf _ (safe_valid n _ _ (Safe_prefix n _ ms j hsafe))

/-- from "the walk reaches the certificate (sigma, mu)" to "the representative is <= the image of f
    under (sigma, mu)" -/
theorem min_of_cover (n : Nat) (f c : Array W) (perm : Array Nat) (mask : Nat) (ms : List (List Elem))
    (hf : WF n f) (hsafe : Safe n (Array.range n, 0) ms.flatten) (r : Result n f c perm mask ms)
    (σ : Array Nat) (μ : Nat) (hσ : IsPerm n σ) (hcov : ∃ j, j ≤ ms.length ∧ certAt n ms j = (σ, μ))
    (t : Array W) (ht : WF n t) (hrel : CertRel n f t σ μ) : toNatLE c.toList ≤ toNatLE t.toList := by
  obtain ⟨j, hj, hc⟩ := hcov
  obtain ⟨hr, hle⟩ := (orbit_min_partial n f c perm mask ms hf.1 r).2 j hj
  rw [hc] at hr
  have : t = stateAt (applyElems n) f ms j :=
    cert_unique n f t _ σ μ hσ ht (stateAt_WF n f hf ms hsafe j) hrel hr
  rw [this]; exact hle

/-- **C04, P**: the representative is in the orbit of f under input permutations and is <= every
    member of that orbit (n >= 2; n <= 1 has the trivial group, `p_small`) -/
theorem p_orbit_min (n : Nat) (h2 : 2 ≤ n) (f : Array W) (hf : WF n f) :
    ∃ c perm, pCanonization n f = some (c, perm) ∧ WF n c ∧ IsPerm n perm ∧ CertRel n f c perm 0 ∧
      ∀ σ t, IsPerm n σ → WF n t → CertRel n f t σ 0 → toNatLE c.toList ≤ toNatLE t.toList := by
  obtain ⟨sw, hsw, hs, hcov⟩ := swapsFor_facts n h2
  obtain ⟨c, perm, h1, r⟩ := p_result n f hf h2 sw hsw hs
  have hsafe := (p_safe n sw hs).1
  have hwf : WF n c := by
    obtain ⟨k, rk⟩ := r
    rw [rk.table]; exact stateAt_WF n f hf _ hsafe k
  refine ⟨c, perm, h1, hwf, (result_wellformed n f c perm 0 _ hsafe r).1, r.rel, ?_⟩
  intro σ t hσ ht hrel
  obtain ⟨j, hj, hc⟩ := p_cover n sw hs hcov.nodup hcov.length σ hσ
  exact min_of_cover n f c perm 0 _ hf hsafe r σ 0 hσ ⟨j, by rw [macroP_length]; omega, hc⟩ t ht hrel

/-- **C04, N**: the representative is <= the image of f under every complementation mask
    (inputs and output), n = 1..64 -/
theorem n_orbit_min (n : Nat) (h1 : 1 ≤ n) (h64 : n ≤ 64) (f : Array W) (hf : WF n f) :
    ∃ c mask, nCanonization n f = some (c, mask) ∧ WF n c ∧ mask < 2 ^ (n + 1) ∧
      CertRel n f c (Array.range n) mask ∧
      ∀ μ t, μ < 2 ^ (n + 1) → WF n t → CertRel n f t (Array.range n) μ → toNatLE c.toList ≤ toNatLE t.toList := by
  obtain ⟨fl, hfl', hfl, hcov⟩ := flipsFor_facts n h1 h64
  obtain ⟨c, mask, h, r⟩ := n_result n f hf h1 fl hfl' hfl
  have hsafe := (n_safe n fl hfl).1
  have hwf : WF n c := by
    obtain ⟨k, rk⟩ := r
    rw [rk.table]; exact stateAt_WF n f hf _ hsafe k
  refine ⟨c, mask, h, hwf, (result_wellformed n f c _ mask _ hsafe r).2, r.rel, ?_⟩
  intro μ t hμ ht hrel
  obtain ⟨k, _, hk, hmk⟩ := n_cover n fl hfl hcov.nodup hcov.length μ hμ
  have hc : certAt n (macroN fl) k = (Array.range n, μ) := by
    unfold certAt
    rw [certN n _ fl k hk, hmk]
  exact min_of_cover n f c _ mask _ hf hsafe r (Array.range n) μ (isPerm_range n)
    ⟨k, by rw [macroN_length]; exact hk, hc⟩ t ht hrel

/-- **C04, NPN**: the representative is <= the image of f under every pair (permutation of the
    inputs, complementation mask of inputs and output), n = 2..64 -/
theorem npn_orbit_min (n : Nat) (h2 : 2 ≤ n) (h64 : n ≤ 64) (f : Array W) (hf : WF n f) :
    ∃ c perm mask, npnCanonization n f = some (c, perm, mask) ∧ WF n c ∧ IsPerm n perm ∧ mask < 2 ^ (n + 1) ∧
      CertRel n f c perm mask ∧
      ∀ σ μ t, IsPerm n σ → μ < 2 ^ (n + 1) → WF n t → CertRel n f t σ μ →
        toNatLE c.toList ≤ toNatLE t.toList := by
  obtain ⟨sw, hsw, hs, hcs⟩ := swapsFor_facts n h2
  obtain ⟨fl, hfl', hfl, hcf⟩ := flipsFor_facts n (by omega) (by omega)
  obtain ⟨c, perm, mask, h, r⟩ := npn_result n f hf h2 sw fl hsw hfl' hs hfl
  have hsafe := (npn_safe n sw fl hs hfl).1
  have hwf : WF n c := by
    obtain ⟨k, rk⟩ := r
    rw [rk.table]; exact stateAt_WF n f hf _ hsafe k
  obtain ⟨w1, w2⟩ := result_wellformed n f c perm mask _ hsafe r
  refine ⟨c, perm, mask, h, hwf, w1, w2, r.rel, ?_⟩
  intro σ μ t hσ hμ ht hrel
  exact min_of_cover n f c perm mask _ hf hsafe r σ μ hσ
    (npn_cover n sw fl hs hfl hcs.nodup hcs.length hcf.nodup hcf.length σ hσ μ hμ) t ht hrel

/-- the minimum is unique: a well-formed table in the orbit that is <= every member of the orbit
    is the representative (two tables of one size with the same value are equal, C08) -/
theorem min_unique (n : Nat) (c c' : Array W) (hc : WF n c) (hc' : WF n c')
    (h1 : toNatLE c.toList ≤ toNatLE c'.toList) (h2 : toNatLE c'.toList ≤ toNatLE c.toList) : c = c' := by
  have hl : c.toList.length = c'.toList.length := by simp [hc.1, hc'.1]
  have := toNatLE_inj c.toList c'.toList hl (by omega)
  exact Array.ext' this

/-! ## the small sizes (trivial permutation group), so that the statements hold for every n <= 8 -/

theorem isPerm_small (n : Nat) (h : n ≤ 1) (σ : Array Nat) (hσ : IsPerm n σ) : σ = Array.range n := by
  apply Array.ext'
  rw [Array.toList_range]
  have hp := hσ.2
  match n, h with
  | 0, _ => simpa using hp
  | 1, _ =>
    have : List.range 1 = [0] := rfl
    rw [this] at hp ⊢
    exact List.perm_singleton.mp hp

/-- P for all n <= 8 -/
theorem p_orbit_min_all (n : Nat) (f : Array W) (hf : WF n f) :
    ∃ c perm, pCanonization n f = some (c, perm) ∧ WF n c ∧ IsPerm n perm ∧ CertRel n f c perm 0 ∧
      ∀ σ t, IsPerm n σ → WF n t → CertRel n f t σ 0 → toNatLE c.toList ≤ toNatLE t.toList := by
  by_cases h2 : 2 ≤ n
  · exact p_orbit_min n h2 f hf
  · have h1 : n ≤ 1 := by omega
    refine ⟨f, Array.range n, (p_small n h1 f).1, hf, isPerm_range n, cert_init n f, ?_⟩
    intro σ t hσ ht hrel
    rw [isPerm_small n h1 σ hσ] at hrel
    rw [eq_of_cert_id n f t hf ht hrel]

/-- N for n = 0: the two candidates are f and its complement -/
theorem n_zero_min (f : Array W) (hf : WF 0 f) :
    ∃ c mask, nCanonization 0 f = some (c, mask) ∧ WF 0 c ∧ mask < 2 ^ (0 + 1) ∧
      CertRel 0 f c (Array.range 0) mask ∧
      ∀ μ t, μ < 2 ^ (0 + 1) → WF 0 t → CertRel 0 f t (Array.range 0) μ → toNatLE c.toList ≤ toNatLE t.toList := by
  have hnot : CertRel 0 f (notInplace 0 f) (Array.range 0) 1 := by
    have := cert_elem 0 f f (Array.range 0) 0 Elem.neg hf.1 (by simp) (cert_init 0 f) trivial
    simpa [applyElem, rstepE] using this
  have hnwf : WF 0 (notInplace 0 f) := VoluteModel.Props.C01.not_WF 0 f hf.1
  have hsz : (notInplace 0 f).size = f.size := by simp [notInplace]
  -- every member of the orbit is f or its complement
  have horb : ∀ μ t, μ < 2 ^ (0 + 1) → WF 0 t → CertRel 0 f t (Array.range 0) μ → t = f ∨ t = notInplace 0 f := by
    intro μ t hμ ht hrel
    have : μ = 0 ∨ μ = 1 := by omega
    rcases this with rfl | rfl
    · exact Or.inl (eq_of_cert_id 0 f t hf ht hrel)
    · exact Or.inr (cert_unique 0 f t _ (Array.range 0) 1 (isPerm_range 0) ht hnwf hrel hnot)
  unfold nCanonization
  simp only [if_true]
  by_cases hc : (cmpTables (notInplace 0 f) f == Ordering.lt) = true
  · have hlt : ltT (notInplace 0 f) f = true := hc
    have hle : toNatLE (notInplace 0 f).toList ≤ toNatLE f.toList := by
      rcases Nat.lt_or_ge (toNatLE f.toList) (toNatLE (notInplace 0 f).toList) with hl | hl
      · have := (ltT_false_iff (notInplace 0 f) f hsz).mpr (by omega)
        rw [this] at hlt; cases hlt
      · exact hl
    refine ⟨notInplace 0 f, 1, by simp [hc], hnwf, by omega, hnot, ?_⟩
    intro μ t hμ ht hrel
    rcases horb μ t hμ ht hrel with rfl | rfl
    · exact hle
    · exact Nat.le_refl _
  · have hlt : ltT (notInplace 0 f) f = false := by
      unfold ltT; simpa using hc
    have hle := (ltT_false_iff (notInplace 0 f) f hsz).mp hlt
    refine ⟨f, 0, by simp [hc], hf, by omega, cert_init 0 f, ?_⟩
    intro μ t hμ ht hrel
    rcases horb μ t hμ ht hrel with rfl | rfl
    · exact Nat.le_refl _
    · exact hle

/-- N for all n <= 8 -/
theorem n_orbit_min_all (n : Nat) (h64 : n ≤ 64) (f : Array W) (hf : WF n f) :
    ∃ c mask, nCanonization n f = some (c, mask) ∧ WF n c ∧ mask < 2 ^ (n + 1) ∧
      CertRel n f c (Array.range n) mask ∧
      ∀ μ t, μ < 2 ^ (n + 1) → WF n t → CertRel n f t (Array.range n) μ → toNatLE c.toList ≤ toNatLE t.toList := by
  by_cases h1 : 1 ≤ n
  · exact n_orbit_min n h1 h64 f hf
  · have h0 : n = 0 := by omega
    subst h0
    exact n_zero_min f hf

/-- NPN for all n <= 8 -/
theorem npn_orbit_min_all (n : Nat) (h64 : n ≤ 64) (f : Array W) (hf : WF n f) :
    ∃ c perm mask, npnCanonization n f = some (c, perm, mask) ∧ WF n c ∧ IsPerm n perm ∧ mask < 2 ^ (n + 1) ∧
      CertRel n f c perm mask ∧
      ∀ σ μ t, IsPerm n σ → μ < 2 ^ (n + 1) → WF n t → CertRel n f t σ μ →
        toNatLE c.toList ≤ toNatLE t.toList := by
  by_cases h2 : 2 ≤ n
  · exact npn_orbit_min n h2 h64 f hf
  · have h1 : n ≤ 1 := by omega
    obtain ⟨c, mask, h, wc, w2, rel, hmin⟩ := n_orbit_min_all n (by omega) f hf
    refine ⟨c, Array.range n, mask, by rw [npn_small n h1 f, h]; rfl, wc, isPerm_range n, w2, rel, ?_⟩
    intro σ μ t hσ hμ ht hrel
    rw [isPerm_small n h1 σ hσ] at hrel
    exact hmin μ t hμ ht hrel

/-! ## classes: same representative exactly when equivalent; representatives are fixed points -/

/-- The argument once, for a set `G` of certificates that contains the identity and is closed
    under composition and inversion, and a canonization that returns the minimum over `G`. -/
theorem class_generic (n : Nat) (G : Array Nat → Nat → Prop) (canon : Array W → Option (Array W))
    (hid : G (Array.range n) 0)
    (hperm : ∀ σ μ, G σ μ → IsPerm n σ)
    (hcomp : ∀ σ1 μ1 σ2 μ2, G σ1 μ1 → G σ2 μ2 → G (compPerm σ1 σ2) (compMask n σ2 μ1 μ2))
    (hinv : ∀ σ μ, G σ μ → G (invPerm n σ) (invMask n σ μ))
    (hmin : ∀ f, WF n f → ∃ c σ μ, canon f = some c ∧ WF n c ∧ G σ μ ∧ CertRel n f c σ μ ∧
      ∀ σ' μ' t, G σ' μ' → WF n t → CertRel n f t σ' μ' → toNatLE c.toList ≤ toNatLE t.toList) :
    (∀ f g, WF n f → WF n g → ((∃ σ μ, G σ μ ∧ CertRel n f g σ μ) ↔ canon f = canon g)) ∧
    (∀ f c, WF n f → canon f = some c → canon c = some c) := by
  -- monotonicity: if g is in the orbit of f then canon f <= canon g
  have mono : ∀ f g cf cg, WF n f → WF n g → (∃ σ μ, G σ μ ∧ CertRel n f g σ μ) →
      canon f = some cf → canon g = some cg → toNatLE cf.toList ≤ toNatLE cg.toList := by
    intro f g cf cg hf hg ⟨σ, μ, hG, hrel⟩ h1 h2
    obtain ⟨cf', σf, μf, e1, _, _, _, minf⟩ := hmin f hf
    obtain ⟨cg', σg, μg, e2, wg, Gg, relg, _⟩ := hmin g hg
    rw [h1] at e1; rw [h2] at e2
    cases e1; cases e2
    exact minf _ _ cg (hcomp σ μ σg μg hG Gg) wg (cert_comp n f g cg σ σg μ μg (hperm _ _ Gg) hrel relg)
  constructor
  · intro f g hf hg
    constructor
    · rintro ⟨σ, μ, hG, hrel⟩
      obtain ⟨cf, σf, μf, e1, wf, _, _, _⟩ := hmin f hf
      obtain ⟨cg, σg, μg, e2, wg, _, _, _⟩ := hmin g hg
      have a := mono f g cf cg hf hg ⟨σ, μ, hG, hrel⟩ e1 e2
      have b := mono g f cg cf hg hf ⟨_, _, hinv σ μ hG, cert_inv n f g σ μ (hperm _ _ hG) hrel⟩ e2 e1
      rw [e1, e2, min_unique n cf cg wf wg a b]
    · intro heq
      obtain ⟨cf, σf, μf, e1, _, Gf, relf, _⟩ := hmin f hf
      obtain ⟨cg, σg, μg, e2, _, Gg, relg, _⟩ := hmin g hg
      rw [e1, e2] at heq
      cases heq
      exact ⟨_, _, hcomp σf μf _ _ Gf (hinv σg μg Gg),
        cert_comp n f cf g σf _ μf _ (hperm _ _ (hinv σg μg Gg)) relf (cert_inv n g cf σg μg (hperm _ _ Gg) relg)⟩
  · intro f c hf hc
    obtain ⟨c0, σf, μf, e1, wc, Gf, relf, minf⟩ := hmin f hf
    rw [hc] at e1; cases e1
    obtain ⟨c', σc, μc, e2, wc', Gc, relc, minc⟩ := hmin c wc
    have a : toNatLE c'.toList ≤ toNatLE c.toList := minc _ _ c hid wc (cert_init n c)
    have b : toNatLE c.toList ≤ toNatLE c'.toList :=
      minf _ _ c' (hcomp σf μf σc μc Gf Gc) wc' (cert_comp n f c c' σf σc μf μc (hperm _ _ Gc) relf relc)
    rw [e2, min_unique n c' c wc' wc a b]

/-- **C04, NPN classes** (n = 0..64): f and g have the same representative exactly when g is the
    image of f under an input permutation with input/output complementations; the representative
    of a representative is itself -/
theorem npn_classes (n : Nat) (h64 : n ≤ 64) :
    (∀ f g, WF n f → WF n g →
      ((∃ σ μ, (IsPerm n σ ∧ μ < 2 ^ (n + 1)) ∧ CertRel n f g σ μ) ↔
        (npnCanonization n f).map (·.1) = (npnCanonization n g).map (·.1))) ∧
    (∀ f c, WF n f → (npnCanonization n f).map (·.1) = some c → (npnCanonization n c).map (·.1) = some c) := by
  apply class_generic n (fun σ μ => IsPerm n σ ∧ μ < 2 ^ (n + 1)) (fun f => (npnCanonization n f).map (·.1))
  · exact ⟨isPerm_range n, Nat.two_pow_pos _⟩
  · intro σ μ h; exact h.1
  · intro σ1 μ1 σ2 μ2 h1 h2
    exact ⟨compPerm_isPerm n σ1 σ2 h1.1 h2.1, compMask_lt n σ2 μ1 μ2⟩
  · intro σ μ h
    exact ⟨invPerm_isPerm n σ h.1, invMask_lt n σ μ⟩
  · intro f hf
    obtain ⟨c, perm, mask, h, wc, w1, w2, rel, hmin⟩ := npn_orbit_min_all n h64 f hf
    refine ⟨c, perm, mask, by rw [h]; rfl, wc, ⟨w1, w2⟩, rel, ?_⟩
    intro σ μ t hG ht hrel
    exact hmin σ μ t hG.1 hG.2 ht hrel

/-- **C04, P classes** (every n) -/
theorem p_classes (n : Nat) :
    (∀ f g, WF n f → WF n g →
      ((∃ σ μ, (IsPerm n σ ∧ μ = 0) ∧ CertRel n f g σ μ) ↔
        (pCanonization n f).map (·.1) = (pCanonization n g).map (·.1))) ∧
    (∀ f c, WF n f → (pCanonization n f).map (·.1) = some c → (pCanonization n c).map (·.1) = some c) := by
  apply class_generic n (fun σ μ => IsPerm n σ ∧ μ = 0) (fun f => (pCanonization n f).map (·.1))
  · exact ⟨isPerm_range n, rfl⟩
  · intro σ μ h; exact h.1
  · intro σ1 μ1 σ2 μ2 h1 h2
    obtain ⟨p1, rfl⟩ := h1
    obtain ⟨p2, rfl⟩ := h2
    exact ⟨compPerm_isPerm n σ1 σ2 p1 p2, compMask_zero n σ2⟩
  · intro σ μ h
    obtain ⟨p, rfl⟩ := h
    exact ⟨invPerm_isPerm n σ p, invMask_zero n σ⟩
  · intro f hf
    obtain ⟨c, perm, h, wc, w1, rel, hmin⟩ := p_orbit_min_all n f hf
    refine ⟨c, perm, 0, by rw [h]; rfl, wc, ⟨w1, rfl⟩, rel, ?_⟩
    intro σ μ t hG ht hrel
    obtain ⟨p, rfl⟩ := hG
    exact hmin σ t p ht hrel

/-- **C04, N classes** (n = 0..64) -/
theorem n_classes (n : Nat) (h64 : n ≤ 64) :
    (∀ f g, WF n f → WF n g →
      ((∃ σ μ, (σ = Array.range n ∧ μ < 2 ^ (n + 1)) ∧ CertRel n f g σ μ) ↔
        (nCanonization n f).map (·.1) = (nCanonization n g).map (·.1))) ∧
    (∀ f c, WF n f → (nCanonization n f).map (·.1) = some c → (nCanonization n c).map (·.1) = some c) := by
  apply class_generic n (fun σ μ => σ = Array.range n ∧ μ < 2 ^ (n + 1)) (fun f => (nCanonization n f).map (·.1))
  · exact ⟨rfl, Nat.two_pow_pos _⟩
  · intro σ μ h; rw [h.1]; exact isPerm_range n
  · intro σ1 μ1 σ2 μ2 h1 h2
    obtain ⟨rfl, _⟩ := h1
    obtain ⟨rfl, _⟩ := h2
    exact ⟨compPerm_id n, compMask_lt n _ μ1 μ2⟩
  · intro σ μ h
    obtain ⟨rfl, _⟩ := h
    exact ⟨invPerm_id n, invMask_lt n _ μ⟩
  · intro f hf
    obtain ⟨c, mask, h, wc, w2, rel, hmin⟩ := n_orbit_min_all n h64 f hf
    refine ⟨c, Array.range n, mask, by rw [h]; rfl, wc, ⟨rfl, w2⟩, rel, ?_⟩
    intro σ μ t hG ht hrel
    obtain ⟨rfl, hμ⟩ := hG
    exact hmin μ t hμ ht hrel

/-- non-vacuity (only the representative is stated: which certificate is returned depends on the
    walk, and another valid table in /repo must not break this file) -/
example : (npnCanonization 3 #[0xe8#64]).map (·.1) = some #[0x17#64] := by decide +kernel

end VoluteModel.Props.C04

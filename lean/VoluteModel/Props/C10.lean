import VoluteModel.Model.Api
import VoluteModel.Lemmas.Bits
import VoluteModel.Props.C08
import VoluteModel.Props.C01

/-!
# C10 - StaticLut behaves like Lut; conversions are lossless

A `StaticLut<N,T>` is modelled as a `Lut` with `n = N`.  Every method that static_lut.rs
implements differently from lut.rs has its own definition in `Stat`; the theorems say that on
values of the same size the two layers coincide (all other methods are literally the same
model function).  The correspondence run compares the two Rust types with each other and with
the model on the same operations.
-/

namespace VoluteModel.Props.C10
open VoluteModel VoluteModel.Props.C08

theorem binForm_agree (op form : Nat) (a b : Lut) (hn : a.n = b.n) :
    Stat.binForm op form a b = Dyn.binForm op form a b := by
  have hne : (a.n == b.n) = true := by simp [hn]
  rw [VoluteModel.Props.C01.dyn_binForm_eq]
  simp only [Stat.binForm, Dyn.opAssignRef, hne, if_true]

theorem fromCofactors_agree (c0 c1 : Lut) (i : Nat) (hn : c0.n = c1.n) :
    Stat.fromCofactors c0 c1 i = Dyn.fromCofactors c0 c1 i := by
  have : (c0.n != c1.n) = false := by simp [hn]
  simp [Stat.fromCofactors, Dyn.fromCofactors, this]

theorem fromBlocks_agree (n : Nat) (b : Array W) : Stat.fromBlocks n b = Dyn.fromBlocks n b := rfl

theorem cmp_agree (a b : Lut) (hn : a.n = b.n) : Stat.cmp a b = Dyn.cmp a b := by
  have : (a.n != b.n) = false := by simp [hn]
  simp [Stat.cmp, Dyn.cmp, this]

/-- bdd_complexity on a non-empty list of tables of the same size -/
theorem bdd_agree (n : Nat) (l0 : Lut) (ls : List Lut) (h : ∀ l ∈ l0 :: ls, l.n = n) :
    Stat.bddComplexity n (l0 :: ls) = Dyn.bddComplexity (l0 :: ls) := by
  have h0 : l0.n = n := h l0 (by simp)
  subst h0
  have hall : (l0 :: ls).all (fun l => l.n == l0.n) = true := by
    rw [List.all_eq_true]; intro l hl; simp [h l hl]
  simp only [Stat.bddComplexity, Dyn.bddComplexity, hall, if_true]

/-- conversions between the two types -/
theorem toDyn_spec (l : Lut) (hl : l.WF) : Stat.toDyn l = some l := by
  simp [Stat.toDyn, Dyn.fromBlocks, hl.1]

theorem tryFromDyn_spec (n : Nat) (l : Lut) (hl : l.WF) :
    (l.n = n → Stat.tryFromDyn n l = some l) ∧ (l.n ≠ n → Stat.tryFromDyn n l = none) := by
  constructor
  · intro h
    have : (l.n != n) = false := by simp [h]
    subst h
    simp [Stat.tryFromDyn, Stat.fromBlocks, this, hl.1]
  · intro h
    have : (l.n != n) = true := by simp [h]
    simp [Stat.tryFromDyn, this]

/-- LutN -> Lut -> LutN is the identity -/
theorem roundtrip (l : Lut) (hl : l.WF) : (Stat.toDyn l).bind (Stat.tryFromDyn l.n) = some l := by
  rw [toDyn_spec l hl]; exact (tryFromDyn_spec l.n l hl).1 rfl

/-! ## integer conversions of Lut3 .. Lut6 -/

/-- `!VAR_MASK[n]` keeps the low `2^n` bits -/
theorem notVarMask_low : ∀ n : Fin 6, ∀ b : Fin 64, b.val < 2 ^ n.val →
    (~~~ varMask n.val).getLsbD b.val = true := by decide

/-- bit m of the integer is f(m) -/
theorem toInt_testBit (l : Lut) (hn : 3 ≤ l.n ∧ l.n ≤ 6) (m : Nat) (hm : m < 2 ^ l.n) :
    (Stat.toInt l).testBit m = l.eval m := by
  have hm64 : m < 64 := by
    have : 2 ^ l.n ≤ 2 ^ 6 := Nat.pow_le_pow_right (by omega) hn.2
    omega
  have hd : m / 64 = 0 := by omega
  have hmod : m % 64 = m := by omega
  unfold Stat.toInt Lut.eval bit
  rw [hd, hmod]
  by_cases h6 : l.n = 6
  · simp [h6, BitVec.getLsbD]
  · have hlt6 : l.n < 6 := by omega
    have hb : (l.n == 6) = false := by simp [h6]
    simp only [hb, Bool.false_eq_true, if_false]
    rw [Nat.testBit_mod_two_pow]
    simp only [hm, decide_true, Bool.true_and]
    have := notVarMask_low ⟨l.n, hlt6⟩ ⟨m, hm64⟩ hm
    simp only [] at this
    rw [← BitVec.getLsbD, BitVec.getLsbD_and, this]
    simp

theorem toInt_lt (l : Lut) (hn : 3 ≤ l.n ∧ l.n ≤ 6) : Stat.toInt l < 2 ^ (2 ^ l.n) := by
  unfold Stat.toInt
  by_cases h6 : l.n = 6
  · simp only [h6, beq_self_eq_true, if_true]
    exact (l.t[0]?.getD 0).isLt
  · have hb : (l.n == 6) = false := by simp [h6]
    simp only [hb, Bool.false_eq_true, if_false]
    exact Nat.mod_lt _ (Nat.two_pow_pos _)

/-- from(int) builds the table whose value on m is bit m of the integer, and it is well formed
    when the integer fits the type -/
theorem fromInt_spec (n v : Nat) (hn : n ≤ 6) (hv : v < 2 ^ (2 ^ n)) :
    ∃ l, Stat.fromInt n v = some l ∧ l.n = n ∧ l.WF ∧ ∀ m, m < 2 ^ n → l.eval m = v.testBit m := by
  have h64 : v < 2 ^ 64 := Nat.lt_of_lt_of_le hv (Nat.pow_le_pow_right (by omega) (by
    have : 2 ^ n ≤ 2 ^ 6 := Nat.pow_le_pow_right (by omega) hn
    omega))
  refine ⟨⟨n, #[BitVec.ofNat 64 v]⟩, by simp [Stat.fromInt, Stat.fromBlocks, tableSize_le6 hn], rfl, ?_, ?_⟩
  · apply WF_of_bits
    · simp [tableSize_le6 hn]
    · intro k hk b hb hge
      have hk0 : k = 0 := by simp at hk; omega
      subst hk0
      simp only [List.getElem_toArray, List.getElem_cons_zero, BitVec.getLsbD_ofNat, hb, decide_true, Bool.true_and]
      apply Nat.testBit_lt_two_pow
      exact Nat.lt_of_lt_of_le hv (Nat.pow_le_pow_right (by omega) hge)
  · intro m hm
    have hm64 : m < 64 := by
      have : 2 ^ n ≤ 2 ^ 6 := Nat.pow_le_pow_right (by omega) hn
      omega
    have hd : m / 64 = 0 := by omega
    have hmod : m % 64 = m := by omega
    unfold Lut.eval bit
    rw [hd, hmod]
    simp only [List.getElem?_toArray, List.getElem?_cons_zero, Option.getD_some]
    rw [BitVec.getLsbD_ofNat]
    simp [hm64]

/-- int -> LutN -> int is the identity -/
theorem int_roundtrip (n v : Nat) (hn : 3 ≤ n ∧ n ≤ 6) (hv : v < 2 ^ (2 ^ n)) :
    (Stat.fromInt n v).map Stat.toInt = some v := by
  obtain ⟨l, h1, h2, h3, h4⟩ := fromInt_spec n v hn.2 hv
  rw [h1]
  simp only [Option.map_some, Option.some.injEq]
  apply Nat.eq_of_testBit_eq
  intro m
  by_cases hm : m < 2 ^ n
  · rw [toInt_testBit l (h2 ▸ hn) m (h2 ▸ hm), h4 m hm]
  · have a := toInt_lt l (h2 ▸ hn)
    rw [h2] at a
    have hge : 2 ^ (2 ^ n) ≤ 2 ^ m := Nat.pow_le_pow_right (by omega) (by omega)
    rw [Nat.testBit_lt_two_pow (Nat.lt_of_lt_of_le a hge), Nat.testBit_lt_two_pow (Nat.lt_of_lt_of_le hv hge)]

/-- non-vacuity -/
example : Stat.toInt ⟨3, #[0xe8#64]⟩ = 0xe8 ∧ Stat.fromInt 3 0xe8 = some ⟨3, #[0xe8#64]⟩ := by
  constructor <;> decide +kernel

end VoluteModel.Props.C10

import Lean

/-!
`#audit_module M` prints, for every theorem declared in module `M`, one line
`AUDIT <name> : <axioms it depends on>`; `bin/check` parses these lines, counts the
obligations and rejects anything outside `propext`, `Classical.choice`, `Quot.sound`.
-/

open Lean Elab Command

elab "#audit_module " m:ident : command => do
  let env ← getEnv
  let modName := m.getId
  match env.getModuleIdx? modName with
  | none => logError m!"module {modName} not imported"
  | some idx =>
    let names := env.header.moduleData[idx.toNat]!.constNames
    for n in names do
      if n.isInternal then continue
      -- every theorem constant of the module; bin/check keeps those declared in the source
      let last := n.components.getLast?.map (·.toString) |>.getD ""
      if last.startsWith "match_" || last.startsWith "proof_" then continue
      match env.find? n with
      | some (.thmInfo _) =>
        let axs ← liftCoreM <| collectAxioms n
        let axs := axs.qsort (fun a b => a.toString < b.toString)
        logInfo m!"AUDIT {n} : {axs.toList}"
      | _ => pure ()

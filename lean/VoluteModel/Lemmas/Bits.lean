import VoluteModel.Model.Ops
import VoluteModel.Lemmas.TableFacts

/-!
# Basic lemmas: table size, masks, `bit` of mapped / zipped tables
-/

namespace VoluteModel
open Gen

theorem tableSize_le6 {n : Nat} (h : n ≤ 6) : tableSize n = 1 := by
  unfold tableSize
  have : ¬ n > 6 := by omega
  simp [this]

theorem tableSize_ge6 {n : Nat} (h : 6 ≤ n) : tableSize n = 2 ^ (n - 6) := by
  unfold tableSize
  by_cases h6 : n > 6
  · simp [h6, Nat.shiftLeft_eq]
  · have : n = 6 := by omega
    subst this; simp

theorem tableSize_pos (n : Nat) : 0 < tableSize n := by
  by_cases h : n ≤ 6
  · rw [tableSize_le6 h]; omega
  · rw [tableSize_ge6 (by omega)]; exact Nat.two_pow_pos _

theorem div64_lt_tableSize {n m : Nat} (hm : m < 2 ^ n) : m / 64 < tableSize n := by
  by_cases h : n ≤ 6
  · rw [tableSize_le6 h]
    have : 2 ^ n ≤ 2 ^ 6 := Nat.pow_le_pow_right (by omega) h
    omega
  · have h6 : 6 ≤ n := by omega
    rw [tableSize_ge6 h6]
    have e : 2 ^ n = 64 * 2 ^ (n - 6) := by
      have : n = 6 + (n - 6) := by omega
      conv => lhs; rw [this, Nat.pow_add]
    rw [e] at hm
    exact Nat.div_lt_of_lt_mul hm

theorem numVarsMask_bit (n k : Nat) (hk : k < 64) : (numVarsMask n).getLsbD k = decide (k < 2 ^ n) := by
  unfold numVarsMask
  by_cases h : n ≤ 6
  · have hm : min n 6 = n := by omega
    rw [hm]
    exact numVarsMaskTab_bit ⟨n, by omega⟩ ⟨k, hk⟩
  · have hm : min n 6 = 6 := by omega
    rw [hm]
    have := numVarsMaskTab_bit ⟨6, by omega⟩ ⟨k, hk⟩
    simp only [] at this
    rw [this]
    have h1 : k < 2 ^ 6 := by omega
    have h2 : 2 ^ 6 ≤ 2 ^ n := Nat.pow_le_pow_right (by omega) (by omega)
    have h3 : k < 2 ^ n := by omega
    simp [h1, h3]

theorem bit_eq_getElem {t : Array W} {m : Nat} (h : m / 64 < t.size) :
    bit t m = (t[m / 64]).getLsbD (m % 64) := by
  unfold bit
  simp [h]

theorem bit_of_size_le {t : Array W} {m : Nat} (h : t.size ≤ m / 64) : bit t m = false := by
  unfold bit
  have : t[m / 64]? = none := by simp; omega
  simp [this]

theorem bit_map (f : W → W) (t : Array W) (m : Nat) (h : m / 64 < t.size) :
    bit (t.map f) m = (f t[m / 64]).getLsbD (m % 64) := by
  unfold bit
  simp [h]

theorem bit_zipWith (f : W → W → W) (a b : Array W) (m : Nat) (ha : m / 64 < a.size) (hb : m / 64 < b.size) :
    bit (Array.zipWith f a b) m = (f a[m / 64] b[m / 64]).getLsbD (m % 64) := by
  unfold bit
  have hz : m / 64 < (Array.zipWith f a b).size := by simp; omega
  rw [Array.getElem?_eq_getElem hz]
  simp

theorem bit_mapIdx (f : Nat → W → W) (t : Array W) (m : Nat) (h : m / 64 < t.size) :
    bit (t.mapIdx f) m = (f (m / 64) t[m / 64]).getLsbD (m % 64) := by
  unfold bit
  simp [h]

/-- a bit position inside the table: word index and in-word index -/
theorem mod64_lt (m : Nat) : m % 64 < 64 := Nat.mod_lt _ (by omega)

/-- for fewer than 6 variables, an assignment index is its own in-word index -/
theorem small_index {n m : Nat} (hn : n ≤ 6) (hm : m < 2 ^ n) : m / 64 = 0 ∧ m % 64 = m := by
  have : 2 ^ n ≤ 2 ^ 6 := Nat.pow_le_pow_right (by omega) hn
  omega

/-- well-formedness, bit-level reading: nothing at or above `2^n` inside a word -/
theorem WF_word_bit {n : Nat} {t : Array W} (h : WF n t) (k : Nat) (hk : k < t.size) (b : Nat) (hb : b < 64)
    (hge : 2 ^ n ≤ b) : (t[k]).getLsbD b = false := by
  have h2 := h.2 k hk
  have e : t[k]? = some t[k] := by simp [hk]
  rw [e] at h2
  simp only [Option.getD_some] at h2
  have := congrArg (fun w => w.getLsbD b) h2
  simp only [BitVec.getLsbD_and, BitVec.getLsbD_not, BitVec.getLsbD_zero, numVarsMask_bit n b hb] at this
  have hlt : ¬ b < 2 ^ n := by omega
  simpa [hb, hlt] using this

theorem WF_of_bits {n : Nat} {t : Array W} (hs : t.size = tableSize n)
    (h : ∀ k (hk : k < t.size) (b : Nat), b < 64 → 2 ^ n ≤ b → (t[k]).getLsbD b = false) : WF n t := by
  refine ⟨hs, ?_⟩
  intro k hk
  have e : t[k]? = some t[k] := by simp [hk]
  rw [e]
  simp only [Option.getD_some]
  apply BitVec.eq_of_getLsbD_eq
  intro b hb
  simp only [BitVec.getLsbD_and, BitVec.getLsbD_not, BitVec.getLsbD_zero, numVarsMask_bit n b hb]
  by_cases hlt : b < 2 ^ n
  · simp [hlt]
  · have := h k hk b hb (by omega)
    simp [this]

/-- index-free reading of well-formedness -/
theorem WF_iff_bits (n : Nat) (t : Array W) : WF n t ↔
    t.size = tableSize n ∧ ∀ (k b : Nat), b < 64 → 2 ^ n ≤ b → (t[k]?.getD 0#64).getLsbD b = false := by
  constructor
  · intro h
    refine ⟨h.1, ?_⟩
    intro k b hb hge
    by_cases hk : k < t.size
    · have e : t[k]? = some t[k] := by simp [hk]
      rw [e]; exact WF_word_bit h k hk b hb hge
    · have e : t[k]? = none := by simp; omega
      rw [e]; simp
  · rintro ⟨hs, h⟩
    apply WF_of_bits hs
    intro k hk b hb hge
    have := h k b hb hge
    have e : t[k]? = some t[k] := by simp [hk]
    rw [e] at this; exact this

end VoluteModel

import VoluteModel.Model.Api
import VoluteModel.Model.Sop
import VoluteModel.Lemmas.CrossWord

/-!
# Well-formedness is preserved by every kernel (one-step lemmas for C02)
-/

namespace VoluteModel

theorem ge_of_xor {b i n : Nat} (hi : i < n) (hb : 2 ^ n ≤ b) : 2 ^ n ≤ b ^^^ 2 ^ i := by
  rcases Nat.lt_or_ge (b ^^^ 2 ^ i) (2 ^ n) with h | h
  · exfalso
    have := xor_lt_two_pow_of_lt h hi
    rw [Nat.xor_assoc, Nat.xor_self, Nat.xor_zero] at this
    omega
  · exact h

/-- for a single-word table, a transform that reads bit `src b` of the old word at position `b`
    preserves well-formedness when `src` maps positions >= 2^n to positions >= 2^n -/
theorem WF_map_of_src (n : Nat) (t : Array W) (h : WF n t) (f : W → W) (src : Nat → Nat)
    (hf : ∀ w b, b < 64 → (f w).getLsbD b = w.getLsbD (src b))
    (hsrc : ∀ b, b < 64 → 2 ^ n ≤ b → src b < 64 ∧ 2 ^ n ≤ src b) : WF n (t.map f) := by
  apply WF_of_bits
  · simp [h.1]
  · intro k hk b hb hge
    have hk' : k < t.size := by simpa using hk
    rw [Array.getElem_map, hf _ b hb]
    obtain ⟨s1, s2⟩ := hsrc b hb hge
    exact WF_word_bit h k hk' _ s1 s2

/-- for six or more variables well-formedness is just the number of words -/
theorem WF_of_size_ge6 (n : Nat) (t : Array W) (h6 : 6 ≤ n) (hs : t.size = tableSize n) : WF n t := by
  apply WF_of_bits hs
  intro k hk b hb hge
  have : 2 ^ 6 ≤ 2 ^ n := Nat.pow_le_pow_right (by omega) h6
  omega

theorem xor_lt_64 {b i : Nat} (hb : b < 64) (hi : i < 6) : b ^^^ 2 ^ i < 64 := by
  have : b ^^^ 2 ^ i < 2 ^ 6 := Nat.xor_lt_two_pow hb (Nat.pow_lt_pow_right (by omega) hi)
  omega

theorem flip_WF (n : Nat) (t : Array W) (h : WF n t) (i : Nat) (hi : i < n) : WF n (flipInplace t i) := by
  by_cases h6 : 6 ≤ n
  · exact WF_of_size_ge6 n _ h6 (by rw [flipInplace_size, h.1])
  · have h5 : i ≤ 5 := by omega
    have e : flipInplace t i = t.map (flipWord i) := by simp [flipInplace, h5]
    rw [e]
    exact WF_map_of_src n t h _ (fun b => b ^^^ 2 ^ i) (fun w b hb => flipWord_bit i (by omega) w b hb)
      (fun b hb hge => ⟨xor_lt_64 hb (by omega), ge_of_xor hi hge⟩)

theorem cof0_WF (n : Nat) (t : Array W) (h : WF n t) (i : Nat) (hi : i < n) : WF n (cofactor0Inplace t i) := by
  by_cases h6 : 6 ≤ n
  · exact WF_of_size_ge6 n _ h6 (by rw [cofactor0Inplace_size, h.1])
  · have h5 : i ≤ 5 := by omega
    have e : cofactor0Inplace t i = t.map (cof0Word i) := by simp [cofactor0Inplace, h5]
    rw [e]
    refine WF_map_of_src n t h _ (fun b => if b.testBit i then b ^^^ 2 ^ i else b)
      (fun w b hb => cof0Word_bit i (by omega) w b hb) ?_
    intro b hb hge
    show (if b.testBit i then _ else _) < 64 ∧ 2 ^ n ≤ (if b.testBit i then _ else _)
    split
    · exact ⟨xor_lt_64 hb (by omega), ge_of_xor hi hge⟩
    · exact ⟨hb, hge⟩

theorem cof1_WF (n : Nat) (t : Array W) (h : WF n t) (i : Nat) (hi : i < n) : WF n (cofactor1Inplace t i) := by
  by_cases h6 : 6 ≤ n
  · exact WF_of_size_ge6 n _ h6 (by rw [cofactor1Inplace_size, h.1])
  · have h5 : i ≤ 5 := by omega
    have e : cofactor1Inplace t i = t.map (cof1Word i) := by simp [cofactor1Inplace, h5]
    rw [e]
    refine WF_map_of_src n t h _ (fun b => if b.testBit i then b else b ^^^ 2 ^ i)
      (fun w b hb => cof1Word_bit i (by omega) w b hb) ?_
    intro b hb hge
    show (if b.testBit i then _ else _) < 64 ∧ 2 ^ n ≤ (if b.testBit i then _ else _)
    split
    · exact ⟨hb, hge⟩
    · exact ⟨xor_lt_64 hb (by omega), ge_of_xor hi hge⟩

theorem exch_ge {i j n b : Nat} (hi : i < n) (hj : j < n) (hb : 2 ^ n ≤ b) : 2 ^ n ≤ exch i j b := by
  unfold exch
  split
  · exact hb
  · rw [← Nat.xor_assoc]
    exact ge_of_xor hj (ge_of_xor hi hb)

theorem exch_lt_64 {i j b : Nat} (hb : b < 64) (hi : i < 6) (hj : j < 6) : exch i j b < 64 := by
  have : exch i j b < 2 ^ 6 := exch_lt hi hj hb
  omega

theorem swap_WF (n : Nat) (t : Array W) (h : WF n t) (i j : Nat) (hi : i < n) (hj : j < n) :
    WF n (swapInplace t i j) := by
  by_cases h6 : 6 ≤ n
  · exact WF_of_size_ge6 n _ h6 (by rw [swapInplace_size, h.1])
  · rcases Nat.lt_trichotomy i j with hlt | heq | hgt
    · rw [VoluteModel.swapInplace_comm']
      have e : swapInplace t j i = t.map (swapWord j i) := by
        unfold swapInplace
        have h1 : ¬ j = i := by omega
        have h2 : max j i = j := by omega
        have h3 : min j i = i := by omega
        have h5 : j ≤ 5 := by omega
        simp only [h1, if_false, h2, h3, h5, if_true]
      rw [e]
      exact WF_map_of_src n t h _ (exch j i) (fun w b hb => swapWord_bit j i (by omega) hlt w b hb)
        (fun b hb hge => ⟨exch_lt_64 hb (by omega) (by omega), exch_ge hj hi hge⟩)
    · subst heq; simpa [swapInplace] using h
    · have e : swapInplace t i j = t.map (swapWord i j) := by
        unfold swapInplace
        have h1 : ¬ i = j := by omega
        have h2 : max i j = i := by omega
        have h3 : min i j = j := by omega
        have h5 : i ≤ 5 := by omega
        simp only [h1, if_false, h2, h3, h5, if_true]
      rw [e]
      exact WF_map_of_src n t h _ (exch i j) (fun w b hb => swapWord_bit i j (by omega) hgt w b hb)
        (fun b hb hge => ⟨exch_lt_64 hb (by omega) (by omega), exch_ge hi hj hge⟩)

theorem fromCof_WF (n : Nat) (t t0 t1 : Array W) (hs : t.size = tableSize n) (h0 : WF n t0) (h1 : WF n t1)
    (i : Nat) (hi : i < n) : WF n (fromCofactorsInplace t t0 t1 i) := by
  by_cases h6 : 6 ≤ n
  · exact WF_of_size_ge6 n _ h6 (by rw [fromCofactorsInplace_size, hs])
  · have h5 : i ≤ 5 := by omega
    apply WF_of_bits
    · rw [fromCofactorsInplace_size, hs]
    · intro k hk b hb hge
      have hk' : k < t.size := by rw [fromCofactorsInplace_size] at hk; exact hk
      unfold fromCofactorsInplace
      simp only [h5, if_true, Array.getElem_mapIdx]
      rw [fromCofWord_bit i (by omega) _ _ b hb]
      have hk0 : k < t0.size := by rw [h0.1, ← hs]; exact hk'
      have hk1 : k < t1.size := by rw [h1.1, ← hs]; exact hk'
      have e0 : t0[k]?.getD 0 = t0[k] := by simp [hk0]
      have e1 : t1[k]?.getD 0 = t1[k] := by simp [hk1]
      rw [e0, e1, WF_word_bit h0 k hk0 b hb hge, WF_word_bit h1 k hk1 b hb hge]
      simp

/-- modifying one word by a function that keeps zero bits at and above 2^n zero -/
theorem WF_modify (n : Nat) (t : Array W) (h : WF n t) (k : Nat) (f : W → W)
    (hf : ∀ w b, b < 64 → 2 ^ n ≤ b → w.getLsbD b = false → (f w).getLsbD b = false) : WF n (t.modify k f) := by
  rw [WF_iff_bits] at h ⊢
  refine ⟨by simp [h.1], ?_⟩
  intro j b hb hge
  rw [Array.getElem?_modify]
  by_cases hkj : k = j
  · subst hkj
    simp only [if_true]
    cases hx : t[k]? with
    | none => simp
    | some w =>
      have := h.2 k b hb hge
      rw [hx] at this
      simpa using hf w b hb hge (by simpa using this)
  · simp only [hkj, if_false]
    exact h.2 j b hb hge

theorem setBit_WF (n : Nat) (t : Array W) (h : WF n t) (m : Nat) (hm : m < 2 ^ n) : WF n (setBit t m) := by
  by_cases h6 : 6 ≤ n
  · exact WF_of_size_ge6 n _ h6 (by simp [setBit, h.1])
  · unfold setBit
    apply WF_modify n t h
    intro w b hb hge hw
    have h64 : 2 ^ n ≤ 2 ^ 5 := Nat.pow_le_pow_right (by omega) (by omega)
    have hand : m &&& 0x3f = m := by
      have : (0x3f : Nat) = 2 ^ 6 - 1 := rfl
      rw [this, Nat.and_two_pow_sub_one_eq_mod]; omega
    rw [hand, BitVec.getLsbD_or, hw, Bool.false_or, BitVec.getLsbD_shiftLeft]
    have hbm : ¬ b < m := by omega
    have : b - m ≠ 0 := by omega
    simp [hbm, BitVec.getLsbD_one, this]

theorem unsetBit_WF (n : Nat) (t : Array W) (h : WF n t) (m : Nat) : WF n (unsetBit t m) := by
  unfold unsetBit
  apply WF_modify n t h
  intro w b hb hge hw
  rw [BitVec.getLsbD_and, hw]; simp

theorem fillRandom_WF (n : Nat) (t : Array W) (hs : t.size = tableSize n) (rng : Nat → W) :
    WF n (fillRandom n t rng) := by
  apply WF_of_bits
  · simp [fillRandom, hs]
  · intro k hk b hb hge
    simp only [fillRandom, Array.getElem_mapIdx, BitVec.getLsbD_and, numVarsMask_bit n b hb]
    have : ¬ b < 2 ^ n := by omega
    simp [this]

/-- tabulating any function gives a well-formed table -/
theorem tabulate_WF (n : Nat) (f : Nat → Bool) (zeroWF : (Dyn.zero n).WF) : (tabulate n f).WF ∧ (tabulate n f).n = n := by
  unfold tabulate
  have : ∀ (l : List Nat) (init : Lut), init.WF → init.n = n → (∀ m ∈ l, m < 2 ^ n) →
      ((l.foldl (fun (l : Lut) m => if f m then { l with t := setBit l.t m } else l) init).WF ∧
       (l.foldl (fun (l : Lut) m => if f m then { l with t := setBit l.t m } else l) init).n = n) := by
    intro l
    induction l with
    | nil => intro init h1 h2 _; exact ⟨h1, h2⟩
    | cons a l ih =>
      intro init h1 h2 hl
      simp only [List.foldl_cons]
      apply ih
      · split
        · unfold Lut.WF at h1 ⊢
          simp only [h2] at h1 ⊢
          exact setBit_WF n _ h1 a (hl a (by simp))
        · exact h1
      · split <;> exact h2
      · intro m hm; exact hl m (by simp [hm])
  apply this _ _ zeroWF rfl
  intro m hm
  simpa [Nat.shiftLeft_eq] using hm

end VoluteModel

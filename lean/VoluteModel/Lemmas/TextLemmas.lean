import VoluteModel.Model.Text
import VoluteModel.Lemmas.Bits

/-!
# Digits: printing fixed-width numbers and parsing them back
-/

namespace VoluteModel

/-- value of a digit list in base `2^k`, most significant first -/
def ofDigits (k : Nat) (ds : List Nat) : Nat := ds.foldl (fun a d => a * 2 ^ k + d) 0

theorem foldl_digits (k : Nat) (ds : List Nat) (acc : Nat) :
    ds.foldl (fun a d => a * 2 ^ k + d) acc = acc * (2 ^ k) ^ ds.length + ofDigits k ds := by
  induction ds generalizing acc with
  | nil => simp [ofDigits]
  | cons d ds ih =>
    simp only [List.foldl_cons, List.length_cons, ofDigits]
    rw [ih, ih (0 * 2 ^ k + d)]
    simp only [Nat.zero_mul, Nat.zero_add, Nat.pow_succ]
    rw [Nat.add_mul, Nat.mul_assoc, Nat.mul_comm (2 ^ k) ((2 ^ k) ^ ds.length)]
    omega

theorem ofDigits_append_single (k : Nat) (ds : List Nat) (d : Nat) :
    ofDigits k (ds ++ [d]) = ofDigits k ds * 2 ^ k + d := by
  simp [ofDigits, List.foldl_append]

theorem digitsFixed_length (k v w : Nat) : (digitsFixed k v w).length = w := by
  induction w generalizing v with
  | zero => rfl
  | succ w ih => simp [digitsFixed, ih]

theorem digitsFixed_lt (k v w : Nat) : ∀ d ∈ digitsFixed k v w, d < 2 ^ k := by
  induction w generalizing v with
  | zero => intro d hd; simp [digitsFixed] at hd
  | succ w ih =>
    intro d hd
    simp only [digitsFixed, List.mem_append, List.mem_singleton] at hd
    rcases hd with hd | rfl
    · exact ih _ d hd
    · exact Nat.mod_lt _ (Nat.two_pow_pos k)

theorem ofDigits_digitsFixed (k v w : Nat) : ofDigits k (digitsFixed k v w) = v % 2 ^ (k * w) := by
  induction w generalizing v with
  | zero => simp [digitsFixed, ofDigits, Nat.mod_one]
  | succ w ih =>
    simp only [digitsFixed, ofDigits_append_single, ih, Nat.shiftRight_eq_div_pow]
    have e : 2 ^ (k * (w + 1)) = 2 ^ k * 2 ^ (k * w) := by
      rw [Nat.mul_add, Nat.mul_one, Nat.pow_add, Nat.mul_comm]
    rw [e, Nat.mod_mul]
    rw [Nat.mul_comm (2 ^ k) (v / 2 ^ k % 2 ^ (k * w))]
    omega

/-- digit `i` from the right of the fixed-width rendering -/
theorem digitsFixed_getElem (k v w i : Nat) (hi : i < w) :
    (digitsFixed k v w)[w - 1 - i]? = some (v / 2 ^ (k * i) % 2 ^ k) := by
  induction w generalizing v i with
  | zero => omega
  | succ w ih =>
    simp only [digitsFixed]
    cases i with
    | zero =>
      have hl := digitsFixed_length k (v >>> k) w
      rw [List.getElem?_append_right (by rw [hl]; omega)]
      simp [hl]
    | succ i =>
      have hl := digitsFixed_length k (v >>> k) w
      have e : w + 1 - 1 - (i + 1) = w - 1 - i := by omega
      rw [e, List.getElem?_append_left (by rw [hl]; omega), ih (v >>> k) i (by omega)]
      simp only [Nat.shiftRight_eq_div_pow, Nat.div_div_eq_div_mul]
      congr 3
      rw [Nat.mul_add, Nat.mul_one, Nat.pow_add, Nat.mul_comm]

theorem numDigits_le (k v fuel w : Nat) (hk : 0 < k) (hv : v < 2 ^ (k * w)) (hw1 : 1 ≤ w) (hwf : w ≤ fuel + 1) :
    numDigits k v fuel ≤ w := by
  induction fuel generalizing v w with
  | zero => simp [numDigits]; omega
  | succ fuel ih =>
    simp only [numDigits]
    split
    · omega
    · rename_i hge
      have hw2 : 2 ≤ w := by
        rcases Nat.lt_or_ge w 2 with h | h
        · exfalso
          have : w = 1 := by omega
          subst this
          simp only [Nat.mul_one] at hv
          exact hge hv
        · exact h
      have hv' : v >>> k < 2 ^ (k * (w - 1)) := by
        rw [Nat.shiftRight_eq_div_pow]
        apply Nat.div_lt_of_lt_mul
        have : 2 ^ k * 2 ^ (k * (w - 1)) = 2 ^ (k * w) := by
          rw [← Nat.pow_add]; congr 1
          have : w = (w - 1) + 1 := by omega
          conv => rhs; rw [this, Nat.mul_add, Nat.mul_one]
          omega
        rw [this]; exact hv
      have := ih (v >>> k) (w - 1) hv' (by omega) (by omega)
      omega

theorem hexVal_hexDigit (d : Nat) (hd : d < 16) : hexVal (hexDigit d) = some d := by
  unfold hexDigit hexVal
  by_cases h : d < 10
  · simp only [h, if_true]
    have h1 : 48 ≤ 48 + d ∧ 48 + d ≤ 57 := by omega
    simp [h1]
  · simp only [h, if_false]
    have h1 : ¬ (48 ≤ 87 + d ∧ 87 + d ≤ 57) := by omega
    have h2 : 97 ≤ 87 + d ∧ 87 + d ≤ 102 := by omega
    simp only [h1, if_false, h2, and_self, if_true]
    congr 1; omega

theorem hexDigit_range (d : Nat) (hd : d < 16) :
    hexDigit d < 128 ∧ hexDigit d ≠ 43 ∧ isHexDigit (hexDigit d) = true := by
  refine ⟨?_, ?_, ?_⟩
  · unfold hexDigit; split <;> omega
  · unfold hexDigit; split <;> omega
  · unfold isHexDigit; rw [hexVal_hexDigit d hd]; rfl

theorem parseHexDigits_map (ds : List Nat) (acc : Nat) (hd : ∀ d ∈ ds, d < 16)
    (hlt : acc * 16 ^ ds.length + ofDigits 4 ds < 2 ^ 64) :
    parseHexDigits (ds.map hexDigit) acc = some (acc * 16 ^ ds.length + ofDigits 4 ds) := by
  induction ds generalizing acc with
  | nil => simp [parseHexDigits, ofDigits]
  | cons d ds ih =>
    have hd0 : d < 16 := hd d (by simp)
    have e16 : (2:Nat) ^ 4 = 16 := rfl
    have hfold : ofDigits 4 (d :: ds) = d * 16 ^ ds.length + ofDigits 4 ds := by
      simp only [ofDigits, List.foldl_cons, Nat.zero_mul, Nat.zero_add]
      rw [foldl_digits, e16]; rfl
    have etot : acc * 16 ^ (d :: ds).length + ofDigits 4 (d :: ds)
        = (acc * 16 + d) * 16 ^ ds.length + ofDigits 4 ds := by
      rw [hfold, List.length_cons, Nat.pow_succ, Nat.add_mul]
      rw [Nat.mul_comm (16 ^ ds.length) 16, Nat.mul_assoc]
      omega
    rw [etot] at hlt ⊢
    simp only [List.map_cons, parseHexDigits, hexVal_hexDigit d hd0]
    have hpos : 1 ≤ 16 ^ ds.length := Nat.pos_of_ne_zero (by simp)
    have hacc : acc * 16 + d < 2 ^ 64 := by
      have : (acc * 16 + d) * 1 ≤ (acc * 16 + d) * 16 ^ ds.length := Nat.mul_le_mul_left _ hpos
      omega
    simp only [hacc, if_true]
    exact ih (acc * 16 + d) (fun x hx => hd x (by simp [hx])) hlt

end VoluteModel

import VoluteModel.Lemmas.Orbit
import VoluteModel.Lemmas.Count

namespace VoluteModel

/-! ## certificates compose and invert: the images of f under the group form an orbit -/

/-- permutation of the composed certificate: first (σ1, μ1) from f to g, then (σ2, μ2) from g to t -/
def compPerm (σ1 σ2 : Array Nat) : Array Nat := σ2.map (fun k => σ1[k]?.getD 0)

def compMask (n : Nat) (σ2 : Array Nat) (μ1 μ2 : Nat) : Nat :=
  bitsToNat (fun i => if i < n then (μ2.testBit i != μ1.testBit (σ2[i]?.getD 0))
                      else (μ1.testBit n != μ2.testBit n)) (n + 1)

theorem isPerm_surj {n : Nat} {σ : Array Nat} (h : IsPerm n σ) (k : Nat) (hk : k < n) :
    ∃ i, i < n ∧ σ[i]?.getD 0 = k := by
  have : k ∈ σ.toList := h.2.mem_iff.mpr (List.mem_range.mpr hk)
  obtain ⟨i, hi, hik⟩ := List.getElem_of_mem this
  have hi' : i < σ.size := by simpa using hi
  refine ⟨i, by rw [← h.1]; exact hi', ?_⟩
  rw [Array.getElem?_eq_getElem hi', Option.getD_some]
  simpa using hik

theorem compPerm_isPerm (n : Nat) (σ1 σ2 : Array Nat) (h1 : IsPerm n σ1) (h2 : IsPerm n σ2) :
    IsPerm n (compPerm σ1 σ2) := by
  refine ⟨by simp [compPerm, h2.1], ?_⟩
  unfold compPerm
  rw [Array.toList_map]
  have hm : (List.range n).map (fun k => σ1[k]?.getD 0) = σ1.toList := by
    apply List.ext_getElem
    · simp [h1.1]
    · intro i hi1 hi2
      have hi : i < σ1.size := by simpa using hi2
      simp [hi]
  exact ((h2.2.map _).trans (by rw [hm])).trans h1.2

theorem compMask_lt (n : Nat) (σ2 : Array Nat) (μ1 μ2 : Nat) : compMask n σ2 μ1 μ2 < 2 ^ (n + 1) :=
  bitsToNat_lt _ _

theorem cert_comp (n : Nat) (f g t : Array W) (σ1 σ2 : Array Nat) (μ1 μ2 : Nat)
    (hσ2 : IsPerm n σ2) (h1 : CertRel n f g σ1 μ1) (h2 : CertRel n g t σ2 μ2) :
    CertRel n f t (compPerm σ1 σ2) (compMask n σ2 μ1 μ2) := by
  intro y z hy hz hrel
  obtain ⟨x, hx, hxrel⟩ := cert_total n σ2 μ2 hσ2 y
  rw [h2 y x hy hx hxrel]
  have hz' : ∀ k, k < n → z.testBit (σ1[k]?.getD 0) = (x.testBit k != μ1.testBit k) := by
    intro k hk
    obtain ⟨i, hi, hik⟩ := isPerm_surj hσ2 k hk
    have hi' : i < σ2.size := by rw [hσ2.1]; exact hi
    have a := hrel i hi
    have e1 : (compPerm σ1 σ2)[i]?.getD 0 = σ1[k]?.getD 0 := by
      unfold compPerm
      rw [Array.getElem?_map, Array.getElem?_eq_getElem hi', Option.map_some, Option.getD_some]
      rw [Array.getElem?_eq_getElem hi', Option.getD_some] at hik
      rw [hik]
    rw [e1] at a
    unfold compMask at a
    rw [bitsToNat_testBit] at a
    have hlt : i < n + 1 := by omega
    simp only [hlt, decide_true, Bool.true_and, hi, if_true, hik] at a
    have b := hxrel i hi
    rw [hik] at b
    rw [a, b]
    cases y.testBit i <;> cases μ2.testBit i <;> cases μ1.testBit k <;> rfl
  rw [h1 x z hx hz hz']
  unfold compMask
  rw [bitsToNat_testBit]
  have : ¬ n < n := by omega
  simp only [Nat.lt_succ_self, decide_true, Bool.true_and, this, if_false]
  cases bit f z <;> cases μ1.testBit n <;> cases μ2.testBit n <;> rfl

/-- the inverse certificate -/
def invPerm (n : Nat) (σ : Array Nat) : Array Nat := (Array.range n).map (fun k => σ.toList.idxOf k)

def invMask (n : Nat) (σ : Array Nat) (μ : Nat) : Nat :=
  bitsToNat (fun k => if k < n then μ.testBit (σ.toList.idxOf k) else μ.testBit n) (n + 1)

theorem invMask_lt (n : Nat) (σ : Array Nat) (μ : Nat) : invMask n σ μ < 2 ^ (n + 1) := bitsToNat_lt _ _

theorem idxOf_perm {n : Nat} {σ : Array Nat} (h : IsPerm n σ) (k : Nat) (hk : k < n) :
    σ.toList.idxOf k < n ∧ σ[σ.toList.idxOf k]?.getD 0 = k := by
  have hmem : k ∈ σ.toList := h.2.mem_iff.mpr (List.mem_range.mpr hk)
  have hlt : σ.toList.idxOf k < σ.toList.length := List.idxOf_lt_length_of_mem hmem
  have hlt' : σ.toList.idxOf k < σ.size := by simpa using hlt
  refine ⟨by rw [← h.1]; exact hlt', ?_⟩
  rw [Array.getElem?_eq_getElem hlt', Option.getD_some]
  have := List.getElem_idxOf hlt
  rw [← Array.getElem_toList]
  exact this

theorem invPerm_isPerm (n : Nat) (σ : Array Nat) (h : IsPerm n σ) : IsPerm n (invPerm n σ) := by
  refine ⟨by simp [invPerm], ?_⟩
  unfold invPerm
  rw [Array.toList_map, Array.toList_range]
  -- a duplicate-free list of n numbers below n is a permutation of range n
  have hnd : ((List.range n).map (fun k => σ.toList.idxOf k)).Nodup := by
    rw [List.nodup_map_iff_inj_on List.nodup_range]
    intro a ha b hb hab
    have ha' := (idxOf_perm h a (List.mem_range.mp ha)).2
    have hb' := (idxOf_perm h b (List.mem_range.mp hb)).2
    rw [hab] at ha'
    exact ha'.symm.trans hb'
  have hsub : (List.range n).map (fun k => σ.toList.idxOf k) ⊆ List.range n := by
    intro v hv
    obtain ⟨k, hk, rfl⟩ := List.mem_map.mp hv
    exact List.mem_range.mpr (idxOf_perm h k (List.mem_range.mp hk)).1
  exact (List.subperm_of_subset hnd hsub).perm_of_length_le (by simp)

theorem cert_inv (n : Nat) (f g : Array W) (σ : Array Nat) (μ : Nat) (hσ : IsPerm n σ)
    (h : CertRel n f g σ μ) : CertRel n g f (invPerm n σ) (invMask n σ μ) := by
  intro x y hx hy hrel
  -- x : assignment of f (the "output side" here), y : assignment of g
  have hy' : ∀ i, i < n → x.testBit (σ[i]?.getD 0) = (y.testBit i != μ.testBit i) := by
    intro i hi
    have hk := isPerm_lt hσ i hi
    have a := hrel (σ[i]?.getD 0) hk
    have hnd : σ.toList.Nodup := hσ.2.nodup_iff.mpr List.nodup_range
    have hi' : i < σ.size := by rw [hσ.1]; exact hi
    have hidx : σ.toList.idxOf (σ[i]?.getD 0) = i := by
      rw [Array.getElem?_eq_getElem hi', Option.getD_some]
      have := List.Nodup.idxOf_getElem hnd i (by simpa using hi')
      simpa using this
    have e1 : (invPerm n σ)[σ[i]?.getD 0]?.getD 0 = i := by
      unfold invPerm
      rw [Array.getElem?_map, Array.getElem?_eq_getElem (by simpa using hk)]
      simp [hidx]
    rw [e1] at a
    unfold invMask at a
    rw [bitsToNat_testBit] at a
    have : σ[i]?.getD 0 < n + 1 := by omega
    simp only [this, decide_true, Bool.true_and, hk, if_true, hidx] at a
    rw [a]
    cases x.testBit (σ[i]?.getD 0) <;> cases μ.testBit i <;> rfl
  have := h y x hy hx hy'
  rw [this]
  unfold invMask
  rw [bitsToNat_testBit]
  have hn : ¬ n < n := by omega
  simp only [Nat.lt_succ_self, decide_true, Bool.true_and, hn, if_false]
  cases bit f x <;> cases μ.testBit n <;> rfl

/-! ## the subgroups: no complementation (P), no permutation (N) -/

theorem bitsToNat_false (g : Nat → Bool) (n : Nat) (h : ∀ k, k < n → g k = false) : bitsToNat g n = 0 := by
  apply Nat.eq_of_testBit_eq
  intro k
  rw [bitsToNat_testBit, Nat.zero_testBit]
  by_cases hk : k < n
  · simp [hk, h k hk]
  · simp [hk]

theorem compMask_zero (n : Nat) (σ2 : Array Nat) : compMask n σ2 0 0 = 0 := by
  unfold compMask
  apply bitsToNat_false
  intro k _
  by_cases hk : k < n <;> simp [hk]

theorem invMask_zero (n : Nat) (σ : Array Nat) : invMask n σ 0 = 0 := by
  unfold invMask
  apply bitsToNat_false
  intro k _
  by_cases hk : k < n <;> simp [hk]

theorem compPerm_id (n : Nat) : compPerm (Array.range n) (Array.range n) = Array.range n := by
  apply Array.ext
  · simp [compPerm]
  · intro i h1 h2
    have : i < n := by simpa using h2
    simp [compPerm, this]

theorem invPerm_id (n : Nat) : invPerm n (Array.range n) = Array.range n := by
  apply Array.ext
  · simp [invPerm]
  · intro i h1 h2
    have hi : i < n := by simpa using h2
    simp only [invPerm, Array.getElem_map, Array.getElem_range, Array.toList_range]
    have := List.Nodup.idxOf_getElem (List.nodup_range (n := n)) i (by simpa using hi)
    simpa using this

end VoluteModel

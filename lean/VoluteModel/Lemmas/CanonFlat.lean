import VoluteModel.Model.Canon
import VoluteModel.Lemmas.Walk

/-!
# The canonization walks as one flat list of macro-steps

A macro-step is a list of elementary transforms (adjacent swap, input flip, output
complement) followed by one comparison.  P, N and NPN walks, and the replay functions
`*_canonization_res`, are instances.
-/

namespace VoluteModel

inductive Elem where
  | swap (s : Nat) | flip (f : Nat) | neg
deriving DecidableEq, Repr

def applyElem (n : Nat) (t : Array W) : Elem → Array W
  | .swap s => swapAdjacentInplace t s
  | .flip f => flipInplace t f
  | .neg => notInplace n t

def applyElems (n : Nat) (t : Array W) (es : List Elem) : Array W := es.foldl (applyElem n) t

def mstep (n : Nat) (s : WalkState) (es : List Elem) : WalkState :=
  cmpStep { s with table := applyElems n s.table es }

def mwalk (n : Nat) (s : WalkState) (ms : List (List Elem)) : WalkState := ms.foldl (mstep n) s

def macroP (swaps : List Nat) : List (List Elem) := swaps.map (fun s => [Elem.swap s])
def macroN (flips : List Nat) : List (List Elem) := flips.flatMap (fun f => [[Elem.flip f, Elem.neg], [Elem.neg]])
def macroBlock (s : Nat) : List Nat → List (List Elem)
  | [] => []
  | f0 :: fs => [Elem.swap s, Elem.flip f0, Elem.neg] :: [Elem.neg] :: macroN fs
def macroNPN (swaps flips : List Nat) : List (List Elem) := swaps.flatMap (fun s => macroBlock s flips)

theorem macroP_length (swaps : List Nat) : (macroP swaps).length = swaps.length := by simp [macroP]

theorem macroN_length (flips : List Nat) : (macroN flips).length = 2 * flips.length := by
  induction flips with
  | nil => rfl
  | cons f fs ih => simp only [macroN, List.flatMap_cons, List.length_append, List.length_cons, List.length_nil] at ih ⊢; omega

theorem macroBlock_length (s : Nat) (flips : List Nat) (h : flips ≠ []) : (macroBlock s flips).length = 2 * flips.length := by
  match flips, h with
  | f0 :: fs, _ => simp only [macroBlock, List.length_cons, macroN_length]; omega

theorem macroNPN_length (swaps flips : List Nat) (h : flips ≠ []) :
    (macroNPN swaps flips).length = 2 * swaps.length * flips.length := by
  induction swaps with
  | nil => simp [macroNPN]
  | cons s ss ih =>
    simp only [macroNPN, List.flatMap_cons, List.length_append, List.length_cons] at ih ⊢
    rw [ih, macroBlock_length s flips h]
    rw [Nat.mul_add, Nat.mul_one, Nat.add_mul]; omega

/-! ## the model's folds are macro walks -/

theorem notTwice_eq (n : Nat) (s : WalkState) :
    notTwice n s = cmpStep { (cmpStep { s with table := notInplace n s.table }) with
      table := notInplace n (cmpStep { s with table := notInplace n s.table }).table } := by
  simp [notTwice, List.range_succ, List.foldl_append]

theorem cmpStep_table (s : WalkState) : (cmpStep s).table = s.table := by
  unfold cmpStep; split <;> rfl

theorem flipStep_eq (n : Nat) (s : WalkState) (f : Nat) :
    notTwice n { s with table := flipInplace s.table f } = mstep n (mstep n s [Elem.flip f, Elem.neg]) [Elem.neg] := by
  rw [notTwice_eq]
  simp only [mstep, applyElems, List.foldl_cons, List.foldl_nil, applyElem, cmpStep_table]

theorem pCanonInd_eq (n : Nat) (t : Array W) (swaps : List Nat) :
    pCanonInd t swaps = mwalk n ⟨t, t, swaps.length - 1, 0⟩ (macroP swaps) := by
  unfold pCanonInd mwalk macroP
  rw [List.foldl_map]
  rfl

theorem nFold_eq (n : Nat) (flips : List Nat) (s : WalkState) :
    flips.foldl (fun s flip => notTwice n { s with table := flipInplace s.table flip }) s = mwalk n s (macroN flips) := by
  unfold mwalk macroN
  rw [List.foldl_flatMap]
  have : ∀ (s : WalkState) (f : Nat), notTwice n { s with table := flipInplace s.table f } =
      List.foldl (mstep n) s [[Elem.flip f, Elem.neg], [Elem.neg]] := fun s f => flipStep_eq n s f
  simp only [this]

theorem nCanonInd_eq (n : Nat) (t : Array W) (flips : List Nat) :
    nCanonInd n t flips = mwalk n ⟨t, t, 2 * flips.length - 1, 0⟩ (macroN flips) := by
  unfold nCanonInd
  exact nFold_eq n flips _

theorem blockStep_eq (n : Nat) (s : WalkState) (sw : Nat) (flips : List Nat) (h : flips ≠ []) :
    flips.foldl (fun s flip => notTwice n { s with table := flipInplace s.table flip })
      { s with table := swapAdjacentInplace s.table sw } = mwalk n s (macroBlock sw flips) := by
  match flips, h with
  | f0 :: fs, _ =>
    simp only [List.foldl_cons, macroBlock, mwalk]
    rw [nFold_eq n fs]
    have := flipStep_eq n { s with table := swapAdjacentInplace s.table sw } f0
    simp only [] at this
    rw [this]
    simp only [mwalk, mstep, applyElems, List.foldl_cons, List.foldl_nil, applyElem, cmpStep_table]

theorem npnCanonInd_eq (n : Nat) (t : Array W) (swaps flips : List Nat) (h : flips ≠ []) :
    npnCanonInd n t swaps flips = mwalk n ⟨t, t, 2 * swaps.length * flips.length - 1, 0⟩ (macroNPN swaps flips) := by
  unfold npnCanonInd mwalk macroNPN
  rw [List.foldl_flatMap]
  congr 1
  funext s sw
  exact blockStep_eq n s sw flips h

/-! ## connection with the generic walk lemma -/

def ltT (a b : Array W) : Bool := cmpTables a b == .lt

theorem mwalk_eq (n : Nat) (ms : List (List Elem)) (s : WalkState) :
    mwalk n s ms = ⟨stateAt (applyElems n) s.table ms ms.length,
      (walkAux (applyElems n) ltT s.table s.best s.bestInd s.ind ms).1,
      (walkAux (applyElems n) ltT s.table s.best s.bestInd s.ind ms).2, s.ind + ms.length⟩ := by
  induction ms generalizing s with
  | nil => simp [mwalk, walkAux, stateAt]
  | cons m ms ih =>
    simp only [mwalk, List.foldl_cons] at ih ⊢
    rw [ih]
    simp only [mstep, cmpStep, walkAux, List.length_cons, stateAt_cons]
    by_cases hlt : (cmpTables (applyElems n s.table m) s.best == Ordering.lt) = true
    · simp only [hlt, if_true, ltT]
      congr 1; omega
    · simp only [hlt, if_false, ltT, Bool.false_eq_true]
      congr 1; omega

/-! ## the replay side -/

def rstepE (n : Nat) (st : Array Nat × Nat) : Elem → Array Nat × Nat
  | .swap s => (st.1.swapIfInBounds s (s + 1), st.2)
  | .flip f => (st.1, st.2 ^^^ (1 <<< f))
  | .neg => (st.1, st.2 ^^^ (1 <<< n))

def certAfter (n : Nat) (st : Array Nat × Nat) (es : List Elem) : Array Nat × Nat := es.foldl (rstepE n) st

/-- the certificate (perm, mask) after the first `k` macro-steps -/
def certAt (n : Nat) (ms : List (List Elem)) (k : Nat) : Array Nat × Nat :=
  certAfter n (Array.range n, 0) (ms.take k).flatten

theorem certAfter_append (n : Nat) (st : Array Nat × Nat) (a b : List Elem) :
    certAfter n st (a ++ b) = certAfter n (certAfter n st a) b := by
  simp [certAfter, List.foldl_append]

theorem certAfter_size (n : Nat) (st : Array Nat × Nat) (es : List Elem) : (certAfter n st es).1.size = st.1.size := by
  induction es generalizing st with
  | nil => rfl
  | cons e es ih =>
    simp only [certAfter, List.foldl_cons] at ih ⊢
    rw [ih]
    cases e <;> simp [rstepE]

/-- certificates after each macro-step -/
def certList (n : Nat) : Array Nat × Nat → List (List Elem) → List (Array Nat × Nat)
  | _, [] => []
  | st, m :: ms => certAfter n st m :: certList n (certAfter n st m) ms

theorem certList_length (n : Nat) (st : Array Nat × Nat) (ms : List (List Elem)) :
    (certList n st ms).length = ms.length := by
  induction ms generalizing st with
  | nil => rfl
  | cons m ms ih => simp [certList, ih]

theorem certList_append (n : Nat) (st : Array Nat × Nat) (a b : List (List Elem)) :
    certList n st (a ++ b) = certList n st a ++ certList n (certAfter n st a.flatten) b := by
  induction a generalizing st with
  | nil => simp [certList, certAfter]
  | cons m a ih =>
    simp only [List.cons_append, certList, List.flatten_cons, certAfter_append, ih]

theorem certList_getElem (n : Nat) (st : Array Nat × Nat) (ms : List (List Elem)) (k : Nat) (hk : k < ms.length) :
    (certList n st ms)[k]? = some (certAfter n st (ms.take (k + 1)).flatten) := by
  induction ms generalizing st k with
  | nil => simp at hk
  | cons m ms ih =>
    cases k with
    | zero => simp [certList, certAfter]
    | succ k =>
      simp only [certList, List.getElem?_cons_succ, List.take_succ_cons, List.flatten_cons, certAfter_append]
      exact ih _ k (by simpa using hk)

/-- `p_canonization_res` replays the swaps up to `best_ind` -/
theorem pResLoop_eq (n bi : Nat) : ∀ (swaps : List Nat) (ind : Nat) (perm : Array Nat) (mask : Nat),
    perm.size = n → (∀ s ∈ swaps, s + 1 < n) → ind ≤ bi →
    pResLoop bi swaps ind perm = ((certList n (perm, mask) (macroP swaps))[bi - ind]?).map (·.1) := by
  intro swaps
  induction swaps with
  | nil => intro ind perm mask _ _ _; simp [pResLoop, macroP, certList]
  | cons s ss ih =>
    intro ind perm mask hsz hv hle
    have hs : s + 1 < perm.size := by rw [hsz]; exact hv s (by simp)
    simp only [pResLoop, hs, if_true, macroP, List.map_cons, certList]
    have hcert : certAfter n (perm, mask) [Elem.swap s] = (perm.swapIfInBounds s (s + 1), mask) := rfl
    by_cases he : ind = bi
    · subst he
      simp [hcert]
    · simp only [he, if_false]
      have hlt : ind < bi := by omega
      obtain ⟨d, hd⟩ : ∃ d, bi - ind = d + 1 := ⟨bi - ind - 1, by omega⟩
      rw [hd, List.getElem?_cons_succ, hcert]
      have := ih (ind + 1) (perm.swapIfInBounds s (s + 1)) mask (by simp [hsz]) (fun x hx => hv x (by simp [hx])) (by omega)
      rw [this]
      have : bi - (ind + 1) = d := by omega
      rw [this]; rfl

theorem pCanonRes_eq (n : Nat) (swaps : List Nat) (bi : Nat) (hv : ∀ s ∈ swaps, s + 1 < n) (hbi : bi < swaps.length) :
    pCanonRes n swaps bi = some (certAt n (macroP swaps) (bi + 1)).1 := by
  unfold pCanonRes certAt
  have : bi ≤ swaps.length := by omega
  simp only [this, if_true]
  rw [pResLoop_eq n bi swaps 0 (Array.range n) 0 (by simp) hv (by omega), Nat.sub_zero,
    certList_getElem n _ _ bi (by rw [macroP_length]; exact hbi)]
  rfl

/-- the flip loop of `n_canonization_res` / `npn_canonization_res` -/
theorem nResLoop_eq (n bi : Nat) : ∀ (flips : List Nat) (perm : Array Nat) (cur ind : Nat), ind ≤ bi →
    nResLoop n bi flips cur ind =
      match (certList n (perm, cur) (macroN flips))[bi - ind]? with
      | some st => .error st.2
      | none => .ok ((certAfter n (perm, cur) (macroN flips).flatten).2, ind + 2 * flips.length) := by
  intro flips
  induction flips with
  | nil => intro perm cur ind _; simp [nResLoop, macroN, certList, certAfter]
  | cons f fs ih =>
    intro perm cur ind hle
    have hm : macroN (f :: fs) = [Elem.flip f, Elem.neg] :: [Elem.neg] :: macroN fs := by
      simp [macroN]
    rw [hm]
    simp only [nResLoop, resTwice, certList]
    have c1 : certAfter n (perm, cur) [Elem.flip f, Elem.neg] = (perm, (cur ^^^ (1 <<< f)) ^^^ (1 <<< n)) := rfl
    have c2 : certAfter n (perm, (cur ^^^ (1 <<< f)) ^^^ (1 <<< n)) [Elem.neg] =
        (perm, ((cur ^^^ (1 <<< f)) ^^^ (1 <<< n)) ^^^ (1 <<< n)) := rfl
    rw [c1, c2]
    by_cases h0 : ind = bi
    · subst h0; simp
    · simp only [h0, if_false]
      by_cases h1 : ind + 1 = bi
      · have : bi - ind = 1 := by omega
        simp [h1, this]
      · simp only [h1, if_false]
        obtain ⟨d, hd⟩ : ∃ d, bi - ind = d + 2 := ⟨bi - ind - 2, by omega⟩
        rw [hd, List.getElem?_cons_succ, List.getElem?_cons_succ]
        have := ih perm (((cur ^^^ (1 <<< f)) ^^^ (1 <<< n)) ^^^ (1 <<< n)) (ind + 2) (by omega)
        rw [this]
        have e : bi - (ind + 2) = d := by omega
        rw [e]
        have ef : certAfter n (perm, cur) ([Elem.flip f, Elem.neg] :: [Elem.neg] :: macroN fs).flatten =
            certAfter n (perm, ((cur ^^^ (1 <<< f)) ^^^ (1 <<< n)) ^^^ (1 <<< n)) (macroN fs).flatten := by
          simp only [List.flatten_cons, certAfter_append, c1, c2]
        rw [ef]
        cases (certList n (perm, ((cur ^^^ (1 <<< f)) ^^^ (1 <<< n)) ^^^ (1 <<< n)) (macroN fs))[d]? with
        | some st => rfl
        | none => simp only [List.length_cons]; congr 2; omega

theorem nCanonRes_eq (n : Nat) (flips : List Nat) (bi : Nat) (hbi : bi < 2 * flips.length) :
    nCanonRes n flips bi = some (certAt n (macroN flips) (bi + 1)).2 := by
  unfold nCanonRes certAt
  rw [nResLoop_eq n bi flips (Array.range n) 0 0 (by omega), Nat.sub_zero,
    certList_getElem n _ _ bi (by rw [macroN_length]; exact hbi)]

/-- a block of the NPN walk has the certificates of the flip walk started after the swap -/
theorem certList_block (n : Nat) (perm : Array Nat) (cur s : Nat) (flips : List Nat) (h : flips ≠ []) :
    certList n (perm, cur) (macroBlock s flips) = certList n (perm.swapIfInBounds s (s + 1), cur) (macroN flips) ∧
    certAfter n (perm, cur) (macroBlock s flips).flatten =
      certAfter n (perm.swapIfInBounds s (s + 1), cur) (macroN flips).flatten := by
  match flips, h with
  | f0 :: fs, _ =>
    have hm : macroN (f0 :: fs) = [Elem.flip f0, Elem.neg] :: [Elem.neg] :: macroN fs := by simp [macroN]
    rw [hm]
    constructor
    · simp only [macroBlock, certList]
      rfl
    · simp only [macroBlock, List.flatten_cons, certAfter_append]
      rfl

theorem npnResLoop_eq (n bi : Nat) (flips : List Nat) (hf : flips ≠ []) :
    ∀ (swaps : List Nat) (cur ind : Nat) (perm : Array Nat), perm.size = n → (∀ s ∈ swaps, s + 1 < n) → ind ≤ bi →
    npnResLoop n bi flips swaps cur ind perm = (certList n (perm, cur) (macroNPN swaps flips))[bi - ind]? := by
  intro swaps
  induction swaps with
  | nil => intro cur ind perm _ _ _; simp [npnResLoop, macroNPN, certList]
  | cons s ss ih =>
    intro cur ind perm hsz hv hle
    have hs : s + 1 < perm.size := by rw [hsz]; exact hv s (by simp)
    have hnpn : macroNPN (s :: ss) flips = macroBlock s flips ++ macroNPN ss flips := by
      simp [macroNPN]
    obtain ⟨hb1, hb2⟩ := certList_block n perm cur s flips hf
    simp only [npnResLoop, hs, if_true]
    rw [nResLoop_eq n bi flips (perm.swapIfInBounds s (s + 1)) cur ind hle, hnpn, certList_append, hb1, hb2]
    have hlen : (certList n (perm.swapIfInBounds s (s + 1), cur) (macroN flips)).length = 2 * flips.length := by
      rw [certList_length, macroN_length]
    by_cases hin : bi - ind < 2 * flips.length
    · rw [List.getElem?_append_left (by rw [hlen]; exact hin)]
      cases hg : (certList n (perm.swapIfInBounds s (s + 1), cur) (macroN flips))[bi - ind]? with
      | none =>
        exfalso
        rw [List.getElem?_eq_none_iff, hlen] at hg; omega
      | some st =>
        simp only []
        -- the flip walk never changes the permutation
        have hperm : st.1 = perm.swapIfInBounds s (s + 1) := by
          have hk := certList_getElem n (perm.swapIfInBounds s (s + 1), cur) (macroN flips) (bi - ind)
            (by rw [macroN_length]; exact hin)
          rw [hg] at hk
          have hk' : st = certAfter n (perm.swapIfInBounds s (s + 1), cur) ((macroN flips).take (bi - ind + 1)).flatten :=
            Option.some.inj hk
          rw [hk']
          have noswap : ∀ (es : List Elem) (st0 : Array Nat × Nat), (∀ e ∈ es, ∀ q, e ≠ Elem.swap q) →
              (certAfter n st0 es).1 = st0.1 := by
            intro es
            induction es with
            | nil => intro st0 _; rfl
            | cons e es ih2 =>
              intro st0 hne
              simp only [certAfter, List.foldl_cons] at ih2 ⊢
              rw [ih2 _ (fun x hx => hne x (by simp [hx]))]
              cases e with
              | swap q => exact absurd rfl (hne (Elem.swap q) (by simp) q)
              | flip f => rfl
              | neg => rfl
          apply noswap
          intro e he q
          rw [List.mem_flatten] at he
          obtain ⟨m, hm, hem⟩ := he
          have hm' : m ∈ macroN flips := List.mem_of_mem_take hm
          simp only [macroN, List.mem_flatMap] at hm'
          obtain ⟨f, _, hmf⟩ := hm'
          simp only [List.mem_cons, List.mem_singleton, List.not_mem_nil, or_false] at hmf
          rcases hmf with rfl | rfl
          · simp only [List.mem_cons, List.not_mem_nil, or_false] at hem
            rcases hem with rfl | rfl <;> simp
          · simp only [List.mem_singleton] at hem
            subst hem; simp
        cases st with
        | mk p m => simp only [] at hperm; subst hperm; rfl
    · have hge : 2 * flips.length ≤ bi - ind := by omega
      rw [List.getElem?_append_right (by rw [hlen]; exact hge), hlen]
      have hnone : (certList n (perm.swapIfInBounds s (s + 1), cur) (macroN flips))[bi - ind]? = none := by
        rw [List.getElem?_eq_none_iff, hlen]; exact hge
      rw [hnone]
      simp only []
      have := ih (certAfter n (perm.swapIfInBounds s (s + 1), cur) (macroN flips).flatten).2 (ind + 2 * flips.length)
        (perm.swapIfInBounds s (s + 1)) (by simp [hsz]) (fun x hx => hv x (by simp [hx])) (by omega)
      rw [this]
      have e : bi - (ind + 2 * flips.length) = bi - ind - 2 * flips.length := by omega
      rw [e]
      -- the state handed to the next block
      have hst : (perm.swapIfInBounds s (s + 1), (certAfter n (perm.swapIfInBounds s (s + 1), cur) (macroN flips).flatten).2)
          = certAfter n (perm.swapIfInBounds s (s + 1), cur) (macroN flips).flatten := by
        have noswap : ∀ (es : List Elem) (st0 : Array Nat × Nat), (∀ e ∈ es, ∀ q, e ≠ Elem.swap q) →
            (certAfter n st0 es).1 = st0.1 := by
          intro es
          induction es with
          | nil => intro st0 _; rfl
          | cons e es ih2 =>
            intro st0 hne
            simp only [certAfter, List.foldl_cons] at ih2 ⊢
            rw [ih2 _ (fun x hx => hne x (by simp [hx]))]
            cases e with
            | swap q => exact absurd rfl (hne (Elem.swap q) (by simp) q)
            | flip f => rfl
            | neg => rfl
        have h1 := noswap (macroN flips).flatten (perm.swapIfInBounds s (s + 1), cur) (by
          intro e he q
          rw [List.mem_flatten] at he
          obtain ⟨m, hm', hem⟩ := he
          simp only [macroN, List.mem_flatMap] at hm'
          obtain ⟨f, _, hmf⟩ := hm'
          simp only [List.mem_cons, List.mem_singleton, List.not_mem_nil, or_false] at hmf
          rcases hmf with rfl | rfl
          · simp only [List.mem_cons, List.not_mem_nil, or_false] at hem
            rcases hem with rfl | rfl <;> simp
          · simp only [List.mem_singleton] at hem
            subst hem; simp)
        cases hc : certAfter n (perm.swapIfInBounds s (s + 1), cur) (macroN flips).flatten with
        | mk p m => rw [hc] at h1; simp only [] at h1; rw [h1]
      rw [hst]

theorem npnCanonRes_eq (n : Nat) (swaps flips : List Nat) (bi : Nat) (hf : flips ≠ []) (hv : ∀ s ∈ swaps, s + 1 < n)
    (hbi : bi < 2 * swaps.length * flips.length) :
    npnCanonRes n swaps flips bi = some (certAt n (macroNPN swaps flips) (bi + 1)) := by
  unfold npnCanonRes certAt
  rw [npnResLoop_eq n bi flips hf swaps 0 0 (Array.range n) (by simp) hv (by omega), Nat.sub_zero,
    certList_getElem n _ _ bi (by rw [macroNPN_length _ _ hf]; exact hbi)]

end VoluteModel

import VoluteModel.Lemmas.SeqCore

/-!
# The run-time Gray-flip generator, for every number of variables

`generate_gray_flips(n, true)` is a closed Hamiltonian walk of the n-cube for every 1 <= n <= 64
(the bound is the width of `trailing_zeros`): position j of the walk is the reflected Gray code
`j xor (j >> 1)` (`prefix_gray`), two consecutive Gray codes differ in exactly one bit
(`gray_step`), the Gray code is injective (`gray_inj`) and the last flip closes the walk
(`gray_last`).  With this the N-canonization theorems hold for every n <= 64, not only for the
sizes whose sequences were evaluated in the kernel.
-/

namespace VoluteModel

theorem xorFlips_snoc (fs : List Nat) (f : Nat) : xorFlips (fs ++ [f]) = xorFlips fs ^^^ 2 ^ f := by
  unfold xorFlips
  rw [List.foldl_append]
  simp [Nat.shiftLeft_eq]


def gray (i : Nat) : Nat := i ^^^ (i >>> 1)

theorem tz_pow (fuel t : Nat) (h : t < fuel) : trailingZerosFuel fuel (2 ^ t) = t := by
  induction fuel generalizing t with
  | zero => omega
  | succ fuel ih =>
    cases t with
    | zero => simp [trailingZerosFuel]
    | succ t =>
      have h2 : 2 ^ (t + 1) % 2 = 0 := by rw [Nat.pow_succ]; omega
      have h3 : 2 ^ (t + 1) / 2 = 2 ^ t := by rw [Nat.pow_succ]; omega
      simp only [trailingZerosFuel, h2, h3]
      rw [ih t (by omega)]
      simp
      omega

/-- every positive number is 2^(t+1) * q + 2^t for its lowest set bit t -/
theorem low_bit (i : Nat) (hi : 1 ≤ i) : ∃ t q, i = 2 ^ (t + 1) * q + 2 ^ t := by
  induction i using Nat.strongRecOn with
  | _ i ih =>
    by_cases hodd : i % 2 = 1
    · exact ⟨0, i / 2, by simp; omega⟩
    · obtain ⟨t, q, h⟩ := ih (i / 2) (by omega) (by omega)
      refine ⟨t + 1, q, ?_⟩
      have : i = 2 * (i / 2) := by omega
      have e1 : 2 ^ (t + 1 + 1) = 2 * 2 ^ (t + 1) := by rw [Nat.pow_succ]; omega
      have e2 : 2 ^ (t + 1) = 2 * 2 ^ t := by rw [Nat.pow_succ]; omega
      rw [this, h, e1, Nat.mul_add, Nat.mul_assoc, ← e2]

/-- two consecutive Gray codes differ in exactly one bit -/
theorem gray_step (i : Nat) (hi : 1 ≤ i) : ∃ t, gray (i - 1) ^^^ gray i = 2 ^ t ∧ 2 ^ t ≤ i := by
  obtain ⟨t, q, h⟩ := low_bit i hi
  refine ⟨t, ?_, by rw [h]; exact Nat.le_add_left _ _⟩
  have hp : 2 ^ t < 2 ^ (t + 1) := Nat.pow_lt_pow_right (by omega) (by omega)
  have hp1 : 2 ^ t - 1 < 2 ^ (t + 1) := by have := Nat.two_pow_pos t; omega
  have hi1 : i - 1 = 2 ^ (t + 1) * q + (2 ^ t - 1) := by
    have := Nat.two_pow_pos t; omega
  -- bits of i and of i - 1
  have bi : ∀ b, i.testBit b = if b < t + 1 then decide (b = t) else q.testBit (b - (t + 1)) := by
    intro b
    rw [h, Nat.testBit_two_pow_mul_add _ hp, Nat.testBit_two_pow]
    by_cases hb : b < t + 1
    · simp only [hb, if_true]
      by_cases e : t = b
      · simp [e]
      · have : ¬ b = t := fun x => e x.symm
        simp [e, this]
    · simp [hb]
  have bp : ∀ b, (i - 1).testBit b = if b < t + 1 then decide (b < t) else q.testBit (b - (t + 1)) := by
    intro b
    rw [hi1, Nat.testBit_two_pow_mul_add _ hp1, Nat.testBit_two_pow_sub_one]
  apply Nat.eq_of_testBit_eq
  intro b
  unfold gray
  rw [Nat.testBit_xor, Nat.testBit_xor, Nat.testBit_xor, Nat.testBit_shiftRight, Nat.testBit_shiftRight,
    Nat.testBit_two_pow, bi, bi, bp, bp]
  by_cases h1 : b < t
  · have a1 : b < t + 1 := by omega
    have a2 : 1 + b < t + 1 := by omega
    have a3 : ¬ b = t := by omega
    have a4 : ¬ t = b := by omega
    by_cases h2 : 1 + b = t
    · have a5 : ¬ 1 + b < t := by omega
      simp [a1, a2, a3, a4, h1, h2, a5]
    · have a5 : 1 + b < t := by omega
      simp [a1, a2, a3, a4, h1, h2, a5]
  · by_cases h2 : b = t
    · subst h2
      have a2 : ¬ 1 + b < b + 1 := by omega
      simp [a2]
    · have a1 : ¬ b < t + 1 := by omega
      have a2 : ¬ 1 + b < t + 1 := by omega
      have a4 : ¬ t = b := fun x => h2 x.symm
      simp only [a1, a2, if_false, a4, decide_false]
      have : 1 + b - (t + 1) = b - (t + 1) + 1 := by omega
      cases q.testBit (b - (t + 1)) <;> cases q.testBit (1 + b - (t + 1)) <;> rfl

theorem gray_testBit (a k : Nat) : (gray a).testBit k = (a.testBit k != a.testBit (k + 1)) := by
  unfold gray
  rw [Nat.testBit_xor, Nat.testBit_shiftRight, Nat.add_comm]

/-- the Gray code is injective -/
theorem gray_inj (n a b : Nat) (ha : a < 2 ^ n) (hb : b < 2 ^ n) (h : gray a = gray b) : a = b := by
  have key : ∀ d k, k + d = n → a.testBit k = b.testBit k := by
    intro d
    induction d with
    | zero =>
      intro k hk
      have hk' : k = n := by omega
      rw [hk', Nat.testBit_lt_two_pow ha, Nat.testBit_lt_two_pow hb]
    | succ d ih =>
      intro k hk
      have e := congrArg (fun v => v.testBit k) h
      simp only [gray_testBit] at e
      have nxt := ih (k + 1) (by omega)
      rw [nxt] at e
      cases ha' : a.testBit k <;> cases hb' : b.testBit k <;> cases hc : b.testBit (k + 1) <;> simp_all
  apply Nat.eq_of_testBit_eq
  intro k
  by_cases hk : k ≤ n
  · exact key (n - k) k (by omega)
  · rw [Nat.testBit_lt_two_pow (Nat.lt_of_lt_of_le ha (Nat.pow_le_pow_right (by omega) (by omega))),
      Nat.testBit_lt_two_pow (Nat.lt_of_lt_of_le hb (Nat.pow_le_pow_right (by omega) (by omega)))]

theorem gray_lt (n a : Nat) (ha : a < 2 ^ n) : gray a < 2 ^ n := by
  unfold gray
  apply Nat.xor_lt_two_pow ha
  rw [Nat.shiftRight_eq_div_pow]
  exact Nat.lt_of_le_of_lt (Nat.div_le_self _ _) ha

theorem gray_last (n : Nat) (hn : 1 ≤ n) : gray (2 ^ n - 1) = 2 ^ (n - 1) := by
  apply Nat.eq_of_testBit_eq
  intro k
  rw [gray_testBit, Nat.testBit_two_pow_sub_one, Nat.testBit_two_pow_sub_one, Nat.testBit_two_pow]
  by_cases h1 : k + 1 < n
  · have : k < n := by omega
    have e : ¬ n - 1 = k := by omega
    simp [h1, this, e]
  · by_cases h2 : k < n
    · have e : n - 1 = k := by omega
      simp [h1, h2, e]
    · have e : ¬ n - 1 = k := by omega
      simp [h1, h2, e]



/-- the flip written at position k of the generated sequence -/
def flipOf (k : Nat) : Nat := trailingZeros (gray k ^^^ gray (k + 1))

theorem gen_eq (n : Nat) : generateGrayFlips n true = (List.range (2 ^ n - 1)).map flipOf ++ [n - 1] := by
  unfold generateGrayFlips flipOf gray
  simp only [Nat.shiftLeft_eq, Nat.one_mul, if_true, Nat.add_sub_cancel]

theorem flipOf_spec (n k : Nat) (hn : n ≤ 64) (hk : k + 1 < 2 ^ n) :
    2 ^ flipOf k = gray k ^^^ gray (k + 1) ∧ flipOf k < n := by
  obtain ⟨t, ht, hle⟩ := gray_step (k + 1) (by omega)
  simp only [Nat.add_sub_cancel] at ht
  have htn : t < n := by
    by_cases h : t < n
    · exact h
    · have : 2 ^ n ≤ 2 ^ t := Nat.pow_le_pow_right (by omega) (by omega)
      omega
  have : flipOf k = t := by
    unfold flipOf trailingZeros
    rw [ht]
    exact tz_pow 64 t (by omega)
  rw [this]
  exact ⟨ht.symm, htn⟩

/-- the xor of the first j flips is the j-th Gray code -/
theorem prefix_gray (n : Nat) (hn : n ≤ 64) (j : Nat) (hj : j < 2 ^ n) :
    xorFlips (((List.range (2 ^ n - 1)).map flipOf).take j) = gray j := by
  induction j with
  | zero => simp [xorFlips, gray]
  | succ j ih =>
    have hlen : j < ((List.range (2 ^ n - 1)).map flipOf).length := by simp; omega
    rw [List.take_succ, List.getElem?_eq_getElem hlen]
    simp only [Option.toList_some]
    rw [xorFlips_snoc, ih (by omega), List.getElem_map, List.getElem_range, (flipOf_spec n j hn (by omega)).1]
    rw [← Nat.xor_assoc, Nat.xor_self, Nat.zero_xor]

theorem gray_flips_facts (n : Nat) (h1 : 1 ≤ n) (hn : n ≤ 64) :
    ((∀ f ∈ generateGrayFlips n true, f < n) ∧ xorFlips (generateGrayFlips n true) = 0 ∧
      generateGrayFlips n true ≠ []) ∧ (prefixXors 0 (generateGrayFlips n true)).Nodup ∧
      (generateGrayFlips n true).length = 2 ^ n := by
  have hpos : 1 ≤ 2 ^ n := Nat.two_pow_pos n
  have hlen : (generateGrayFlips n true).length = 2 ^ n := by
    rw [gen_eq]; simp; omega
  have hbody : ((List.range (2 ^ n - 1)).map flipOf).length = 2 ^ n - 1 := by simp
  -- prefix xors of the whole sequence
  have hpre : ∀ j, j < 2 ^ n → xorFlips ((generateGrayFlips n true).take j) = gray j := by
    intro j hj
    rw [gen_eq, List.take_append_of_le_length (by rw [hbody]; omega)]
    exact prefix_gray n hn j hj
  refine ⟨⟨?_, ?_, ?_⟩, ?_, hlen⟩
  · intro f hf
    rw [gen_eq, List.mem_append] at hf
    rcases hf with hf | hf
    · obtain ⟨k, hk, rfl⟩ := List.mem_map.mp hf
      exact (flipOf_spec n k hn (by have := List.mem_range.mp hk; omega)).2
    · have : f = n - 1 := by simpa using hf
      omega
  · have : generateGrayFlips n true = (generateGrayFlips n true).take (2 ^ n - 1) ++ [n - 1] := by
      conv => lhs; rw [gen_eq]
      rw [gen_eq, List.take_append_of_le_length (by rw [hbody]; exact Nat.le_refl _),
        List.take_of_length_le (by rw [hbody]; exact Nat.le_refl _)]
    rw [this, xorFlips_snoc, hpre (2 ^ n - 1) (by omega), gray_last n h1, Nat.xor_self]
  · intro h
    rw [h] at hlen
    simp at hlen
    omega
  · -- the visited masks are the Gray codes 0 .. 2^n - 1
    have hlist : prefixXors 0 (generateGrayFlips n true) = (List.range (2 ^ n)).map gray := by
      apply List.ext_getElem?
      intro j
      by_cases hj : j < 2 ^ n
      · rw [prefixXors_getElem 0 _ j (by rw [hlen]; exact hj), Nat.zero_xor, hpre j hj]
        simp [hj]
      · rw [List.getElem?_eq_none (by rw [prefixXors_length, hlen]; omega),
          List.getElem?_eq_none (by simp; omega)]
    rw [hlist]
    unfold List.Nodup
    rw [List.pairwise_map]
    refine List.Pairwise.imp_of_mem ?_ (List.nodup_range (n := 2 ^ n))
    intro a b ha hb hne e
    exact hne (gray_inj n a b (List.mem_range.mp ha) (List.mem_range.mp hb) e)

end VoluteModel
